// C02 harness driver (in-package; compiled together with harness/C01/c01_test.go for the shared
// transport and observation helpers).  A case is ((step...) (msg...) script):
//   step = (cid form fmt adj)   one chunk on chunk stream cid, basic header form 1/2/3 bytes,
//                               message header type fmt, adj added to the length field (rule breaking)
//   msg  = (cid ts type sid payload)
// The reference chunker below is written from RTMP 1.0 section 5.3 (not from the library's
// writer) and is the Go transliteration of spec_step/spec_run in coq/Model/RtmpChunk.v: the
// observation carries its bytes (length, hash), so the model run compares the two
// transliterations byte for byte on every case.  Its output is fed to the real ReadMessage.
// Direct oracle: decoded messages == chunked messages in completion order, timestamps mod 2^31;
// rule-breaking traces (type 0 inside a message, length change inside a message, fresh chunk
// stream not starting with type 0 except cid 2 / type 1) must end in the corresponding error.
package rtmp

import (
	"fmt"
	"testing"
)

type vC02Msg struct {
	cid, ts, typ, sid uint64
	payload           []byte
	tainted           bool // timestamp depends on an extended-timestamp delta (known finding ext-ts-delta)
}

type vC02Prev struct {
	ts, delta, ln, typ, sid uint64
	ext                     bool
	extv                    uint64
}

type vC02Step struct{ cid, form, fmt, adj uint64 }

type vC02Fly struct {
	m   *vC02Msg
	rem []byte
}

type vC02Sender struct {
	size uint64
	prev map[uint64]*vC02Prev
	fly  map[uint64]*vC02Fly
	pend []*vC02Msg
	// bookkeeping for the oracles (not part of the chunker)
	taint map[uint64]bool
}

func vC02NewSender(msgs []*vC02Msg) *vC02Sender {
	return &vC02Sender{size: 128, prev: map[uint64]*vC02Prev{}, fly: map[uint64]*vC02Fly{}, pend: msgs, taint: map[uint64]bool{}}
}

func vC02Sub(a, b uint64) uint64 {
	if a < b {
		return 0
	}
	return a - b
}
func vC02Be3(v uint64) []byte { return []byte{byte(v >> 16), byte(v >> 8), byte(v)} }
func vC02Be4(v uint64) []byte { return []byte{byte(v >> 24), byte(v >> 16), byte(v >> 8), byte(v)} }
func vC02Le4(v uint64) []byte { return []byte{byte(v), byte(v >> 8), byte(v >> 16), byte(v >> 24)} }
func vC02Field(v uint64) []byte {
	if v < 0xffffff {
		return vC02Be3(v)
	}
	return vC02Be3(0xffffff)
}
func vC02Ext(v uint64) []byte {
	if v < 0xffffff {
		return nil
	}
	return vC02Be4(v)
}

// 5.3.1.1
func vC02Basic(f, cid, form uint64) []byte {
	switch form {
	case 1:
		return []byte{byte(f*64 + cid%64)}
	case 2:
		return []byte{byte(f * 64), byte(vC02Sub(cid, 64) % 256)}
	}
	return []byte{byte(f*64 + 1), byte(vC02Sub(cid, 64) % 256), byte(vC02Sub(cid, 64) / 256 % 256)}
}

func vC02FormLegal(cid, form uint64) bool {
	switch form {
	case 1:
		return cid >= 2 && cid <= 63
	case 2:
		return cid >= 64 && cid <= 319
	case 3:
		return cid >= 64 && cid <= 65599
	}
	return false
}

// 5.3.1.2: header of a message-starting chunk
func vC02Mhdr(f uint64, prev *vC02Prev, m *vC02Msg, adj uint64) (hb []byte, np vC02Prev, ok bool) {
	var p vC02Prev
	have := prev != nil
	if have {
		p = *prev
	}
	ln := uint64(len(m.payload))
	ts := m.ts
	d := vC02Sub(ts, p.ts)
	switch f {
	case 0:
		hb = append(hb, vC02Field(ts)...)
		hb = append(hb, vC02Be3(ln+adj)...)
		hb = append(hb, byte(m.typ))
		hb = append(hb, vC02Le4(m.sid)...)
		hb = append(hb, vC02Ext(ts)...)
		return hb, vC02Prev{ts, ts, ln, m.typ, m.sid, ts >= 0xffffff, ts}, adj == 0
	case 1:
		hb = append(hb, vC02Field(d)...)
		hb = append(hb, vC02Be3(ln+adj)...)
		hb = append(hb, byte(m.typ))
		hb = append(hb, vC02Ext(d)...)
		return hb, vC02Prev{ts, d, ln, m.typ, m.sid, d >= 0xffffff, d}, have && adj == 0 && p.ts <= ts && m.sid == p.sid
	case 2:
		hb = append(hb, vC02Field(d)...)
		hb = append(hb, vC02Ext(d)...)
		return hb, vC02Prev{ts, d, ln, m.typ, m.sid, d >= 0xffffff, d},
			have && p.ts <= ts && m.sid == p.sid && ln == p.ln && m.typ == p.typ
	}
	if p.ext {
		hb = vC02Be4(p.extv)
	}
	return hb, vC02Prev{ts, p.delta, ln, m.typ, m.sid, p.ext, p.extv},
		have && ts == p.ts+p.delta && m.sid == p.sid && ln == p.ln && m.typ == p.typ
}

func vC02BodyOk(m *vC02Msg) bool {
	p := m.payload
	switch m.typ {
	case 1:
		if len(p) < 4 {
			return false
		}
		n := uint64(p[0])<<24 | uint64(p[1])<<16 | uint64(p[2])<<8 | uint64(p[3])
		return n >= 1 && n < 1<<31
	case 2:
		return false
	case 5:
		return len(p) >= 4
	case 4:
		if len(p) < 2 {
			return false
		}
		et := uint64(p[0])<<8 | uint64(p[1])
		size := 2 + 4
		if et == 26 {
			size = 2 + 1
		}
		if et == 3 {
			size += 4
		}
		return size <= len(p)
	}
	return true
}

func vC02MsgOk(m *vC02Msg) bool {
	return len(m.payload) >= 1 && len(m.payload) < 1<<24 && m.ts < 1<<32 && m.typ < 256 && m.sid < 1<<32 && vC02BodyOk(m)
}

// rule-breaking kinds the reader must reject (error class of the harness)
const (
	vC02ViolNone   = 0
	vC02ViolFresh  = 3 // fresh chunk stream not starting with type 0 (except cid 2 / type 1)
	vC02ViolExists = 4 // type 0 inside an unfinished message
	vC02ViolSize   = 5 // length change inside an unfinished message
)

// one chunk: bytes, completed message, legal, and (for the oracle) the rule-breaking kind
func (sd *vC02Sender) step(st vC02Step) (w []byte, done *vC02Msg, ok bool, viol int) {
	cid := st.cid
	fl := vC02FormLegal(cid, st.form) && st.fmt < 4
	emit := func(hb []byte, np vC02Prev, m *vC02Msg, rem []byte, ok bool) ([]byte, *vC02Msg, bool) {
		n := uint64(len(rem))
		if n > sd.size {
			n = sd.size
		}
		a, r := rem[:n], rem[n:]
		w := append([]byte{}, vC02Basic(st.fmt, cid, st.form)...)
		w = append(w, hb...)
		w = append(w, a...)
		npc := np
		sd.prev[cid] = &npc
		if len(r) == 0 {
			delete(sd.fly, cid)
			if m.typ == 1 && len(m.payload) >= 4 {
				p := m.payload
				sd.size = uint64(p[0])<<24 | uint64(p[1])<<16 | uint64(p[2])<<8 | uint64(p[3])
			}
			return w, m, ok
		}
		sd.fly[cid] = &vC02Fly{m, r}
		return w, nil, ok
	}
	if f, in := sd.fly[cid]; in {
		var p vC02Prev
		if q := sd.prev[cid]; q != nil {
			p = *q
		}
		if st.fmt == 3 {
			var hb []byte
			if p.ext {
				hb = vC02Be4(p.extv)
			}
			w, done, ok = emit(hb, p, f.m, f.rem, fl && st.adj == 0)
			return w, done, ok, vC02ViolNone
		}
		switch {
		case st.fmt == 0:
			viol = vC02ViolExists
		case st.fmt == 1 && (uint64(len(f.m.payload))+st.adj)&0xffffff != uint64(len(f.m.payload)):
			viol = vC02ViolSize
		}
		hb, np, _ := vC02Mhdr(st.fmt, &p, f.m, st.adj)
		w, done, _ = emit(hb, np, f.m, f.rem, false)
		return w, done, false, viol
	}
	for i, m := range sd.pend {
		if m.cid != cid {
			continue
		}
		rest := append(append([]*vC02Msg{}, sd.pend[:i]...), sd.pend[i+1:]...)
		prev := sd.prev[cid]
		if prev == nil && st.fmt != 0 && !(cid == 2 && st.fmt == 1) {
			viol = vC02ViolFresh
		}
		// known finding ext-ts-delta: the library takes an extended timestamp on a type-1/2
		// chunk, or on a type-3 chunk that starts a message, as absolute
		switch {
		case st.fmt == 0:
			sd.taint[cid] = false
		case prev != nil && st.fmt <= 2 && vC02Sub(m.ts, prev.ts) >= 0xffffff:
			sd.taint[cid] = true
		case prev != nil && st.fmt == 3 && prev.ext:
			sd.taint[cid] = true
		}
		m.tainted = sd.taint[cid]
		hb, np, mok := vC02Mhdr(st.fmt, prev, m, st.adj)
		sd.pend = rest
		w, done, ok = emit(hb, np, m, m.payload, fl && mok && vC02MsgOk(m))
		return w, done, ok, viol
	}
	return nil, nil, false, vC02ViolNone
}

func vC02ParseCase(c vSx) (steps []vC02Step, msgs []*vC02Msg, script []int, ok bool) {
	if !c.isList() || len(c.l) != 3 || !c.l[0].isList() || !c.l[1].isList() || !c.l[2].isList() {
		return nil, nil, nil, false
	}
	for _, s := range c.l[0].l {
		if !s.isList() || len(s.l) != 4 {
			return nil, nil, nil, false
		}
		for _, x := range s.l {
			if !x.isInt() || x.z.Sign() < 0 {
				return nil, nil, nil, false
			}
		}
		steps = append(steps, vC02Step{s.l[0].u64() & 0xffffffff, s.l[1].u64(), s.l[2].u64() % 4, s.l[3].u64() & 0xffffffff})
	}
	for _, s := range c.l[1].l {
		if !s.isList() {
			return nil, nil, nil, false
		}
		m, mok := vC01ParseMsg(s.l)
		if !mok {
			return nil, nil, nil, false
		}
		msgs = append(msgs, &vC02Msg{cid: uint64(m.cid), ts: m.ts, typ: uint64(m.typ), sid: uint64(m.sid), payload: m.payload})
	}
	for _, x := range c.l[2].l {
		if !x.isInt() || x.z.Sign() < 0 {
			return nil, nil, nil, false
		}
		script = append(script, int(x.u64()))
	}
	return steps, msgs, script, true
}

func vC02MsgObs(m *vC02Msg) vSx {
	return vL(vU(m.cid), vU(m.ts%(1<<31)), vU(m.typ), vU(m.sid), vI(len(m.payload)), vU(vC01Hash(m.payload)))
}

func vC02Run(k *vKit, c vSx) (obs vSx, failOracle, failKey, failDetail string, nontrivial bool) {
	steps, msgs, script, ok := vC02ParseCase(c)
	if !ok {
		return vL(vZ(-1)), "", "", "", false
	}
	sd := vC02NewSender(msgs)
	var wire []byte
	var done []*vC02Msg
	legal := true
	viol, violAt := vC02ViolNone, 0 // first rule-breaking chunk and the number of messages completed before it
	fmts := map[uint64]bool{}
	streams := map[uint64]bool{}
	interleaved := false
	for _, st := range steps {
		if len(sd.fly) > 0 {
			if _, in := sd.fly[st.cid]; !in {
				interleaved = true
			}
		}
		w, d, sok, v := sd.step(st)
		if v != vC02ViolNone && viol == vC02ViolNone && legal {
			viol, violAt = v, len(done)
		}
		wire = append(wire, w...)
		if d != nil {
			done = append(done, d)
		}
		legal = legal && sok
		fmts[st.fmt] = true
		streams[st.cid] = true
		k.count("fmt", fmt.Sprint(st.fmt))
		k.count("form", fmt.Sprint(st.form))
	}
	legal = legal && len(sd.fly) == 0 && len(sd.pend) == 0
	nontrivial = len(fmts) >= 2 || (len(streams) >= 2 && interleaved)

	buf := &vC01Buf{data: wire, script: script}
	p := NewProtocol(&vC01Conn{in: buf, out: &vC01Buf{}})
	got, class := vC01ReadAll(p)
	var dl, gl []vSx
	for _, m := range done {
		dl = append(dl, vC02MsgObs(m))
	}
	for _, m := range got {
		gl = append(gl, vC01MsgObs(m))
	}
	obs = vOk(vL(vI(len(wire)), vU(vC01Hash(wire))), vBool(legal), vLs(dl), vLs(gl), vI(class))
	k.count("final", fmt.Sprint(class))
	bad := func(o, key, d string) {
		if failOracle == "" {
			failOracle, failKey, failDetail = o, key, d
		}
	}
	if class == 1000 {
		bad("no-panic", "", "ReadMessage panicked")
	}
	same := func(g *Message, w *vC02Msg, ts bool) bool {
		return uint64(g.betterCid) == w.cid && uint64(g.MessageType) == w.typ && uint64(g.streamID) == w.sid &&
			string(g.Payload) == string(w.payload) && (!ts || g.Timestamp == w.ts%(1<<31))
	}
	switch {
	case legal:
		k.count("kind", "legal")
		// direct oracle: exactly the chunked messages, in completion order, spec timestamps
		if len(got) != len(done) || class != 1 {
			bad("decode", "", fmt.Sprintf("%d messages chunked, %d decoded, final class %d", len(done), len(got), class))
			break
		}
		for i, w := range done {
			if same(got[i], w, true) {
				continue
			}
			if same(got[i], w, false) && w.tainted {
				k.count("kind", "ext-ts-delta")
				bad("decode", "ext-ts-delta", fmt.Sprintf("message %d on chunk stream %d: timestamp %d decoded, specification gives %d (extended timestamp delta taken as absolute)", i, w.cid, got[i].Timestamp, w.ts%(1<<31)))
				continue
			}
			bad("decode", "", fmt.Sprintf("message %d: chunked (cid %d ts %d type %d sid %d len %d) decoded (cid %d ts %d type %d sid %d len %d)",
				i, w.cid, w.ts%(1<<31), w.typ, w.sid, len(w.payload), got[i].betterCid, got[i].Timestamp, got[i].MessageType, got[i].streamID, len(got[i].Payload)))
			failKey = ""
			break
		}
	case viol != vC02ViolNone:
		k.count("kind", fmt.Sprintf("reject-%d", viol))
		// direct oracle: everything before the rule-breaking chunk is delivered, then an error
		// of the matching kind; never a message made from the broken chunk
		if class != viol {
			bad("reject", "", fmt.Sprintf("rule-breaking chunk of kind %d after %d messages: reader ended with class %d and %d messages", viol, violAt, class, len(got)))
			break
		}
		if len(got) != violAt {
			bad("reject", "", fmt.Sprintf("rule-breaking chunk of kind %d after %d messages: %d messages delivered", viol, violAt, len(got)))
			break
		}
		for i := 0; i < violAt; i++ {
			if !same(got[i], done[i], !done[i].tainted) {
				bad("reject", "", fmt.Sprintf("message %d before the rule-breaking chunk differs", i))
				break
			}
		}
	default:
		k.count("kind", "other-illegal")
	}
	return obs, failOracle, failKey, failDetail, nontrivial
}

// ---------- generators ----------
type vC02Gen struct {
	r     *vRng
	sd    *vC02Sender
	steps []vSx
	msgs  []vSx
	all   []*vC02Msg
	chunk int
}

func (g *vC02Gen) form(cid uint64) uint64 {
	switch {
	case cid <= 63:
		return 1
	case cid <= 319:
		return uint64(g.r.pickInt(2, 2, 3))
	}
	return 3
}

func (g *vC02Gen) addStep(st vC02Step) {
	g.steps = append(g.steps, vL(vU(st.cid), vU(st.form), vU(st.fmt), vU(st.adj)))
	g.sd.step(st)
}

func (g *vC02Gen) addMsg(m *vC02Msg, pay vSx) {
	g.msgs = append(g.msgs, vL(vU(m.cid), vU(m.ts), vU(m.typ), vU(m.sid), pay))
	g.sd.pend = append(g.sd.pend, m)
}

// start a new message on cid with a header type chosen among those the specification allows
// (wantFmt < 0) or with the requested one
func (g *vC02Gen) start(cid uint64, wantFmt int, maxChunks int) {
	r := g.r
	prev := g.sd.prev[cid]
	f := uint64(0)
	if wantFmt >= 0 {
		f = uint64(wantFmt)
	} else if prev != nil {
		f = uint64(r.pickInt(0, 1, 1, 2, 2, 3, 3))
	}
	if prev != nil && f >= 2 && g.sd.size > 0 && prev.ln > uint64(maxChunks)*g.sd.size {
		f = 1
	}
	if prev != nil && f == 3 && prev.ext && wantFmt < 0 && !r.chance(1, 10) {
		f = uint64(r.pickInt(1, 2)) // a type-3 start after an extended timestamp is the known finding; keep it rare
	}
	m := &vC02Msg{cid: cid}
	m.typ = uint64(r.pickInt(8, 9, 8, 9, 18, 20, 15, 17, 22, r.rng(7, 255)))
	m.sid = r.pickU64(0, 1, 1, 2, 0xffffffff, 0x01020304)
	size := int(g.sd.size)
	ln := 1
	switch r.intn(9) {
	case 0:
		ln = 1
	case 1:
		ln = size - 1
	case 2:
		ln = size
	case 3:
		ln = size + 1
	case 4:
		ln = 2*size + r.rng(-1, 1)
	case 5:
		ln = r.rng(1, 400)
	case 6:
		ln = r.rng(2, 5)*size + r.rng(-1, 1)
	default:
		ln = r.rng(1, 2*128)
	}
	if ln < 1 {
		ln = 1
	}
	if size > 0 && ln > maxChunks*size {
		ln = maxChunks * size
	}
	if ln >= 1<<24 {
		ln = 65536
	}
	if ln > 70000 {
		ln = r.pickInt(65535, 65536, 65537)
	}
	if ln > 3000 && !r.chance(1, 12) {
		ln = r.rng(1, 3000) // keep most cases small; the chunk-size-relative sizes stay frequent for small chunk sizes
	}
	a := r.intn(251)
	var pay vSx
	// protocol control messages now and then
	switch r.intn(12) {
	case 0:
		m.typ = 1
		nv := r.pickU64(1, 2, 127, 128, 129, 4096, 65536, 0x7fffffff, uint64(r.rng(1, 300)))
		m.payload = vC01Be4(uint32(nv))
		pay = vB(m.payload)
	case 1:
		m.typ = uint64(r.pickInt(3, 4, 5, 6))
		m.payload = vC01CtlBody(r, int(m.typ))
		pay = vB(m.payload)
	default:
		m.payload = make([]byte, ln)
		for i := range m.payload {
			m.payload[i] = byte((uint64(a) + uint64(i%251)) % 251)
		}
		pay = vL(vI(ln), vI(a))
	}
	// timestamp
	delta := r.pickU64(0, 1, 20, 40, 1000, 0xfffffe, uint64(r.intn(100000)))
	if r.chance(1, 60) {
		delta = r.pickU64(0xffffff, 0x1000000, 0x7fffffff, 0xfffffffe) // extended delta (known finding)
	}
	switch {
	case f == 0 || prev == nil:
		m.ts = r.pickU64(0, 0, 1, 26, 0xfffffe, 0xffffff, 0x1000000, 0x7fffffff, 0x80000000, 0xffffffff, uint64(r.intn(1<<31)), uint64(r.intn(100000)))
		if prev != nil && r.chance(1, 2) {
			m.ts = prev.ts + delta // type 0 is also allowed going forward
		}
	case f == 1:
		m.ts = prev.ts + delta
		m.sid = prev.sid
	case f == 2:
		m.ts = prev.ts + delta
		m.sid, m.typ = prev.sid, prev.typ
		if m.typ == 1 || (m.typ >= 3 && m.typ <= 6) || uint64(len(m.payload)) != prev.ln {
			m.payload = make([]byte, prev.ln)
			for i := range m.payload {
				m.payload[i] = byte((uint64(a) + uint64(i%251)) % 251)
			}
			if m.typ == 1 {
				copy(m.payload, vC01Be4(uint32(r.pickInt(1, 128, 4096))))
				pay = vB(m.payload)
			} else if m.typ >= 3 && m.typ <= 6 {
				copy(m.payload, vC01CtlBody(r, int(m.typ)))
				pay = vB(m.payload)
			} else {
				pay = vL(vU(prev.ln), vI(a))
			}
		}
	default:
		m.ts = prev.ts + prev.delta
		m.sid, m.typ = prev.sid, prev.typ
		m.payload = make([]byte, prev.ln)
		for i := range m.payload {
			m.payload[i] = byte((uint64(a) + uint64(i%251)) % 251)
		}
		pay = vL(vU(prev.ln), vI(a))
		if m.typ == 1 || (m.typ >= 3 && m.typ <= 6) {
			// a repeated control message: keep the previous body shape by falling back to type 0
			f = 0
			m.typ = 9
		}
	}
	if m.ts >= 1<<32 {
		m.ts = 0xffffffff
		f = 0
	}
	if len(m.payload) == 0 {
		m.payload = []byte{1}
		pay = vB(m.payload)
		if f >= 2 {
			f = 0
		}
	}
	g.addMsg(m, pay)
	g.addStep(vC02Step{cid, g.form(cid), f, 0})
}

func vC02GenCase(r *vRng, thorough bool) vSx {
	g := &vC02Gen{r: r}
	g.sd = vC02NewSender(nil)
	pool := []uint64{2, 3, 63, 64, 319, 320, 65599, uint64(r.rng(4, 62)), uint64(r.rng(65, 318)), uint64(r.rng(321, 65598))}
	ncs := r.rng(1, 6)
	var css []uint64
	for i := 0; i < ncs; i++ {
		css = append(css, pool[r.intn(len(pool))])
	}
	nmsg := r.rng(1, 12)
	if r.chance(1, 6) {
		nmsg = r.rng(13, 40)
	}
	maxChunks := 12
	if thorough {
		maxChunks = 40
	}
	malformed := r.chance(1, 6)
	breakAt := -1
	if malformed {
		breakAt = r.intn(nmsg)
	}
	started := 0
	for guard := 0; guard < 5000; guard++ {
		// chunk streams with a message in flight
		var inflight []uint64
		for _, c := range css {
			if _, in := g.sd.fly[c]; in {
				inflight = append(inflight, c)
			}
		}
		if started >= nmsg && len(inflight) == 0 {
			break
		}
		if malformed && started == breakAt+1 && r.chance(1, 2) {
			// one rule-breaking chunk, then carry on (the reader stops at it)
			malformed = false
			if len(inflight) > 0 && r.chance(2, 3) {
				c := inflight[r.intn(len(inflight))]
				if r.chance(1, 2) {
					g.addStep(vC02Step{c, g.form(c), 0, 0}) // type 0 inside a message
				} else {
					g.addStep(vC02Step{c, g.form(c), 1, uint64(r.pickInt(1, 1, 2, 255))}) // length change
				}
			} else {
				// fresh chunk stream starting with type 1/2/3
				c := uint64(r.pickInt(9, 10, 70, 400, 3))
				if g.sd.prev[c] == nil {
					if _, in := g.sd.fly[c]; !in {
						g.start(c, r.pickInt(1, 2, 3), maxChunks)
						started++
						css = append(css, c)
					}
				}
			}
			continue
		}
		// continue an unfinished message, or start a new one (interleaving)
		var idle []uint64
		for _, c := range css {
			if _, in := g.sd.fly[c]; !in {
				idle = append(idle, c)
			}
		}
		if len(inflight) > 0 && (started >= nmsg || len(idle) == 0 || r.chance(2, 3)) {
			c := inflight[r.intn(len(inflight))]
			g.addStep(vC02Step{c, g.form(c), 3, 0})
			continue
		}
		if len(idle) == 0 {
			continue
		}
		c := idle[r.intn(len(idle))]
		g.start(c, -1, maxChunks)
		started++
	}
	return vL(vLs(g.steps), vLs(g.msgs), vLs(vC01Script(r, false)))
}

// thorough: short traces over an abstract alphabet, every combination
// letter = header type x chunk stream/basic header form x timestamp class x length class;
// every word is run under each chunk size class (announced by a leading Set Chunk Size)
func vC02Enumerate(depth int, reduced bool, emit func(vSx)) {
	type csf struct{ cid, form uint64 }
	css := []csf{{3, 1}, {64, 2}, {64, 3}, {320, 3}}
	tsc := []uint64{0, 26, 0xfffffe, 0x1000000}
	lens := []int{1, 128, 129}
	sizes := []uint64{128, 1}
	if reduced {
		css = []csf{{3, 1}, {64, 3}}
		tsc = []uint64{26, 0x1000000}
		lens = []int{1, 129}
		sizes = []uint64{128}
	}
	type letter struct {
		f, ts uint64
		cs    csf
		ln    int
	}
	var letters []letter
	for f := uint64(0); f < 4; f++ {
		for _, c := range css {
			for _, t := range tsc {
				for _, l := range lens {
					letters = append(letters, letter{f, t, c, l})
				}
			}
		}
	}
	var rec func(word []letter)
	rec = func(word []letter) {
		if len(word) > 0 {
			for _, size := range sizes {
				// each letter = one whole message: its first chunk with the letter's header type,
				// type-3 chunks for the rest; timestamps are prev + class (class = absolute for type 0)
				sd := vC02NewSender(nil)
				var steps, msgs []vSx
				if size != 128 {
					m := &vC02Msg{cid: 2, typ: 1, payload: vC01Be4(uint32(size))}
					msgs = append(msgs, vL(vU(2), vU(0), vU(1), vU(0), vB(m.payload)))
					sd.pend = append(sd.pend, m)
					steps = append(steps, vL(vU(2), vU(1), vU(0), vU(0)))
					sd.step(vC02Step{2, 1, 0, 0})
				}
				for _, le := range word {
					cid := le.cs.cid
					m := &vC02Msg{cid: cid, typ: 9, sid: 1}
					prev := sd.prev[cid]
					m.ts = le.ts
					if prev != nil && le.f != 0 {
						m.ts = prev.ts + le.ts
						if le.f == 3 {
							m.ts = prev.ts + prev.delta
						}
					}
					ln := le.ln
					if prev != nil && le.f >= 2 {
						ln = int(prev.ln)
					}
					m.payload = make([]byte, ln)
					for i := range m.payload {
						m.payload[i] = byte(i % 251)
					}
					msgs = append(msgs, vL(vU(m.cid), vU(m.ts), vU(m.typ), vU(m.sid), vL(vI(ln), vI(0))))
					sd.pend = append(sd.pend, m)
					steps = append(steps, vL(vU(cid), vU(le.cs.form), vU(le.f), vU(0)))
					sd.step(vC02Step{cid, le.cs.form, le.f, 0})
					for {
						if _, in := sd.fly[cid]; !in {
							break
						}
						steps = append(steps, vL(vU(cid), vU(le.cs.form), vU(3), vU(0)))
						sd.step(vC02Step{cid, le.cs.form, 3, 0})
					}
				}
				emit(vL(vLs(steps), vLs(msgs), vL()))
			}
		}
		if len(word) == depth {
			return
		}
		for _, le := range letters {
			rec(append(append([]letter{}, word...), le))
		}
	}
	rec(nil)
}

func TestVerifC02(t *testing.T) {
	k := vNewKit(t, "C02")
	defer k.close()
	runOne := func(c vSx) {
		obs, fo, key, fd, nt := vC02Run(k, c)
		idx := k.record(c, obs, nt)
		if c.isList() && len(c.l) == 3 {
			k.count("chunks", vSizeBucket(len(c.l[0].l)))
			k.count("messages", vSizeBucket(len(c.l[1].l)))
		}
		if fo != "" {
			k.fail(idx, c.size(), fo, key, fd)
		}
	}
	if k.replay != nil {
		runOne(*k.replay)
		return
	}
	for _, c := range k.corpus() {
		runOne(c)
	}
	if k.thorough() && k.nOverr == 0 {
		vC02Enumerate(2, false, runOne)
		vC02Enumerate(3, true, runOne)
	} else {
		vC02Enumerate(1, false, runOne)
	}
	n := k.N(800, 4000)
	for i := 0; i < n; i++ {
		runOne(vC02GenCase(k.rnd, k.thorough()))
	}
}
