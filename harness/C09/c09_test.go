// C09 harness driver (in-package, injected with go test -overlay): FLV muxer/demuxer.
//
// Case kinds
//   (1 hv ha ((type ts body)...) (seg sizes...) cut fault)  write with the library's Muxer, read
//        with the library's Demuxer from a reader delivering the bytes in the given segment
//        sizes (cyclic; none = one piece), cut off after `cut` bytes (cut >= 0) and ending with
//        injected fault number `fault` (fault >= 0) instead of EOF
//   (2 ...same...)  the file is produced by the reference writer below (FLV v1 layout written
//        from the specification), read with the library's Demuxer
//   (3 wire (seg sizes...) cut fault (ops...))  arbitrary bytes, explicit call sequence:
//        (0) ReadHeader (1) ReadTagHeader (2 n) ReadTag(n) (4) ReadTagHeader+ReadTag(size)
//   (5 hv ha type ts n seed seg)  one tag with an n-byte pattern body (n up to 2^24-1), written by
//        the library AND by the reference writer, both read back through seg-byte reads; the
//        observation is the bytes around the body only: (header taghdr trailer wirelen (writes))
//        -- the model computes them from n; all body bytes are judged by the direct oracles
//   (6 hv ha ((type ts body mut)...) (seg sizes...) (flags...))  HISTORY on one Muxer and one Demuxer:
//        every WriteTag gets its body in ONE caller buffer that is reused for the next call and,
//        with mut != 0, scribbled over right after the call returns; the file is then read tag by
//        tag, every body returned by ReadTag is KEPT (the slice itself), those whose cyclic flag
//        is non-zero are flipped in place by the caller right after the read; everything is
//        compared only after the last call.  Observation as kinds 1/2.
//   (7 hv ha ((type ts body gap capmode)...) (seg sizes...))  HISTORY with zero-copy bodies: all bodies
//        lie back to back (separated by `gap` sentinel bytes) in ONE caller buffer and are handed
//        to WriteTag as sub-slices of it: capmode 0 = plain pkt[a:b] (capacity reaches over all the
//        following bodies), 1 = cap == len, k >= 2 = cap == len + (k-1).  The muxer may only READ
//        caller memory: the whole buffer is compared with its snapshot after every call.
// Observation kinds 1/2: (wire (write sizes...) demux) with demux = (0 (ver hv ha) (tags...) where err)
// | (1 err) | (2); kind 3: one entry per call until the first error.
package flv

import (
	"bytes"
	"encoding/binary"
	"fmt"
	"io"
	"testing"
)

type vC09Fault struct{ n int }

func (e *vC09Fault) Error() string { return fmt.Sprintf("injected fault %d", e.n) }

// reader delivering fixed segments; a Read never crosses a segment boundary
type vC09Reader struct {
	segs  [][]byte
	fault error
	i     int
	off   int
	reads int
}

func (r *vC09Reader) Read(p []byte) (int, error) {
	for {
		if r.i >= len(r.segs) {
			if r.fault != nil {
				return 0, r.fault
			}
			return 0, io.EOF
		}
		s := r.segs[r.i]
		if r.off >= len(s) {
			r.i++
			r.off = 0
			continue
		}
		if len(p) == 0 {
			return 0, nil
		}
		n := copy(p, s[r.off:])
		r.off += n
		r.reads++
		return n, nil
	}
}

func vC09Split(b []byte, sizes []int) [][]byte {
	if len(sizes) == 0 {
		if len(b) == 0 {
			return nil
		}
		return [][]byte{b}
	}
	var out [][]byte
	for i, k := 0, 0; i < len(b); k++ {
		n := sizes[k%len(sizes)]
		if n < 1 {
			n = 1
		}
		if i+n > len(b) {
			n = len(b) - i
		}
		out = append(out, b[i:i+n])
		i += n
	}
	return out
}

func vC09MkReader(wire []byte, sizes []int, cut, fault int) *vC09Reader {
	w := wire
	if cut >= 0 && cut <= len(wire) {
		w = wire[:cut]
	}
	r := &vC09Reader{segs: vC09Split(w, sizes)}
	if fault >= 0 {
		r.fault = &vC09Fault{fault}
	}
	return r
}

func vC09Code(err error) int {
	if err == io.EOF {
		return 1
	}
	if err == errSignature {
		return 2
	}
	if f, ok := err.(*vC09Fault); ok {
		return 10 + f.n
	}
	return 99
}

type vC09Tag struct {
	typ  uint8
	ts   uint32
	body []byte
}

// writer collecting the individual Write calls
type vC09Writer struct {
	buf    bytes.Buffer
	writes []int
}

func (w *vC09Writer) Write(p []byte) (int, error) {
	w.writes = append(w.writes, len(p))
	return w.buf.Write(p)
}

func vC09Mux(hv, ha bool, tags []vC09Tag) (wire []byte, writes []int, err error) {
	defer func() {
		if x := recover(); x != nil {
			err = fmt.Errorf("muxer panicked: %v", x)
		}
	}()
	w := &vC09Writer{}
	m, _ := NewMuxer(w)
	if err = m.WriteHeader(hv, ha); err != nil {
		return
	}
	for _, t := range tags {
		if err = m.WriteTag(TagType(t.typ), t.ts, t.body); err != nil {
			return
		}
	}
	// the file is what the writer holds once the muxer is closed
	if err = m.Close(); err != nil {
		return
	}
	return w.buf.Bytes(), w.writes, nil
}

// Reference writer of the FLV version 1 file layout, written from
// video_file_format_spec_v10 Annex E (not from the library): header = "FLV", version 1,
// flags (bit 2 audio, bit 0 video), DataOffset 9; PreviousTagSize0 = 0; per tag: type,
// DataSize UI24, Timestamp UI24 (low 24 bits), TimestampExtended UI8 (high 8 bits),
// StreamID UI24 = 0, data, PreviousTagSize UI32 = 11 + DataSize.
func vC09Reference(hv, ha bool, tags []vC09Tag) []byte {
	var b bytes.Buffer
	b.WriteString("FLV")
	b.WriteByte(1)
	var fl byte
	if ha {
		fl += 4
	}
	if hv {
		fl += 1
	}
	b.WriteByte(fl)
	binary.Write(&b, binary.BigEndian, uint32(9))
	binary.Write(&b, binary.BigEndian, uint32(0))
	for _, t := range tags {
		var u [4]byte
		b.WriteByte(t.typ)
		binary.BigEndian.PutUint32(u[:], uint32(len(t.body)))
		b.Write(u[1:])
		binary.BigEndian.PutUint32(u[:], t.ts&0xffffff)
		b.Write(u[1:])
		b.WriteByte(byte(t.ts >> 24))
		b.Write([]byte{0, 0, 0})
		b.Write(t.body)
		binary.Write(&b, binary.BigEndian, uint32(11+len(t.body)))
	}
	return b.Bytes()
}

type vC09DemuxRes struct {
	panicked   bool
	hdrErr     int // 0 = ok
	ver        uint8
	hv, ha     bool
	tags       []vC09Tag
	where, end int
}

func vC09Demux(r io.Reader) (res vC09DemuxRes) {
	defer func() {
		if x := recover(); x != nil {
			res.panicked = true
		}
	}()
	d, _ := NewDemuxer(r)
	defer d.Close()
	var err error
	if res.ver, res.hv, res.ha, err = d.ReadHeader(); err != nil {
		res.hdrErr = vC09Code(err)
		return
	}
	for {
		tt, sz, ts, err := d.ReadTagHeader()
		if err != nil {
			res.where, res.end = 0, vC09Code(err)
			return
		}
		body, err := d.ReadTag(sz)
		if err != nil {
			res.where, res.end = 1, vC09Code(err)
			return
		}
		res.tags = append(res.tags, vC09Tag{uint8(tt), ts, body})
	}
}

func (res vC09DemuxRes) obs() vSx {
	if res.panicked {
		return vPanicObs()
	}
	if res.hdrErr != 0 {
		return vErr(res.hdrErr)
	}
	ts := make([]vSx, 0, len(res.tags))
	for _, t := range res.tags {
		ts = append(ts, vL(vI(int(t.typ)), vU(uint64(t.ts)), vB(t.body)))
	}
	return vOk(vL(vI(int(res.ver)), vBool(res.hv), vBool(res.ha)), vLs(ts), vI(res.where), vI(res.end))
}

// a tag body in a case: literal bytes, or (n seed filler) = n pattern bytes (keeps big cases short)
func vC09Pattern(n int, seed int) []byte {
	b := make([]byte, n)
	for i := range b {
		b[i] = byte(seed + 7*i + i/256)
	}
	return b
}

func vC09Body(s vSx) []byte {
	if s.isList() && len(s.l) == 3 {
		return vC09Pattern(s.l[0].int(), s.l[1].int())
	}
	return s.b
}

// The third element is a filler the model ignores: it keeps the text of such a case above the
// size below which ./check samples cases for evaluation inside Coq (the observation of a
// pattern case is as long as the body, far too long for a Coq list literal).
func vC09PatBody(n, seed int) vSx { return vL(vI(n), vI(seed), vB(make([]byte, 1500))) }

func vC09Ints(s vSx) []int {
	out := make([]int, 0, len(s.l))
	for _, x := range s.l {
		out = append(out, x.int())
	}
	return out
}

func vC09SameTags(a, b []vC09Tag) string {
	if len(a) != len(b) {
		return fmt.Sprintf("%d tags read, %d written", len(a), len(b))
	}
	for i := range a {
		if a[i].typ != b[i].typ || a[i].ts != b[i].ts || !bytes.Equal(a[i].body, b[i].body) {
			return fmt.Sprintf("tag %d: read (type %d ts %d size %d), written (type %d ts %d size %d) or body differs",
				i, a[i].typ, a[i].ts, len(a[i].body), b[i].typ, b[i].ts, len(b[i].body))
		}
	}
	return ""
}

func vC09Run(k *vKit, c vSx) (obs vSx, fo, fd string, nontrivial bool) {
	bad := func(o, d string) {
		if fo == "" {
			fo, fd = o, d
		}
	}
	if !c.isList() || len(c.l) == 0 {
		return vL(vZ(-1)), "", "", false
	}
	kind := c.l[0].int()
	switch kind {
	case 1, 2:
		if len(c.l) != 7 {
			return vL(vZ(-1)), "", "", false
		}
		hv, ha := c.l[1].i64() != 0, c.l[2].i64() != 0
		var tags []vC09Tag
		for _, t := range c.l[3].l {
			body := vC09Body(t.l[2])
			tags = append(tags, vC09Tag{uint8(t.l[0].u64()), uint32(t.l[1].u64()), body})
			if t.l[1].u64() >= 1<<24 || len(body) >= 1<<16 {
				nontrivial = true
			}
			k.count("body-size", vSizeBucket(len(body)))
		}
		sizes := vC09Ints(c.l[4])
		cut, fault := c.l[5].int(), c.l[6].int()
		ref := vC09Reference(hv, ha, tags)
		var wire []byte
		var writes []vSx
		if kind == 1 {
			w, ws, err := vC09Mux(hv, ha, tags)
			if err != nil {
				bad("mux-error", err.Error())
			}
			wire = w
			for _, n := range ws {
				writes = append(writes, vI(n))
			}
			if !bytes.Equal(wire, ref) {
				bad("layout", fmt.Sprintf("muxer wrote %d bytes, differs from the FLV v1 reference layout (%d bytes)", len(wire), len(ref)))
			}
		} else {
			wire = ref
		}
		res := vC09Demux(vC09MkReader(wire, sizes, cut, fault))
		whole := cut < 0 || cut >= len(wire)
		oname := "roundtrip"
		if kind == 2 {
			oname = "spec-read"
		}
		switch {
		case res.panicked:
			bad("no-panic", "demuxer panicked")
		case whole:
			wantEnd := 1
			if fault >= 0 {
				wantEnd = 10 + fault
			}
			if res.hdrErr != 0 {
				bad(oname, fmt.Sprintf("header rejected with error %d", res.hdrErr))
			} else if res.ver != 1 || res.hv != hv || res.ha != ha {
				bad(oname, fmt.Sprintf("header read back as version %d video %v audio %v", res.ver, res.hv, res.ha))
			} else if d := vC09SameTags(res.tags, tags); d != "" {
				bad(oname, d)
			} else if res.where != 0 || res.end != wantEnd {
				bad(oname, fmt.Sprintf("read loop ended with error %d in call %d, want %d in ReadTagHeader", res.end, res.where, wantEnd))
			}
			k.count("kind", fmt.Sprintf("%d-whole", kind))
		default:
			// truncated file: the tags returned are a prefix of those written, the error is
			// EOF or the injected fault
			wantEnd := 1
			if fault >= 0 {
				wantEnd = 10 + fault
			}
			if res.hdrErr != 0 {
				if cut >= 13 || res.hdrErr != wantEnd {
					bad("truncated", fmt.Sprintf("header error %d with %d bytes available", res.hdrErr, cut))
				}
			} else {
				if len(res.tags) > len(tags) || vC09SameTags(res.tags, tags[:len(res.tags)]) != "" {
					bad("truncated", "tags read from a truncated file are not a prefix of those written")
				}
				if res.end != wantEnd {
					bad("truncated", fmt.Sprintf("ended with error %d, want %d", res.end, wantEnd))
				}
			}
			k.count("kind", fmt.Sprintf("%d-cut", kind))
		}
		segb := "whole"
		if len(sizes) > 0 {
			segb = "segmented"
			if len(sizes) == 1 && sizes[0] == 1 {
				segb = "1-byte"
			}
		}
		k.count("segmentation", segb)
		return vL(vB(wire), vLs(writes), res.obs()), fo, fd, nontrivial
	case 5:
		if len(c.l) != 8 {
			return vL(vZ(-1)), "", "", false
		}
		hv, ha := c.l[1].i64() != 0, c.l[2].i64() != 0
		n := c.l[5].int()
		if n < 0 || n > 1<<24+64 {
			return vL(vZ(-1)), "", "", false
		}
		tags := []vC09Tag{{uint8(c.l[3].u64()), uint32(c.l[4].u64()), vC09Pattern(n, c.l[6].int())}}
		var sizes []int
		if c.l[7].int() > 0 {
			sizes = []int{c.l[7].int()}
		}
		ref := vC09Reference(hv, ha, tags)
		wire, ws, err := vC09Mux(hv, ha, tags)
		if err != nil {
			bad("mux-error", err.Error())
		}
		if !bytes.Equal(wire, ref) {
			d := "lengths differ"
			if len(wire) == len(ref) {
				for i := range wire {
					if wire[i] != ref[i] {
						d = fmt.Sprintf("first difference at offset %d of %d: wrote %02x, layout has %02x", i, len(wire), wire[i], ref[i])
						break
					}
				}
			}
			bad("layout", fmt.Sprintf("muxer output (%d bytes) differs from the FLV v1 reference layout (%d bytes): %s", len(wire), len(ref), d))
		}
		for pass, file := range [][]byte{wire, ref} {
			oname := "roundtrip"
			if pass == 1 {
				oname = "spec-read"
			}
			res := vC09Demux(vC09MkReader(file, sizes, -1, -1))
			switch {
			case res.panicked:
				bad("no-panic", "demuxer panicked")
			case res.hdrErr != 0:
				bad(oname, fmt.Sprintf("header rejected with error %d", res.hdrErr))
			case res.ver != 1 || res.hv != hv || res.ha != ha:
				bad(oname, fmt.Sprintf("header read back as version %d video %v audio %v", res.ver, res.hv, res.ha))
			default:
				if d := vC09SameTags(res.tags, tags); d != "" {
					bad(oname, d)
				} else if res.where != 0 || res.end != 1 {
					bad(oname, fmt.Sprintf("read loop ended with error %d in call %d", res.end, res.where))
				}
			}
		}
		var writes []vSx
		for _, x := range ws {
			writes = append(writes, vI(x))
		}
		var hdr, th, tr []byte
		if len(wire) >= 13+11+4 {
			hdr, th, tr = wire[:13], wire[13:24], wire[len(wire)-4:]
		}
		k.count("kind", "5-large-body")
		k.count("body-size", vSizeBucket(n))
		return vL(vB(hdr), vB(th), vB(tr), vI(len(wire)), vLs(writes)), fo, fd, n >= 1<<16 || c.l[4].u64() >= 1<<24
	case 7:
		if len(c.l) != 5 {
			return vL(vZ(-1)), "", "", false
		}
		hv, ha := c.l[1].i64() != 0, c.l[2].i64() != 0
		var tags []vC09Tag // the ORIGINAL frames (private copies)
		var offs, caps []int
		var pkt []byte
		for _, t := range c.l[3].l {
			body := append([]byte{}, vC09Body(t.l[2])...)
			tags = append(tags, vC09Tag{uint8(t.l[0].u64()), uint32(t.l[1].u64()), body})
			offs = append(offs, len(pkt))
			caps = append(caps, t.l[4].int())
			pkt = append(pkt, body...)
			for g := t.l[3].int(); g > 0; g-- {
				pkt = append(pkt, 0xA5)
			}
			if t.l[1].u64() >= 1<<24 {
				nontrivial = true
			}
		}
		pkt = append(pkt, 0x5A, 0x5A, 0x5A, 0x5A, 0x5A, 0x5A, 0x5A, 0x5A) // spare room behind the last body
		pkt = append([]byte{}, pkt...)                                   // exact-size backing array
		snapshot := append([]byte{}, pkt...)
		w := &vC09Writer{}
		werr := func() (err error) {
			defer func() {
				if x := recover(); x != nil {
					err = fmt.Errorf("muxer panicked: %v", x)
				}
			}()
			m, _ := NewMuxer(w)
			if err = m.WriteHeader(hv, ha); err != nil {
				return
			}
			for i, t := range tags {
				a, b := offs[i], offs[i]+len(t.body)
				var sl []byte
				switch {
				case caps[i] <= 0:
					sl = pkt[a:b] // capacity up to the end of the packet
				default:
					hi := b + caps[i] - 1
					if hi > len(pkt) {
						hi = len(pkt)
					}
					sl = pkt[a:b:hi]
				}
				if err = m.WriteTag(TagType(t.typ), t.ts, sl); err != nil {
					return
				}
				if !bytes.Equal(pkt, snapshot) {
					d := 0
					for d < len(pkt) && pkt[d] == snapshot[d] {
						d++
					}
					bad("caller-memory", fmt.Sprintf("WriteTag call %d (body pkt[%d:%d], capacity %d) modified the caller's packet buffer at offset %d", i, a, b, cap(sl), d))
					copy(pkt, snapshot) // keep judging the following calls on their own
				}
			}
			return m.Close()
		}()
		if werr != nil {
			bad("mux-error", werr.Error())
		}
		wire := append([]byte{}, w.buf.Bytes()...)
		var writes []vSx
		for _, n := range w.writes {
			writes = append(writes, vI(n))
		}
		if ref := vC09Reference(hv, ha, tags); !bytes.Equal(wire, ref) {
			bad("layout", fmt.Sprintf("zero-copy history of %d WriteTag calls: the file (%d bytes) differs from the FLV v1 reference layout of the original frames (%d bytes)", len(tags), len(wire), len(ref)))
		}
		res := vC09Demux(vC09MkReader(wire, vC09Ints(c.l[4]), -1, -1))
		switch {
		case res.panicked:
			bad("no-panic", "demuxer panicked")
		case res.hdrErr != 0:
			bad("roundtrip", fmt.Sprintf("header rejected with error %d", res.hdrErr))
		case res.ver != 1 || res.hv != hv || res.ha != ha:
			bad("roundtrip", fmt.Sprintf("header read back as version %d video %v audio %v", res.ver, res.hv, res.ha))
		default:
			if d := vC09SameTags(res.tags, tags); d != "" {
				bad("history-roundtrip", "read back differs from the original frames: "+d)
			} else if res.where != 0 || res.end != 1 {
				bad("roundtrip", fmt.Sprintf("read loop ended with error %d in call %d", res.end, res.where))
			}
		}
		k.count("kind", "7-zero-copy-history")
		return vL(vB(wire), vLs(writes), res.obs()), fo, fd, nontrivial || len(tags) >= 2
	case 6:
		if len(c.l) != 6 {
			return vL(vZ(-1)), "", "", false
		}
		hv, ha := c.l[1].i64() != 0, c.l[2].i64() != 0
		var tags []vC09Tag // what the caller means to write (private copies)
		var muts []bool
		maxLen := 0
		for _, t := range c.l[3].l {
			body := append([]byte{}, vC09Body(t.l[2])...)
			tags = append(tags, vC09Tag{uint8(t.l[0].u64()), uint32(t.l[1].u64()), body})
			muts = append(muts, t.l[3].i64() != 0)
			if len(body) > maxLen {
				maxLen = len(body)
			}
			if t.l[1].u64() >= 1<<24 {
				nontrivial = true
			}
		}
		sizes, flags := vC09Ints(c.l[4]), vC09Ints(c.l[5])
		// ---- write history: one muxer, one reused caller buffer
		w := &vC09Writer{}
		werr := func() (err error) {
			defer func() {
				if x := recover(); x != nil {
					err = fmt.Errorf("muxer panicked: %v", x)
				}
			}()
			m, _ := NewMuxer(w)
			if err = m.WriteHeader(hv, ha); err != nil {
				return
			}
			backing := make([]byte, maxLen+8) // 8 spare bytes behind the longest body
			buf := backing[:maxLen]
			for i, t := range tags {
				n := copy(buf, t.body)
				before := append([]byte{}, backing...)
				if err = m.WriteTag(TagType(t.typ), t.ts, buf[:n]); err != nil {
					return
				}
				if !bytes.Equal(before, backing) {
					bad("caller-memory", fmt.Sprintf("WriteTag call %d modified the caller's buffer (body %d bytes, capacity %d)", i, n, cap(buf[:n])))
				}
				if muts[i] {
					for j := 0; j < n; j++ {
						buf[j] = ^buf[j]
					}
				}
			}
			return m.Close()
		}()
		if werr != nil {
			bad("mux-error", werr.Error())
		}
		wire := append([]byte{}, w.buf.Bytes()...)
		var writes []vSx
		for _, n := range w.writes {
			writes = append(writes, vI(n))
		}
		if ref := vC09Reference(hv, ha, tags); !bytes.Equal(wire, ref) {
			bad("layout", fmt.Sprintf("after a history of %d WriteTag calls with a reused caller buffer the file (%d bytes) differs from the FLV v1 reference layout (%d bytes)", len(tags), len(wire), len(ref)))
		}
		// ---- read history: one demuxer, every returned body kept
		var res vC09DemuxRes
		var kept, snaps [][]byte
		func() {
			defer func() {
				if x := recover(); x != nil {
					res.panicked = true
				}
			}()
			d, _ := NewDemuxer(vC09MkReader(wire, sizes, -1, -1))
			defer d.Close()
			var err error
			if res.ver, res.hv, res.ha, err = d.ReadHeader(); err != nil {
				res.hdrErr = vC09Code(err)
				return
			}
			for {
				tt, sz, ts, err := d.ReadTagHeader()
				if err != nil {
					res.where, res.end = 0, vC09Code(err)
					return
				}
				body, err := d.ReadTag(sz)
				if err != nil {
					res.where, res.end = 1, vC09Code(err)
					return
				}
				if len(flags) > 0 && flags[len(kept)%len(flags)] != 0 {
					for j := range body {
						body[j] = ^body[j]
					}
				}
				kept = append(kept, body)
				snaps = append(snaps, append([]byte{}, body...))
				res.tags = append(res.tags, vC09Tag{uint8(tt), ts, body})
			}
		}()
		// ---- end of history: compare everything now
		switch {
		case res.panicked:
			bad("no-panic", "demuxer panicked")
		case res.hdrErr != 0:
			bad("roundtrip", fmt.Sprintf("header rejected with error %d", res.hdrErr))
		default:
			for i := range kept {
				if !bytes.Equal(kept[i], snaps[i]) {
					bad("read-result-stable", fmt.Sprintf("the body returned by ReadTag call %d changed during later calls", i))
				}
			}
			want := make([]vC09Tag, len(tags))
			for i, t := range tags {
				b := append([]byte{}, t.body...)
				if len(flags) > 0 && flags[i%len(flags)] != 0 {
					for j := range b {
						b[j] = ^b[j]
					}
				}
				want[i] = vC09Tag{t.typ, t.ts, b}
			}
			if res.ver != 1 || res.hv != hv || res.ha != ha {
				bad("roundtrip", fmt.Sprintf("header read back as version %d video %v audio %v", res.ver, res.hv, res.ha))
			} else if d := vC09SameTags(res.tags, want); d != "" {
				bad("history-roundtrip", d)
			} else if res.where != 0 || res.end != 1 {
				bad("roundtrip", fmt.Sprintf("read loop ended with error %d in call %d", res.end, res.where))
			}
		}
		k.count("kind", "6-history")
		k.count("history-length", fmt.Sprint(len(tags)))
		return vL(vB(wire), vLs(writes), res.obs()), fo, fd, nontrivial || len(tags) >= 2
	case 3:
		if len(c.l) != 6 {
			return vL(vZ(-1)), "", "", false
		}
		wire := c.l[1].b
		r := vC09MkReader(wire, vC09Ints(c.l[2]), c.l[3].int(), c.l[4].int())
		d, _ := NewDemuxer(r)
		var out []vSx
		for _, op := range c.l[5].l {
			stop := false
			wrap := false
			o := vGuard(func() vSx {
				switch op.l[0].int() {
				case 0:
					ver, hv, ha, err := d.ReadHeader()
					if err != nil {
						stop = true
						return vErr(vC09Code(err))
					}
					return vOk(vI(int(ver)), vBool(hv), vBool(ha))
				case 1:
					tt, sz, ts, err := d.ReadTagHeader()
					if err != nil {
						stop = true
						return vErr(vC09Code(err))
					}
					if sz >= 1<<24 {
						bad("size-24bit", fmt.Sprintf("ReadTagHeader returned size %d", sz))
					}
					return vOk(vI(int(tt)), vU(uint64(sz)), vU(uint64(ts)))
				case 2:
					n := uint32(op.l[1].u64())
					wrap = n >= 1<<32-4
					b, err := d.ReadTag(n)
					if err != nil {
						stop = true
						return vErr(vC09Code(err))
					}
					if len(b) != int(n) {
						bad("readtag-size", fmt.Sprintf("ReadTag(%d) returned %d bytes", n, len(b)))
					}
					return vOk(vB(b))
				case 4:
					tt, sz, ts, err := d.ReadTagHeader()
					if err != nil {
						stop = true
						return vL(vZ(1), vI(vC09Code(err)), vZ(0))
					}
					b, err := d.ReadTag(sz)
					if err != nil {
						stop = true
						return vL(vZ(1), vI(vC09Code(err)), vZ(1))
					}
					if len(b) != int(sz) {
						bad("readtag-size", fmt.Sprintf("ReadTag(%d) returned %d bytes", sz, len(b)))
					}
					return vOk(vI(int(tt)), vU(uint64(sz)), vU(uint64(ts)), vB(b))
				}
				stop = true
				return vL(vZ(-1))
			})
			out = append(out, o)
			if len(o.l) == 1 && o.l[0].i64() == 2 {
				// a panic: only ReadTag(n) with n+4 wrapping the uint32 may do that (documented
				// boundary c09_readtag_wrap; ReadTagHeader never returns such a size)
				if wrap {
					k.count("raw", "readtag-wrap-panic")
				} else {
					bad("no-panic", "demuxer call panicked: "+op.String())
				}
				break
			}
			if stop {
				break
			}
		}
		k.count("kind", "3-raw")
		return vLs(out), fo, fd, len(out) > 2
	}
	return vL(vZ(-1)), "", "", false
}

// ---- generators ----
func vC09GenTags(r *vRng, k *vKit) []vSx {
	n := r.pickInt(0, 1, 1, 2, 3, 5, 8)
	var tags []vSx
	big := 0
	for i := 0; i < n; i++ {
		var size int
		switch r.intn(12) {
		case 0:
			size = 0
		case 1:
			size = 1
		case 2:
			size = r.pickInt(255, 256, 257, 244, 245, 246)
		case 3:
			if big < 1 && r.chance(1, 3) {
				size = r.pickInt(65535, 65536, 65537, 65524, 65525, 65526)
				big++
			} else {
				size = r.rng(1000, 5000)
			}
		default:
			size = r.rng(0, 300)
		}
		var ts uint64
		switch r.intn(8) {
		case 0:
			ts = 0
		case 1:
			ts = uint64(1<<24) - 1 + uint64(r.intn(3)) // 2^24-1, 2^24, 2^24+1
		case 2:
			ts = uint64(1<<32) - 1 - uint64(r.intn(2))
		case 3:
			ts = r.pickU64(1<<31, 1<<31-1, 0xff000000, 0x00ffffff, 0x01000000, 0x80000001)
		case 4:
			ts = r.next() & 0xffffffff
		default:
			ts = uint64(r.intn(1 << 20))
		}
		typ := r.pickInt(8, 9, 18, 8, 9, 0, 255, r.intn(256))
		if size >= 1000 {
			tags = append(tags, vL(vI(typ), vU(ts), vC09PatBody(size, r.intn(256))))
		} else {
			tags = append(tags, vL(vI(typ), vU(ts), vB(r.bytes(size))))
		}
	}
	return tags
}

func vC09GenSizes(r *vRng) []vSx {
	switch r.intn(6) {
	case 0:
		return nil
	case 1:
		return []vSx{vI(1)}
	case 2:
		return []vSx{vI(r.pickInt(2, 3, 4, 11, 13, 15))}
	case 3:
		return []vSx{vI(r.rng(1, 40)), vI(r.rng(1, 40)), vI(r.rng(1, 700))}
	case 4:
		return []vSx{vI(r.pickInt(512, 513, 4096, 65536))}
	}
	n := r.rng(1, 6)
	var out []vSx
	for i := 0; i < n; i++ {
		out = append(out, vI(r.rng(1, 100)))
	}
	return out
}

func vC09WireLen(tags []vSx) int {
	n := 13
	for _, t := range tags {
		n += 15 + len(vC09Body(t.l[2]))
	}
	return n
}

// history on one muxer / demuxer: 2-6 tags, timestamps that go up and then down across the
// extension-byte boundary, bodies of different lengths in one reused buffer
func vC09GenHistory(r *vRng) vSx {
	n := r.rng(2, 6)
	var ops []vSx
	base := r.pickU64(0, 1<<24-2, 1<<32-3, 1<<31, uint64(r.intn(1<<20)))
	for i := 0; i < n; i++ {
		var ts uint64
		switch r.intn(5) {
		case 0:
			ts = (base + uint64(i)) & 0xffffffff // rising, maybe across 2^24 / wrapping 2^32
		case 1:
			ts = uint64(r.intn(1 << 16)) // back down: extension byte returns to 0
		case 2:
			ts = r.pickU64(1<<24, 1<<24-1, 1<<32-1, 0xff000000, 0)
		default:
			ts = (base - uint64(3*i)) & 0xffffffff
		}
		size := r.pickInt(0, 1, 2, 5, 40, r.intn(300), r.intn(300))
		var body vSx
		if r.chance(1, 12) {
			body = vC09PatBody(r.rng(1000, 5000), r.intn(256))
		} else {
			body = vB(r.bytes(size))
		}
		ops = append(ops, vL(vI(r.pickInt(8, 9, 18, r.intn(256))), vU(ts), body, vI(r.intn(2))))
	}
	var flags []vSx
	for i := r.intn(4); i > 0; i-- {
		flags = append(flags, vI(r.intn(2)))
	}
	return vL(vZ(6), vI(r.intn(2)), vI(r.intn(2)), vLs(ops), vLs(vC09GenSizes(r)), vLs(flags))
}

// zero-copy history: bodies are consecutive regions of one packet buffer
func vC09GenZeroCopy(r *vRng) vSx {
	n := r.rng(2, 6)
	var ops []vSx
	mode := r.intn(4)
	for i := 0; i < n; i++ {
		size := r.pickInt(0, 1, 3, 4, 5, 8, 40, r.intn(300))
		gap := r.pickInt(0, 0, 0, 1, 3, 4, 8)
		var cp int
		switch mode {
		case 0:
			cp = 0 // plain sub-slices: capacity reaches over the following bodies
		case 1:
			cp = 1 // cap == len
		default:
			cp = r.pickInt(0, 1, 2, 3, 4, 5, 6, 7, 8, 9) // cap == len, len+1 .. len+8
		}
		ts := r.pickU64(uint64(i), 1<<24+uint64(i), 1<<32-1, uint64(r.intn(1<<20)))
		ops = append(ops, vL(vI(r.pickInt(8, 9, 18)), vU(ts), vB(r.bytes(size)), vI(gap), vI(cp)))
	}
	return vL(vZ(7), vI(r.intn(2)), vI(r.intn(2)), vLs(ops), vLs(vC09GenSizes(r)))
}

func vC09Gen(r *vRng, k *vKit) vSx {
	kind := r.pickInt(1, 1, 1, 2, 2, 3, 6, 6, 7, 7)
	if kind == 6 {
		return vC09GenHistory(r)
	}
	if kind == 7 {
		return vC09GenZeroCopy(r)
	}
	if kind != 3 {
		tags := vC09GenTags(r, k)
		cut, fault := -1, -1
		if r.chance(1, 5) {
			cut = r.intn(vC09WireLen(tags) + 1)
			if r.chance(1, 2) {
				fault = r.intn(3)
			}
		} else if r.chance(1, 10) {
			fault = r.intn(3) // fault exactly where EOF would be
		}
		return vL(vI(kind), vI(r.intn(2)), vI(r.intn(2)), vLs(tags), vLs(vC09GenSizes(r)), vI(cut), vI(fault))
	}
	// malformed / raw streams: a valid file mutated, or random bytes
	var wire []byte
	switch r.intn(4) {
	case 0:
		wire = r.bytes(r.rng(0, 80))
	default:
		tags := vC09GenTags(r, k)
		var ts []vC09Tag
		for _, t := range tags {
			b := vC09Body(t.l[2])
			if len(b) > 2000 {
				b = b[:2000]
			}
			ts = append(ts, vC09Tag{uint8(t.l[0].u64()), uint32(t.l[1].u64()), b})
		}
		wire = vC09Reference(r.chance(1, 2), r.chance(1, 2), ts)
		for m := r.intn(4); m > 0 && len(wire) > 0; m-- {
			wire[r.intn(len(wire))] = byte(r.next())
		}
		if r.chance(1, 3) {
			wire[r.intn(3)] ^= byte(1 << uint(r.intn(8)))
		}
		if r.chance(1, 3) {
			wire = wire[:r.intn(len(wire)+1)]
		}
	}
	var ops []vSx
	if !r.chance(1, 8) {
		ops = append(ops, vL(vZ(0)))
	}
	for n := r.rng(0, 8); n > 0; n-- {
		switch r.intn(8) {
		case 0:
			ops = append(ops, vL(vZ(1)))
		case 1:
			ops = append(ops, vL(vZ(2), vU(r.pickU64(0, 1, 4, 1<<32-1, 1<<32-4, 1<<32-5, 1<<32-3, uint64(r.intn(64))))))
		default:
			ops = append(ops, vL(vZ(4)))
		}
	}
	cut, fault := -1, -1
	if r.chance(1, 4) {
		fault = r.intn(3)
	}
	return vL(vZ(3), vB(wire), vLs(vC09GenSizes(r)), vI(cut), vI(fault), vLs(ops))
}

// deterministic boundary sweep: every flag combination x boundary size x boundary timestamp,
// whole and 1-byte reads, library-written and reference-written
func vC09Boundary(thorough bool) []vSx {
	// 244/245: PreviousTagSize = 11 + size crosses 2^8; 255/256: the size field does
	sizes := []int{0, 1, 244, 245, 255, 256}
	tss := []uint64{0, 255, 256, 65535, 65536, 1<<24 - 1, 1 << 24, 1<<24 + 1, 1 << 31, 1<<32 - 1}
	var out []vSx
	pat := func(n int) []byte {
		b := make([]byte, n)
		for i := range b {
			b[i] = byte(i*7 + n)
		}
		return b
	}
	for fl := 0; fl < 4; fl++ {
		for _, sz := range sizes {
			for _, ts := range tss {
				for kind := 1; kind <= 2; kind++ {
					tags := []vSx{vL(vI(8+fl%2), vU(ts), vB(pat(sz))), vL(vI(18), vU(ts^1), vB(pat(sz/2)))}
					seg := []vSx{}
					if (fl+sz+kind)%2 == 0 {
						seg = []vSx{vI(1)}
					}
					out = append(out, vL(vI(kind), vI(fl&1), vI(fl>>1), vLs(tags), vLs(seg), vI(-1), vI(-1)))
				}
			}
		}
	}
	// 65524/65525: 11 + size crosses 2^16; 65535/65536: the size field does
	bigs := []int{65524, 65525, 65535, 65536}
	for i, sz := range bigs {
		for kind := 1; kind <= 2; kind++ {
			tags := []vSx{vL(vI(9), vU(1<<32-1), vC09PatBody(sz, 3+i)), vL(vI(8), vU(1<<24), vB(pat(3)))}
			seg := []vSx{}
			if (i+kind)%2 == 0 {
				seg = []vSx{vI(1)}
			}
			out = append(out, vL(vI(kind), vI(1), vI(1), vLs(tags), vLs(seg), vI(-1), vI(-1)))
		}
	}
	// the top of the 24-bit range, where PreviousTagSize = 11 + size needs its fourth byte
	// (2^24-12 -> 00ffffff, 2^24-11 -> 01000000), up to the largest body 2^24-1; library- and
	// reference-written, read back through 1 MiB / 4 KiB / single reads
	for i, sz := range []int{1<<24 - 12, 1<<24 - 11, 1<<24 - 10, 1<<24 - 2, 1<<24 - 1, 1<<16 - 11, 245} {
		out = append(out, vL(vZ(5), vI(i&1), vI((i>>1)&1), vI(8+i%2), vU(tss[(3*i+9)%len(tss)]), vI(sz), vI(17*i+5), vI([]int{1 << 20, 4096, 0}[i%3])))
	}
	if thorough {
		// the largest body a tag can carry; library-written only: its bytes are compared with the
		// reference writer's by the layout oracle, so a reference-written twin would be the same file
		tags := []vSx{vL(vI(9), vU(1<<32-1), vC09PatBody(1<<24-1, 77)), vL(vI(8), vU(5), vB(pat(2)))}
		out = append(out, vL(vI(1), vI(1), vI(0), vLs(tags), vLs([]vSx{vI(4096)}), vI(-1), vI(-1)))
	}
	return out
}

func TestVerifC09(t *testing.T) {
	k := vNewKit(t, "C09")
	defer k.close()
	runOne := func(c vSx) {
		k.safely(c, func() {
			obs, fo, fd, nt := vC09Run(k, c)
			idx := k.record(c, obs, nt)
			if fo != "" {
				k.fail(idx, c.size(), fo, "", fd)
			}
		})
	}
	if k.replay != nil {
		runOne(*k.replay)
		return
	}
	for _, c := range k.corpus() {
		runOne(c)
	}
	for _, c := range vC09Boundary(k.thorough()) {
		runOne(c)
	}
	n := k.N(600, 4000)
	for i := 0; i < n; i++ {
		runOne(vC09Gen(k.rnd, k))
	}
}
