// C01 harness driver (in-package, injected with go test -overlay): two Protocol endpoints over
// an in-memory duplex transport whose reads are cut by a segmentation script.  Every case is
// (hs scriptA scriptB ((side cid ts type sid payload) ...)); payload is x<hex> or (len a)
// = the first len bytes of the 251-byte block a, a+1, ... (mod 251) repeated.
// hs = 1: a full session (simple handshake through the Handshake API on the connection, then at
// once NewProtocol on the same connection); the scripts cut the whole byte stream of a direction.
// Observation per direction: handshake reads, writer wire (length, hash), per-write result,
// messages read by the peer (cid ts type sid length hash), final error class.
// Direct oracle (independent of the model): read sequence == written sequence.
package rtmp

import (
	"encoding/binary"
	"fmt"
	"io"
	"math/rand"
	"strings"
	"testing"

	oe "github.com/ossrs/go-oryx-lib/errors"
)

// one direction of the transport.  The script cuts the BYTE STREAM (not the sequence of Read
// calls) into transport segments of the given sizes, cyclically, exactly like `cut` in the model:
// a Read never returns bytes of two segments, so a segment that holds the tail of the handshake
// and the first chunk bytes is delivered as one read to whoever asks for enough bytes.  An empty
// script = everything that is available in one read.
type vC01Buf struct {
	data   []byte
	pos    int
	script []int
	k      int
	segEnd int // absolute end of the segment that contains pos
}

func (b *vC01Buf) Write(p []byte) (int, error) {
	b.data = append(b.data, p...)
	return len(p), nil
}

func (b *vC01Buf) Read(p []byte) (int, error) {
	if len(p) == 0 {
		return 0, nil
	}
	avail := len(b.data) - b.pos
	if avail == 0 {
		return 0, io.EOF
	}
	n := len(p)
	if n > avail {
		n = avail
	}
	if len(b.script) > 0 {
		for b.segEnd <= b.pos {
			sz := b.script[b.k%len(b.script)]
			b.k++
			if sz < 1 {
				sz = 1
			}
			b.segEnd += sz
		}
		if n > b.segEnd-b.pos {
			n = b.segEnd - b.pos
		}
	}
	copy(p, b.data[b.pos:b.pos+n])
	b.pos += n
	return n, nil
}

type vC01Conn struct {
	in  *vC01Buf
	out *vC01Buf
}

func (c *vC01Conn) Read(p []byte) (int, error)  { return c.in.Read(p) }
func (c *vC01Conn) Write(p []byte) (int, error) { return c.out.Write(p) }

type vC01Msg struct {
	side    int
	cid     uint32
	ts      uint64
	typ     uint8
	sid     uint32
	payload []byte
}

func vC01Hash(b []byte) uint64 {
	// Adler-style checksum, the same as hash_bytes of the model
	var a, h uint64
	for _, x := range b {
		a += uint64(x) + 1
		if a >= 65521 {
			a -= 65521
		}
		h += a
		if h >= 65521 {
			h -= 65521
		}
	}
	return h*65536 + a
}

func vC01Payload(s vSx) ([]byte, bool) {
	if s.isBytes() {
		return s.b, true
	}
	if s.isList() && len(s.l) == 2 && s.l[0].isInt() && s.l[1].isInt() {
		n, a := int(s.l[0].u64()), s.l[1].u64()
		p := make([]byte, n)
		for i := range p {
			p[i] = byte((a + uint64(i%251)) % 251)
		}
		return p, true
	}
	return nil, false
}

func vC01ParseMsg(l []vSx) (m vC01Msg, ok bool) {
	if len(l) != 5 {
		return m, false
	}
	for _, x := range l[:4] {
		if !x.isInt() || x.z.Sign() < 0 {
			return m, false
		}
	}
	m.cid = uint32(l[0].u64())
	m.ts = l[1].u64()
	m.typ = uint8(l[2].u64())
	m.sid = uint32(l[3].u64())
	m.payload, ok = vC01Payload(l[4])
	return m, ok
}

func vC01ErrClass(err error) int {
	if err == nil {
		return 0
	}
	switch oe.Cause(err) {
	case io.EOF:
		return 1
	case io.ErrUnexpectedEOF:
		return 2
	}
	s := err.Error()
	switch {
	case strings.Contains(s, "For fresh chunk"):
		return 3
	case strings.Contains(s, "For exists chunk"):
		return 4
	case strings.Contains(s, "Chunk message size"):
		return 5
	case strings.Contains(s, "decode message"):
		return 6
	case strings.Contains(s, "invalid chunk stream id"):
		return 7
	}
	return 9
}

func vC01MsgObs(m *Message) vSx {
	return vL(vU(uint64(m.betterCid)), vU(m.Timestamp), vU(uint64(m.MessageType)), vU(uint64(m.streamID)),
		vI(len(m.Payload)), vU(vC01Hash(m.Payload)))
}

// the property's domain for one written message (statement of C01)
func vC01InDomain(m vC01Msg) bool {
	if m.cid < 2 || m.cid > 65599 || m.ts >= 1<<31 || len(m.payload) < 1 || len(m.payload) >= 1<<24 {
		return false
	}
	p := m.payload
	switch m.typ {
	case 1:
		if len(p) < 4 {
			return false
		}
		n := binary.BigEndian.Uint32(p)
		return n >= 1 && n <= 0x7fffffff
	case 5:
		return len(p) >= 4
	case 4:
		if len(p) < 3 {
			return false
		}
		et := binary.BigEndian.Uint16(p)
		size := 2 + 4
		if et == 0x1a {
			size = 2 + 1
		}
		if et == 3 {
			size += 4
		}
		return len(p) >= size
	}
	return true
}

// read messages until the first error; a panic is class 1000
func vC01ReadAll(p *Protocol) (ms []*Message, class int) {
	defer func() {
		if r := recover(); r != nil {
			class = 1000
		}
	}()
	for {
		m, err := p.ReadMessage()
		if err != nil {
			return ms, vC01ErrClass(err)
		}
		ms = append(ms, m)
	}
}

func vC01Run(k *vKit, c vSx) (obs vSx, failOracle, failDetail string, nontrivial bool, indomain bool) {
	bad := func(o, d string) {
		if failOracle == "" {
			failOracle, failDetail = o, d
		}
	}
	if !c.isList() || len(c.l) != 4 || !c.l[0].isInt() || !c.l[1].isList() || !c.l[2].isList() || !c.l[3].isList() {
		return vL(vZ(-1)), "", "", false, false
	}
	hs := c.l[0].z.Sign() > 0
	var scripts [2][]int
	for d := 0; d < 2; d++ {
		for _, x := range c.l[1+d].l {
			if !x.isInt() || x.z.Sign() < 0 {
				return vL(vZ(-1)), "", "", false, false
			}
			scripts[d] = append(scripts[d], int(x.u64()))
		}
	}
	var msgs []vC01Msg
	for _, op := range c.l[3].l {
		if !op.isList() || len(op.l) != 6 || !op.l[0].isInt() || op.l[0].z.Sign() < 0 {
			return vL(vZ(-1)), "", "", false, false
		}
		m, ok := vC01ParseMsg(op.l[1:])
		if !ok {
			return vL(vZ(-1)), "", "", false, false
		}
		m.side = int(op.l[0].u64())
		msgs = append(msgs, m)
	}

	// buf[d] carries direction d: written by endpoint d, read by endpoint 1-d.  Endpoint 0 is the
	// client, endpoint 1 the server.  A full session (hs) is what a user of the package does on one
	// connection: the simple handshake through the Handshake API directly on the connection, then
	// IMMEDIATELY NewProtocol on the same connection and the messages.  The client sends its messages
	// right after C2, the server (pipelining) right after S2, so that the tail of the handshake and the
	// first chunk bytes sit in the transport together when the peer reads the handshake: whether they
	// arrive in one read or not is decided by the script alone.
	buf := [2]*vC01Buf{{script: scripts[0]}, {script: scripts[1]}}
	conn := [2]*vC01Conn{{in: buf[1], out: buf[0]}, {in: buf[0], out: buf[1]}}
	hsObs := [2]vSx{vL(), vL()}
	var prot [2]*Protocol
	var wcodes [2][]vSx
	var written [2][]vC01Msg
	dirDomain := [2]bool{true, true}
	chunk := [2]int{128, 128}
	changed := [2]bool{}
	writeSide := func(d int) {
		for _, m := range msgs {
			if m.side != d {
				continue
			}
			if !vC01InDomain(m) {
				dirDomain[d] = false
			}
			if len(m.payload) > chunk[d] || m.ts >= 0xffffff || changed[d] {
				nontrivial = true
			}
			var err error
			msg := vPanicText(func() {
				if m.typ == 1 && m.cid == 2 && m.ts == 0 && len(m.payload) == 4 {
					pkt := NewSetChunkSize()
					pkt.ChunkSize = binary.BigEndian.Uint32(m.payload)
					err = prot[d].WritePacket(pkt, int(m.sid))
				} else {
					mm := NewStreamMessage(int(m.sid))
					mm.betterCid = chunkID(m.cid)
					mm.MessageType = MessageType(m.typ)
					mm.Timestamp = m.ts
					mm.Payload = append([]byte{}, m.payload...)
					err = prot[d].WriteMessage(mm)
				}
			})
			switch {
			case msg != "":
				wcodes[d] = append(wcodes[d], vI(1000))
				bad("no-panic", "writer panicked: "+msg)
			case err != nil:
				wcodes[d] = append(wcodes[d], vI(vC01ErrClass(err)))
			default:
				wcodes[d] = append(wcodes[d], vI(0))
				written[d] = append(written[d], m)
				if m.typ == 1 && len(m.payload) >= 4 {
					if n := binary.BigEndian.Uint32(m.payload); n > 0 {
						if int(n) != chunk[d] {
							changed[d] = true
						}
						chunk[d] = int(n)
					}
				}
			}
			if err != nil && vC01InDomain(m) {
				bad("write-ok", fmt.Sprintf("in-domain message (cid %d type %d len %d) refused by the writer: %v", m.cid, m.typ, len(m.payload), err))
			}
		}
	}
	start := [2]int{0, 0}
	if hs {
		h := [2]*Handshake{NewHandshake(rand.New(rand.NewSource(int64(len(msgs)) + 7))), NewHandshake(rand.New(rand.NewSource(11)))}
		var rd [2][3][]byte // what endpoint e read: c0/s0, c1/s1, c2/s2
		must := func(err error) {
			if err != nil {
				bad("handshake", "handshake step failed: "+err.Error())
			}
		}
		var err error
		// client: C0 C1
		must(h[0].WriteC0S0(conn[0]))
		must(h[0].WriteC1S1(conn[0]))
		// server: reads C0 C1, sends S0 S1 S2 and at once its messages
		rd[1][0], err = h[1].ReadC0S0(conn[1])
		must(err)
		rd[1][1], err = h[1].ReadC1S1(conn[1])
		must(err)
		must(h[1].WriteC0S0(conn[1]))
		must(h[1].WriteC1S1(conn[1]))
		must(h[1].WriteC2S2(conn[1], rd[1][1]))
		prot[1] = NewProtocol(conn[1])
		writeSide(1)
		// client: reads S0 S1 S2 (the server's messages are already behind them), sends C2 and at
		// once its messages
		rd[0][0], err = h[0].ReadC0S0(conn[0])
		must(err)
		rd[0][1], err = h[0].ReadC1S1(conn[0])
		must(err)
		rd[0][2], err = h[0].ReadC2S2(conn[0])
		must(err)
		consumed1 := buf[1].pos
		must(h[0].WriteC2S2(conn[0], rd[0][1]))
		prot[0] = NewProtocol(conn[0])
		writeSide(0)
		// server: reads C2 (the client's messages are already behind it)
		rd[1][2], err = h[1].ReadC2S2(conn[1])
		must(err)
		consumed := [2]int{buf[0].pos, consumed1}
		for d := 0; d < 2; d++ {
			// direction d is read by endpoint 1-d; its C2/S2 must echo what 1-d sent as C1/S1
			e := 1 - d
			echo := len(buf[e].data) >= 1537 && string(rd[e][2]) == string(buf[e].data[1:1537])
			hsObs[d] = vL(vB(rd[e][0]), vI(len(rd[e][1])), vI(len(rd[e][2])), vBool(echo))
			// direct oracle: the handshake reads took exactly 1+1536+1536 bytes off the connection,
			// whatever else was already waiting there
			if len(buf[d].data) < 3073 || consumed[d] != 3073 {
				bad("handshake", fmt.Sprintf("direction %d: handshake reads consumed %d bytes of the connection, want 3073", d, consumed[d]))
			}
			if !echo || len(rd[e][0]) != 1 || rd[e][0][0] != 3 || len(buf[d].data) < 1537 || string(rd[e][1]) != string(buf[d].data[1:1537]) {
				bad("handshake", fmt.Sprintf("direction %d: handshake content not delivered intact", d))
			}
			start[d] = 3073
			if len(buf[d].data) < 3073 {
				start[d] = len(buf[d].data)
			}
		}
	} else {
		prot = [2]*Protocol{NewProtocol(conn[0]), NewProtocol(conn[1])}
		writeSide(0)
		writeSide(1)
	}

	var dirs [2]vSx
	for d := 0; d < 2; d++ {
		wire := buf[d].data[start[d]:]
		got, class := vC01ReadAll(prot[1-d])
		var gl []vSx
		for _, m := range got {
			gl = append(gl, vC01MsgObs(m))
		}
		dirs[d] = vL(hsObs[d], vL(vI(len(wire)), vU(vC01Hash(wire))), vLs(wcodes[d]), vLs(gl), vI(class))
		k.count("wire", vSizeBucket(len(wire)))
		k.count("final", fmt.Sprint(class))
		if class == 1000 {
			bad("no-panic", fmt.Sprintf("direction %d: ReadMessage panicked", d))
		}
		if !dirDomain[d] {
			continue
		}
		// direct oracle: the peer reads exactly the written sequence, then a clean EOF
		if len(got) != len(written[d]) {
			bad("round-trip", fmt.Sprintf("direction %d: %d messages written, %d read, final class %d", d, len(written[d]), len(got), class))
			continue
		}
		for i, w := range written[d] {
			g := got[i]
			if uint8(g.MessageType) != w.typ || g.streamID != w.sid || g.Timestamp != w.ts || string(g.Payload) != string(w.payload) {
				bad("round-trip", fmt.Sprintf("direction %d message %d: wrote (type %d sid %d ts %d len %d hash %d) read (type %d sid %d ts %d len %d hash %d)",
					d, i, w.typ, w.sid, w.ts, len(w.payload), vC01Hash(w.payload), g.MessageType, g.streamID, g.Timestamp, len(g.Payload), vC01Hash(g.Payload)))
				break
			}
		}
		if class != 1 {
			bad("round-trip", fmt.Sprintf("direction %d: stream ended with error class %d, want EOF", d, class))
		}
	}
	return vOk(dirs[0], dirs[1]), failOracle, failDetail, nontrivial, dirDomain[0] && dirDomain[1]
}

func vC01Be4(n uint32) []byte {
	b := make([]byte, 4)
	binary.BigEndian.PutUint32(b, n)
	return b
}

// body of a protocol control message of the given type, well-formed
func vC01CtlBody(r *vRng, typ int) []byte {
	switch typ {
	case 4:
		et := r.pickInt(0, 1, 2, 3, 4, 6, 7, 0x1a, 0x1f, 0xffff)
		b := []byte{byte(et >> 8), byte(et)}
		n := 4
		if et == 0x1a {
			n = 1
		}
		if et == 3 {
			n += 4
		}
		b = append(b, r.bytes(n)...)
		if r.chance(1, 6) {
			b = append(b, r.bytes(r.rng(1, 5))...)
		}
		return b
	case 6:
		return append(r.bytes(4), byte(r.intn(3)))
	}
	return r.bytes(4)
}

// segmentation script of one direction; with a handshake in front, half of the scripts aim at the
// handshake boundaries (offsets 1, 1537, 3073 of the direction's byte stream): a segment ends k bytes
// before or after one of them (k = 0..5), so that the end of C2/S2 and the first chunk bytes share
// a transport read, or a handshake part is split across reads
func vC01Script(r *vRng, hs bool) []vSx {
	if hs && r.chance(1, 2) {
		k := r.intn(6)
		if r.chance(1, 2) {
			k = -k
		}
		tail := r.pickInt(1, 2, 7, 128, 4096, 70000, 70000)
		switch r.intn(5) {
		case 0:
			return []vSx{vI(vC01Max1(1 + k)), vI(tail)}
		case 1:
			return []vSx{vI(1537 + k), vI(tail)}
		case 2, 3:
			return []vSx{vI(3073 + k), vI(tail)}
		}
		// every boundary moved by k
		return []vSx{vI(vC01Max1(1 + k)), vI(1536), vI(1536), vI(tail), vI(70000), vI(70000), vI(70000)}
	}
	switch r.intn(5) {
	case 0:
		return nil // whole: everything available in one read (handshake tail + chunks coalesced)
	case 1:
		return []vSx{vI(1)}
	case 2:
		return []vSx{vI(r.pickInt(2, 3, 7, 11, 127, 128, 129, 4096, 5000))}
	}
	n := r.rng(2, 6)
	var s []vSx
	for i := 0; i < n; i++ {
		s = append(s, vI(r.pickInt(1, 1, 2, 3, 5, 12, 13, 100, 1000, 4095, 4097, 70000)))
	}
	return s
}

func vC01Max1(n int) int {
	if n < 1 {
		return 1
	}
	return n
}

// full sessions with every cut position around every handshake boundary, both directions carrying
// messages (a multi-chunk one first, a Set Chunk Size, an extended timestamp)
func vC01SessionCases(emit func(vSx)) {
	ops := vL(
		vL(vI(0), vI(3), vU(0), vI(20), vU(0), vL(vI(300), vI(5))),
		vL(vI(0), vI(2), vU(0), vI(1), vU(0), vB(vC01Be4(4096))),
		vL(vI(0), vI(5), vU(0x1000000), vI(9), vU(1), vL(vI(5000), vI(9))),
		vL(vI(1), vI(2), vU(0), vI(5), vU(0), vB(vC01Be4(2500000))),
		vL(vI(1), vI(3), vU(0), vI(20), vU(0), vL(vI(129), vI(1))),
		vL(vI(1), vI(64), vU(0xffffff), vI(8), vU(1), vL(vI(1), vI(2))))
	scripts := [][]vSx{nil, {vI(1)}, {vI(3073), vI(1)}, {vI(4096)}}
	for _, b := range []int{1, 1537, 3073} {
		for k := -5; k <= 5; k++ {
			if b+k >= 1 {
				scripts = append(scripts, []vSx{vI(b + k), vI(70000)})
			}
		}
	}
	for _, sc := range scripts {
		emit(vL(vI(1), vLs(sc), vLs(sc), ops))
	}
}

func vC01Gen(r *vRng, thorough bool) vSx {
	hs := 0
	if r.chance(1, 3) {
		hs = 1
	}
	malformed := r.chance(1, 7)
	chunk := [2]int{128, 128}
	n := r.rng(1, 8)
	if r.chance(1, 10) {
		n = r.rng(9, 30)
	}
	budget := 140000 // bytes of payload per case (quick)
	if thorough {
		budget = 250000
	}
	var ops []vSx
	for i := 0; i < n; i++ {
		side := r.intn(2)
		c := chunk[side]
		cid := r.pickInt(2, 3, 4, 5, 6, 7, 8, 5, 5, 63, 64, 65, 319, 320, 65599, r.rng(2, 65599))
		ts := r.pickU64(0, 0, 1, 0xfffffe, 0xffffff, 0x1000000, 0x7fffffff, 0x7ffffffe, uint64(r.intn(1<<31)), uint64(r.intn(100000)))
		sid := r.pickU64(0, 1, 1, 2, 0xffffffff, 0x01020304, uint64(r.next()&0xffffffff))
		typ := r.pickInt(8, 9, 8, 9, 18, 20, 15, 17, 22, r.intn(256), r.rng(1, 7))
		var pay vSx
		switch {
		case r.chance(1, 5) || typ == 1:
			// Set Chunk Size by this side
			typ = 1
			nv := r.pickU64(1, 2, 127, 128, 129, 4096, 65536, 0x7fffffff, uint64(r.rng(1, 300)), uint64(r.rng(1, 70000)))
			if !r.chance(1, 3) {
				cid, ts = 2, 0
			}
			body := vC01Be4(uint32(nv))
			if r.chance(1, 8) {
				body = append(body, r.bytes(r.rng(1, 200))...)
			}
			pay = vB(body)
			chunk[side] = int(nv)
		case typ >= 2 && typ <= 6:
			pay = vB(vC01CtlBody(r, typ))
		default:
			var ln int
			switch r.intn(40) {
			case 0, 1, 2:
				ln = 1
			case 3, 4, 5, 6:
				ln = c - 1
			case 7, 8, 9, 10:
				ln = c
			case 11, 12, 13, 14:
				ln = c + 1
			case 15, 16, 17:
				ln = 2*c - 1
			case 18, 19, 20:
				ln = 2 * c
			case 21, 22, 23:
				ln = 2*c + 1
			case 24, 25, 26:
				ln = r.rng(2, 5)*c + r.rng(-1, 1)
			case 27:
				ln = 65535
			case 28:
				ln = 65536
			case 29, 30, 31:
				ln = r.rng(1, 1000)
			case 32:
				ln = r.rng(1, 70000)
			default:
				ln = r.rng(1, 3*128)
			}
			if ln < 1 || ln >= 1<<24 {
				ln = r.pickInt(1, 127, 128, 129, 65535, 65536)
			}
			if ln > budget {
				ln = r.rng(1, 400)
			}
			budget -= ln
			pay = vL(vI(ln), vI(r.intn(251)))
		}
		if malformed && r.chance(1, 2) {
			switch r.intn(8) {
			case 0:
				cid = r.pickInt(0, 1, 65600, 1<<31)
			case 1:
				pay = vB(nil)
			case 2:
				ts = r.pickU64(1<<31, 1<<32-1, 1<<32+5, 1<<63)
			case 3:
				typ, pay = 1, vB(vC01Be4(0))
			case 4:
				typ, pay = 1, vB(vC01Be4(uint32(r.pickU64(1<<31, 1<<32-1))))
				chunk[side] = 1 << 31
			case 5:
				typ, pay = 1, vB(r.bytes(r.intn(4)))
			case 6:
				typ, pay = 4, vB(r.bytes(r.intn(3)))
			case 7:
				typ, pay = r.pickInt(4, 5), vB(r.bytes(r.rng(1, 3)))
			}
		}
		ops = append(ops, vL(vI(side), vI(cid), vU(ts), vI(typ), vU(sid), pay))
	}
	return vL(vI(hs), vLs(vC01Script(r, hs == 1)), vLs(vC01Script(r, hs == 1)), vLs(ops))
}

func TestVerifC01(t *testing.T) {
	k := vNewKit(t, "C01")
	defer k.close()
	runOne := func(c vSx) {
		obs, fo, fd, nt, dom := vC01Run(k, c)
		idx := k.record(c, obs, nt)
		if c.isList() && len(c.l) == 4 {
			k.count("messages", vSizeBucket(len(c.l[3].l)))
		}
		if dom {
			k.count("domain", "in")
		} else {
			k.count("domain", "outside")
		}
		if fo != "" {
			k.fail(idx, c.size(), fo, "", fd)
		}
	}
	if k.replay != nil {
		runOne(*k.replay)
		return
	}
	for _, c := range k.corpus() {
		runOne(c)
	}
	vC01SessionCases(runOne)
	if k.thorough() && k.nOverr == 0 {
		// the 24-bit length limit: 2^24-1 bytes in 256 chunks of 65536 with an extended timestamp on a
		// 3-byte-form chunk stream; a long script keeps this case out of the kernel-evaluated sample
		var script []vSx
		for i := 0; i < 700; i++ {
			script = append(script, vI(4096+i%3))
		}
		big := vL(vI(1<<24-1), vI(17))
		runOne(vL(vI(1), vLs(script), vL(), vL(vL(vI(0), vI(2), vU(0), vI(1), vU(0), vB(vC01Be4(65536))),
			vL(vI(0), vI(320), vU(0x7fffffff), vI(8), vU(0xffffffff), big), vL(vI(0), vI(5), vU(0), vI(9), vU(1), vL(vI(1), vI(0))))))
	}
	n := k.N(400, 700)
	for i := 0; i < n; i++ {
		runOne(vC01Gen(k.rnd, k.thorough()))
	}
}
