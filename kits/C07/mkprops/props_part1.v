(* C07 -- untrusted bytes never crash or stall a decoder; enum helpers are total.
   Property theorems only; every proof is `exact <lemma>`.

   Part 1: every enum / size helper whose body the translator regenerates from /repo
   (coq/Gen/Gen_<pkg>.v, tools/repo2coq/gen_funcs.go) never panics on ANY value of its
   underlying integer type (the bound 2^8 / 2^16 is the whole range of uint8 / uint16; helpers
   over `int` are proved for every integer).  `res` is Ok / Err / Panic; table indexing in the
   generated bodies goes through the checked accessor nth_chk, which yields Panic out of range
   (Example nth_chk_panics), so these statements are about the code's index expressions. *)
From Coq Require Import String.
From Verif Require Import Lib.Base Lib.Sx Lib.GoSem Model.Total Proofs.Total Proofs.TotalSem.
From Verif Require Import Gen.Gen_amf0 Gen.Gen_rtmp Gen.Gen_flv Gen.Gen_aac Gen.Gen_avc Gen.Gen_websocket.
Open Scope Z_scope.

Theorem c07_amf0_marker_String_total : forall v, 0 <= v < 2 ^ 8 -> forall s, amf0_marker_String v <> Panic s.
Proof. exact amf0_marker_String_total. Qed.

Theorem c07_amf0_Discovery_total : forall (p : list Z) s, amf0_Discovery p <> Panic s.
Proof. exact amf0_Discovery_total. Qed.

Theorem c07_rtmp_UserControl_Size_total : forall v s, rtmp_UserControl_Size v <> Panic s.
Proof. exact rtmp_UserControl_Size_total. Qed.

Theorem c07_rtmp_SetChunkSize_Size_total : forall u s, rtmp_SetChunkSize_Size u <> Panic s.
Proof. exact rtmp_SetChunkSize_Size_total. Qed.

Theorem c07_rtmp_WindowAcknowledgementSize_Size_total : forall u s, rtmp_WindowAcknowledgementSize_Size u <> Panic s.
Proof. exact rtmp_WindowAcknowledgementSize_Size_total. Qed.

Theorem c07_rtmp_SetPeerBandwidth_Size_total : forall u s, rtmp_SetPeerBandwidth_Size u <> Panic s.
Proof. exact rtmp_SetPeerBandwidth_Size_total. Qed.

Theorem c07_flv_TagType_String_total : forall v, 0 <= v < 2 ^ 8 -> forall s, flv_TagType_String v <> Panic s.
Proof. exact flv_TagType_String_total. Qed.

Theorem c07_flv_AudioChannels_String_total : forall v, 0 <= v < 2 ^ 8 -> forall s, flv_AudioChannels_String v <> Panic s.
Proof. exact flv_AudioChannels_String_total. Qed.

Theorem c07_flv_AudioSampleBits_String_total : forall v, 0 <= v < 2 ^ 8 -> forall s, flv_AudioSampleBits_String v <> Panic s.
Proof. exact flv_AudioSampleBits_String_total. Qed.

Theorem c07_flv_AudioSamplingRate_String_total : forall v, 0 <= v < 2 ^ 8 -> forall s, flv_AudioSamplingRate_String v <> Panic s.
Proof. exact flv_AudioSamplingRate_String_total. Qed.

Theorem c07_flv_AudioCodec_String_total : forall v, 0 <= v < 2 ^ 8 -> forall s, flv_AudioCodec_String v <> Panic s.
Proof. exact flv_AudioCodec_String_total. Qed.

Theorem c07_flv_VideoFrameType_String_total : forall v, 0 <= v < 2 ^ 8 -> forall s, flv_VideoFrameType_String v <> Panic s.
Proof. exact flv_VideoFrameType_String_total. Qed.

Theorem c07_flv_VideoCodec_String_total : forall v, 0 <= v < 2 ^ 8 -> forall s, flv_VideoCodec_String v <> Panic s.
Proof. exact flv_VideoCodec_String_total. Qed.

Theorem c07_flv_VideoFrameTrait_String_total : forall v, 0 <= v < 2 ^ 8 -> forall s, flv_VideoFrameTrait_String v <> Panic s.
Proof. exact flv_VideoFrameTrait_String_total. Qed.

Theorem c07_flv_AudioSamplingRate_ToHz_total : forall v, 0 <= v < 2 ^ 8 -> forall s, flv_AudioSamplingRate_ToHz_res v <> Panic s.
Proof. exact flv_AudioSamplingRate_ToHz_total. Qed.

Theorem c07_flv_AudioSamplingRate_OpusToHz_total : forall v, 0 <= v < 2 ^ 8 -> forall s, flv_AudioSamplingRate_OpusToHz_res v <> Panic s.
Proof. exact flv_AudioSamplingRate_OpusToHz_total. Qed.

Theorem c07_flv_AudioSamplingRate_From_total : forall v a, 0 <= v < 2 ^ 8 -> 0 <= a < 2 ^ 8 -> forall s, flv_AudioSamplingRate_From_res v a <> Panic s.
Proof. exact flv_AudioSamplingRate_From_total. Qed.

Theorem c07_flv_AudioSamplingRate_OpusFrom_total : forall v a, 0 <= v < 2 ^ 8 -> 0 <= a < 2 ^ 8 -> forall s, flv_AudioSamplingRate_OpusFrom_res v a <> Panic s.
Proof. exact flv_AudioSamplingRate_OpusFrom_total. Qed.

Theorem c07_flv_AudioChannels_From_total : forall v a, 0 <= v < 2 ^ 8 -> 0 <= a < 2 ^ 8 -> forall s, flv_AudioChannels_From_res v a <> Panic s.
Proof. exact flv_AudioChannels_From_total. Qed.

Theorem c07_aac_ObjectType_String_total : forall v, 0 <= v < 2 ^ 8 -> forall s, aac_ObjectType_String v <> Panic s.
Proof. exact aac_ObjectType_String_total. Qed.

Theorem c07_aac_ObjectType_ToProfile_total : forall v, 0 <= v < 2 ^ 8 -> forall s, aac_ObjectType_ToProfile v <> Panic s.
Proof. exact aac_ObjectType_ToProfile_total. Qed.

Theorem c07_aac_Profile_String_total : forall v, 0 <= v < 2 ^ 8 -> forall s, aac_Profile_String v <> Panic s.
Proof. exact aac_Profile_String_total. Qed.

Theorem c07_aac_Profile_ToObjectType_total : forall v, 0 <= v < 2 ^ 8 -> forall s, aac_Profile_ToObjectType v <> Panic s.
Proof. exact aac_Profile_ToObjectType_total. Qed.

Theorem c07_aac_SampleRateIndex_String_total : forall v, 0 <= v < 2 ^ 8 -> forall s, aac_SampleRateIndex_String v <> Panic s.
Proof. exact aac_SampleRateIndex_String_total. Qed.

Theorem c07_aac_SampleRateIndex_ToHz_total : forall v, 0 <= v < 2 ^ 8 -> forall s, aac_SampleRateIndex_ToHz v <> Panic s.
Proof. exact aac_SampleRateIndex_ToHz_total. Qed.

Theorem c07_aac_Channels_String_total : forall v, 0 <= v < 2 ^ 8 -> forall s, aac_Channels_String v <> Panic s.
Proof. exact aac_Channels_String_total. Qed.

Theorem c07_avc_NALUType_String_total : forall v, 0 <= v < 2 ^ 8 -> forall s, avc_NALUType_String v <> Panic s.
Proof. exact avc_NALUType_String_total. Qed.

Theorem c07_avc_AVCProfile_String_total : forall v, 0 <= v < 2 ^ 16 -> forall s, avc_AVCProfile_String v <> Panic s.
Proof. exact avc_AVCProfile_String_total. Qed.

Theorem c07_avc_AVCLevel_String_total : forall v, 0 <= v < 2 ^ 8 -> forall s, avc_AVCLevel_String v <> Panic s.
Proof. exact avc_AVCLevel_String_total. Qed.

Theorem c07_websocket_isControl_total : forall v s, websocket_isControl v <> Panic s.
Proof. exact websocket_isControl_total. Qed.

Theorem c07_websocket_isData_total : forall v s, websocket_isData v <> Panic s.
Proof. exact websocket_isData_total. Qed.

Theorem c07_websocket_isValidReceivedCloseCode_total : forall v s, websocket_isValidReceivedCloseCode v <> Panic s.
Proof. exact websocket_isValidReceivedCloseCode_total. Qed.

Theorem c07_websocket_isValidCompressionLevel_total : forall v s, websocket_isValidCompressionLevel v <> Panic s.
Proof. exact websocket_isValidCompressionLevel_total. Qed.
