(* ------------------------------------------------------------------------------------------
   Part 2: decoder totality.  The executable decoder models live in the Model files of the
   properties that own them; their `never Panic` theorems are restated here.  [wf_bytes] says
   every list element is < 256 (all a byte string can contain); fuel parameters are universally
   quantified, and out-of-fuel is an ordinary error excluded where the statement says so.
   Part 3 (last theorem): the linear-time clause, refuted for AMF0.
   ------------------------------------------------------------------------------------------ *)

From Verif Require Proofs.Amf0 Proofs.RtmpChunk Proofs.RtmpPacket Proofs.FlvTotal Proofs.FlvPack Proofs.Aac Proofs.Avc Proofs.WsReadProps Proofs.JsonPlusTotal Proofs.JoseFixed Proofs.JoseCipher Proofs.JoseWrap Proofs.Amf0Cost.

(* AMF0: Discovery + UnmarshalBinary of every value type, every nesting, every byte string (any fuel) *)
Theorem c07_amf0_dec_total :
    forall (fuel : nat) (p : bytes), wf_bytes p -> forall s : N, Amf0.dec fuel p <> Panic s.
Proof. exact Verif.Proofs.Amf0.amf0_dec_total. Qed.

(* RTMP chunk reader: ReadMessage from every reachable reader state on every input *)
Theorem c07_rtmp_read_total :
    forall (fuel : nat) (s : RtmpChunk.rstate) (i : RtmpChunk.inp) (p : N),
    RtmpChunk.rs_ok s -> RtmpChunk.read_message fuel s i <> Panic p.
Proof. exact Verif.Proofs.RtmpChunk.rtmp_read_total. Qed.

(* RTMP DecodeMessage (message type dispatch, AMF0 command name and transaction lookup, packet decoder) for every transaction table, type and payload *)
Theorem c07_rtmp_decode_message_total :
    forall (t : RtmpPacket.tx) (mt : N) (payload : bytes),
    RtmpPacket.np (fst (RtmpPacket.decode_message t mt payload)).
Proof. exact Verif.Proofs.RtmpPacket.decode_message_total. Qed.

(* every RTMP packet decoder (UnmarshalBinary) on every byte string *)
Theorem c07_rtmp_unmarshal_total :
    forall (r : RtmpPacket.pkt) (data : bytes), RtmpPacket.np (RtmpPacket.unmarshal r data).
Proof. exact Verif.Proofs.RtmpPacket.unmarshal_total. Qed.

(* FLV demuxer: header, tag headers and tags of every stream *)
Theorem c07_flv_demux_total :
    forall (fuel : nat) (s : Flv.stream) (x : N), FlvTotal.wf_stream s -> Flv.demux fuel s <> Panic x.
Proof. exact Verif.Proofs.FlvTotal.flv_demux_total. Qed.

(* FLV audio packager Decode *)
Theorem c07_flv_audio_dec_total :
    forall (bs : bytes) (x : N), wf_bytes bs -> Flv.audio_dec bs <> Panic x.
Proof. exact Verif.Proofs.FlvPack.flv_audio_dec_total. Qed.

(* FLV video packager Decode *)
Theorem c07_flv_video_dec_total :
    forall (bs : bytes) (x : N), wf_bytes bs -> Flv.video_dec bs <> Panic x.
Proof. exact Verif.Proofs.FlvPack.flv_video_dec_total. Qed.

(* ADTS Decode from every codec state *)
Theorem c07_aac_adts_dec_total :
    forall (st : Aac.asc) (data : bytes) (s : N), snd (Aac.adts_decode st data) <> Panic s.
Proof. exact Verif.Proofs.Aac.adts_decode_total. Qed.

(* ADTS Decode repeated over the remainder *)
Theorem c07_aac_adts_stream_total :
    forall (fuel : nat) (st : Aac.asc) (data : bytes) (acc : list (bytes * Aac.asc)) (s : N),
    snd (Aac.adts_stream fuel st data acc) <> Panic s.
Proof. exact Verif.Proofs.Aac.adts_stream_total. Qed.

(* AudioSpecificConfig.UnmarshalBinary *)
Theorem c07_aac_asc_dec_total :
    forall (st : Aac.asc) (data : bytes) (s : N), snd (Aac.asc_unmarshal st data) <> Panic s.
Proof. exact Verif.Proofs.Aac.asc_unmarshal_total. Qed.

(* AVCDecoderConfigurationRecord.UnmarshalBinary *)
Theorem c07_avc_record_dec_total :
    forall (st : Avc.avcrec) (data : bytes) (s : N), snd (Avc.rec_unmarshal st data) <> Panic s.
Proof. exact Verif.Proofs.Avc.rec_unmarshal_total. Qed.

(* AVCSample.UnmarshalBinary for every length size *)
Theorem c07_avc_sample_dec_total :
    forall (lsm1 : N) (have : list Avc.nalu) (data : bytes) (s : N),
    snd (Avc.sample_unmarshal lsm1 have data) <> Panic s.
Proof. exact Verif.Proofs.Avc.sample_unmarshal_total. Qed.

(* NALU.UnmarshalBinary *)
Theorem c07_avc_nalu_dec_total :
    forall (data : bytes) (s : N), Avc.nalu_unmarshal data <> Panic s.
Proof. exact Verif.Proofs.Avc.nalu_total. Qed.

(* WebSocket frame reader *)
Theorem c07_ws_read_total :
    forall (server : bool) (limit : Z) (extra : nat) (bs : bytes),
    wf_bytes bs ->
    limit < 9223372036854775808 ->
    (extra < 999)%nat -> forall s : N, WsRead.lib_session true server limit extra bs <> Panic s.
Proof. exact Verif.Proofs.WsReadProps.ws_read_total. Qed.

(* WebSocket frame reader, fixed and pinned behaviour, from every input *)
Theorem c07_ws_read_total_all :
    forall (fixed server : bool) (limit : Z) (extra : nat) (inp : bytes) (s : N),
    (extra < 999)%nat -> WsRead.lib_session fixed server limit extra inp <> Panic s.
Proof. exact Verif.Proofs.WsReadProps.ws_read_total_all. Qed.

(* JSON+ reader over every segmentation of the input: no panic and never out of fuel (it always returns) *)
Theorem c07_jsonplus_total :
    forall (segs : list bytes) (fin : N) (dt : bool),
    fin <> JsonPlus.E_FUEL ->
    (forall s : N, snd (JsonPlus.reader_dt segs fin dt) <> Panic s) /\
    snd (JsonPlus.reader_dt segs fin dt) <> Err JsonPlus.E_FUEL.
Proof. exact Verif.Proofs.JsonPlusTotal.jsonplus_total. Qed.

(* JSON+ comment stripping of a whole document *)
Theorem c07_jsonplus_strip_total :
    forall d : bytes,
    (forall s : N, snd (JsonPlus.strip d) <> Panic s) /\ snd (JsonPlus.strip d) <> Err JsonPlus.E_FUEL.
Proof. exact Verif.Proofs.JsonPlusTotal.strip_total. Qed.

(* JOSE base64URLDecode (padding arithmetic) *)
Theorem c07_jose_b64_total :
    forall (s : bytes) (p : N), Jose.b64url_decode_r s <> Panic p.
Proof. exact Verif.Proofs.JoseFixed.b64url_decode_r_total. Qed.

(* JOSE CBC unpadBuffer index arithmetic *)
Theorem c07_jose_unpad_total :
    forall (b : bytes) (bs s : N), Jose.unpad_buffer b bs <> Panic s.
Proof. exact Verif.Proofs.JoseCipher.unpad_total. Qed.

(* JOSE AES key unwrap of a peer-supplied key of every length, for every block function *)
Theorem c07_jose_keyunwrap_total :
    forall (D : bytes -> bytes) (ct : bytes) (s : N), Jose.key_unwrap D ct <> Panic s.
Proof. exact Verif.Proofs.JoseWrap.key_unwrap_total. Qed.

(* JOSE compact JWS split and decode *)
Theorem c07_jose_jws_compact_parse_total :
    forall (s : bytes) (j : bool) (p : N), Jose.parse_jws_compact s j <> Panic p.
Proof. exact Verif.Proofs.JoseFixed.parse_jws_compact_total. Qed.

(* JOSE compact JWE split and decode *)
Theorem c07_jose_jwe_compact_parse_total :
    forall (s : bytes) (h p : N), Jose.parse_jwe_compact s h <> Panic p.
Proof. exact Verif.Proofs.JoseFixed.parse_jwe_compact_total. Qed.

(* ALWAYS RETURNS: with fuel above the input length the AMF0 decoder never runs out of fuel (the fuel only makes the recursion structural) *)
Theorem c07_amf0_dec_returns :
    forall (fuel : nat) (p : list N), (length p < fuel)%nat -> Amf0.dec fuel p <> Err Amf0.E_FUEL.
Proof. exact Verif.Proofs.Amf0.amf0_dec_fuel. Qed.

(* ALWAYS RETURNS: the AVCSample loop consumes at least one byte per iteration *)
Theorem c07_avc_sample_returns :
    forall (fuel : nat) (k : N) (b : list N) (acc : list Avc.nalu),
    (1 <= k)%N -> (length b < fuel)%nat -> snd (Avc.sample_loop fuel k b acc) <> Err 100.
Proof. exact Verif.Proofs.Avc.sample_loop_fuel. Qed.

(* ALWAYS RETURNS: the FLV tag loop *)
Theorem c07_flv_tags_return :
    forall (fuel : nat) (s : Flv.stream) (acc : list Flv.tag) (e : N),
    (length (fst (Flv.flat s)) < fuel)%nat -> Flv.read_tags fuel s acc <> Err e.
Proof. exact Verif.Proofs.FlvTotal.read_tags_fuel. Qed.

(* LINEAR TIME IS REFUTED for AMF0 (known finding amf0-quadratic-nesting): for every slope k there is a well-formed byte string whose decoding cost -- method invocations, counting the Size() walk of the whole subtree that objectBase.unmarshal repeats after every decoded child -- exceeds k times its length (witness family 03 (00 01 61 03)^d (00 00 09)^(d+1), cost (d+1)^2 on 7d+4 bytes) *)
Theorem c07_amf0_cost_refuted :
    forall k : N, exists bs : bytes, wf_bytes bs /\ (Amf0Cost.cost_amf0 bs > k * lenN bs)%N.
Proof. exact Verif.Proofs.Amf0Cost.amf0_cost_quadratic_refuted. Qed.
