#!/usr/bin/env python3
"""Build the stage-3 part of Props/C07.v: restate the decoder-totality lemmas that exist in
other builders' Proofs files.  For each candidate the first alias that compiles is used."""
import subprocess, re, os, sys

COQ = '/verif/coq'
# (theorem name, comment, [(file module, lemma), ...aliases in order of preference])
CANDS = [
 ("c07_amf0_dec_total", "AMF0: Discovery + UnmarshalBinary of every value type, every nesting, every byte string (any fuel)",
  [("Proofs.Amf0", "amf0_dec_total")]),
 ("c07_rtmp_read_total", "RTMP chunk reader: ReadMessage from every reachable reader state on every input",
  [("Proofs.RtmpChunk", "rtmp_read_total")]),
 ("c07_rtmp_decode_message_total", "RTMP DecodeMessage (message type dispatch, AMF0 command name and transaction lookup, packet decoder) for every transaction table, type and payload",
  [("Proofs.RtmpPacket", "rtmp_decode_message_total"), ("Proofs.RtmpPacket", "decode_message_total")]),
 ("c07_rtmp_unmarshal_total", "every RTMP packet decoder (UnmarshalBinary) on every byte string",
  [("Proofs.RtmpPacket", "rtmp_unmarshal_total"), ("Proofs.RtmpPacket", "unmarshal_total")]),
 ("c07_flv_demux_total", "FLV demuxer: header, tag headers and tags of every stream",
  [("Proofs.FlvTotal", "flv_demux_total")]),
 ("c07_flv_audio_dec_total", "FLV audio packager Decode",
  [("Proofs.FlvPack", "flv_audio_dec_total")]),
 ("c07_flv_video_dec_total", "FLV video packager Decode",
  [("Proofs.FlvPack", "flv_video_dec_total")]),
 ("c07_aac_adts_dec_total", "ADTS Decode from every codec state",
  [("Proofs.Aac", "aac_adts_dec_total"), ("Proofs.Aac", "adts_decode_total")]),
 ("c07_aac_adts_stream_total", "ADTS Decode repeated over the remainder",
  [("Proofs.Aac", "aac_adts_stream_total"), ("Proofs.Aac", "adts_stream_total")]),
 ("c07_aac_asc_dec_total", "AudioSpecificConfig.UnmarshalBinary",
  [("Proofs.Aac", "aac_asc_dec_total"), ("Proofs.Aac", "asc_unmarshal_total")]),
 ("c07_avc_record_dec_total", "AVCDecoderConfigurationRecord.UnmarshalBinary",
  [("Proofs.Avc", "avc_record_dec_total"), ("Proofs.Avc", "rec_unmarshal_total"), ("Proofs.Avc", "record_total")]),
 ("c07_avc_sample_dec_total", "AVCSample.UnmarshalBinary for every length size",
  [("Proofs.Avc", "avc_sample_dec_total"), ("Proofs.Avc", "sample_unmarshal_total"), ("Proofs.Avc", "sample_total")]),
 ("c07_avc_nalu_dec_total", "NALU.UnmarshalBinary",
  [("Proofs.Avc", "avc_nalu_dec_total"), ("Proofs.Avc", "nalu_total")]),
 ("c07_ws_read_total", "WebSocket frame reader",
  [("Proofs.WsReadProps", "ws_read_total"), ("Proofs.WsRead", "ws_read_total")]),
 ("c07_ws_read_total_all", "WebSocket frame reader, fixed and pinned behaviour, from every input",
  [("Proofs.WsReadProps", "ws_read_total_all")]),
 ("c07_jsonplus_total", "JSON+ reader over every segmentation of the input: no panic and never out of fuel (it always returns)",
  [("Proofs.JsonPlusTotal", "jsonplus_total")]),
 ("c07_jsonplus_strip_total", "JSON+ comment stripping of a whole document",
  [("Proofs.JsonPlusTotal", "strip_total")]),
 ("c07_jose_b64_total", "JOSE base64URLDecode (padding arithmetic)",
  [("Proofs.JoseFixed", "jose_b64_total"), ("Proofs.JoseFixed", "b64url_decode_r_total")]),
 ("c07_jose_unpad_total", "JOSE CBC unpadBuffer index arithmetic",
  [("Proofs.JoseCipher", "jose_unpad_total"), ("Proofs.JoseCipher", "unpad_total")]),
 ("c07_jose_keyunwrap_total", "JOSE AES key unwrap of a peer-supplied key of every length, for every block function",
  [("Proofs.JoseWrap", "jose_keyunwrap_total"), ("Proofs.JoseWrap", "key_unwrap_total")]),
 ("c07_jose_jws_compact_parse_total", "JOSE compact JWS split and decode",
  [("Proofs.JoseFixed", "jose_compact_parse_total"), ("Proofs.JoseFixed", "parse_jws_compact_total")]),
 ("c07_jose_jwe_compact_parse_total", "JOSE compact JWE split and decode",
  [("Proofs.JoseFixed", "parse_jwe_compact_total")]),
 ("c07_amf0_dec_returns", "ALWAYS RETURNS: with fuel above the input length the AMF0 decoder never runs out of fuel (the fuel only makes the recursion structural)",
  [("Proofs.Amf0", "amf0_dec_fuel")]),
 ("c07_avc_sample_returns", "ALWAYS RETURNS: the AVCSample loop consumes at least one byte per iteration",
  [("Proofs.Avc", "sample_loop_fuel")]),
 ("c07_flv_tags_return", "ALWAYS RETURNS: the FLV tag loop",
  [("Proofs.FlvTotal", "read_tags_fuel")]),
 ("c07_amf0_cost_refuted", "LINEAR TIME IS REFUTED for AMF0 (known finding amf0-quadratic-nesting): for every slope k there is a well-formed byte string whose decoding cost -- method invocations, counting the Size() walk of the whole subtree that objectBase.unmarshal repeats after every decoded child -- exceeds k times its length (witness family 03 (00 01 61 03)^d (00 00 09)^(d+1), cost (d+1)^2 on 7d+4 bytes)",
  [("Proofs.Amf0Cost", "amf0_cost_quadratic_refuted")]),
]

def coqc(text, name):
    os.makedirs('/tmp/c07probe', exist_ok=True)
    p = '/tmp/c07probe/%s.v' % name
    open(p, 'w').write(text)
    r = subprocess.run(['timeout', '900', 'coqc', '-q', '-Q', COQ, 'Verif', p], cwd='/tmp/c07probe', capture_output=True, text=True)
    return r.returncode, r.stdout + r.stderr

def vo_fresh(mod):
    f = os.path.join(COQ, mod.replace('.', '/'))
    return os.path.exists(f + '.vo') and os.path.getmtime(f + '.vo') >= os.path.getmtime(f + '.v')

# bring the candidate files up to date first (under the shared build lock), so that a stale .vo does not drop a theorem
mods_all = sorted({m for _, _, al in CANDS for m, _ in al if os.path.exists(os.path.join(COQ, m.replace('.', '/') + '.v'))})
subprocess.run("flock /verif/build/.coq.lock make -k -j8 " + " ".join(m.replace('.', '/') + ".vo" for m in mods_all),
               shell=True, cwd=COQ, capture_output=True, text=True, timeout=3000)
chosen = []
for thm, comment, aliases in CANDS:
    for mod, lem in aliases:
        if not os.path.exists(os.path.join(COQ, mod.replace('.', '/') + '.v')):
            continue
        src = open(os.path.join(COQ, mod.replace('.', '/') + '.v')).read()
        if not re.search(r"^(Lemma|Theorem|Corollary)\s+%s\b" % re.escape(lem), src, flags=re.M):
            continue
        if not vo_fresh(mod):
            print("skip %s.%s: %s.vo is missing or stale" % (mod, lem, mod), file=sys.stderr)
            continue
        rc, out = coqc("From Verif Require %s.\nCheck Verif.%s.%s.\n" % (mod, mod, lem), 'probe')
        if rc != 0:
            print("skip %s.%s: %s" % (mod, lem, out[-300:]), file=sys.stderr)
            continue
        chosen.append((thm, comment, mod, lem))
        break

mods = []
for _, _, mod, _ in chosen:
    if mod not in mods:
        mods.append(mod)
hdr = "From Verif Require Import Lib.Base Lib.Sx.\nFrom Verif Require %s.\nSet Printing Width 110.\nOpen Scope Z_scope.\n" % " ".join(mods)
rc, out = coqc(hdr + "".join("Check Verif.%s.%s.\n" % (m, l) for _, _, m, l in chosen), 'probe2')
if rc != 0:
    sys.exit("probe2 failed: " + out)
# split the output into per-lemma types
blocks = re.split(r"^(?=\S+\n\s+:)", out, flags=re.M)
types = {}
for b in blocks:
    m = re.match(r"^(\S+)\n\s+:\s(.*)$", b.strip('\n'), flags=re.S)
    if m:
        types[m.group(1).split('.')[-1]] = re.sub(r"\n\s+", "\n    ", m.group(2).strip())
res = []
res.append("(* ------------------------------------------------------------------------------------------\n"
           "   Part 2: decoder totality.  The executable decoder models live in the Model files of the\n"
           "   properties that own them; their `never Panic` theorems are restated here.  [wf_bytes] says\n"
           "   every list element is < 256 (all a byte string can contain); fuel parameters are universally\n"
           "   quantified, and out-of-fuel is an ordinary error excluded where the statement says so.\n"
           "   Part 3 (last theorem): the linear-time clause, refuted for AMF0.\n"
           "   ------------------------------------------------------------------------------------------ *)\n")
res.append("From Verif Require %s.\n" % " ".join(mods))
names = []
for thm, comment, mod, lem in chosen:
    t = types.get(lem)
    if t is None:
        print("no type for", lem, file=sys.stderr)
        continue
    res.append("(* %s *)\nTheorem %s :\n    %s.\nProof. exact Verif.%s.%s. Qed.\n" % (comment, thm, t, mod, lem))
    names.append(thm)
open('/verif/kits/C07/mkprops/props_stage3.v', 'w').write("\n".join(res))
print("stage 3:", len(names), "theorems:", " ".join(names))
