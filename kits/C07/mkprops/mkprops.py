import re,os
part1=open('/verif/kits/C07/mkprops/props_part1.v').read()
names=open('/verif/kits/C07/mkprops/props_names1.txt').read().split()
extra=open('/verif/kits/C07/mkprops/props_extra.v').read() if os.path.exists('/verif/kits/C07/mkprops/props_extra.v') else ''
if os.path.exists('/verif/kits/C07/mkprops/props_stage3.v'): extra += '\n' + open('/verif/kits/C07/mkprops/props_stage3.v').read()
names += re.findall(r"^Theorem ([A-Za-z0-9_]+)", extra, flags=re.M)
def tup(ns):
    return ns[0] if len(ns) == 1 else "(%s,\n  %s)" % (ns[0], tup(ns[1:]))
out = (part1 + "\n" + extra + "\n"
  + "(* Assumptions of EVERY theorem above, in one traversal: the tuple below mentions each of them, so the set\n"
  + "   printed is the union of their assumptions (one `Print Assumptions` per theorem costs 0.4 s each -- 20 s per\n"
  + "   check run for this file -- and prints the same line %d times). *)\n" % len(names)
  + "Definition c07_all_theorems :=\n  " + tup(names) + ".\nPrint Assumptions c07_all_theorems.\n")
open('/verif/coq/Props/C07.v','w').write(out)
print(len(names),"theorems")
