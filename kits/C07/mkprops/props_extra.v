(* The AMF0 marker dispatch (amf0.Discovery) yields a value exactly for the nine markers the
   decoder implements and an error for every other first byte, whatever follows. *)
Theorem c07_amf0_Discovery_markers : forall m rest, 0 <= m < 2 ^ 8 ->
  exists a e, amf0_Discovery (m :: rest) = Ok (a, e) /\
    (e = false <-> In m [0; 1; 2; 3; 5; 6; 8; 9; 10]).
Proof. exact amf0_Discovery_markers. Qed.

(* rtmp UserControl.Size is 3, 6 or 10 for every 16-bit event type *)
Theorem c07_rtmp_UserControl_Size_values : forall v, 0 <= v < 2 ^ 16 ->
  exists n, rtmp_UserControl_Size v = Ok n /\ (n = 3 \/ n = 6 \/ n = 10).
Proof. exact rtmp_UserControl_Size_values. Qed.

(* The semantics the generated bodies are written in (Lib/GoSem.v) is Go's: an index expression
   panics exactly when the index is negative or not below the length, and yields the element
   otherwise; the fixed-width wraps land in the type's range and are the identity inside it. *)
Theorem c07_index_panics_iff : forall l i, nth_chk l i = Panic site_index <-> (i < 0 \/ len_Z l <= i).
Proof. exact nth_chk_panics_iff. Qed.
Theorem c07_index_in_range : forall l i, 0 <= i < len_Z l ->
  exists x, nth_chk l i = Ok x /\ nth_error l (Z.to_nat i) = Some x.
Proof. exact nth_chk_in_range. Qed.
Theorem c07_wrap_unsigned : forall w x, 0 <= w ->
  0 <= wrap_u w x < 2 ^ w /\ (0 <= x < 2 ^ w -> wrap_u w x = x).
Proof. intros w x Hw. split; [exact (wrap_u_range w x Hw)|exact (wrap_u_id w x)]. Qed.
Theorem c07_wrap_signed : forall w x, 1 <= w ->
  - 2 ^ (w - 1) <= wrap_s w x < 2 ^ (w - 1) /\ (- 2 ^ (w - 1) <= x < 2 ^ (w - 1) -> wrap_s w x = x).
Proof. intros w x Hw. split; [exact (wrap_s_range w x Hw)|exact (wrap_s_id w x Hw)]. Qed.
