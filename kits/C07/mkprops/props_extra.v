(* The AMF0 marker dispatch (amf0.Discovery) yields a value exactly for the nine markers the
   decoder implements and an error for every other first byte, whatever follows. *)
Theorem c07_amf0_Discovery_markers : forall m rest, 0 <= m < 2 ^ 8 ->
  exists a e, amf0_Discovery (m :: rest) = Ok (a, e) /\
    (e = false <-> In m [0; 1; 2; 3; 5; 6; 8; 9; 10]).
Proof. exact amf0_Discovery_markers. Qed.

(* rtmp UserControl.Size is 3, 6 or 10 for every 16-bit event type *)
Theorem c07_rtmp_UserControl_Size_values : forall v, 0 <= v < 2 ^ 16 ->
  exists n, rtmp_UserControl_Size v = Ok n /\ (n = 3 \/ n = 6 \/ n = 10).
Proof. exact rtmp_UserControl_Size_values. Qed.

(* The semantics the generated bodies are written in (Lib/GoSem.v) is Go's: an index expression
   panics exactly when the index is negative or not below the length, and yields the element
   otherwise; the fixed-width wraps land in the type's range and are the identity inside it. *)
Theorem c07_index_panics_iff : forall l i, nth_chk l i = Panic site_index <-> (i < 0 \/ len_Z l <= i).
Proof. exact nth_chk_panics_iff. Qed.
Theorem c07_index_in_range : forall l i, 0 <= i < len_Z l ->
  exists x, nth_chk l i = Ok x /\ nth_error l (Z.to_nat i) = Some x.
Proof. exact nth_chk_in_range. Qed.
Theorem c07_wrap_unsigned : forall w x, 0 <= w ->
  0 <= wrap_u w x < 2 ^ w /\ (0 <= x < 2 ^ w -> wrap_u w x = x).
Proof. intros w x Hw. split; [exact (wrap_u_range w x Hw)|exact (wrap_u_id w x)]. Qed.
Theorem c07_wrap_signed : forall w x, 1 <= w ->
  - 2 ^ (w - 1) <= wrap_s w x < 2 ^ (w - 1) /\ (- 2 ^ (w - 1) <= x < 2 ^ (w - 1) -> wrap_s w x = x).
Proof. intros w x Hw. split; [exact (wrap_s_range w x Hw)|exact (wrap_s_id w x Hw)]. Qed.

(* ------------------------------------------------------------------------------------------
   Part 2b: the linear-time clause, decoder by decoder.  The cost functions (Proofs/TotalCostDef.v)
   mirror the control structure of the decoder models: one step per loop iteration / call and one
   per byte examined or copied in it.  [lenN] is the length of a byte string.
   ------------------------------------------------------------------------------------------ *)
From Verif Require Import Proofs.TotalCostDef Proofs.TotalCost.
From Verif Require Model.Flv Model.Aac Model.Avc Model.Amf0 Model.RtmpChunk Model.JsonPlus.
Open Scope N_scope.

(* AVCSample.UnmarshalBinary, every length-size byte: at most 2 steps per input byte *)
Theorem c07_cost_linear_avc_sample : forall lsm1 data, CAvc.cost_sample lsm1 data <= 2 * lenN data + 1.
Proof. exact PAvc.cost_sample_linear. Qed.
(* AVCDecoderConfigurationRecord.UnmarshalBinary (both parameter-set loops) *)
Theorem c07_cost_linear_avc_record : forall data, CAvc.cost_record data <= 2 * lenN data + 1.
Proof. exact PAvc.cost_record_linear. Qed.
(* ADTS Decode repeated over the remainder, from every codec state and with any fuel *)
Theorem c07_cost_linear_adts_stream : forall fuel st data, CAac.cost_adts_stream fuel st data <= 2 * lenN data + 10.
Proof. exact PAac.cost_adts_stream_linear. Qed.
(* FLV demuxer over every segmented transport (data segments and faults): 2 steps per byte the
   transport holds, 1 per segment; and for a byte string handed over in one piece *)
Theorem c07_cost_linear_flv_demux : forall fuel s, CFlv.cost_demux fuel s <= 2 * CFlv.sbytes s + CFlv.ssegs s + 3.
Proof. exact PFlv.cost_demux_linear. Qed.
Theorem c07_cost_linear_flv_demux_bytes : forall fuel bs, CFlv.cost_demux fuel [Verif.Model.Flv.Data bs] <= 2 * lenN bs + 4.
Proof. exact PFlv.cost_demux_linear_bytes. Qed.
(* AMF0: every accepted byte string whose value is a scalar or a container of scalars (nesting
   depth <= 1); deeper nesting is the refuted case, c07_amf0_cost_refuted *)
Theorem c07_cost_linear_amf0_flat : forall bs v n,
  Verif.Model.Amf0.decode_fast bs = Ok (v, n) -> CAmf0.flat v = true -> CAmf0.cost_amf0 bs <= 2 * lenN bs.
Proof. exact PAmf0.cost_amf0_flat_linear. Qed.
(* RTMP Protocol.ReadMessage from every reader state: 4 steps per transport byte plus one payload
   buffer of the chunk size in force (it cannot change before the message completes) *)
Theorem c07_cost_linear_rtmp_read_message : forall fuel s i,
  CRtmp.cost_read_message fuel s i <= 4 * CRtmp.ibytes i + Verif.Model.RtmpChunk.in_chunk s + 1.
Proof. exact PRtmp.cost_read_message_linear. Qed.
(* JSON+ (after fix 73a5c57: firstMatch walks the window once and stops at the first start marker).
   ONE call of the split function is linear in the scanner window it is given ... *)
Theorem c07_cost_linear_jsonplus_split : forall data at_eof, CJson.cost_split data at_eof <= 5 * lenN data + 6.
Proof. exact PJson.cost_split_linear. Qed.
(* ... and a document held in one window is stripped in linear time, 6 steps per byte: a split call
   that delivers a token costs at most 4 steps per byte it advances over.  (Before the fix every
   token searched all four start markers through the whole window: quadratic, found by this kit,
   prompts/c07_finding_json.md.)  Not covered: a transport that delivers tiny reads makes
   bufio.Scanner re-run split on the whole pending token after every read. *)
Theorem c07_cost_linear_jsonplus_strip : forall d, CJson.cost_strip d <= 6 * lenN d + 6.
Proof. exact PJson.cost_strip_linear. Qed.
Close Scope N_scope.
