#!/usr/bin/env python3
"""refcheck -- run the checks against a PROPERTY-PRESERVING refactoring, without touching /repo.

  tools/refcheck.py <refdir> <property-id> [<more ids>...]

<refdir> holds patch.diff (+ README.md). In a scratch worktree of /repo's HEAD and a scratch copy of /verif:
  1 apply patch; go build; full suite -> must pass
  2 ./check <id> against the patched worktree (VERIF_REPO) -> expect exit 0 and no VIOLATION line
Prints a JSON summary."""
import sys, os, subprocess, json, re, shutil, time
ENV = dict(os.environ, GOFLAGS="-mod=mod", GOPROXY="off", GOSUMDB="off", GOTOOLCHAIN="local")
def sh(cmd, cwd=None, env=None, timeout=3600):
    try:
        p = subprocess.run(cmd, cwd=cwd, env=env or ENV, shell=isinstance(cmd, str), stdout=subprocess.PIPE,
                           stderr=subprocess.STDOUT, text=True, errors="replace", timeout=timeout)
        return p.returncode, p.stdout
    except subprocess.TimeoutExpired:
        return 124, "[timeout]"
def main():
    refdir, pids = os.path.abspath(sys.argv[1]), sys.argv[2:]
    name = re.sub(r"[^A-Za-z0-9_]", "_", refdir.strip("/"))[-40:] + "_%d" % os.getpid()
    wt, vc = "/tmp/refchk/wt_" + name, "/tmp/refchk/verif_" + name
    os.makedirs("/tmp/refchk", exist_ok=True)
    res = {"refdir": refdir, "properties": pids}
    try:
        rc, out = sh(["git", "-C", "/repo", "worktree", "add", "--detach", wt, "HEAD"])
        if rc != 0:
            print(json.dumps({"error": "worktree: " + out})); return 2
        rc, out = sh(["git", "apply", os.path.join(refdir, "patch.diff")], cwd=wt)
        res["patch_applies"] = rc == 0
        if rc != 0:
            res["patch_err"] = out[-600:]
        rc, out = sh("go build ./... ", cwd=wt, timeout=900)
        res["build_ok"] = rc == 0
        rc2, out2 = sh("go test -vet=off -count=1 ./... 2>&1 | grep -v '^ok\\|no test files' | tail -20", cwd=wt, timeout=1800)
        rc3, _ = sh("go test -vet=off -count=1 ./... >/dev/null 2>&1", cwd=wt, timeout=1800)
        res["suite_pass"] = rc3 == 0
        res["suite_tail"] = out2[-600:]
        res["usable"] = bool(res["patch_applies"] and res["build_ok"] and res["suite_pass"])
        if pids and res["usable"]:
            sh(["rsync", "-a", "--exclude", ".git", "--exclude", "build/run", "--exclude", "build/replay", "--exclude", "build/.*lock", "/verif/", vc + "/"])
            res["checks"] = {}
            for pid in pids:
                t0 = time.time()
                rc, out = sh(["./check", pid, "--tier", "quick"], cwd=vc, env=dict(ENV, VERIF_REPO=wt, VERIF_COQCHK="0"), timeout=3600)
                vl = [l for l in out.splitlines() if l.startswith("VIOLATION")]
                rpl = None
                if vl:
                    mm = re.search(r"replay=(\S+)", vl[0])
                    if mm and os.path.exists(mm.group(1)):
                        rpl = json.load(open(mm.group(1)))
                res["checks"][pid] = {"exit": rc, "violation_lines": vl, "wall_s": round(time.time() - t0, 1),
                                      "summary": [l[:500] for l in out.splitlines() if l.startswith(("check ", "broken:", "note:"))][:10],
                                      "replay": {k: (str(v)[:1500]) for k, v in (rpl or {}).items() if k in ("case", "oracle", "broken", "classifier")}}
    finally:
        sh(["git", "-C", "/repo", "worktree", "remove", "--force", wt])
        shutil.rmtree(vc, ignore_errors=True)
        shutil.rmtree(wt, ignore_errors=True)
        sh(["git", "-C", "/repo", "worktree", "prune"])
    print(json.dumps(res, indent=1))
    return 0
if __name__ == "__main__":
    sys.exit(main())
