#!/usr/bin/env python3
"""run ./check for every ready kit (or the ids given) in parallel; print a summary table"""
import sys, os, json, glob, subprocess, time
from concurrent.futures import ThreadPoolExecutor
V = os.path.dirname(os.path.dirname(os.path.abspath(__file__)))
args = [a for a in sys.argv[1:] if not a.startswith("--")]
tier = "thorough" if "--thorough" in sys.argv else "quick"
jobs = 4
for a in sys.argv[1:]:
    if a.startswith("--jobs="):
        jobs = int(a.split("=")[1])
ids = args or [json.load(open(p)).get("id") or os.path.basename(os.path.dirname(p)) for p in sorted(glob.glob(V + "/kits/C*/kit.json"))
               if json.load(open(p)).get("status") == "ready"]
os.makedirs(V + "/build/logs", exist_ok=True)
def one(pid):
    t0 = time.time()
    p = subprocess.run([V + "/check", pid, "--tier", tier], cwd=V, stdout=subprocess.PIPE, stderr=subprocess.STDOUT, text=True)
    open(V + "/build/logs/%s.%s.log" % (pid, tier), "w").write(p.stdout)
    head = [l for l in p.stdout.splitlines() if l.startswith("check ")]
    extra = [l[:200] for l in p.stdout.splitlines() if l.startswith(("VIOLATION", "KNOWN-FINDING"))]
    return pid, p.returncode, time.time() - t0, (head[0] if head else p.stdout[-300:]), extra
with ThreadPoolExecutor(jobs) as ex:
    bad = 0
    for pid, rc, dt, head, extra in ex.map(one, ids):
        print("%-4s exit=%d %6.1fs  %s" % (pid, rc, dt, head))
        for e in extra:
            print("       " + e)
        bad += rc != 0
sys.exit(1 if bad else 0)
