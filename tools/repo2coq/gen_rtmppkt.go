// gen_rtmppkt.go: tables of the RTMP packet layer for property C03 (Model/RtmpPacket.v).
//
//	rtmp_tbl_parse_names        command-name switch of parseAMFObject: [(name, constructor)]
//	rtmp_tbl_parse_default      constructor of its default clause
//	rtmp_tbl_parse_responses    names of the clause that looks the transaction up
//	rtmp_tbl_parse_requests     request-name switch inside that clause: [(name, constructor)]
//	rtmp_tbl_parse_consumes     the lookup clause deletes the entry after a successful lookup
//	rtmp_tbl_decode_skip        message types of DecodeMessage's `p = p[1:]` switch
//	rtmp_tbl_decode_types       DecodeMessage's type switch: [(type, constructor | "parseAMFObject")]
//	rtmp_tbl_request_types      packet types of requestTransaction's type switch
//	rtmp_tbl_ctor_<New...>      constructor defaults (CommandName, TransactionID bits, CommandObject
//	                            constructor, StreamType) as a 4-tuple
//
// A construct outside the recognised shapes emits rtmp_tbl_<what>_unsupported instead of the
// table, so that Model/RtmpPacket.v stops compiling and ./check reports the break.
package main

import (
	"fmt"
	"go/ast"
	"go/constant"
	"go/token"
	"go/types"
	"math"
	"sort"
	"strings"
)

func init() {
	extraGens = append(extraGens, func(g *gen) {
		if pkgTag(g.p) != "rtmp" {
			return
		}
		g.pf("\n(* ---- packet-layer tables, tools/repo2coq/gen_rtmppkt.go ---- *)\n")
		g.rtmpCommandBytes()
		decls := map[string]*ast.FuncDecl{}
		for _, fd := range g.funcDecls() {
			decls[recvName(fd)+"."+fd.Name.Name] = fd
		}
		g.rtmpParseTable(decls["Protocol.parseAMFObject"], decls)
		g.rtmpDecodeTable(decls["Protocol.DecodeMessage"])
		g.rtmpRequestTypes(decls["Protocol.WritePacket"], decls)
		for _, c := range []string{"NewConnectAppPacket", "NewConnectAppResPacket", "NewCallPacket", "NewCloseStreamPacket",
			"NewCreateStreamPacket", "NewCreateStreamResPacket", "NewPublishPacket", "NewPlayPacket"} {
			g.rtmpCtor(c, decls["."+c])
		}
		g.pf("\n")
	})
}

func coqStr(s string) string { return "\"" + strings.Replace(s, "\"", "\"\"", -1) + "\"%string" }

func (g *gen) strConst(e ast.Expr) (string, bool) {
	tv, ok := g.p.TypesInfo.Types[e]
	if !ok || tv.Value == nil || tv.Value.Kind() != constant.String {
		return "", false
	}
	s := constant.StringVal(tv.Value)
	if !isPlainASCII(s) {
		return "", false
	}
	return s, true
}

// `return NewXxx(...), nil` -> "NewXxx"
func returnedCtor(body []ast.Stmt) (string, bool) {
	if len(body) != 1 {
		return "", false
	}
	rs, ok := body[0].(*ast.ReturnStmt)
	if !ok || len(rs.Results) != 2 {
		return "", false
	}
	if id, ok := rs.Results[1].(*ast.Ident); !ok || id.Name != "nil" {
		return "", false
	}
	call, ok := rs.Results[0].(*ast.CallExpr)
	if !ok {
		return "", false
	}
	id, ok := call.Fun.(*ast.Ident)
	if !ok || !strings.HasPrefix(id.Name, "New") {
		return "", false
	}
	return id.Name, true
}

func pairList(ps [][2]string) string {
	var items []string
	for _, p := range ps {
		items = append(items, "("+p[0]+", "+p[1]+")")
	}
	return "[" + strings.Join(items, "; ") + "]"
}

func (g *gen) rtmpParseTable(fd *ast.FuncDecl, decls map[string]*ast.FuncDecl) {
	bad := func(why string) {
		g.pf("Definition rtmp_tbl_parse_unsupported := tt. (* %s *)\n", why)
	}
	if fd == nil {
		bad("parseAMFObject not found")
		return
	}
	var sw *ast.SwitchStmt
	for _, st := range fd.Body.List {
		if s, ok := st.(*ast.SwitchStmt); ok {
			if id, ok := s.Tag.(*ast.Ident); ok && id.Name == "commandName" {
				sw = s
			}
		}
	}
	if sw == nil {
		bad("no switch on commandName")
		return
	}
	var names, requests [][2]string
	var responses []string
	def, consumes, haveLookup := "", false, false
	for _, cc := range sw.Body.List {
		c := cc.(*ast.CaseClause)
		if c.List == nil {
			ctor, ok := returnedCtor(c.Body)
			if !ok {
				bad("default clause is not `return NewXxx(), nil`")
				return
			}
			def = ctor
			continue
		}
		var cs []string
		for _, e := range c.List {
			s, ok := g.strConst(e)
			if !ok {
				bad("case label is not a string constant")
				return
			}
			cs = append(cs, s)
		}
		if ctor, ok := returnedCtor(c.Body); ok {
			for _, s := range cs {
				names = append(names, [2]string{coqStr(s), coqStr(ctor)})
			}
			continue
		}
		// the lookup clause: contains transactions[...] lookup, delete(...), and a switch on requestName
		if haveLookup {
			bad("two lookup clauses")
			return
		}
		haveLookup = true
		responses = cs
		var inner *ast.SwitchStmt
		// the lookup and the delete may sit in the clause itself (also inside a closure) or in an
		// unexported helper method of Protocol called from it (followed one level); within the
		// function that holds them the delete must come after the lookup
		haveLookupHere, consumesHere := false, false
		var scan func(body ast.Node, follow bool)
		scan = func(body ast.Node, follow bool) {
			lookupPos, deletePos := token.NoPos, token.NoPos
			ast.Inspect(body, func(n ast.Node) bool {
				switch x := n.(type) {
				case *ast.SwitchStmt:
					if id, ok := x.Tag.(*ast.Ident); ok && id.Name == "requestName" {
						inner = x
					}
				case *ast.CallExpr:
					if id, ok := x.Fun.(*ast.Ident); ok && id.Name == "delete" && len(x.Args) == 2 {
						if g.isTxTable(x.Args[0]) {
							deletePos = x.Pos()
						}
					}
					if se, ok := x.Fun.(*ast.SelectorExpr); ok && follow {
						if h := decls["Protocol."+se.Sel.Name]; h != nil && !ast.IsExported(se.Sel.Name) && h != fd {
							scan(h.Body, false)
						}
					}
				case *ast.IndexExpr:
					if g.isTxTable(x.X) && lookupPos == token.NoPos {
						lookupPos = x.Pos()
					}
				}
				return true
			})
			if lookupPos != token.NoPos {
				haveLookupHere = true
				if deletePos != token.NoPos && deletePos > lookupPos {
					consumesHere = true
				}
			}
		}
		for _, st := range c.Body {
			scan(st, true)
		}
		lookupPos := token.NoPos
		if haveLookupHere {
			lookupPos = c.Pos()
		}
		if inner == nil || lookupPos == token.NoPos {
			bad("lookup clause without transactions[...] / switch requestName")
			return
		}
		consumes = consumesHere
		for _, icc := range inner.Body.List {
			ic := icc.(*ast.CaseClause)
			if ic.List == nil {
				if _, ok := returnedCtor(ic.Body); ok {
					bad("request-name default constructs a packet")
					return
				}
				continue
			}
			ctor, ok := returnedCtor(ic.Body)
			if !ok {
				bad("request-name clause is not `return NewXxx(tid), nil`")
				return
			}
			for _, e := range ic.List {
				s, ok := g.strConst(e)
				if !ok {
					bad("request-name label is not a string constant")
					return
				}
				requests = append(requests, [2]string{coqStr(s), coqStr(ctor)})
			}
		}
	}
	if def == "" || !haveLookup {
		bad("missing default or lookup clause")
		return
	}
	// canonical form: the clauses of a switch on distinct constants may be written in any order
	sortPairs := func(ps [][2]string) {
		sort.Slice(ps, func(i, j int) bool { return ps[i][0] < ps[j][0] })
	}
	sortPairs(names)
	sortPairs(requests)
	sort.Strings(responses)
	g.pf("Definition rtmp_tbl_parse_names : list (string * string) := %s.\n", pairList(names))
	g.pf("Definition rtmp_tbl_parse_default : string := %s.\n", coqStr(def))
	var rs []string
	for _, s := range responses {
		rs = append(rs, coqStr(s))
	}
	g.pf("Definition rtmp_tbl_parse_responses : list string := [%s].\n", strings.Join(rs, "; "))
	g.pf("Definition rtmp_tbl_parse_requests : list (string * string) := %s.\n", pairList(requests))
	g.pf("Definition rtmp_tbl_parse_consumes : bool := %v.\n", consumes)
}

func exprText(e ast.Expr) string {
	switch x := e.(type) {
	case *ast.Ident:
		return x.Name
	case *ast.SelectorExpr:
		return exprText(x.X) + "." + x.Sel.Name
	}
	return "?"
}

func (g *gen) rtmpDecodeTable(fd *ast.FuncDecl) {
	bad := func(why string) {
		g.pf("Definition rtmp_tbl_decode_unsupported := tt. (* %s *)\n", why)
	}
	if fd == nil {
		bad("DecodeMessage not found")
		return
	}
	intConst := func(e ast.Expr) (int64, bool) {
		tv, ok := g.p.TypesInfo.Types[e]
		if !ok || tv.Value == nil || tv.Value.Kind() != constant.Int {
			return 0, false
		}
		v, ok := constant.Int64Val(tv.Value)
		return v, ok
	}
	// The dispatch may be written as one switch on m.MessageType or several in a row, with
	// `fallthrough`, the labels in any order.  Every switch is executed symbolically for each
	// label: `p = p[1:]` marks the type as "payload advanced by one before the decode",
	// `pkt = NewXxx()` / `pkt, err = v.parseAMFObject(p)` is its receiver.
	skip := map[int64]bool{}
	recv := map[int64]string{}
	nsw := 0
	for _, st := range fd.Body.List {
		sw, ok := st.(*ast.SwitchStmt)
		if !ok || exprText(sw.Tag) != "m.MessageType" {
			continue
		}
		nsw++
		clauses := sw.Body.List
		for ci, cc := range clauses {
			c := cc.(*ast.CaseClause)
			var labels []int64
			for _, e := range c.List {
				v, ok := intConst(e)
				if !ok {
					bad("case label is not an integer constant")
					return
				}
				labels = append(labels, v)
			}
			if c.List == nil {
				// default: must only return an error
				for _, s := range c.Body {
					if _, ok := s.(*ast.ReturnStmt); !ok {
						bad("default clause does more than return")
						return
					}
				}
				continue
			}
			// run the clause, following fallthrough into the next clauses
			for k := ci; k < len(clauses); k++ {
				body := clauses[k].(*ast.CaseClause).Body
				falls := false
				for _, s := range body {
					switch s := s.(type) {
					case *ast.BranchStmt:
						if s.Tok == token.FALLTHROUGH {
							falls = true
							continue
						}
						bad("unrecognised branch statement")
						return
					case *ast.AssignStmt:
						if len(s.Lhs) == 1 && len(s.Rhs) == 1 {
							if se, ok := s.Rhs[0].(*ast.SliceExpr); ok && exprText(s.Lhs[0]) == "p" && exprText(se.X) == "p" && se.High == nil {
								if lo, ok := intConst(se.Low); ok && lo == 1 {
									for _, l := range labels {
										if skip[l] || recv[l] != "" {
											bad("payload advanced twice or after the receiver was chosen")
											return
										}
										skip[l] = true
									}
									continue
								}
							}
							if call, ok := s.Rhs[0].(*ast.CallExpr); ok && exprText(s.Lhs[0]) == "pkt" && len(call.Args) == 0 {
								for _, l := range labels {
									if recv[l] != "" {
										bad("two receivers for one type")
										return
									}
									recv[l] = exprText(call.Fun)
								}
								continue
							}
						}
						bad("unrecognised assignment")
						return
					case *ast.IfStmt:
						as, ok := s.Init.(*ast.AssignStmt)
						if ok && len(as.Rhs) == 1 {
							if call, ok := as.Rhs[0].(*ast.CallExpr); ok && exprText(call.Fun) == "v.parseAMFObject" {
								for _, l := range labels {
									if recv[l] != "" {
										bad("two receivers for one type")
										return
									}
									recv[l] = "parseAMFObject"
								}
								continue
							}
						}
						bad("unrecognised if clause")
						return
					default:
						bad("unrecognised clause")
						return
					}
				}
				if !falls {
					break
				}
			}
		}
	}
	if nsw == 0 {
		bad("no switch on m.MessageType")
		return
	}
	var sk []int64
	for l := range skip {
		sk = append(sk, l)
	}
	sort.Slice(sk, func(i, j int) bool { return sk[i] < sk[j] })
	var skips []string
	for _, l := range sk {
		skips = append(skips, fmt.Sprint(l))
	}
	var ts []int64
	for l := range recv {
		ts = append(ts, l)
	}
	sort.Slice(ts, func(i, j int) bool { return ts[i] < ts[j] })
	var types [][2]string
	for _, l := range ts {
		types = append(types, [2]string{fmt.Sprint(l), coqStr(recv[l])})
	}
	// canonical form: both tables sorted by message type
	g.pf("Definition rtmp_tbl_decode_skip : list Z := [%s].\n", strings.Join(skips, "; "))
	g.pf("Definition rtmp_tbl_decode_types : list (Z * string) := %s.\n", pairList(types))
}

// the outstanding-request table, by TYPE: a map with a floating-point key and a string value
func (g *gen) isTxTable(e ast.Expr) bool {
	t := g.p.TypesInfo.TypeOf(e)
	if t == nil {
		return false
	}
	m, ok := t.Underlying().(*types.Map)
	if !ok {
		return false
	}
	kb, ok1 := m.Key().Underlying().(*types.Basic)
	vb, ok2 := m.Elem().Underlying().(*types.Basic)
	return ok1 && ok2 && kb.Info()&types.IsFloat != 0 && vb.Info()&types.IsString != 0
}

// the packet types that are requests: the type switch over a Packet whose clauses read the
// packet's TransactionID and CommandName, found by CALL GRAPH from WritePacket (functions and
// methods of the package, any file, at most three calls deep), whatever the function is called
func (g *gen) rtmpRequestTypes(root *ast.FuncDecl, decls map[string]*ast.FuncDecl) {
	bad := func(why string) {
		g.pf("Definition rtmp_tbl_request_unsupported := tt. (* %s *)\n", why)
	}
	if root == nil {
		bad("WritePacket not found")
		return
	}
	seen := map[*ast.FuncDecl]bool{root: true}
	level := []*ast.FuncDecl{root}
	var all []*ast.FuncDecl
	for depth := 0; depth <= 3 && len(level) > 0; depth++ {
		var next []*ast.FuncDecl
		for _, fd := range level {
			all = append(all, fd)
			ast.Inspect(fd.Body, func(n ast.Node) bool {
				call, ok := n.(*ast.CallExpr)
				if !ok {
					return true
				}
				var cands []*ast.FuncDecl
				switch f := call.Fun.(type) {
				case *ast.Ident:
					cands = append(cands, decls["."+f.Name])
				case *ast.SelectorExpr:
					for k, d := range decls {
						if strings.HasSuffix(k, "."+f.Sel.Name) && !strings.HasPrefix(k, ".") {
							cands = append(cands, d)
						}
					}
				}
				for _, d := range cands {
					if d != nil && !seen[d] {
						seen[d] = true
						next = append(next, d)
					}
				}
				return true
			})
		}
		level = next
	}
	mentions := func(body []ast.Stmt, field string) bool {
		found := false
		for _, st := range body {
			ast.Inspect(st, func(n ast.Node) bool {
				if se, ok := n.(*ast.SelectorExpr); ok && se.Sel.Name == field {
					found = true
				}
				return true
			})
		}
		return found
	}
	var ts []string
	nfound := 0
	for _, fd := range all {
		ast.Inspect(fd.Body, func(n ast.Node) bool {
			sw, ok := n.(*ast.TypeSwitchStmt)
			if !ok {
				return true
			}
			var here []string
			okAll := len(sw.Body.List) > 0
			for _, cc := range sw.Body.List {
				c := cc.(*ast.CaseClause)
				if c.List == nil || !mentions(c.Body, "TransactionID") || !mentions(c.Body, "CommandName") {
					okAll = false
					break
				}
				for _, e := range c.List {
					star, ok := e.(*ast.StarExpr)
					if !ok {
						okAll = false
						break
					}
					here = append(here, exprText(star.X))
				}
			}
			if okAll {
				nfound++
				ts = here
			}
			return true
		})
	}
	if nfound != 1 {
		bad(fmt.Sprintf("%d type switches reading TransactionID and CommandName reachable from WritePacket", nfound))
		return
	}
	sort.Strings(ts)
	var items []string
	for _, t := range ts {
		items = append(items, coqStr(t))
	}
	g.pf("Definition rtmp_tbl_request_types : list string := [%s].\n", strings.Join(items, "; "))
}

// constructor defaults: (CommandName, TransactionID bits, CommandObject constructor, StreamType)
func (g *gen) rtmpCtor(name string, fd *ast.FuncDecl) {
	bad := func(why string) {
		g.pf("Definition rtmp_tbl_ctor_%s_unsupported := tt. (* %s *)\n", name, why)
	}
	if fd == nil {
		bad("not found")
		return
	}
	cmd, obj, stype, base := "", "", "", ""
	tid := "0"
	okAll := true
	for _, st := range fd.Body.List {
		switch s := st.(type) {
		case *ast.ReturnStmt:
			// return v | return &T{}
		case *ast.AssignStmt:
			if len(s.Lhs) != 1 || len(s.Rhs) != 1 {
				okAll = false
				continue
			}
			lhs := exprText(s.Lhs[0])
			if s.Tok == token.DEFINE {
				// v := &T{} | v := NewCallPacket()
				if call, ok := s.Rhs[0].(*ast.CallExpr); ok {
					base = exprText(call.Fun)
				}
				continue
			}
			switch lhs {
			case "v.CommandName":
				if v, ok := g.strConst(s.Rhs[0]); ok {
					cmd = v
				} else {
					okAll = false
				}
			case "v.StreamType":
				if v, ok := g.strConst(s.Rhs[0]); ok {
					stype = v
				} else {
					okAll = false
				}
			case "v.TransactionID":
				tv, ok := g.p.TypesInfo.Types[s.Rhs[0]]
				if ok && tv.Value != nil {
					f, _ := constant.Float64Val(constant.ToFloat(tv.Value))
					tid = fmt.Sprint(math.Float64bits(f))
				} else if exprText(s.Rhs[0]) == "tid" {
					tid = "0" // the parameter; the model passes it
				} else {
					okAll = false
				}
			case "v.CommandObject":
				if call, ok := s.Rhs[0].(*ast.CallExpr); ok {
					obj = exprText(call.Fun)
				} else {
					okAll = false
				}
			default:
				okAll = false
			}
		default:
			okAll = false
		}
	}
	if !okAll {
		bad("unrecognised statement")
		return
	}
	if base != "" && base != "NewCallPacket" {
		bad("built on " + base)
		return
	}
	g.pf("Definition rtmp_tbl_ctor_%s : (string * Z * string * string) := (%s, %s, %s, %s).\n", name, coqStr(cmd), tid, coqStr(obj), coqStr(stype))
}

// the command-name constants as byte lists (the extracted model must not depend on Coq's string)
func (g *gen) rtmpCommandBytes() {
	scope := g.p.Types.Scope()
	for _, name := range scope.Names() {
		if !strings.HasPrefix(name, "command") {
			continue
		}
		c, ok := scope.Lookup(name).(*types.Const)
		if !ok || c.Val().Kind() != constant.String {
			continue
		}
		v := constant.StringVal(c.Val())
		var items []string
		for i := 0; i < len(v); i++ {
			items = append(items, fmt.Sprintf("%d%%N", v[i]))
		}
		g.pf("Definition rtmp_%s_bytes : list N := [%s].\n", name, strings.Join(items, "; "))
	}
}
