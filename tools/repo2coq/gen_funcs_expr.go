// gen_funcs_expr.go: expressions of the supported subset.
//
//	constants (named constants of the package keep their generated name), locals/parameters,
//	*v for a pointer-to-integer receiver, v.Field for integer/bool/string fields of a struct
//	receiver (become parameters v_Field), && || ! == != < <= > >=, + - * / % & | ^ &^ << >>
//	with the result wrapped to the Go type's width, unary - ^ +, integer conversions T(x),
//	len(x), x[i] on integer slices/arrays (checked: Panic) and on package-level map[int]bool /
//	map[int]int literals (absent key = zero value), []T{...} literals, calls of other
//	translated functions, fmt.Sprintf(const, ints...) as SprintfOf, error constructors as
//	`true` (error abstracted to "non-nil"), constructors of other values as Some "<name>".
package main

import (
	"fmt"
	"go/ast"
	"go/constant"
	"go/token"
	"go/types"
	"strings"
)

type kind int

const (
	kBad kind = iota
	kInt
	kBool
	kString
	kErr
	kList
	kOpaque
	kNil
)

func kindOf(t types.Type) kind {
	if t == nil {
		return kBad
	}
	if types.Identical(t, types.Universe.Lookup("error").Type()) {
		return kErr
	}
	switch u := t.Underlying().(type) {
	case *types.Basic:
		switch {
		case u.Kind() == types.UntypedNil:
			return kNil
		case u.Info()&types.IsInteger != 0:
			return kInt
		case u.Info()&types.IsBoolean != 0:
			return kBool
		case u.Info()&types.IsString != 0:
			return kString
		}
		return kBad
	case *types.Slice:
		if kindOf(u.Elem()) == kInt {
			return kList
		}
		return kOpaque
	case *types.Array:
		if kindOf(u.Elem()) == kInt {
			return kList
		}
		return kOpaque
	case *types.Interface, *types.Pointer, *types.Struct, *types.Map:
		return kOpaque
	}
	return kBad
}

func coqType(k kind) string {
	switch k {
	case kInt:
		return "Z"
	case kBool, kErr:
		return "bool"
	case kString:
		return "string"
	case kList:
		return "(list Z)"
	case kOpaque:
		return "(option string)"
	}
	return "unit"
}

func zeroOf(k kind) string {
	switch k {
	case kInt:
		return "0"
	case kBool, kErr:
		return "false"
	case kString:
		return "\"\"%string"
	case kList:
		return "(@nil Z)"
	case kOpaque:
		return "(@None string)"
	}
	return "tt"
}

// (signed, width, ok); width 0 = untyped (no wrap possible)
func intInfo(t types.Type) (bool, int, bool) {
	if t == nil {
		return false, 0, false
	}
	b, ok := t.Underlying().(*types.Basic)
	if !ok || b.Info()&types.IsInteger == 0 {
		return false, 0, false
	}
	switch b.Kind() {
	case types.Int8:
		return true, 8, true
	case types.Int16:
		return true, 16, true
	case types.Int32:
		return true, 32, true
	case types.Int64, types.Int:
		return true, 64, true
	case types.Uint8:
		return false, 8, true
	case types.Uint16:
		return false, 16, true
	case types.Uint32:
		return false, 32, true
	case types.Uint64, types.Uint, types.Uintptr:
		return false, 64, true
	case types.UntypedInt, types.UntypedRune:
		return true, 0, true
	}
	return false, 0, false
}

func coqString(s string) (string, bool) {
	for _, c := range []byte(s) {
		if c < 32 || c > 126 {
			return "", false
		}
	}
	return "\"" + strings.Replace(s, "\"", "\"\"", -1) + "\"%string", true
}

type unsupported struct{ msg string }

func (t *ftr) fail(format string, a ...interface{}) {
	panic(unsupported{fmt.Sprintf(format, a...)})
}

func (t *ftr) wrap(ty types.Type, term string) string {
	s, w, ok := intInfo(ty)
	if !ok {
		t.fail("arithmetic on non-integer type %v", ty)
	}
	if w == 0 {
		t.fail("non-constant expression of untyped integer type")
	}
	if s {
		return fmt.Sprintf("(wrap_s %d %s)", w, term)
	}
	return fmt.Sprintf("(wrap_u %d %s)", w, term)
}

func (t *ftr) typeOf(e ast.Expr) types.Type { return t.info.TypeOf(e) }

func (t *ftr) hoist(monadic string) string {
	t.tmpN++
	n := t.fresh(fmt.Sprintf("t%d", t.tmpN))
	t.pending = append(t.pending, fmt.Sprintf("let* %s := %s in", n, monadic))
	return n
}

func (t *ftr) constExpr(e ast.Expr, v constant.Value) string {
	switch v.Kind() {
	case constant.Int:
		// a named constant of this package keeps its generated name
		var id *ast.Ident
		switch x := e.(type) {
		case *ast.Ident:
			id = x
		}
		if id != nil {
			if c, ok := t.info.Uses[id].(*types.Const); ok && c.Pkg() == t.fg.g.p.Types && c.Parent() == t.fg.g.p.Types.Scope() {
				n := t.fg.tag + "_" + c.Name()
				if t.fg.taken[n] && !t.used[n] {
					return n
				}
			}
		}
		lit := coqZ(v)
		if sel, ok := e.(*ast.SelectorExpr); ok {
			return fmt.Sprintf("%s (* %s *)", lit, sanitizeComment(types.ExprString(sel)))
		}
		return lit
	case constant.Bool:
		if constant.BoolVal(v) {
			return "true"
		}
		return "false"
	case constant.String:
		s, ok := coqString(constant.StringVal(v))
		if !ok {
			t.fail("string constant with non-printable characters")
		}
		return s
	}
	t.fail("constant of kind %v", v.Kind())
	return ""
}

// expression with an expected kind (needed for nil and for abstracted values)
func (t *ftr) exprAs(e ast.Expr, want kind) string {
	e = unparen(e)
	if id, ok := e.(*ast.Ident); ok && id.Name == "nil" {
		if _, isNil := t.info.Uses[id].(*types.Nil); isNil {
			switch want {
			case kErr:
				return "false"
			case kOpaque:
				return "(@None string)"
			case kList:
				return "(@nil Z)"
			}
			t.fail("nil where a %s is expected", coqType(want))
		}
	}
	got := kindOf(t.typeOf(e))
	if want == kErr && got != kErr {
		// a concrete error value assigned to an error: non-nil
		if got == kOpaque {
			t.abstractValue(e)
			return "true"
		}
		t.fail("non-error value used as error")
	}
	if want == kOpaque && got != kOpaque {
		t.fail("value of type %v used as an abstracted value", t.typeOf(e))
	}
	return t.expr(e)
}

func unparen(e ast.Expr) ast.Expr {
	for {
		p, ok := e.(*ast.ParenExpr)
		if !ok {
			return e
		}
		e = p.X
	}
}

// abstract tag of a value that is not modelled (interface / pointer / struct): the name of
// its constructor; all arguments must be constants
func (t *ftr) abstractValue(e ast.Expr) string {
	e = unparen(e)
	switch x := e.(type) {
	case *ast.CallExpr:
		for _, a := range x.Args {
			if tv, ok := t.info.Types[a]; !ok || tv.Value == nil {
				t.fail("constructor call %s with non-constant argument", types.ExprString(x.Fun))
			}
		}
		s, _ := coqString(types.ExprString(x.Fun))
		return "(Some " + s + ")"
	case *ast.UnaryExpr:
		if cl, ok := x.X.(*ast.CompositeLit); ok && x.Op == token.AND {
			if len(cl.Elts) != 0 {
				t.fail("composite literal with fields")
			}
			s, _ := coqString("&" + types.ExprString(cl.Type))
			return "(Some " + s + ")"
		}
	case *ast.CompositeLit:
		if len(x.Elts) == 0 {
			s, _ := coqString(types.ExprString(x.Type))
			return "(Some " + s + ")"
		}
	case *ast.Ident:
		if obj, ok := t.info.Uses[x].(*types.Var); ok {
			if n, ok := t.env[obj]; ok {
				return n
			}
		}
	}
	t.fail("value of type %v is outside the subset (%s)", t.typeOf(e), types.ExprString(e))
	return ""
}

var errorCtors = map[string]bool{
	"errors.New": true, "fmt.Errorf": true,
	"github.com/ossrs/go-oryx-lib/errors.New": true, "github.com/ossrs/go-oryx-lib/errors.Errorf": true,
}

func (t *ftr) expr(e ast.Expr) string {
	e = unparen(e)
	if tv, ok := t.info.Types[e]; ok && tv.Value != nil {
		return t.constExpr(e, tv.Value)
	}
	switch x := e.(type) {
	case *ast.Ident:
		obj := t.info.Uses[x]
		if obj == nil {
			obj = t.info.Defs[x]
		}
		if v, ok := obj.(*types.Var); ok {
			if n, ok := t.env[v]; ok {
				if v == t.recvObj && t.recvMode != recvInt {
					t.fail("receiver %s used as a value", x.Name)
				}
				return n
			}
			if v == t.recvObj {
				t.fail("receiver %s used as a value", x.Name)
			}
			if v.Pkg() == t.fg.g.p.Types && v.Parent() == t.fg.g.p.Types.Scope() {
				n := t.fg.tag + "_" + v.Name()
				if kindOf(v.Type()) == kList && t.fg.taken[n] {
					return n
				}
				t.fail("package-level variable %s is not a constant integer table", v.Name())
			}
		}
		t.fail("identifier %s", x.Name)
	case *ast.StarExpr:
		if id, ok := unparen(x.X).(*ast.Ident); ok && t.recvMode == recvPtrInt {
			if v, ok := t.info.Uses[id].(*types.Var); ok && v == t.recvObj {
				return t.env[v]
			}
		}
		t.fail("dereference %s", types.ExprString(x))
	case *ast.SelectorExpr:
		if id, ok := unparen(x.X).(*ast.Ident); ok && t.recvMode == recvStruct {
			if v, ok := t.info.Uses[id].(*types.Var); ok && v == t.recvObj {
				return t.fieldParam(x)
			}
		}
		t.fail("selector %s", types.ExprString(x))
	case *ast.UnaryExpr:
		switch x.Op {
		case token.NOT:
			return "(negb " + t.expr(x.X) + ")"
		case token.ADD:
			return t.expr(x.X)
		case token.SUB:
			return t.wrap(t.typeOf(e), "(- "+t.expr(x.X)+")")
		case token.XOR:
			return t.wrap(t.typeOf(e), "(Z.lnot "+t.expr(x.X)+")")
		case token.AND:
			if kindOf(t.typeOf(e)) == kOpaque {
				return t.abstractValue(e)
			}
		}
		t.fail("unary %s", x.Op)
	case *ast.BinaryExpr:
		return t.binary(x)
	case *ast.CallExpr:
		return t.call(x)
	case *ast.IndexExpr:
		return t.index(x)
	case *ast.CompositeLit:
		if kindOf(t.typeOf(e)) == kList {
			var vals []string
			for _, el := range x.Elts {
				if _, kv := el.(*ast.KeyValueExpr); kv {
					t.fail("keyed composite literal")
				}
				n := len(t.pending)
				vals = append(vals, t.expr(el))
				if len(t.pending) != n {
					t.fail("composite literal element with a checked operation")
				}
			}
			return "[" + strings.Join(vals, "; ") + "]"
		}
		if kindOf(t.typeOf(e)) == kOpaque {
			return t.abstractValue(e)
		}
		t.fail("composite literal of type %v", t.typeOf(e))
	}
	t.fail("expression %T (%s)", e, types.ExprString(e))
	return ""
}

func (t *ftr) fieldParam(x *ast.SelectorExpr) string {
	k := kindOf(t.typeOf(x))
	if k != kInt && k != kBool && k != kString && k != kList {
		t.fail("field %s of type %v", x.Sel.Name, t.typeOf(x))
	}
	if sel, ok := t.info.Selections[x]; !ok || sel.Kind() != types.FieldVal {
		t.fail("selector %s is not a field", x.Sel.Name)
	}
	if n, ok := t.fieldParams[x.Sel.Name]; ok {
		return n
	}
	n := t.fresh(t.recvName + "_" + x.Sel.Name)
	t.fieldParams[x.Sel.Name] = n
	t.fieldOrder = append(t.fieldOrder, x.Sel.Name)
	t.fieldKinds[x.Sel.Name] = k
	t.fieldTypes[x.Sel.Name] = tyStr(t.typeOf(x))
	return n
}

func isNilIdent(info *types.Info, e ast.Expr) bool {
	id, ok := unparen(e).(*ast.Ident)
	if !ok {
		return false
	}
	_, isNil := info.Uses[id].(*types.Nil)
	return isNil
}

func (t *ftr) binary(x *ast.BinaryExpr) string {
	switch x.Op {
	case token.LAND, token.LOR:
		a := t.expr(x.X)
		n := len(t.pending)
		b := t.expr(x.Y)
		if len(t.pending) != n {
			t.fail("checked operation (index / division / call) on the right of %s", x.Op)
		}
		if x.Op == token.LAND {
			return "(" + a + " && " + b + ")"
		}
		return "(" + a + " || " + b + ")"
	case token.EQL, token.NEQ, token.LSS, token.LEQ, token.GTR, token.GEQ:
		neg := func(s string) string {
			if x.Op == token.NEQ {
				return "(negb " + s + ")"
			}
			return s
		}
		// comparisons with nil
		if isNilIdent(t.info, x.Y) || isNilIdent(t.info, x.X) {
			other := x.X
			if isNilIdent(t.info, x.X) {
				other = x.Y
			}
			if x.Op != token.EQL && x.Op != token.NEQ {
				t.fail("ordering comparison with nil")
			}
			switch kindOf(t.typeOf(other)) {
			case kErr:
				return neg("(negb " + t.expr(other) + ")")
			case kOpaque:
				return neg("(match " + t.abstractValue(other) + " with None => true | Some _ => false end)")
			case kList:
				t.fail("slice compared with nil")
			}
			t.fail("comparison with nil")
		}
		k := kindOf(t.typeOf(x.X))
		a, b := t.expr(x.X), t.expr(x.Y)
		switch k {
		case kInt:
			ops := map[token.Token]string{token.EQL: "=?", token.NEQ: "=?", token.LSS: "<?", token.LEQ: "<=?", token.GTR: ">?", token.GEQ: ">=?"}
			return neg("(" + a + " " + ops[x.Op] + " " + b + ")")
		case kBool:
			if x.Op == token.EQL || x.Op == token.NEQ {
				return neg("(Bool.eqb " + a + " " + b + ")")
			}
		case kString:
			if x.Op == token.EQL || x.Op == token.NEQ {
				return neg("(String.eqb " + a + " " + b + ")")
			}
		}
		t.fail("comparison %s on %v", x.Op, t.typeOf(x.X))
	}
	ty := t.typeOf(x)
	if kindOf(ty) == kString && x.Op == token.ADD {
		return "(" + t.expr(x.X) + " ++ " + t.expr(x.Y) + ")%string"
	}
	if kindOf(ty) != kInt {
		t.fail("operator %s on %v", x.Op, ty)
	}
	a, b := t.expr(x.X), t.expr(x.Y)
	return t.arith(x.Op, a, b, ty)
}

func (t *ftr) arith(op token.Token, a, b string, ty types.Type) string {
	signed, w, _ := intInfo(ty)
	switch op {
	case token.ADD:
		return t.wrap(ty, "("+a+" + "+b+")")
	case token.SUB:
		return t.wrap(ty, "("+a+" - "+b+")")
	case token.MUL:
		return t.wrap(ty, "("+a+" * "+b+")")
	case token.QUO:
		q := t.hoist("go_quo " + atom(a) + " " + atom(b))
		if signed {
			return t.wrap(ty, q)
		}
		return q
	case token.REM:
		return t.hoist("go_rem " + atom(a) + " " + atom(b))
	case token.AND:
		return "(Z.land " + atom(a) + " " + atom(b) + ")"
	case token.OR:
		return "(Z.lor " + atom(a) + " " + atom(b) + ")"
	case token.XOR:
		return "(Z.lxor " + atom(a) + " " + atom(b) + ")"
	case token.AND_NOT:
		return "(Z.ldiff " + atom(a) + " " + atom(b) + ")"
	case token.SHL:
		if w == 0 {
			t.fail("shift of an untyped value")
		}
		return t.wrap(ty, fmt.Sprintf("(Z.shiftl %s (Z.min %s %d))", atom(a), atom(b), w))
	case token.SHR:
		if w == 0 {
			t.fail("shift of an untyped value")
		}
		return fmt.Sprintf("(Z.shiftr %s (Z.min %s %d))", atom(a), atom(b), w)
	}
	t.fail("operator %s", op)
	return ""
}

// make a term safe as a function argument
func atom(s string) string {
	if s == "" {
		return s
	}
	if strings.ContainsAny(s, " ") && !(strings.HasPrefix(s, "(") && balancedParen(s)) && !strings.HasPrefix(s, "[") && !strings.HasPrefix(s, "\"") {
		return "(" + s + ")"
	}
	if strings.HasPrefix(s, "-") {
		return "(" + s + ")"
	}
	return s
}

// s starts with "(" and that parenthesis closes at the very end
func balancedParen(s string) bool {
	d := 0
	for i, c := range s {
		switch c {
		case '(':
			d++
		case ')':
			d--
			if d == 0 && i != len(s)-1 {
				return false
			}
		}
	}
	return d == 0
}

func (t *ftr) conv(dst types.Type, arg ast.Expr) string {
	src := t.typeOf(arg)
	ds, dw, dok := intInfo(dst)
	ss, sw, sok := intInfo(src)
	if !dok || !sok {
		t.fail("conversion %v -> %v", src, dst)
	}
	a := t.expr(arg)
	if sw == 0 || dw == 0 {
		t.fail("conversion involving an untyped non-constant")
	}
	fits := false
	switch {
	case !ss && !ds:
		fits = dw >= sw
	case !ss && ds:
		fits = dw > sw
	case ss && ds:
		fits = dw >= sw
	}
	if fits {
		return a
	}
	return t.wrap(dst, a)
}

func (t *ftr) calleeKey(call *ast.CallExpr) (key string, recvExpr ast.Expr, fn *types.Func) {
	switch f := unparen(call.Fun).(type) {
	case *ast.Ident:
		if obj, ok := t.info.Uses[f].(*types.Func); ok && obj.Pkg() == t.fg.g.p.Types {
			return "." + obj.Name(), nil, obj
		}
	case *ast.SelectorExpr:
		if sel, ok := t.info.Selections[f]; ok && sel.Kind() == types.MethodVal {
			obj := sel.Obj().(*types.Func)
			if obj.Pkg() != t.fg.g.p.Types {
				return "", nil, obj
			}
			rt := obj.Type().(*types.Signature).Recv().Type()
			if p, ok := rt.(*types.Pointer); ok {
				rt = p.Elem()
			}
			if n, ok := rt.(*types.Named); ok {
				return n.Obj().Name() + "." + obj.Name(), f.X, obj
			}
			return "", nil, obj
		}
		if obj, ok := t.info.Uses[f.Sel].(*types.Func); ok {
			return "", nil, obj // function of another package
		}
	}
	return "", nil, nil
}

// monadic term `f a b` for a call of a translated function
func (t *ftr) callTerm(call *ast.CallExpr) (string, *funcSig) {
	key, recvExpr, _ := t.calleeKey(call)
	if key == "" {
		t.fail("call of %s", types.ExprString(call.Fun))
	}
	if !t.fg.translate(key) {
		t.fail("call of %s, which is not translated", types.ExprString(call.Fun))
	}
	sig := t.fg.sigs[key]
	if sig.structRecv {
		t.fail("call of %s with a struct receiver", key)
	}
	var args []string
	if recvExpr != nil {
		if kindOf(t.typeOf(recvExpr)) != kInt {
			t.fail("method call on a receiver of type %v", t.typeOf(recvExpr))
		}
		args = append(args, atom(t.expr(recvExpr)))
	}
	for _, a := range call.Args {
		args = append(args, atom(t.expr(a)))
	}
	if len(args) != sig.nparams {
		t.fail("call of %s: arity", key)
	}
	return t.fg.coqName[key] + " " + strings.Join(args, " "), sig
}

func (t *ftr) call(x *ast.CallExpr) string {
	// conversion
	if tv, ok := t.info.Types[x.Fun]; ok && tv.IsType() {
		if len(x.Args) != 1 {
			t.fail("conversion arity")
		}
		return t.conv(tv.Type, x.Args[0])
	}
	// builtin
	if id, ok := unparen(x.Fun).(*ast.Ident); ok {
		if _, isB := t.info.Uses[id].(*types.Builtin); isB {
			if id.Name == "len" && len(x.Args) == 1 {
				switch kindOf(t.typeOf(x.Args[0])) {
				case kList:
					return "(len_Z " + atom(t.expr(x.Args[0])) + ")"
				case kString:
					return "(Z.of_nat (String.length " + atom(t.expr(x.Args[0])) + "))"
				}
			}
			t.fail("builtin %s", id.Name)
		}
	}
	key, _, fn := t.calleeKey(x)
	if key == "" && fn != nil {
		full := fn.Pkg().Path() + "." + fn.Name()
		if errorCtors[full] {
			return "true"
		}
		if full == "fmt.Sprintf" && len(x.Args) >= 1 {
			tv := t.info.Types[x.Args[0]]
			if tv.Value == nil || tv.Value.Kind() != constant.String {
				t.fail("fmt.Sprintf with a non-constant format")
			}
			f, ok := coqString(constant.StringVal(tv.Value))
			if !ok {
				t.fail("format string")
			}
			var args []string
			for _, a := range x.Args[1:] {
				if kindOf(t.typeOf(a)) != kInt {
					t.fail("fmt.Sprintf argument of type %v", t.typeOf(a))
				}
				args = append(args, t.expr(a))
			}
			return "(SprintfOf " + f + " [" + strings.Join(args, "; ") + "])"
		}
		t.fail("call of %s", full)
	}
	rk := kindOf(t.typeOf(x))
	if rk == kOpaque {
		// constructors of values that are not modelled are abstracted, never translated
		return t.abstractValue(x)
	}
	if key != "" {
		if _, ok := t.fg.decls[key]; ok {
			// a function of this package: translated on demand (memoised), emitted before the caller
			term, sig := t.callTerm(x)
			if len(sig.kinds) != 1 {
				t.fail("multi-value call in a single-value context")
			}
			return t.hoist(term)
		}
	}
	t.fail("call of %s", types.ExprString(x.Fun))
	return ""
}

func (fg *funcsGen) isListed(key string) bool {
	fd, ok := fg.decls[key]
	return ok && fg.allowed(fd)
}

func (t *ftr) index(x *ast.IndexExpr) string {
	xt := t.typeOf(x.X)
	if kindOf(xt) == kList {
		l := t.expr(x.X)
		i := t.expr(x.Index)
		return t.hoist("nth_chk " + atom(l) + " " + atom(i))
	}
	if m, ok := xt.Underlying().(*types.Map); ok {
		id, isId := unparen(x.X).(*ast.Ident)
		if !isId {
			t.fail("map expression")
		}
		v, isVar := t.info.Uses[id].(*types.Var)
		if !isVar || v.Parent() != t.fg.g.p.Types.Scope() {
			t.fail("map %s is not a package-level variable", id.Name)
		}
		vk := kindOf(m.Elem())
		if kindOf(m.Key()) != kInt || (vk != kBool && vk != kInt) {
			t.fail("map type %v", xt)
		}
		name := t.fg.ensureMap(t, v, vk)
		i := t.expr(x.Index)
		if vk == kBool {
			return "(map_bool " + name + " " + atom(i) + ")"
		}
		return "(map_Z " + name + " " + atom(i) + ")"
	}
	t.fail("index on %v", xt)
	return ""
}

// package-level `var m = map[K]V{c: c, ...}` with constant keys and values, never assigned
// elsewhere in the package (checked syntactically)
func (fg *funcsGen) ensureMap(t *ftr, v *types.Var, vk kind) string {
	base := fg.tag + "_" + v.Name() + "_map"
	if n, ok := fg.maps[base]; ok {
		return n
	}
	name := base
	var lit *ast.CompositeLit
	for _, f := range fg.g.p.Syntax {
		for _, d := range f.Decls {
			gd, ok := d.(*ast.GenDecl)
			if !ok || gd.Tok != token.VAR {
				continue
			}
			for _, sp := range gd.Specs {
				vs := sp.(*ast.ValueSpec)
				for i, nm := range vs.Names {
					if fg.g.p.TypesInfo.Defs[nm] == v && i < len(vs.Values) {
						lit, _ = vs.Values[i].(*ast.CompositeLit)
					}
				}
			}
		}
	}
	if lit == nil {
		t.fail("map %s has no literal initialiser", v.Name())
	}
	// written anywhere?
	written := false
	for _, f := range fg.g.p.Syntax {
		ast.Inspect(f, func(n ast.Node) bool {
			switch s := n.(type) {
			case *ast.AssignStmt:
				for _, l := range s.Lhs {
					base := l
					if ix, ok := l.(*ast.IndexExpr); ok {
						base = ix.X
					}
					if id, ok := unparen(base).(*ast.Ident); ok && fg.g.p.TypesInfo.Uses[id] == v {
						written = true
					}
				}
			case *ast.CallExpr:
				if id, ok := s.Fun.(*ast.Ident); ok && id.Name == "delete" && len(s.Args) > 0 {
					if a, ok := unparen(s.Args[0]).(*ast.Ident); ok && fg.g.p.TypesInfo.Uses[a] == v {
						written = true
					}
				}
			}
			return true
		})
	}
	if written {
		t.fail("map %s is modified at run time", v.Name())
	}
	var items []string
	for _, el := range lit.Elts {
		kv, ok := el.(*ast.KeyValueExpr)
		if !ok {
			t.fail("map literal element")
		}
		ktv, vtv := fg.g.p.TypesInfo.Types[kv.Key], fg.g.p.TypesInfo.Types[kv.Value]
		if ktv.Value == nil || vtv.Value == nil || ktv.Value.Kind() != constant.Int {
			t.fail("map literal with non-constant entries")
		}
		var val string
		if vk == kBool {
			val = "false"
			if constant.BoolVal(vtv.Value) {
				val = "true"
			}
		} else {
			val = coqZ(vtv.Value)
		}
		items = append(items, "("+coqZ(ktv.Value)+", "+val+")")
	}
	for fg.taken[name] {
		name += "'"
	}
	fg.taken[name] = true
	fg.maps[base] = name
	ty := "bool"
	if vk == kInt {
		ty = "Z"
	}
	fg.g.pf("Definition %s : list (Z * %s) := [%s].\n\n", name, ty, strings.Join(items, "; "))
	return name
}
