// gen_json: the marker tables of json.NewJsonPlusReader (C17).
//
//	startMatches := [][]byte{[]byte("'"), ...}   ->  Definition json_NewJsonPlusReader__startMatches : list (list N)
//	isComments := []bool{false, ...}             ->  Definition json_NewJsonPlusReader__isComments : list bool
//
// Anything in that function of another shape under one of the four expected names yields
// `<name>_unsupported`, so that Model/JsonPlus.v stops compiling.
package main

import (
	"go/ast"
	"go/constant"
	"go/token"
	"strconv"
	"strings"
)

func init() {
	extraGens = append(extraGens, func(g *gen) {
		if pkgTag(g.p) != "json" {
			return
		}
		want := map[string]bool{"startMatches": true, "endMatches": true, "isComments": true, "requiredMatches": true}
		for _, fd := range g.funcDecls() {
			if fd.Name.Name != "NewJsonPlusReader" || fd.Recv != nil {
				continue
			}
			ast.Inspect(fd.Body, func(n ast.Node) bool {
				as, ok := n.(*ast.AssignStmt)
				if !ok || as.Tok != token.DEFINE || len(as.Lhs) != 1 || len(as.Rhs) != 1 {
					return true
				}
				id, ok := as.Lhs[0].(*ast.Ident)
				if !ok || !want[id.Name] {
					return true
				}
				name := "json_NewJsonPlusReader__" + id.Name
				cl, ok := as.Rhs[0].(*ast.CompositeLit)
				if !ok {
					g.pf("Definition %s_unsupported := tt.\n", name)
					return true
				}
				if rows, ok := g.byteRows(cl); ok {
					g.pf("Definition %s : list (list N) := [%s]%%N.\n", name, strings.Join(rows, "; "))
				} else if bs, ok := g.boolElems(cl); ok {
					g.pf("Definition %s : list bool := [%s].\n", name, strings.Join(bs, "; "))
				} else {
					g.pf("Definition %s_unsupported := tt.\n", name)
				}
				return true
			})
		}
		g.pf("\n")
	})
}

// [][]byte{[]byte("ab"), ...} with constant string arguments
func (g *gen) byteRows(cl *ast.CompositeLit) ([]string, bool) {
	var rows []string
	if len(cl.Elts) == 0 {
		return nil, false
	}
	for _, e := range cl.Elts {
		call, ok := e.(*ast.CallExpr)
		if !ok || len(call.Args) != 1 {
			return nil, false
		}
		if at, ok := call.Fun.(*ast.ArrayType); !ok || at.Len != nil {
			return nil, false
		} else if el, ok := at.Elt.(*ast.Ident); !ok || el.Name != "byte" {
			return nil, false
		}
		tv, ok := g.p.TypesInfo.Types[call.Args[0]]
		if !ok || tv.Value == nil || tv.Value.Kind() != constant.String {
			return nil, false
		}
		var bs []string
		for _, c := range []byte(constant.StringVal(tv.Value)) {
			bs = append(bs, strconv.Itoa(int(c)))
		}
		rows = append(rows, "["+strings.Join(bs, "; ")+"]")
	}
	return rows, true
}

func (g *gen) boolElems(cl *ast.CompositeLit) ([]string, bool) {
	var out []string
	if len(cl.Elts) == 0 {
		return nil, false
	}
	for _, e := range cl.Elts {
		tv, ok := g.p.TypesInfo.Types[e]
		if !ok || tv.Value == nil || tv.Value.Kind() != constant.Bool {
			return nil, false
		}
		if constant.BoolVal(tv.Value) {
			out = append(out, "true")
		} else {
			out = append(out, "false")
		}
	}
	return out, true
}
