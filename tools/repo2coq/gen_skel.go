// gen_skel: synchronisation skeletons of the concurrent paths (C18 logger, C15 websocket,
// C04 rtmp).  A skeleton is plain data, `list (string * string)` = (event kind, operand), in
// program order, so the generated files depend on the Coq standard library only; the models
// (Model/Logger.v, Model/WsConc.v, Model/RtmpTx.v) decode the event names, and an event they do
// not know makes the decidable safety predicate false.  A function whose body is outside the
// recognised statement forms yields `Definition <name>_unsupported := tt.` INSTEAD of the
// skeleton, so the `cXX_repo` theorem stops compiling.
//
// logger (C18)
//
//	logger_WithContext_skel   statement list of WithContext over the package-level counter g:
//	    ("load",g)        reg := g                       (plain read)
//	    ("store_inc",g)   g := reg + 1                   (plain write; `g += 1`, `g++`, `g = g + 1`
//	                                                     are load;store_inc)
//	    ("atomic_add",g)  g := g + 1; reg := g           (sync/atomic AddIntNN(&g, 1))
//	    ("lock",m) / ("unlock",m)                        m.Lock() / m.Unlock() on a package-level
//	                                                     sync.Mutex (a deferred Unlock is placed
//	                                                     after the return value is evaluated)
//	    ("ret_reg",v)     the id put into the context is the local v that holds reg
//	    ("ret_load",g)    the id put into the context is a (second) plain read of g
//	logger_AliasContext_skel  [("source_cid","ret_source_cid"); ("no_source_cid","call_WithContext")]
//	    when the body is exactly: source != nil && source.Value(cidKey).(int) ok -> return
//	    context.WithValue(parent, cidKey, cid); otherwise return WithContext(parent).
package main

import (
	"fmt"
	"go/ast"
	"go/constant"
	"go/token"
	"go/types"
	"strings"
)

type skelEv struct{ kind, arg string }

func (g *gen) emitSkel(name string, evs []skelEv, ok bool, why string) {
	if !ok {
		g.pf("(* %s: not recognised: %s *)\nDefinition %s_unsupported := tt.\n", name, why, name)
		return
	}
	var parts []string
	for _, e := range evs {
		parts = append(parts, fmt.Sprintf("(\"%s\", \"%s\")", e.kind, e.arg))
	}
	g.pf("Definition %s : list (string * string) :=\n  [%s]%%string.\n", name, strings.Join(parts, "; "))
}

func (g *gen) pkgVar(e ast.Expr) (*types.Var, bool) {
	id, ok := e.(*ast.Ident)
	if !ok {
		return nil, false
	}
	v, ok := g.p.TypesInfo.Uses[id].(*types.Var)
	if !ok || v.Parent() != g.p.Types.Scope() {
		return nil, false
	}
	return v, true
}

func (g *gen) isConstInt(e ast.Expr, want int64) bool {
	tv, ok := g.p.TypesInfo.Types[e]
	if !ok || tv.Value == nil || tv.Value.Kind() != constant.Int {
		return false
	}
	v, exact := constant.Int64Val(tv.Value)
	return exact && v == want
}

// call to package `pkgPath`, function name with prefix `fn`
func (g *gen) pkgCall(e ast.Expr, pkgPath, fnPrefix string) (*ast.CallExpr, bool) {
	ce, ok := e.(*ast.CallExpr)
	if !ok {
		return nil, false
	}
	sel, ok := ce.Fun.(*ast.SelectorExpr)
	if !ok {
		return nil, false
	}
	id, ok := sel.X.(*ast.Ident)
	if !ok {
		return nil, false
	}
	pn, ok := g.p.TypesInfo.Uses[id].(*types.PkgName)
	if !ok || pn.Imported().Path() != pkgPath || !strings.HasPrefix(sel.Sel.Name, fnPrefix) {
		return nil, false
	}
	return ce, true
}

// atomic.AddIntNN(&g, 1) / atomic.AddUintNN(&g, 1) on a package-level variable: returns its name
func (g *gen) atomicAddOne(e ast.Expr) (string, bool) {
	ce, ok := g.pkgCall(e, "sync/atomic", "Add")
	if !ok || len(ce.Args) != 2 {
		return "", false
	}
	ue, ok := ce.Args[0].(*ast.UnaryExpr)
	if !ok || ue.Op != token.AND {
		return "", false
	}
	v, ok := g.pkgVar(ue.X)
	if !ok || !g.isConstInt(ce.Args[1], 1) {
		return "", false
	}
	return v.Name(), true
}

// strip integer conversions int(x), int64(x), ...
func (g *gen) stripConv(e ast.Expr) ast.Expr {
	for {
		switch x := e.(type) {
		case *ast.ParenExpr:
			e = x.X
			continue
		case *ast.CallExpr:
			if len(x.Args) == 1 {
				if tv, ok := g.p.TypesInfo.Types[x.Fun]; ok && tv.IsType() {
					if b, ok := tv.Type.Underlying().(*types.Basic); ok && b.Info()&types.IsInteger != 0 {
						e = x.Args[0]
						continue
					}
				}
			}
		}
		return e
	}
}

// m.Lock() / m.Unlock() on a package-level sync.Mutex
func (g *gen) mutexCall(e ast.Expr) (kind, name string, ok bool) {
	ce, isCall := e.(*ast.CallExpr)
	if !isCall || len(ce.Args) != 0 {
		return "", "", false
	}
	sel, isSel := ce.Fun.(*ast.SelectorExpr)
	if !isSel {
		return "", "", false
	}
	v, isVar := g.pkgVar(sel.X)
	if !isVar || !strings.HasSuffix(v.Type().String(), "sync.Mutex") {
		return "", "", false
	}
	switch sel.Sel.Name {
	case "Lock":
		return "lock", v.Name(), true
	case "Unlock":
		return "unlock", v.Name(), true
	}
	return "", "", false
}

func (g *gen) loggerWithContext(fd *ast.FuncDecl) ([]skelEv, bool, string) {
	var evs, deferred []skelEv
	regLocals := map[types.Object]bool{} // locals currently holding reg
	counter := ""
	setCounter := func(n string) bool {
		if counter == "" {
			counter = n
		}
		return counter == n
	}
	for _, st := range fd.Body.List {
		switch s := st.(type) {
		case *ast.IncDecStmt:
			v, ok := g.pkgVar(s.X)
			if !ok || s.Tok != token.INC || !setCounter(v.Name()) {
				return nil, false, "inc/dec of something else than one package-level counter"
			}
			evs = append(evs, skelEv{"load", v.Name()}, skelEv{"store_inc", v.Name()})
			regLocals = map[types.Object]bool{}
		case *ast.AssignStmt:
			if len(s.Lhs) != 1 || len(s.Rhs) != 1 {
				return nil, false, "multi-assignment"
			}
			if v, ok := g.pkgVar(s.Lhs[0]); ok {
				// g += 1   |   g = g + 1
				okForm := false
				if s.Tok == token.ADD_ASSIGN && g.isConstInt(s.Rhs[0], 1) {
					okForm = true
				} else if s.Tok == token.ASSIGN {
					if be, ok := s.Rhs[0].(*ast.BinaryExpr); ok && be.Op == token.ADD {
						if v2, ok := g.pkgVar(be.X); ok && v2 == v && g.isConstInt(be.Y, 1) {
							okForm = true
						}
					}
				}
				if !okForm || !setCounter(v.Name()) {
					return nil, false, "assignment to the counter that is not an increment by 1"
				}
				evs = append(evs, skelEv{"load", v.Name()}, skelEv{"store_inc", v.Name()})
				regLocals = map[types.Object]bool{}
				continue
			}
			lid, ok := s.Lhs[0].(*ast.Ident)
			if !ok {
				return nil, false, "assignment to a non-identifier"
			}
			var lobj types.Object
			if s.Tok == token.DEFINE {
				lobj = g.p.TypesInfo.Defs[lid]
			} else {
				lobj = g.p.TypesInfo.Uses[lid]
			}
			rhs := g.stripConv(s.Rhs[0])
			if n, ok := g.atomicAddOne(rhs); ok && setCounter(n) {
				evs = append(evs, skelEv{"atomic_add", n})
				regLocals = map[types.Object]bool{lobj: true}
			} else if v, ok := g.pkgVar(rhs); ok && setCounter(v.Name()) {
				evs = append(evs, skelEv{"load", v.Name()})
				regLocals = map[types.Object]bool{lobj: true}
			} else if rid, ok := rhs.(*ast.Ident); ok && regLocals[g.p.TypesInfo.Uses[rid]] {
				regLocals[lobj] = true
			} else {
				return nil, false, "assignment of an unrecognised expression"
			}
		case *ast.ExprStmt:
			if k, n, ok := g.mutexCall(s.X); ok {
				evs = append(evs, skelEv{k, n})
			} else if n, ok := g.atomicAddOne(s.X); ok && setCounter(n) {
				// result discarded: g := g+1 and reg := g, reg unused
				evs = append(evs, skelEv{"atomic_add", n})
				regLocals = map[types.Object]bool{}
			} else {
				return nil, false, "unrecognised call statement"
			}
		case *ast.DeferStmt:
			if k, n, ok := g.mutexCall(s.Call); ok && k == "unlock" {
				deferred = append([]skelEv{{k, n}}, deferred...)
			} else {
				return nil, false, "unrecognised defer"
			}
		case *ast.ReturnStmt:
			if len(s.Results) != 1 {
				return nil, false, "return arity"
			}
			ce, ok := g.pkgCall(s.Results[0], "context", "WithValue")
			if !ok || len(ce.Args) != 3 {
				return nil, false, "return is not context.WithValue(..)"
			}
			if k, ok := g.pkgVar(ce.Args[1]); !ok || k.Name() != "cidKey" {
				return nil, false, "context key is not cidKey"
			}
			val := g.stripConv(ce.Args[2])
			if n, ok := g.atomicAddOne(val); ok && setCounter(n) {
				evs = append(evs, skelEv{"atomic_add", n}, skelEv{"ret_reg", ""})
			} else if v, ok := g.pkgVar(val); ok && setCounter(v.Name()) {
				evs = append(evs, skelEv{"ret_load", v.Name()})
			} else if id, ok := val.(*ast.Ident); ok && regLocals[g.p.TypesInfo.Uses[id]] {
				evs = append(evs, skelEv{"ret_reg", id.Name})
			} else {
				return nil, false, "id expression not recognised"
			}
			evs = append(evs, deferred...)
			return evs, true, ""
		default:
			return nil, false, fmt.Sprintf("statement %T", st)
		}
	}
	return nil, false, "no return"
}

// AliasContext must be exactly
//
//	if source != nil { if cid, ok := source.Value(cidKey).(int); ok { return context.WithValue(parent, cidKey, cid) } }
//	return WithContext(parent)
func (g *gen) loggerAliasContext(fd *ast.FuncDecl) ([]skelEv, bool, string) {
	ps := fd.Type.Params.List
	var names []string
	for _, p := range ps {
		for _, n := range p.Names {
			names = append(names, n.Name)
		}
	}
	if len(names) != 2 || len(fd.Body.List) != 2 {
		return nil, false, "shape"
	}
	parent, source := names[0], names[1]
	str := func(n ast.Node) string {
		switch x := n.(type) {
		case ast.Expr:
			return types.ExprString(x)
		}
		return ""
	}
	ifs, ok := fd.Body.List[0].(*ast.IfStmt)
	if !ok || ifs.Init != nil || ifs.Else != nil || str(ifs.Cond) != source+" != nil" || len(ifs.Body.List) != 1 {
		return nil, false, "outer if"
	}
	in, ok := ifs.Body.List[0].(*ast.IfStmt)
	if !ok || in.Else != nil || in.Init == nil || len(in.Body.List) != 1 {
		return nil, false, "inner if"
	}
	as, ok := in.Init.(*ast.AssignStmt)
	if !ok || as.Tok != token.DEFINE || len(as.Lhs) != 2 || len(as.Rhs) != 1 ||
		str(as.Rhs[0]) != source+".Value(cidKey).(int)" || str(in.Cond) != str(as.Lhs[1]) {
		return nil, false, "inner if init/cond"
	}
	ret, ok := in.Body.List[0].(*ast.ReturnStmt)
	if !ok || len(ret.Results) != 1 || str(ret.Results[0]) != "context.WithValue("+parent+", cidKey, "+str(as.Lhs[0])+")" {
		return nil, false, "inner return"
	}
	ret2, ok := fd.Body.List[1].(*ast.ReturnStmt)
	if !ok || len(ret2.Results) != 1 || str(ret2.Results[0]) != "WithContext("+parent+")" {
		return nil, false, "final return"
	}
	return []skelEv{{"source_cid", "ret_source_cid"}, {"no_source_cid", "call_WithContext"}}, true, ""
}

func init() {
	extraGens = append(extraGens, func(g *gen) {
		if pkgTag(g.p) != "logger" {
			return
		}
		g.pf("(* synchronisation skeletons (gen_skel.go) *)\n")
		seen := map[string]bool{}
		for _, fd := range g.funcDecls() {
			if fd.Recv != nil {
				continue
			}
			switch fd.Name.Name {
			case "WithContext":
				evs, ok, why := g.loggerWithContext(fd)
				g.emitSkel("logger_WithContext_skel", evs, ok, why)
				seen[fd.Name.Name] = true
			case "AliasContext":
				evs, ok, why := g.loggerAliasContext(fd)
				g.emitSkel("logger_AliasContext_skel", evs, ok, why)
				seen[fd.Name.Name] = true
			}
		}
		for _, n := range []string{"WithContext", "AliasContext"} {
			if !seen[n] {
				g.emitSkel("logger_"+n+"_skel", nil, false, "function not found")
			}
		}
		g.pf("\n")
	})
}
