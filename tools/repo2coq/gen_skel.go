// gen_skel: synchronisation skeletons of the concurrent paths (C18 logger, C15 websocket,
// C04 rtmp).  A skeleton is plain data, `list (string * string)` = (event kind, operand), in
// program order, so the generated files depend on the Coq standard library only; the models
// (Model/Logger.v, Model/WsConc.v, Model/RtmpTx.v) decode the event names, and an event they do
// not know makes the decidable safety predicate false.  A function whose body is outside the
// recognised statement forms yields `Definition <name>_unsupported := tt.` INSTEAD of the
// skeleton, so the `cXX_repo` theorem stops compiling.
//
// logger (C18)
//
//	logger_WithContext_skel   statement list of WithContext over the package-level counter g:
//	    ("load",g)        reg := g                       (plain read)
//	    ("store_inc",g)   g := reg + 1                   (plain write; `g += 1`, `g++`, `g = g + 1`
//	                                                     are load;store_inc)
//	    ("atomic_add",g)  g := g + 1; reg := g           (sync/atomic AddIntNN(&g, 1))
//	    ("lock",m) / ("unlock",m)                        m.Lock() / m.Unlock() on a package-level
//	                                                     sync.Mutex (a deferred Unlock is placed
//	                                                     after the return value is evaluated)
//	    ("ret_reg",v)     the id put into the context is the local v that holds reg
//	    ("ret_load",g)    the id put into the context is a (second) plain read of g
//	logger_AliasContext_skel  [("source_cid","ret_source_cid"); ("no_source_cid","call_WithContext")]
//	    when the body is exactly: source != nil && source.Value(cidKey).(int) ok -> return
//	    context.WithValue(parent, cidKey, cid); otherwise return WithContext(parent).
package main

import (
	"fmt"
	"sort"
	"go/ast"
	"go/constant"
	"go/token"
	"go/types"
	"strings"
)

type skelEv struct{ kind, arg string }

func (g *gen) emitSkel(name string, evs []skelEv, ok bool, why string) {
	if !ok {
		g.pf("(* %s: not recognised: %s *)\nDefinition %s_unsupported := tt.\n", name, why, name)
		return
	}
	var parts []string
	for _, e := range evs {
		parts = append(parts, fmt.Sprintf("(\"%s\", \"%s\")", e.kind, e.arg))
	}
	g.pf("Definition %s : list (string * string) :=\n  [%s]%%string.\n", name, strings.Join(parts, "; "))
}

func (g *gen) pkgVar(e ast.Expr) (*types.Var, bool) {
	id, ok := e.(*ast.Ident)
	if !ok {
		return nil, false
	}
	v, ok := g.p.TypesInfo.Uses[id].(*types.Var)
	if !ok || v.Parent() != g.p.Types.Scope() {
		return nil, false
	}
	return v, true
}

func (g *gen) isConstInt(e ast.Expr, want int64) bool {
	tv, ok := g.p.TypesInfo.Types[e]
	if !ok || tv.Value == nil || tv.Value.Kind() != constant.Int {
		return false
	}
	v, exact := constant.Int64Val(tv.Value)
	return exact && v == want
}

// call to package `pkgPath`, function name with prefix `fn`
func (g *gen) pkgCall(e ast.Expr, pkgPath, fnPrefix string) (*ast.CallExpr, bool) {
	ce, ok := e.(*ast.CallExpr)
	if !ok {
		return nil, false
	}
	sel, ok := ce.Fun.(*ast.SelectorExpr)
	if !ok {
		return nil, false
	}
	id, ok := sel.X.(*ast.Ident)
	if !ok {
		return nil, false
	}
	pn, ok := g.p.TypesInfo.Uses[id].(*types.PkgName)
	if !ok || pn.Imported().Path() != pkgPath || !strings.HasPrefix(sel.Sel.Name, fnPrefix) {
		return nil, false
	}
	return ce, true
}

// atomic.AddIntNN(&g, 1) / atomic.AddUintNN(&g, 1) on a package-level variable: returns its name
func (g *gen) atomicAddOne(e ast.Expr) (string, bool) {
	ce, ok := g.pkgCall(e, "sync/atomic", "Add")
	if !ok || len(ce.Args) != 2 {
		return "", false
	}
	ue, ok := ce.Args[0].(*ast.UnaryExpr)
	if !ok || ue.Op != token.AND {
		return "", false
	}
	v, ok := g.pkgVar(ue.X)
	if !ok || !g.isConstInt(ce.Args[1], 1) {
		return "", false
	}
	return v.Name(), true
}

// f() where f is a function of this package without parameters whose body is `return <expr>`:
// the expression it returns (one level of inlining for helpers such as nextCid())
func (g *gen) inlineNullary(e ast.Expr) ast.Expr {
	ce, ok := e.(*ast.CallExpr)
	if !ok || len(ce.Args) != 0 {
		return e
	}
	id, ok := ce.Fun.(*ast.Ident)
	if !ok {
		return e
	}
	fn, ok := g.p.TypesInfo.Uses[id].(*types.Func)
	if !ok || fn.Pkg() != g.p.Types {
		return e
	}
	for _, fd := range g.funcDecls() {
		if fd.Recv == nil && fd.Name.Name == id.Name && len(fd.Body.List) == 1 {
			if rs, ok := fd.Body.List[0].(*ast.ReturnStmt); ok && len(rs.Results) == 1 {
				return rs.Results[0]
			}
		}
	}
	return e
}

// strip integer conversions int(x), int64(x), ...
func (g *gen) stripConv(e ast.Expr) ast.Expr {
	for {
		switch x := e.(type) {
		case *ast.ParenExpr:
			e = x.X
			continue
		case *ast.CallExpr:
			if len(x.Args) == 1 {
				if tv, ok := g.p.TypesInfo.Types[x.Fun]; ok && tv.IsType() {
					if b, ok := tv.Type.Underlying().(*types.Basic); ok && b.Info()&types.IsInteger != 0 {
						e = x.Args[0]
						continue
					}
				}
			}
		}
		return e
	}
}

// m.Lock() / m.Unlock() on a package-level sync.Mutex
func (g *gen) mutexCall(e ast.Expr) (kind, name string, ok bool) {
	ce, isCall := e.(*ast.CallExpr)
	if !isCall || len(ce.Args) != 0 {
		return "", "", false
	}
	sel, isSel := ce.Fun.(*ast.SelectorExpr)
	if !isSel {
		return "", "", false
	}
	v, isVar := g.pkgVar(sel.X)
	if !isVar || !strings.HasSuffix(v.Type().String(), "sync.Mutex") {
		return "", "", false
	}
	switch sel.Sel.Name {
	case "Lock":
		return "lock", v.Name(), true
	case "Unlock":
		return "unlock", v.Name(), true
	}
	return "", "", false
}

// name of the package-level context key WithContext stores the id under (found by role)
var loggerCidKey = "cidKey"

func (g *gen) loggerWithContext(fd *ast.FuncDecl) ([]skelEv, bool, string) {
	var evs, deferred []skelEv
	regLocals := map[types.Object]bool{} // locals currently holding reg
	counter := ""
	setCounter := func(n string) bool {
		if counter == "" {
			counter = n
		}
		return counter == n
	}
	for _, st := range fd.Body.List {
		switch s := st.(type) {
		case *ast.IncDecStmt:
			v, ok := g.pkgVar(s.X)
			if !ok || s.Tok != token.INC || !setCounter(v.Name()) {
				return nil, false, "inc/dec of something else than one package-level counter"
			}
			evs = append(evs, skelEv{"load", v.Name()}, skelEv{"store_inc", v.Name()})
			regLocals = map[types.Object]bool{}
		case *ast.AssignStmt:
			if len(s.Lhs) != 1 || len(s.Rhs) != 1 {
				return nil, false, "multi-assignment"
			}
			if v, ok := g.pkgVar(s.Lhs[0]); ok {
				// g += 1   |   g = g + 1
				okForm := false
				if s.Tok == token.ADD_ASSIGN && g.isConstInt(s.Rhs[0], 1) {
					okForm = true
				} else if s.Tok == token.ASSIGN {
					if be, ok := s.Rhs[0].(*ast.BinaryExpr); ok && be.Op == token.ADD {
						if v2, ok := g.pkgVar(be.X); ok && v2 == v && g.isConstInt(be.Y, 1) {
							okForm = true
						}
					}
				}
				if !okForm || !setCounter(v.Name()) {
					return nil, false, "assignment to the counter that is not an increment by 1"
				}
				evs = append(evs, skelEv{"load", v.Name()}, skelEv{"store_inc", v.Name()})
				regLocals = map[types.Object]bool{}
				continue
			}
			lid, ok := s.Lhs[0].(*ast.Ident)
			if !ok {
				return nil, false, "assignment to a non-identifier"
			}
			var lobj types.Object
			if s.Tok == token.DEFINE {
				lobj = g.p.TypesInfo.Defs[lid]
			} else {
				lobj = g.p.TypesInfo.Uses[lid]
			}
			rhs := g.stripConv(g.inlineNullary(g.stripConv(s.Rhs[0])))
			if n, ok := g.atomicAddOne(rhs); ok && setCounter(n) {
				evs = append(evs, skelEv{"atomic_add", n})
				regLocals = map[types.Object]bool{lobj: true}
			} else if v, ok := g.pkgVar(rhs); ok && setCounter(v.Name()) {
				evs = append(evs, skelEv{"load", v.Name()})
				regLocals = map[types.Object]bool{lobj: true}
			} else if rid, ok := rhs.(*ast.Ident); ok && regLocals[g.p.TypesInfo.Uses[rid]] {
				regLocals[lobj] = true
			} else {
				return nil, false, "assignment of an unrecognised expression"
			}
		case *ast.ExprStmt:
			if k, n, ok := g.mutexCall(s.X); ok {
				evs = append(evs, skelEv{k, n})
			} else if n, ok := g.atomicAddOne(s.X); ok && setCounter(n) {
				// result discarded: g := g+1 and reg := g, reg unused
				evs = append(evs, skelEv{"atomic_add", n})
				regLocals = map[types.Object]bool{}
			} else {
				return nil, false, "unrecognised call statement"
			}
		case *ast.DeferStmt:
			if k, n, ok := g.mutexCall(s.Call); ok && k == "unlock" {
				deferred = append([]skelEv{{k, n}}, deferred...)
			} else {
				return nil, false, "unrecognised defer"
			}
		case *ast.ReturnStmt:
			if len(s.Results) != 1 {
				return nil, false, "return arity"
			}
			ce, ok := g.pkgCall(s.Results[0], "context", "WithValue")
			if !ok || len(ce.Args) != 3 {
				return nil, false, "return is not context.WithValue(..)"
			}
			// the context key: a package-level variable, whatever its name; AliasContext must use the same one
			if k, ok := g.pkgVar(ce.Args[1]); !ok {
				return nil, false, "context key is not a package-level variable"
			} else {
				loggerCidKey = k.Name()
			}
			val := g.stripConv(g.inlineNullary(g.stripConv(ce.Args[2])))
			if n, ok := g.atomicAddOne(val); ok && setCounter(n) {
				evs = append(evs, skelEv{"atomic_add", n}, skelEv{"ret_reg", ""})
			} else if v, ok := g.pkgVar(val); ok && setCounter(v.Name()) {
				evs = append(evs, skelEv{"ret_load", v.Name()})
			} else if id, ok := val.(*ast.Ident); ok && regLocals[g.p.TypesInfo.Uses[id]] {
				evs = append(evs, skelEv{"ret_reg", id.Name})
			} else {
				return nil, false, "id expression not recognised"
			}
			evs = append(evs, deferred...)
			return evs, true, ""
		default:
			return nil, false, fmt.Sprintf("statement %T", st)
		}
	}
	return nil, false, "no return"
}

// AliasContext must be exactly
//
//	if source != nil { if cid, ok := source.Value(cidKey).(int); ok { return context.WithValue(parent, cidKey, cid) } }
//	return WithContext(parent)
func (g *gen) loggerAliasContext(fd *ast.FuncDecl) ([]skelEv, bool, string) {
	ps := fd.Type.Params.List
	var names []string
	for _, p := range ps {
		for _, n := range p.Names {
			names = append(names, n.Name)
		}
	}
	if len(names) != 2 {
		return nil, false, "shape"
	}
	parent, source := names[0], names[1]
	key := loggerCidKey
	okEvs := []skelEv{{"source_cid", "ret_source_cid"}, {"no_source_cid", "call_WithContext"}}
	if len(fd.Body.List) == 4 {
		// flat form:  if source == nil { return WithContext(parent) };  cid, ok := <id of source>;
		//             if !ok { return WithContext(parent) };  return context.WithValue(parent, key, cid)
		sx := func(n ast.Node) string {
			if e, ok := n.(ast.Expr); ok {
				return types.ExprString(e)
			}
			return ""
		}
		retWC := func(b *ast.BlockStmt) bool {
			if len(b.List) != 1 {
				return false
			}
			r, ok := b.List[0].(*ast.ReturnStmt)
			return ok && len(r.Results) == 1 && sx(r.Results[0]) == "WithContext("+parent+")"
		}
		i0, ok0 := fd.Body.List[0].(*ast.IfStmt)
		as, ok1 := fd.Body.List[1].(*ast.AssignStmt)
		i2, ok2 := fd.Body.List[2].(*ast.IfStmt)
		r3, ok3 := fd.Body.List[3].(*ast.ReturnStmt)
		if !(ok0 && ok1 && ok2 && ok3) || i0.Init != nil || i0.Else != nil || sx(i0.Cond) != source+" == nil" || !retWC(i0.Body) ||
			len(as.Lhs) != 2 || len(as.Rhs) != 1 || i2.Init != nil || i2.Else != nil || sx(i2.Cond) != "!"+sx(as.Lhs[1]) || !retWC(i2.Body) ||
			len(r3.Results) != 1 || sx(r3.Results[0]) != "context.WithValue("+parent+", "+key+", "+sx(as.Lhs[0])+")" {
			return nil, false, "flat shape"
		}
		rhs := sx(as.Rhs[0])
		if rhs == source+".Value("+key+").(int)" {
			return okEvs, true, ""
		}
		// a one-parameter helper of this package that reads <param>.Value(key).(int)
		if ce, ok := as.Rhs[0].(*ast.CallExpr); ok && len(ce.Args) == 1 && sx(ce.Args[0]) == source {
			if id, ok := ce.Fun.(*ast.Ident); ok {
				for _, hd := range g.funcDecls() {
					if hd.Recv == nil && hd.Name.Name == id.Name && len(hd.Type.Params.List) == 1 && len(hd.Type.Params.List[0].Names) == 1 {
						pn := hd.Type.Params.List[0].Names[0].Name
						found, other := false, false
						ast.Inspect(hd.Body, func(n ast.Node) bool {
							if ta, ok := n.(*ast.TypeAssertExpr); ok {
								if sx(ta) == pn+".Value("+key+").(int)" {
									found = true
								} else {
									other = true
								}
							}
							return true
						})
						if found && !other && len(hd.Body.List) <= 2 {
							return okEvs, true, ""
						}
					}
				}
			}
		}
		return nil, false, "flat shape: id of the source not recognised"
	}
	if len(fd.Body.List) != 2 {
		return nil, false, "shape"
	}
	str := func(n ast.Node) string {
		switch x := n.(type) {
		case ast.Expr:
			return types.ExprString(x)
		}
		return ""
	}
	ifs, ok := fd.Body.List[0].(*ast.IfStmt)
	if !ok || ifs.Init != nil || ifs.Else != nil || str(ifs.Cond) != source+" != nil" || len(ifs.Body.List) != 1 {
		return nil, false, "outer if"
	}
	in, ok := ifs.Body.List[0].(*ast.IfStmt)
	if !ok || in.Else != nil || in.Init == nil || len(in.Body.List) != 1 {
		return nil, false, "inner if"
	}
	as, ok := in.Init.(*ast.AssignStmt)
	if !ok || as.Tok != token.DEFINE || len(as.Lhs) != 2 || len(as.Rhs) != 1 ||
		str(as.Rhs[0]) != source+".Value("+key+").(int)" || str(in.Cond) != str(as.Lhs[1]) {
		return nil, false, "inner if init/cond"
	}
	ret, ok := in.Body.List[0].(*ast.ReturnStmt)
	if !ok || len(ret.Results) != 1 || str(ret.Results[0]) != "context.WithValue("+parent+", "+key+", "+str(as.Lhs[0])+")" {
		return nil, false, "inner return"
	}
	ret2, ok := fd.Body.List[1].(*ast.ReturnStmt)
	if !ok || len(ret2.Results) != 1 || str(ret2.Results[0]) != "WithContext("+parent+")" {
		return nil, false, "final return"
	}
	return []skelEv{{"source_cid", "ret_source_cid"}, {"no_source_cid", "call_WithContext"}}, true, ""
}

func init() {
	extraGens = append(extraGens, func(g *gen) {
		if pkgTag(g.p) != "logger" {
			return
		}
		g.pf("(* synchronisation skeletons (gen_skel.go) *)\n")
		seen := map[string]bool{}
		// WithContext first (it determines the context key), in whichever file it lives
		for _, fd := range g.funcDecls() {
			if fd.Recv == nil && fd.Name.Name == "WithContext" {
				evs, ok, why := g.loggerWithContext(fd)
				g.emitSkel("logger_WithContext_skel", evs, ok, why)
				seen[fd.Name.Name] = true
			}
		}
		for _, fd := range g.funcDecls() {
			if fd.Recv != nil {
				continue
			}
			switch fd.Name.Name {
			case "AliasContext":
				evs, ok, why := g.loggerAliasContext(fd)
				g.emitSkel("logger_AliasContext_skel", evs, ok, why)
				seen[fd.Name.Name] = true
			}
		}
		for _, n := range []string{"WithContext", "AliasContext"} {
			if !seen[n] {
				g.emitSkel("logger_"+n+"_skel", nil, false, "function not found")
			}
		}
		g.pf("\n")
	})
}

// ---------------------------------------------------------------------------------------------
// websocket (C15)
//
//	websocket_write_skel / websocket_WriteControl_skel: ordered events of (*Conn).write and
//	(*Conn).WriteControl:
//	    ("acquire","c.mu")          <-c.mu
//	    ("acquire_timeout","c.mu")  select { case <-c.mu: .. case <-timer.C: return err }
//	    ("test_err","writeErr")     err := c.writeErr; if err != nil { return err }
//	    ("read_err","writeErr")     c.writeErr read without the immediate return
//	    ("set_deadline","")         c.conn.SetWriteDeadline(..)
//	    ("write","fatal")           c.conn.Write(..) whose error returns c.writeFatal(err)
//	    ("write","nofatal")         c.conn.Write(..) otherwise
//	    ("latch_close","ErrCloseSent")  if <type> == CloseMessage { c.writeFatal(ErrCloseSent) }
//	    ("release","c.mu")          c.mu <- true; a release deferred AFTER the acquire is placed last (it
//	                                runs on every return path after the acquire)
//	    ("release_not_dominated_by_acquire","c.mu")  a release deferred BEFORE the acquire: it also runs
//	                                on the return paths that never obtained the lock (timeout); the
//	                                model does not know this event, so ws_safeb rejects the skeleton
//	websocket_writeFatal_skel:  [("set_if_nil","writeErr")] when the body is lock; if c.writeErr ==
//	    nil { c.writeErr = err }; unlock
//	websocket_prepWrite_skel:   events of prepWrite (contains ("test_err_ret","writeErr"): the sticky
//	    error is what prepWrite returns)
//	websocket_flushFrame_skel:  [("call","c.write")] -- the data path goes through (*Conn).write
//	websocket_reader_side_writes: (function, entry point) for every write the default ping/close handlers
//	    and the reader's own error replies issue -- they run on the reading goroutine
//	websocket_transport_write_sites: every `<x>.conn.Write(` / `netConn.Write(` in the package as
//	    (enclosing function, receiver-or-kind)
func wsMentions(n ast.Node, names ...string) bool {
	found := false
	ast.Inspect(n, func(x ast.Node) bool {
		if se, ok := x.(*ast.SelectorExpr); ok {
			for _, nm := range names {
				if wsCanon(se.Sel.Name) == nm {
					found = true
				}
			}
		}
		return !found
	})
	return found
}

// unexported Conn helpers inlined into the skeleton of an entry point (per run of the websocket generator)
var wsInlined = map[string]bool{}

var wsSensitive = []string{"mu", "conn", "writeErr", "writeFatal"}

// Role-based names for the websocket write path: the write lock (the chan-typed field of Conn), the
// sticky error (the error-typed field that follows its own sync.Mutex) and the function that latches
// it (`if c.<err> == nil { c.<err> = .. }`) are found by type / shape; expression texts are then read
// with those identifiers mapped to the canonical names mu / writeErr / writeErrMu / writeFatal, so
// the matchers below do not depend on what a refactoring calls them.
var wsCanonNames = map[string]string{}

func wsCanon(name string) string {
	if c, ok := wsCanonNames[name]; ok {
		return c
	}
	return name
}

func exprStr(e ast.Expr) string {
	if e == nil {
		return ""
	}
	s := types.ExprString(e)
	for from, to := range wsCanonNames {
		s = wsReplaceIdent(s, "c."+from, "c."+to)
	}
	return s
}

// replace occurrences of the dotted identifier `from` that are not part of a longer identifier
func wsReplaceIdent(s, from, to string) string {
	if from == to || !strings.Contains(s, from) {
		return s
	}
	var b strings.Builder
	for i := 0; i < len(s); {
		if strings.HasPrefix(s[i:], from) {
			j := i + len(from)
			prevOK := i == 0 || !(s[i-1] == '_' || s[i-1] == '.' || (s[i-1] >= '0' && s[i-1] <= '9') || (s[i-1] >= 'a' && s[i-1] <= 'z') || (s[i-1] >= 'A' && s[i-1] <= 'Z'))
			nextOK := j == len(s) || !(s[j] == '_' || (s[j] >= '0' && s[j] <= '9') || (s[j] >= 'a' && s[j] <= 'z') || (s[j] >= 'A' && s[j] <= 'Z'))
			if prevOK && nextOK {
				b.WriteString(to)
				i = j
				continue
			}
		}
		b.WriteByte(s[i])
		i++
	}
	return b.String()
}

func (g *gen) wsFindRoles() {
	wsCanonNames = map[string]string{}
	obj := g.p.Types.Scope().Lookup("Conn")
	if obj == nil {
		return
	}
	st, ok := obj.Type().Underlying().(*types.Struct)
	if !ok {
		return
	}
	errField := ""
	for i := 0; i < st.NumFields(); i++ {
		f := st.Field(i)
		if _, isChan := f.Type().Underlying().(*types.Chan); isChan {
			if _, taken := wsCanonNames[f.Name()]; !taken && f.Name() != "mu" {
				wsCanonNames[f.Name()] = "mu"
			}
		}
		if i > 0 && f.Type().String() == "error" && strings.HasSuffix(st.Field(i-1).Type().String(), "sync.Mutex") {
			errField = f.Name()
			if f.Name() != "writeErr" {
				wsCanonNames[f.Name()] = "writeErr"
			}
			if st.Field(i-1).Name() != "writeErrMu" {
				wsCanonNames[st.Field(i-1).Name()] = "writeErrMu"
			}
		}
	}
	if errField == "" {
		return
	}
	// the latch: a Conn method containing `if c.<err> == nil { c.<err> = .. }`
	for _, fd := range g.funcDecls() {
		if recvName(fd) != "Conn" || fd.Name.Name == "writeFatal" {
			continue
		}
		ast.Inspect(fd.Body, func(n ast.Node) bool {
			if ifs, ok := n.(*ast.IfStmt); ok && types.ExprString(ifs.Cond) == "c."+errField+" == nil" && len(ifs.Body.List) == 1 {
				if as, ok := ifs.Body.List[0].(*ast.AssignStmt); ok && len(as.Lhs) == 1 && types.ExprString(as.Lhs[0]) == "c."+errField {
					wsCanonNames[fd.Name.Name] = "writeFatal"
				}
			}
			return true
		})
	}
}

func isRecvMu(e ast.Expr) bool {
	ue, ok := e.(*ast.UnaryExpr)
	return ok && ue.Op == token.ARROW && exprStr(ue.X) == "c.mu"
}

func isSendMu(s ast.Stmt) bool {
	ss, ok := s.(*ast.SendStmt)
	return ok && exprStr(ss.Chan) == "c.mu"
}

type wsWalker struct {
	g        *gen
	depth    int
	inlined  map[string]bool // unexported Conn helpers whose body was inlined
	evs      []skelEv
	deferred []skelEv
	errVar   string // variable that holds the value read from c.writeErr, pending its test
	earlyDefer bool // a release was deferred before the acquire
	bad      string
}

func (w *wsWalker) ev(k, a string) { w.evs = append(w.evs, skelEv{k, a}) }

// c.m(..) where m is an unexported method of Conn declared in this package
func (w *wsWalker) connHelper(e ast.Expr) (*ast.FuncDecl, *ast.CallExpr) {
	ce, ok := e.(*ast.CallExpr)
	if !ok {
		return nil, nil
	}
	sel, ok := ce.Fun.(*ast.SelectorExpr)
	if !ok || exprStr(sel.X) != "c" || ast.IsExported(sel.Sel.Name) {
		return nil, nil
	}
	switch wsCanon(sel.Sel.Name) {
	case "write", "writeFatal", "prepWrite":
		return nil, nil // entry points / known primitives, not helpers
	}
	return w.g.methodDecl("Conn", sel.Sel.Name), ce
}

// a helper that only returns the sticky error: [lock;] x := c.writeErr [;unlock]; return x  (or return c.writeErr)
func (w *wsWalker) isStickyRead(e ast.Expr) bool {
	md, ce := w.connHelper(e)
	if md == nil || len(ce.Args) != 0 {
		return false
	}
	v := ""
	for _, st := range md.Body.List {
		switch s := st.(type) {
		case *ast.ExprStmt:
			if x := exprStr(s.X); x != "c.writeErrMu.Lock()" && x != "c.writeErrMu.Unlock()" {
				return false
			}
		case *ast.DeferStmt:
			if exprStr(s.Call) != "c.writeErrMu.Unlock()" {
				return false
			}
		case *ast.AssignStmt:
			if len(s.Lhs) != 1 || len(s.Rhs) != 1 || exprStr(s.Rhs[0]) != "c.writeErr" {
				return false
			}
			v = exprStr(s.Lhs[0])
		case *ast.ReturnStmt:
			if len(s.Results) != 1 {
				return false
			}
			r := exprStr(s.Results[0])
			return (v != "" && r == v) || r == "c.writeErr"
		default:
			return false
		}
	}
	return false
}

// inline an unexported Conn helper that touches the lock / the transport / the sticky error
func (w *wsWalker) tryInline(e ast.Expr) bool {
	md, _ := w.connHelper(e)
	if md == nil || w.depth >= 2 || !wsMentions(md.Body, wsSensitive...) {
		return false
	}
	w.depth++
	w.stmts(md.Body.List)
	w.depth--
	w.inlined[md.Name.Name] = true
	return true
}

func (w *wsWalker) isReturnOf(body *ast.BlockStmt, want string) bool {
	if len(body.List) != 1 {
		return false
	}
	rs, ok := body.List[0].(*ast.ReturnStmt)
	if !ok || len(rs.Results) == 0 {
		return false
	}
	return exprStr(rs.Results[len(rs.Results)-1]) == want
}

func (w *wsWalker) stmts(list []ast.Stmt) {
	for i := 0; i < len(list) && w.bad == ""; i++ {
		st := list[i]
		// pending read of writeErr: the very next statement decides what it was (mutex unlock may intervene)
		switch s := st.(type) {
		case *ast.ExprStmt:
			if isRecvMu(s.X) {
				w.ev("acquire", "c.mu")
				continue
			}
			str := exprStr(s.X)
			switch {
			case str == "c.writeErrMu.Lock()" || str == "c.writeErrMu.Unlock()":
				continue
			case strings.HasPrefix(str, "c.conn.SetWriteDeadline("):
				w.ev("set_deadline", "")
				continue
			case strings.HasPrefix(str, "c.conn.Write("):
				w.ev("write", "nofatal")
				continue
			}
			if w.tryInline(s.X) {
				continue
			}
			if wsMentions(st, wsSensitive...) {
				w.bad = "statement touching the lock/transport/sticky error: " + str
			}
		case *ast.SelectStmt:
			acq, tmo := false, false
			for _, cc := range s.Body.List {
				c := cc.(*ast.CommClause)
				if es, ok := c.Comm.(*ast.ExprStmt); ok && isRecvMu(es.X) {
					acq = true
					if wsMentions(&ast.BlockStmt{List: c.Body}, "mu", "conn", "writeErr", "writeFatal") {
						w.bad = "select: lock branch touches shared state"
					}
				} else if es, ok := c.Comm.(*ast.ExprStmt); ok && strings.HasPrefix(exprStr(es.X), "<-timer.") {
					if len(c.Body) == 1 {
						if _, ok := c.Body[0].(*ast.ReturnStmt); ok {
							tmo = true
						}
					}
				}
			}
			if acq && tmo && len(s.Body.List) == 2 {
				w.ev("acquire_timeout", "c.mu")
			} else {
				w.bad = "select statement of unrecognised shape"
			}
		case *ast.DeferStmt:
			isRelease := false
			if fl, ok := s.Call.Fun.(*ast.FuncLit); ok && len(fl.Body.List) == 1 && isSendMu(fl.Body.List[0]) {
				isRelease = true
			} else if md, ce := w.connHelper(s.Call); md != nil && len(ce.Args) == 0 && len(md.Body.List) == 1 && isSendMu(md.Body.List[0]) {
				isRelease = true // defer c.unlock(): a helper whose whole body is the send on the lock channel
				w.inlined[md.Name.Name] = true
			}
			if isRelease {
				acquired := false
				for _, e := range w.evs {
					if e.kind == "acquire" || e.kind == "acquire_timeout" {
						acquired = true
					}
				}
				if !acquired {
					// registered before the (conditional) acquire: it runs on EVERY return path, also on
					// the timeout / early-error returns that never obtained the lock -> a token is pushed
					// into the 1-slot channel without having been taken.  Not dominated by its acquire.
					w.ev("release_not_dominated_by_acquire", "c.mu")
					w.earlyDefer = true // it does run on every later return path
					continue
				}
				w.deferred = append([]skelEv{{"release", "c.mu"}}, w.deferred...)
			} else if wsMentions(st, wsSensitive...) {
				w.bad = "defer touching shared state"
			}
		case *ast.SendStmt:
			if isSendMu(s) {
				w.ev("release", "c.mu")
			} else if wsMentions(st, wsSensitive...) {
				w.bad = "send touching shared state"
			}
		case *ast.AssignStmt:
			if len(s.Rhs) == 1 && (exprStr(s.Rhs[0]) == "c.writeErr" || w.isStickyRead(s.Rhs[0])) && len(s.Lhs) == 1 {
				w.errVar = exprStr(s.Lhs[0])
				// look ahead: [c.writeErrMu.Unlock()] if errVar != nil { return errVar }
				j := i + 1
				if j < len(list) {
					if es, ok := list[j].(*ast.ExprStmt); ok && exprStr(es.X) == "c.writeErrMu.Unlock()" {
						j++
					}
				}
				if j < len(list) {
					if ifs, ok := list[j].(*ast.IfStmt); ok && ifs.Init == nil && ifs.Else == nil &&
						exprStr(ifs.Cond) == w.errVar+" != nil" && w.isReturnOf(ifs.Body, w.errVar) {
						w.ev("test_err", "writeErr")
						i = j
						continue
					}
				}
				if j < len(list) {
					if rs, ok := list[j].(*ast.ReturnStmt); ok && len(rs.Results) == 1 && exprStr(rs.Results[0]) == w.errVar {
						w.ev("test_err_ret", "writeErr")
						i = j
						continue
					}
				}
				w.ev("read_err", "writeErr")
				continue
			}
			if len(s.Rhs) == 1 && strings.HasPrefix(exprStr(s.Rhs[0]), "c.conn.Write(") {
				errName := exprStr(s.Lhs[len(s.Lhs)-1])
				kind := "nofatal"
				if i+1 < len(list) {
					if ifs, ok := list[i+1].(*ast.IfStmt); ok && ifs.Init == nil && ifs.Else == nil &&
						exprStr(ifs.Cond) == errName+" != nil" && w.isReturnOf(ifs.Body, "c.writeFatal("+errName+")") {
						kind = "fatal"
						i++
					}
				}
				w.ev("write", kind)
				continue
			}
			if wsMentions(st, wsSensitive...) {
				w.bad = "assignment touching shared state: " + exprStr(s.Rhs[0])
			}
		case *ast.IfStmt:
			cond := exprStr(s.Cond)
			if as, ok := s.Init.(*ast.AssignStmt); ok && s.Else == nil && len(as.Rhs) == 1 {
				errName := exprStr(as.Lhs[len(as.Lhs)-1])
				// if err := c.stickyErr(); err != nil { return err }       (or inline c.writeErr)
				if (w.isStickyRead(as.Rhs[0]) || exprStr(as.Rhs[0]) == "c.writeErr") && len(as.Lhs) == 1 &&
					cond == errName+" != nil" && w.isReturnOf(s.Body, errName) {
					w.ev("test_err", "writeErr")
					continue
				}
				// if err := c.lockUntil(deadline); err != nil { return err }: a helper whose only effect on the
				// shared state is the (deadline-bounded) acquire, returning an error iff it did not acquire
				if md, _ := w.connHelper(as.Rhs[0]); md != nil && !w.isStickyRead(as.Rhs[0]) && len(as.Lhs) == 1 &&
					cond == errName+" != nil" && w.isReturnOf(s.Body, errName) && w.depth < 2 {
					sub := &wsWalker{g: w.g, depth: w.depth + 1, inlined: w.inlined}
					sub.stmts(md.Body.List)
					if sub.bad == "" && len(sub.deferred) == 0 && len(sub.evs) == 1 &&
						(sub.evs[0].kind == "acquire_timeout" || sub.evs[0].kind == "acquire") {
						w.evs = append(w.evs, sub.evs[0])
						w.inlined[md.Name.Name] = true
						continue
					}
				}
				// if _, err := c.conn.Write(buf); err != nil { return c.writeFatal(err) }
				if strings.HasPrefix(exprStr(as.Rhs[0]), "c.conn.Write(") && cond == errName+" != nil" {
					if w.isReturnOf(s.Body, "c.writeFatal("+errName+")") {
						w.ev("write", "fatal")
					} else {
						w.ev("write", "nofatal")
					}
					continue
				}
			}
			if s.Init == nil && s.Else == nil && strings.HasSuffix(cond, " == CloseMessage") && len(s.Body.List) == 1 {
				if es, ok := s.Body.List[0].(*ast.ExprStmt); ok && exprStr(es.X) == "c.writeFatal(ErrCloseSent)" {
					w.ev("latch_close", "ErrCloseSent")
					continue
				}
			}
			if s.Init == nil && s.Else == nil && strings.HasPrefix(cond, "len(") && !wsMentions(s.Cond, wsSensitive...) {
				w.stmts(s.Body.List) // `if len(buf) > 0 { write }`
				continue
			}
			if wsMentions(st, wsSensitive...) {
				w.bad = "if statement touching shared state: " + cond
			}
		case *ast.ForStmt:
			w.stmts(s.Body.List)
		case *ast.RangeStmt:
			w.stmts(s.Body.List)
		case *ast.ReturnStmt:
			held := 0
			for _, e := range w.evs {
				if e.kind == "acquire" || e.kind == "acquire_timeout" {
					held++
				} else if e.kind == "release" {
					held--
				}
			}
			if held > 0 && len(w.deferred) == 0 && !w.earlyDefer {
				w.bad = "return while holding the lock without a deferred release"
			}
			if len(s.Results) == 1 {
				if w.isStickyRead(s.Results[0]) {
					w.ev("test_err_ret", "writeErr")
					continue
				}
				if w.tryInline(s.Results[0]) {
					continue
				}
			}
			if wsMentions(st, "mu", "conn", "writeFatal") {
				w.bad = "return expression touching shared state"
			}
		default:
			if wsMentions(st, wsSensitive...) {
				w.bad = fmt.Sprintf("statement %T touching shared state", st)
			}
		}
	}
}

func (g *gen) wsFuncSkel(name string, fd *ast.FuncDecl) {
	w := &wsWalker{g: g, inlined: wsInlined}
	w.stmts(fd.Body.List)
	evs := append(w.evs, w.deferred...)
	g.emitSkel(name, evs, w.bad == "", w.bad)
}

func init() {
	extraGens = append(extraGens, func(g *gen) {
		if pkgTag(g.p) != "websocket" {
			return
		}
		g.pf("(* synchronisation skeletons (gen_skel.go) *)\n")
		g.wsFindRoles()
		defer func() { wsCanonNames = map[string]string{} }()
		seen := map[string]bool{}
		var sites []skelEv
		var handlerCalls []skelEv // (function that runs on the reading goroutine, write entry point it calls)
		for _, fd := range g.funcDecls() {
			rn := recvName(fd)
			full := fd.Name.Name
			if rn != "" {
				full = rn + "." + fd.Name.Name
				if rn == "Conn" {
					full = rn + "." + wsCanon(fd.Name.Name)
				}
			}
			// every transport write call site
			ast.Inspect(fd.Body, func(n ast.Node) bool {
				ce, ok := n.(*ast.CallExpr)
				if !ok {
					return true
				}
				s := exprStr(ce.Fun)
				if strings.HasSuffix(s, ".conn.Write") || s == "netConn.Write" || strings.HasSuffix(s, ".conn.WriteTo") ||
					(strings.HasSuffix(s, ".WriteTo") && len(ce.Args) == 1 && strings.HasSuffix(exprStr(ce.Args[0]), ".conn")) {
					sites = append(sites, skelEv{full, s})
				}
				return true
			})
			switch full {
			case "Conn.write":
				g.wsFuncSkel("websocket_write_skel", fd)
				seen[full] = true
			case "Conn.WriteControl":
				g.wsFuncSkel("websocket_WriteControl_skel", fd)
				seen[full] = true
			case "Conn.prepWrite":
				g.wsFuncSkel("websocket_prepWrite_skel", fd)
				seen[full] = true
			case "Conn.writeFatal":
				ok := false
				for _, st := range fd.Body.List {
					if ifs, isIf := st.(*ast.IfStmt); isIf && ifs.Init == nil && ifs.Else == nil &&
						exprStr(ifs.Cond) == "c.writeErr == nil" && len(ifs.Body.List) == 1 {
						if as, isAs := ifs.Body.List[0].(*ast.AssignStmt); isAs && as.Tok == token.ASSIGN &&
							len(as.Lhs) == 1 && exprStr(as.Lhs[0]) == "c.writeErr" {
							ok = true
						}
					} else if as, isAs := st.(*ast.AssignStmt); isAs && len(as.Lhs) == 1 && exprStr(as.Lhs[0]) == "c.writeErr" {
						ok = false
						break
					}
				}
				g.emitSkel("websocket_writeFatal_skel", []skelEv{{"set_if_nil", "writeErr"}}, ok, "writeFatal does not keep the first error")
				seen[full] = true
			case "Conn.SetPingHandler", "Conn.SetCloseHandler", "Conn.SetPongHandler", "Conn.handleProtocolError", "Conn.advanceFrame":
				// which write entry point do the default handlers / the reader's own replies use?  They run
				// on the READING goroutine, so only the control path (WriteControl) is allowed: the
				// message-writer path (WriteMessage / NextWriter / WritePreparedMessage) is single-writer.
				ast.Inspect(fd.Body, func(n ast.Node) bool {
					if ce, ok := n.(*ast.CallExpr); ok {
						switch exprStr(ce.Fun) {
						case "c.WriteControl", "c.WriteMessage", "c.NextWriter", "c.WritePreparedMessage", "c.write", "c.WriteJSON":
							handlerCalls = append(handlerCalls, skelEv{full, strings.TrimPrefix(exprStr(ce.Fun), "c.")})
						}
					}
					return true
				})
			case "messageWriter.flushFrame":
				calls := 0
				ast.Inspect(fd.Body, func(n ast.Node) bool {
					if ce, ok := n.(*ast.CallExpr); ok && exprStr(ce.Fun) == "c.write" {
						calls++
					}
					return true
				})
				g.emitSkel("websocket_flushFrame_skel", []skelEv{{"call", "c.write"}}, calls == 1, "flushFrame does not call c.write exactly once")
				seen[full] = true
			}
		}
		for _, n := range []string{"Conn.write", "Conn.WriteControl", "Conn.prepWrite", "Conn.writeFatal", "messageWriter.flushFrame"} {
			if !seen[n] {
				g.emitSkel("websocket_"+strings.Replace(strings.TrimPrefix(n, "Conn."), "messageWriter.", "", 1)+"_skel", nil, false, "function not found")
			}
		}
		{
			var out []skelEv
			for _, st := range sites {
				helper := strings.TrimPrefix(st.kind, "Conn.")
				if st.kind == "Conn."+helper && wsInlined[helper] {
					// every call site of the helper in the package
					callers := map[string]bool{}
					for _, fd := range g.funcDecls() {
						rn := recvName(fd)
						full := fd.Name.Name
						if rn != "" {
							full = rn + "." + fd.Name.Name
						}
						ast.Inspect(fd.Body, func(n ast.Node) bool {
							if ce, ok := n.(*ast.CallExpr); ok && exprStr(ce.Fun) == "c."+helper {
								callers[full] = true
							}
							return true
						})
					}
					names := make([]string, 0, len(callers))
					for c := range callers {
						names = append(names, c)
					}
					sort.Strings(names)
					for _, c := range names {
						out = append(out, skelEv{c, st.arg})
					}
					continue
				}
				out = append(out, st)
			}
			sites = out
		}
		g.emitSkel("websocket_reader_side_writes", handlerCalls, true, "")
		g.emitSkel("websocket_transport_write_sites", sites, true, "")
		g.pf("\n")
	})
}

// ---------------------------------------------------------------------------------------------
// rtmp (C04)
//
//	rtmp_WritePacket_skel       order of the calls in (*Protocol).WritePacket:
//	    ("marshal","MarshalBinary") ("register","onPacketWriten") ("write","WriteMessage")
//	    ("unregister_on_fail","onPacketWriteFailed")  -- the last one only when it is inside the
//	    `if err = v.WriteMessage(m); err != nil { .. }` block
//	rtmp_onPacketWriten_kinds, rtmp_onPacketWriteFailed_kinds   which packets registration / roll-back apply
//	    to: ("kinds_from", <function that yields (tid, name)>) and ("guard", <condition>);
//	rtmp_requestTransaction_kinds  the packet types with a transaction (cases of its type switch)
//	rtmp_WriteMessage_skel      writes of the message into the buffered writer and the flush, in order:
//	    ("chunk_write","v.w") per io.Copy(v.w, ..)/v.w.Write call site, ("flush","v.w"),
//	    ("written_hook",..); a registration call in here shows as ("register",..).  bufio.Writer
//	    hands data to the transport whenever its buffer fills and passes large writes straight
//	    through, so the request can be complete at the peer BEFORE Flush: the discipline is
//	    "registered before the first chunk_write", not "before flush".
//	rtmp_onPacketWriten_skel, rtmp_onPacketWriteFailed_skel, rtmp_parseAMFObject_tx_skel
//	    accesses to v.input.transactions and operations on v.input.ltransactions in program
//	    order: ("lock",..) ("unlock",..) ("map_store",..) ("map_load",..) ("map_delete",..);
//	    a deferred Unlock is placed at the end of the function (literal) that defers it.
// the transaction table and its lock are found by TYPE and role, not by name: inside Protocol (or one
// of its anonymous struct fields) the map field and the sync.Mutex field next to it
type txNames struct{ tabSel, lockSel, tabField, lockField string }

func (g *gen) txFind() (n txNames) {
	obj := g.p.Types.Scope().Lookup("Protocol")
	if obj == nil {
		return
	}
	st, ok := obj.Type().Underlying().(*types.Struct)
	if !ok {
		return
	}
	look := func(prefix string, s *types.Struct) bool {
		tab, lock := "", ""
		for i := 0; i < s.NumFields(); i++ {
			f := s.Field(i)
			if _, isMap := f.Type().Underlying().(*types.Map); isMap && tab == "" {
				tab = f.Name()
			}
			if strings.HasSuffix(f.Type().String(), "sync.Mutex") && lock == "" {
				lock = f.Name()
			}
		}
		if tab != "" && lock != "" {
			n = txNames{prefix + tab, prefix + lock, tab, lock}
			return true
		}
		return false
	}
	for i := 0; i < st.NumFields(); i++ {
		if inner, ok := st.Field(i).Type().Underlying().(*types.Struct); ok && look("v."+st.Field(i).Name()+".", inner) {
			// prefer the struct that also holds the chunk map? the first struct with a map AND a mutex is it
			if _, isMapOfString := inner.Field(0).Type().Underlying().(*types.Map); isMapOfString || true {
				// the table is the map whose lock sits beside it; a struct with several maps: take the
				// map declared right before the mutex
				for k := 1; k < inner.NumFields(); k++ {
					if strings.HasSuffix(inner.Field(k).Type().String(), "sync.Mutex") {
						if _, isMap := inner.Field(k-1).Type().Underlying().(*types.Map); isMap {
							p := "v." + st.Field(i).Name() + "."
							n = txNames{p + inner.Field(k-1).Name(), p + inner.Field(k).Name(), inner.Field(k-1).Name(), inner.Field(k).Name()}
						}
					}
				}
			}
			return
		}
	}
	look("v.", st)
	return
}

func (g *gen) methodDecl(recv, name string) *ast.FuncDecl {
	for _, fd := range g.funcDecls() {
		if recvName(fd) == recv && fd.Name.Name == name {
			return fd
		}
	}
	return nil
}

type txWalk struct {
	g       *gen
	n       txNames
	inlined map[string]bool // unexported Protocol helpers whose accesses were inlined into a caller's skeleton
	env     map[string]bool // bool parameters bound to a constant argument at the call site being inlined
}

func (w *txWalk) scope(body *ast.BlockStmt, depth int) []skelEv {
	g := w.g
	var evs, deferred []skelEv
	handled := map[ast.Node]bool{}
	isTab := func(e ast.Expr) bool { return exprStr(e) == w.n.tabSel }
	ast.Inspect(body, func(n ast.Node) bool {
		switch x := n.(type) {
		case *ast.FuncLit:
			evs = append(evs, w.scope(x.Body, depth)...)
			return false
		case *ast.IfStmt:
			// a branch on a bool parameter that is a constant at this call site: only the taken branch
			if val, ok := w.constCond(x.Cond); ok && x.Init == nil {
				if val {
					evs = append(evs, w.scope(x.Body, depth)...)
				} else if eb, ok := x.Else.(*ast.BlockStmt); ok {
					evs = append(evs, w.scope(eb, depth)...)
				} else if x.Else != nil {
					evs = append(evs, w.scope(&ast.BlockStmt{List: []ast.Stmt{x.Else}}, depth)...)
				}
				return false
			}
		case *ast.DeferStmt:
			if exprStr(x.Call.Fun) == w.n.lockSel+".Unlock" {
				deferred = append([]skelEv{{"unlock", "table lock"}}, deferred...)
				return false
			}
		case *ast.CallExpr:
			switch exprStr(x.Fun) {
			case w.n.lockSel + ".Lock":
				evs = append(evs, skelEv{"lock", "table lock"})
			case w.n.lockSel + ".Unlock":
				evs = append(evs, skelEv{"unlock", "table lock"})
			case "delete":
				if len(x.Args) == 2 && isTab(x.Args[0]) {
					evs = append(evs, skelEv{"map_delete", "table"})
					handled[x.Args[0]] = true
				}
			default:
				// an unexported helper method of Protocol that touches the table: its accesses happen
				// here (a `defer unlock` inside it covers its own body)
				if sel, ok := x.Fun.(*ast.SelectorExpr); ok && exprStr(sel.X) == "v" && depth < 2 && !ast.IsExported(sel.Sel.Name) {
					if md := g.methodDecl("Protocol", sel.Sel.Name); md != nil && wsMentions(md.Body, w.n.tabField, w.n.lockField) {
						// arguments are evaluated before the call
						for _, a := range x.Args {
							ast.Inspect(a, func(m ast.Node) bool {
								if ie, ok := m.(*ast.IndexExpr); ok && isTab(ie.X) {
									evs = append(evs, skelEv{"map_load", "table"})
									handled[ie] = true
								}
								return true
							})
						}
						saved := w.env
						w.env = w.bindBools(md, x)
						evs = append(evs, w.scope(md.Body, depth+1)...)
						w.env = saved
						w.inlined[sel.Sel.Name] = true
					}
				}
			}
		case *ast.AssignStmt:
			for _, l := range x.Lhs {
				if ie, ok := l.(*ast.IndexExpr); ok && isTab(ie.X) {
					// the right-hand sides are evaluated first
					for _, r := range x.Rhs {
						ast.Inspect(r, func(m ast.Node) bool {
							if ie2, ok := m.(*ast.IndexExpr); ok && isTab(ie2.X) {
								evs = append(evs, skelEv{"map_load", "table"})
								handled[ie2] = true
							}
							return true
						})
					}
					evs = append(evs, skelEv{"map_store", "table"})
					handled[ie] = true
				}
			}
			// replacing the whole table is an access too
			for _, l := range x.Lhs {
				if isTab(l) {
					evs = append(evs, skelEv{"map_replace", "table"})
				}
			}
		case *ast.IndexExpr:
			if isTab(x.X) && !handled[x] {
				evs = append(evs, skelEv{"map_load", "table"})
				handled[x] = true
			}
		case *ast.RangeStmt:
			if isTab(x.X) {
				evs = append(evs, skelEv{"map_range", "table"})
			}
		}
		return true
	})
	return append(evs, deferred...)
}

func (w *txWalk) constCond(c ast.Expr) (bool, bool) {
	neg := false
	if ue, ok := c.(*ast.UnaryExpr); ok && ue.Op == token.NOT {
		neg, c = true, ue.X
	}
	if id, ok := c.(*ast.Ident); ok {
		if v, ok := w.env[id.Name]; ok {
			return v != neg, true
		}
	}
	return false, false
}

// bool parameters of md that receive the constant true/false in call ce
func (w *txWalk) bindBools(md *ast.FuncDecl, ce *ast.CallExpr) map[string]bool {
	env := map[string]bool{}
	i := 0
	for _, p := range md.Type.Params.List {
		for _, nm := range p.Names {
			if i < len(ce.Args) && exprStr(p.Type) == "bool" {
				switch exprStr(ce.Args[i]) {
				case "true":
					env[nm.Name] = true
				case "false":
					env[nm.Name] = false
				}
			}
			i++
		}
	}
	return env
}

// v.m(..) with m an unexported Protocol method that touches the table: its role by what it does there
// (a store = registration, only deletes = roll-back), its accesses, its declaration and bindings
func (w *txWalk) callRole(ce *ast.CallExpr) (role string, evs []skelEv, md *ast.FuncDecl, env map[string]bool) {
	sel, ok := ce.Fun.(*ast.SelectorExpr)
	if !ok || exprStr(sel.X) != "v" || ast.IsExported(sel.Sel.Name) {
		return
	}
	md = w.g.methodDecl("Protocol", sel.Sel.Name)
	if md == nil {
		return "", nil, nil, nil
	}
	env = w.bindBools(md, ce)
	saved := w.env
	w.env = env
	evs = w.scope(md.Body, 1)
	w.env = saved
	store, del, load := false, false, false
	for _, e := range evs {
		switch e.kind {
		case "map_store", "map_replace":
			store = true
		case "map_delete":
			del = true
		case "map_load", "map_range":
			load = true
		}
	}
	switch {
	case store:
		role = "register"
	case del && !load:
		role = "unregister"
	}
	if role != "" {
		w.inlined[sel.Sel.Name] = true
	}
	return
}

// WHICH packets a registration / roll-back method applies to: where (tid, name) come from, under which guard
func (w *txWalk) kinds(md *ast.FuncDecl, env map[string]bool) (ordered []skelEv, kindsFn string) {
	g := w.g
	saved := w.env
	w.env = env
	defer func() { w.env = saved }()
	var src []skelEv
	okVar := ""
	ast.Inspect(md.Body, func(n ast.Node) bool {
		switch x := n.(type) {
		case *ast.AssignStmt:
			if len(x.Lhs) >= 2 && len(x.Rhs) == 1 {
				if ce, ok := x.Rhs[0].(*ast.CallExpr); ok {
					name := exprStr(ce.Fun)
					// a plain function of this package with a type switch over the packet: the role
					// "requestTransaction", whatever it is called
					for _, fd := range g.funcDecls() {
						if fd.Recv == nil && fd.Name.Name == name {
							hasSwitch := false
							ast.Inspect(fd.Body, func(m ast.Node) bool {
								if _, ok := m.(*ast.TypeSwitchStmt); ok {
									hasSwitch = true
								}
								return true
							})
							if hasSwitch {
								kindsFn = name
								name = "requestTransaction"
							}
						}
					}
					src = append(src, skelEv{"kinds_from", name})
					if len(x.Lhs) == 3 {
						okVar = exprStr(x.Lhs[2])
					}
				}
			}
		case *ast.IfStmt:
			if _, isConst := w.constCond(x.Cond); isConst {
				return true
			}
			if okVar != "" && exprStr(x.Cond) == "!"+okVar && len(x.Body.List) == 1 {
				if _, isRet := x.Body.List[0].(*ast.ReturnStmt); isRet && kindsFn != "" {
					// early return unless ok: the guard is what the kinds function assigns to its bool result
					for _, fd := range g.funcDecls() {
						if fd.Recv == nil && fd.Name.Name == kindsFn && fd.Type.Results != nil && len(fd.Type.Results.List) > 0 {
							res := fd.Type.Results.List[len(fd.Type.Results.List)-1]
							if len(res.Names) > 0 {
								rn := res.Names[len(res.Names)-1].Name
								ast.Inspect(fd.Body, func(m ast.Node) bool {
									if as, ok := m.(*ast.AssignStmt); ok && len(as.Lhs) == 1 && exprStr(as.Lhs[0]) == rn && len(as.Rhs) == 1 {
										src = append(src, skelEv{"guard", exprStr(as.Rhs[0])})
									}
									return true
								})
							}
						}
					}
					return true
				}
			}
			if len(w.scope(x.Body, 1)) > 0 {
				src = append(src, skelEv{"guard", g.guardText(x.Cond)})
			}
		case *ast.TypeSwitchStmt:
			src = append(src, skelEv{"kinds_from", "type switch in " + md.Name.Name})
		}
		return true
	})
	for _, e := range src {
		if e.kind == "kinds_from" {
			ordered = append(ordered, e)
		}
	}
	for _, e := range src {
		if e.kind != "kinds_from" {
			ordered = append(ordered, e)
		}
	}
	return
}

// the guard under which a function touches the table; a call to a one-line predicate of this package
// with the same argument names is replaced by its body
func (g *gen) guardText(cond ast.Expr) string {
	if ce, ok := cond.(*ast.CallExpr); ok {
		if id, ok := ce.Fun.(*ast.Ident); ok {
			for _, fd := range g.funcDecls() {
				if fd.Recv != nil || fd.Name.Name != id.Name || len(fd.Body.List) != 1 {
					continue
				}
				rs, ok := fd.Body.List[0].(*ast.ReturnStmt)
				if !ok || len(rs.Results) != 1 {
					continue
				}
				var params []string
				for _, p := range fd.Type.Params.List {
					for _, nm := range p.Names {
						params = append(params, nm.Name)
					}
				}
				same := len(params) == len(ce.Args)
				for i := 0; same && i < len(params); i++ {
					same = exprStr(ce.Args[i]) == params[i]
				}
				if same {
					return exprStr(rs.Results[0])
				}
			}
		}
	}
	return exprStr(cond)
}

func init() {
	extraGens = append(extraGens, func(g *gen) {
		if pkgTag(g.p) != "rtmp" {
			return
		}
		g.pf("(* synchronisation skeletons (gen_skel.go) *)\n")
		seen := map[string]bool{}
		tw := &txWalk{g: g, n: g.txFind(), inlined: map[string]bool{}}
		if tw.n.tabSel == "" {
			g.pf("(* the transaction table and its lock were not found in Protocol *)\nDefinition rtmp_transactions_unsupported := tt.\n")
			return
		}
		var others []skelEv // any other function touching the table
		var pendingOthers []string // Protocol methods touching the table: reported unless inlined into a skeleton
		plainFns := map[string]*ast.FuncDecl{}
		kindsFn := "" // the function that yields (tid, name) of a packet (role: requestTransaction)
		for _, fd := range g.funcDecls() {
			if recvName(fd) != "Protocol" {
				if fd.Body != nil && wsMentions(fd.Body, tw.n.tabField) {
					others = append(others, skelEv{fd.Name.Name, "touches transactions"})
				}
				if fd.Recv == nil {
					plainFns[fd.Name.Name] = fd
				}
				if false {
					// the packet kinds that carry a transaction: the cases of the type switch
					var kinds []skelEv
					ast.Inspect(fd.Body, func(n ast.Node) bool {
						if cc, ok := n.(*ast.CaseClause); ok {
							for _, e := range cc.List {
								kinds = append(kinds, skelEv{"case", strings.TrimPrefix(exprStr(e), "*")})
							}
							if cc.List == nil {
								kinds = append(kinds, skelEv{"case", "default"})
							}
						}
						return true
					})
					g.emitSkel("rtmp_requestTransaction_kinds", kinds, true, "")
					seen["requestTransaction"] = true
				}
				continue
			}
			switch fd.Name.Name {
			case "WritePacket":
				var evs []skelEv
				var failBlocks []*ast.BlockStmt
				ast.Inspect(fd.Body, func(n ast.Node) bool {
					if ifs, ok := n.(*ast.IfStmt); ok && ifs.Init != nil && exprStr(ifs.Cond) == "err != nil" {
						if as, ok := ifs.Init.(*ast.AssignStmt); ok && len(as.Rhs) == 1 && strings.HasPrefix(exprStr(as.Rhs[0]), "v.WriteMessage(") {
							failBlocks = append(failBlocks, ifs.Body)
						}
					}
					return true
				})
				inFail := func(n ast.Node) bool {
					for _, b := range failBlocks {
						if n.Pos() >= b.Pos() && n.End() <= b.End() {
							return true
						}
					}
					return false
				}
				ast.Inspect(fd.Body, func(n ast.Node) bool {
					ce, ok := n.(*ast.CallExpr)
					if !ok {
						return true
					}
					switch exprStr(ce.Fun) {
					case "pkt.MarshalBinary":
						evs = append(evs, skelEv{"marshal", "MarshalBinary"})
					case "v.WriteMessage":
						evs = append(evs, skelEv{"write", "WriteMessage"})
					case "io.Copy", "v.w.Write", "v.w.WriteString", "v.w.ReadFrom", "v.w.WriteByte":
						if exprStr(ce.Fun) != "io.Copy" || (len(ce.Args) > 0 && exprStr(ce.Args[0]) == "v.w") {
							evs = append(evs, skelEv{"chunk_write", "v.w"})
						}
					case "v.w.Flush":
						evs = append(evs, skelEv{"flush", "v.w"})
					default:
						// registration / roll-back are recognised by ROLE: an unexported method that stores
						// into the table, resp. only deletes from it (names and files do not matter)
						switch role, cev, md, env := tw.callRole(ce); role {
						case "register":
							evs = append(evs, skelEv{"register", "onPacketWriten"})
							if !seen["onPacketWriten"] {
								g.emitSkel("rtmp_onPacketWriten_skel", cev, true, "")
								kk, kf := tw.kinds(md, env)
								g.emitSkel("rtmp_onPacketWriten_kinds", kk, true, "")
								seen["onPacketWriten"] = true
								if kf != "" {
									kindsFn = kf
								}
							}
						case "unregister":
							if inFail(ce) {
								evs = append(evs, skelEv{"unregister_on_fail", "onPacketWriteFailed"})
							} else {
								evs = append(evs, skelEv{"unregister", "onPacketWriteFailed"})
							}
							if !seen["onPacketWriteFailed"] {
								g.emitSkel("rtmp_onPacketWriteFailed_skel", cev, true, "")
								kk, kf := tw.kinds(md, env)
								g.emitSkel("rtmp_onPacketWriteFailed_kinds", kk, true, "")
								seen["onPacketWriteFailed"] = true
								if kf != "" {
									kindsFn = kf
								}
							}
						}
					}
					return true
				})
				if wsMentions(fd.Body, tw.n.tabField, tw.n.lockField) {
					evs = append(evs, skelEv{"direct_table_access", "WritePacket"})
				}
				g.emitSkel("rtmp_WritePacket_skel", evs, true, "")
				seen["WritePacket"] = true
			case "WriteMessage":
				// every write into the buffered writer can reach the transport (bufio passes large
				// writes through and flushes when full), so each is an event of its own
				var evs []skelEv
				ast.Inspect(fd.Body, func(n ast.Node) bool {
					ce, ok := n.(*ast.CallExpr)
					if !ok {
						return true
					}
					f := exprStr(ce.Fun)
					switch {
					case f == "io.Copy" && len(ce.Args) > 0 && exprStr(ce.Args[0]) == "v.w",
						f == "v.w.Write", f == "v.w.WriteString", f == "v.w.ReadFrom", f == "v.w.WriteByte":
						evs = append(evs, skelEv{"chunk_write", "v.w"})
					case f == "v.w.Flush":
						evs = append(evs, skelEv{"flush", "v.w"})
					case strings.HasPrefix(f, "v.") && f != "v.onMessageWriten" && f != "v.w.Flush":
						if role, _, _, _ := tw.callRole(ce); role != "" {
							evs = append(evs, skelEv{role, f})
						}
					case f == "v.onMessageWriten":
						evs = append(evs, skelEv{"written_hook", "onMessageWriten"})
					}
					return true
				})
				if wsMentions(fd.Body, tw.n.tabField, tw.n.lockField) {
					evs = append(evs, skelEv{"direct_table_access", "WriteMessage"})
				}
				g.emitSkel("rtmp_WriteMessage_skel", evs, true, "")
				seen["WriteMessage"] = true
			case "parseAMFObject":
				g.emitSkel("rtmp_parseAMFObject_tx_skel", tw.scope(fd.Body, 0), true, "")
				seen[fd.Name.Name] = true
			default:
				if wsMentions(fd.Body, tw.n.tabField) && fd.Name.Name != "NewProtocol" {
					pendingOthers = append(pendingOthers, fd.Name.Name)
				}
			}
		}
		if fd := plainFns[kindsFn]; fd != nil {
			var kinds []skelEv
			ast.Inspect(fd.Body, func(n ast.Node) bool {
				if cc, ok := n.(*ast.CaseClause); ok {
					for _, e := range cc.List {
						kinds = append(kinds, skelEv{"case", strings.TrimPrefix(exprStr(e), "*")})
					}
					if cc.List == nil {
						kinds = append(kinds, skelEv{"case", "default"})
					}
				}
				return true
			})
			g.emitSkel("rtmp_requestTransaction_kinds", kinds, true, "")
			seen["requestTransaction"] = true
		}
		for n, nm := range map[string]string{"WritePacket": "rtmp_WritePacket_skel", "onPacketWriten": "rtmp_onPacketWriten_skel",
			"onPacketWriteFailed": "rtmp_onPacketWriteFailed_skel", "parseAMFObject": "rtmp_parseAMFObject_tx_skel",
			"WriteMessage": "rtmp_WriteMessage_skel", "requestTransaction": "rtmp_requestTransaction_kinds"} {
			if !seen[n] {
				g.emitSkel(nm, []skelEv{}, true, "") // absent function = empty skeleton (rejected or accepted by the model's predicate)
				if n == "onPacketWriten" || n == "onPacketWriteFailed" {
					g.emitSkel("rtmp_"+n+"_kinds", []skelEv{}, true, "")
				}
			}
		}
		for _, nm := range pendingOthers {
			if !tw.inlined[nm] {
				others = append(others, skelEv{"Protocol." + nm, "touches transactions"})
			}
		}
		g.emitSkel("rtmp_transactions_other_sites", others, true, "")
		g.pf("\n")
	})
}
