// gen_funcs_stmt.go: statements of the supported subset, translated in continuation style
// (the statements following an if/switch are copied into every branch that falls through):
//
//	x := e   x = e   x op= e   x++   var x T [= e]   a, b := f(x)   *v = e (pointer-to-integer receiver)
//	if [init;] c { } [else ...]     switch [init;] [tag] { case c1, c2: ... default: ... }  (break allowed)
//	return e1, ...   (bare return with named results; no results = final *v)
//
// Loops, goto, defer, go, expression statements, fallthrough, labelled statements: unsupported.
package main

import (
	"fmt"
	"go/ast"
	"go/token"
	"go/types"
	"strings"
)

const (
	recvNone = iota
	recvInt
	recvPtrInt
	recvStruct
)

type ftr struct {
	fg          *funcsGen
	info        *types.Info
	fd          *ast.FuncDecl
	env         map[*types.Var]string
	used        map[string]bool
	pending     []string
	tmpN        int
	recvObj     *types.Var
	recvMode    int
	recvName    string
	fieldParams map[string]string
	fieldOrder  []string
	fieldKinds  map[string]kind
	fieldTypes  map[string]string
	results     []kind
	named       []*types.Var
	breakK      []func(ind string) string
	size        int
}

var coqReserved = map[string]bool{"as": true, "at": true, "cofix": true, "else": true, "end": true, "exists": true,
	"exists2": true, "fix": true, "for": true, "forall": true, "fun": true, "if": true, "IF": true, "in": true, "let": true,
	"match": true, "mod": true, "Prop": true, "return": true, "Set": true, "then": true, "Type": true, "using": true,
	"where": true, "with": true, "SProp": true, "res": true, "Ok": true, "Err": true, "Panic": true, "bind": true,
	"nth_chk": true, "map_bool": true, "map_Z": true, "wrap_u": true, "wrap_s": true, "len_Z": true, "go_quo": true,
	"go_rem": true, "SprintfOf": true, "Some": true, "None": true, "true": true, "false": true, "negb": true, "Z": true,
	"N": true, "bool": true, "string": true, "list": true, "nil": true, "cons": true, "tt": true, "unit": true, "option": true}

func newFtr(fg *funcsGen, fd *ast.FuncDecl) *ftr {
	return &ftr{fg: fg, info: fg.g.p.TypesInfo, fd: fd, env: map[*types.Var]string{}, used: map[string]bool{},
		fieldParams: map[string]string{}, fieldKinds: map[string]kind{}, fieldTypes: map[string]string{}}
}

func (t *ftr) fresh(base string) string {
	if base == "" || base == "_" {
		base = "x"
	}
	base = strings.Replace(base, "'", "_", -1)
	n := base
	i := 0
	for t.used[n] || coqReserved[n] || t.fg.taken[n] {
		i++
		n = fmt.Sprintf("%s_%d", base, i)
	}
	t.used[n] = true
	return n
}

func (t *ftr) flush(ind string) string {
	var sb strings.Builder
	for _, p := range t.pending {
		sb.WriteString(ind + p + "\n")
	}
	t.pending = nil
	return sb.String()
}

func (t *ftr) cloneEnv() map[*types.Var]string {
	m := make(map[*types.Var]string, len(t.env))
	for k, v := range t.env {
		m[k] = v
	}
	return m
}

func (t *ftr) budget(n int) {
	t.size += n
	if t.size > maxGenBody {
		t.fail("translated body too large (continuation copying)")
	}
}

// run translates the function; reason != "" means unsupported
func (t *ftr) run() (sig *funcSig, body string, reason string) {
	defer func() {
		if r := recover(); r != nil {
			if u, ok := r.(unsupported); ok {
				reason = u.msg
			} else {
				reason = fmt.Sprintf("internal error: %v", r)
			}
		}
	}()
	obj, ok := t.info.Defs[t.fd.Name].(*types.Func)
	if !ok {
		t.fail("no type information")
	}
	gosig := obj.Type().(*types.Signature)
	sig = &funcSig{}
	var binders []string
	var noteParams []string
	// receiver
	if rv := gosig.Recv(); rv != nil {
		rt := rv.Type()
		ptr := false
		if p, ok := rt.(*types.Pointer); ok {
			rt, ptr = p.Elem(), true
		}
		t.recvObj = rv
		t.recvName = rv.Name()
		if t.recvName == "" || t.recvName == "_" {
			t.recvName = "recv"
		}
		switch {
		case kindOf(rt) == kInt:
			n := t.fresh(t.recvName)
			t.env[rv] = n
			t.recvMode = recvInt
			if ptr {
				t.recvMode = recvPtrInt
			}
			binders = append(binders, "("+n+" : Z)")
			noteParams = append(noteParams, n+":"+tyStr(rt))
		default:
			if _, isStruct := rt.Underlying().(*types.Struct); !isStruct {
				t.fail("receiver of type %v", rv.Type())
			}
			t.recvMode = recvStruct
			sig.structRecv = true
		}
	}
	nRecvBinders := len(binders)
	var paramBinders []string
	for i := 0; i < gosig.Params().Len(); i++ {
		p := gosig.Params().At(i)
		k := kindOf(p.Type())
		if k != kInt && k != kBool && k != kString && k != kList {
			t.fail("parameter %s of type %v", p.Name(), p.Type())
		}
		n := t.fresh(p.Name())
		t.env[p] = n
		paramBinders = append(paramBinders, "("+n+" : "+strings.Trim(coqType(k), "()")+")")
		noteParams = append(noteParams, n+":"+tyStr(p.Type()))
	}
	if gosig.Variadic() {
		t.fail("variadic function")
	}
	// results
	var rtypes []string
	for i := 0; i < gosig.Results().Len(); i++ {
		r := gosig.Results().At(i)
		k := kindOf(r.Type())
		if k == kBad || k == kNil {
			t.fail("result of type %v", r.Type())
		}
		t.results = append(t.results, k)
		rtypes = append(rtypes, tyStr(r.Type()))
		if r.Name() != "" && r.Name() != "_" {
			t.named = append(t.named, r)
			t.env[r] = zeroOf(k)
		} else {
			t.named = append(t.named, nil)
		}
	}
	if len(t.results) == 0 {
		if t.recvMode != recvPtrInt {
			t.fail("function without results")
		}
		sig.result = "Z"
		sig.kinds = []kind{kInt}
		rtypes = []string{"new *" + t.recvName}
	} else {
		var cs []string
		for _, k := range t.results {
			cs = append(cs, coqType(k))
		}
		sig.kinds = t.results
		if len(cs) == 1 {
			sig.result = cs[0]
		} else {
			sig.result = "(" + strings.Join(stripParens(cs), " * ") + ")"
		}
	}
	end := func(ind string) string {
		if len(t.results) == 0 {
			return ind + "Ok " + t.env[t.recvObj] + "\n"
		}
		t.fail("control reaches the end of the function")
		return ""
	}
	body = t.stmts(t.fd.Body.List, end, "  ")
	body = strings.TrimRight(body, "\n")
	// field parameters come between the receiver and the ordinary parameters
	var fieldBinders, fieldNotes []string
	for _, f := range t.fieldOrder {
		fieldBinders = append(fieldBinders, "("+t.fieldParams[f]+" : "+strings.Trim(coqType(t.fieldKinds[f]), "()")+")")
		fieldNotes = append(fieldNotes, t.fieldParams[f]+":"+t.fieldTypes[f])
	}
	sig.params = append(append(binders, fieldBinders...), paramBinders...)
	sig.nparams = len(sig.params)
	if sig.nparams == 0 {
		sig.params = []string{"(_ : unit)"}
	}
	allNotes := append(append(append([]string{}, noteParams[:nRecvBinders]...), fieldNotes...), noteParams[nRecvBinders:]...)
	sig.note = "(" + strings.Join(allNotes, ", ") + ") -> " + strings.Join(rtypes, ", ")
	return sig, body, ""
}

func stripParens(cs []string) []string {
	out := make([]string, len(cs))
	for i, c := range cs {
		out[i] = c
	}
	return out
}

func (t *ftr) stmts(l []ast.Stmt, k func(ind string) string, ind string) string {
	if len(l) == 0 {
		return k(ind)
	}
	t.budget(32)
	rest := func(ind string) string { return t.stmts(l[1:], k, ind) }
	switch s := l[0].(type) {
	case *ast.ReturnStmt:
		return t.ret(s, ind)
	case *ast.BlockStmt:
		return t.stmts(s.List, rest, ind)
	case *ast.EmptyStmt:
		return rest(ind)
	case *ast.AssignStmt:
		pre := t.assign(s, ind)
		return pre + rest(ind)
	case *ast.IncDecStmt:
		op := token.ADD
		if s.Tok == token.DEC {
			op = token.SUB
		}
		cur := t.expr(s.X)
		term := t.arith(op, cur, "1", t.typeOf(s.X))
		pre := t.flush(ind)
		pre += t.bindLhs(s.X, term, ind, false)
		return pre + rest(ind)
	case *ast.DeclStmt:
		gd, ok := s.Decl.(*ast.GenDecl)
		if !ok || gd.Tok != token.VAR {
			t.fail("declaration statement")
		}
		pre := ""
		for _, sp := range gd.Specs {
			vs := sp.(*ast.ValueSpec)
			if len(vs.Values) != 0 && len(vs.Values) != len(vs.Names) {
				t.fail("var declaration arity")
			}
			for i, nm := range vs.Names {
				v, _ := t.info.Defs[nm].(*types.Var)
				if v == nil {
					continue
				}
				k := kindOf(v.Type())
				if k == kBad || k == kNil {
					t.fail("variable %s of type %v", nm.Name, v.Type())
				}
				term := zeroOf(k)
				if len(vs.Values) != 0 {
					term = t.exprAs(vs.Values[i], k)
				}
				pre += t.flush(ind)
				n := t.fresh(nm.Name)
				pre += ind + "let " + n + " := " + term + " in\n"
				t.env[v] = n
			}
		}
		return pre + rest(ind)
	case *ast.IfStmt:
		pre := ""
		if s.Init != nil {
			pre += t.simple(s.Init, ind)
		}
		c := t.expr(s.Cond)
		pre += t.flush(ind)
		e0 := t.cloneEnv()
		th := t.stmts(s.Body.List, rest, ind+"  ")
		t.env = e0
		var el string
		switch e := s.Else.(type) {
		case nil:
			el = rest(ind + "  ")
		case *ast.BlockStmt:
			el = t.stmts(e.List, rest, ind+"  ")
		default:
			el = t.stmts([]ast.Stmt{e}, rest, ind+"  ")
		}
		t.budget(len(th) + len(el))
		return pre + ind + "if " + c + " then (\n" + th + ind + ") else (\n" + el + ind + ")\n"
	case *ast.SwitchStmt:
		return t.switchStmt(s, rest, ind)
	case *ast.BranchStmt:
		if s.Tok == token.BREAK && s.Label == nil && len(t.breakK) > 0 {
			return t.breakK[len(t.breakK)-1](ind)
		}
		t.fail("%s statement", s.Tok)
	}
	t.fail("statement %T", l[0])
	return ""
}

func (t *ftr) simple(s ast.Stmt, ind string) string {
	switch x := s.(type) {
	case *ast.AssignStmt:
		return t.assign(x, ind)
	}
	t.fail("init statement %T", s)
	return ""
}

func (t *ftr) switchStmt(s *ast.SwitchStmt, rest func(string) string, ind string) string {
	pre := ""
	if s.Init != nil {
		pre += t.simple(s.Init, ind)
	}
	tag := ""
	tagKind := kBool
	if s.Tag != nil {
		tagKind = kindOf(t.typeOf(s.Tag))
		if tagKind != kInt && tagKind != kBool && tagKind != kString {
			t.fail("switch on a value of type %v", t.typeOf(s.Tag))
		}
		e := t.expr(s.Tag)
		pre += t.flush(ind)
		if isSimpleName(e) {
			tag = e
		} else {
			tag = t.fresh("tag")
			pre += ind + "let " + tag + " := " + e + " in\n"
		}
	}
	depth := len(t.breakK)
	t.breakK = append(t.breakK, rest)
	defer func() { t.breakK = t.breakK[:depth] }()
	type clause struct {
		cond string
		body []ast.Stmt
	}
	var clauses []clause
	var def []ast.Stmt
	hasDef := false
	for _, c := range s.Body.List {
		cc := c.(*ast.CaseClause)
		for _, st := range cc.Body {
			if b, ok := st.(*ast.BranchStmt); ok && b.Tok == token.FALLTHROUGH {
				t.fail("fallthrough")
			}
		}
		if cc.List == nil {
			def, hasDef = cc.Body, true
			continue
		}
		var tests []string
		for _, e := range cc.List {
			n := len(t.pending)
			v := t.expr(e)
			if len(t.pending) != n {
				t.fail("case expression with a checked operation")
			}
			switch {
			case s.Tag == nil:
				tests = append(tests, v)
			case tagKind == kInt:
				tests = append(tests, "("+tag+" =? "+v+")")
			case tagKind == kBool:
				tests = append(tests, "(Bool.eqb "+tag+" "+v+")")
			default:
				tests = append(tests, "(String.eqb "+tag+" "+v+")")
			}
		}
		clauses = append(clauses, clause{strings.Join(tests, " || "), cc.Body})
	}
	var sb strings.Builder
	sb.WriteString(pre)
	e0 := t.cloneEnv()
	closers := 0
	for _, c := range clauses {
		t.env = cloneMap(e0)
		body := t.stmts(c.body, rest, ind+"  ")
		t.budget(len(body))
		sb.WriteString(ind + "if " + c.cond + " then (\n" + body + ind + ") else (\n")
		closers++
	}
	t.env = cloneMap(e0)
	var last string
	if hasDef {
		last = t.stmts(def, rest, ind+"  ")
	} else {
		last = rest(ind + "  ")
	}
	t.budget(len(last))
	sb.WriteString(last)
	sb.WriteString(ind + strings.Repeat(")", closers) + "\n")
	t.env = e0
	return sb.String()
}

func cloneMap(m map[*types.Var]string) map[*types.Var]string {
	c := make(map[*types.Var]string, len(m))
	for k, v := range m {
		c[k] = v
	}
	return c
}

func isSimpleName(s string) bool {
	if s == "" {
		return false
	}
	for _, c := range s {
		if !(c == '_' || c >= 'a' && c <= 'z' || c >= 'A' && c <= 'Z' || c >= '0' && c <= '9') {
			return false
		}
	}
	return !(s[0] >= '0' && s[0] <= '9')
}

// bind a new value to an assignable expression (local variable or *receiver)
func (t *ftr) bindLhs(lhs ast.Expr, term string, ind string, define bool) string {
	lhs = unparen(lhs)
	switch x := lhs.(type) {
	case *ast.Ident:
		if x.Name == "_" {
			return ""
		}
		var v *types.Var
		if d, ok := t.info.Defs[x].(*types.Var); ok && d != nil {
			v = d
		} else if u, ok := t.info.Uses[x].(*types.Var); ok {
			v = u
		}
		if v == nil {
			t.fail("assignment to %s", x.Name)
		}
		if v == t.recvObj {
			t.fail("assignment to the receiver variable")
		}
		if _, known := t.env[v]; !known && !define {
			t.fail("assignment to %s, which is not a local variable", x.Name)
		}
		n := t.fresh(x.Name)
		t.env[v] = n
		return ind + "let " + n + " := " + term + " in\n"
	case *ast.StarExpr:
		if id, ok := unparen(x.X).(*ast.Ident); ok && t.recvMode == recvPtrInt {
			if v, ok := t.info.Uses[id].(*types.Var); ok && v == t.recvObj {
				n := t.fresh(t.recvName)
				t.env[v] = n
				return ind + "let " + n + " := " + term + " in\n"
			}
		}
	}
	t.fail("assignment to %s", types.ExprString(lhs))
	return ""
}

func (t *ftr) lhsKind(lhs ast.Expr) kind {
	lhs = unparen(lhs)
	if id, ok := lhs.(*ast.Ident); ok {
		if id.Name == "_" {
			return kBad
		}
		if d, ok := t.info.Defs[id].(*types.Var); ok && d != nil {
			return kindOf(d.Type())
		}
	}
	return kindOf(t.typeOf(lhs))
}

func (t *ftr) assign(s *ast.AssignStmt, ind string) string {
	define := s.Tok == token.DEFINE
	switch {
	case s.Tok == token.ASSIGN || s.Tok == token.DEFINE:
		// a, b := f(x)
		if len(s.Lhs) > 1 && len(s.Rhs) == 1 {
			call, ok := unparen(s.Rhs[0]).(*ast.CallExpr)
			if !ok {
				t.fail("tuple assignment from %T", s.Rhs[0])
			}
			term, sig := t.callTerm(call)
			if len(sig.kinds) != len(s.Lhs) {
				t.fail("tuple assignment arity")
			}
			pre := t.flush(ind)
			var tmps []string
			for range s.Lhs {
				t.tmpN++
				tmps = append(tmps, t.fresh(fmt.Sprintf("t%d", t.tmpN)))
			}
			pre += ind + "let* (" + strings.Join(tmps, ", ") + ") := " + term + " in\n"
			for i, l := range s.Lhs {
				pre += t.bindLhs(l, tmps[i], ind, define)
			}
			return pre
		}
		if len(s.Lhs) != len(s.Rhs) {
			t.fail("assignment arity")
		}
		var terms []string
		for i, r := range s.Rhs {
			k := t.lhsKind(s.Lhs[i])
			if k == kBad {
				k = kindOf(t.typeOf(r))
			}
			if k == kBad || k == kNil {
				t.fail("assignment of a value of type %v", t.typeOf(r))
			}
			if k == kOpaque {
				terms = append(terms, t.opaqueOrNil(r))
			} else {
				terms = append(terms, t.exprAs(r, k))
			}
		}
		pre := t.flush(ind)
		if len(terms) == 1 {
			return pre + t.bindLhs(s.Lhs[0], terms[0], ind, define)
		}
		var tmps []string
		for _, term := range terms {
			t.tmpN++
			n := t.fresh(fmt.Sprintf("t%d", t.tmpN))
			pre += ind + "let " + n + " := " + term + " in\n"
			tmps = append(tmps, n)
		}
		for i, l := range s.Lhs {
			pre += t.bindLhs(l, tmps[i], ind, define)
		}
		return pre
	default:
		ops := map[token.Token]token.Token{token.ADD_ASSIGN: token.ADD, token.SUB_ASSIGN: token.SUB, token.MUL_ASSIGN: token.MUL,
			token.QUO_ASSIGN: token.QUO, token.REM_ASSIGN: token.REM, token.AND_ASSIGN: token.AND, token.OR_ASSIGN: token.OR,
			token.XOR_ASSIGN: token.XOR, token.SHL_ASSIGN: token.SHL, token.SHR_ASSIGN: token.SHR, token.AND_NOT_ASSIGN: token.AND_NOT}
		op, ok := ops[s.Tok]
		if !ok || len(s.Lhs) != 1 || len(s.Rhs) != 1 {
			t.fail("assignment operator %s", s.Tok)
		}
		ty := t.typeOf(s.Lhs[0])
		var term string
		if kindOf(ty) == kString && op == token.ADD {
			term = "(" + t.expr(s.Lhs[0]) + " ++ " + t.expr(s.Rhs[0]) + ")%string"
		} else {
			if kindOf(ty) != kInt {
				t.fail("operator %s on %v", s.Tok, ty)
			}
			a := t.expr(s.Lhs[0])
			b := t.expr(s.Rhs[0])
			term = t.arith(op, a, b, ty)
		}
		pre := t.flush(ind)
		return pre + t.bindLhs(s.Lhs[0], term, ind, false)
	}
}

func (t *ftr) opaqueOrNil(e ast.Expr) string {
	if isNilIdent(t.info, e) {
		return "(@None string)"
	}
	return t.abstractValue(e)
}

func (t *ftr) ret(s *ast.ReturnStmt, ind string) string {
	if len(s.Results) == 0 {
		if len(t.results) == 0 {
			return ind + "Ok " + t.env[t.recvObj] + "\n"
		}
		var vals []string
		for i, v := range t.named {
			if v == nil {
				t.fail("bare return without named results")
			}
			_ = i
			vals = append(vals, t.env[v])
		}
		return ind + "Ok " + tuple(vals) + "\n"
	}
	if len(t.results) == 0 {
		t.fail("return with a value in a function without results")
	}
	if len(s.Results) == 1 && len(t.results) > 1 {
		call, ok := unparen(s.Results[0]).(*ast.CallExpr)
		if !ok {
			t.fail("return arity")
		}
		term, sig := t.callTerm(call)
		if len(sig.kinds) != len(t.results) {
			t.fail("return arity")
		}
		for i := range sig.kinds {
			if coqType(sig.kinds[i]) != coqType(t.results[i]) {
				t.fail("return of a call with different result types")
			}
		}
		return t.flush(ind) + ind + term + "\n"
	}
	if len(s.Results) != len(t.results) {
		t.fail("return arity")
	}
	var vals []string
	for i, r := range s.Results {
		if t.results[i] == kOpaque {
			vals = append(vals, t.opaqueOrNil(r))
		} else {
			vals = append(vals, t.exprAs(r, t.results[i]))
		}
	}
	pre := t.flush(ind)
	return pre + ind + "Ok " + tuple(vals) + "\n"
}

func tuple(vals []string) string {
	if len(vals) == 1 {
		return atom(vals[0])
	}
	return "(" + strings.Join(vals, ", ") + ")"
}

func tyStr(t types.Type) string {
	return types.TypeString(t, func(p *types.Package) string { return p.Name() })
}
