// gen_funcs.go: generic translation of small pure Go functions into Gallina (C07 and
// every property that wants an enum helper / size function re-checked against the source).
//
// For the allow-list below each function body is translated into a definition
//
//	Definition <pkg>_<Recv>_<Func> (params : Z | bool | string | list Z) : res T := ...
//
// in coq/Gen/Gen_<pkg>.v (`res` = Ok/Err/Panic from Lib/Base.v, helpers from Lib/GoSem.v).
// Supported subset: see gen_funcs_expr.go / gen_funcs_stmt.go.  Anything else produces
// `Definition <name>_unsupported := tt.` with the reason in a comment; the translator never
// fails because of a function body and the generated file always compiles.
// If <name> is already defined earlier in the same generated file (another plug-in), the
// definition is emitted as <name>_res instead.
package main

import (
	"fmt"
	"go/ast"
	"go/types"
	"regexp"
	"sort"
	"strings"
)

// allow-list: {package tag, receiver type ("" = plain function, "*" = every receiver whose
// underlying type is an integer), function name}
type funcSpec struct{ pkg, recv, name string }

var funcAllow = []funcSpec{
	// String() of every integer-typed enum
	{"amf0", "*", "String"},
	{"rtmp", "*", "String"},
	{"flv", "*", "String"},
	{"aac", "*", "String"},
	{"avc", "*", "String"},
	// flv rate / channel conversions
	{"flv", "AudioSamplingRate", "ToHz"},
	{"flv", "AudioSamplingRate", "OpusToHz"},
	{"flv", "AudioSamplingRate", "From"},
	{"flv", "AudioSamplingRate", "OpusFrom"},
	{"flv", "AudioChannels", "From"},
	// aac conversions
	{"aac", "ObjectType", "ToProfile"},
	{"aac", "Profile", "ToObjectType"},
	{"aac", "SampleRateIndex", "ToHz"},
	// websocket predicates
	{"websocket", "", "isValidReceivedCloseCode"},
	{"websocket", "", "isControl"},
	{"websocket", "", "isData"},
	{"websocket", "", "FormatCloseMessage"},
	{"websocket", "", "isValidCompressionLevel"},
	// amf0 marker dispatch
	{"amf0", "", "Discovery"},
	// rtmp sizes that are pure functions of integer fields
	{"rtmp", "UserControl", "Size"},
	{"rtmp", "SetChunkSize", "Size"},
	{"rtmp", "WindowAcknowledgementSize", "Size"},
	{"rtmp", "SetPeerBandwidth", "Size"},
}

const maxGenBody = 200000 // bytes of Gallina per function before giving up

type funcsGen struct {
	g       *gen
	tag     string
	decls   map[string]*ast.FuncDecl // "Recv.Name" / ".Name"
	state   map[string]int           // 0 unseen, 1 in progress, 2 done ok, 3 unsupported
	coqName map[string]string        // key -> emitted Coq name
	sigs    map[string]*funcSig
	taken   map[string]bool   // Coq names already defined in the buffer / by us
	maps    map[string]string // package-level map tables already emitted: base name -> final name
	order   []string
}

type funcSig struct {
	params     []string // Coq binder texts "(v : Z)"
	nparams    int
	result     string // Coq type inside res
	kinds      []kind // result kinds
	note       string // Go-level signature for the comment
	structRecv bool   // receiver is a struct: its fields are parameters; not callable from other translated code
}

var defRe = regexp.MustCompile(`(?m)^(?:Definition|Fixpoint|Inductive|Lemma|Theorem|Notation|Record)\s+([A-Za-z0-9_']+)`)

func init() {
	extraGens = append(extraGens, func(g *gen) {
		defer func() {
			if r := recover(); r != nil {
				g.pf("\n(* gen_funcs: internal error, section abandoned: %s *)\n", sanitizeComment(fmt.Sprint(r)))
			}
		}()
		tag := pkgTag(g.p)
		var specs []funcSpec
		for _, s := range funcAllow {
			if s.pkg == tag {
				specs = append(specs, s)
			}
		}
		if len(specs) == 0 {
			return
		}
		fg := &funcsGen{g: g, tag: tag, decls: map[string]*ast.FuncDecl{}, state: map[string]int{},
			coqName: map[string]string{}, sigs: map[string]*funcSig{}, taken: map[string]bool{}, maps: map[string]string{}}
		for _, m := range defRe.FindAllStringSubmatch(g.buf.String(), -1) {
			fg.taken[m[1]] = true
		}
		var keys []string
		for _, fd := range g.funcDecls() {
			k := recvName(fd) + "." + fd.Name.Name
			fg.decls[k] = fd
			keys = append(keys, k)
		}
		// stable order: source position
		sort.SliceStable(keys, func(i, j int) bool { return fg.decls[keys[i]].Pos() < fg.decls[keys[j]].Pos() })
		g.pf("(* ---- function bodies translated by tools/repo2coq/gen_funcs.go ---- *)\n")
		g.pf("From Verif Require Import Lib.Base Lib.GoSem.\n")
		g.pf("Local Open Scope Z_scope.\nLocal Open Scope bool_scope.\n\n")
		var emitted []string
		for _, k := range keys {
			fd := fg.decls[k]
			if !fg.allowed(fd) {
				continue
			}
			fg.translate(k)
			emitted = append(emitted, k)
		}
		// allow-listed but absent: say so (no definition)
		for _, s := range specs {
			if s.recv == "*" {
				continue
			}
			if _, ok := fg.decls[s.recv+"."+s.name]; !ok {
				g.pf("(* %s.%s.%s: not present in the source tree *)\n", s.pkg, s.recv, s.name)
			}
		}
		g.pf("\n")
	})
}

func (fg *funcsGen) allowed(fd *ast.FuncDecl) bool {
	rn := recvName(fd)
	for _, s := range funcAllow {
		if s.pkg != fg.tag || s.name != fd.Name.Name {
			continue
		}
		if s.recv == rn {
			return true
		}
		if s.recv == "*" && rn != "" {
			if obj, ok := fg.g.p.TypesInfo.Defs[fd.Name].(*types.Func); ok {
				if sig, ok := obj.Type().(*types.Signature); ok && sig.Recv() != nil {
					t := sig.Recv().Type()
					if p, ok := t.(*types.Pointer); ok {
						t = p.Elem()
					}
					if _, _, ok := intInfo(t); ok {
						return true
					}
				}
			}
		}
	}
	return false
}

func sanitizeComment(s string) string {
	s = strings.Replace(s, "(*", "( *", -1)
	s = strings.Replace(s, "*)", "* )", -1)
	s = strings.Replace(s, "\n", " ", -1)
	s = strings.Replace(s, "\"", "'", -1)
	if len(s) > 300 {
		s = s[:300]
	}
	return s
}

func (fg *funcsGen) baseName(k string) string {
	fd := fg.decls[k]
	rn := recvName(fd)
	if rn == "" {
		return fg.tag + "_" + fd.Name.Name
	}
	return fg.tag + "_" + ident(rn) + "_" + fd.Name.Name
}

// translate (memoised); returns whether a definition exists
func (fg *funcsGen) translate(k string) bool {
	switch fg.state[k] {
	case 2:
		return true
	case 3:
		return false
	case 1:
		return false // recursion: not supported
	}
	fd, ok := fg.decls[k]
	if !ok {
		fg.state[k] = 3
		return false
	}
	fg.state[k] = 1
	name := fg.baseName(k)
	pos := fg.g.p.Fset.Position(fd.Pos())
	where := fmt.Sprintf("%s:%d", shortPath(pos.Filename), pos.Line)
	tr := newFtr(fg, fd)
	sig, body, reason := tr.run()
	if reason == "" && len(body) > maxGenBody {
		reason = "translated body too large"
	}
	if reason != "" {
		fg.state[k] = 3
		un := name + "_unsupported"
		for fg.taken[un] {
			un += "'"
		}
		fg.taken[un] = true
		fg.g.pf("(* %s %s: NOT translated: %s *)\nDefinition %s := tt.\n\n", k, where, sanitizeComment(reason), un)
		return false
	}
	final := name
	if fg.taken[final] {
		final = name + "_res"
		for fg.taken[final] {
			final += "'"
		}
	}
	fg.taken[final] = true
	fg.coqName[k] = final
	fg.sigs[k] = sig
	fg.state[k] = 2
	// definitions this one needs (package-level map tables) were emitted by tr via fg.g.pf
	fg.g.pf("(* %s %s   %s *)\n", k, where, sanitizeComment(sig.note))
	fg.g.pf("Definition %s %s : res %s :=\n%s.\n\n", final, strings.Join(sig.params, " "), sig.result, body)
	return true
}

func shortPath(p string) string {
	if i := strings.Index(p, "/repo/"); i >= 0 {
		return p[i+6:]
	}
	return p
}
