package main

func (g *gen) enums() {}
