// gen_flv.go: translates the small integer helper functions of package flv
// (AudioSamplingRate.ToHz/OpusToHz/From/OpusFrom, AudioChannels.From) into Gallina so that
// the C10 rate theorems and the "never panics" sweeps are re-checked against the source.
//
// Supported subset (anything else emits `<name>_unsupported`, which breaks the dependent
// theorems on purpose):
//   x := []int{c0, c1, ...}            let x := [c0; c1; ...] in   (also `var x = ...`, arrays)
//   a table may equally be a package-level var/array with a literal of integer constants
//   (resolved through go/types to its declaration); it is inlined, so the Coq-side shape
//   and type of the function do not depend on where the table lives
//   if a OP b { stmts }                if a OP b then stmts else rest
//   switch t { case c...: stmts; default: stmts }
//   return e  |  *v = e                e : constant | input | int(input) | len(x) | x[e]
// The result type is `option Z`: None is a run-time panic (index out of range).
package main

import (
	"fmt"
	"go/ast"
	"go/constant"
	"go/token"
	"go/types"
	"strings"
)

var flvHelperFuncs = map[string]bool{
	"AudioSamplingRate.ToHz":     true,
	"AudioSamplingRate.OpusToHz": true,
	"AudioSamplingRate.From":     true,
	"AudioSamplingRate.OpusFrom": true,
	"AudioChannels.From":         true,
}

type flvTr struct {
	g      *gen
	input  string          // name of the Go variable that is the function's integer input
	tables map[string]bool // local tables in scope
	bad    string
}

func (t *flvTr) fail(format string, a ...interface{}) string {
	if t.bad == "" {
		t.bad = fmt.Sprintf(format, a...)
	}
	return "None"
}

// table resolves an identifier to an integer table: a local one (bound by a Coq let) or a
// package-level variable whose initialiser is a literal of integer constants (inlined).
func (t *flvTr) table(e ast.Expr) (string, bool) {
	for {
		p, ok := e.(*ast.ParenExpr)
		if !ok {
			break
		}
		e = p.X
	}
	id, ok := e.(*ast.Ident)
	if !ok {
		return "", false
	}
	if t.tables[id.Name] {
		return id.Name, true
	}
	obj, ok := t.g.p.TypesInfo.Uses[id].(*types.Var)
	if !ok || obj.Pkg() == nil || obj.Parent() != obj.Pkg().Scope() {
		return "", false
	}
	for _, f := range t.g.p.Syntax {
		for _, d := range f.Decls {
			gd, ok := d.(*ast.GenDecl)
			if !ok || gd.Tok != token.VAR {
				continue
			}
			for _, sp := range gd.Specs {
				vs := sp.(*ast.ValueSpec)
				for i, nm := range vs.Names {
					if t.g.p.TypesInfo.Defs[nm] != obj || i >= len(vs.Values) {
						continue
					}
					if cl, ok := vs.Values[i].(*ast.CompositeLit); ok {
						if vals, ok := t.g.intElems(cl); ok {
							return "[" + strings.Join(vals, "; ") + "]", true
						}
					}
					return "", false
				}
			}
		}
	}
	return "", false
}

// pure integer expression
func (t *flvTr) expr(e ast.Expr) string {
	if tv, ok := t.g.p.TypesInfo.Types[e]; ok && tv.Value != nil && tv.Value.Kind() == constant.Int {
		return coqZ(tv.Value)
	}
	switch x := e.(type) {
	case *ast.ParenExpr:
		return t.expr(x.X)
	case *ast.Ident:
		if x.Name == t.input {
			return "v"
		}
	case *ast.CallExpr:
		if id, ok := x.Fun.(*ast.Ident); ok && len(x.Args) == 1 {
			switch id.Name {
			case "int", "uint", "int64", "uint64":
				// widening conversion of the uint8-based input: value preserving
				return t.expr(x.Args[0])
			case "len":
				if tb, ok := t.table(x.Args[0]); ok {
					return "(Z.of_nat (List.length " + tb + "))"
				}
			}
		}
	}
	t.fail("expression %T", e)
	return "0"
}

// result expression: option Z
func (t *flvTr) rexpr(e ast.Expr) string {
	if p, ok := e.(*ast.ParenExpr); ok {
		return t.rexpr(p.X)
	}
	if ix, ok := e.(*ast.IndexExpr); ok {
		if tb, ok := t.table(ix.X); ok {
			i := t.expr(ix.Index)
			return fmt.Sprintf("(if %s <? 0 then None else List.nth_error %s (Z.to_nat %s))", i, tb, i)
		}
		return t.fail("index expression")
	}
	return "Some " + t.expr(e)
}

func (t *flvTr) cond(e ast.Expr) string {
	b, ok := e.(*ast.BinaryExpr)
	if !ok {
		t.fail("condition %T", e)
		return "false"
	}
	ops := map[token.Token]string{token.LSS: "<?", token.LEQ: "<=?", token.GTR: ">?", token.GEQ: ">=?", token.EQL: "=?"}
	op, ok := ops[b.Op]
	if !ok {
		t.fail("condition operator %s", b.Op)
		return "false"
	}
	return fmt.Sprintf("(%s %s %s)", t.expr(b.X), op, t.expr(b.Y))
}

func (t *flvTr) stmts(l []ast.Stmt) string {
	if len(l) == 0 {
		return t.fail("control reaches the end without a result")
	}
	rest := l[1:]
	switch s := l[0].(type) {
	case *ast.ReturnStmt:
		if len(s.Results) == 1 {
			return t.rexpr(s.Results[0])
		}
		return t.fail("return arity")
	case *ast.AssignStmt:
		if len(s.Lhs) == 1 && len(s.Rhs) == 1 {
			if st, ok := s.Lhs[0].(*ast.StarExpr); ok && s.Tok == token.ASSIGN {
				if _, ok := st.X.(*ast.Ident); ok {
					// `*v = e` is the function's result (pointer receiver setters)
					return t.rexpr(s.Rhs[0])
				}
			}
			if id, ok := s.Lhs[0].(*ast.Ident); ok && s.Tok == token.DEFINE {
				if cl, ok := s.Rhs[0].(*ast.CompositeLit); ok {
					if vals, ok := t.g.intElems(cl); ok {
						t.tables[id.Name] = true
						return fmt.Sprintf("let %s := [%s] in\n  %s", id.Name, strings.Join(vals, "; "), t.stmts(rest))
					}
				}
			}
		}
		return t.fail("assignment")
	case *ast.DeclStmt:
		if gd, ok := s.Decl.(*ast.GenDecl); ok && gd.Tok == token.VAR && len(gd.Specs) == 1 {
			vs := gd.Specs[0].(*ast.ValueSpec)
			if len(vs.Names) == 1 && len(vs.Values) == 1 {
				if cl, ok := vs.Values[0].(*ast.CompositeLit); ok {
					if vals, ok := t.g.intElems(cl); ok {
						t.tables[vs.Names[0].Name] = true
						return fmt.Sprintf("let %s := [%s] in\n  %s", vs.Names[0].Name, strings.Join(vals, "; "), t.stmts(rest))
					}
				}
			}
		}
		return t.fail("declaration")
	case *ast.IfStmt:
		if s.Init != nil {
			return t.fail("if with init")
		}
		th := t.stmts(s.Body.List)
		var el string
		if s.Else != nil {
			blk, ok := s.Else.(*ast.BlockStmt)
			if !ok {
				return t.fail("else if")
			}
			el = t.stmts(blk.List)
		} else {
			el = t.stmts(rest)
		}
		return fmt.Sprintf("if %s then %s else\n  %s", t.cond(s.Cond), th, el)
	case *ast.SwitchStmt:
		if s.Init != nil || s.Tag == nil {
			return t.fail("switch form")
		}
		tag := t.expr(s.Tag)
		var sb strings.Builder
		var def []ast.Stmt
		hasDef := false
		for _, c := range s.Body.List {
			cc := c.(*ast.CaseClause)
			if cc.List == nil {
				def, hasDef = cc.Body, true
				continue
			}
			var tests []string
			for _, e := range cc.List {
				tests = append(tests, fmt.Sprintf("(%s =? %s)", tag, t.expr(e)))
			}
			test := tests[0]
			for _, x := range tests[1:] {
				test = "(" + test + " || " + x + ")"
			}
			sb.WriteString(fmt.Sprintf("if %s then %s else\n  ", test, t.stmts(cc.Body)))
		}
		if hasDef {
			sb.WriteString(t.stmts(def))
		} else {
			sb.WriteString(t.stmts(rest))
		}
		return sb.String()
	}
	return t.fail("statement %T", l[0])
}

func init() {
	extraGens = append(extraGens, func(g *gen) {
		if pkgTag(g.p) != "flv" {
			return
		}
		g.pf("(* integer helper functions, translated by gen_flv.go; None = run-time panic *)\n")
		g.pf("Local Open Scope bool_scope.\n")
		for _, fd := range g.funcDecls() {
			key := recvName(fd) + "." + fd.Name.Name
			if !flvHelperFuncs[key] {
				continue
			}
			name := "flv_" + recvName(fd) + "_" + fd.Name.Name
			t := &flvTr{g: g, tables: map[string]bool{}}
			// input: the single parameter if there is one, else the (value) receiver
			if fd.Type.Params != nil && len(fd.Type.Params.List) == 1 && len(fd.Type.Params.List[0].Names) == 1 {
				t.input = fd.Type.Params.List[0].Names[0].Name
			} else if fd.Type.Params == nil || len(fd.Type.Params.List) == 0 {
				if len(fd.Recv.List[0].Names) == 1 {
					t.input = fd.Recv.List[0].Names[0].Name
				}
			}
			if t.input == "" {
				t.bad = "signature"
			}
			body := t.stmts(fd.Body.List)
			if t.bad != "" {
				g.pf("(* %s: not translated (%s) *)\nDefinition %s_unsupported := tt.\n", key, t.bad, name)
				continue
			}
			g.pf("Definition %s (v : Z) : option Z :=\n  %s.\n", name, body)
		}
		g.pf("\n")
	})
}
