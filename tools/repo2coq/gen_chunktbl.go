// gen_chunktbl.go: role-based tie for the RTMP chunk reader (properties C01, C02, C07).
//   Definition rtmp_tbl_message_header_sizes : list Z := [..].
// = the table that (*Protocol).readMessageHeader indexes with its chunk-format parameter: the X of
// the (single) expression `X[f]` in the function body whose index f is the function's parameter
// of the chunk format type (any parameter name), X resolved through go/types to a package-level
// or local slice/array (any name) initialised by a composite literal of integer constants.
// If the shape is not recognised (no such index expression, several different tables, a table that
// is not a literal of integer constants) the generator emits rtmp_tbl_message_header_sizes_unsupported
// instead, so that Model/RtmpChunk.v stops compiling and the check reports the broken tie.
package main

import (
	"go/ast"
	"go/types"
	"strings"
)

func init() {
	extraGens = append(extraGens, func(g *gen) {
		if pkgTag(g.p) != "rtmp" {
			return
		}
		done := false
		for _, fd := range g.funcDecls() {
			if fd.Name.Name == "readMessageHeader" && recvName(fd) == "Protocol" {
				done = true
				if vals, ok := g.chunkHeaderSizeTable(fd); ok {
					g.pf("Definition rtmp_tbl_message_header_sizes : list Z := [%s].\n\n", strings.Join(vals, "; "))
				} else {
					g.pf("Definition rtmp_tbl_message_header_sizes_unsupported := tt.\n\n")
				}
			}
		}
		if !done {
			g.pf("Definition rtmp_tbl_message_header_sizes_unsupported := tt.\n\n")
		}
	})
}

func (g *gen) chunkHeaderSizeTable(fd *ast.FuncDecl) ([]string, bool) {
	// the parameters of the function (the chunk format is one of them, of an integer type)
	params := map[types.Object]bool{}
	if fd.Type.Params != nil {
		for _, fl := range fd.Type.Params.List {
			for _, nm := range fl.Names {
				if o := g.p.TypesInfo.Defs[nm]; o != nil {
					if b, ok := o.Type().Underlying().(*types.Basic); ok && b.Info()&types.IsInteger != 0 {
						params[o] = true
					}
				}
			}
		}
	}
	// X[param] with X an identifier
	var target types.Object
	clash := false
	ast.Inspect(fd.Body, func(n ast.Node) bool {
		ix, ok := n.(*ast.IndexExpr)
		if !ok {
			return true
		}
		idx, ok := ix.Index.(*ast.Ident)
		if !ok || !params[g.p.TypesInfo.Uses[idx]] {
			return true
		}
		x, ok := ix.X.(*ast.Ident)
		if !ok {
			clash = true
			return true
		}
		o := g.p.TypesInfo.Uses[x]
		if o == nil || (target != nil && target != o) {
			clash = true
			return true
		}
		target = o
		return true
	})
	if target == nil || clash {
		return nil, false
	}
	switch target.Type().Underlying().(type) {
	case *types.Slice, *types.Array:
	default:
		return nil, false
	}
	// its initialiser: a composite literal in a var declaration or a := / = assignment; more than
	// one initialiser (a table that is reassigned) is not recognised
	var lits []*ast.CompositeLit
	other := false
	for _, f := range g.p.Syntax {
		ast.Inspect(f, func(n ast.Node) bool {
			switch x := n.(type) {
			case *ast.AssignStmt:
				for i, l := range x.Lhs {
					if ie, ok := l.(*ast.IndexExpr); ok { // an element of the table is overwritten somewhere
						if xi, ok := ie.X.(*ast.Ident); ok && g.p.TypesInfo.Uses[xi] == target {
							other = true
						}
						continue
					}
					id, ok := l.(*ast.Ident)
					if !ok {
						continue
					}
					o := g.p.TypesInfo.Defs[id]
					if o == nil {
						o = g.p.TypesInfo.Uses[id]
					}
					if o != target {
						continue
					}
					if i < len(x.Rhs) && len(x.Lhs) == len(x.Rhs) {
						if cl, ok := x.Rhs[i].(*ast.CompositeLit); ok {
							lits = append(lits, cl)
							continue
						}
					}
					other = true
				}
			case *ast.ValueSpec:
				for i, id := range x.Names {
					if g.p.TypesInfo.Defs[id] != target {
						continue
					}
					if i < len(x.Values) {
						if cl, ok := x.Values[i].(*ast.CompositeLit); ok {
							lits = append(lits, cl)
							continue
						}
					}
					other = true
				}
			}
			return true
		})
	}
	if len(lits) != 1 || other {
		return nil, false
	}
	return g.intElems(lits[0])
}
