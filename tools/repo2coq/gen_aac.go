// gen_aac.go: extra generated definitions for package aac (property C11).
//   - function-local integer tables            Definition aac_<func>__<name> : list Z := [..].
//     (SampleRateIndex.ToHz keeps its frequency table in a local variable)
//   - AudioSpecificConfig.validate:            the constant case list of `switch v.Object`
//     (aac_validate__Object_cases) and the constants of the range tests `v.F < c || v.F > c`
//     (aac_validate__<F>_lt / _gt).  Anything else in validate that is not of this shape makes
//     the generator emit aac_validate_unsupported so that the dependent theorems stop compiling.
package main

import (
	"go/ast"
	"go/constant"
	"go/token"
	"strings"
)

func init() {
	extraGens = append(extraGens, func(g *gen) {
		if pkgTag(g.p) != "aac" {
			return
		}
		for _, fd := range g.funcDecls() {
			// local tables
			ast.Inspect(fd.Body, func(n ast.Node) bool {
				as, ok := n.(*ast.AssignStmt)
				if !ok || as.Tok != token.DEFINE || len(as.Lhs) != 1 || len(as.Rhs) != 1 {
					return true
				}
				cl, ok := as.Rhs[0].(*ast.CompositeLit)
				if !ok {
					return true
				}
				id, ok := as.Lhs[0].(*ast.Ident)
				if !ok {
					return true
				}
				if vals, ok := g.intElems(cl); ok {
					g.pf("Definition aac_%s__%s : list Z := [%s].\n", fd.Name.Name, id.Name, strings.Join(vals, "; "))
				}
				return true
			})
			if fd.Name.Name == "validate" && recvName(fd) == "AudioSpecificConfig" {
				g.aacValidate(fd)
			}
		}
		g.pf("\n")
	})
}

func (g *gen) aacValidate(fd *ast.FuncDecl) {
	constOf := func(e ast.Expr) (string, bool) {
		tv, ok := g.p.TypesInfo.Types[e]
		if !ok || tv.Value == nil || tv.Value.Kind() != constant.Int {
			return "", false
		}
		return coqZ(tv.Value), true
	}
	field := func(e ast.Expr) (string, bool) {
		se, ok := e.(*ast.SelectorExpr)
		if !ok {
			return "", false
		}
		if _, ok := se.X.(*ast.Ident); !ok {
			return "", false
		}
		return se.Sel.Name, true
	}
	unsupported := false
	nSwitch, nRange := 0, 0
	for _, st := range fd.Body.List {
		switch s := st.(type) {
		case *ast.SwitchStmt:
			f, ok := field(s.Tag)
			if !ok || s.Init != nil {
				unsupported = true
				continue
			}
			var vals []string
			for _, cc := range s.Body.List {
				c := cc.(*ast.CaseClause)
				if c.List == nil { // default: must return an error
					if len(c.Body) != 1 {
						unsupported = true
					} else if _, ok := c.Body[0].(*ast.ReturnStmt); !ok {
						unsupported = true
					}
					continue
				}
				if len(c.Body) != 0 {
					unsupported = true
				}
				for _, e := range c.List {
					v, ok := constOf(e)
					if !ok {
						unsupported = true
						continue
					}
					vals = append(vals, v)
				}
			}
			g.pf("Definition aac_validate__%s_cases : list Z := [%s].\n", f, strings.Join(vals, "; "))
			nSwitch++
		case *ast.IfStmt:
			be, ok := s.Cond.(*ast.BinaryExpr)
			if !ok || be.Op != token.LOR || s.Init != nil || s.Else != nil {
				unsupported = true
				continue
			}
			l, ok1 := be.X.(*ast.BinaryExpr)
			r, ok2 := be.Y.(*ast.BinaryExpr)
			if !ok1 || !ok2 || l.Op != token.LSS || r.Op != token.GTR {
				unsupported = true
				continue
			}
			fl, ok1 := field(l.X)
			fr, ok2 := field(r.X)
			cl, ok3 := constOf(l.Y)
			cr, ok4 := constOf(r.Y)
			if !ok1 || !ok2 || !ok3 || !ok4 || fl != fr {
				unsupported = true
				continue
			}
			g.pf("Definition aac_validate__%s_lt : Z := %s.\n", fl, cl)
			g.pf("Definition aac_validate__%s_gt : Z := %s.\n", fl, cr)
			nRange++
		case *ast.ReturnStmt:
		default:
			unsupported = true
		}
	}
	if unsupported || nSwitch != 1 || nRange != 2 {
		g.pf("Definition aac_validate_unsupported := tt.\n")
	}
}
