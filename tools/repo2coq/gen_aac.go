// gen_aac.go: extra generated definitions for package aac (property C11).
//   - the frequency table of SampleRateIndex.ToHz  Definition aac_ToHz__table : list Z := [..].
//     (whatever `return T[v]` indexes: local or package-level, any name; literals or named constants)
//   - AudioSpecificConfig.validate:            the constant case list of `switch v.Object`
//     (aac_validate__Object_cases) and the constants of the range tests `v.F < c || v.F > c`
//     (aac_validate__<F>_lt / _gt).  Anything else in validate that is not of this shape makes
//     the generator emit aac_validate_unsupported so that the dependent theorems stop compiling.
package main

import (
	"go/ast"
	"go/constant"
	"go/token"
	"go/types"
	"strings"
)

func init() {
	extraGens = append(extraGens, func(g *gen) {
		if pkgTag(g.p) != "aac" {
			return
		}
		for _, fd := range g.funcDecls() {
			// the frequency table of SampleRateIndex.ToHz: whatever `return T[v]` indexes -- a local
			// variable or a package-level array/slice, under any name -- with elements that are
			// literals or named constants (values through go/types)
			if fd.Name.Name == "ToHz" && recvName(fd) == "SampleRateIndex" {
				if vals, ok := g.indexedTable(fd); ok {
					g.pf("Definition aac_ToHz__table : list Z := [%s].\n", strings.Join(vals, "; "))
				} else {
					g.pf("Definition aac_ToHz__table_unsupported := tt.\n")
				}
			}
			if fd.Name.Name == "validate" && recvName(fd) == "AudioSpecificConfig" {
				g.aacValidate(fd)
			}
		}
		g.pf("\n")
	})
}

// the composite literal behind the table indexed in a `return T[i]` of fd
func (g *gen) indexedTable(fd *ast.FuncDecl) ([]string, bool) {
	var target types.Object
	ast.Inspect(fd.Body, func(n ast.Node) bool {
		rs, ok := n.(*ast.ReturnStmt)
		if !ok || len(rs.Results) != 1 {
			return true
		}
		if ix, ok := rs.Results[0].(*ast.IndexExpr); ok {
			if id, ok := ix.X.(*ast.Ident); ok {
				target = g.p.TypesInfo.Uses[id]
			}
		}
		return true
	})
	if target == nil {
		return nil, false
	}
	var lit *ast.CompositeLit
	for _, f := range g.p.Syntax {
		ast.Inspect(f, func(n ast.Node) bool {
			switch x := n.(type) {
			case *ast.AssignStmt:
				for i, l := range x.Lhs {
					if id, ok := l.(*ast.Ident); ok && g.p.TypesInfo.Defs[id] == target && i < len(x.Rhs) {
						if cl, ok := x.Rhs[i].(*ast.CompositeLit); ok {
							lit = cl
						}
					}
				}
			case *ast.ValueSpec:
				for i, id := range x.Names {
					if g.p.TypesInfo.Defs[id] == target && i < len(x.Values) {
						if cl, ok := x.Values[i].(*ast.CompositeLit); ok {
							lit = cl
						}
					}
				}
			}
			return true
		})
	}
	if lit == nil {
		return nil, false
	}
	return g.intElems(lit)
}

func (g *gen) aacValidate(fd *ast.FuncDecl) {
	constOf := func(e ast.Expr) (string, bool) {
		tv, ok := g.p.TypesInfo.Types[e]
		if !ok || tv.Value == nil || tv.Value.Kind() != constant.Int {
			return "", false
		}
		return coqZ(tv.Value), true
	}
	field := func(e ast.Expr) (string, bool) {
		se, ok := e.(*ast.SelectorExpr)
		if !ok {
			return "", false
		}
		if _, ok := se.X.(*ast.Ident); !ok {
			return "", false
		}
		return se.Sel.Name, true
	}
	unsupported := false
	nSwitch, nRange := 0, 0
	for _, st := range fd.Body.List {
		switch s := st.(type) {
		case *ast.SwitchStmt:
			f, ok := field(s.Tag)
			if !ok || s.Init != nil {
				unsupported = true
				continue
			}
			var vals []string
			for _, cc := range s.Body.List {
				c := cc.(*ast.CaseClause)
				if c.List == nil { // default: must return an error
					if len(c.Body) != 1 {
						unsupported = true
					} else if _, ok := c.Body[0].(*ast.ReturnStmt); !ok {
						unsupported = true
					}
					continue
				}
				if len(c.Body) != 0 {
					unsupported = true
				}
				for _, e := range c.List {
					v, ok := constOf(e)
					if !ok {
						unsupported = true
						continue
					}
					vals = append(vals, v)
				}
			}
			g.pf("Definition aac_validate__%s_cases : list Z := [%s].\n", f, strings.Join(vals, "; "))
			nSwitch++
		case *ast.IfStmt:
			be, ok := s.Cond.(*ast.BinaryExpr)
			if !ok || be.Op != token.LOR || s.Init != nil || s.Else != nil {
				unsupported = true
				continue
			}
			l, ok1 := be.X.(*ast.BinaryExpr)
			r, ok2 := be.Y.(*ast.BinaryExpr)
			if !ok1 || !ok2 || l.Op != token.LSS || r.Op != token.GTR {
				unsupported = true
				continue
			}
			fl, ok1 := field(l.X)
			fr, ok2 := field(r.X)
			cl, ok3 := constOf(l.Y)
			cr, ok4 := constOf(r.Y)
			if !ok1 || !ok2 || !ok3 || !ok4 || fl != fr {
				unsupported = true
				continue
			}
			g.pf("Definition aac_validate__%s_lt : Z := %s.\n", fl, cl)
			g.pf("Definition aac_validate__%s_gt : Z := %s.\n", fl, cr)
			nRange++
		case *ast.ReturnStmt:
		default:
			unsupported = true
		}
	}
	if unsupported || nSwitch != 1 || nRange != 2 {
		g.pf("Definition aac_validate_unsupported := tt.\n")
	}
}
