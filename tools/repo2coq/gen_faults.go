// gen_faults: source pins for property C08 (I/O failures keep their root cause).
//
//	errors:  errors_withMessage_sep : list N      the string literal between w.msg and
//	                                              w.cause.Error() in (*withMessage).Error
//	         errors_src_<name> : string           the whitespace-normalised source of the functions
//	                                              the model transcribes (New, Errorf, WithStack, Wrap,
//	                                              Wrapf, WithMessage, Cause, withStack.Cause,
//	                                              withMessage.Cause, withMessage.Error)
//
// Props/C08.v states the expected values; a source edit makes that file stop compiling, the check
// then searches for a failing input (DESIGN.md 2.5).
package main

import (
	"bytes"
	"go/ast"
	"go/constant"
	"go/printer"
	"go/token"
	"strconv"
	"strings"
)

var faultsErrFuncs = map[string]bool{
	"New": true, "Errorf": true, "WithStack": true, "Wrap": true, "Wrapf": true, "WithMessage": true,
	"Cause": true, "withStack.Cause": true, "withMessage.Cause": true, "withMessage.Error": true,
}

func faultsCoqString(s string) string {
	return "\"" + strings.Replace(s, "\"", "\"\"", -1) + "\"%string"
}

func faultsSrc(fd *ast.FuncDecl) string {
	var b bytes.Buffer
	if err := printer.Fprint(&b, token.NewFileSet(), fd.Body); err != nil {
		return "?"
	}
	return strings.Join(strings.Fields(b.String()), " ")
}

func init() {
	extraGens = append(extraGens, func(g *gen) {
		tag := pkgTag(g.p)
		switch tag {
		case "errors":
			for _, fd := range g.funcDecls() {
				name := fd.Name.Name
				if r := recvName(fd); r != "" {
					name = r + "." + name
				}
				if !faultsErrFuncs[name] {
					continue
				}
				g.pf("Definition errors_src_%s : string := %s.\n", ident(name), faultsCoqString(faultsSrc(fd)))
				if name == "withMessage.Error" {
					sep, ok := faultsSep(g, fd)
					if ok {
						var bs []string
						for i := 0; i < len(sep); i++ {
							bs = append(bs, strconv.Itoa(int(sep[i])))
						}
						g.pf("Definition errors_withMessage_sep : list N := [%s]%%N.\n", strings.Join(bs, "; "))
					} else {
						g.pf("Definition errors_withMessage_sep_unsupported := tt.\n")
					}
				}
			}
			g.pf("\n")
		}
	})
}

// return w.msg + LIT + w.cause.Error()
func faultsSep(g *gen, fd *ast.FuncDecl) (string, bool) {
	if len(fd.Body.List) != 1 {
		return "", false
	}
	ret, ok := fd.Body.List[0].(*ast.ReturnStmt)
	if !ok || len(ret.Results) != 1 {
		return "", false
	}
	outer, ok := ret.Results[0].(*ast.BinaryExpr)
	if !ok || outer.Op != token.ADD {
		return "", false
	}
	inner, ok := outer.X.(*ast.BinaryExpr)
	if !ok || inner.Op != token.ADD {
		return "", false
	}
	if s, ok := inner.X.(*ast.SelectorExpr); !ok || s.Sel.Name != "msg" {
		return "", false
	}
	call, ok := outer.Y.(*ast.CallExpr)
	if !ok {
		return "", false
	}
	if s, ok := call.Fun.(*ast.SelectorExpr); !ok || s.Sel.Name != "Error" {
		return "", false
	} else if c, ok := s.X.(*ast.SelectorExpr); !ok || c.Sel.Name != "cause" {
		return "", false
	}
	tv, ok := g.p.TypesInfo.Types[inner.Y]
	if !ok || tv.Value == nil || tv.Value.Kind() != constant.String {
		return "", false
	}
	return constant.StringVal(tv.Value), true
}
