package main

func (g *gen) skeletons() {}
