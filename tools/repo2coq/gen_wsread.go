// gen_wsread: the close-code predicate of the websocket reader, found by its ROLE, not its name:
// the package-level func(int) bool that (*Conn).advanceFrame (or a function it calls directly)
// applies to the status code decoded from a Close frame (a variable assigned from
// ...Uint16(payload)).  Two shapes of its body are translated,
//
//	return M[code] || (code >= lo && code <= hi)      M a package-level map[int]bool literal
//	switch code { case K...: return true|false ... }; return code >= lo && code <= hi
//
// to the fixed-name definitions
//
//	websocket_close_code_table : list (Z * bool)      websocket_close_code_valid : Z -> bool
//
// anything else yields websocket_close_code_valid_unsupported, so that Model/WsRead.v stops
// compiling and the check reports the lost tie.
package main

import (
	"fmt"
	"go/ast"
	"go/constant"
	"go/token"
	"go/types"
	"strings"
)

func init() {
	extraGens = append(extraGens, func(g *gen) {
		if pkgTag(g.p) != "websocket" {
			return
		}
		g.pf("\n(* close-code predicate of the reader, located by role (gen_wsread.go) *)\n")
		if !g.wsCloseCode() {
			g.pf("Definition websocket_close_code_valid_unsupported := tt.\n")
		}
		g.pf("\n")
	})
}

func (g *gen) wsFuncDecls() map[string]*ast.FuncDecl {
	m := map[string]*ast.FuncDecl{}
	for _, f := range g.p.Syntax {
		for _, d := range f.Decls {
			if fd, ok := d.(*ast.FuncDecl); ok && fd.Body != nil {
				name := fd.Name.Name
				if fd.Recv != nil {
					name = "." + name
				}
				m[name] = fd
			}
		}
	}
	return m
}

// the predicate applied to a variable that was assigned from an expression containing a Uint16 call
func (g *gen) wsFindCloseCodePred(fd *ast.FuncDecl, decls map[string]*ast.FuncDecl) *ast.FuncDecl {
	codeVars := map[types.Object]bool{}
	ast.Inspect(fd.Body, func(n ast.Node) bool {
		as, ok := n.(*ast.AssignStmt)
		if !ok || len(as.Lhs) != 1 || len(as.Rhs) != 1 {
			return true
		}
		has := false
		ast.Inspect(as.Rhs[0], func(m ast.Node) bool {
			if se, ok := m.(*ast.SelectorExpr); ok && se.Sel.Name == "Uint16" {
				has = true
			}
			return true
		})
		if id, ok := as.Lhs[0].(*ast.Ident); ok && has {
			if o := g.p.TypesInfo.ObjectOf(id); o != nil {
				codeVars[o] = true
			}
		}
		return true
	})
	var found *ast.FuncDecl
	ast.Inspect(fd.Body, func(n ast.Node) bool {
		ce, ok := n.(*ast.CallExpr)
		if !ok || found != nil || len(ce.Args) != 1 {
			return true
		}
		fid, ok := ce.Fun.(*ast.Ident)
		arg, ok2 := ce.Args[0].(*ast.Ident)
		if !ok || !ok2 || !codeVars[g.p.TypesInfo.ObjectOf(arg)] {
			return true
		}
		fn, ok := g.p.TypesInfo.ObjectOf(fid).(*types.Func)
		if !ok || fn.Pkg() != g.p.Types {
			return true
		}
		sig := fn.Type().(*types.Signature)
		if sig.Params().Len() != 1 || sig.Results().Len() != 1 ||
			!types.Identical(sig.Params().At(0).Type(), types.Typ[types.Int]) ||
			!types.Identical(sig.Results().At(0).Type(), types.Typ[types.Bool]) {
			return true
		}
		found = decls[fid.Name]
		return true
	})
	return found
}

func (g *gen) wsIntConst(e ast.Expr) (string, bool) {
	tv, ok := g.p.TypesInfo.Types[e]
	if !ok || tv.Value == nil || tv.Value.Kind() != constant.Int {
		return "", false
	}
	s := tv.Value.ExactString()
	if strings.HasPrefix(s, "-") {
		s = "(" + s + ")"
	}
	return s, true
}

func (g *gen) wsBoolLit(e ast.Expr) (bool, bool) {
	tv, ok := g.p.TypesInfo.Types[e]
	if !ok || tv.Value == nil || tv.Value.Kind() != constant.Bool {
		return false, false
	}
	return constant.BoolVal(tv.Value), true
}

// param >= lo && param <= hi (either order of the conjuncts, optional parentheses)
func (g *gen) wsRange(e ast.Expr, param types.Object) (lo, hi string, ok bool) {
	e = ast.Unparen(e)
	be, isb := e.(*ast.BinaryExpr)
	if !isb || be.Op != token.LAND {
		return
	}
	for _, side := range []ast.Expr{be.X, be.Y} {
		c, isc := ast.Unparen(side).(*ast.BinaryExpr)
		if !isc {
			return "", "", false
		}
		id, isid := c.X.(*ast.Ident)
		if !isid || g.p.TypesInfo.ObjectOf(id) != param {
			return "", "", false
		}
		v, isv := g.wsIntConst(c.Y)
		if !isv {
			return "", "", false
		}
		switch c.Op {
		case token.GEQ:
			lo = v
		case token.LEQ:
			hi = v
		default:
			return "", "", false
		}
	}
	return lo, hi, lo != "" && hi != ""
}

func (g *gen) wsCloseCode() bool {
	decls := g.wsFuncDecls()
	af := decls[".advanceFrame"]
	if af == nil {
		return false
	}
	pred := g.wsFindCloseCodePred(af, decls)
	if pred == nil {
		// one level down: a function advanceFrame calls
		ast.Inspect(af.Body, func(n ast.Node) bool {
			ce, ok := n.(*ast.CallExpr)
			if !ok || pred != nil {
				return true
			}
			var name string
			switch f := ce.Fun.(type) {
			case *ast.Ident:
				name = f.Name
			case *ast.SelectorExpr:
				name = "." + f.Sel.Name
			}
			if callee := decls[name]; callee != nil && callee != af {
				pred = g.wsFindCloseCodePred(callee, decls)
			}
			return true
		})
	}
	if pred == nil || pred.Type.Params == nil || len(pred.Type.Params.List) != 1 || len(pred.Type.Params.List[0].Names) != 1 {
		return false
	}
	param := g.p.TypesInfo.ObjectOf(pred.Type.Params.List[0].Names[0])
	var rows []string
	var lo, hi string
	mapShape := false
	stmts := pred.Body.List
	switch {
	case len(stmts) == 1:
		// return M[code] || range
		rs, ok := stmts[0].(*ast.ReturnStmt)
		if !ok || len(rs.Results) != 1 {
			return false
		}
		be, ok := ast.Unparen(rs.Results[0]).(*ast.BinaryExpr)
		if !ok || be.Op != token.LOR {
			return false
		}
		ix, ok := ast.Unparen(be.X).(*ast.IndexExpr)
		if !ok {
			return false
		}
		mid, ok1 := ix.X.(*ast.Ident)
		kid, ok2 := ix.Index.(*ast.Ident)
		if !ok1 || !ok2 || g.p.TypesInfo.ObjectOf(kid) != param {
			return false
		}
		mv, ok := g.p.TypesInfo.ObjectOf(mid).(*types.Var)
		if !ok || mv.Pkg() != g.p.Types || mv.Parent() != g.p.Types.Scope() {
			return false
		}
		var lit *ast.CompositeLit
		for _, f := range g.p.Syntax {
			for _, d := range f.Decls {
				gd, ok := d.(*ast.GenDecl)
				if !ok || gd.Tok != token.VAR {
					continue
				}
				for _, sp := range gd.Specs {
					vs := sp.(*ast.ValueSpec)
					for i, n := range vs.Names {
						if g.p.TypesInfo.ObjectOf(n) == mv && i < len(vs.Values) {
							lit, _ = vs.Values[i].(*ast.CompositeLit)
						}
					}
				}
			}
		}
		if lit == nil {
			return false
		}
		for _, el := range lit.Elts {
			kv, ok := el.(*ast.KeyValueExpr)
			if !ok {
				return false
			}
			k, ok1 := g.wsIntConst(kv.Key)
			b, ok2 := g.wsBoolLit(kv.Value)
			if !ok1 || !ok2 {
				return false
			}
			rows = append(rows, fmt.Sprintf("(%s, %v)", k, b))
		}
		var okr bool
		if lo, hi, okr = g.wsRange(be.Y, param); !okr {
			return false
		}
		mapShape = true
	case len(stmts) == 2:
		sw, ok := stmts[0].(*ast.SwitchStmt)
		if !ok || sw.Init != nil {
			return false
		}
		tag, ok := sw.Tag.(*ast.Ident)
		if !ok || g.p.TypesInfo.ObjectOf(tag) != param {
			return false
		}
		for _, cs := range sw.Body.List {
			cc := cs.(*ast.CaseClause)
			if cc.List == nil || len(cc.Body) != 1 {
				return false // a default clause or a body that is not a single return
			}
			rs, ok := cc.Body[0].(*ast.ReturnStmt)
			if !ok || len(rs.Results) != 1 {
				return false
			}
			b, ok := g.wsBoolLit(rs.Results[0])
			if !ok {
				return false
			}
			for _, ke := range cc.List {
				k, ok := g.wsIntConst(ke)
				if !ok {
					return false
				}
				rows = append(rows, fmt.Sprintf("(%s, %v)", k, b))
			}
		}
		rs, ok := stmts[1].(*ast.ReturnStmt)
		if !ok || len(rs.Results) != 1 {
			return false
		}
		var okr bool
		if lo, hi, okr = g.wsRange(rs.Results[0], param); !okr {
			return false
		}
	default:
		return false
	}
	pos := g.p.Fset.Position(pred.Pos())
	g.pf("(* %s %s:%d, %s shape *)\n", pred.Name.Name, wsBase(pos.Filename), pos.Line, map[bool]string{true: "map-lookup || range", false: "switch + range"}[mapShape])
	g.pf("Definition websocket_close_code_table : list (Z * bool) := [%s].\n", strings.Join(rows, "; "))
	g.pf("Fixpoint websocket_close_code_lookup (m : list (Z * bool)) (k : Z) : option bool :=\n  match m with [] => None | (k', b) :: t => if Z.eqb k k' then Some b else websocket_close_code_lookup t k end.\n")
	listedFalse := "false"
	if mapShape {
		listedFalse = fmt.Sprintf("((%s <=? code) && (code <=? %s))", lo, hi)
	}
	g.pf("Definition websocket_close_code_valid (code : Z) : bool :=\n  match websocket_close_code_lookup websocket_close_code_table code with\n  | Some true => true\n  | Some false => %s\n  | None => ((%s <=? code) && (code <=? %s))\n  end.\n", listedFalse, lo, hi)
	return true
}

func wsBase(p string) string {
	if i := strings.LastIndex(p, "/"); i >= 0 {
		return p[i+1:]
	}
	return p
}
