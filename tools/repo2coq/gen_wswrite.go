// gen_wswrite: websocket package-level byte-string variables used by the C13 model.
//
//	var keyGUID = []byte("258EAFA5-...")   ->  Definition websocket_keyGUID : list N := [50; 53; ...]%N.
//
// Any other shape of that declaration yields `websocket_keyGUID_unsupported`, so that
// Model/WsHandshake.v stops compiling.
package main

import (
	"go/ast"
	"go/constant"
	"go/token"
	"strconv"
	"strings"
)

func init() {
	extraGens = append(extraGens, func(g *gen) {
		if pkgTag(g.p) != "websocket" {
			return
		}
		found := false
		for _, f := range g.p.Syntax {
			for _, d := range f.Decls {
				gd, ok := d.(*ast.GenDecl)
				if !ok || gd.Tok != token.VAR {
					continue
				}
				for _, sp := range gd.Specs {
					vs, ok := sp.(*ast.ValueSpec)
					if !ok || len(vs.Names) != 1 || vs.Names[0].Name != "keyGUID" {
						continue
					}
					found = true
					okShape := false
					if len(vs.Values) == 1 {
						if ce, ok := vs.Values[0].(*ast.CallExpr); ok && len(ce.Args) == 1 {
							if tv, ok := g.p.TypesInfo.Types[ce.Args[0]]; ok && tv.Value != nil && tv.Value.Kind() == constant.String {
								if at, ok := ce.Fun.(*ast.ArrayType); ok && at.Len == nil {
									if id, ok := at.Elt.(*ast.Ident); ok && id.Name == "byte" {
										s := constant.StringVal(tv.Value)
										var el []string
										for i := 0; i < len(s); i++ {
											el = append(el, strconv.Itoa(int(s[i])))
										}
										g.pf("Definition websocket_keyGUID : list N := [%s]%%N.\n", strings.Join(el, "; "))
										okShape = true
									}
								}
							}
						}
					}
					if !okShape {
						g.pf("Definition websocket_keyGUID_unsupported := tt.\n")
					}
				}
			}
		}
		if !found {
			g.pf("Definition websocket_keyGUID_unsupported := tt.\n")
		}
		g.pf("\n")
	})
}
