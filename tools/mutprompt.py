#!/usr/bin/env python3
"""print the prompt for an independent mutant-writing sub-agent: property text + scratch worktree only"""
import json, sys
pid, wt = sys.argv[1], sys.argv[2]
n = sys.argv[3] if len(sys.argv) > 3 else "3"
hint = sys.argv[4] if len(sys.argv) > 4 else ""
for l in open('/verif/properties.jsonl'):
    p = json.loads(l)
    if p['id'] == pid:
        rec = {k: p[k] for k in ('id', 'title', 'statement', 'quantifier', 'why_tests_cant', 'anchors')}
print(f"""You are working in a scratch git worktree of the Go library ossrs/go-oryx-lib at {wt} (offline sandbox, nothing can be downloaded). Work ONLY inside that directory, do everything yourself (do NOT start sub-agents or background tasks; never use `git stash`, `git commit`, `git reset` or `git worktree` — the repository metadata is shared): do not read, list or use anything under /verif, /repo or /root — your result must be independent of any existing verification machinery. Every shell call needs: export GOFLAGS=-mod=mod GOPROXY=off GOSUMDB=off GOTOOLCHAIN=local  (go is 1.23; the module's go.mod says `go 1.4.0`, so code is compiled with -lang=go1.4: no 0o literals, no generics, unsigned shift counts).

Here is a semantic property this library is supposed to satisfy (the file/line anchors say where the mechanism lives):

{json.dumps(rec, indent=1)}

TASK. Produce {n} independent changes to the library's NON-TEST source files, each of which breaks this property while the library still compiles (`go build ./... && go vet ./... || true`) and the existing test suite still passes unedited (`go test -vet=off -count=1 ./...` from the worktree root; note the baseline result first). Each change must be realistic — the kind of regression a plausible refactoring, optimisation, clean-up or 'simplification' could introduce, small (a few lines) — and must need something specific to manifest: a particular interleaving, a fault or cut at a particular point, a multi-step sequence of operations, an unusual but legal input (boundary size, rare field combination), or two cooperating sites that each look fine alone. Not a change that ordinary use or the first obvious test would expose at once, and not a change that merely breaks compilation or an existing test. The {n} changes should attack different parts of the mechanism. {hint}

For each change i = 1..{n} create {wt}/_mut/<i>/ containing:
  patch.diff   — `git diff` against HEAD of the non-test source change only; must apply with `git apply` from the worktree root
  demo_test.go — a self-contained Go test (state in its first comment line which package directory it must be copied into, e.g. `// copy to: kxps/`) that FAILS with the change applied and PASSES on the unchanged tree; it may be in-package to reach unexported identifiers; deterministic (for schedule-dependent breakage make the demonstration deterministic with channels/hooks inside the test, or loop until it manifests with a generous bound)
  README.md    — what the change breaks (in terms of the property), what it needs in order to manifest, and the exact commands to reproduce (apply, copy demo, go test -run ...)
Verify each one yourself: change applied -> build ok, full existing suite passes, demo fails; change reverted -> demo passes. Finally leave the worktree source clean (`git checkout -- .`, delete copied demo files) so that only _mut/ remains untracked. Final report: for each change one paragraph (what, why it still passes the suite, what triggers it).""")
