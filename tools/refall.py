#!/usr/bin/env python3
"""refall [names...] [--jobs=N]: re-run tools/refcheck.py for every kept behaviour-preserving refactoring and refresh its meta.json"""
import sys, os, json, glob, subprocess
from concurrent.futures import ThreadPoolExecutor
V = "/verif"
names = [a for a in sys.argv[1:] if not a.startswith("--")]
jobs = 4
for a in sys.argv[1:]:
    if a.startswith("--jobs="):
        jobs = int(a.split("=")[1])
dirs = [os.path.join(V, "benign", n) for n in names] or sorted(glob.glob(V + "/benign/*/"))
def one(d):
    d = d.rstrip("/")
    meta = json.load(open(d + "/meta.json"))
    pids = list(meta.get("check_with") or meta.get("stays_green", {}).keys() or [meta["property"]])
    p = subprocess.run(["python3", V + "/tools/refcheck.py", d] + pids, stdout=subprocess.PIPE, stderr=subprocess.DEVNULL, text=True)
    try:
        r = json.loads(p.stdout)
    except Exception:
        return os.path.basename(d), None, p.stdout[-300:]
    chk = r.get("checks", {})
    meta["usable"] = r.get("usable")
    meta["check_results"] = {q: {"exit": c["exit"], "violation_lines": [v.split(" replay=")[0] + (" ... no-failing-input-found" if v.endswith("no-failing-input-found") else "") for v in c["violation_lines"]],
                                 "summary": c["summary"][:4]} for q, c in chk.items()}
    meta["stays_green"] = {q: c["exit"] == 0 and not c["violation_lines"] for q, c in chk.items()}
    json.dump(meta, open(d + "/meta.json", "w"), indent=1)
    return os.path.basename(d), r.get("usable"), meta["stays_green"]
with ThreadPoolExecutor(jobs) as ex:
    for r in ex.map(one, dirs):
        print(*r)
