#!/bin/sh
# mutstart.sh <property> <suffix> [n] [hint] : scratch worktree of /repo HEAD + prompt for an isolated mutant-writing sub-agent
set -e
P=$1; S=$2; N=${3:-3}; H=${4:-}
W=/tmp/mut/$P$S
mkdir -p /tmp/mut
git -C /repo worktree add --detach $W HEAD >/dev/null 2>&1
python3 /verif/tools/mutprompt.py $P $W $N "$H" > $W/_PROMPT.md
echo $W
