#!/usr/bin/env python3
"""seedcheck -- confirm a seeded change and run the checks against it, without touching /repo.

  tools/seedcheck.py <mutdir> <property-id> [<more property ids>...] [--tier quick] [--keep]

<mutdir> holds patch.diff and demo_test.go (first line: `// copy to: <pkg dir>/`).
Steps (all in a scratch worktree of /repo's HEAD and a scratch copy of /verif):
  1 demo on the unchanged tree        -> must pass
  2 apply patch; go build; full suite -> must pass
  3 demo with the patch               -> must fail
  4 ./check <id> against the patched worktree (VERIF_REPO) -> expect exit 1 + VIOLATION
Prints a JSON summary; exit 0 if the change is confirmed (1-3), regardless of 4.
"""
import sys, os, subprocess, json, re, shutil, time

ENV = dict(os.environ, GOFLAGS="-mod=mod", GOPROXY="off", GOSUMDB="off", GOTOOLCHAIN="local")


def sh(cmd, cwd=None, env=None, timeout=3600):
    try:
        p = subprocess.run(cmd, cwd=cwd, env=env or ENV, shell=isinstance(cmd, str), stdout=subprocess.PIPE,
                           stderr=subprocess.STDOUT, text=True, errors="replace", timeout=timeout)
        return p.returncode, p.stdout
    except subprocess.TimeoutExpired as e:
        return 124, "[timeout]"


def main():
    args = [a for a in sys.argv[1:] if not a.startswith("--")]
    tier = "quick"
    if "--tier" in sys.argv:
        tier = sys.argv[sys.argv.index("--tier") + 1]
        args = [a for a in args if a != tier]
    keep = "--keep" in sys.argv
    mutdir, pids = os.path.abspath(args[0]), args[1:]
    name = re.sub(r"[^A-Za-z0-9_]", "_", mutdir.strip("/"))[-40:] + "_%d" % os.getpid()
    wt = "/tmp/seedchk/wt_" + name
    vc = "/tmp/seedchk/verif_" + name
    os.makedirs("/tmp/seedchk", exist_ok=True)
    res = {"mutdir": mutdir, "properties": pids, "tier": tier}
    demo = open(os.path.join(mutdir, "demo_test.go")).read()
    m = re.search(r"copy to:\s*(\S+)", demo)
    pkg = m.group(1).strip("/") if m else None
    if pkg is None:
        print(json.dumps({"error": "demo_test.go lacks `// copy to: <dir>`"})); return 2
    tests = re.findall(r"^func (Test[A-Za-z0-9_]+)\(", demo, flags=re.M)
    runpat = "^(" + "|".join(tests) + ")$"
    try:
        rc, out = sh(["git", "-C", "/repo", "worktree", "add", "--detach", wt, "HEAD"])
        if rc != 0:
            print(json.dumps({"error": "worktree: " + out})); return 2
        demo_dst = os.path.join(wt, pkg, "zz_seed_demo_test.go")
        # 1 demo passes on the unchanged tree
        shutil.copy(os.path.join(mutdir, "demo_test.go"), demo_dst)
        rc, out = sh(["go", "test", "-vet=off", "-count=1", "-run", runpat, "."], cwd=os.path.join(wt, pkg), timeout=900)
        res["demo_clean_pass"] = rc == 0
        res["demo_clean_tail"] = out[-600:]
        os.remove(demo_dst)
        # 2 patch, build, suite
        rc, out = sh(["git", "apply", os.path.join(mutdir, "patch.diff")], cwd=wt)
        res["patch_applies"] = rc == 0
        if rc != 0:
            res["patch_err"] = out[-800:]
        rc, out = sh("go build ./... ", cwd=wt, timeout=900)
        res["build_ok"] = rc == 0
        rc, out = sh("go test -vet=off -count=1 ./... 2>&1 | grep -v '^ok\\|no test files' | tail -20", cwd=wt, timeout=1800)
        rc2, out2 = sh("go test -vet=off -count=1 ./... >/dev/null 2>&1", cwd=wt, timeout=1800)
        res["suite_pass"] = rc2 == 0
        res["suite_tail"] = out[-800:]
        # 3 demo fails with the patch
        shutil.copy(os.path.join(mutdir, "demo_test.go"), demo_dst)
        rc, out = sh(["go", "test", "-vet=off", "-count=1", "-run", runpat, "."], cwd=os.path.join(wt, pkg), timeout=900)
        res["demo_mut_fail"] = rc != 0
        res["demo_mut_tail"] = out[-800:]
        os.remove(demo_dst)
        res["confirmed"] = bool(res["demo_clean_pass"] and res["patch_applies"] and res["build_ok"] and res["suite_pass"] and res["demo_mut_fail"])
        # 4 checks
        if pids:
            sh(["rsync", "-a", "--exclude", ".git", "--exclude", "build/run", "--exclude", "build/replay", "--exclude", "build/.*lock", "/verif/", vc + "/"])
            res["checks"] = {}
            for pid in pids:
                t0 = time.time()
                env = dict(ENV, VERIF_REPO=wt, VERIF_COQCHK="0")
                rc, out = sh(["./check", pid, "--tier", tier], cwd=vc, env=env, timeout=3600)
                vl = [l for l in out.splitlines() if l.startswith("VIOLATION")]
                rpl = None
                if vl:
                    mm = re.search(r"replay=(\S+)", vl[0])
                    if mm and os.path.exists(mm.group(1)):
                        rpl = json.load(open(mm.group(1)))
                res["checks"][pid] = {"exit": rc, "violation_lines": vl, "wall_s": round(time.time() - t0, 1),
                                      "summary": [l[:400] for l in out.splitlines() if l.startswith(("check ", "broken:", "note:", "KNOWN"))][:8],
                                      "replay": {k: (str(v)[:600]) for k, v in (rpl or {}).items() if k in ("case", "oracle", "broken", "classifier")}}
    finally:
        if not keep:
            sh(["git", "-C", "/repo", "worktree", "remove", "--force", wt])
            shutil.rmtree(vc, ignore_errors=True)
            shutil.rmtree(wt, ignore_errors=True)
            sh(["git", "-C", "/repo", "worktree", "prune"])
    print(json.dumps(res, indent=1))
    return 0 if res.get("confirmed") else 1


if __name__ == "__main__":
    sys.exit(main())
