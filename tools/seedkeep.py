#!/usr/bin/env python3
"""seedkeep <mutdir> <name> <property> <seedcheck-result.json> "<needs>" : store a confirmed seeded change under /verif/seeded/<name>/"""
import sys, os, json, shutil
mutdir, name, pid, resf, needs = sys.argv[1:6]
r = json.load(open(resf))
assert r.get("confirmed"), "not confirmed"
d = "/verif/seeded/" + name
os.makedirs(d, exist_ok=True)
for f in ("patch.diff", "demo_test.go", "README.md"):
    if os.path.exists(os.path.join(mutdir, f)):
        shutil.copy(os.path.join(mutdir, f), os.path.join(d, f))
chk = r.get("checks", {})
meta = {
    "property": pid,
    "breaks": open(os.path.join(mutdir, "README.md")).read().split("\n\n")[0][:1200] if os.path.exists(os.path.join(mutdir, "README.md")) else "",
    "needs_to_manifest": needs,
    "confirmed_by": "tools/seedcheck.py in a scratch worktree of /repo HEAD: demo passes on the unchanged tree, patch applies, go build ./... ok, go test -vet=off -count=1 ./... passes with the patch, demo fails with the patch",
    "what_i_ran": "python3 tools/seedcheck.py <dir> " + " ".join(chk.keys()),
    "check_results": {p: {"exit": c["exit"], "violation_lines": [v.replace(v.split("replay=")[1].split()[0], "<replay>") if "replay=" in v else v for v in c["violation_lines"]],
                          "summary": c["summary"][:3], "oracle": c.get("replay", {}).get("oracle")} for p, c in chk.items()},
    "caught": {p: c["exit"] == 1 and bool(c["violation_lines"]) for p, c in chk.items()},
}
json.dump(meta, open(os.path.join(d, "meta.json"), "w"), indent=1)
print("kept", d, meta["caught"])
