#!/usr/bin/env python3
"""regenerate DESIGN.md section 8 (which checks catch which seeded changes) from seeded/*/meta.json"""
import json, glob, os, re
rows = []
for d in sorted(glob.glob("/verif/seeded/*/")):
    m = json.load(open(d + "meta.json"))
    name = os.path.basename(d.rstrip("/"))
    res = []
    for p, c in m.get("check_results", {}).items():
        caught = m.get("caught", {}).get(p)
        how = ""
        if caught:
            vl = " ".join(c.get("violation_lines", []))
            if "no-failing-input-found" in vl:
                how = "broken proof/correspondence, no failing input"
            else:
                o = c.get("oracle") or ""
                mm = re.search(r"'name': '([^']+)'", o)
                how = "failing input, oracle `%s`" % (mm.group(1) if mm else "?")
            s0 = (c.get("summary") or [""])[0]
            pm = re.search(r"P=(\w+) C=(\w+)", s0)
            if pm:
                how += "; P=%s C=%s" % (pm.group(1), pm.group(2))
        res.append("%s: %s" % (p, ("caught (%s)" % how) if caught else "MISSED"))
    note = m.get("note", "")
    rows.append("| `%s` | %s | %s | %s |" % (name, m.get("needs_to_manifest", "").replace("|", "/"), "<br>".join(res), note))
sec = ["## 8. Seeded changes and which checks catch them", "",
       "Each row is a change written by an isolated sub-agent that saw only the property text and a scratch worktree",
       "(`seeded/<name>/`: patch.diff, demo_test.go, meta.json); confirmed by `tools/seedcheck.py` (demo passes clean, patch",
       "builds, whole existing suite passes, demo fails) and then run against `./check <ID>` (quick tier unless noted) from a",
       "scratch copy of /verif with `VERIF_REPO` pointing at the patched worktree. \"failing input\" = VIOLATION with a replayable",
       "case; P/C = whether the proof obligation / the model correspondence also broke. Regenerate with `tools/seedtable.py`",
       "after `tools/seedall.py`.", "",
       "| seeded change | needs, in order to manifest | result | note |", "|---|---|---|---|"] + rows + [""]
p = "/verif/DESIGN.md"
s = open(p).read()
i = s.find("## 8. Seeded changes and which checks catch them")
j = s.find("## Appendix A")
block = "\n".join(sec) + "\n---------------------------------------------------------------------------------------------\n\n"
if i >= 0:
    s = s[:i] + block + s[j:]
else:
    s = s[:j] + block + s[j:]
open(p, "w").write(s)
print(len(rows), "rows")
