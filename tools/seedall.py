#!/usr/bin/env python3
"""seedall [names...] [--jobs=N]: re-run tools/seedcheck.py for every kept seeded change and refresh its meta.json"""
import sys, os, json, glob, subprocess
from concurrent.futures import ThreadPoolExecutor
V = "/verif"
names = [a for a in sys.argv[1:] if not a.startswith("--")]
jobs = 4
for a in sys.argv[1:]:
    if a.startswith("--jobs="):
        jobs = int(a.split("=")[1])
dirs = [os.path.join(V, "seeded", n) for n in names] or sorted(glob.glob(V + "/seeded/*/"))
def one(d):
    d = d.rstrip("/")
    meta = json.load(open(d + "/meta.json"))
    pids = meta.get("check_with") or [meta["property"]]
    p = subprocess.run(["python3", V + "/tools/seedcheck.py", d] + pids, stdout=subprocess.PIPE, stderr=subprocess.DEVNULL, text=True)
    try:
        r = json.loads(p.stdout)
    except Exception:
        return os.path.basename(d), None, p.stdout[-300:]
    chk = r.get("checks", {})
    meta["check_results"] = {q: {"exit": c["exit"], "violation_lines": [v.replace(v.split("replay=")[1].split()[0], "<replay>") if "replay=" in v else v for v in c["violation_lines"]],
                                 "summary": c["summary"][:3], "oracle": c.get("replay", {}).get("oracle")} for q, c in chk.items()}
    meta["caught"] = {q: c["exit"] == 1 and bool(c["violation_lines"]) for q, c in chk.items()}
    meta["still_confirmed"] = r.get("confirmed")
    json.dump(meta, open(d + "/meta.json", "w"), indent=1)
    return os.path.basename(d), r.get("confirmed"), meta["caught"], [v for c in meta["check_results"].values() for v in c["violation_lines"]]
with ThreadPoolExecutor(jobs) as ex:
    for r in ex.map(one, dirs):
        print(*r)
