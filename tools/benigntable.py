#!/usr/bin/env python3
"""regenerate DESIGN.md section 11 (behaviour-preserving refactorings and what the checks do on them) from benign/*/meta.json"""
import json, glob, os
rows = []
for p in sorted(glob.glob("/verif/benign/*/meta.json")):
    m = json.load(open(p)); name = os.path.basename(os.path.dirname(p))
    readme = os.path.join(os.path.dirname(p), "README.md")
    first = ""
    if os.path.exists(readme):
        for ln in open(readme):
            ln = ln.strip()
            if ln and not ln.startswith("#"):
                first = ln; break
    rows.append((name, m, first))
green = sum(1 for _, m, _ in rows if m.get("stays_green") and all(m["stays_green"].values()))
sec = ["## 11. Behaviour-preserving refactorings (generated from benign/*/meta.json)", "",
       "The counterpart of section 8: fresh sub-agents, given only a property's text and a scratch worktree, wrote realistic",
       "clean-up commits that PRESERVE the property (rename/extract/inline, loop and switch restructuring, encoding/binary instead",
       "of manual packing, hoisted tables, moved code, occasionally a reworded error text the property does not constrain), each",
       "with an equivalence argument and a throw-away differential test. `tools/refcheck.py` applies each to a scratch worktree,",
       "confirms build + unedited suite, and runs the property's check against it (`VERIF_REPO`). Expected: exit 0. A check that",
       "alarms here either demands more than the property states (error wording, unexported names: corrected in the machinery)",
       "or lost its translator tie because `repo2coq` does not recognise the new shape — then the proof obligation over the",
       "regenerated definitions is genuinely not re-established and the check reports `VIOLATION ... no-failing-input-found` as",
       "the interface requires; the translator plug-ins were widened so that the shapes below are recognised. Rows are the state",
       "at the last `tools/refall.py` run. History: at first 10 of the 38 round-1 refactorings and 6 + 4 of the 22 rename/move-heavy",
       "round-2 ones raised an alarm (one of them, C03-3, a concrete false verdict through a silent reflect-by-name lookup); after the",
       "corrections described in 2.9 all of those are quiet while every seeded change of section 8 is still caught. A third round (20",
       "more, rename/move-heavy, for the remaining properties) found one more misclassification (a loud harness failure recorded as a",
       "`no-panic` oracle verdict in C05/C06: now `vAbort`, which ends the run as a broken tie) and leaves three alarms, all",
       "`no-failing-input-found` with the replay naming what is missing: C10-3 and C17-3 rename an unexported error sentinel the",
       "in-package harness compares by identity (`errDataNotEnough`, `commentNotMatch`), C11-3 renames the `validate` method whose bounds",
       "the translator emits under that name. These are the documented residue: a harness or translator anchored on an unexported NAME",
       "loses its tie when the name goes, and says so instead of guessing.", "",
       "%d refactorings, %d leave every check they were run against green." % (len(rows), green), "",
       "| refactoring | checks run -> stays green | what it changes |", "|---|---|---|"]
for name, m, first in rows:
    sg = m.get("stays_green", {})
    sec.append("| `%s` | %s | %s |" % (name, ", ".join("%s: %s" % (k, "green" if v else "ALARM (no-failing-input-found)") for k, v in sg.items()) or "not usable", (m.get("note", "") + " " + first).strip().replace("|", "/")[:300]))
sec.append("")
p = "/verif/DESIGN.md"
s = open(p).read()
block = "\n".join(sec) + "\n---------------------------------------------------------------------------------------------\n\n"
i = s.find("## 11. Behaviour-preserving refactorings")
j = s.find("## Appendix A")
s = (s[:i] if i >= 0 else s[:j]) + block + s[j:]
open(p, "w").write(s)
print(len(rows), "refactorings,", green, "green")
