#!/usr/bin/env python3
"""regenerate DESIGN.md section 10 (as-built per-property summary) from kits/*/kit.json and coq/Props/*.v"""
import json, glob, re, os
sec = ["## 10. As built: per-property summary (generated from kits/*/kit.json and coq/Props/*.v)", "",
       "Section 4 is the plan written before the build; this section is what exists. For each property: the theorems in",
       "`coq/Props/<ID>.v` (all Qed-closed; `Print Assumptions` output is checked on every run), what the check claims",
       "(`level_text`) and what is modelled-not-verified / assumed / partial (`level_note`), the harness entries and the",
       "non-triviality rule used for `distinct_nontrivial`.", ""]
for p in sorted(glob.glob("/verif/kits/C*/kit.json")):
    k = json.load(open(p)); pid = k.get("id") or os.path.basename(os.path.dirname(p))
    src = open("/verif/coq/Props/%s.v" % pid).read()
    stripped = re.sub(r"\(\*.*?\*\)", "", src, flags=re.S)
    th = re.findall(r"^\s*(?:Theorem|Lemma|Corollary|Example|Fact|Proposition)\s+([A-Za-z0-9_']+)", stripped, flags=re.M)
    sec += ["### %s" % pid, "",
            "* **Theorems (%d):** %s" % (len(th), ", ".join("`%s`" % t for t in th)),
            "* **Claim:** " + k.get("level_text", "").replace("\n", " "),
            "* **Assumed / modelled-not-verified / partial:** " + k.get("level_note", "").replace("\n", " "),
            "* **Technique:** " + k.get("technique", ""),
            "* **Harness:** " + "; ".join("%s in package `%s`%s" % (h.get("test"), h.get("pkg"), " (-race)" if h.get("race") else "") for h in k.get("harness", [])),
            "* **Non-trivial case rule:** " + k.get("nontrivial_rule", ""),
            "* **Allowed axioms:** " + (", ".join(k.get("allowed_axioms", [])) or "none"), ""]
p = "/verif/DESIGN.md"
s = open(p).read()
block = "\n".join(sec) + "\n---------------------------------------------------------------------------------------------\n\n"
i = s.find("## 10. As built: per-property summary")
j = s.find("## Appendix A")
s = (s[:i] if i >= 0 else s[:j]) + block + s[j:]
open(p, "w").write(s)
print("ok")
