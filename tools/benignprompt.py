#!/usr/bin/env python3
"""print the prompt for an independent sub-agent writing PROPERTY-PRESERVING refactorings: property text + scratch worktree only"""
import json, sys
pid, wt = sys.argv[1], sys.argv[2]
n = sys.argv[3] if len(sys.argv) > 3 else "2"
focus = sys.argv[4] if len(sys.argv) > 4 else ""
for l in open('/verif/properties.jsonl'):
    p = json.loads(l)
    if p['id'] == pid:
        rec = {k: p[k] for k in ('id', 'title', 'statement', 'quantifier', 'anchors')}
print(f"""You are working in a scratch git worktree of the Go library ossrs/go-oryx-lib at {wt} (offline sandbox, nothing can be downloaded). Work ONLY inside that directory, do everything yourself (do NOT start sub-agents or background tasks; never use `git stash`, `git commit`, `git reset` or `git worktree` — the repository metadata is shared): do not read, list or use anything under /verif, /repo or /root. Every shell call needs: export GOFLAGS=-mod=mod GOPROXY=off GOSUMDB=off GOTOOLCHAIN=local  (go is 1.23; the module's go.mod says `go 1.4.0`, so code is compiled with -lang=go1.4: no 0o literals, no generics, unsigned shift counts).

Here is a semantic property this library satisfies (the file/line anchors say where the mechanism lives):

{json.dumps(rec, indent=1)}

TASK. Produce {n} independent, realistic REFACTORINGS of the library's NON-TEST source files, in the code that implements this property (the anchored functions and the helpers they use), each of which PRESERVES the property and every behaviour observable through the package's API that the property talks about — for every input, history and schedule, not only the common ones. They are the kind of clean-up commit a maintainer makes: 5-40 changed lines each, e.g. rename locals / unexported identifiers, extract or inline a helper, reorder independent statements, turn an if/else chain into a switch or early returns, replace a loop form, replace manual byte packing by encoding/binary or the reverse, change an allocation/buffer strategy without aliasing anything the caller can see, reorder unexported struct fields, add or fix comments, hoist a constant. Change {n} must restructure the control flow or data handling of the core mechanism (not only rename things). One of the changes MAY additionally reword the text of an error message or log line in a place where the property does not constrain the text (keep error identity/root causes, codes and classes unchanged). {focus} Do not change exported identifiers, signatures, constants' values, wire formats, error kinds, locking discipline or anything the property depends on. Be careful: a refactoring that subtly changes behaviour on a rare input is NOT acceptable here — think through boundaries (empty input, maximum sizes, error paths, reuse of objects, concurrency) and convince yourself it is equivalent.

For each change i = 1..{n} create {wt}/_ref/<i>/ containing:
  patch.diff — `git diff` against HEAD of the non-test source change only; must apply with `git apply` from the worktree root
  README.md  — what was refactored and the argument why behaviour relevant to the property is unchanged (mention boundaries you considered)
Verify each one: change applied -> `go build ./...` ok and the full existing suite passes (`go test -vet=off -count=1 ./...`); write a quick throw-away differential test of old vs new behaviour if that helps you (do not keep it). Finally leave the worktree source clean (`git checkout -- .`) so that only _ref/ remains untracked. Final report: one paragraph per change.""")
