#!/bin/sh
# regenerate the generated sections of DESIGN.md (8, 9, 10, 11) -- ORDER MATTERS: each tool rewrites from its heading to Appendix A
set -e
python3 /verif/tools/seedtable.py | tail -1
python3 /verif/tools/findingstable.py
python3 /verif/tools/asbuilt.py
python3 /verif/tools/benigntable.py
grep -c '^## ' /verif/DESIGN.md
