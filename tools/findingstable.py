#!/usr/bin/env python3
"""regenerate DESIGN.md section 9 (defects: final disposition) from known_findings.txt and /repo's fix: commits"""
import re, subprocess
known, fixed = [], []
for ln in open("/verif/known_findings.txt"):
    m = re.match(r"^known:\s+property=(\S+)\s+key=(\S+)\s+(.*)$", ln.strip())
    if m: known.append(m.groups())
    m = re.match(r"^fixed:\s+property=(\S+)\s+(\S+)\s+(.*)$", ln.strip())
    if m: fixed.append(m.groups())
log = subprocess.run(["git", "-C", "/repo", "log", "--format=%h %s"], stdout=subprocess.PIPE, text=True).stdout.splitlines()
fixes = [l for l in log if " fix:" in l[:14] or l.split(" ", 1)[1].startswith("fix:")]
def esc(s): return s.replace("|", "/")
sec = ["## 9. Defects: final disposition (generated from known_findings.txt and `git -C /repo log`)", "",
       "`fix:` commits in /repo: %d (each one defect, unguarded, existing suite unedited and passing). Recorded findings: %d." % (len(fixes), len(known)), "",
       "### 9.1 Recorded findings (check prints KNOWN-FINDING and exits 0; anything not matching the key's classifier is a VIOLATION)", "",
       "| property | key | what fails |", "|---|---|---|"]
sec += ["| %s | `%s` | %s |" % (p, k, esc(d)[:700]) for p, k, d in known]
sec += ["", "### 9.2 Fixed in /repo (a `fixed:` entry suppresses nothing; the old witnesses stay in corpus/<ID>/ and run first)", "",
        "| property | commit | what failed |", "|---|---|---|"]
sec += ["| %s | `%s` | %s |" % (p, c, esc(d)[:400]) for p, c, d in fixed]
sec += ["", "### 9.3 All `fix:` commits", ""] + ["* `%s`" % esc(l)[:300] for l in fixes] + [""]
p = "/verif/DESIGN.md"
s = open(p).read()
block = "\n".join(sec) + "\n---------------------------------------------------------------------------------------------\n\n"
i = s.find("## 9. Defects: final disposition")
j = s.find("## Appendix A")
s = (s[:i] if i >= 0 else s[:j]) + block + s[j:]
open(p, "w").write(s)
print(len(known), "known,", len(fixed), "fixed entries,", len(fixes), "fix commits")
