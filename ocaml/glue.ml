(* Generic model runner: reads one s-expression per line on stdin, applies the extracted
   [Model.run : sx -> sx], prints the resulting s-expression on one line and flushes.
   Text format:  integers decimal (optionally negative), byte strings x<hex> ("x" = empty),
   lists ( a b c ).  The only extraction library used is ExtrOcamlBasic; numbers stay
   positive/N/Z, so the conversions below are the whole glue. *)
open Model
(* a model that extracts Coq's [string] inductive shadows OCaml's type name; re-bind it *)
type string = String.t

let rec pos_of_int n =
  if n = 1 then XH else if n land 1 = 0 then XO (pos_of_int (n lsr 1)) else XI (pos_of_int (n lsr 1))
let n_of_int n = if n = 0 then N0 else Npos (pos_of_int n)
let rec int_of_pos = function XH -> 1 | XO p -> 2 * int_of_pos p | XI p -> 2 * int_of_pos p + 1
let int_of_n = function N0 -> 0 | Npos p -> int_of_pos p

(* arbitrary-precision decimal <-> positive, via lists of decimal digits *)
(* divide a big-endian decimal digit list by 2, returning quotient digits and remainder *)
let div2 (ds : int list) : int list * int =
  let rec go ds carry acc = match ds with
    | [] -> (List.rev acc, carry)
    | d :: t -> let v = carry * 10 + d in go t (v land 1) ((v lsr 1) :: acc) in
  let (q, r) = go ds 0 [] in
  let rec strip = function 0 :: (_ :: _ as t) -> strip t | l -> l in
  (strip q, r)

let rec pos_of_digits (ds : int list) : positive =
  (* ds > 0 *)
  if ds = [1] then XH
  else let (q, r) = div2 ds in
    if r = 0 then XO (pos_of_digits q) else XI (pos_of_digits q)

let digits_of_string s = List.init (String.length s) (fun i -> Char.code s.[i] - 48)

let z_of_string (s : string) : z =
  let neg = String.length s > 0 && s.[0] = '-' in
  let body = if neg then String.sub s 1 (String.length s - 1) else s in
  if body = "" then failwith "empty integer";
  String.iter (fun c -> if c < '0' || c > '9' then failwith ("bad integer " ^ s)) body;
  let rec strip = function 0 :: (_ :: _ as t) -> strip t | l -> l in
  let ds = strip (digits_of_string body) in
  if ds = [0] then Z0
  else if String.length body <= 18 then
    let v = int_of_string body in
    if neg then Zneg (pos_of_int v) else Zpos (pos_of_int v)
  else let p = pos_of_digits ds in if neg then Zneg p else Zpos p

(* positive -> decimal string: double-and-add over a little-endian digit array *)
let string_of_pos (p : positive) : string =
  let rec bits p acc = match p with XH -> 1 :: acc | XO q -> bits q (0 :: acc) | XI q -> bits q (1 :: acc) in
  let bs = bits p [] in  (* most significant first *)
  if List.length bs <= 61 then string_of_int (List.fold_left (fun a b -> 2 * a + b) 0 bs)
  else begin
    let digits = ref [0] in  (* little endian *)
    let double_add b =
      let rec go ds carry = match ds with
        | [] -> if carry > 0 then [carry] else []
        | d :: t -> let v = 2 * d + carry in (v mod 10) :: go t (v / 10) in
      digits := go !digits b in
    List.iter double_add bs;
    String.concat "" (List.rev_map string_of_int !digits)
  end

let string_of_z = function
  | Z0 -> "0"
  | Zpos p -> string_of_pos p
  | Zneg p -> "-" ^ string_of_pos p

let hexval c = match c with
  | '0'..'9' -> Char.code c - 48
  | 'a'..'f' -> Char.code c - 87
  | 'A'..'F' -> Char.code c - 55
  | _ -> failwith "bad hex"

let bytes_of_hex (s : string) (off : int) : n list =
  let len = String.length s - off in
  if len land 1 = 1 then failwith "odd hex";
  let rec go i acc = if i < off then acc else go (i - 2) (n_of_int (hexval s.[i] * 16 + hexval s.[i+1]) :: acc) in
  go (String.length s - 2) []

(* tokenizer *)
let tokens (line : string) : string list =
  let n = String.length line in
  let rec go i acc =
    if i >= n then List.rev acc
    else match line.[i] with
      | ' ' | '\t' | '\r' | '\n' -> go (i + 1) acc
      | '(' -> go (i + 1) ("(" :: acc)
      | ')' -> go (i + 1) (")" :: acc)
      | _ -> let j = ref i in
        while !j < n && (match line.[!j] with ' ' | '\t' | '\r' | '\n' | '(' | ')' -> false | _ -> true) do incr j done;
        go !j (String.sub line i (!j - i) :: acc) in
  go 0 []

let parse (line : string) : sx =
  let rec one toks = match toks with
    | [] -> failwith "unexpected end"
    | "(" :: rest -> let (items, rest') = many rest [] in (SL items, rest')
    | ")" :: _ -> failwith "unexpected )"
    | t :: rest -> if t.[0] = 'x' then (SB (bytes_of_hex t 1), rest) else (SZ (z_of_string t), rest)
  and many toks acc = match toks with
    | ")" :: rest -> (List.rev acc, rest)
    | [] -> failwith "missing )"
    | _ -> let (v, rest) = one toks in many rest (v :: acc) in
  let (v, rest) = one (tokens line) in
  if rest <> [] then failwith "trailing tokens";
  v

let hexdigits = "0123456789abcdef"
let rec print (b : Buffer.t) (v : sx) : unit = match v with
  | SZ z -> Buffer.add_string b (string_of_z z)
  | SB bs -> Buffer.add_char b 'x';
    List.iter (fun x -> let i = int_of_n x in
                if i > 255 then Buffer.add_string b (Printf.sprintf "!%d!" i)
                else (Buffer.add_char b hexdigits.[i lsr 4]; Buffer.add_char b hexdigits.[i land 15])) bs
  | SL l -> Buffer.add_char b '(';
    List.iteri (fun i x -> if i > 0 then Buffer.add_char b ' '; print b x) l;
    Buffer.add_char b ')'

let () =
  try
    while true do
      let line = input_line stdin in
      let out = Buffer.create 256 in
      (try print out (run (parse line))
       with Failure m -> Buffer.clear out; Buffer.add_string out ("(-2) ; glue error: " ^ m)
          | Stack_overflow -> Buffer.clear out; Buffer.add_string out "(-3) ; stack overflow");
      print_string (Buffer.contents out); print_newline (); flush stdout
    done
  with End_of_file -> ()
