(* Interleaving semantics shared by the three concurrency properties (C18, C15, C04).
   A system is a state type with a total function [step : st -> tid -> st]: the thread with
   index [tid] performs its next instruction (a blocked or finished thread, or an index that
   names no thread, leaves the state unchanged).  A SCHEDULE is an arbitrary list of thread
   indices; [srun] folds [step] over it.  Every theorem of the form "for every schedule" is an
   invariant carried through [srun_invariant].  Observable history lives in one global log inside
   the state (newest first), never in per-thread lists. *)
From Coq Require Import List Arith Lia Bool.
Import ListNotations.

Fixpoint upd {A} (i : nat) (v : A) (l : list A) : list A :=
  match l, i with
  | [], _ => []
  | _ :: r, O => v :: r
  | x :: r, S i' => x :: upd i' v r
  end.

Lemma nth_upd_same {A} i (v : A) l x : nth_error l i = Some x -> nth_error (upd i v l) i = Some v.
Proof. revert i; induction l as [|y l IH]; intros [|i] H; cbn in *; try discriminate; auto. Qed.

Lemma nth_upd_other {A} i j (v : A) l : i <> j -> nth_error (upd i v l) j = nth_error l j.
Proof. revert i j; induction l as [|y l IH]; intros [|i] [|j] H; cbn; auto; try congruence. Qed.

Lemma upd_length {A} i (v : A) l : length (upd i v l) = length l.
Proof. revert i; induction l as [|y l IH]; intros [|i]; cbn; auto. Qed.

Lemma Forall_upd {A} (P : A -> Prop) i t l : Forall P l -> P t -> Forall P (upd i t l).
Proof.
  revert i; induction l as [|x l IH]; intros i H Ht.
  - destruct i; cbn; constructor.
  - inversion H; subst. destruct i; cbn; constructor; auto.
Qed.

Lemma nth_error_Forall {A} (P : A -> Prop) l i t : Forall P l -> nth_error l i = Some t -> P t.
Proof. intros H Hn. eapply Forall_forall in H; eauto. eapply nth_error_In; eauto. Qed.

Lemma nth_upd_cases {A} i j (v : A) l x :
  nth_error (upd i v l) j = Some x ->
  (i = j /\ x = v /\ exists y, nth_error l i = Some y) \/ (i <> j /\ nth_error l j = Some x).
Proof.
  intros H. destruct (Nat.eq_dec i j) as [->|Hne].
  - left. destruct (nth_error l j) as [y|] eqn:E.
    + rewrite (nth_upd_same _ _ _ _ E) in H. inversion H; eauto.
    + exfalso. apply nth_error_None in E. assert (nth_error (upd j v l) j = None) as E2.
      { apply nth_error_None. now rewrite upd_length. }
      congruence.
  - right. split; [exact Hne|]. now rewrite nth_upd_other in H.
Qed.

Section LTS.
  Context {S : Type} (step : S -> nat -> S).

  Definition srun (s : S) (sched : list nat) : S := fold_left step sched s.

  Lemma srun_nil s : srun s [] = s.
  Proof. reflexivity. Qed.

  Lemma srun_cons s i sched : srun s (i :: sched) = srun (step s i) sched.
  Proof. reflexivity. Qed.

  Lemma srun_app s a b : srun s (a ++ b) = srun (srun s a) b.
  Proof. unfold srun. apply fold_left_app. Qed.

  Lemma srun_snoc s a i : srun s (a ++ [i]) = step (srun s a) i.
  Proof. rewrite srun_app. reflexivity. Qed.

  (* the one induction over schedules *)
  Lemma srun_invariant (Inv : S -> Prop) :
    (forall s i, Inv s -> Inv (step s i)) -> forall sched s, Inv s -> Inv (srun s sched).
  Proof.
    intros Hstep sched. induction sched as [|i sched IH]; intros s H; cbn; [exact H|].
    apply IH. now apply Hstep.
  Qed.
End LTS.

(* all interleavings of two instruction counts: schedules over threads 0 and 1 that give thread 0
   exactly [a] steps and thread 1 exactly [b] steps (used by the bounded witness searches) *)
Fixpoint interleavings (a b : nat) : list (list nat) :=
  match a with
  | O => [repeat 1 b]
  | S a' =>
      (fix inner (b : nat) : list (list nat) :=
         match b with
         | O => [repeat 0 (S a')]
         | S b' => map (cons 0) (interleavings a' (S b')) ++ map (cons 1) (inner b')
         end) b
  end.

(* first element satisfying a test *)
Fixpoint find_first {A} (f : A -> bool) (l : list A) : option A :=
  match l with [] => None | x :: r => if f x then Some x else find_first f r end.

Lemma find_first_sound {A} (f : A -> bool) l x : find_first f l = Some x -> f x = true.
Proof.
  induction l as [|y l IH]; cbn; [discriminate|].
  destruct (f y) eqn:E; [intros H; inversion H; subst; exact E|exact IH].
Qed.
