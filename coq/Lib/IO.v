(* Transport model (DESIGN.md 2.2): what an io.Reader / io.Writer under the library delivers,
   and the stdlib helpers the library calls on it -- io.ReadFull (and binary.Read, which is
   io.ReadFull on a fixed-size buffer), io.CopyN into a bytes.Buffer, io.Copy from a
   bytes.Reader, bufio.Reader, bufio.Writer -- with the stdlib's documented error rules.
   Error values are identified by the [id]s of Lib/Err.v (id_EOF = 0, ...).

   Everything here computes; the lemmas (soundness of the transport and of bufio.Reader as
   "readers", read_segs_concat) are in Proofs/FaultsIO.v. *)
From Verif Require Import Lib.Base Lib.Err.

(* linear-time reverse (List.rev is quadratic); equal to rev by rev_alt *)
Definition frev {A} (l : list A) : list A := rev_append l [].

(* first n bytes (or all, when shorter) and the rest; walks at most n cells *)
Fixpoint split_at (n : N) (b : bytes) : bytes * bytes :=
  match b with
  | [] => ([], [])
  | x :: t => if (n =? 0)%N then ([], b)
              else let (a, r) := split_at (N.pred n) t in (x :: a, r)
  end.

(* ================================ reading ================================ *)
(* One segment per transport Read call that delivers something:
     Data b     the call returns (len b, nil)            (split when the caller asks for less)
     Fault e    the call returns (0, e), and so does every later call (e = id_EOF: clean end)
     Last b e   the call that delivers the last bytes returns them together with the error
                (n > 0, e) -- allowed by the io.Reader contract; later calls return (0, e)
   The end of the list is a clean end of stream: (0, io.EOF) for ever. *)
Inductive seg : Type :=
| Data (b : bytes)
| Fault (e : N)
| Last (b : bytes) (e : N).
Definition stream := list seg.

(* the bytes a stream delivers and how it ends: all a reader can depend on *)
Fixpoint flat (s : stream) : bytes * N :=
  match s with
  | [] => ([], id_EOF)
  | Data b :: r => let (d, t) := flat r in (b ++ d, t)
  | Fault e :: _ => ([], e)
  | Last b e :: _ => (b, e)
  end.

(* Read(p) with len(p) = n > 0: (data, error, stream afterwards) *)
Fixpoint tr_read (n : N) (s : stream) : bytes * option N * stream :=
  match s with
  | [] => ([], Some id_EOF, [])
  | Fault e :: _ => ([], Some e, s)
  | Data [] :: r => tr_read n r
  | Data b :: r =>
      match split_at n b with
      | (a, []) => (a, None, r)
      | (a, b') => (a, None, Data b' :: r)
      end
  | Last [] e :: r => ([], Some e, Fault e :: r)
  | Last b e :: r =>
      match split_at n b with
      | (a, []) => (a, Some e, Fault e :: r)
      | (a, b') => (a, None, Last b' e :: r)
      end
  end.

(* The same segments read as TRANSIENT faults: the error of a Fault / Last segment is reported by
   one Read call only, the stream then goes on with the segments that follow.  (What the stdlib does
   with that is its documented behaviour: io.ReadFull / io.CopyN drop an error that arrives together
   with the last bytes they asked for; bufio.Reader keeps it for its next call.)  The lemmas of
   Proofs/FaultsIO.v are about [tr_read]; a transient transport is not a sound reader in their
   sense once its fault is past, and is used for the correspondence run only. *)
Fixpoint tr_read_t (n : N) (s : stream) : bytes * option N * stream :=
  match s with
  | [] => ([], Some id_EOF, [])
  | Fault e :: r => ([], Some e, r)
  | Data [] :: r => tr_read_t n r
  | Data b :: r =>
      match split_at n b with
      | (a, []) => (a, None, r)
      | (a, b') => (a, None, Data b' :: r)
      end
  | Last [] e :: r => ([], Some e, r)
  | Last b e :: r =>
      match split_at n b with
      | (a, []) => (a, Some e, r)
      | (a, b') => (a, None, Last b' e :: r)
      end
  end.

(* model-only error code: a loop ran out of fuel (a reader that returns (0, nil) for ever) *)
Definition id_NoProgress : N := 99%N.

Section Reader.
  (* any io.Reader: a state and its Read *)
  Variable S : Type.
  Variable rd : N -> S -> bytes * option N * S.

  (* io.ReadFull(r, buf) with len(buf) = n  (io.ReadAtLeast with min = len(buf)):
       for n < min && err == nil { nn, err = r.Read(buf[n:]); n += nn }
       if n >= min { err = nil } else if n > 0 && err == EOF { err = ErrUnexpectedEOF } *)
  Fixpoint read_full_go (fuel : nat) (need : N) (acc : list bytes) (any : bool) (st : S)
    : res (bytes * S) :=
    match fuel with
    | O => Err id_NoProgress
    | Datatypes.S f =>
        let '(d, oe, st') := rd need st in
        let l := lenN d in
        if (need <=? l)%N then Ok (concat (frev (d :: acc)), st')
        else match oe with
             | None => read_full_go f (need - l)%N (d :: acc) (any || (0 <? l)%N) st'
             | Some e =>
                 if (any || (0 <? l)%N) && (e =? id_EOF)%N then Err id_UnexpectedEOF else Err e
             end
    end.
  Definition read_full (n : N) (st : S) : res (bytes * S) :=
    if (n =? 0)%N then Ok ([], st)            (* min = 0: returns before the first Read *)
    else read_full_go (Datatypes.S (N.to_nat n)) n [] false st.

  (* io.CopyN(&bytes.Buffer{}, r, n) = io.Copy(buf, io.LimitReader(r, n)) via Buffer.ReadFrom:
     Read calls ask for at most [ask] bytes (the buffer's spare capacity; any value > 0) and at
     most the remaining limit; data returned together with an error is kept; io.EOF ends the
     copy without error, any other error is returned; then CopyN: written == n -> nil,
     written < n && err == nil -> io.EOF *)
  Fixpoint copy_n_go (fuel : nat) (ask need : N) (acc : list bytes) (st : S) : res (bytes * S) :=
    match fuel with
    | O => Err id_NoProgress
    | Datatypes.S f =>
        let '(d, oe, st') := rd (N.min ask need) st in
        let l := lenN d in
        if (need <=? l)%N then Ok (concat (frev (d :: acc)), st')
        else match oe with
             | None => copy_n_go f ask (need - l)%N (d :: acc) st'
             | Some e => Err e
             end
    end.
  Definition copy_n (ask n : N) (st : S) : res (bytes * S) :=
    if (n =? 0)%N then Ok ([], st)
    else copy_n_go (Datatypes.S (N.to_nat n)) ask n [] st.

  (* ---- bufio.Reader (default size 4096) over that reader ---- *)
  Record bufr : Type := mk_bufr { br_buf : bytes; br_err : option N; br_under : S }.
  Definition bufio_size : N := 4096%N.
  Definition bufr_new (u : S) : bufr := mk_bufr [] None u.

  (* (b *Reader) Read(p), len(p) = n > 0:
       if b.r == b.w { if b.err != nil { return 0, b.readErr() }
                       if len(p) >= len(b.buf) { n, b.err = b.rd.Read(p); return n, b.readErr() }
                       n, b.err = b.rd.Read(b.buf); if n == 0 { return 0, b.readErr() } }
       n = copy(p, b.buf[b.r:b.w]); return n, nil
     readErr returns b.err and clears it. *)
  Definition br_read (n : N) (b : bufr) : bytes * option N * bufr :=
    match br_buf b with
    | [] =>
        match br_err b with
        | Some e => ([], Some e, mk_bufr [] None (br_under b))
        | None =>
            if (bufio_size <=? n)%N then
              let '(d, oe, u') := rd n (br_under b) in (d, oe, mk_bufr [] None u')
            else
              let '(d, oe, u') := rd bufio_size (br_under b) in
              match d with
              | [] => ([], oe, mk_bufr [] None u')
              | _ => let (a, r) := split_at n d in (a, None, mk_bufr r oe u')
              end
        end
    | buf => let (a, r) := split_at n buf in (a, None, mk_bufr r (br_err b) (br_under b))
    end.
End Reader.

Arguments mk_bufr {S}. Arguments br_buf {S}. Arguments br_err {S}. Arguments br_under {S}.
Arguments bufr_new {S}.

(* ---- the specification all of the above reduce to: a reader is its flattening ---- *)
(* io.ReadFull on (data b, then terminal error t) *)
Definition read_full_flat (n : N) (f : bytes * N) : res (bytes * (bytes * N)) :=
  let (b, t) := f in
  if (n <=? lenN b)%N then Ok (firstn (N.to_nat n) b, (skipn (N.to_nat n) b, t))
  else match b with
       | [] => Err t
       | _ => if (t =? id_EOF)%N then Err id_UnexpectedEOF else Err t
       end.

(* io.CopyN: a short stream is always reported as its terminal error (io.EOF for a cut) *)
Definition copy_n_flat (n : N) (f : bytes * N) : res (bytes * (bytes * N)) :=
  let (b, t) := f in
  if (n <=? lenN b)%N then Ok (firstn (N.to_nat n) b, (skipn (N.to_nat n) b, t))
  else Err t.

(* ================================ writing ================================ *)
(* A transport writer that fails at Write call number [failat]: that call accepts
   min(m, len p) bytes (at most len p - 1 when it reports no error: a short write) and reports
   [term]; a sticky transport stays broken, a transient one accepts the following calls again.
   The shape of the failure is (m, term): (0, e), (0 < m < len p, e), (len p, e), or a short write
   without error (m < len p, nil).  The peer receives exactly the accepted bytes. *)
Record wtr : Type := mk_wtr {
  wt_peer : list bytes;        (* accepted writes, most recent first *)
  wt_calls : N;
  wt_failat : option N;
  wt_m : N;
  wt_term : option N;          (* None: the faulty call returns (m < len p, nil) *)
  wt_failed : bool;            (* the fault has happened and the transport refuses further writes *)
  wt_sticky : bool }.          (* false: a transient fault -- the Write calls after it succeed *)

Definition wtr_new_s (sticky : bool) (failat : option N) (m : N) (term : option N) : wtr :=
  mk_wtr [] 0 failat m term false sticky.
Definition wtr_new := wtr_new_s true.
Definition wt_received (w : wtr) : bytes := concat (frev (wt_peer w)).
Definition wt_err (w : wtr) : N := match wt_term w with Some e => e | None => id_ShortWrite end.

(* Write(p), p non-empty: (bytes accepted, error, state) *)
Definition wt_write (p : bytes) (w : wtr) : N * option N * wtr :=
  if wt_failed w then (0%N, Some (wt_err w), w)
  else
    let hit := match wt_failat w with Some i => (i =? wt_calls w)%N | None => false end in
    if hit then
      let l := lenN p in
      let mm := N.min (wt_m w) l in
      let mm := match wt_term w with
                | None => if (mm =? l)%N then N.pred l else mm
                | Some _ => mm
                end in
      let (a, _) := split_at mm p in
      (mm, wt_term w,
       mk_wtr (a :: wt_peer w) (N.succ (wt_calls w)) (wt_failat w) (wt_m w) (wt_term w) (wt_sticky w) (wt_sticky w))
    else
      (lenN p, None,
       mk_wtr (p :: wt_peer w) (N.succ (wt_calls w)) (wt_failat w) (wt_m w) (wt_term w) false (wt_sticky w)).

(* io.Copy(w, bytes.NewReader(p)) = bytes.Reader.WriteTo: nothing to write -> no call;
   else one Write; m != len(p) && err == nil -> io.ErrShortWrite *)
Definition copy_bytes (p : bytes) (w : wtr) : option N * wtr :=
  match p with
  | [] => (None, w)
  | _ => let '(m, oe, w') := wt_write p w in
         match oe with
         | Some e => (Some e, w')
         | None => if (m =? lenN p)%N then (None, w') else (Some id_ShortWrite, w')
         end
  end.

(* ---- bufio.Writer (default size 4096) over the transport writer ---- *)
(* the buffer content is kept as the list of copied pieces, most recent first *)
Record bufw : Type := mk_bufw { bw_rev : list bytes; bw_n : N; bw_err : option N; bw_under : wtr }.
Definition bufw_new (u : wtr) : bufw := mk_bufw [] 0 None u.
Definition bw_buf (b : bufw) : bytes := concat (frev (bw_rev b)).
Definition bw_avail (b : bufw) : N := (bufio_size - bw_n b)%N.

(* Flush:  if b.err != nil { return b.err }; if b.n == 0 { return nil }
           n, err := b.wr.Write(b.buf[0:b.n]); if n < b.n && err == nil { err = io.ErrShortWrite }
           if err != nil { keep the unwritten tail; b.n -= n; b.err = err; return err }; b.n = 0 *)
Definition bw_flush (b : bufw) : option N * bufw :=
  match bw_err b with
  | Some e => (Some e, b)
  | None =>
      if (bw_n b =? 0)%N then (None, b)
      else
        let buf := bw_buf b in
        let '(m, oe, u') := wt_write buf (bw_under b) in
        let oe := match oe with
                  | None => if (m <? bw_n b)%N then Some id_ShortWrite else None
                  | e => e
                  end in
        match oe with
        | Some e => let (_, tl) := split_at m buf in
                    (Some e, mk_bufw [tl] (bw_n b - m)%N (Some e) u')
        | None => (None, mk_bufw [] 0 None u')
        end
  end.

(* Write(p):
     for len(p) > b.Available() && b.err == nil {
       if b.Buffered() == 0 { n, b.err = b.wr.Write(p) }          // large write, empty buffer
       else { n = copy(b.buf[b.n:], p); b.n += n; b.Flush() }
       nn += n; p = p[n:] }
     if b.err != nil { return nn, b.err }
     n := copy(b.buf[b.n:], p); b.n += n; return nn + n, nil
   Over a transport that accepts a whole write or breaks for good the loop body runs at most
   four times (fill+flush, direct write, retry after a short write); [fuel] covers that. *)
Fixpoint bw_write_go (fuel : nat) (p : bytes) (b : bufw) : option N * bufw :=
  match fuel with
  | O => (Some id_NoProgress, b)
  | Datatypes.S f =>
      match bw_err b with
      | Some e => (Some e, b)
      | None =>
          if (bw_avail b <? lenN p)%N then
            if (bw_n b =? 0)%N then
              let '(m, oe, u') := wt_write p (bw_under b) in
              let (_, p') := split_at m p in
              bw_write_go f p' (mk_bufw (bw_rev b) (bw_n b) oe u')
            else
              let (a, p') := split_at (bw_avail b) p in
              let b1 := mk_bufw (a :: bw_rev b) bufio_size None (bw_under b) in
              let (_, b2) := bw_flush b1 in
              bw_write_go f p' b2
          else (None, mk_bufw (p :: bw_rev b) (bw_n b + lenN p)%N None (bw_under b))
      end
  end.
Definition bw_write (p : bytes) (b : bufw) : option N * bufw := bw_write_go 6 p b.

(* io.Copy(bufioWriter, bytes.NewReader(p)): WriteTo calls Write once unless p is empty; the
   short-write test cannot fire, bufio.Writer.Write returns nn < len(p) only with an error *)
Definition bw_copy_bytes (p : bytes) (b : bufw) : option N * bufw :=
  match p with
  | [] => (None, b)
  | _ => bw_write p b
  end.
