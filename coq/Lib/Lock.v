(* Lock-respecting writers serialise, generically (the shape shared by C15 and the line/table
   regions of C18/C04; Proofs/WsConc.v carries the version specialised to the WebSocket write path
   with sticky errors and the close-sent latch).  Threads run code over Acq / Rel / Emit x.  If
   every thread is well bracketed -- a sequence of Acq, Emits, Rel groups -- then under EVERY
   schedule each Emit is performed by the lock holder, so the wire is a concatenation of whole
   single-thread blocks followed by the holder's open block. *)
From Coq Require Import List Arith Lia Bool.
From Verif Require Import Lib.Sched.
Import ListNotations.

Inductive instr := Acq | Rel | Emit (x : nat).

Record st := { lk : option nat; codes : list (list instr);
               (* instrumented wire: closed blocks (newest first) and the holder's open block *)
               closed : list (nat * list nat); open : list nat;
               (* plain wire as the transport sees it, newest first *)
               wire : list (nat * nat) }.

Definition step (s : st) (i : nat) : st :=
  match nth_error (codes s) i with
  | None => s
  | Some [] => s
  | Some (ins :: rest) =>
    let cs := upd i rest (codes s) in
    match ins with
    | Acq => match lk s with
             | None => {| lk := Some i; codes := cs; closed := closed s; open := []; wire := wire s |}
             | Some _ => s end                               (* blocked *)
    | Rel => {| lk := None; codes := cs; closed := (i, rev (open s)) :: closed s; open := []; wire := wire s |}
    | Emit x => {| lk := lk s; codes := cs; closed := closed s; open := x :: open s; wire := (i, x) :: wire s |}
    end
  end.

Definition run : st -> list nat -> st := srun step.

(* a thread's remaining code: outside a critical section, or inside one *)
Inductive outside : list instr -> Prop :=
| out_nil : outside []
| out_acq c : inside c -> outside (Acq :: c)
with inside : list instr -> Prop :=
| in_emit x c : inside c -> inside (Emit x :: c)
| in_rel c : outside c -> inside (Rel :: c).

(* flatten the instrumented wire: what the plain wire must equal *)
Definition flat_block (b : nat * list nat) : list (nat * nat) := map (fun x => (fst b, x)) (snd b).
Definition flat (closed : list (nat * list nat)) : list (nat * nat) := concat (map flat_block (rev closed)).

Definition Inv (s : st) : Prop :=
  (forall i c, nth_error (codes s) i = Some c -> (lk s = Some i -> inside c) /\ (lk s <> Some i -> outside c)) /\
  (lk s = None -> open s = []) /\
  (forall h, lk s = Some h -> rev (wire s) = flat (closed s) ++ map (fun x => (h, x)) (rev (open s))) /\
  (lk s = None -> rev (wire s) = flat (closed s)).

Lemma flat_cons b cl : flat (b :: cl) = flat cl ++ flat_block b.
Proof. unfold flat. cbn [rev]. rewrite map_app, concat_app. cbn. now rewrite app_nil_r. Qed.

Lemma step_inv s i : Inv s -> Inv (step s i).
Proof.
  intros Hinv. pose proof Hinv as (Hc & Ho & Hw & Hn). unfold step.
  destruct (nth_error (codes s) i) as [c|] eqn:Ei; [|exact Hinv].
  destruct c as [|ins rest]; [exact Hinv|].
  destruct (Hc i _ Ei) as [Hin Hout].
  destruct ins.
  - (* Acq *)
    destruct (lk s) as [h|] eqn:El; [exact Hinv|].
    assert (Hi : outside (Acq :: rest)) by (apply Hout; congruence). inversion Hi; subst.
    split; [|split; [|split]]; cbn [lk codes closed open wire].
    + intros j c Hj. destruct (Nat.eq_dec i j) as [->|Hne].
      * rewrite (nth_upd_same _ _ _ _ Ei) in Hj. inversion Hj; subst. split; [auto|congruence].
      * rewrite nth_upd_other in Hj by auto. destruct (Hc j c Hj) as [_ Ho']. split; [congruence|].
        intros _. apply Ho'. congruence.
    + discriminate.
    + intros h Hh. inversion Hh; subst. cbn. rewrite app_nil_r. apply Hn. reflexivity.
    + discriminate.
  - (* Rel: only the holder can be at a Rel *)
    assert (Hh : lk s = Some i).
    { destruct (lk s) as [h|] eqn:El.
      - destruct (Nat.eq_dec h i) as [->|Hne]; [reflexivity|].
        assert (Ho' : outside (Rel :: rest)) by (apply Hout; congruence). inversion Ho'.
      - assert (Ho' : outside (Rel :: rest)) by (apply Hout; congruence). inversion Ho'. }
    assert (Hi : inside (Rel :: rest)) by auto. inversion Hi; subst.
    split; [|split; [|split]]; cbn [lk codes closed open wire].
    + intros j c Hj. destruct (Nat.eq_dec i j) as [->|Hne].
      * rewrite (nth_upd_same _ _ _ _ Ei) in Hj. inversion Hj; subst. split; [discriminate|auto].
      * rewrite nth_upd_other in Hj by auto. destruct (Hc j c Hj) as [_ Ho']. split; [discriminate|].
        intros _. apply Ho'. rewrite Hh. congruence.
    + reflexivity.
    + discriminate.
    + intros _. rewrite flat_cons. unfold flat_block. cbn. apply Hw. exact Hh.
  - (* Emit: only the holder can be at an Emit *)
    assert (Hh : lk s = Some i).
    { destruct (lk s) as [h|] eqn:El.
      - destruct (Nat.eq_dec h i) as [->|Hne]; [reflexivity|].
        assert (Ho' : outside (Emit x :: rest)) by (apply Hout; congruence). inversion Ho'.
      - assert (Ho' : outside (Emit x :: rest)) by (apply Hout; congruence). inversion Ho'. }
    assert (Hi : inside (Emit x :: rest)) by auto. inversion Hi; subst.
    split; [|split; [|split]]; cbn [lk codes closed open wire].
    + intros j c Hj. destruct (Nat.eq_dec i j) as [->|Hne].
      * rewrite (nth_upd_same _ _ _ _ Ei) in Hj. inversion Hj; subst. split; [auto|congruence].
      * rewrite nth_upd_other in Hj by auto. apply Hc. exact Hj.
    + rewrite Hh. discriminate.
    + intros h Hh'. rewrite Hh in Hh'. inversion Hh'; subst h.
      cbn [rev]. rewrite (Hw i Hh), map_app. cbn [map]. now rewrite app_assoc.
    + rewrite Hh. discriminate.
Qed.

Theorem serialised codes0 sched :
  Forall outside codes0 ->
  let s := run {| lk := None; codes := codes0; closed := []; open := []; wire := [] |} sched in
  exists blocks tail h, rev (wire s) = concat (map flat_block blocks) ++ map (fun x => (h, x)) tail.
Proof.
  intros H s.
  assert (Hinv : Inv s).
  { unfold s, run. 
    assert (H0 : Inv {| lk := None; codes := codes0; closed := []; open := []; wire := [] |}).
    { split; [|split; [|split]]; cbn; auto; try discriminate.
      intros i c Hi. split; [discriminate|]. intros _. eapply Forall_forall in H; eauto. eapply nth_error_In; eauto. }
    revert H0. generalize {| lk := None; codes := codes0; closed := []; open := []; wire := [] |}.
    induction sched as [|i sched IH]; intros s0 H0; cbn; [exact H0|]. apply IH. now apply step_inv. }
  destruct Hinv as (_ & _ & Hw & Hn).
  destruct (lk s) as [h|] eqn:El.
  - exists (rev (closed s)), (rev (open s)), h. apply Hw. reflexivity.
  - exists (rev (closed s)), [], 0. cbn. rewrite app_nil_r. apply Hn. reflexivity.
Qed.
