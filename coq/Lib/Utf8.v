(* UTF-8 validity.  Definitions only (proofs in Proofs/WsReadUtf8.v).
   [utf8_valid] transcribes Go's unicode/utf8.ValidString (table [first] + [acceptRanges]);
   [utf8_spec] is written independently from RFC 3629 section 3/4: decode the scalar value
   from the bit layout and reject overlong forms, surrogates and values above 0x10FFFF. *)
From Verif Require Import Lib.Base.
Open Scope N_scope.

(* ---- Go: unicode/utf8 ----
   first[b] = xx (0xF1) invalid; as (0xF0) ascii; s1 (0x02) size 2, accept 0 (80..BF);
   s2 (0x13) size 3, accept 1 (A0..BF); s3 (0x03) size 3 accept 0; s4 (0x23) size 3 accept 2 (80..9F);
   s5 (0x34) size 4 accept 3 (90..BF); s6 (0x04) size 4 accept 0; s7 (0x44) size 4 accept 4 (80..8F). *)
Definition locb : N := 128.   (* 0b10000000 *)
Definition hicb : N := 191.   (* 0b10111111 *)

(* (size, lo, hi) for a non-ASCII lead byte; None = xx *)
Definition go_first (b : N) : option (N * N * N) :=
  if b <? 194 then None                         (* 0x80..0xC1: xx *)
  else if b <? 224 then Some (2, locb, hicb)    (* 0xC2..0xDF: s1 *)
  else if b =? 224 then Some (3, 160, hicb)     (* 0xE0: s2 *)
  else if b <? 237 then Some (3, locb, hicb)    (* 0xE1..0xEC: s3 *)
  else if b =? 237 then Some (3, locb, 159)     (* 0xED: s4 *)
  else if b <? 240 then Some (3, locb, hicb)    (* 0xEE..0xEF: s3 *)
  else if b =? 240 then Some (4, 144, hicb)     (* 0xF0: s5 *)
  else if b <? 244 then Some (4, locb, hicb)    (* 0xF1..0xF3: s6 *)
  else if b =? 244 then Some (4, locb, 143)     (* 0xF4: s7 *)
  else None.                                    (* 0xF5..0xFF: xx *)

Definition in_range (lo hi c : N) : bool := (lo <=? c) && (c <=? hi).

Fixpoint utf8_valid (s : bytes) : bool :=
  match s with
  | [] => true
  | si :: t =>
    if si <? 128 then utf8_valid t
    else match go_first si with
         | None => false
         | Some (size, lo, hi) =>
           if size =? 2 then
             match t with
             | c1 :: t' => in_range lo hi c1 && utf8_valid t'
             | _ => false                      (* i+size > n *)
             end
           else if size =? 3 then
             match t with
             | c1 :: c2 :: t' => in_range lo hi c1 && in_range locb hicb c2 && utf8_valid t'
             | _ => false
             end
           else
             match t with
             | c1 :: c2 :: c3 :: t' =>
               in_range lo hi c1 && in_range locb hicb c2 && in_range locb hicb c3 && utf8_valid t'
             | _ => false
             end
         end
  end.

(* ---- RFC 3629 ----
   0xxxxxxx | 110xxxxx 10xxxxxx | 1110xxxx 10xxxxxx 10xxxxxx | 11110xxx 10xxxxxx 10xxxxxx 10xxxxxx
   shortest form only; U+D800..U+DFFF excluded; at most U+10FFFF. *)
Definition is_cont (c : N) : bool := (c / 64 =? 2).           (* 10xxxxxx *)
Definition cont_bits (c : N) : N := c mod 64.

Definition scalar_ok (minimum cp : N) : bool :=
  (minimum <=? cp) && (cp <=? 1114111) && negb ((55296 <=? cp) && (cp <=? 57343)).

Fixpoint utf8_spec (s : bytes) : bool :=
  match s with
  | [] => true
  | b0 :: t =>
    if b0 / 128 =? 0 then utf8_spec t
    else if b0 / 32 =? 6 then                   (* 110xxxxx *)
      match t with
      | c1 :: t' => is_cont c1 && scalar_ok 128 ((b0 mod 32) * 64 + cont_bits c1) && utf8_spec t'
      | _ => false
      end
    else if b0 / 16 =? 14 then                  (* 1110xxxx *)
      match t with
      | c1 :: c2 :: t' =>
        is_cont c1 && is_cont c2 &&
        scalar_ok 2048 ((b0 mod 16) * 4096 + cont_bits c1 * 64 + cont_bits c2) && utf8_spec t'
      | _ => false
      end
    else if b0 / 8 =? 30 then                   (* 11110xxx *)
      match t with
      | c1 :: c2 :: c3 :: t' =>
        is_cont c1 && is_cont c2 && is_cont c3 &&
        scalar_ok 65536 ((b0 mod 8) * 262144 + cont_bits c1 * 4096 + cont_bits c2 * 64 + cont_bits c3) &&
        utf8_spec t'
      | _ => false
      end
    else false
  end.
