(* S-expressions: the one data format shared by the Go harness, the OCaml model runner and
   kernel-evaluated case files.  A case and an observation are both [sx]. *)
From Coq Require Import List ZArith NArith Bool.
Import ListNotations.

Inductive sx : Type :=
| SZ (z : Z)
| SB (b : list N)
| SL (l : list sx).

Fixpoint bytes_eqb (a b : list N) : bool :=
  match a, b with
  | [], [] => true
  | x :: a', y :: b' => N.eqb x y && bytes_eqb a' b'
  | _, _ => false
  end.

Fixpoint sx_eqb (a b : sx) {struct a} : bool :=
  match a, b with
  | SZ x, SZ y => Z.eqb x y
  | SB x, SB y => bytes_eqb x y
  | SL x, SL y =>
      (fix go (x y : list sx) {struct x} : bool :=
         match x, y with
         | [], [] => true
         | a' :: x', b' :: y' => sx_eqb a' b' && go x' y'
         | _, _ => false
         end) x y
  | _, _ => false
  end.

(* helpers used by the per-property [run] wrappers *)
Definition sN (n : N) : sx := SZ (Z.of_N n).
Definition sbool (b : bool) : sx := SZ (if b then 1 else 0)%Z.
Definition snat (n : nat) : sx := SZ (Z.of_nat n).
Definition bad_case : sx := SL [SZ (-1)%Z].     (* the wrapper could not interpret the case *)

(* kernel-evaluated correspondence: indices of cases whose observation differs *)
Fixpoint mismatches_from (i : N) (run : sx -> sx) (cases : list (sx * sx)) : list N :=
  match cases with
  | [] => []
  | (c, o) :: rest =>
      if sx_eqb (run c) o then mismatches_from (N.succ i) run rest
      else i :: mismatches_from (N.succ i) run rest
  end.
Definition mismatches := mismatches_from 0%N.

(* observation conventions shared with the Go kit: (0 fields...) ok, (1 code) error, (2) panic *)
Definition s_ok (fields : list sx) : sx := SL (SZ 0 :: fields).
Definition s_err (code : N) : sx := SL [SZ 1; SZ (Z.of_N code)].
Definition s_panic : sx := SL [SZ 2].
