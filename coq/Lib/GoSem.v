(* Go expression semantics used by the GENERATED function bodies in coq/Gen/Gen_<pkg>.v
   (tools/repo2coq/gen_funcs.go).  Integers are Z; every arithmetic result is wrapped to the
   fixed width of its Go type; index expressions go through checked accessors that yield
   [Panic], so "never panics" is a theorem about the generated term, not an artefact.
   Only definitions that compute; lemmas about them are in Proofs/Total.v. *)
From Coq Require Import List ZArith NArith Bool String Ascii.
From Verif Require Import Lib.Base.
Import ListNotations.
Open Scope Z_scope.

(* panic sites *)
Definition site_index : N := 1%N.       (* index out of range *)
Definition site_divzero : N := 2%N.     (* integer divide by zero *)
Definition site_nilmap : N := 3%N.      (* reserved *)

(* ---- fixed-width wraps: uintW / intW ---- *)
Definition wrap_u (w x : Z) : Z := x mod 2 ^ w.
Definition wrap_s (w x : Z) : Z := (x + 2 ^ (w - 1)) mod 2 ^ w - 2 ^ (w - 1).

(* ---- lists as Go slices / arrays of integers ---- *)
Fixpoint len_Z_acc (acc : Z) (l : list Z) : Z :=
  match l with [] => acc | _ :: t => len_Z_acc (acc + 1) t end.
Definition len_Z (l : list Z) : Z := len_Z_acc 0 l.

Fixpoint nth_pos (l : list Z) (p : positive) : option Z :=
  match l with
  | [] => None
  | x :: t => match p with
              | xH => Some x
              | _ => nth_pos t (Pos.pred p)
              end
  end.

(* l[i]  (index 0 is position 1 of [nth_pos]) *)
Definition nth_chk (l : list Z) (i : Z) : res Z :=
  match i with
  | Z0 => match l with x :: _ => Ok x | [] => Panic site_index end
  | Zpos p => match nth_pos l (Pos.succ p) with Some x => Ok x | None => Panic site_index end
  | Zneg _ => Panic site_index
  end.

(* m[k] on a map[int]bool literal: absent key gives the zero value, never panics *)
Fixpoint map_bool (m : list (Z * bool)) (k : Z) : bool :=
  match m with
  | [] => false
  | (k', b) :: t => if Z.eqb k k' then b else map_bool t k
  end.
Fixpoint map_Z (m : list (Z * Z)) (k : Z) : Z :=
  match m with
  | [] => 0
  | (k', b) :: t => if Z.eqb k k' then b else map_Z t k
  end.

(* a / b and a % b: truncated division, panic on zero divisor; the caller wraps the result *)
Definition go_quo (a b : Z) : res Z := if Z.eqb b 0 then Panic site_divzero else Ok (Z.quot a b).
Definition go_rem (a b : Z) : res Z := if Z.eqb b 0 then Panic site_divzero else Ok (Z.rem a b).

(* ---- the arithmetic forms gen_funcs_expr.go emits, gathered in one function so that the
   correspondence harness can run them against Go's own typed arithmetic (C07 case tag 4):
   op 0 + 1 - 2 * 3 / 4 % 5 & 6 | 7 ^ 8 &^ 9 << 10 >> 11 unary- 12 unary^ 13 conversion T(a) ---- *)
Definition wrapT (signed : bool) (w x : Z) : Z := if signed then wrap_s w x else wrap_u w x.
Definition go_binop (op : Z) (signed : bool) (w a b : Z) : res Z :=
  match op with
  | 0 => Ok (wrapT signed w (a + b))
  | 1 => Ok (wrapT signed w (a - b))
  | 2 => Ok (wrapT signed w (a * b))
  | 3 => match go_quo a b with Ok q => Ok (if signed then wrap_s w q else q) | Err e => Err e | Panic p => Panic p end
  | 4 => go_rem a b
  | 5 => Ok (Z.land a b)
  | 6 => Ok (Z.lor a b)
  | 7 => Ok (Z.lxor a b)
  | 8 => Ok (Z.ldiff a b)
  | 9 => Ok (wrapT signed w (Z.shiftl a (Z.min b w)))
  | 10 => Ok (Z.shiftr a (Z.min b w))
  | 11 => Ok (wrapT signed w (- a))
  | 12 => Ok (wrapT signed w (Z.lnot a))
  | 13 => Ok (wrapT signed w a)
  | _ => Err 99%N
  end.

(* fmt.Sprintf with a constant format: an opaque marker (the text is not modelled) *)
Definition SprintfOf (fmt : string) (args : list Z) : string := fmt.

(* ---- strings as byte lists (for observations) ---- *)
Fixpoint string_bytes (s : string) : list N :=
  match s with
  | EmptyString => []
  | String a t => N_of_ascii a :: string_bytes t
  end.

(* ---- finite ranges for exhaustive sweeps: [z_range lo n] = lo, lo+1, ..., lo+n-1 ---- *)
Fixpoint z_range (lo : Z) (n : nat) : list Z :=
  match n with O => [] | S n' => lo :: z_range (lo + 1) n' end.

Definition no_panic {A} (r : res A) : bool := negb (is_panic r).
