(* SHA-1 (FIPS 180-4) and base64 (RFC 4648, standard alphabet, padded) over byte lists,
   executable.  Used by the C13 model of the WebSocket opening handshake; cross-checked against
   crypto/sha1 and encoding/base64 by the C13 correspondence run. *)
From Coq Require Import List NArith Bool.
Import ListNotations.
Open Scope N_scope.

Definition w32 (x : N) : N := N.land x 4294967295.
Definition rotl (n x : N) : N := w32 (N.lor (N.shiftl x n) (N.shiftr x (32 - n))).
Definition add32 (a b : N) : N := w32 (a + b).
Definition not32 (x : N) : N := N.lxor x 4294967295.

(* padding: 0x80, zeros up to 56 mod 64, 64-bit big-endian bit length *)
Definition be_bytes (k : nat) (x : N) : list N :=
  (fix go (k : nat) (x : N) (acc : list N) : list N :=
     match k with O => acc | S k' => go k' (N.shiftr x 8) (N.land x 255 :: acc) end) k x [].
Definition sha1_pad (m : list N) : list N :=
  let l := N.of_nat (length m) in
  let z := (119 - l mod 64) mod 64 in           (* number of zero bytes *)
  m ++ [128] ++ repeat 0 (N.to_nat z) ++ be_bytes 8 (l * 8).

Fixpoint words_be (b : list N) (fuel : nat) : list N :=
  match fuel with
  | O => []
  | S f => match b with
           | a :: b1 :: c :: d :: r => (a * 16777216 + b1 * 65536 + c * 256 + d) :: words_be r f
           | _ => []
           end
  end.

(* message schedule, kept most recent first: w[t] = rotl 1 (w[t-3] ^ w[t-8] ^ w[t-14] ^ w[t-16]) *)
Fixpoint schedule (n : nat) (rev_w : list N) : list N :=
  match n with
  | O => rev_w
  | S n' =>
      let x := N.lxor (N.lxor (nth 2 rev_w 0) (nth 7 rev_w 0)) (N.lxor (nth 13 rev_w 0) (nth 15 rev_w 0)) in
      schedule n' (rotl 1 x :: rev_w)
  end.

Definition sha1_f (t : nat) (b c d : N) : N :=
  if Nat.ltb t 20 then N.lor (N.land b c) (N.land (not32 b) d)
  else if Nat.ltb t 40 then N.lxor (N.lxor b c) d
  else if Nat.ltb t 60 then N.lor (N.lor (N.land b c) (N.land b d)) (N.land c d)
  else N.lxor (N.lxor b c) d.
Definition sha1_k (t : nat) : N :=
  if Nat.ltb t 20 then 1518500249 else if Nat.ltb t 40 then 1859775393
  else if Nat.ltb t 60 then 2400959708 else 3395469782.

Fixpoint rounds (ws : list N) (t : nat) (st : N * N * N * N * N) : N * N * N * N * N :=
  match ws with
  | [] => st
  | w :: r =>
      let '(a, b, c, d, e) := st in
      let tmp := add32 (add32 (add32 (add32 (rotl 5 a) (sha1_f t b c d)) e) (sha1_k t)) w in
      rounds r (S t) (tmp, a, rotl 30 b, c, d)
  end.

Definition sha1_block (h : N * N * N * N * N) (blk : list N) : N * N * N * N * N :=
  let ws := rev (schedule 64 (rev (words_be blk 16))) in
  let '(h0, h1, h2, h3, h4) := h in
  let '(a, b, c, d, e) := rounds ws 0 h in
  (add32 h0 a, add32 h1 b, add32 h2 c, add32 h3 d, add32 h4 e).

Fixpoint sha1_blocks (fuel : nat) (h : N * N * N * N * N) (m : list N) : N * N * N * N * N :=
  match fuel with
  | O => h
  | S f => match m with
           | [] => h
           | _ => sha1_blocks f (sha1_block h (firstn 64 m)) (skipn 64 m)
           end
  end.

Definition sha1 (m : list N) : list N :=
  let p := sha1_pad m in
  let '(h0, h1, h2, h3, h4) :=
    sha1_blocks (S (Nat.div (length p) 64)) (1732584193, 4023233417, 2562383102, 271733878, 3285377520) p in
  be_bytes 4 h0 ++ be_bytes 4 h1 ++ be_bytes 4 h2 ++ be_bytes 4 h3 ++ be_bytes 4 h4.

(* ---- base64 ---- *)
Definition b64_char (i : N) : N :=
  if i <? 26 then 65 + i else if i <? 52 then 97 + (i - 26) else if i <? 62 then 48 + (i - 52)
  else if i =? 62 then 43 else 47.

Fixpoint base64_f (fuel : nat) (b : list N) : list N :=
  match fuel with
  | O => []
  | S f =>
      match b with
      | [] => []
      | [x] => [b64_char (x / 4); b64_char ((x mod 4) * 16); 61; 61]
      | [x; y] => [b64_char (x / 4); b64_char ((x mod 4) * 16 + y / 16); b64_char ((y mod 16) * 4); 61]
      | x :: y :: z :: r =>
          b64_char (x / 4) :: b64_char ((x mod 4) * 16 + y / 16)
          :: b64_char ((y mod 16) * 4 + z / 64) :: b64_char (z mod 64) :: base64_f f r
      end
  end.
Definition base64 (b : list N) : list N := base64_f (S (length b)) b.

(* "abc" -> a9993e36 4706816a ba3e2571 7850c26c 9cd0d89d (FIPS 180-4 example) *)
Example sha1_abc :
  sha1 [97; 98; 99] = [169;153;62;54; 71;6;129;106; 186;62;37;113; 120;80;194;108; 156;208;216;157].
Proof. vm_compute. reflexivity. Qed.
Example sha1_empty :
  sha1 [] = [218;57;163;238; 94;107;75;13; 50;85;191;239; 149;96;24;144; 175;216;7;9].
Proof. vm_compute. reflexivity. Qed.
(* "foobar" -> "Zm9vYmFy", "fo" -> "Zm8=" (RFC 4648 section 10) *)
Example base64_foobar : base64 [102;111;111;98;97;114] = [90;109;57;118;89;109;70;121].
Proof. vm_compute. reflexivity. Qed.
Example base64_fo : base64 [102;111] = [90;109;56;61].
Proof. vm_compute. reflexivity. Qed.
