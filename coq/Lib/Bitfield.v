(* Shared definitions of the AAC (C11) and AVC (C12) models.  Definitions only (lemmas are in
   Proofs/AacBits.v), nothing here depends on coq/Gen.

   - checked slice/index helpers that never look at more of the input than they need
     (linear-time rule of DESIGN.md 2.2) and yield [Panic] where Go would panic;
   - the specification side's bit-field packer: a syntax table in the style of the ISO
     standards is a list of (value, width) fields, most significant first; the bytes are the
     big-endian representation of the concatenated fields. *)
From Verif Require Import Lib.Base.
Open Scope N_scope.

(* len(b) > n, walking at most n+1 cells *)
Fixpoint len_gt (b : bytes) (n : nat) : bool :=
  match b, n with
  | [], _ => false
  | _ :: _, O => true
  | _ :: t, S n' => len_gt t n'
  end.

(* len(b) < n for an N count, walking at most min(len b, n) cells *)
Fixpoint len_ltN (b : bytes) (n : N) {struct b} : bool :=
  match b with
  | [] => negb (n =? 0)
  | _ :: t => if n =? 0 then false else len_ltN t (N.pred n)
  end.

(* b[:n], b[n:] for an N count; None when len(b) < n.  Never converts n to nat. *)
Fixpoint splitN (b : bytes) (n : N) {struct b} : option (bytes * bytes) :=
  match b with
  | [] => if n =? 0 then Some ([], []) else None
  | x :: t =>
      if n =? 0 then Some ([], b)
      else match splitN t (N.pred n) with
           | Some (a, r) => Some (x :: a, r)
           | None => None
           end
  end.

(* b[i]; a Go index-out-of-range panic is Panic site *)
Definition idx (b : bytes) (i : nat) (site : N) : res N :=
  match nth_error b i with Some x => Ok x | None => Panic site end.

(* b[n:] for a small constant n; Panic site when len(b) < n *)
Definition drop_chk (n : nat) (b : bytes) (site : N) : res bytes :=
  match take n b with Some (_, r) => Ok r | None => Panic site end.

Definition countN {A} (l : list A) : N := N.of_nat (length l).

(* ---- specification side: bit fields ---- *)
Definition field := (N * N)%type.      (* (value, width in bits) *)

Definition fields_val (fs : list field) : N :=
  fold_left (fun acc f => acc * 2 ^ snd f + fst f mod 2 ^ snd f) fs 0.
Definition fields_width (fs : list field) : N :=
  fold_left (fun acc f => acc + snd f) fs 0.

(* the k low-order bytes of v, most significant first *)
Fixpoint be_bytes (k : nat) (v : N) : bytes :=
  match k with
  | O => []
  | S k' => (v / 256 ^ N.of_nat k') mod 256 :: be_bytes k' v
  end.

(* the byte string of a field list whose total width is a multiple of 8 *)
Definition pack_fields (fs : list field) : bytes :=
  be_bytes (N.to_nat (fields_width fs / 8)) (fields_val fs).

(* ---- compact large cases: a deterministic payload and a position-sensitive checksum, computed
   identically by the Go harness, so that cases of 64 KiB .. MiB need neither the payload in the
   case text nor in the observation ---- *)
Fixpoint gen_payload (n : nat) (i fill : N) : bytes :=
  match n with
  | O => []
  | S n' => ((fill + 31 * i + i / 256) mod 256) :: gen_payload n' (i + 1) fill
  end.

(* Adler-32 *)
Definition adler32 (b : bytes) : N :=
  let '(a, s) := fold_left (fun '(a, s) x => let a' := (a + x) mod 65521 in (a', (s + a') mod 65521)) b (1, 0) in
  s * 65536 + a.
