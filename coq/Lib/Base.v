(* Shared definitions: bytes, results (value / error / panic), checked slicing, big- and
   little-endian integers, fixed-width wraps. *)
From Coq Require Export List ZArith NArith Bool Lia.
From Coq Require Export ZifyN ZifyNat ZifyBool.
Export ListNotations.

Definition byte := N.
Definition bytes := list N.

Definition wf_byte (b : N) : Prop := (b < 256)%N.
Definition wf_bytes (bs : bytes) : Prop := Forall wf_byte bs.
Definition wf_byteb (b : N) : bool := (b <? 256)%N.
Definition wf_bytesb (bs : bytes) : bool := forallb wf_byteb bs.

(* length in N, computed without Peano arithmetic *)
Fixpoint lenN_acc (acc : N) (b : bytes) : N :=
  match b with [] => acc | _ :: t => lenN_acc (N.succ acc) t end.
Definition lenN (b : bytes) : N := lenN_acc 0 b.

(* ---- results ---- *)
Inductive res (A : Type) : Type :=
| Ok (a : A)
| Err (e : N)          (* an error value returned to the caller; [e] is a small class code *)
| Panic (site : N).    (* a Go run-time panic (index out of range, nil dereference, ...) *)
Arguments Ok {A}. Arguments Err {A}. Arguments Panic {A}.

Definition bind {A B} (r : res A) (f : A -> res B) : res B :=
  match r with Ok a => f a | Err e => Err e | Panic s => Panic s end.
Notation "'let*' x ':=' r 'in' k" := (bind r (fun x => k))
  (at level 200, x pattern, r at level 100, k at level 200, right associativity).

Definition is_ok {A} (r : res A) : bool := match r with Ok _ => true | _ => false end.
Definition is_panic {A} (r : res A) : bool := match r with Panic _ => true | _ => false end.

(* ---- structural take: walks n cells, fails on a short list ---- *)
Fixpoint take (n : nat) (b : bytes) : option (bytes * bytes) :=
  match n with
  | O => Some ([], b)
  | S n' => match b with
            | [] => None
            | x :: t => match take n' t with Some (a, r) => Some (x :: a, r) | None => None end
            end
  end.

(* take with an N count; the count is converted once, never used as a measure *)
Definition takeN (n : N) (b : bytes) : option (bytes * bytes) := take (N.to_nat n) b.

(* ---- fixed-width integers ---- *)
Definition u8 (x : N) : N := (x mod 256)%N.
Definition u16 (x : N) : N := (x mod 65536)%N.
Definition u24 (x : N) : N := (x mod 16777216)%N.
Definition u32 (x : N) : N := (x mod 4294967296)%N.
Definition u64 (x : N) : N := (x mod 18446744073709551616)%N.
Definition zu64 (x : Z) : Z := (x mod 18446744073709551616)%Z.
Definition zi64 (x : Z) : Z := ((x + 9223372036854775808) mod 18446744073709551616 - 9223372036854775808)%Z.
Definition zi32 (x : Z) : Z := ((x + 2147483648) mod 4294967296 - 2147483648)%Z.

Definition be2 (n : N) : bytes := [(n / 256) mod 256; n mod 256]%N.
Definition be3 (n : N) : bytes := [(n / 65536) mod 256; (n / 256) mod 256; n mod 256]%N.
Definition be4 (n : N) : bytes := [(n / 16777216) mod 256; (n / 65536) mod 256; (n / 256) mod 256; n mod 256]%N.
Definition le4 (n : N) : bytes := [n mod 256; (n / 256) mod 256; (n / 65536) mod 256; (n / 16777216) mod 256]%N.
Definition be8 (n : N) : bytes := be4 (n / 4294967296) ++ be4 (n mod 4294967296).
Definition ube2 (a b : N) : N := (a * 256 + b)%N.
Definition ube3 (a b c : N) : N := (a * 65536 + b * 256 + c)%N.
Definition ube4 (a b c d : N) : N := (a * 16777216 + b * 65536 + c * 256 + d)%N.
Definition ule4 (a b c d : N) : N := ube4 d c b a.
Definition ube8 (a b c d e f g h : N) : N := (ube4 a b c d * 4294967296 + ube4 e f g h)%N.

(* big-endian value of an arbitrary byte list *)
Fixpoint be_val_acc (acc : N) (b : bytes) : N :=
  match b with [] => acc | x :: t => be_val_acc (acc * 256 + x)%N t end.
Definition be_val (b : bytes) : N := be_val_acc 0 b.
