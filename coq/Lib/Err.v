(* Error values as the library's errors package builds them (errors/errors.go).

   Go side                                   here
   -------                                   ----
   any error that has no Cause() method      Root id msg   (io.EOF, a custom error type, and
   (io.EOF, *MyErr, *errors.fundamental)                    what errors.New / Errorf return:
                                                            *fundamental has Error/Format only)
   &withMessage{cause: e, msg: m}            WithMsg m e   Error() = m + ": " + e.Error()
   &withStack{e, callers()}                  WithStk e     Error() promoted from the embedded e
   nil                                       None : option err

   [id] is the identity of the root (pointer/value identity in Go; the harness numbers its
   sentinels), [msg] the root's own Error() text.  The stack trace is not an observable of
   property C08 and is not modelled.  Definitions only; lemmas are in Proofs/ErrorsPkg.v. *)
From Verif Require Import Lib.Base.

Inductive err : Type :=
| Root (id : N) (msg : bytes)
  (* a root that has an Unwrap method but no Cause method: *net.OpError, *os.PathError, what
     fmt.Errorf("%w") and errors.Join return, a custom wrapper.  [kind]: what Unwrap yields --
     0 nil, 1 the error itself, 2 another error ([inner]), 3 a list (Unwrap() []error).
     errors.Cause follows the causer interface only, so all of this is irrelevant to it: the
     transport's own error is the root cause, not something dug out of it. *)
| RootU (id : N) (msg : bytes) (kind : N) (inner : option err)
  (* a foreign error type that implements the documented causer interface:
     Cause() error returns [inner]; errors.Cause goes on into it *)
| RootC (id : N) (msg : bytes) (inner : err)
| WithMsg (msg : bytes) (e : err)
| WithStk (e : err).

(* ": " -- the separator in withMessage.Error *)
Definition msg_sep : bytes := [58; 32]%N.

(* errors.Cause: `for err != nil { c, ok := err.(causer); if !ok {break}; err = c.Cause() }`.
   withStack.Cause and withMessage.Cause return the wrapped error; a Root has no Cause method. *)
Fixpoint cause (e : err) : err :=
  match e with
  | Root _ _ => e
  | RootU _ _ _ _ => e
  | RootC _ _ inner => cause inner
  | WithMsg _ e' => cause e'
  | WithStk e' => cause e'
  end.

(* Error() *)
Fixpoint message (e : err) : bytes :=
  match e with
  | Root _ m => m
  | RootU _ m _ _ => m
  | RootC _ m _ => m
  | WithMsg m e' => m ++ msg_sep ++ message e'
  | WithStk e' => message e'
  end.

(* the messages of the layers, outermost first, ending with the root's *)
Fixpoint chain (e : err) : list bytes :=
  match e with
  | Root _ m => [m]
  | RootU _ m _ _ => [m]
  | RootC _ m _ => [m]
  | WithMsg m e' => m :: chain e'
  | WithStk e' => chain e'
  end.

(* strings.Join(l, sep) *)
Fixpoint join (sep : bytes) (l : list bytes) : bytes :=
  match l with
  | [] => []
  | [x] => x
  | x :: t => x ++ sep ++ join sep t
  end.

Definition root_id (e : err) : N :=
  match cause e with Root id _ => id | RootU id _ _ _ => id | _ => 0%N end.

(* an error without a Cause method (whatever Unwrap it may have) *)
Definition is_root (e : err) : bool := match e with Root _ _ => true | RootU _ _ _ _ => true | _ => false end.

(* number of wrapping layers *)
Fixpoint depth (e : err) : nat :=
  match e with
  | Root _ _ => O | RootU _ _ _ _ => O | RootC _ _ e' => S (depth e')
  | WithMsg _ e' => S (depth e') | WithStk e' => S (depth e')
  end.

(* ---- identities of the transport errors used by the I/O models (Lib/IO.v) ----
   These are the [id]s of Root values; the harness numbers its sentinel table the same way. *)
Definition id_EOF : N := 0%N.                (* io.EOF *)
Definition id_UnexpectedEOF : N := 1%N.      (* io.ErrUnexpectedEOF *)
Definition id_ClosedPipe : N := 2%N.         (* io.ErrClosedPipe *)
Definition id_ShortWrite : N := 3%N.         (* io.ErrShortWrite *)
(* ids >= 4: harness sentinels: 4 a custom error type; 5.. wrapper-typed transport errors
   ( *net.OpError, * os.PathError, a custom type with Unwrap, fmt.Errorf("%w"), Unwrap() = nil) *)
