(* Error values as the library's errors package builds them (errors/errors.go).

   Go side                                   here
   -------                                   ----
   any error that has no Cause() method      Root id msg   (io.EOF, a custom error type, and
   (io.EOF, *MyErr, *errors.fundamental)                    what errors.New / Errorf return:
                                                            *fundamental has Error/Format only)
   &withMessage{cause: e, msg: m}            WithMsg m e   Error() = m + ": " + e.Error()
   &withStack{e, callers()}                  WithStk e     Error() promoted from the embedded e
   nil                                       None : option err

   [id] is the identity of the root (pointer/value identity in Go; the harness numbers its
   sentinels), [msg] the root's own Error() text.  The stack trace is not an observable of
   property C08 and is not modelled.  Definitions only; lemmas are in Proofs/ErrorsPkg.v. *)
From Verif Require Import Lib.Base.

Inductive err : Type :=
| Root (id : N) (msg : bytes)
| WithMsg (msg : bytes) (e : err)
| WithStk (e : err).

(* ": " -- the separator in withMessage.Error *)
Definition msg_sep : bytes := [58; 32]%N.

(* errors.Cause: `for err != nil { c, ok := err.(causer); if !ok {break}; err = c.Cause() }`.
   withStack.Cause and withMessage.Cause return the wrapped error; a Root has no Cause method. *)
Fixpoint cause (e : err) : err :=
  match e with
  | Root _ _ => e
  | WithMsg _ e' => cause e'
  | WithStk e' => cause e'
  end.

(* Error() *)
Fixpoint message (e : err) : bytes :=
  match e with
  | Root _ m => m
  | WithMsg m e' => m ++ msg_sep ++ message e'
  | WithStk e' => message e'
  end.

(* the messages of the layers, outermost first, ending with the root's *)
Fixpoint chain (e : err) : list bytes :=
  match e with
  | Root _ m => [m]
  | WithMsg m e' => m :: chain e'
  | WithStk e' => chain e'
  end.

(* strings.Join(l, sep) *)
Fixpoint join (sep : bytes) (l : list bytes) : bytes :=
  match l with
  | [] => []
  | [x] => x
  | x :: t => x ++ sep ++ join sep t
  end.

Definition root_id (e : err) : N :=
  match cause e with Root id _ => id | _ => 0%N end.

Definition is_root (e : err) : bool := match e with Root _ _ => true | _ => false end.

(* number of wrapping layers *)
Fixpoint depth (e : err) : nat :=
  match e with Root _ _ => O | WithMsg _ e' => S (depth e') | WithStk e' => S (depth e') end.

(* ---- identities of the transport errors used by the I/O models (Lib/IO.v) ----
   These are the [id]s of Root values; the harness numbers its sentinel table the same way. *)
Definition id_EOF : N := 0%N.                (* io.EOF *)
Definition id_UnexpectedEOF : N := 1%N.      (* io.ErrUnexpectedEOF *)
Definition id_ClosedPipe : N := 2%N.         (* io.ErrClosedPipe *)
Definition id_ShortWrite : N := 3%N.         (* io.ErrShortWrite *)
(* ids >= 4: harness sentinels (custom error types) *)
