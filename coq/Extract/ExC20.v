From Verif Require Import Lib.Sx Model.Kxps.
Require Extraction.
Require Import ExtrOcamlBasic.
Definition run := run_c20.
Extraction "model.ml" run.
