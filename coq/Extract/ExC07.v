From Verif Require Import Lib.Sx Model.Total Proofs.TotalCostDef.
Require Extraction.
Require Import ExtrOcamlBasic.
(* run_c07, plus the cost cases (5 ...) of Proofs/TotalCostDef.v used by the cost-vs-CPU comparison *)
Definition run (c : sx) : sx := match cost_case c with Some r => r | None => run_c07 c end.
Extraction "model.ml" run.
