From Verif Require Import Lib.Sx Model.Total.
Require Extraction.
Require Import ExtrOcamlBasic.
Definition run := run_c07.
Extraction "model.ml" run.
