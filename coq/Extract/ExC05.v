From Verif Require Import Lib.Sx Model.Amf0.
Require Extraction.
Require Import ExtrOcamlBasic.
Definition run := run_c05.
Extraction "model.ml" run.
