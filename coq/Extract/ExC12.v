From Verif Require Import Lib.Sx Model.Avc.
Require Extraction.
Require Import ExtrOcamlBasic.
Definition run := run_c12.
Extraction "model.ml" run.
