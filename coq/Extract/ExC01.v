From Verif Require Import Lib.Sx Model.RtmpChunk.
Require Extraction.
Require Import ExtrOcamlBasic.
Definition run := run_c01.
Extraction "model.ml" run.
