From Verif Require Import Lib.Sx Model.Jose.
Require Extraction.
Require Import ExtrOcamlBasic.
Definition run := run_c16.
Extraction "model.ml" run.
