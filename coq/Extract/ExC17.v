From Verif Require Import Lib.Sx Model.JsonPlus.
Require Extraction.
Require Import ExtrOcamlBasic.
Definition run := run_c17.
Extraction "model.ml" run.
