From Verif Require Import Lib.Sx Model.WsWrite.
Require Extraction.
Require Import ExtrOcamlBasic.
Definition run := run_c13.
Extraction "model.ml" run.
