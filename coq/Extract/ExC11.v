From Verif Require Import Lib.Sx Model.Aac.
Require Extraction.
Require Import ExtrOcamlBasic.
Definition run := run_c11.
Extraction "model.ml" run.
