From Verif Require Import Lib.Sx Model.Logger.
Require Extraction.
Require Import ExtrOcamlBasic.
Definition run := run_c18.
Extraction "model.ml" run.
