From Verif Require Import Lib.Sx Model.RtmpPacket.
Require Extraction.
Require Import ExtrOcamlBasic.
Definition run := run_c03.
Extraction "model.ml" run.
