From Verif Require Import Lib.Sx Proofs.RtmpEndToEnd.
Require Extraction.
Require Import ExtrOcamlBasic.
Definition run := run_c03x.
Extraction "model.ml" run.
