From Verif Require Import Lib.Sx Model.Faults.
Require Extraction.
Require Import ExtrOcamlBasic.
Definition run := run_c08.
Extraction "model.ml" run.
