From Verif Require Import Lib.Sx Model.HttpApi.
Require Extraction.
Require Import ExtrOcamlBasic.
Definition run := run_c19.
Extraction "model.ml" run.
