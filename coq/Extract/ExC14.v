From Verif Require Import Lib.Sx Model.WsRead.
Require Extraction.
Require Import ExtrOcamlBasic.
Definition run := run_c14.
Extraction "model.ml" run.
