From Verif Require Import Lib.Sx Model.Flv.
Require Extraction.
Require Import ExtrOcamlBasic.
Definition run := run_c10.
Extraction "model.ml" run.
