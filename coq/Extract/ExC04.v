From Verif Require Import Lib.Sx Model.RtmpTx.
Require Extraction.
Require Import ExtrOcamlBasic.
Definition run := run_c04.
Extraction "model.ml" run.
