From Verif Require Import Lib.Sx Model.WsConc.
Require Extraction.
Require Import ExtrOcamlBasic.
Definition run := run_c15.
Extraction "model.ml" run.
