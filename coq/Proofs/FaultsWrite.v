(* C08 write side: a transport writer that fails at Write call number i, under sequences of
   io.Copy calls (FLV muxer, RTMP handshake) and under bufio.Writer + Flush (RTMP WriteMessage). *)
From Verif Require Import Lib.Base Lib.Sx Lib.Err Lib.IO Model.Faults Proofs.FaultsIO.
From Verif Require Model.Flv Proofs.Flv.
Module MF := Verif.Model.Flv.
Module PF := Verif.Proofs.Flv.
Open Scope N_scope.

(* ---------- the transport writer ---------- *)
(* bytes the faulty call accepts of a write p *)
Definition accepted (m : N) (term : option N) (p : bytes) : N :=
  let l := lenN p in
  let mm := N.min m l in
  match term with
  | None => if mm =? l then N.pred l else mm
  | Some _ => mm
  end.

Lemma received_cons p peer c f m t fl st :
  wt_received (mk_wtr (p :: peer) c f m t fl st) = concat (rev peer) ++ p.
Proof. unfold wt_received. cbn [wt_peer]. rewrite frev_rev. cbn [rev]. rewrite concat_app. cbn. now rewrite app_nil_r. Qed.
Lemma received_rev w : wt_received w = concat (rev (wt_peer w)).
Proof. unfold wt_received. now rewrite frev_rev. Qed.

(* the three behaviours of one Write call *)
Lemma wt_write_ok p w : wt_failed w = false -> wt_failat w <> Some (wt_calls w) ->
  exists w', wt_write p w = (lenN p, None, w') /\ wt_failed w' = false /\
             wt_received w' = wt_received w ++ p /\ wt_calls w' = N.succ (wt_calls w) /\
             wt_failat w' = wt_failat w /\ wt_m w' = wt_m w /\ wt_term w' = wt_term w /\ wt_sticky w' = wt_sticky w.
Proof.
  intros Hf Hi. unfold wt_write. rewrite Hf.
  destruct (wt_failat w) as [i|] eqn:Hfa.
  - destruct (N.eqb_spec i (wt_calls w)) as [->|_]; [congruence|].
    eexists. split; [reflexivity|]. rewrite received_cons, <- received_rev. cbn. repeat split; reflexivity.
  - eexists. split; [reflexivity|]. rewrite received_cons, <- received_rev. cbn. repeat split; reflexivity.
Qed.

Lemma wt_write_hit p w : wt_failed w = false -> wt_failat w = Some (wt_calls w) ->
  exists w', wt_write p w = (accepted (wt_m w) (wt_term w) p, wt_term w, w') /\ wt_failed w' = wt_sticky w /\
             wt_received w' = wt_received w ++ firstn (N.to_nat (accepted (wt_m w) (wt_term w) p)) p /\
             wt_term w' = wt_term w /\ wt_sticky w' = wt_sticky w.
Proof.
  intros Hf Hi. unfold wt_write. rewrite Hf, Hi, N.eqb_refl.
  fold (accepted (wt_m w) (wt_term w) p).
  rewrite split_at_spec. eexists. split; [reflexivity|].
  rewrite received_cons, <- received_rev. cbn. repeat split; reflexivity.
Qed.

Lemma wt_write_failed p w : wt_failed w = true -> wt_write p w = (0, Some (wt_err w), w).
Proof. intros Hf. unfold wt_write. now rewrite Hf. Qed.

Lemma accepted_le m t p : accepted m t p <= lenN p.
Proof. unfold accepted. destruct t; [lia|]. destruct (N.eqb_spec (N.min m (lenN p)) (lenN p)); lia. Qed.
Lemma accepted_short m p : p <> [] -> accepted m None p < lenN p.
Proof.
  intros Hp. pose proof (lenN_pos p Hp). unfold accepted.
  destruct (N.eqb_spec (N.min m (lenN p)) (lenN p)); lia.
Qed.

(* ---------- sequences of io.Copy on the raw transport ---------- *)
Fixpoint copy_all (ps : list bytes) (w : wtr) : option N * wtr :=
  match ps with
  | [] => (None, w)
  | p :: r => match copy_bytes p w with
              | (Some e, w') => (Some e, w')
              | (None, w') => copy_all r w'
              end
  end.

Fixpoint run_wops (ops : list (list bytes)) (w : wtr) (n : N) : N * option N * wtr :=
  match ops with
  | [] => (n, None, w)
  | o :: r => match copy_all o w with
              | (Some e, w') => (n, Some e, w')
              | (None, w') => run_wops r w' (N.succ n)
              end
  end.

Definition nonempty (p : bytes) : bool := match p with [] => false | _ => true end.
(* the Write calls of a fault-free run *)
Definition calls_of (ops : list (list bytes)) : list bytes := concat (map (filter nonempty) ops).
(* operations whose calls all come before call number j *)
Fixpoint ops_before (ops : list (list bytes)) (j : N) : N :=
  match ops with
  | [] => 0
  | o :: r => let c := N.of_nat (length (filter nonempty o)) in
              if c <=? j then N.succ (ops_before r (j - c)) else 0
  end.

Lemma concat_filter_nonempty ps : concat (filter nonempty ps) = concat ps.
Proof. induction ps as [|[|x p] ps IH]; cbn; [reflexivity|exact IH|now rewrite IH]. Qed.
Lemma concat_calls_of ops : concat (calls_of ops) = concat (concat ops).
Proof.
  unfold calls_of. induction ops as [|o ops IH]; [reflexivity|].
  cbn [map concat]. now rewrite !concat_app, concat_filter_nonempty, IH.
Qed.

(* state of the transport: healthy, [c] calls made, the fault still [j] calls ahead (or none) *)
Definition healthy (w : wtr) (j : option N) : Prop :=
  wt_failed w = false /\
  match j with
  | Some j => wt_failat w = Some (wt_calls w + j)
  | None => forall k, wt_failat w <> Some (wt_calls w + k)
  end.

Lemma healthy_step w j : healthy w j ->
  match j with
  | Some 0 => wt_failat w = Some (wt_calls w)
  | _ => wt_failat w <> Some (wt_calls w)
  end.
Proof.
  intros [_ H]. destruct j as [[|p]|].
  - now rewrite N.add_0_r in H.
  - rewrite H. intros E. injection E. lia.
  - specialize (H 0). now rewrite N.add_0_r in H.
Qed.

Definition jpred (j : option N) : option N := match j with Some j => Some (N.pred j) | None => None end.

Lemma healthy_next w w' j : healthy w j -> j <> Some 0 -> wt_failed w' = false ->
  wt_calls w' = N.succ (wt_calls w) -> wt_failat w' = wt_failat w -> healthy w' (jpred j).
Proof.
  intros [_ H] Hj Hf Hc Ha. split; [exact Hf|]. destruct j as [j|]; cbn [jpred].
  - rewrite Ha, H, Hc. f_equal. assert (j <> 0) by congruence. lia.
  - intros k. rewrite Ha, Hc. replace (N.succ (wt_calls w) + k) with (wt_calls w + N.succ k) by lia. apply H.
Qed.

(* one io.Copy *)
Lemma copy_bytes_spec p w j : healthy w j ->
  match p, j with
  | [], _ => copy_bytes p w = (None, w)
  | _, Some 0 =>
      exists w', copy_bytes p w = (Some (wt_err w), w') /\ wt_failed w' = wt_sticky w /\
        wt_received w' = wt_received w ++ firstn (N.to_nat (accepted (wt_m w) (wt_term w) p)) p
  | _, _ =>
      exists w', copy_bytes p w = (None, w') /\ healthy w' (jpred j) /\
        wt_received w' = wt_received w ++ p /\ wt_m w' = wt_m w /\ wt_term w' = wt_term w /\ wt_sticky w' = wt_sticky w
  end.
Proof.
  intros Hh. destruct p as [|x p]; [reflexivity|].
  pose proof (healthy_step w j Hh) as Hs. destruct Hh as [Hf Hj].
  assert (Hok : j <> Some 0 -> exists w', copy_bytes (x :: p) w = (None, w') /\ healthy w' (jpred j) /\
        wt_received w' = wt_received w ++ x :: p /\ wt_m w' = wt_m w /\ wt_term w' = wt_term w /\ wt_sticky w' = wt_sticky w).
  { intros Hj0.
    assert (Hne : wt_failat w <> Some (wt_calls w)) by (destruct j as [[|q]|]; [congruence|exact Hs|exact Hs]).
    destruct (wt_write_ok (x :: p) w Hf Hne) as (w' & Hw & Hf' & Hr & Hc & Ha & Hm & Ht & Hst).
    exists w'. unfold copy_bytes. rewrite Hw, N.eqb_refl. split; [reflexivity|].
    split; [apply (healthy_next w w' j (conj Hf Hj) Hj0 Hf' Hc Ha)|repeat split; auto]. }
  destruct j as [[|q]|]; [|apply Hok; discriminate|apply Hok; discriminate].
  destruct (wt_write_hit (x :: p) w Hf Hs) as (w' & Hw & Hf' & Hr & Ht).
  exists w'. unfold copy_bytes. rewrite Hw. unfold wt_err. destruct (wt_term w) as [e|] eqn:Hterm.
  - auto.
  - pose proof (accepted_short (wt_m w) (x :: p) ltac:(congruence)) as Hlt.
    destruct (N.eqb_spec (accepted (wt_m w) None (x :: p)) (lenN (x :: p))) as [E|_]; [lia|]. auto.
Qed.

(* what the peer has received when the fault hits call number j of the list [calls] *)
Definition received_at (m : N) (term : option N) (calls : list bytes) (j : N) : bytes :=
  concat (firstn (N.to_nat j) calls) ++
  firstn (N.to_nat (accepted m term (nth (N.to_nat j) calls []))) (nth (N.to_nat j) calls []).

Lemma copy_all_spec ps : forall w j, healthy w j ->
  let c := N.of_nat (length (filter nonempty ps)) in
  match j with
  | Some j' =>
      if j' <? c then
        exists w', copy_all ps w = (Some (wt_err w), w') /\ wt_failed w' = wt_sticky w /\
          wt_received w' = wt_received w ++ received_at (wt_m w) (wt_term w) (filter nonempty ps) j'
      else
        exists w', copy_all ps w = (None, w') /\ healthy w' (Some (j' - c)) /\
          wt_received w' = wt_received w ++ concat ps /\ wt_m w' = wt_m w /\ wt_term w' = wt_term w /\ wt_sticky w' = wt_sticky w
  | None =>
      exists w', copy_all ps w = (None, w') /\ healthy w' None /\
        wt_received w' = wt_received w ++ concat ps /\ wt_m w' = wt_m w /\ wt_term w' = wt_term w /\ wt_sticky w' = wt_sticky w
  end.
Proof.
  induction ps as [|p ps IH]; intros w j Hh; cbn [copy_all filter length concat].
  - destruct j as [j'|].
    + cbn. destruct (N.ltb_spec j' 0) as [H|_]; [lia|]. exists w. rewrite N.sub_0_r, app_nil_r. auto 10.
    + exists w. rewrite app_nil_r. auto 10.
  - pose proof (copy_bytes_spec p w j Hh) as Hc. destruct p as [|x p].
    + (* empty piece: no call *)
      rewrite Hc. cbn [nonempty app]. apply IH. exact Hh.
    + cbn [nonempty length]. destruct j as [[|q]|].
      * destruct Hc as (w' & -> & Hf' & Hr). cbn [N.of_nat].
        destruct (N.ltb_spec 0 (N.pos (Pos.of_succ_nat (length (filter nonempty ps))))) as [_|H]; [|lia].
        exists w'. split; [reflexivity|]. split; [exact Hf'|].
        unfold received_at. cbn [N.to_nat firstn concat nth app]. exact Hr.
      * destruct Hc as (w' & -> & Hh' & Hr & Hm & Ht & Hst). cbn [jpred] in Hh'.
        specialize (IH w' _ Hh'). cbn beta iota zeta in IH.
        set (c := N.of_nat (length (filter nonempty ps))) in *.
        replace (N.of_nat (Datatypes.S (length (filter nonempty ps)))) with (N.succ c) by lia.
        destruct (N.ltb_spec (N.pred (N.pos q)) c) as [Hlt|Hge].
        -- destruct (N.ltb_spec (N.pos q) (N.succ c)) as [_|H]; [|lia].
           destruct IH as (w'' & -> & Hf'' & Hr''). exists w''.
           assert (wt_err w' = wt_err w) as -> by (unfold wt_err; now rewrite Ht).
           split; [reflexivity|]. split; [congruence|].
           rewrite Hr'', Hr, Hm, Ht, <- app_assoc. f_equal.
           unfold received_at.
           replace (N.to_nat (N.pos q)) with (Datatypes.S (N.to_nat (N.pred (N.pos q)))) by lia.
           cbn [firstn concat nth]. now rewrite <- app_assoc.
        -- destruct (N.ltb_spec (N.pos q) (N.succ c)) as [H|_]; [lia|].
           destruct IH as (w'' & -> & Hh'' & Hr'' & Hm'' & Ht'' & Hst''). exists w''.
           split; [reflexivity|].
           replace (N.pos q - N.succ c) with (N.pred (N.pos q) - c) by lia.
           split; [exact Hh''|]. rewrite Hr'', Hr, <- app_assoc. split; [reflexivity|]. repeat split; congruence.
      * destruct Hc as (w' & -> & Hh' & Hr & Hm & Ht & Hst). cbn [jpred] in Hh'.
        destruct (IH w' None Hh') as (w'' & -> & Hh'' & Hr'' & Hm'' & Ht'' & Hst''). exists w''.
        split; [reflexivity|]. split; [exact Hh''|]. rewrite Hr'', Hr, <- app_assoc.
        split; [reflexivity|]. repeat split; congruence.
Qed.

Lemma firstn_app_len {A} (a b : list A) n : (length a <= n)%nat -> firstn n (a ++ b) = a ++ firstn (n - length a) b.
Proof. intros H. rewrite firstn_app, firstn_all2 by lia. reflexivity. Qed.
Lemma nth_app_len {A} (a b : list A) n d : (length a <= n)%nat -> nth n (a ++ b) d = nth (n - length a) b d.
Proof. intros H. now rewrite app_nth2 by lia. Qed.

Lemma received_at_app m t a b j : N.of_nat (length a) <= j ->
  received_at m t (a ++ b) j = concat a ++ received_at m t b (j - N.of_nat (length a)).
Proof.
  intros H. unfold received_at.
  rewrite firstn_app_len, nth_app_len by lia.
  replace (N.to_nat j - length a)%nat with (N.to_nat (j - N.of_nat (length a))) by lia.
  now rewrite concat_app, <- app_assoc.
Qed.
Lemma received_at_app_l m t a b j : j < N.of_nat (length a) ->
  received_at m t (a ++ b) j = received_at m t a j.
Proof.
  intros H. unfold received_at. rewrite firstn_app, app_nth1 by lia.
  replace (N.to_nat j - length a)%nat with 0%nat by lia. cbn [firstn]. now rewrite app_nil_r.
Qed.

(* operations until the first error *)
Theorem run_wops_spec ops : forall w j n, healthy w j ->
  let calls := calls_of ops in
  match j with
  | Some j' =>
      if j' <? N.of_nat (length calls) then
        exists w', run_wops ops w n = (n + ops_before ops j', Some (wt_err w), w') /\ wt_failed w' = wt_sticky w /\
          wt_received w' = wt_received w ++ received_at (wt_m w) (wt_term w) calls j'
      else
        exists w', run_wops ops w n = (n + N.of_nat (length ops), None, w') /\
          healthy w' (Some (j' - N.of_nat (length calls))) /\
          wt_received w' = wt_received w ++ concat (concat ops)
  | None =>
      exists w', run_wops ops w n = (n + N.of_nat (length ops), None, w') /\ healthy w' None /\
        wt_received w' = wt_received w ++ concat (concat ops)
  end.
Proof.
  induction ops as [|o ops IH]; intros w j n Hh; cbn [run_wops calls_of map concat ops_before length].
  - destruct j as [j'|].
    + cbn. destruct (N.ltb_spec j' 0) as [H|_]; [lia|]. exists w. rewrite N.sub_0_r, N.add_0_r, app_nil_r. auto.
    + exists w. rewrite N.add_0_r, app_nil_r. auto.
  - fold (calls_of ops). pose proof (copy_all_spec o w j Hh) as Hc. cbn zeta in Hc.
    set (c := N.of_nat (length (filter nonempty o))) in *.
    rewrite app_length, Nat2N.inj_add. fold c.
    destruct j as [j'|].
    + destruct (N.ltb_spec j' c) as [Hlt|Hge].
      * destruct Hc as (w' & -> & Hf' & Hr).
        destruct (N.ltb_spec j' (c + N.of_nat (length (calls_of ops)))) as [_|H]; [|lia].
        destruct (N.leb_spec c j') as [H|_]; [lia|].
        exists w'. rewrite N.add_0_r. split; [reflexivity|]. split; [exact Hf'|].
        now rewrite received_at_app_l by (fold c; exact Hlt).
      * destruct Hc as (w' & -> & Hh' & Hr & Hm & Ht & Hst).
        destruct (N.leb_spec c j') as [_|H]; [|lia].
        specialize (IH w' (Some (j' - c)) (N.succ n) Hh'). cbn beta iota zeta in IH.
        destruct (N.ltb_spec (j' - c) (N.of_nat (length (calls_of ops)))) as [Hlt2|Hge2].
        -- destruct (N.ltb_spec j' (c + N.of_nat (length (calls_of ops)))) as [_|H]; [|lia].
           destruct IH as (w'' & -> & Hf'' & Hr''). exists w''.
           assert (wt_err w' = wt_err w) as -> by (unfold wt_err; now rewrite Ht).
           split; [f_equal; f_equal; lia|]. split; [congruence|].
           rewrite Hr'', Hr, Hm, Ht, <- app_assoc. f_equal.
           rewrite received_at_app by (fold c; exact Hge). fold c.
           now rewrite concat_filter_nonempty.
        -- destruct (N.ltb_spec j' (c + N.of_nat (length (calls_of ops)))) as [H|_]; [lia|].
           destruct IH as (w'' & -> & Hh'' & Hr''). exists w''.
           split; [f_equal; f_equal; lia|].
           replace (j' - (c + N.of_nat (length (calls_of ops)))) with (j' - c - N.of_nat (length (calls_of ops))) by lia.
           split; [exact Hh''|]. rewrite Hr'', Hr, concat_app, <- app_assoc. reflexivity.
    + destruct Hc as (w' & -> & Hh' & Hr & Hm & Ht & Hst).
      destruct (IH w' None (N.succ n) Hh') as (w'' & -> & Hh'' & Hr''). exists w''.
      split; [f_equal; f_equal; lia|]. split; [exact Hh''|].
      rewrite Hr'', Hr, concat_app, <- app_assoc. reflexivity.
Qed.

(* a fresh transport with the fault at call i *)
Lemma healthy_new st i m term : healthy (wtr_new_s st (Some i) m term) (Some i).
Proof. split; reflexivity. Qed.
Lemma healthy_new_none st m term : healthy (wtr_new_s st None m term) None.
Proof. split; [reflexivity|]. intros k. discriminate. Qed.

(* what arrived is a prefix of what a fault-free run sends *)
Lemma received_at_prefix m t calls j : j < N.of_nat (length calls) ->
  exists rest, concat calls = received_at m t calls j ++ rest.
Proof.
  intros Hj. unfold received_at. unfold bytes in *. assert (Hjn : (N.to_nat j < length calls)%nat) by lia.
  generalize dependent (N.to_nat j). intros n Hjn.
  pose proof (firstn_skipn n calls) as Hfs.
  destruct (skipn n calls) as [|p r] eqn:Hs.
  - apply (f_equal (@length _)) in Hs. rewrite skipn_length in Hs. cbn in Hs. lia.
  - assert (Hn : nth n calls [] = p).
    { rewrite <- Hfs, app_nth2 by (rewrite firstn_length; lia).
      rewrite firstn_length. replace (n - Nat.min n (length calls))%nat with 0%nat by lia. reflexivity. }
    exists (skipn (N.to_nat (accepted m t p)) p ++ concat r). rewrite Hn.
    rewrite <- Hfs at 1. rewrite concat_app. cbn [concat].
    rewrite <- app_assoc. f_equal. now rewrite app_assoc, firstn_skipn.
Qed.

(* ================================ FLV muxer ================================ *)
Definition flv_wops (hv ha : bool) (tags : list MF.tag) : list (list bytes) :=
  [MF.mux_header hv ha] :: map (fun t => [MF.mux_tag_header t; MF.t_body t; MF.mux_tag_trailer t]) tags.

Lemma flv_write_tags_wops tags : forall w n,
  flv_write_tags tags w n =
  run_wops (map (fun t => [MF.mux_tag_header t; MF.t_body t; MF.mux_tag_trailer t]) tags) w n.
Proof.
  induction tags as [|t r IH]; intros w n; cbn [flv_write_tags map run_wops copy_all]; [reflexivity|].
  unfold flv_write_tag.
  destruct (copy_bytes (MF.mux_tag_header t) w) as [[e|] w1]; [reflexivity|].
  destruct (copy_bytes (MF.t_body t) w1) as [[e|] w2]; [reflexivity|].
  destruct (copy_bytes (MF.mux_tag_trailer t) w2) as [[e|] w3]; [reflexivity|]. apply IH.
Qed.

Lemma flv_write_session_wops hv ha tags w :
  flv_write_session hv ha tags w = run_wops (flv_wops hv ha tags) w 0.
Proof.
  unfold flv_write_session, flv_wops, flv_write_header. cbn [run_wops copy_all].
  destruct (copy_bytes (MF.mux_header hv ha) w) as [[e|] w1]; [reflexivity|]. apply flv_write_tags_wops.
Qed.

Lemma flv_tag_calls tags :
  concat (map (filter nonempty) (map (fun t => [MF.mux_tag_header t; MF.t_body t; MF.mux_tag_trailer t]) tags))
  = concat (map MF.mux_tag_writes tags).
Proof.
  induction tags as [|t r IH]; [reflexivity|]. cbn [map concat]. rewrite IH. f_equal.
  assert (Hh : nonempty (MF.mux_tag_header t) = true) by reflexivity.
  assert (Ht : nonempty (MF.mux_tag_trailer t) = true) by reflexivity.
  unfold MF.mux_tag_writes. cbn [filter]. rewrite Hh, Ht.
  destruct (MF.t_body t); reflexivity.
Qed.

Lemma flv_calls hv ha tags : calls_of (flv_wops hv ha tags) = MF.mux_writes hv ha tags.
Proof.
  unfold calls_of, flv_wops, MF.mux_writes. cbn [map concat]. rewrite flv_tag_calls.
  assert (Hh : nonempty (MF.mux_header hv ha) = true) by reflexivity.
  cbn [filter]. rewrite Hh. reflexivity.
Qed.

Lemma flv_wire hv ha tags : concat (concat (flv_wops hv ha tags)) = MF.mux hv ha tags.
Proof. rewrite <- concat_calls_of, flv_calls. reflexivity. Qed.

Theorem flv_write_fault st hv ha tags i m term :
  let w0 := wtr_new_s st (Some i) m term in
  let calls := MF.mux_writes hv ha tags in
  if i <? N.of_nat (length calls) then
    exists w, flv_write_session hv ha tags w0 = (ops_before (flv_wops hv ha tags) i, Some (wt_err w0), w) /\
      wt_received w = received_at m term calls i /\
      exists rest, MF.mux hv ha tags = wt_received w ++ rest
  else
    exists w, flv_write_session hv ha tags w0 = (N.of_nat (1 + length tags), None, w) /\
      wt_received w = MF.mux hv ha tags.
Proof.
  intros w0 calls. rewrite flv_write_session_wops.
  pose proof (run_wops_spec (flv_wops hv ha tags) w0 (Some i) 0 (healthy_new st i m term)) as R.
  cbn zeta in R. rewrite flv_calls in R. fold calls in R.
  destruct (N.ltb_spec i (N.of_nat (length calls))) as [Hlt|Hge].
  - destruct R as (w & -> & _ & Hr). exists w. rewrite N.add_0_l. split; [reflexivity|].
    cbn [wt_received wt_peer w0 wtr_new_s] in Hr. change (wt_received w0) with (@nil N) in Hr.
    cbn [app wt_m wt_term w0 wtr_new_s] in Hr. split; [exact Hr|].
    rewrite Hr. unfold MF.mux. fold calls. apply received_at_prefix. exact Hlt.
  - destruct R as (w & -> & _ & Hr). exists w.
    unfold flv_wops. cbn [length]. rewrite map_length, N.add_0_l. split; [reflexivity|].
    change (wt_received w0) with (@nil N) in Hr. cbn [app] in Hr. rewrite Hr. apply flv_wire.
Qed.

Theorem flv_write_no_fault st hv ha tags m term :
  exists w, flv_write_session hv ha tags (wtr_new_s st None m term) = (N.of_nat (1 + length tags), None, w) /\
    wt_received w = MF.mux hv ha tags.
Proof.
  rewrite flv_write_session_wops.
  destruct (run_wops_spec (flv_wops hv ha tags) _ None 0 (healthy_new_none st m term)) as (w & -> & _ & Hr).
  exists w. unfold flv_wops. cbn [length]. rewrite map_length, N.add_0_l. split; [reflexivity|].
  change (wt_received (wtr_new_s st None m term)) with (@nil N) in Hr. cbn [app] in Hr. rewrite Hr. apply flv_wire.
Qed.
