(* C17 proofs, part 7: the consumer.  commentReader.Read(p) hands the scanner's tokens over
   through a bytes.Buffer; [consume] models a consumer calling Read with buffers of arbitrary
   sizes (0, 1, smaller than a token, ...).  The scanner inside Read is the scanner of [drain]
   (drain_scan), so whatever the sizes, the consumer receives a prefix of drain's output, all of
   it when it reads up to the end, and then the same end status (consume_drain). *)
From Verif Require Import Lib.Base Lib.Sx Gen.Gen_json Model.JsonPlus.
From Verif Require Import Proofs.JsonPlusIndex Proofs.JsonPlusSplit Proofs.JsonPlusScan Proofs.JsonPlusStrip.
Open Scope N_scope.

Definition cont (fin : N) (dt : bool) (r : sres * nat) (out : list bytes) : list bytes * res unit :=
  match r with
  | (STok tok st' segs' serr', f') =>
      match serr' with
      | Some e => if e =? 0 then drain f' st' segs' fin dt serr' (tok :: out) else (out, Err e)
      | None => drain f' st' segs' fin dt serr' (tok :: out)
      end
  | (SEnd r, _) => (out, r)
  end.

(* drain is: scan to the next non-empty token, hand it over, continue with the fuel left *)
Lemma drain_scan fin dt : forall fuel st segs serr out,
  drain fuel st segs fin dt serr out = cont fin dt (scan_tok fuel st segs fin dt serr) out.
Proof.
  induction fuel as [|f IH]; intros st segs serr out; [reflexivity|].
  cbn [drain scan_tok].
  match goal with |- context [if ?c then split ?a ?b else Ok More] => destruct (if c then split a b else Ok More) as [[|adv tok]|e|s] end;
    try reflexivity.
  - destruct serr as [e|]; [reflexivity|].
    match goal with |- context [if ?c then (out, Err E_TOOLONG) else _] => destruct c end; [reflexivity|].
    match goal with |- context [read_more ?a ?b ?c ?d ?e] => destruct (read_more a b c d e) as [[got segs'] serr'] end.
    apply IH.
  - match goal with |- context [if ?c then (out, Err (set_err serr E_ADVANCE)) else _] => destruct c end; [reflexivity|].
    destruct (adv =? 0)%Z; [reflexivity|].
    destruct tok as [|c t].
    + destruct serr; apply IH.
    + destruct serr as [e|]; reflexivity.
Qed.

Lemma scan_fuel_lt fin dt : forall fuel st segs serr r f',
  scan_tok fuel st segs fin dt serr = (r, f') -> (f' <= fuel)%nat /\ (fuel <> 0%nat -> f' < fuel)%nat.
Proof.
  induction fuel as [|f IH]; intros st segs serr r f' H.
  - cbn in H. inversion H. lia.
  - assert (G : (f' <= f)%nat); [|lia].
    cbn [scan_tok] in H.
    match type of H with context [if ?c then split ?a ?b else Ok More] => destruct (if c then split a b else Ok More) as [[|adv tok]|e|s] end;
      try (inversion H; lia).
    + destruct serr as [e|]; [inversion H; lia|].
      match type of H with context [if ?c then (SEnd (Err E_TOOLONG), f) else _] => destruct c end; [inversion H; lia|].
      match type of H with context [read_more ?a ?b ?c ?d ?e] => destruct (read_more a b c d e) as [[got segs'] serr'] end.
      apply IH in H. lia.
    + match type of H with context [if ?c then (SEnd (Err (set_err serr E_ADVANCE)), f) else _] => destruct c end; [inversion H; lia|].
      destruct (adv =? 0)%Z; [inversion H; lia|].
      destruct tok as [|c t]; [apply IH in H; lia|inversion H; lia].
Qed.

(* the accumulator is only extended *)
Lemma drain_out fin dt : forall fuel st segs serr out,
  drain fuel st segs fin dt serr out =
    (fst (drain fuel st segs fin dt serr []) ++ out, snd (drain fuel st segs fin dt serr [])).
Proof.
  induction fuel as [fuel IH] using lt_wf_ind; intros st segs serr out.
  rewrite (drain_scan fin dt fuel st segs serr out), (drain_scan fin dt fuel st segs serr []).
  destruct (scan_tok fuel st segs fin dt serr) as [[tok st' segs' serr'|r] f'] eqn:E; [|reflexivity].
  destruct fuel as [|fuel]; [cbn in E; discriminate|].
  destruct (scan_fuel_lt _ _ _ _ _ _ _ _ E) as [_ Hlt]. specialize (Hlt ltac:(lia)).
  unfold cont.
  assert (G : drain f' st' segs' fin dt serr' (tok :: out) =
              (fst (drain f' st' segs' fin dt serr' [tok]) ++ out, snd (drain f' st' segs' fin dt serr' [tok]))).
  { rewrite (IH f' Hlt st' segs' serr' (tok :: out)), (IH f' Hlt st' segs' serr' [tok]). cbn [fst snd].
    now rewrite <- app_assoc. }
  destruct serr' as [e|]; [destruct (e =? 0); [exact G|reflexivity]|exact G].
Qed.

(* ---- the consumer ---- *)
Lemma deliver_app b : forall n a r, deliver n b = (a, r) -> a ++ r = b.
Proof.
  induction b as [|c t IH]; intros n a r H; cbn [deliver] in H.
  - inversion H; reflexivity.
  - destruct (n =? 0); [inversion H; reflexivity|].
    destruct (deliver (n - 1) t) as [a' r'] eqn:E. inversion H; subst. cbn. f_equal. eapply IH; eauto.
Qed.

Lemma deliver_pos n c b a r : 0 < n -> deliver n (c :: b) = (a, r) -> a <> [].
Proof.
  intros Hn H. cbn [deliver] in H. destruct (n =? 0) eqn:E; [apply N.eqb_eq in E; lia|].
  destruct (deliver (n - 1) b) as [a' r']. inversion H; subst. discriminate.
Qed.

Lemma flat_snoc o tok : flat (o ++ [tok]) = tok ++ flat o.
Proof. unfold flat. rewrite rev_app_distr. reflexivity. Qed.

Section Consumer.
  Variables (fin : N) (dt : bool).

  Definition eager (s : rstate) : list bytes * res unit := drain (rfuel s) (rst s) (rsegs s) fin dt (rserr s) [].
  (* what the reader still owes the consumer, and how it will end *)
  Definition pending (s : rstate) : bytes := rb s ++ flat (fst (eager s)).
  Definition endstat (s : rstate) : res unit := snd (eager s).

  Lemma eager_after_tok f' st' segs' serr' tok :
    drain f' st' segs' fin dt serr' [tok] =
      (fst (drain f' st' segs' fin dt serr' []) ++ [tok], snd (drain f' st' segs' fin dt serr' [])).
  Proof. apply drain_out. Qed.

  (* [core] whatever the buffer sizes: a prefix of the eager output; everything and the same end
     status once Read reports the end *)
  Lemma consume_drain : forall rds s acc acc' status,
    consume fin dt rds s acc = (acc', status) ->
    match status with
    | None => exists rest, flat acc' ++ rest = flat acc ++ pending s
    | Some r' => flat acc' = flat acc ++ pending s /\ r' = endstat s
    end.
  Proof.
    induction rds as [|n t IH]; intros s acc acc' status H.
    - cbn in H. inversion H; subst. exists (pending s). reflexivity.
    - cbn [consume] in H. unfold read_p in H. destruct (rb s) as [|c b'] eqn:Erb.
      + (* the buffer is empty: scan *)
        pose proof (drain_scan fin dt (rfuel s) (rst s) (rsegs s) (rserr s) []) as DS. fold (eager s) in DS.
        destruct (scan_tok (rfuel s) (rst s) (rsegs s) fin dt (rserr s)) as [[tok st' segs' serr'|r] f'] eqn:E.
        * unfold cont in DS.
          destruct (match serr' with Some e => negb (e =? 0) | None => false end) eqn:Ef.
          -- (* a read error: returned at once, the token stays in the buffer *)
             destruct serr' as [e|]; [|discriminate]. destruct (e =? 0) eqn:E0; [discriminate|].
             inversion H; subst acc' status. unfold pending, endstat. rewrite Erb, DS. cbn [fst snd flat rev concat app push].
             rewrite app_nil_r. auto.
          -- destruct (deliver n tok) as [a r0] eqn:Ed.
             set (s' := {| rb := r0; rst := st'; rsegs := segs'; rserr := serr'; rfuel := f' |}) in *.
             assert (DS' : eager s = (fst (eager s') ++ [tok], snd (eager s'))).
             { rewrite DS. unfold eager, s'. cbn [rfuel rst rsegs rserr].
               destruct serr' as [e|]; [destruct (e =? 0) eqn:E0; [|discriminate]|]; apply eager_after_tok. }
             specialize (IH s' (push a acc) acc' status H).
             assert (Hp : flat (push a acc) ++ pending s' = flat acc ++ pending s).
             { unfold pending. rewrite Erb, DS'. cbn [fst rb s' app]. rewrite flat_push, flat_snoc.
               rewrite <- (deliver_app _ _ _ _ Ed). now rewrite <- !app_assoc. }
             assert (He : endstat s' = endstat s) by (unfold endstat; rewrite DS'; reflexivity).
             destruct status as [r'|].
             ++ destruct IH as [A B]. split; [now rewrite A, Hp|now rewrite B, He].
             ++ destruct IH as [rest A]. exists rest. now rewrite A, Hp.
        * unfold cont in DS. inversion H; subst acc' status. unfold pending, endstat. rewrite Erb, DS.
          cbn [fst snd flat rev concat app push]. rewrite app_nil_r. auto.
      + (* bytes are waiting in the buffer *)
        destruct (deliver n (c :: b')) as [a r0] eqn:Ed.
        set (s' := {| rb := r0; rst := rst s; rsegs := rsegs s; rserr := rserr s; rfuel := rfuel s |}) in *.
        specialize (IH s' (push a acc) acc' status H).
        assert (Hp : flat (push a acc) ++ pending s' = flat acc ++ pending s).
        { unfold pending, eager. rewrite Erb. cbn [rb rst rsegs rserr rfuel s']. rewrite flat_push.
          rewrite <- (deliver_app _ _ _ _ Ed). now rewrite <- !app_assoc. }
        assert (He : endstat s' = endstat s) by reflexivity.
        destruct status as [r'|].
        * destruct IH as [A B]. split; [now rewrite A, Hp|now rewrite B, He].
        * destruct IH as [rest A]. exists rest. now rewrite A, Hp.
  Qed.

  (* scan_tok hands over non-empty tokens only *)
  Lemma scan_tok_nonempty : forall fuel st segs serr tok st' segs' serr' f',
    scan_tok fuel st segs fin dt serr = (STok tok st' segs' serr', f') -> tok <> [].
  Proof.
    induction fuel as [|f IH]; intros st segs serr tok st' segs' serr' f' H; [discriminate|].
    cbn [scan_tok] in H.
    match type of H with context [if ?c then split ?a ?b else Ok More] => destruct (if c then split a b else Ok More) as [[|adv tk]|e|s] end;
      try discriminate.
    - destruct serr as [e|]; [discriminate|].
      match type of H with context [if ?c then (SEnd (Err E_TOOLONG), f) else _] => destruct c end; [discriminate|].
      match type of H with context [read_more ?a ?b ?c ?d ?e] => destruct (read_more a b c d e) as [[got sg] se] end.
      eapply IH; eauto.
    - match type of H with context [if ?c then (SEnd (Err (set_err serr E_ADVANCE)), f) else _] => destruct c end; [discriminate|].
      destruct (adv =? 0)%Z; [discriminate|].
      destruct tk as [|c t]; [eapply IH; eauto|]. inversion H; subst. discriminate.
  Qed.

  (* progress: a consumer whose buffers all have room for at least one byte reaches the end
     after at most one call per pending byte, plus one *)
  Lemma consume_progress : forall rds s acc,
    Forall (fun n => 0 < n) rds -> (length (pending s) < length rds)%nat ->
    snd (consume fin dt rds s acc) <> None.
  Proof.
    induction rds as [|n t IH]; intros s acc Hpos Hlen; [cbn in Hlen; lia|].
    inversion Hpos as [|? ? Hn Ht]; subst.
    cbn [consume]. unfold read_p. destruct (rb s) as [|c b'] eqn:Erb.
    - pose proof (drain_scan fin dt (rfuel s) (rst s) (rsegs s) (rserr s) []) as DS. fold (eager s) in DS.
      destruct (scan_tok (rfuel s) (rst s) (rsegs s) fin dt (rserr s)) as [[tok st' segs' serr'|r] f'] eqn:E;
        [|cbn; discriminate].
      pose proof (scan_tok_nonempty _ _ _ _ _ _ _ _ _ E) as Hne.
      destruct (match serr' with Some e => negb (e =? 0) | None => false end) eqn:Ef; [cbn; discriminate|].
      destruct tok as [|c0 tk]; [congruence|].
      destruct (deliver n (c0 :: tk)) as [a r0] eqn:Ed.
      set (s' := {| rb := r0; rst := st'; rsegs := segs'; rserr := serr'; rfuel := f' |}) in *.
      apply IH; auto.
      assert (DS' : eager s = (fst (eager s') ++ [c0 :: tk], snd (eager s'))).
      { rewrite DS. unfold cont, eager, s'. cbn [rfuel rst rsegs rserr].
        destruct serr' as [e|]; [destruct (e =? 0) eqn:E0; [|discriminate]|]; apply eager_after_tok. }
      pose proof (deliver_pos _ _ _ _ _ Hn Ed) as Ha. pose proof (deliver_app _ _ _ _ Ed) as Hd.
      unfold pending in *. rewrite Erb, DS' in Hlen. cbn [fst app rb s'] in *. rewrite flat_snoc in Hlen.
      rewrite <- Hd in Hlen. rewrite !app_length in Hlen. cbn [length] in Hlen.
      rewrite app_length. destruct a; [congruence|]. cbn [length] in Hlen. lia.
    - destruct (deliver n (c :: b')) as [a r0] eqn:Ed.
      set (s' := {| rb := r0; rst := rst s; rsegs := rsegs s; rserr := rserr s; rfuel := rfuel s |}) in *.
      apply IH; auto.
      pose proof (deliver_pos _ _ _ _ _ Hn Ed) as Ha. pose proof (deliver_app _ _ _ _ Ed) as Hd.
      unfold pending, eager in *. rewrite Erb in Hlen. cbn [rb rst rsegs rserr rfuel s'] in *.
      rewrite <- Hd in Hlen. rewrite !app_length in *. destruct a; [congruence|]. cbn [length] in Hlen. lia.
  Qed.
End Consumer.

(* ---- top level ---- *)
Lemma reader_rd_reader segs fin dt rds :
  let '(o, r) := reader_dt segs fin dt in
  let '(d, st) := reader_rd segs fin dt rds in
  match st with
  | None => exists rest, d ++ rest = o
  | Some r' => d = o /\ r' = r
  end.
Proof.
  unfold reader_dt, reader_rd.
  destruct (consume fin dt rds (rstate0 segs) []) as [acc' status] eqn:C.
  pose proof (consume_drain fin dt rds (rstate0 segs) [] acc' status C) as H.
  unfold pending, endstat, eager, rstate0 in H. cbn [rb rst rsegs rserr rfuel app flat rev concat] in H.
  destruct (drain (drain_fuel segs) sc0 segs fin dt None []) as [o r]. cbn [fst snd] in H.
  destruct status; exact H.
Qed.

Lemma reader_rd_ends segs fin dt rds :
  Forall (fun n => 0 < n) rds -> (length (fst (reader_dt segs fin dt)) < length rds)%nat ->
  snd (reader_rd segs fin dt rds) <> None.
Proof.
  intros Hp Hl. unfold reader_rd.
  pose proof (consume_progress fin dt rds (rstate0 segs) [] Hp) as H.
  unfold pending, eager, rstate0 in H. cbn [rb rst rsegs rserr rfuel app] in H.
  unfold reader_dt in Hl. destruct (drain (drain_fuel segs) sc0 segs fin dt None []) as [o r]. cbn [fst] in *.
  specialize (H Hl). unfold rstate0. destruct (consume fin dt rds _ []) as [a st]. exact H.
Qed.

(* every producer segmentation and every consumer: strip of the whole input *)
Lemma reader_rd_strip segs dt rds :
  runs_ok segs -> lenN (concat segs) < tok_limit ->
  let '(o, r) := strip (concat segs) in
  let '(d, st) := reader_rd segs 0 dt rds in
  match st with
  | None => exists rest, d ++ rest = o
  | Some r' => d = o /\ r' = r
  end.
Proof.
  intros Hr Hl. pose proof (reader_rd_reader segs 0 dt rds) as H.
  rewrite (reader_dt_strip segs dt Hr Hl) in H. exact H.
Qed.

Example ex_consumer_sizes :
  reader_rd [[123; 34; 97]; [98; 34; 125; 47; 47; 120]] 0 false [0; 1; 1; 0; 2; 1; 5; 5] = ([123; 34; 97; 98; 34; 125], Some (Ok tt))
  /\ reader_rd [[123; 34; 97]; [98; 34; 125; 47; 47; 120]] 0 false [0; 1; 1; 0; 2] = ([123; 34; 97; 98], None).
Proof. vm_compute. auto. Qed.

(* ---- the generic machinery instantiated with the JSON+ tables is the proven one ---- *)
Lemma split_t_json d e : split_t json_tables d e = split d e.
Proof. reflexivity. Qed.

Lemma scan_tok_g_ext f g : (forall d e, f d e = g d e) -> forall fin dt fuel st segs serr,
  scan_tok_g f fuel st segs fin dt serr = scan_tok_g g fuel st segs fin dt serr.
Proof.
  intros H fin dt. induction fuel as [|n IH]; intros st segs serr; [reflexivity|].
  cbn [scan_tok_g]. rewrite H.
  match goal with |- context [if ?c then g ?a ?b else Ok More] => destruct (if c then g a b else Ok More) as [[|adv tok]|e|s] end.
  - destruct serr as [e|]; [reflexivity|].
    match goal with |- context [if ?c then (SEnd (Err E_TOOLONG), n) else _] => destruct c end; [reflexivity|].
    match goal with |- context [read_more ?a ?b ?c ?d ?e] => destruct (read_more a b c d e) as [[got sg] se] end.
    apply IH.
  - match goal with |- context [if ?c then (SEnd (Err (set_err serr E_ADVANCE)), n) else _] => destruct c end; [reflexivity|].
    destruct (adv =? 0)%Z; [reflexivity|]. destruct tok; [apply IH|reflexivity].
  - reflexivity.
  - reflexivity.
Qed.

Lemma scan_tok_g_split fin dt : forall fuel st segs serr,
  scan_tok_g split fuel st segs fin dt serr = scan_tok fuel st segs fin dt serr.
Proof.
  induction fuel as [|n IH]; intros st segs serr; [reflexivity|].
  cbn [scan_tok_g scan_tok].
  match goal with |- context [if ?c then split ?a ?b else Ok More] => destruct (if c then split a b else Ok More) as [[|adv tok]|e|s] end.
  - destruct serr as [e|]; [reflexivity|].
    match goal with |- context [if ?c then (SEnd (Err E_TOOLONG), n) else _] => destruct c end; [reflexivity|].
    match goal with |- context [read_more ?a ?b ?c ?d ?e] => destruct (read_more a b c d e) as [[got sg] se] end.
    apply IH.
  - match goal with |- context [if ?c then (SEnd (Err (set_err serr E_ADVANCE)), n) else _] => destruct c end; [reflexivity|].
    destruct (adv =? 0)%Z; [reflexivity|]. destruct tok; [apply IH|reflexivity].
  - reflexivity.
  - reflexivity.
Qed.

Lemma consume_g_split fin dt : forall rds s acc, consume_g split fin dt rds s acc = consume fin dt rds s acc.
Proof.
  induction rds as [|n t IH]; intros s acc; [reflexivity|].
  cbn [consume_g consume]. unfold read_p_g, read_p. rewrite scan_tok_g_split.
  destruct (rb s).
  - destruct (scan_tok (rfuel s) (rst s) (rsegs s) fin dt (rserr s)) as [[tok st' sg se|r] f'].
    + destruct (match se with Some e => negb (e =? 0) | None => false end); [reflexivity|].
      destruct (deliver n tok). apply IH.
    + reflexivity.
  - destruct (deliver n (n0 :: b)). apply IH.
Qed.

Lemma generic_is_json segs fin dt rds : reader_rd_t json_tables segs fin dt rds = reader_rd segs fin dt rds.
Proof.
  unfold reader_rd_t, reader_rd.
  assert (E : forall rds s acc, consume_g (split_t json_tables) fin dt rds s acc = consume_g split fin dt rds s acc).
  { induction rds0 as [|n t IH]; intros s acc; [reflexivity|]. cbn [consume_g]. unfold read_p_g.
    rewrite (scan_tok_g_ext (split_t json_tables) split split_t_json).
    destruct (rb s).
    - destruct (scan_tok_g split (rfuel s) (rst s) (rsegs s) fin dt (rserr s)) as [[tok st' sg se|r] f'].
      + destruct (match se with Some e => negb (e =? 0) | None => false end); [reflexivity|].
        destruct (deliver n tok). apply IH.
      + reflexivity.
    - destruct (deliver n (n0 :: b)). apply IH. }
  now rewrite E, consume_g_split.
Qed.
