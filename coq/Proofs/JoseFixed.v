(* Proofs about Model/Jose.v: fixed-width big-endian integers (ECDSA r||s, EC coordinates),
   thumbprint templates, totality of the parsers. *)
From Verif Require Import Lib.Base Lib.Sx Model.Jose Proofs.Jose Proofs.JoseCompact Proofs.JoseCipher.
Open Scope N_scope.

(* ------------------------------------------------------------------ be_val / be_bytes *)
Lemma be_val_acc_app a : forall acc b, be_val_acc acc (a ++ b) = be_val_acc (be_val_acc acc a) b.
Proof. induction a as [|x a IH]; intros acc b; cbn [app be_val_acc]; auto. Qed.

Lemma be_val_acc_zeros k : forall acc, acc = 0 -> be_val_acc acc (repeatN_nat 0 k) = 0.
Proof. induction k as [|k IH]; intros acc ->; cbn [repeatN_nat be_val_acc]; auto. Qed.

Lemma be_val_zeros_app k b : be_val (repeatN 0 k ++ b) = be_val b.
Proof. unfold be_val, repeatN. rewrite be_val_acc_app, be_val_acc_zeros by reflexivity. reflexivity. Qed.

(* value of acc-continued digits: be_val_acc acc b = acc * 256^|b| + be_val b *)
Lemma be_val_acc_shift b : forall acc, be_val_acc acc b = acc * 256 ^ N.of_nat (length b) + be_val_acc 0 b.
Proof.
  induction b as [|x b IH]; intro acc; cbn [be_val_acc length].
  - cbn. lia.
  - rewrite IH, (IH (0 * 256 + x)). rewrite Nat2N.inj_succ, N.pow_succ_r by lia. lia.
Qed.

(* be_bytes_acc invariant: value preserved *)
Lemma be_bytes_acc_val fuel : forall n acc,
  n < 2 ^ N.of_nat fuel ->
  be_val_acc 0 (be_bytes_acc fuel n acc) = n * 256 ^ N.of_nat (length acc) + be_val_acc 0 acc.
Proof.
  induction fuel as [|f IH]; intros n acc Hn.
  - cbn in Hn. assert (n = 0) by lia. subst. cbn [be_bytes_acc]. lia.
  - cbn [be_bytes_acc]. destruct (N.eqb_spec n 0) as [->|NE]; [lia|].
    rewrite IH.
    + cbn [length be_val_acc]. rewrite (be_val_acc_shift acc (0 * 256 + n mod 256)).
      rewrite Nat2N.inj_succ, N.pow_succ_r by lia.
      set (P := 256 ^ N.of_nat (length acc)). set (B := be_val_acc 0 acc).
      pose proof (N.div_mod n 256 ltac:(lia)) as Hd.
      set (q := n / 256) in *. set (r := n mod 256) in *.
      replace (n * P) with ((256 * q + r) * P) by (rewrite <- Hd; reflexivity). ring.
    + rewrite Nat2N.inj_succ, N.pow_succ_r in Hn by lia.
      apply N.div_lt_upper_bound; [lia|]. set (P := 2 ^ N.of_nat f) in *. lia.
Qed.

Lemma pos_size_bound p : N.pos p < 2 ^ N.of_nat (Pos.size_nat p).
Proof.
  induction p as [p IH|p IH|]; cbn [Pos.size_nat].
  - rewrite Nat2N.inj_succ, N.pow_succ_r by lia. set (P := 2 ^ N.of_nat (Pos.size_nat p)) in *. lia.
  - rewrite Nat2N.inj_succ, N.pow_succ_r by lia. set (P := 2 ^ N.of_nat (Pos.size_nat p)) in *. lia.
  - cbn. lia.
Qed.
Lemma size_nat_bound n : n < 2 ^ N.of_nat (N.size_nat n).
Proof. destruct n as [|p]; [cbn; lia|]. apply pos_size_bound. Qed.

Lemma be_val_be_bytes n : be_val (be_bytes n) = n.
Proof.
  unfold be_val, be_bytes. rewrite be_bytes_acc_val by apply size_nat_bound. cbn. lia.
Qed.

Lemma be_bytes_acc_wf fuel : forall n acc, wf_bytes acc -> wf_bytes (be_bytes_acc fuel n acc).
Proof.
  induction fuel as [|f IH]; intros n acc W; cbn [be_bytes_acc]; [exact W|].
  destruct (n =? 0); [exact W|]. apply IH. constructor; [unfold wf_byte; lia|exact W].
Qed.
Lemma be_bytes_wf n : wf_bytes (be_bytes n).
Proof. apply be_bytes_acc_wf. constructor. Qed.

(* ------------------------------------------------------------------ fixed_size *)
Lemma fixed_size_ok data len :
  lenN data <= len ->
  exists out, fixed_size data len = Ok out /\ lenN out = len /\ be_val out = be_val data /\
              out = repeatN 0 (len - lenN data) ++ data.
Proof.
  intro L. unfold fixed_size. cbn zeta. destruct (N.ltb_spec len (lenN data)); [lia|].
  eexists. split; [reflexivity|]. split; [rewrite lenN_app, lenN_repeatN; lia|].
  split; [apply be_val_zeros_app|reflexivity].
Qed.

(* the number of significant bytes of n is at most k when n < 256^k *)
Lemma be_bytes_acc_len fuel : forall n acc k,
  n < 256 ^ k -> lenN (be_bytes_acc fuel n acc) <= k + lenN acc.
Proof.
  induction fuel as [|f IH]; intros n acc k Hn; cbn [be_bytes_acc]; [lia|].
  destruct (N.eqb_spec n 0) as [->|NE]; [lia|].
  destruct (N.eq_dec k 0) as [->|Hk]; [cbn in Hn; lia|].
  specialize (IH (n / 256) (n mod 256 :: acc) (k - 1)).
  rewrite lenN_cons in IH. 
  assert (n / 256 < 256 ^ (k - 1)).
  { apply N.div_lt_upper_bound; [lia|]. rewrite <- N.pow_succ_r by lia. replace (N.succ (k - 1)) with k by lia. exact Hn. }
  specialize (IH H). lia.
Qed.
Lemma be_bytes_len n k : n < 256 ^ k -> lenN (be_bytes n) <= k.
Proof. intro H. pose proof (be_bytes_acc_len (N.size_nat n) n [] k H) as P. cbn in P. unfold be_bytes. lia. Qed.

(* c16_fixed_width: r || s of exactly 2*keybytes bytes, and the split recovers r and s, for all
   values below 256^keybytes (leading zero bytes included) *)
Lemma ecdsa_sig_split r s kb :
  r < 256 ^ kb -> s < 256 ^ kb ->
  exists sig, ecdsa_sig r s kb = Ok sig /\ lenN sig = 2 * kb /\ ecdsa_split sig kb = Ok (r, s).
Proof.
  intros Hr Hs. unfold ecdsa_sig.
  destruct (fixed_size_ok (be_bytes r) kb (be_bytes_len r kb Hr)) as (rb & -> & Lr & Vr & _).
  destruct (fixed_size_ok (be_bytes s) kb (be_bytes_len s kb Hs)) as (sb & -> & Ls & Vs & _).
  cbn [bind]. eexists. split; [reflexivity|]. split; [rewrite lenN_app; lia|].
  unfold ecdsa_split. rewrite lenN_app, Lr, Ls.
  destruct (N.eqb_spec (kb + kb) (2 * kb)); [|lia]. cbn [negb].
  rewrite split_at_app by lia. rewrite Vr, Vs, !be_val_be_bytes. reflexivity.
Qed.

(* an EC coordinate: fixed_size (be_bytes x) size has exactly size bytes and value x *)
Lemma coordinate_fixed x size :
  x < 256 ^ size ->
  exists out, fixed_size (be_bytes x) size = Ok out /\ lenN out = size /\ be_val out = x.
Proof.
  intro H. destruct (fixed_size_ok (be_bytes x) size (be_bytes_len x size H)) as (o & E & L & V & _).
  exists o. rewrite V, be_val_be_bytes in *. auto.
Qed.

(* the length check of the verifier: anything but 2*keysize bytes is an error, never a panic *)
Lemma ecdsa_split_total sig ks : forall s, ecdsa_split sig ks <> Panic s.
Proof.
  intro s. unfold ecdsa_split. destruct (N.eqb_spec (lenN sig) (2 * ks)) as [E|NE]; cbn [negb]; [|discriminate].
  destruct (split_at_some ks sig) as (x & y & -> & _ & _); [lia|]. discriminate.
Qed.

(* ------------------------------------------------------------------ thumbprint templates *)
(* member order and punctuation of RFC 7638: e, kty, n  and  crv, kty, x, y *)
Lemma rsa_thumb_template e n :
  rsa_thumb_input e n =
  t_rsa_1 ++ b64url_encode (buffer_from_int e) ++ t_rsa_2 ++ b64url_encode (be_bytes n) ++ t_end.
Proof. reflexivity. Qed.

Lemma ec_thumb_template crv x y size :
  x < 256 ^ size -> y < 256 ^ size ->
  exists xb yb, ec_thumb_input crv x y size =
    Ok (t_ec_1 ++ crv ++ t_ec_2 ++ b64url_encode xb ++ t_ec_3 ++ b64url_encode yb ++ t_end) /\
    lenN xb = size /\ lenN yb = size /\ be_val xb = x /\ be_val yb = y.
Proof.
  intros Hx Hy. unfold ec_thumb_input.
  destruct (coordinate_fixed x size Hx) as (xb & -> & Lx & Vx).
  destruct (coordinate_fixed y size Hy) as (yb & -> & Ly & Vy).
  cbn [bind]. exists xb, yb. auto.
Qed.

(* ------------------------------------------------------------------ totality of the parsers *)
Lemma b64url_decode_r_total s : forall p, b64url_decode_r s <> Panic p.
Proof. intro p. unfold b64url_decode_r. destruct (b64url_decode s); discriminate. Qed.

Lemma parse_jws_compact_total s j : forall p, parse_jws_compact s j <> Panic p.
Proof.
  intro p. unfold parse_jws_compact. cbn zeta.
  destruct (starts_with_brace (strip_ws s)); [discriminate|].
  destruct (split_dot (strip_ws s)) as [|p0 [|p1 [|p2 [|p3 r]]]]; try discriminate.
  unfold b64url_decode_r.
  destruct (b64url_decode p0); [|discriminate]. destruct (b64url_decode p1); [|discriminate].
  destruct (b64url_decode p2); [|discriminate]. cbn [bind].
  destruct (negb (is_nil b) && negb j); discriminate.
Qed.

Lemma parse_jwe_compact_total s h : forall p, parse_jwe_compact s h <> Panic p.
Proof.
  intro p. unfold parse_jwe_compact. cbn zeta.
  destruct (starts_with_brace (strip_ws s)); [discriminate|].
  destruct (split_dot (strip_ws s)) as [|p0 [|p1 [|p2 [|p3 [|p4 [|p5 r]]]]]]; try discriminate.
  unfold b64url_decode_r.
  destruct (b64url_decode p0); [|discriminate]. destruct (b64url_decode p1); [|discriminate].
  destruct (b64url_decode p2); [|discriminate]. destruct (b64url_decode p3); [|discriminate].
  destruct (b64url_decode p4); [|discriminate]. cbn [bind].
  destruct (is_nil b); [discriminate|]. destruct (h =? 0); [discriminate|]. destruct (h =? 1); discriminate.
Qed.

(* wrong part counts are rejected *)
Lemma parse_jws_compact_parts s j o :
  parse_jws_compact s j = Ok o -> length (split_dot (strip_ws s)) = 3%nat.
Proof.
  unfold parse_jws_compact. cbn zeta. destruct (starts_with_brace (strip_ws s)); [discriminate|].
  destruct (split_dot (strip_ws s)) as [|p0 [|p1 [|p2 [|p3 r]]]]; try discriminate. reflexivity.
Qed.
Lemma parse_jwe_compact_parts s h o :
  parse_jwe_compact s h = Ok o -> length (split_dot (strip_ws s)) = 5%nat.
Proof.
  unfold parse_jwe_compact. cbn zeta. destruct (starts_with_brace (strip_ws s)); [discriminate|].
  destruct (split_dot (strip_ws s)) as [|p0 [|p1 [|p2 [|p3 [|p4 [|p5 r]]]]]]; try discriminate. reflexivity.
Qed.

(* ------------------------------------------------------------------ Concat KDF input layout *)
Lemma be4_length n : length (be4 n) = 4%nat.
Proof. reflexivity. Qed.

Lemma len_prefixed_app_inj d d' r r' :
  lenN d < 4294967296 -> lenN d' < 4294967296 ->
  len_prefixed d ++ r = len_prefixed d' ++ r' -> d = d' /\ r = r'.
Proof.
  intros L L' E. unfold len_prefixed, u32 in E. rewrite !N.mod_small in E by lia.
  rewrite <- !app_assoc in E. apply app_inv_len_head in E; [|reflexivity]. destruct E as [E4 E].
  apply be4_inj in E4; [|lia|lia].
  apply app_inv_len_head in E; [exact E|]. rewrite !lenN_length in E4. lia.
Qed.

(* AlgorithmID, PartyUInfo, PartyVInfo are length-prefixed and the output length is a fixed
   4-byte field: the KDF's OtherInfo determines all four (fields below 2^32 bytes, sizes below 2^29) *)
Lemma kdf_info_injective alg apu apv size alg' apu' apv' size' :
  lenN alg < 4294967296 -> lenN apu < 4294967296 -> lenN apv < 4294967296 ->
  lenN alg' < 4294967296 -> lenN apu' < 4294967296 -> lenN apv' < 4294967296 ->
  size < 536870912 -> size' < 536870912 ->
  kdf_info alg apu apv size = kdf_info alg' apu' apv' size' ->
  alg = alg' /\ apu = apu' /\ apv = apv' /\ size = size'.
Proof.
  intros La Lu Lv La' Lu' Lv' Ls Ls' E. unfold kdf_info in E.
  apply len_prefixed_app_inj in E; try assumption. destruct E as [-> E].
  apply len_prefixed_app_inj in E; try assumption. destruct E as [-> E].
  apply len_prefixed_app_inj in E; try assumption. destruct E as [-> E].
  rewrite !app_nil_r in E. unfold u32 in E. rewrite !(N.mod_small size), !(N.mod_small size') in E by lia.
  rewrite !N.mod_small in E by lia. apply be4_inj in E; [|lia|lia].
  repeat split; try reflexivity. lia.
Qed.

(* successive rounds hash different inputs: the 32-bit big-endian counter comes first *)
Lemma kdf_round_input_injective i j z info :
  i < 4294967296 -> j < 4294967296 -> kdf_round_input i z info = kdf_round_input j z info -> i = j.
Proof.
  intros Hi Hj E. unfold kdf_round_input, u32 in E. rewrite !N.mod_small in E by lia.
  apply app_inv_len_head in E; [|reflexivity]. destruct E as [E _]. apply be4_inj in E; lia.
Qed.

(* one hash block suffices when the key is not longer than the hash: the key is the first
   [size] bytes of H(00000001 || Z || OtherInfo) *)
Lemma kdf_read_one_round H z info size fuel :
  0 < size -> size <= lenN (H (kdf_round_input 1 z info)) ->
  kdf_read H (S fuel) 1 z info size = firstn (N.to_nat size) (H (kdf_round_input 1 z info)).
Proof.
  intros H0 H1. cbn [kdf_read]. destruct (N.eqb_spec size 0); [lia|].
  destruct (N.leb_spec size (lenN (H (kdf_round_input 1 z info)))); [reflexivity|lia].
Qed.
