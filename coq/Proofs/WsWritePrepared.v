(* C13 proofs (part 5): prepared messages on connections without compression. *)
From Verif Require Import Lib.Base Lib.Sx Model.WsWrite Proofs.WsWrite Proofs.WsWriteFrame Proofs.WsWriteSession.
Open Scope N_scope.
Ltac Zify.zify_post_hook ::= Z.div_mod_to_equations.

Lemma tail_ok_app fs1 fs2 dn1 dn2 :
  tail_ok fs1 false None dn1 -> tail_ok fs2 false None dn2 -> tail_ok (fs1 ++ fs2) false None (dn1 ++ dn2).
Proof.
  intros H1 H2 rest. rewrite <- app_assoc.
  destruct (H1 (fs2 ++ rest)) as [A1 B1]. destruct (H2 rest) as [A2 B2].
  split; [rewrite A1; exact A2|]. rewrite B1, B2.
  destruct (reassemble None rest); cbn; [rewrite app_assoc; reflexivity|reflexivity].
Qed.

(* a byte string that is a closed run of frames carrying exactly the messages [dn] *)
Definition seg_ok (is_srv : bool) (v : bytes) (dn : list (N * bool * bytes)) : Prop :=
  exists ds, v = enc_all is_srv ds /\ ds <> [] /\ Forall fd_ok ds /\ Forall (fd_shape false) ds /\
             tail_ok (map (abs_fd is_srv) ds) false None dn.

Lemma enc_all_nonnil is_srv ds : ds <> [] -> is_nil (enc_all is_srv ds) = false.
Proof.
  destruct ds as [|d ds]; [congruence|]. intros _. unfold enc_all. cbn [map concat].
  unfold enc_fd, enc_frame. reflexivity.
Qed.

(* PreparedMessage.frame for a key without compression: WriteMessage on a fresh connection with
   the default buffer; the result is a closed segment carrying the message, whatever its size
   (the client variant is fragmented at 4096 bytes, the server variant is one frame) *)
Lemma prepared_frame_ok is_srv l t p ks :
  data_type t -> lenN p < big -> Forall (fun k : bytes => length k = 4%nat) ks ->
  exists v ks', prepared_frame is_srv false l t p ks [] [] = Ok (v, ks', eOK) /\
    seg_ok is_srv v [(t, false, p)] /\ Forall (fun k : bytes => length k = 4%nat) ks'.
Proof.
  intros Ht Hp Hk. unfold prepared_frame.
  set (c := mkC is_srv (defaultWBuf + maxHdr)).
  assert (Hb : 15 <= blen c < big) by (unfold c, big; cbn; lia).
  assert (HS : SInv c (cst0 (mws0 ks) false l) [] []).
  { apply SInv_fresh; try reflexivity. exact Hk. }
  destruct (run_item_ok c Hb _ [] [] (IWriteMessage t p) HS (conj Ht Hp)) as (s' & ds' & Hrun & HS').
  cbn [run_item] in Hrun. rewrite Hrun. cbn [bind].
  destruct HS' as ((Hh & He & Hk' & Hw & Hok & Hsh & Htl) & _).
  eexists _, _. split; [reflexivity|]. split; [|exact Hk'].
  exists ds'. cbn [app item_msgs] in Htl.
  split; [rewrite <- rev_alt; exact Hw|]. split; [|auto].
  intros ->. destruct (Htl []) as [_ B]. cbn in B. discriminate B.
Qed.

Section Prepared.
Variable c : cfg.

Lemma send_segment pmd w ds dn t v dn2 :
  CInv c pmd w ds false None dn -> data_type t ->
  (exists ds2, v = enc_all (srv c) ds2 /\ ds2 <> [] /\ Forall fd_ok ds2 /\ Forall (fd_shape pmd) ds2 /\
               tail_ok (map (abs_fd (srv c)) ds2) false None dn2) ->
  exists w' ds', conn_write w t [v] = (w', eOK) /\ CInv c pmd w' ds' false None (dn ++ dn2) /\
    keys w' = keys w /\ rbuf w' = rbuf w /\ pos w' = pos w.
Proof.
  intros (Hh & He & Hk & Hw & Hok & Hsh & Htl) Ht (ds2 & Hv & Hne & Hok2 & Hsh2 & Htl2).
  unfold conn_write. rewrite He. cbn [N.eqb negb fold_left].
  rewrite Hv, (enc_all_nonnil _ _ Hne).
  assert (Hncl : (t =? opClose) = false) by (destruct Ht as [-> | ->]; reflexivity).
  rewrite Hncl. eexists _, (ds ++ ds2). split; [reflexivity|]. split; [|cbn; auto].
  unfold CInv. cbn [hdr werrc keys set_out].
  split; [exact Hh|]. split; [exact He|]. split; [exact Hk|].
  split; [unfold wire in *; cbn [out set_out rev]; rewrite concat_app, Hw; cbn [concat];
          rewrite app_nil_r; unfold enc_all; rewrite map_app, concat_app; reflexivity|].
  split; [apply Forall_app; auto|]. split; [apply Forall_app; auto|].
  rewrite map_app. apply tail_ok_app; assumption.
Qed.

(* first WritePreparedMessage of a message under the connection's key: the frame is computed,
   cached and sent *)
Lemma do_prepared_miss s ds dn idx t p :
  SInv c s ds dn -> data_type t -> lenN p < big ->
  pfind (idx, srv c, false, lvl s) (pcache s) = None ->
  exists s' ds' v, do_prepared c s idx t p [] [] = Ok (s', eOK) /\ SInv c s' ds' (dn ++ [(t, false, p)]) /\
    seg_ok (srv c) v [(t, false, p)] /\ pcache s' = ((idx, srv c, false, lvl s), v) :: pcache s /\ lvl s' = lvl s.
Proof.
  intros (HC & Ho & Hcp) Ht Hp Hmiss.
  unfold do_prepared. rewrite Hcp. cbn [andb]. rewrite Hmiss.
  pose proof HC as (Hh & He & Hk & Hrest).
  destruct (prepared_frame_ok (srv c) (lvl s) t p (keys (mw s)) Ht Hp Hk) as (v & ks' & Hrun & Hseg & Hk').
  rewrite Hrun. cbn [bind]. cbn [N.eqb negb].
  assert (HC1 : CInv c false (set_keys (mw s) ks') ds false None dn).
  { destruct Hrest as (Hw & Hrest). unfold CInv. cbn [hdr werrc keys set_keys].
    split; [exact Hh|]. split; [exact He|]. split; [exact Hk'|]. split; [exact Hw|exact Hrest]. }
  destruct (send_segment false _ ds dn t v _ HC1 Ht Hseg) as (w' & ds' & Hcw & HC' & _).
  cbn [mw st_mw]. rewrite Hcw.
  eexists _, ds', v. split; [reflexivity|]. unfold SInv. cbn [mw st_mw wopen comp pcache lvl].
  split; [split; [exact HC'|auto]|]. split; [exact Hseg|]. split; reflexivity.
Qed.

(* any later send with the same key: the cached bytes go out again, no key is drawn *)
Lemma do_prepared_hit s ds dn idx t p v :
  SInv c s ds dn -> data_type t ->
  pfind (idx, srv c, false, lvl s) (pcache s) = Some v -> seg_ok (srv c) v [(t, false, p)] ->
  exists s' ds', do_prepared c s idx t p [] [] = Ok (s', eOK) /\ SInv c s' ds' (dn ++ [(t, false, p)]) /\
    pcache s' = pcache s /\ keys (mw s') = keys (mw s) /\ lvl s' = lvl s.
Proof.
  intros (HC & Ho & Hcp) Ht Hhit Hseg.
  unfold do_prepared. rewrite Hcp. cbn [andb]. rewrite Hhit. cbn [bind]. cbn [N.eqb negb].
  destruct (send_segment false _ ds dn t v _ HC Ht Hseg) as (w' & ds' & Hcw & HC' & Hkk & _).
  rewrite Hcw. eexists _, ds'. split; [reflexivity|]. unfold SInv. cbn [mw st_mw wopen comp pcache lvl].
  split; [split; [exact HC'|auto]|]. split; [reflexivity|]. split; [exact Hkk|reflexivity].
Qed.
End Prepared.
