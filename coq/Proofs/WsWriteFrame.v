(* C13 proofs (part 2): one flushFrame call puts exactly one RFC 6455 frame on the wire, and the
   independent parser reads it back. *)
From Verif Require Import Lib.Base Lib.Sx Model.WsWrite Proofs.WsWrite.
Open Scope N_scope.
Ltac Zify.zify_post_hook ::= Z.div_mod_to_equations.

(* ---------- the frame encoding as RFC 6455 section 5.2 states it ---------- *)
Definition b0_of (fin z : bool) (op : N) : N := (if fin then 128 else 0) + (if z then 64 else 0) + op.
Definition len_hdr (mb n : N) : bytes :=
  if n <=? 125 then [mb + n] else if n <=? 65535 then (mb + 126) :: be2 n else (mb + 127) :: be8 n.
Definition enc_frame (is_srv fin z : bool) (op : N) (key pl : bytes) : bytes :=
  b0_of fin z op :: len_hdr (if is_srv then 0 else 128) (lenN pl)
    ++ (if is_srv then pl else key ++ mask_from key 0 pl).
Definition form_of (n : N) : N := if n <=? 125 then 0 else if n <=? 65535 then 1 else 2.
Definition abs_frame (is_srv fin z : bool) (op : N) (key pl : bytes) : pframe :=
  mkF fin (if z then 4 else 0) op (negb is_srv) (if is_srv then [] else key) (form_of (lenN pl)) (lenN pl) pl.

Definition op_ok (t : N) : Prop := t = 0 \/ t = 1 \/ t = 2 \/ t = 8 \/ t = 9 \/ t = 10.

Lemma b0_lor t (fin z : bool) : op_ok t ->
  N.lor (N.lor (u8 t) (if fin then finalBit else 0)) (if z then rsv1Bit else 0) = b0_of fin z t.
Proof.
  intros [H|[H|[H|[H|[H|H]]]]]; subst t; destruct fin, z; vm_compute; reflexivity.
Qed.

Lemma lor128 x : x < 128 -> N.lor 128 x = 128 + x.
Proof.
  intros H.
  assert (A : forallb (fun n => N.lor 128 (N.of_nat n) =? 128 + N.of_nat n) (seq 0 128) = true) by (vm_compute; reflexivity).
  rewrite forallb_forall in A. specialize (A (N.to_nat x)).
  rewrite N2Nat.id in A. apply N.eqb_eq, A. apply in_seq. lia.
Qed.

Lemma lor_mb (is_srv : bool) x : x < 128 ->
  N.lor (if is_srv then 0 else maskBit) x = (if is_srv then 0 else 128) + x.
Proof. intros H. destruct is_srv; [apply N.lor_0_l | apply lor128; exact H]. Qed.

(* ---------- stores into the 14-byte header area ---------- *)
Lemma put_list_cons : forall vs i x t,
  put_list (S i) vs (x :: t) = option_map (cons x) (put_list i vs t).
Proof.
  induction vs as [|v vs IH]; intros i x t; cbn [put_list put option_map]; [reflexivity|].
  destruct (put i v t) as [t'|]; [|reflexivity]. apply IH.
Qed.

Lemma put_list_0 : forall vs h, (length vs <= length h)%nat ->
  put_list 0 vs h = Some (vs ++ skipn (length vs) h).
Proof.
  induction vs as [|v vs IH]; intros h H; cbn [put_list length app skipn]; [reflexivity|].
  destruct h as [|x t]; cbn [length] in H; [lia|]. cbn [put].
  rewrite put_list_cons, IH by lia. reflexivity.
Qed.

Lemma put_list_spec : forall i vs h, (i + length vs <= length h)%nat ->
  put_list i vs h = Some (firstn i h ++ vs ++ skipn (i + length vs) h).
Proof.
  induction i as [|i IH]; intros vs h H.
  - cbn [firstn app Nat.add]. apply put_list_0. exact H.
  - destruct h as [|x t]; cbn [length] in H; [lia|].
    rewrite put_list_cons, IH by lia. reflexivity.
Qed.

Lemma hdr_put h (i : N) vs : length h = 14%nat -> (N.to_nat i + length vs <= 14)%nat ->
  forall site, put_at site i vs h
    = Ok (firstn (N.to_nat i) h ++ vs ++ skipn (N.to_nat i + length vs) h).
Proof. intros Hh Hi site. unfold put_at. rewrite put_list_spec by lia. reflexivity. Qed.

(* ---------- flushFrame ---------- *)
Definition wire (w : mws) : bytes := concat (rev (out w)).
Definition next_key (w : mws) : bytes := fst (pop_key (keys w)).

Record good (w : mws) : Prop := {
  g_hdr : length (hdr w) = 14%nat;
  g_pos : pos w = maxHdr + lenN (buffered w);
  g_err : werrc w = 0;
  g_bud : wbudget w = None;
  g_keys : Forall (fun k => length k = 4%nat) (keys w) }.

Lemma next_key_len w : Forall (fun k => length k = 4%nat) (keys w) -> length (next_key w) = 4%nat.
Proof. unfold next_key, pop_key. destruct (keys w); intros H; [reflexivity|]. inversion H; assumption. Qed.

Lemma lenN_app a b : lenN (a ++ b) = lenN a + lenN b.
Proof. rewrite !lenN_spec, app_length. lia. Qed.

Lemma conn_write_ok w t A extra : werrc w = 0 -> wbudget w = None -> is_nil A = false ->
  conn_write w t [A; extra] =
  (let w1 := set_out w (if is_nil extra then A :: out w else extra :: A :: out w) in
   (if t =? opClose then set_werrc w1 eCloseSent else w1), eOK).
Proof.
  intros He Hb HA. unfold conn_write. rewrite He. cbn [N.eqb negb]. rewrite Hb. cbn [fold_left]. rewrite HA.
  destruct (is_nil extra); reflexivity.
Qed.

Lemma wire_push (o : list bytes) A extra :
  concat (rev (if is_nil extra then A :: o else extra :: A :: o)) = concat (rev o) ++ A ++ extra.
Proof.
  destruct extra as [|x e]; cbn [is_nil rev].
  - rewrite concat_app. cbn. rewrite !app_nil_r. reflexivity.
  - rewrite !concat_app. cbn. rewrite !app_nil_r, <- app_assoc. reflexivity.
Qed.

Lemma ctl_check_false t (final : bool) n :
  (is_control t = true -> final = true /\ n <= 125) ->
  is_control t && (negb final || (maxCtl <? n)) = false.
Proof.
  intros H. destruct (is_control t); [|reflexivity].
  destruct (H eq_refl) as [-> Hn]. cbn. change maxCtl with 125. apply N.ltb_ge. exact Hn.
Qed.

Lemma flush_ok c w (final : bool) extra :
  good w -> op_ok (ftype w) ->
  (is_control (ftype w) = true -> final = true /\ lenN (buffered w ++ extra) <= 125) ->
  (srv c = false -> extra = []) ->
  lenN (buffered w ++ extra) < 9223372036854775808 ->
  exists w', flush_frame c w final extra = Ok (w', eOK) /\
    wire w' = wire w ++ enc_frame (srv c) final (cflag w) (ftype w) (next_key w) (buffered w ++ extra) /\
    keys w' = (if srv c then keys w else snd (pop_key (keys w))) /\
    length (hdr w') = 14%nat /\
    werrc w' = (if ftype w =? opClose then eCloseSent else 0) /\ wbudget w' = None /\
    (final = false -> rbuf w' = [] /\ pos w' = maxHdr /\ ftype w' = opCont /\ cflag w' = false).
Proof.
  intros [Hh Hp He Hbud Hk] Hop Hctl Hex Hlen.
  unfold flush_frame.
  set (len := pos w - maxHdr + lenN extra).
  assert (Hl : len = lenN (buffered w ++ extra)) by (unfold len; rewrite Hp, lenN_app; lia).
  rewrite (ctl_check_false (ftype w) final len) by (rewrite Hl; exact Hctl).
  rewrite (b0_lor _ final (cflag w) Hop).
  set (b0 := b0_of final (cflag w) (ftype w)).
  set (data := buffered w) in *.
  assert (Hkl : length (next_key w) = 4%nat) by (apply next_key_len; exact Hk).
  unfold enc_frame. rewrite <- Hl. fold b0.
  assert (Hclose : ftype (set_cflag w false) = ftype w) by reflexivity.
  destruct (srv c) eqn:Es.
  - (* server: no mask *)
    cbn [bind].
    assert (Hsrv : forall fp vs, (N.to_nat fp + length vs = 14)%nat -> is_nil vs = false ->
      exists h1, (forall site, put_at site fp vs (hdr (set_cflag w false)) = Ok h1) /\
      exists w', (let '(w2, e) := conn_write (set_hdr (set_cflag w false) h1) (ftype (set_hdr (set_cflag w false) h1))
                       [skipn (N.to_nat fp) h1 ++ buffered (set_cflag w false); extra] in
                  if negb (e =? 0) then Ok (w2, e) else if final then Ok (w2, eOK)
                  else Ok (set_ftype (set_buf w2 [] maxHdr) opCont, eOK)) = Ok (w', eOK) /\
        wire w' = wire w ++ vs ++ data ++ extra /\ keys w' = keys w /\ length (hdr w') = 14%nat /\
        werrc w' = (if ftype w =? opClose then eCloseSent else 0) /\ wbudget w' = None /\
        (final = false -> rbuf w' = [] /\ pos w' = maxHdr /\ ftype w' = opCont /\ cflag w' = false)).
    { intros fp vs Hfp Hnil.
      pose proof (hdr_put (hdr w) fp vs Hh (Nat.eq_le_incl _ _ Hfp)) as Hput.
      set (h1 := firstn (N.to_nat fp) (hdr w) ++ vs ++ skipn (N.to_nat fp + length vs) (hdr w)) in *.
      assert (Hsk14 : skipn (N.to_nat fp + length vs) (hdr w) = []) by (apply skipn_all2; lia).
      assert (Hskip : skipn (N.to_nat fp) h1 = vs).
      { unfold h1. rewrite Hsk14, app_nil_r, skipn_app, firstn_length.
        rewrite skipn_all2 by (rewrite firstn_length; lia).
        replace (N.to_nat fp - Nat.min (N.to_nat fp) (length (hdr w)))%nat with 0%nat by lia. reflexivity. }
      assert (Hl1 : length h1 = 14%nat).
      { unfold h1. rewrite !app_length, firstn_length, skipn_length. lia. }
      exists h1. split; [exact Hput|].
      rewrite Hskip. rewrite conn_write_ok; [|exact He|exact Hbud|destruct vs; [discriminate|reflexivity]].
      cbn zeta. cbn [ftype set_hdr set_cflag].
      destruct (ftype w =? opClose) eqn:Ecl.
      - assert (final = true) as ->.
        { apply N.eqb_eq in Ecl. apply Hctl. rewrite Ecl. reflexivity. }
        eexists. split; [reflexivity|]. unfold wire. cbn [out set_werrc set_out keys hdr werrc].
        rewrite wire_push, <- app_assoc. repeat split; try assumption; try reflexivity; try discriminate.
      - destruct final.
        + eexists. split; [reflexivity|]. unfold wire. cbn [out set_out keys hdr werrc set_hdr set_cflag].
          rewrite wire_push, <- app_assoc. repeat split; try assumption; try reflexivity; try discriminate.
        + eexists. split; [reflexivity|]. unfold wire. cbn [out set_out keys hdr werrc set_hdr set_cflag set_ftype set_buf rbuf pos ftype cflag].
          rewrite wire_push, <- app_assoc. repeat split; try assumption; reflexivity. }
    unfold len_hdr.
    destruct (65536 <=? len) eqn:E1.
    + apply N.leb_le in E1.
      destruct (Hsrv 4 ([b0; N.lor 0 127] ++ be8 (u64 len))) as (h1 & Hput & w' & Hrun & Hrest); [reflexivity|reflexivity|].
      rewrite Hput. cbn [bind]. exists w'. split; [exact Hrun|].
      replace (len <=? 125) with false by (symmetry; apply N.leb_gt; lia).
      replace (len <=? 65535) with false by (symmetry; apply N.leb_gt; lia).
      destruct Hrest as (Hw & Hr). split; [|exact Hr].
      rewrite Hw. unfold u64. rewrite N.mod_small by lia. reflexivity.
    + apply N.leb_gt in E1. destruct (125 <? len) eqn:E2.
      * apply N.ltb_lt in E2.
        destruct (Hsrv (4 + 6) ([b0; N.lor 0 126] ++ be2 (u16 len))) as (h1 & Hput & w' & Hrun & Hrest); [reflexivity|reflexivity|].
        rewrite Hput. cbn [bind]. exists w'. split; [exact Hrun|].
        replace (len <=? 125) with false by (symmetry; apply N.leb_gt; lia).
        replace (len <=? 65535) with true by (symmetry; apply N.leb_le; lia).
        destruct Hrest as (Hw & Hr). split; [|exact Hr].
        rewrite Hw. unfold u16. rewrite N.mod_small by lia. reflexivity.
      * apply N.ltb_ge in E2.
        destruct (Hsrv (4 + 8) [b0; N.lor 0 (u8 len)]) as (h1 & Hput & w' & Hrun & Hrest); [reflexivity|reflexivity|].
        rewrite Hput. cbn [bind]. exists w'. split; [exact Hrun|].
        replace (len <=? 125) with true by (symmetry; apply N.leb_le; lia).
        destruct Hrest as (Hw & Hr). split; [|exact Hr].
        rewrite Hw. unfold u8. rewrite N.mod_small by lia. reflexivity.
  - (* client: masked, no extra *)
    rewrite (Hex eq_refl) in *. rewrite app_nil_r in *. cbn [bind].
    unfold next_key in *. destruct (pop_key (keys w)) as [key ks] eqn:Ek. cbn [fst snd] in *.
    assert (Hcli : forall fp vs, (N.to_nat fp + length vs = 10)%nat -> is_nil vs = false ->
      exists h1, (forall site, put_at site fp vs (hdr (set_cflag w false)) = Ok h1) /\
      exists w', (let* h2 := put_at 4 (maxHdr - 4) key h1 in
                  let masked := mask_fast key 0 (buffered (set_cflag w false)) in
                  let w1 := set_keys (set_buf (set_hdr (set_cflag w false) h2) [masked] (pos (set_cflag w false))) ks in
                  if negb (is_nil (@nil N)) then Ok (set_werrc w1 (if werrc w1 =? 0 then eExtraClient else werrc w1), eExtraClient)
                  else
                  let '(w2, e) := conn_write w1 (ftype w1) [skipn (N.to_nat fp) h2 ++ masked; []] in
                  if negb (e =? 0) then Ok (w2, e) else if final then Ok (w2, eOK)
                  else Ok (set_ftype (set_buf w2 [] maxHdr) opCont, eOK)) = Ok (w', eOK) /\
        wire w' = wire w ++ vs ++ key ++ mask_from key 0 data /\ keys w' = ks /\ length (hdr w') = 14%nat /\
        werrc w' = (if ftype w =? opClose then eCloseSent else 0) /\ wbudget w' = None /\
        (final = false -> rbuf w' = [] /\ pos w' = maxHdr /\ ftype w' = opCont /\ cflag w' = false)).
    { intros fp vs Hfp Hnil.
      assert (Hfp' : (N.to_nat fp + length vs <= 14)%nat) by lia.
      pose proof (hdr_put (hdr w) fp vs Hh Hfp') as Hput'.
      set (h1 := firstn (N.to_nat fp) (hdr w) ++ vs ++ skipn (N.to_nat fp + length vs) (hdr w)) in *.
      assert (Hl1 : length h1 = 14%nat).
      { unfold h1. rewrite !app_length, firstn_length, skipn_length. lia. }
      exists h1. split; [exact Hput'|].
      assert (Hk10 : (N.to_nat (maxHdr - 4) + length key <= 14)%nat) by (rewrite Hkl; vm_compute; lia).
      rewrite (hdr_put h1 (maxHdr - 4) key Hl1 Hk10). cbn [bind is_nil negb]. cbn zeta.
      change (N.to_nat (maxHdr - 4)) with 10%nat.
      set (h2 := firstn 10 h1 ++ key ++ skipn (10 + length key) h1).
      assert (Hl2 : length h2 = 14%nat).
      { unfold h2. rewrite !app_length, firstn_length, skipn_length. lia. }
      assert (Hf10 : firstn 10 h1 = firstn (N.to_nat fp) (hdr w) ++ vs).
      { unfold h1. rewrite app_assoc.
        replace 10%nat with (length (firstn (N.to_nat fp) (hdr w) ++ vs)) at 1
          by (rewrite app_length, firstn_length; lia).
        rewrite firstn_app, Nat.sub_diag, firstn_all. cbn [firstn]. apply app_nil_r. }
      assert (Hsk : skipn (N.to_nat fp) h2 = vs ++ key).
      { unfold h2. rewrite Hf10. rewrite (skipn_all2 h1) by lia. rewrite app_nil_r, <- app_assoc.
        rewrite skipn_app, firstn_length. rewrite skipn_all2 by (rewrite firstn_length; lia).
        replace (N.to_nat fp - Nat.min (N.to_nat fp) (length (hdr w)))%nat with 0%nat by lia. reflexivity. }
      fold h2.
      rewrite Hsk. rewrite conn_write_ok; [| exact He | exact Hbud | destruct vs; [discriminate|reflexivity]].
      cbn zeta. cbn [ftype set_hdr set_cflag set_buf set_keys is_nil].
      change (buffered (set_cflag w false)) with data.
      rewrite (mask_fast_spec key 0 data Hkl).
      destruct (ftype w =? opClose) eqn:Ecl.
      - assert (final = true) as ->.
        { apply N.eqb_eq in Ecl. apply Hctl. rewrite Ecl. reflexivity. }
        eexists. split; [reflexivity|]. unfold wire. cbn [out set_werrc set_out keys hdr werrc set_keys set_buf set_hdr].
        cbn [rev set_cflag out]. rewrite concat_app. cbn [concat]. rewrite !app_nil_r, <- !app_assoc.
        repeat split; try assumption; try reflexivity; try discriminate.
      - destruct final.
        + eexists. split; [reflexivity|]. unfold wire. cbn [out set_werrc set_out keys hdr werrc set_keys set_buf set_hdr set_cflag].
          cbn [rev set_cflag out]. rewrite concat_app. cbn [concat]. rewrite !app_nil_r, <- !app_assoc.
          repeat split; try assumption; try reflexivity; try discriminate.
        + eexists. split; [reflexivity|]. unfold wire.
          cbn [out set_werrc set_out keys hdr werrc set_keys set_buf set_hdr set_cflag set_ftype rbuf pos ftype cflag].
          cbn [rev set_cflag out]. rewrite concat_app. cbn [concat]. rewrite !app_nil_r, <- !app_assoc.
          repeat split; try assumption; reflexivity. }
    unfold len_hdr. change (hdr (set_cflag w false)) with (hdr w) in Hcli.
    change (keys (set_cflag w false)) with (keys w). rewrite Ek.
    destruct (65536 <=? len) eqn:E1.
    + apply N.leb_le in E1.
      destruct (Hcli 0 ([b0; N.lor maskBit 127] ++ be8 (u64 len))) as (h1 & Hput & w' & Hrun & Hrest); [reflexivity|reflexivity|].
      change (hdr (set_cflag w false)) with (hdr w). rewrite Hput. cbn [bind]. exists w'. split; [exact Hrun|].
      replace (len <=? 125) with false by (symmetry; apply N.leb_gt; lia).
      replace (len <=? 65535) with false by (symmetry; apply N.leb_gt; lia).
      destruct Hrest as (Hw & Hr). split; [|exact Hr].
      rewrite Hw. unfold u64. rewrite N.mod_small by lia. reflexivity.
    + apply N.leb_gt in E1. destruct (125 <? len) eqn:E2.
      * apply N.ltb_lt in E2.
        destruct (Hcli (0 + 6) ([b0; N.lor maskBit 126] ++ be2 (u16 len))) as (h1 & Hput & w' & Hrun & Hrest); [reflexivity|reflexivity|].
        change (hdr (set_cflag w false)) with (hdr w). rewrite Hput. cbn [bind]. exists w'. split; [exact Hrun|].
        replace (len <=? 125) with false by (symmetry; apply N.leb_gt; lia).
        replace (len <=? 65535) with true by (symmetry; apply N.leb_le; lia).
        destruct Hrest as (Hw & Hr). split; [|exact Hr].
        rewrite Hw. unfold u16. rewrite N.mod_small by lia. reflexivity.
      * apply N.ltb_ge in E2.
        destruct (Hcli (0 + 8) [b0; N.lor maskBit (u8 len)]) as (h1 & Hput & w' & Hrun & Hrest); [reflexivity|reflexivity|].
        change (hdr (set_cflag w false)) with (hdr w). rewrite Hput. cbn [bind]. exists w'. split; [exact Hrun|].
        replace (len <=? 125) with true by (symmetry; apply N.leb_le; lia).
        destruct Hrest as (Hw & Hr). split; [|exact Hr].
        rewrite Hw. unfold u8. rewrite N.mod_small by lia.
        change maskBit with 128. rewrite lor128 by lia. reflexivity.
Qed.

(* ---------- the independent parser reads an encoded frame back ---------- *)
Lemma take_cnt_app : forall a r, take_cnt (lenN a) (a ++ r) = Some (a, r).
Proof.
  induction a as [|x a IH]; intros r.
  - destruct r; reflexivity.
  - cbn [app take_cnt]. rewrite lenN_spec. cbn [length].
    replace (N.of_nat (S (length a)) =? 0) with false by (symmetry; apply N.eqb_neq; lia).
    replace (N.pred (N.of_nat (S (length a)))) with (lenN a) by (rewrite lenN_spec; lia).
    rewrite IH. reflexivity.
Qed.

Lemma ube2_be2 n : n < 65536 -> exists a b, be2 n = [a; b] /\ ube2 a b = n.
Proof. intros H. eexists _, _. split; [reflexivity|]. unfold ube2. lia. Qed.

Lemma ube4_be4 n : n < 4294967296 -> exists a b c d, be4 n = [a; b; c; d] /\ ube4 a b c d = n.
Proof. intros H. eexists _, _, _, _. split; [reflexivity|]. unfold ube4. lia. Qed.

Lemma ube8_be8 n : n < 18446744073709551616 ->
  exists a b c d e f g h, be8 n = [a; b; c; d; e; f; g; h] /\ ube8 a b c d e f g h = n.
Proof.
  intros H. unfold be8.
  destruct (ube4_be4 (n / 4294967296)) as (a & b & c & d & E1 & V1); [lia|].
  destruct (ube4_be4 (n mod 4294967296)) as (e & f & g & h & E2 & V2); [lia|].
  exists a, b, c, d, e, f, g, h. rewrite E1, E2. split; [reflexivity|].
  unfold ube8. rewrite V1, V2. lia.
Qed.

Lemma b0_parse (fin z : bool) op : op_ok op ->
  (128 <=? b0_of fin z op) = fin /\ (b0_of fin z op / 16) mod 8 = (if z then 4 else 0)
  /\ b0_of fin z op mod 16 = op.
Proof. intros [H|[H|[H|[H|[H|H]]]]]; subst op; destruct fin, z; vm_compute; auto. Qed.

Lemma parse_enc is_srv (fin z : bool) op key pl rest :
  op_ok op -> length key = 4%nat -> lenN pl < 9223372036854775808 ->
  parse_one (enc_frame is_srv fin z op key pl ++ rest) = Some (abs_frame is_srv fin z op key pl, rest).
Proof.
  intros Hop Hk Hlen.
  destruct (b0_parse fin z op Hop) as (B1 & B2 & B3).
  unfold enc_frame, abs_frame, form_of, len_hdr.
  set (n := lenN pl) in *. set (mb := if is_srv then 0 else 128).
  assert (Hmb : forall x, x < 128 -> (128 <=? mb + x) = negb is_srv /\ (mb + x) mod 128 = x).
  { intros x Hx. unfold mb. destruct is_srv; cbn [negb]; (split; [|lia]).
    - apply N.leb_gt. lia.
    - apply N.leb_le. lia. }
  (* what follows the length: key and payload *)
  assert (Htail : forall r1, r1 = (if is_srv then pl else key ++ mask_from key 0 pl) ++ rest ->
    match (if negb is_srv then match r1 with a :: b :: c :: d :: r' => Some ([a;b;c;d], r') | _ => None end
           else Some ([], r1)) with
    | None => None
    | Some (key', r2) =>
        match take_cnt n r2 with
        | None => None
        | Some (pl', r3) => Some (mkF fin (if z then 4 else 0) op (negb is_srv) key'
                                   (if n <=? 125 then 0 else if n <=? 65535 then 1 else 2) n
                                   (if negb is_srv then mask_fast key' 0 pl' else pl'), r3)
        end
    end = Some (mkF fin (if z then 4 else 0) op (negb is_srv) (if is_srv then [] else key)
                    (if n <=? 125 then 0 else if n <=? 65535 then 1 else 2) n pl, rest)).
  { intros r1 ->. destruct is_srv; cbn [negb].
    - unfold n. rewrite take_cnt_app. reflexivity.
    - destruct key as [|a [|b [|c0 [|d [|]]]]]; try discriminate. cbn [app].
      replace n with (lenN (mask_from [a;b;c0;d] 0 pl)) at 1
        by (unfold n; rewrite !lenN_spec, mask_from_length; reflexivity).
      rewrite take_cnt_app. rewrite mask_fast_spec by reflexivity. rewrite mask_from_involutive. reflexivity. }
  destruct (n <=? 125) eqn:E1.
  - pose proof E1 as E1b. apply N.leb_le in E1. cbn [app]. unfold parse_one.
    rewrite B1, B2, B3. destruct (Hmb n) as [M1 M2]; [lia|]. rewrite M1, M2.
    replace (n =? 126) with false by (symmetry; apply N.eqb_neq; lia).
    replace (n =? 127) with false by (symmetry; apply N.eqb_neq; lia).
    specialize (Htail _ eq_refl). exact Htail.
  - pose proof E1 as E1b. apply N.leb_gt in E1. destruct (n <=? 65535) eqn:E2.
    + pose proof E2 as E2b. apply N.leb_le in E2. destruct (ube2_be2 n) as (a & b & Eb & Vb); [lia|]. rewrite Eb.
      cbn [app]. unfold parse_one. rewrite B1, B2, B3. destruct (Hmb 126) as [M1 M2]; [lia|]. rewrite M1, M2.
      cbn [N.eqb Pos.eqb]. rewrite Vb.
      specialize (Htail _ eq_refl). exact Htail.
    + pose proof E2 as E2b. apply N.leb_gt in E2. destruct (ube8_be8 n) as (a & b & c0 & d & e & f & g & h & Eb & Vb); [lia|]. rewrite Eb.
      cbn [app]. unfold parse_one. rewrite B1, B2, B3. destruct (Hmb 127) as [M1 M2]; [lia|]. rewrite M1, M2.
      cbn [N.eqb Pos.eqb]. rewrite Vb.
      specialize (Htail _ eq_refl). exact Htail.
Qed.
