(* C08 for FLV: the demuxer session over a cut / failing transport, the muxer session over a
   failing writer.  The byte-level facts about the FLV layout are the flv builder's
   (Proofs/Flv.v: parse_mux_tag_header, strip_pts_ok, parse_mux_header, mux_concat). *)
From Verif Require Import Lib.Base Lib.Sx Lib.Err Lib.IO Model.Faults Proofs.FaultsIO.
From Verif Require Model.Flv Proofs.Flv.
Module MF := Verif.Model.Flv.
Module PF := Verif.Proofs.Flv.
Open Scope N_scope.

Lemma firstn_app_ge (d r : bytes) need : lenN d <= need ->
  firstn (N.to_nat need) (d ++ r) = d ++ firstn (N.to_nat (need - lenN d)) r.
Proof.
  intros H. rewrite lenN_length in *. rewrite firstn_app.
  replace (N.to_nat need - length d)%nat with (N.to_nat (need - N.of_nat (length d))) by lia.
  rewrite firstn_all2 by lia. reflexivity.
Qed.
Lemma lenN_firstn (b : bytes) n : lenN (firstn (N.to_nat n) b) <= n.
Proof. rewrite lenN_length, firstn_length. lia. Qed.
Lemma lenN_firstn_le' (b : bytes) n : lenN (firstn (N.to_nat n) b) <= lenN b.
Proof. rewrite !lenN_length, firstn_length. lia. Qed.

(* lengths of the pieces of a tag, by computation (robust against refactoring in Model/Flv.v) *)
Lemma tag_header_len tg : lenN (MF.mux_tag_header tg) = 11.
Proof. reflexivity. Qed.
Lemma tag_trailer_len tg : lenN (MF.mux_tag_trailer tg) = 4.
Proof. reflexivity. Qed.
Lemma file_header_len hv ha : lenN (MF.mux_header hv ha) = 13.
Proof. reflexivity. Qed.

(* ---------- what the session must return when k bytes arrive ---------- *)
Fixpoint flv_expect_tags (tags : list MF.tag) (k : N) : list flv_item :=
  match tags with
  | [] => []
  | tg :: r =>
      let l := lenN (MF.t_body tg) in
      if k <? 11 then []
      else if k <? 15 + l then [ITagHeader (MF.t_type tg) l (MF.t_ts tg)]
      else ITagHeader (MF.t_type tg) l (MF.t_ts tg) :: ITagBody (MF.t_body tg)
           :: flv_expect_tags r (k - (15 + l))
  end.
Definition flv_expect (hv ha : bool) (tags : list MF.tag) (k : N) : list flv_item :=
  if k <? 13 then [] else IHeader 1 hv ha :: flv_expect_tags tags (k - 13).

(* all items of the file, and the offset at which each one is complete *)
Definition flv_tag_items (tg : MF.tag) : list flv_item :=
  [ITagHeader (MF.t_type tg) (lenN (MF.t_body tg)) (MF.t_ts tg); ITagBody (MF.t_body tg)].
Definition flv_items (hv ha : bool) (tags : list MF.tag) : list flv_item :=
  IHeader 1 hv ha :: flat_map flv_tag_items tags.
Fixpoint flv_tag_ends (off : N) (tags : list MF.tag) : list N :=
  match tags with
  | [] => []
  | tg :: r => let e := off + 15 + lenN (MF.t_body tg) in (off + 11) :: e :: flv_tag_ends e r
  end.
Definition flv_ends (tags : list MF.tag) : list N := 13 :: flv_tag_ends 13 tags.
Definition count_le (l : list N) (k : N) : nat := length (filter (fun e => e <=? k) l).

Lemma flv_tag_ends_lb tags : forall off e, In e (flv_tag_ends off tags) -> off + 11 <= e.
Proof.
  induction tags as [|tg r IH]; intros off e H; cbn [flv_tag_ends] in H; [contradiction|].
  destruct H as [<-|[<-|H]]; [lia|lia|]. apply IH in H. lia.
Qed.
Lemma count_le_none l k : (forall e, In e l -> k < e) -> count_le l k = 0%nat.
Proof.
  unfold count_le. induction l as [|x l IH]; intros H; [reflexivity|]. cbn [filter].
  destruct (N.leb_spec x k) as [Hx|_]; [specialize (H x (or_introl eq_refl)); lia|].
  apply IH. intros e He. apply H. now right.
Qed.

Lemma flv_expect_tags_count tags : forall off k, off <= k ->
  length (flv_expect_tags tags (k - off)) = count_le (flv_tag_ends off tags) k.
Proof.
  induction tags as [|tg r IH]; intros off k Hk; cbn [flv_expect_tags flv_tag_ends]; [reflexivity|].
  set (l := lenN (MF.t_body tg)).
  destruct (N.ltb_spec (k - off) 11) as [H1|H1].
  - symmetry. apply count_le_none. intros e [<-|[<-|H]]; [lia|lia|]. apply flv_tag_ends_lb in H. lia.
  - destruct (N.ltb_spec (k - off) (15 + l)) as [H2|H2].
    + unfold count_le. cbn [filter].
      destruct (N.leb_spec (off + 11) k) as [_|Hx]; [|lia].
      destruct (N.leb_spec (off + 15 + l) k) as [Hx|_]; [lia|].
      cbn [length]. f_equal. symmetry. apply count_le_none. intros e H. apply flv_tag_ends_lb in H. lia.
    + unfold count_le. cbn [filter].
      destruct (N.leb_spec (off + 11) k) as [_|Hx]; [|lia].
      destruct (N.leb_spec (off + 15 + l) k) as [_|Hx]; [|lia].
      cbn [length]. f_equal. f_equal.
      replace (k - off - (15 + l)) with (k - (off + 15 + l)) by lia. apply IH. lia.
Qed.

(* exactly the items that end within the first k bytes ... *)
Theorem flv_expect_count hv ha tags k :
  length (flv_expect hv ha tags k) = count_le (flv_ends tags) k.
Proof.
  unfold flv_expect, flv_ends, count_le. cbn [filter].
  destruct (N.ltb_spec k 13) as [H|H].
  - destruct (N.leb_spec 13 k) as [Hx|_]; [lia|].
    symmetry. apply count_le_none. intros e He. apply flv_tag_ends_lb in He. lia.
  - destruct (N.leb_spec 13 k) as [_|Hx]; [|lia]. cbn [length]. f_equal.
    apply flv_expect_tags_count. exact H.
Qed.

(* ... in order, nothing truncated, duplicated or fabricated: a prefix of the file's items *)
Lemma flv_expect_tags_prefix tags : forall k, exists rest,
  flat_map flv_tag_items tags = flv_expect_tags tags k ++ rest.
Proof.
  induction tags as [|tg r IH]; intros k; cbn [flat_map flv_expect_tags].
  - exists []. reflexivity.
  - destruct (k <? 11); [eexists; reflexivity|].
    destruct (k <? 15 + lenN (MF.t_body tg)); [eexists; reflexivity|].
    destruct (IH (k - (15 + lenN (MF.t_body tg)))) as (rest & ->). exists rest. reflexivity.
Qed.
Theorem flv_expect_prefix hv ha tags k : exists rest,
  flv_items hv ha tags = flv_expect hv ha tags k ++ rest.
Proof.
  unfold flv_items, flv_expect. destruct (k <? 13); [eexists; reflexivity|].
  destruct (flv_expect_tags_prefix tags (k - 13)) as (rest & ->). exists rest. reflexivity.
Qed.

Section FlvRead.
  Variable S : Type.
  Variable rd : N -> S -> bytes * option N * S.
  Variable fl : S -> bytes * N.
  Variable inv : S -> Prop.
  Hypothesis Hsound : sound rd fl inv.

  Lemma flv_via_ok {A} (parse : bytes -> res A) st n a r t v :
    inv st -> fl st = (a ++ r, t) -> lenN a = n -> parse a = Ok v ->
    exists st', flv_via S rd n parse st = Ok (v, st') /\ fl st' = (r, t) /\ inv st'.
  Proof.
    intros Hi Hf Hn Hp.
    pose proof (copy_n_sound S rd fl inv Hsound copy_ask n st eq_refl Hi) as C.
    rewrite Hf in C. unfold copy_n_flat in C. rewrite lenN_app in C.
    destruct (N.leb_spec n (lenN a + lenN r)) as [_|H]; [|lia].
    destruct C as (st' & Hc & Hf' & Hi'). exists st'. unfold flv_via. rewrite Hc.
    assert (Hna : N.to_nat n = length a) by (rewrite <- Hn, lenN_length; lia).
    rewrite Hna, firstn_app_exact, Hp. rewrite Hna, skipn_app_exact in Hf'. auto.
  Qed.

  Lemma flv_via_short {A} (parse : bytes -> res A) st n d t :
    inv st -> fl st = (d, t) -> lenN d < n -> flv_via S rd n parse st = Err t.
  Proof.
    intros Hi Hf Hn.
    pose proof (copy_n_sound S rd fl inv Hsound copy_ask n st eq_refl Hi) as C.
    rewrite Hf in C. unfold copy_n_flat in C.
    destruct (N.leb_spec n (lenN d)) as [H|_]; [lia|]. unfold flv_via. now rewrite C.
  Qed.

  Lemma flv_read_tags_cut tags : forall fuel st acc k t,
    Forall PF.wf_tag tags -> (length tags < fuel)%nat -> inv st ->
    fl st = (firstn (N.to_nat k) (concat (map PF.tag_bytes tags)), t) ->
    flv_read_tags S rd fuel st acc = (rev acc ++ flv_expect_tags tags k, t).
  Proof.
    induction tags as [|tg r IH]; intros fuel st acc k t Hwf Hfuel Hi Hf;
      (destruct fuel as [|fuel]; [cbn in Hfuel; lia|]); cbn [flv_read_tags flv_expect_tags].
    - cbn [map concat] in Hf. rewrite firstn_nil in Hf. unfold flv_read_tag_header.
      rewrite (flv_via_short _ st 11 [] t Hi Hf) by (cbn; lia).
      now rewrite frev_rev, app_nil_r.
    - inversion Hwf as [|? ? Hwt Hwr]; subst. cbn [map concat] in Hf.
      set (l := lenN (MF.t_body tg)) in *.
      assert (Hl : l < 16777216) by apply Hwt.
      unfold PF.tag_bytes at 1 in Hf. rewrite <- !app_assoc in Hf.
      destruct (N.ltb_spec k 11) as [H1|H1].
      + (* the tag header is incomplete *)
        unfold flv_read_tag_header.
        rewrite (flv_via_short _ st 11 _ t Hi Hf)
          by (pose proof (lenN_firstn (MF.mux_tag_header tg ++ MF.t_body tg ++ MF.mux_tag_trailer tg ++ concat (map PF.tag_bytes r)) k); lia).
        now rewrite frev_rev, app_nil_r.
      + rewrite firstn_app_ge in Hf by (rewrite tag_header_len; exact H1).
        rewrite tag_header_len in Hf.
        destruct (flv_via_ok MF.parse_tag_header st 11 _ _ t _ Hi Hf (tag_header_len tg)
                    (PF.parse_mux_tag_header tg Hwt)) as (s1 & H1' & F1 & I1).
        unfold flv_read_tag_header. rewrite H1'. fold l.
        assert (Hu : u32 (l + 4) = l + 4) by (unfold u32; apply N.mod_small; lia).
        unfold flv_read_tag. rewrite Hu.
        destruct (N.ltb_spec k (15 + l)) as [H2|H2].
        * (* header complete, body (with its trailer) incomplete *)
          rewrite (flv_via_short _ s1 (l + 4) _ t I1 F1)
            by (pose proof (lenN_firstn (MF.t_body tg ++ MF.mux_tag_trailer tg ++ concat (map PF.tag_bytes r)) (k - 11)); lia).
          rewrite frev_rev. cbn [rev]. reflexivity.
        * (* the whole tag arrived *)
          rewrite app_assoc in F1.
          rewrite firstn_app_ge in F1
            by (rewrite lenN_app, tag_trailer_len; fold l; lia).
          assert (Hbt : lenN (MF.t_body tg ++ MF.mux_tag_trailer tg) = l + 4)
            by (rewrite lenN_app, tag_trailer_len; reflexivity).
          rewrite Hbt in F1.
          destruct (flv_via_ok MF.strip_pts s1 (l + 4) _ _ t _ I1 F1 Hbt
                      (PF.strip_pts_ok _ _ (tag_trailer_len tg))) as (s2 & H2' & F2 & I2).
          rewrite H2'.
          replace (k - 11 - (l + 4)) with (k - (15 + l)) in F2 by lia.
          rewrite (IH fuel s2 _ (k - (15 + l)) t Hwr ltac:(cbn in Hfuel; lia) I2 F2).
          cbn [rev]. now rewrite <- !app_assoc.
  Qed.

  (* C08 for the demuxer, over any sound reader *)
  Theorem flv_read_session_cut hv ha tags fuel st k t :
    Forall PF.wf_tag tags -> (length tags < fuel)%nat -> inv st ->
    fl st = (firstn (N.to_nat k) (MF.mux hv ha tags), t) ->
    flv_read_session S rd fuel st = (flv_expect hv ha tags k, t).
  Proof.
    intros Hwf Hfuel Hi Hf. rewrite PF.mux_concat in Hf. unfold flv_read_session, flv_expect.
    destruct (N.ltb_spec k 13) as [H|H].
    - unfold flv_read_header.
      rewrite (flv_via_short _ st 13 _ t Hi Hf)
        by (pose proof (lenN_firstn (MF.mux_header hv ha ++ concat (map PF.tag_bytes tags)) k); lia).
      reflexivity.
    - pose proof (file_header_len hv ha) as Hh.
      rewrite firstn_app_ge in Hf by (rewrite Hh; exact H). rewrite Hh in Hf.
      destruct (flv_via_ok MF.parse_header st 13 _ _ t _ Hi Hf Hh (PF.parse_mux_header hv ha))
        as (s1 & H1 & F1 & I1).
      unfold flv_read_header. rewrite H1.
      rewrite (flv_read_tags_cut tags fuel s1 _ (k - 13) t Hwf Hfuel I1 F1). reflexivity.
  Qed.
End FlvRead.

(* ... in particular over the segment transport, however it splits the file *)
Corollary flv_read_transport_cut hv ha tags fuel s k t :
  Forall PF.wf_tag tags -> (length tags < fuel)%nat ->
  flat s = (firstn (N.to_nat k) (MF.mux hv ha tags), t) ->
  flv_read_session stream tr_read fuel s = (flv_expect hv ha tags k, t).
Proof. intros Hwf Hfuel Hf. exact (flv_read_session_cut _ _ _ _ transport_sound hv ha tags fuel s k t Hwf Hfuel I Hf). Qed.
