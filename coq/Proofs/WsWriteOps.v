(* C13 proofs (part 4): whole sessions over the flat operation alphabet of the write API --
   NextWriter (closing a writer left open, as prepWrite does), Write / WriteString / ReadFrom,
   Close, WriteMessage, WriteJSON, WritePreparedMessage with its frame cache, WriteControl,
   SetCompressionLevel, EnableWriteCompression -- on connections with or without
   permessage-deflate.  compress/flate and encoding/json are oracles (the operations carry the
   chunks the flate writer emitted / the encoder's output). *)
From Verif Require Import Lib.Base Lib.Sx Gen.Gen_websocket Model.WsWrite Proofs.WsWrite Proofs.WsWriteFrame Proofs.WsWriteSession.
Open Scope N_scope.
Ltac Zify.zify_post_hook ::= Z.div_mod_to_equations.

Definition big : N := 4611686018427387904.   (* 2^62 *)
Definition flate_tail : bytes := [0; 0; 255; 255].
Definition zbody (s : bytes) : bytes := firstn (length s - 4) s.
Definition event := (N * bool * bytes)%type.

Lemma zbody_app body : zbody (body ++ flate_tail) = body.
Proof.
  unfold zbody. rewrite app_length. cbn [length flate_tail].
  replace (length body + 4 - 4)%nat with (length body) by lia.
  rewrite firstn_app, Nat.sub_diag, firstn_all. cbn. apply app_nil_r.
Qed.

(* decidable form of "the stream ends with the sync-flush marker" *)
Definition tail_okb (s : bytes) : bool :=
  (4 <=? length s)%nat && bytes_eqb (skipn (length s - 4) s) flate_tail.

Lemma bytes_eqb_eq a : forall b, bytes_eqb a b = true -> a = b.
Proof.
  induction a as [|x a IH]; intros [|y b] H; cbn in H; try discriminate; [reflexivity|].
  apply andb_prop in H. destruct H as [H1 H2]. apply N.eqb_eq in H1. rewrite H1, (IH b H2). reflexivity.
Qed.

Lemma tail_okb_spec s : tail_okb s = true -> s = zbody s ++ flate_tail.
Proof.
  unfold tail_okb, zbody. intros H. apply andb_prop in H. destruct H as [_ H].
  apply bytes_eqb_eq in H. rewrite <- H. symmetry. apply firstn_skipn.
Qed.

Lemma in_concat_length {A} (x : list A) l : In x l -> (length x <= length (concat l))%nat.
Proof.
  induction l as [|y l IH]; intros H; [destruct H|]. cbn [concat]. rewrite app_length.
  destruct H as [-> | H]; [lia|]. specialize (IH H). lia.
Qed.

Lemma app_tail_inj (e r b tl : bytes) : e ++ r = b ++ tl -> length r = length tl -> e = b /\ r = tl.
Proof.
  intros H Hl.
  assert (He : length e = length b).
  { apply (f_equal (@length N)) in H. rewrite !app_length in H. lia. }
  split.
  - apply (f_equal (firstn (length e))) in H. rewrite firstn_app, Nat.sub_diag, firstn_all in H.
    cbn [firstn] in H. rewrite app_nil_r in H. rewrite H, He, firstn_app, Nat.sub_diag, firstn_all. cbn. apply app_nil_r.
  - apply (f_equal (skipn (length e))) in H. rewrite skipn_app, Nat.sub_diag, skipn_all in H.
    cbn [skipn app] in H. rewrite H, He, skipn_app, Nat.sub_diag, skipn_all. reflexivity.
Qed.

Lemma tail_ok_app fs1 fs2 dn1 dn2 :
  tail_ok fs1 false None dn1 -> tail_ok fs2 false None dn2 -> tail_ok (fs1 ++ fs2) false None (dn1 ++ dn2).
Proof.
  intros H1 H2 rest. rewrite <- app_assoc.
  destruct (H1 (fs2 ++ rest)) as [A1 B1]. destruct (H2 rest) as [A2 B2].
  split; [rewrite A1; exact A2|]. rewrite B1, B2.
  destruct (events_from None rest); cbn; [rewrite app_assoc; reflexivity|reflexivity].
Qed.

(* a byte string that is a closed run of frames carrying exactly the events [dn] *)
Definition seg_ok (pmd is_srv : bool) (v : bytes) (dn : list event) : Prop :=
  exists ds, v = enc_all is_srv ds /\ ds <> [] /\ Forall fd_ok ds /\ Forall (fd_shape pmd) ds /\
             tail_ok (map (abs_fd is_srv) ds) false None dn.

Lemma enc_all_nonnil is_srv ds : ds <> [] -> is_nil (enc_all is_srv ds) = false.
Proof.
  destruct ds as [|d ds]; [congruence|]. intros _. unfold enc_all. cbn [map concat].
  unfold enc_fd, enc_frame. reflexivity.
Qed.

Lemma wire_of_spec s : wire_of s = wire (mw s).
Proof. unfold wire_of, wire. rewrite <- rev_alt. reflexivity. Qed.

(* ---- phases of the connection between two operations ---- *)
Section Phases.
Variable c : cfg.
Variable pmd : bool.
Hypothesis Hblen : 15 <= blen c < big.

Definition PClosed (s : cst) (dn : list event) : Prop :=
  exists ds, CInv c pmd (mw s) ds false None dn /\ wopen s = false.
Definition PRaw (t : N) (D : bytes) (s : cst) (dn : list event) : Prop :=
  exists g, MInv c pmd t false (mw s) g dn D /\ wopen s = true /\ hkind s = 1 /\ mwclosed s = false
            /\ data_type t.
Definition PZ (t : N) (S : bytes) (s : cst) (dn : list event) : Prop :=
  exists g D, MInv c pmd t true (mw s) g dn D /\ wopen s = true /\ hkind s = 2 /\ zopen s = true
              /\ mwclosed s = false /\ tw_inv (tws_ s) S D /\ data_type t /\ pmd = true.

(* only the writer-related fields moved *)
Definition same_cfg (s s' : cst) : Prop :=
  comp s' = comp s /\ ewc s' = ewc s /\ lvl s' = lvl s /\ pcache s' = pcache s.
Lemma same_cfg_refl s : same_cfg s s. Proof. repeat split. Qed.
Lemma same_cfg_trans a b d : same_cfg a b -> same_cfg b d -> same_cfg a d.
Proof. intros (A1 & A2 & A3 & A4) (B1 & B2 & B3 & B4). repeat split; congruence. Qed.

Lemma zf : false = true -> pmd = true. Proof. discriminate. Qed.

(* messageWriter.Close *)
Lemma mw_close_raw t D s dn : PRaw t D s dn ->
  exists s', do_mw_close c s = Ok (s', eOK) /\ PClosed s' (dn ++ [(t, false, D)]) /\ same_cfg s s'
             /\ hkind s' = hkind s.
Proof.
  intros (g & HM & Ho & Hk & Hm & Ht).
  unfold do_mw_close. rewrite Hm.
  pose proof (buffered_bound c pmd Hblen t false _ _ _ _ HM) as Hb.
  destruct (flush_step c pmd Hblen t false (mw s) g dn D true [] Ht zf HM (fun _ => eq_refl)) as (w' & Hrun & HC).
  { rewrite app_nil_r. unfold two63. lia. }
  rewrite Hrun. cbn [bind N.eqb negb]. rewrite !app_nil_r in HC.
  eexists. split; [reflexivity|]. split; [eexists; split; [exact HC|reflexivity]|].
  split; [repeat split|reflexivity].
Qed.

Lemma feed_ok t (Ht : data_type t) (Hp : pmd = true) : forall ws w g dn D,
  MInv c pmd t true w g dn D -> Forall (fun p => lenN p < big) ws ->
  exists w' g', feed_writes c w ws = Ok (w', eOK) /\ MInv c pmd t true w' g' dn (D ++ concat ws).
Proof.
  induction ws as [|p ws IH]; intros w g dn D H Hws.
  - exists w, g. cbn. rewrite app_nil_r. auto.
  - apply Forall_cons_iff in Hws. destruct Hws as [Hpl Hws'].
    destruct (mw_write_ok c pmd Hblen t true Ht (fun _ => Hp) w g dn D p H Hpl) as (w1 & g1 & Hrun & H1).
    destruct (IH w1 g1 dn _ H1 Hws') as (w' & g' & Hrun' & H').
    exists w', g'. unfold feed_writes in *. cbn [fold_left bind N.eqb negb]. rewrite Hrun.
    split; [exact Hrun'|]. cbn [concat]. rewrite app_assoc. exact H'.
Qed.

Lemma tw_pieces_bound w S D chunks : tw_inv w S D -> lenN (S ++ concat chunks) < big ->
  Forall (fun p => lenN p < big) (snd (tw_run w chunks)).
Proof.
  intros Hinv Hlen. pose proof (tw_run_inv chunks w S D Hinv) as (r & pad & Hs & _).
  apply Forall_forall. intros x Hx. pose proof (in_concat_length x _ Hx) as Hl.
  apply (f_equal (@length N)) in Hs. rewrite !app_length in Hs. rewrite !lenN_spec in *. rewrite app_length in Hlen. lia.
Qed.

(* flateWriteWrapper.Close with the chunks fw.Flush produced *)
Lemma z_close t S s dn cch : PZ t S s dn -> lenN (S ++ concat cch) < big -> tail_okb (S ++ concat cch) = true ->
  exists s', do_z_close c s cch = Ok (s', eOK) /\ PClosed s' (dn ++ [(t, true, zbody (S ++ concat cch))])
             /\ same_cfg s s' /\ hkind s' = hkind s.
Proof.
  intros (g & D & HM & Ho & Hk & Hz & Hm & Htw & Ht & Hp) Hlen Htail.
  pose proof (tail_okb_spec _ Htail) as Hbody. set (body := zbody (S ++ concat cch)) in *.
  unfold do_z_close. rewrite Hz. cbn [negb].
  pose proof (tw_run_inv cch (tws_ s) S D Htw) as Htw'.
  pose proof (tw_pieces_bound _ _ _ cch Htw Hlen) as Hb.
  destruct (tw_run (tws_ s) cch) as [t1 ws] eqn:Er. cbn [fst snd] in *.
  destruct (feed_ok t Ht Hp ws (mw s) g dn D HM Hb) as (w' & g' & Hrun & H').
  rewrite Hrun. cbn [bind].
  destruct Htw' as (r & pad & Hs & Htp & Hl & Htn & Hr4 & He).
  assert (Hr : length r = 4%nat).
  { destruct (Nat.lt_ge_cases (length r) 4) as [Hlt|Hge]; [|lia].
    specialize (He Hlt). rewrite Hbody in Hs. apply (f_equal (@length N)) in Hs.
    destruct (D ++ concat ws); [|discriminate He]. rewrite !app_length in Hs. cbn in Hs. lia. }
  rewrite Hbody in Hs. symmetry in Hs.
  destruct (app_tail_inj _ _ _ _ Hs Hr) as [HD Hrt].
  assert (Hpad : pad = []) by (rewrite Htp, app_length in Hl; destruct pad; [reflexivity|cbn in Hl; lia]).
  assert (Htl : flate_tail_ok t1 = true).
  { unfold flate_tail_ok. rewrite Htp, Hpad, app_nil_r, Hrt. reflexivity. }
  rewrite Htl. cbn [negb].
  unfold do_mw_close. cbn [mwclosed st_h st_mw mw]. rewrite Hm.
  pose proof (buffered_bound c pmd Hblen t true _ _ _ _ H') as Hbb.
  destruct (flush_step c pmd Hblen t true w' g' dn _ true [] Ht (fun _ => Hp) H' (fun _ => eq_refl)) as (w2 & Hrun2 & HC).
  { rewrite app_nil_r. unfold two63, big in *. lia. }
  rewrite Hrun2. cbn [bind N.eqb negb]. rewrite !app_nil_r in HC. rewrite HD in HC.
  eexists. split; [reflexivity|]. split; [eexists; split; [exact HC|reflexivity]|].
  split; [repeat split|reflexivity].
Qed.

(* what closing the current writer (explicitly, or implicitly by prepWrite) puts on the wire *)
Definition closes (s : cst) (dn : list event) (ich : list bytes) (evs : list event) : Prop :=
  (PClosed s dn /\ evs = []) \/
  (exists t D, PRaw t D s dn /\ evs = [(t, false, D)]) \/
  (exists t S, PZ t S s dn /\ lenN (S ++ concat ich) < big /\ tail_okb (S ++ concat ich) = true
               /\ evs = [(t, true, zbody (S ++ concat ich))]).

Lemma implicit_close_ok s dn ich evs : closes s dn ich evs ->
  exists s1, implicit_close c s ich = Ok s1 /\ PClosed s1 (dn ++ evs) /\ same_cfg s s1.
Proof.
  intros [[HP ->]|[(t & D & HP & ->)|(t & S & HP & Hlen & Htl & ->)]]; unfold implicit_close.
  - pose proof HP as (ds & HC & Ho). rewrite Ho. cbn [negb]. exists s. rewrite app_nil_r.
    split; [reflexivity|]. split; [exact HP|apply same_cfg_refl].
  - pose proof HP as (g & HM & Ho & Hk & Hm & Ht). rewrite Ho, Hk. cbn [negb N.eqb Pos.eqb].
    destruct (mw_close_raw t D s dn HP) as (s' & Hrun & (ds & HC & Ho') & Hsc & _).
    rewrite Hrun. cbn [bind fst]. eexists. split; [reflexivity|].
    split; [exists ds; split; [exact HC|reflexivity]|]. destruct Hsc as (A & B & C0 & D0). repeat split; assumption.
  - pose proof HP as (g & D & HM & Ho & Hk & Hz & Hm & Htw & Ht & Hp). rewrite Ho, Hk. cbn [negb N.eqb Pos.eqb].
    destruct (z_close t S s dn ich HP Hlen Htl) as (s' & Hrun & (ds & HC & Ho') & Hsc & _).
    rewrite Hrun. cbn [bind fst]. eexists. split; [reflexivity|].
    split; [exists ds; split; [exact HC|reflexivity]|]. destruct Hsc as (A & B & C0 & D0). repeat split; assumption.
Qed.

Lemma prep_write_ok s dn ich evs t : closes s dn ich evs -> data_type t ->
  exists s1, prep_write c s t ich = Ok (s1, eOK) /\ PClosed s1 (dn ++ evs) /\ same_cfg s s1.
Proof.
  intros Hcl Ht. unfold prep_write.
  destruct (implicit_close_ok s dn ich evs Hcl) as (s1 & Hrun & HP & Hsc).
  rewrite Hrun. cbn [bind].
  assert (Hd : is_data t = true) by (destruct Ht as [-> | ->]; reflexivity).
  assert (Hnc : is_control t = false) by (destruct Ht as [-> | ->]; reflexivity).
  rewrite Hnc, Hd. cbn [negb andb].
  pose proof HP as (ds & (Hh & [He _] & _) & _). rewrite He.
  exists s1. split; [reflexivity|]. split; [exact HP|exact Hsc].
Qed.

(* NextWriter: the new writer compresses iff compression was negotiated and is enabled *)
Lemma do_next_ok s dn ich evs t : closes s dn ich evs -> data_type t -> comp s = pmd ->
  exists s', do_next c s t ich = Ok (s', eOK) /\ same_cfg s s' /\
    (if pmd && ewc s then PZ t [] s' (dn ++ evs) else PRaw t [] s' (dn ++ evs)).
Proof.
  intros Hcl Ht Hcp. unfold do_next.
  destruct (prep_write_ok s dn ich evs t Hcl Ht) as (s1 & Hrun & (ds & HC & Ho) & Hsc).
  rewrite Hrun. cbn [bind]. cbn [N.eqb negb].
  assert (Hd : is_data t = true) by (destruct Ht as [-> | ->]; reflexivity).
  destruct Hsc as (A & B & C0 & D0). rewrite A, B, Hcp, Hd, andb_true_r.
  assert (HM0 : forall z : bool, (z = true -> pmd = true) ->
            MInv c pmd t z (set_cflag (mw_new (mw s1) t) z) (mkG ds false []) (dn ++ evs) []).
  { intros z Hz. unfold MInv. cbn [g_ds g_started g_acc]. split; [exact HC|]. cbn.
    split; [reflexivity|]. split; [change maxHdr with 14; unfold big in *; lia|]. auto. }
  destruct (pmd && ewc s) eqn:Ez.
  - eexists. split; [reflexivity|]. split; [repeat split; assumption|].
    apply andb_prop in Ez. destruct Ez as [Ep _].
    exists (mkG ds false []), []. cbn [mw st_h st_mw wopen hkind zopen mwclosed tws_].
    split; [exact (HM0 true (fun _ => Ep))|]. repeat split; auto. exact tw_inv0.
  - eexists. split; [reflexivity|]. split; [repeat split; assumption|].
    exists (mkG ds false []). cbn [mw st_h st_mw wopen hkind zopen mwclosed tws_].
    split; [exact (HM0 false zf)|]. repeat split; auto.
Qed.

(* the three write calls on a messageWriter handle *)
Definition raw_call (s : cst) (k : N) (p : bytes) (caps : list N) (ewd : bool) (ch : list bytes) : res (cst * N) :=
  if k =? 1 then do_write c s p ch else if k =? 2 then do_write_string c s p ch else do_read_from c s p caps ewd ch.

Lemma raw_write_ok t D s dn k p caps ewd ch : PRaw t D s dn -> (k = 1 -> lenN p < big) ->
  exists s', raw_call s k p caps ewd ch = Ok (s', eOK) /\ PRaw t (D ++ p) s' dn /\ same_cfg s s'.
Proof.
  intros (g & HM & Ho & Hk & Hm & Ht) Hp.
  assert (Hfin : forall w' g', MInv c pmd t false w' g' dn (D ++ p) ->
            PRaw t (D ++ p) (st_mw s w') dn /\ same_cfg s (st_mw s w')).
  { intros w' g' H'. split; [|repeat split]. exists g'. cbn [mw st_mw wopen hkind mwclosed]. auto. }
  unfold raw_call, do_write, do_write_string, do_read_from. rewrite Hk, Hm. cbn [N.eqb Pos.eqb].
  destruct (k =? 1) eqn:E1; [|destruct (k =? 2)].
  - apply N.eqb_eq in E1.
    destruct (mw_write_ok c pmd Hblen t false Ht zf (mw s) g dn D p HM (Hp E1)) as (w' & g' & Hrun & H').
    rewrite Hrun. cbn [lift_mw bind fst snd]. eexists. split; [reflexivity|]. exact (Hfin w' g' H').
  - destruct (mw_write_string_ok c pmd Hblen t false Ht zf (mw s) g dn D p HM) as (w' & g' & Hrun & H').
    rewrite Hrun. cbn [lift_mw bind fst snd]. eexists. split; [reflexivity|]. exact (Hfin w' g' H').
  - destruct (mw_read_from_ok c pmd Hblen t false Ht zf (mw s) g dn D p caps ewd HM) as (w' & g' & Hrun & H').
    rewrite Hrun. cbn [lift_mw bind fst snd]. eexists. split; [reflexivity|]. exact (Hfin w' g' H').
Qed.

(* ... and on a flateWriteWrapper handle (WriteString / ReadFrom fall back to Write): the
   application data goes to flate, [ch] is what flate handed to the truncWriter meanwhile *)
Lemma z_write_ok t S s dn k p caps ewd ch : PZ t S s dn -> lenN (S ++ concat ch) < big ->
  exists s', raw_call s k p caps ewd ch = Ok (s', eOK) /\ PZ t (S ++ concat ch) s' dn /\ same_cfg s s'.
Proof.
  intros (g & D & HM & Ho & Hk & Hz & Hm & Htw & Ht & Hp) Hlen.
  assert (Hw : exists s', do_write c s p ch = Ok (s', eOK) /\ PZ t (S ++ concat ch) s' dn /\ same_cfg s s').
  { unfold do_write. rewrite Hk, Hz. cbn [N.eqb Pos.eqb negb].
    pose proof (tw_run_inv ch (tws_ s) S D Htw) as Htw'.
    pose proof (tw_pieces_bound _ _ _ ch Htw Hlen) as Hb.
    destruct (tw_run (tws_ s) ch) as [t1 ws] eqn:Er. cbn [fst snd] in *.
    destruct (feed_ok t Ht Hp ws (mw s) g dn D HM Hb) as (w' & g' & Hrun & H').
    cbn [mw st_h]. rewrite Hrun. cbn [lift_mw bind fst snd].
    eexists. split; [reflexivity|]. split; [|repeat split].
    exists g', (D ++ concat ws). cbn [mw st_h st_mw wopen hkind mwclosed zopen tws_].
    split; [exact H'|]. repeat split; auto. }
  unfold raw_call, do_write_string, do_read_from. rewrite Hk. cbn [N.eqb Pos.eqb].
  destruct (k =? 1); [exact Hw|]. destruct (k =? 2); exact Hw.
Qed.

(* WriteControl(ping/pong) in any phase *)
Lemma ctl_closed s dn t p : PClosed s dn -> ping_pong t -> lenN p <= 125 ->
  exists s', do_control c s t p = (s', eOK) /\ PClosed s' (dn ++ [(t, false, p)]) /\ same_cfg s s'.
Proof.
  intros (ds & HC & Ho) Ht Hl.
  destruct (control_ok c pmd s _ _ _ _ t p HC Ht Hl) as (m' & Hrun & HC' & _).
  rewrite Hrun. eexists. split; [reflexivity|]. split; [|repeat split].
  eexists. cbn [mw st_mw wopen]. split; [exact HC'|exact Ho].
Qed.

Lemma ctl_minv t z s g dn D tc p : MInv c pmd t z (mw s) g dn D -> ping_pong tc -> lenN p <= 125 ->
  exists m' g', do_control c s tc p = (st_mw s m', eOK) /\ MInv c pmd t z m' g' (dn ++ [(tc, false, p)]) D.
Proof.
  intros (HC & Hp & Hpb & Hft & Hcf & HD & Hacc) Htc Hl.
  destruct (control_ok c pmd s _ _ _ _ tc p HC Htc Hl) as (m' & Hrun & HC' & Hrb & Hps & Hft' & Hcf').
  exists m', (mkG (g_ds g ++ [mkD true false tc (next_key (mw s)) p]) (g_started g) (g_acc g)). split; [exact Hrun|].
  unfold MInv. cbn [g_ds g_started g_acc].
  assert (Hb : buffered m' = buffered (mw s)) by (unfold buffered; rewrite Hrb; reflexivity).
  rewrite Hb, Hps, Hft', Hcf'.
  split; [exact HC'|]. split; [exact Hp|]. split; [exact Hpb|]. split; [exact Hft|].
  split; [exact Hcf|]. split; [exact HD|exact Hacc].
Qed.

Lemma ctl_raw t D s dn tc p : PRaw t D s dn -> ping_pong tc -> lenN p <= 125 ->
  exists s', do_control c s tc p = (s', eOK) /\ PRaw t D s' (dn ++ [(tc, false, p)]) /\ same_cfg s s'.
Proof.
  intros (g & HM & Ho & Hk & Hm & Ht) Htc Hl.
  destruct (ctl_minv t false s g dn D tc p HM Htc Hl) as (m' & g' & Hrun & HM').
  rewrite Hrun. eexists. split; [reflexivity|]. split; [|repeat split].
  exists g'. cbn [mw st_mw wopen hkind mwclosed]. auto.
Qed.

Lemma ctl_z t S s dn tc p : PZ t S s dn -> ping_pong tc -> lenN p <= 125 ->
  exists s', do_control c s tc p = (s', eOK) /\ PZ t S s' (dn ++ [(tc, false, p)]) /\ same_cfg s s'.
Proof.
  intros (g & D & HM & Ho & Hk & Hz & Hm & Htw & Ht & Hp) Htc Hl.
  destruct (ctl_minv t true s g dn D tc p HM Htc Hl) as (m' & g' & Hrun & HM').
  rewrite Hrun. eexists. split; [reflexivity|]. split; [|repeat split].
  exists g', D. cbn [mw st_mw wopen hkind mwclosed zopen tws_]. split; [exact HM'|]. repeat split; auto.
Qed.

(* Close on the handle *)
Lemma do_close_ok s dn cch evs : closes s dn cch evs -> wopen s = true ->
  exists s', do_close c s cch = Ok (s', eOK) /\ PClosed s' (dn ++ evs) /\ same_cfg s s'.
Proof.
  intros [[(ds & _ & Ho) _]|[(t & D & HP & ->)|(t & S & HP & Hlen & Htl & ->)]] Hop; unfold do_close.
  - congruence.
  - pose proof HP as (g & HM & Ho & Hk & Hm & Ht). rewrite Hk. cbn [N.eqb Pos.eqb].
    destruct (mw_close_raw t D s dn HP) as (s' & Hrun & HP' & Hsc & _). exists s'. auto.
  - pose proof HP as (g & D & HM & Ho & Hk & Hz & Hm & Htw & Ht & Hp). rewrite Hk. cbn [N.eqb Pos.eqb].
    destruct (z_close t S s dn cch HP Hlen Htl) as (s' & Hrun & HP' & Hsc & _). exists s'. auto.
Qed.
End Phases.

Lemma fd_shape_weaken (a b : bool) d : (a = true -> b = true) -> fd_shape a d -> fd_shape b d.
Proof. intros Hab [H1 H2]. split; [intros Hz; apply Hab, H1, Hz|exact H2]. Qed.

Section Messages.
Variable c : cfg.
Variable pmd : bool.
Hypothesis Hblen : 15 <= blen c < big.

Definition zcond (cp : bool) (wch cch : list bytes) : Prop :=
  cp = true -> lenN (concat wch ++ concat cch) < big /\ tail_okb (concat wch ++ concat cch) = true.
Definition payload_of (cp : bool) (p : bytes) (wch cch : list bytes) : bytes :=
  if cp then zbody (concat wch ++ concat cch) else p.

(* NextWriter; one Write; Close -- the slow path of WriteMessage and the whole of WriteJSON *)
Lemma next_write_close_ok s dn ich evs t p wch cch :
  closes c pmd s dn ich evs -> data_type t -> lenN p < big -> comp s = pmd ->
  zcond (pmd && ewc s) wch cch ->
  exists s1 s2 s3, do_next c s t ich = Ok (s1, eOK) /\ do_write c s1 p wch = Ok (s2, eOK) /\
    do_close c s2 cch = Ok (s3, eOK) /\
    PClosed c pmd s3 (dn ++ evs ++ [(t, pmd && ewc s, payload_of (pmd && ewc s) p wch cch)]) /\ same_cfg s s3.
Proof.
  intros Hcl Ht Hp Hcp Hz.
  destruct (do_next_ok c pmd Hblen s dn ich evs t Hcl Ht Hcp) as (s1 & Hrun1 & Hsc1 & Hph).
  exists s1. unfold payload_of. destruct (pmd && ewc s) eqn:Ecp.
  - destruct (Hz eq_refl) as [Hlen Htl].
    destruct (z_write_ok c pmd Hblen t [] s1 _ 1 p [] false wch Hph) as (s2 & Hrun2 & Hph2 & Hsc2).
    { cbn [app]. rewrite lenN_app in Hlen. eapply N.le_lt_trans; [|exact Hlen]. apply N.le_add_r. }
    cbn [app] in Hph2. pose proof Hph2 as (g2 & D2 & _ & Ho2 & _).
    destruct (do_close_ok c pmd Hblen s2 (dn ++ evs) cch [(t, true, zbody (concat wch ++ concat cch))]) as (s3 & Hrun3 & Hph3 & Hsc3).
    { right. right. exists t, (concat wch). auto. }
    { exact Ho2. }
    exists s2, s3. unfold raw_call in Hrun2. cbn [N.eqb Pos.eqb] in Hrun2.
    split; [exact Hrun1|]. split; [exact Hrun2|]. split; [exact Hrun3|].
    rewrite <- app_assoc in Hph3. split; [exact Hph3|].
    exact (same_cfg_trans _ _ _ (same_cfg_trans _ _ _ Hsc1 Hsc2) Hsc3).
  - destruct (raw_write_ok c pmd Hblen t [] s1 _ 1 p [] false wch Hph (fun _ => Hp)) as (s2 & Hrun2 & Hph2 & Hsc2).
    cbn [app] in Hph2. pose proof Hph2 as (g2 & _ & Ho2 & _).
    destruct (do_close_ok c pmd Hblen s2 (dn ++ evs) cch [(t, false, p)]) as (s3 & Hrun3 & Hph3 & Hsc3).
    { right. left. exists t, p. auto. }
    { exact Ho2. }
    exists s2, s3. unfold raw_call in Hrun2. cbn [N.eqb Pos.eqb] in Hrun2.
    split; [exact Hrun1|]. split; [exact Hrun2|]. split; [exact Hrun3|].
    rewrite <- app_assoc in Hph3. split; [exact Hph3|].
    exact (same_cfg_trans _ _ _ (same_cfg_trans _ _ _ Hsc1 Hsc2) Hsc3).
Qed.

Lemma write_json_ok s dn ich evs enc wch cch :
  closes c pmd s dn ich evs -> lenN enc < big -> comp s = pmd -> zcond (pmd && ewc s) wch cch ->
  exists s', do_write_json c s enc ich wch cch = Ok (s', eOK) /\
    PClosed c pmd s' (dn ++ evs ++ [(opText, pmd && ewc s, payload_of (pmd && ewc s) enc wch cch)]) /\ same_cfg s s'.
Proof.
  intros Hcl Hp Hcp Hz.
  destruct (next_write_close_ok s dn ich evs opText enc wch cch Hcl (or_introl eq_refl) Hp Hcp Hz)
    as (s1 & s2 & s3 & R1 & R2 & R3 & HP & Hsc).
  unfold do_write_json. rewrite R1. cbn [bind N.eqb negb]. rewrite R2. cbn [bind fst snd]. rewrite R3.
  cbn [bind fst snd N.eqb negb]. exists s3. auto.
Qed.

Lemma write_message_ok s dn ich evs t p wch cch :
  closes c pmd s dn ich evs -> data_type t -> lenN p < big -> comp s = pmd ->
  zcond (pmd && ewc s) wch cch ->
  exists s', do_write_message c s t p ich wch cch = Ok (s', eOK) /\
    PClosed c pmd s' (dn ++ evs ++ [(t, pmd && ewc s, payload_of (pmd && ewc s) p wch cch)]) /\ same_cfg s s'.
Proof.
  intros Hcl Ht Hp Hcp Hz. unfold do_write_message.
  assert (Hfast : srv c && (negb (comp s) || negb (ewc s)) = srv c && negb (pmd && ewc s)).
  { rewrite Hcp. destruct (srv c), pmd, (ewc s); reflexivity. }
  rewrite Hfast.
  destruct (srv c && negb (pmd && ewc s)) eqn:Ef.
  - (* server fast path: one frame, what does not fit the buffer goes out as "extra" *)
    apply andb_prop in Ef. destruct Ef as [Es Ecp]. apply negb_true_iff in Ecp. rewrite Ecp.
    unfold payload_of.
    destruct (prep_write_ok c pmd Hblen s dn ich evs t Hcl Ht) as (s1 & Hrun & (ds & HC & Ho) & Hsc).
    rewrite Hrun. cbn [bind]. cbn [N.eqb negb].
    rewrite splitN_spec.
    set (n := N.min (blen c - maxHdr) (lenN p)).
    set (a := firstn (N.to_nat n) p). set (rest := skipn (N.to_nat n) p).
    assert (Hnle : n <= lenN p) by (unfold n; lia).
    assert (Ha : lenN a = n).
    { unfold a. rewrite lenN_spec, firstn_length. rewrite lenN_spec in Hnle. lia. }
    assert (HM0 : MInv c pmd t false (mw_new (mw s1) t) (mkG ds false []) (dn ++ evs) []).
    { unfold MInv. cbn [g_ds g_started g_acc]. split; [exact HC|]. cbn.
      split; [reflexivity|]. split; [change maxHdr with 14; unfold big in *; lia|]. auto. }
    pose proof (append_step c pmd Hblen t false (mw_new (mw s1) t) _ _ [] a HM0) as HM1.
    rewrite Ha in HM1. specialize (HM1 ltac:(cbn [pos mw_new set_cflag set_ftype set_buf]; unfold n; change maxHdr with 14 in *; unfold big in *; lia)).
    cbn [app] in HM1.
    destruct (flush_step c pmd Hblen t false _ _ _ a true rest Ht (zf pmd) HM1) as (w' & Hrun' & HC').
    { rewrite Es. discriminate. }
    { rewrite buffered_append. cbn [buffered mw_new set_cflag set_ftype set_buf rbuf rev concat app].
      unfold a, rest. rewrite firstn_skipn. unfold two63, big in *. lia. }
    cbv beta match. rewrite Hrun'. cbn [lift_mw bind fst snd].
    eexists. split; [reflexivity|]. unfold a, rest in HC'. rewrite firstn_skipn in HC'.
    rewrite <- app_assoc in HC'.
    split; [eexists; split; [exact HC'|exact Ho]|].
    destruct Hsc as (A & B & C0 & D0). repeat split; assumption.
  - destruct (next_write_close_ok s dn ich evs t p wch cch Hcl Ht Hp Hcp Hz)
      as (s1 & s2 & s3 & R1 & R2 & R3 & HP & Hsc).
    rewrite R1. cbn [bind N.eqb negb]. rewrite R2. cbn [bind N.eqb negb]. exists s3. auto.
Qed.
End Messages.

(* ---- prepared messages ---- *)
Lemma prepared_frame_ok is_srv cp l t p ks wch cch :
  data_type t -> lenN p < big -> Forall (fun k : bytes => length k = 4%nat) ks -> zcond cp wch cch ->
  exists v ks', prepared_frame is_srv cp l t p ks wch cch = Ok (v, ks', eOK) /\
    seg_ok cp is_srv v [(t, cp, payload_of cp p wch cch)] /\ Forall (fun k : bytes => length k = 4%nat) ks'.
Proof.
  intros Ht Hp Hk Hz. unfold prepared_frame.
  set (c := mkC is_srv (defaultWBuf + maxHdr)).
  assert (Hb : 15 <= blen c < big) by (unfold c, big; cbn; lia).
  set (s0 := cst0 (mws0 ks) cp l).
  assert (HP0 : PClosed c cp s0 []).
  { exists []. split; [|reflexivity]. unfold CInv, s0, cst0. cbn [mw mws0 hdr werrc keys].
    split; [reflexivity|]. split; [split; reflexivity|]. split; [exact Hk|].
    split; [reflexivity|]. split; [constructor|]. split; [constructor|]. exact tail_ok_nil. }
  assert (Hz' : zcond (cp && ewc s0) wch cch) by (cbn [ewc s0 cst0]; rewrite andb_true_r; exact Hz).
  destruct (write_message_ok c cp Hb s0 [] [] [] t p wch cch (or_introl (conj HP0 eq_refl)) Ht Hp eq_refl Hz')
    as (s' & Hrun & (ds & HC & _) & _).
  rewrite Hrun. cbn [bind]. cbn [ewc s0 cst0 app] in HC. rewrite andb_true_r in HC.
  destruct HC as (Hh & He & Hk' & Hw & Hok & Hsh & Htl).
  eexists _, _. split; [reflexivity|]. split; [|exact Hk'].
  exists ds. split; [rewrite <- rev_alt; exact Hw|]. split; [|auto].
  intros ->. destruct (Htl []) as [_ B]. cbn in B. discriminate B.
Qed.

Section Prepared.
Variable c : cfg.
Variable pmd : bool.

Lemma send_segment w ds dn t v dn2 :
  CInv c pmd w ds false None dn -> data_type t -> seg_ok pmd (srv c) v dn2 ->
  exists w' ds', conn_write w t [v] = (w', eOK) /\ CInv c pmd w' ds' false None (dn ++ dn2).
Proof.
  intros (Hh & [He Hbud] & Hk & Hw & Hok & Hsh & Htl) Ht (ds2 & Hv & Hne & Hok2 & Hsh2 & Htl2).
  unfold conn_write. rewrite He. cbn [N.eqb negb]. rewrite Hbud. cbn [fold_left].
  rewrite Hv, (enc_all_nonnil _ _ Hne).
  assert (Hncl : (t =? opClose) = false) by (destruct Ht as [-> | ->]; reflexivity).
  rewrite Hncl. eexists _, (ds ++ ds2). split; [reflexivity|].
  unfold CInv. cbn [hdr werrc keys set_out].
  split; [exact Hh|]. split; [exact (conj He Hbud)|]. split; [exact Hk|].
  split; [unfold wire in *; cbn [out set_out rev]; rewrite concat_app, Hw; cbn [concat];
          rewrite app_nil_r; unfold enc_all; rewrite map_app, concat_app; reflexivity|].
  split; [apply Forall_app; auto|]. split; [apply Forall_app; auto|].
  rewrite map_app. apply tail_ok_app; assumption.
Qed.

Lemma seg_weaken cp is_srv v dn : (cp = true -> pmd = true) -> seg_ok cp is_srv v dn -> seg_ok pmd is_srv v dn.
Proof.
  intros H (ds & A & B & C0 & D0 & E). exists ds.
  split; [exact A|]. split; [exact B|]. split; [exact C0|]. split; [|exact E].
  eapply Forall_impl; [|exact D0]. intros d. apply fd_shape_weaken. exact H.
Qed.

Lemma do_prepared_ok s dn idx t p wch cch :
  PClosed c pmd s dn -> comp s = pmd -> data_type t -> lenN p < big ->
  let cp := pmd && ewc s in
  let k := (idx, srv c, cp, lvl s) in
  match pfind k (pcache s) with
  | Some v => forall body, seg_ok cp (srv c) v [(t, cp, body)] ->
      exists s', do_prepared c s idx t p wch cch = Ok (s', eOK) /\ PClosed c pmd s' (dn ++ [(t, cp, body)])
                 /\ same_cfg s s'
  | None => zcond cp wch cch ->
      exists s' v, do_prepared c s idx t p wch cch = Ok (s', eOK)
        /\ PClosed c pmd s' (dn ++ [(t, cp, payload_of cp p wch cch)])
        /\ seg_ok cp (srv c) v [(t, cp, payload_of cp p wch cch)]
        /\ pcache s' = (k, v) :: pcache s /\ comp s' = comp s /\ ewc s' = ewc s /\ lvl s' = lvl s
  end.
Proof.
  intros (ds & HC & Ho) Hcp Ht Hp cp k.
  assert (Hd : is_data t = true) by (destruct Ht as [-> | ->]; reflexivity).
  assert (Hcpe : comp s && ewc s && is_data t = cp) by (rewrite Hcp, Hd, andb_true_r; reflexivity).
  assert (Himp : cp = true -> pmd = true) by (unfold cp; intros H; apply andb_prop in H; tauto).
  unfold do_prepared. rewrite Hcpe. fold k.
  destruct (pfind k (pcache s)) as [v|] eqn:Ef.
  - intros body Hseg. cbn [bind]. cbn [N.eqb negb].
    destruct (send_segment _ ds dn t v _ HC Ht (seg_weaken _ _ _ _ Himp Hseg)) as (w' & ds' & Hcw & HC').
    rewrite Hcw. eexists. split; [reflexivity|]. split; [|repeat split].
    exists ds'. cbn [mw st_mw wopen]. auto.
  - intros Hz. pose proof HC as (Hh & He & Hk & Hrest).
    destruct (prepared_frame_ok (srv c) cp (lvl s) t p (keys (mw s)) wch cch Ht Hp Hk Hz) as (v & ks' & Hrun & Hseg & Hk').
    rewrite Hrun. cbn [bind]. cbn [N.eqb negb].
    assert (HC1 : CInv c pmd (set_keys (mw s) ks') ds false None dn).
    { destruct Hrest as (Hw & Hrest). unfold CInv. cbn [hdr werrc keys set_keys].
      split; [exact Hh|]. split; [exact He|]. split; [exact Hk'|]. split; [exact Hw|exact Hrest]. }
    destruct (send_segment _ ds dn t v _ HC1 Ht (seg_weaken _ _ _ _ Himp Hseg)) as (w' & ds' & Hcw & HC').
    cbn [mw st_mw]. rewrite Hcw.
    eexists _, v. split; [reflexivity|]. cbn [mw st_mw wopen comp ewc lvl pcache].
    split; [exists ds'; auto|]. split; [exact Hseg|]. repeat split.
Qed.
End Prepared.

(* ================= the operation alphabet and its specification ================= *)
Inductive op :=
| ONext (t : N) (ich : list bytes)               (* NextWriter; ich: flate output of the implicit Close *)
| OWrite (p : bytes) (ch : list bytes)
| OString (p : bytes) (ch : list bytes)
| OReadFrom (p : bytes) (caps : list N) (ewd : bool) (ch : list bytes)
| OClose (cch : list bytes)
| OWriteMessage (t : N) (p : bytes) (ich wch cch : list bytes)
| OJson (enc : bytes) (ich wch cch : list bytes)
| OPrepared (idx : N) (wch cch : list bytes)
| OCtl (t : N) (p : bytes)
| OSetLevel (l : Z)
| OEnable (b : bool).

Definition run_op (c : cfg) (pms : list (N * bytes)) (s : cst) (o : op) : res (cst * N) :=
  match o with
  | ONext t ich => do_next c s t ich
  | OWrite p ch => do_write c s p ch
  | OString p ch => do_write_string c s p ch
  | OReadFrom p caps ewd ch => do_read_from c s p caps ewd ch
  | OClose cch => do_close c s cch
  | OWriteMessage t p ich wch cch => drop_handle (do_write_message c s t p ich wch cch)
  | OJson enc ich wch cch => drop_handle (do_write_json c s enc ich wch cch)
  | OPrepared idx wch cch =>
      match nth_error pms (N.to_nat idx) with
      | Some (t, p) => do_prepared c s idx t p wch cch
      | None => Ok (s, eNoHandle)
      end
  | OCtl t p => Ok (do_control c s t p)
  | OSetLevel l => if valid_level l then Ok (set_level s l, eOK) else Ok (s, eOther)
  | OEnable b => Ok (set_ewc s b, eOK)
  end.
Fixpoint run_oplist (c : cfg) (pms : list (N * bytes)) (s : cst) (os : list op) : res (cst * N) :=
  match os with
  | [] => Ok (s, eOK)
  | o :: r => let* y := run_op c pms s o in if snd y =? 0 then run_oplist c pms (fst y) r else Ok y
  end.

(* what the application is entitled to expect: pure bookkeeping, no buffers, no frames *)
Inductive sphase := SClosed | SRaw (t : N) (D : bytes) | SZip (t : N) (zs : bytes).
Record spec := mkSp { sp_ph : sphase; sp_ewc : bool; sp_lvl : Z; sp_seen : list ((N * bool * Z) * bytes) }.
Definition set_ph sp ph := mkSp ph (sp_ewc sp) (sp_lvl sp) (sp_seen sp).

Definition data_typeb (t : N) : bool := (t =? 1) || (t =? 2).
Definition ping_pongb (t : N) : bool := (t =? 9) || (t =? 10).
Definition zok (zs : bytes) : bool := (lenN zs <? big) && tail_okb zs.
Definition close_evs (ph : sphase) (ich : list bytes) : option (list event) :=
  match ph with
  | SClosed => Some []
  | SRaw t D => Some [(t, false, D)]
  | SZip t zs => if zok (zs ++ concat ich) then Some [(t, true, zbody (zs ++ concat ich))] else None
  end.
Definition skey_eqb (a b : N * bool * Z) : bool :=
  let '(i, c1, l1) := a in let '(j, c2, l2) := b in (i =? j) && Bool.eqb c1 c2 && (l1 =? l2)%Z.
Fixpoint sfind (k : N * bool * Z) (l : list ((N * bool * Z) * bytes)) : option bytes :=
  match l with [] => None | (k', v) :: t => if skey_eqb k k' then Some v else sfind k t end.
Definition msg_payload (cp : bool) (p : bytes) (wch cch : list bytes) : option bytes :=
  if cp then (if zok (concat wch ++ concat cch) then Some (zbody (concat wch ++ concat cch)) else None)
  else Some p.
Definition write_step (sp : spec) (k : N) (p : bytes) (ch : list bytes) : option (spec * list event) :=
  match sp_ph sp with
  | SRaw t D => if negb (k =? 1) || (lenN p <? big) then Some (set_ph sp (SRaw t (D ++ p)), []) else None
  | SZip t zs => if lenN (zs ++ concat ch) <? big then Some (set_ph sp (SZip t (zs ++ concat ch)), []) else None
  | SClosed => None
  end.
Definition message_step (cp : bool) (sp : spec) (t : N) (p : bytes) (ich wch cch : list bytes) :=
  if data_typeb t && (lenN p <? big) then
    match close_evs (sp_ph sp) ich, msg_payload cp p wch cch with
    | Some evs, Some pl => Some (set_ph sp SClosed, evs ++ [(t, cp, pl)])
    | _, _ => None
    end
  else None.

Definition spec_step (pmd : bool) (pms : list (N * bytes)) (sp : spec) (o : op) : option (spec * list event) :=
  let cp := pmd && sp_ewc sp in
  match o with
  | ONext t ich =>
      if data_typeb t then
        match close_evs (sp_ph sp) ich with
        | Some evs => Some (set_ph sp (if cp then SZip t [] else SRaw t []), evs)
        | None => None
        end
      else None
  | OWrite p ch => write_step sp 1 p ch
  | OString p ch => write_step sp 2 p ch
  | OReadFrom p _ _ ch => write_step sp 3 p ch
  | OClose cch =>
      match sp_ph sp with
      | SClosed => None
      | ph => match close_evs ph cch with Some evs => Some (set_ph sp SClosed, evs) | None => None end
      end
  | OWriteMessage t p ich wch cch => message_step cp sp t p ich wch cch
  | OJson enc ich wch cch => message_step cp sp opText enc ich wch cch
  | OPrepared idx wch cch =>
      match sp_ph sp, nth_error pms (N.to_nat idx) with
      | SClosed, Some (t, p) =>
          if data_typeb t && (lenN p <? big) then
            match sfind (idx, cp, sp_lvl sp) (sp_seen sp) with
            | Some body => Some (sp, [(t, cp, body)])
            | None =>
                match msg_payload cp p wch cch with
                | Some pl => Some (mkSp SClosed (sp_ewc sp) (sp_lvl sp) (((idx, cp, sp_lvl sp), pl) :: sp_seen sp),
                                   [(t, cp, pl)])
                | None => None
                end
            end
          else None
      | _, _ => None
      end
  | OCtl t p => if ping_pongb t && (lenN p <=? 125) then Some (sp, [(t, false, p)]) else None
  | OSetLevel l => if valid_level l then Some (mkSp (sp_ph sp) (sp_ewc sp) l (sp_seen sp), []) else None
  | OEnable b => Some (mkSp (sp_ph sp) b (sp_lvl sp) (sp_seen sp), [])
  end.
Fixpoint spec_run (pmd : bool) (pms : list (N * bytes)) (sp : spec) (os : list op) : option (spec * list event) :=
  match os with
  | [] => Some (sp, [])
  | o :: r => match spec_step pmd pms sp o with
              | Some (sp1, e1) => match spec_run pmd pms sp1 r with
                                  | Some (sp2, e2) => Some (sp2, e1 ++ e2) | None => None end
              | None => None
              end
  end.
Definition spec0 : spec := mkSp SClosed true websocket_defaultCompressionLevel [].

(* ================= model refines specification ================= *)
Section Refinement.
Variable c : cfg.
Variable pmd : bool.
Variable pms : list (N * bytes).
Hypothesis Hblen : 15 <= blen c < big.

Definition ph_inv (ph : sphase) (s : cst) (dn : list event) : Prop :=
  match ph with
  | SClosed => PClosed c pmd s dn
  | SRaw t D => PRaw c pmd t D s dn
  | SZip t zs => PZ c pmd t zs s dn
  end.
Definition cache_rel (cache : list ((N * bool * bool * Z) * bytes)) (seen : list ((N * bool * Z) * bytes)) : Prop :=
  forall idx cp l,
  match pfind (idx, srv c, cp, l) cache, sfind (idx, cp, l) seen with
  | Some v, Some body => exists t p, nth_error pms (N.to_nat idx) = Some (t, p) /\ seg_ok cp (srv c) v [(t, cp, body)]
  | None, None => True
  | _, _ => False
  end.
Definition GInv (s : cst) (sp : spec) (dn : list event) : Prop :=
  ewc s = sp_ewc sp /\ lvl s = sp_lvl sp /\ comp s = pmd /\ cache_rel (pcache s) (sp_seen sp)
  /\ ph_inv (sp_ph sp) s dn.

Lemma data_typeb_spec t : data_typeb t = true -> data_type t.
Proof. unfold data_typeb, data_type. intros H. apply orb_prop in H. destruct H as [H|H]; apply N.eqb_eq in H; auto. Qed.
Lemma ping_pongb_spec t : ping_pongb t = true -> ping_pong t.
Proof. unfold ping_pongb, ping_pong. intros H. apply orb_prop in H. destruct H as [H|H]; apply N.eqb_eq in H; auto. Qed.
Lemma zok_spec zs : zok zs = true -> lenN zs < big /\ tail_okb zs = true.
Proof. unfold zok. intros H. apply andb_prop in H. destruct H as [A B]. apply N.ltb_lt in A. auto. Qed.

Lemma closes_of ph s dn ich evs : ph_inv ph s dn -> close_evs ph ich = Some evs -> closes c pmd s dn ich evs.
Proof.
  destruct ph as [|t D|t zs]; cbn [ph_inv close_evs]; intros HP He.
  - inversion He. left. auto.
  - inversion He. right. left. eauto.
  - destruct (zok (zs ++ concat ich)) eqn:Ez; [|discriminate]. inversion He.
    destruct (zok_spec _ Ez) as [A B]. right. right. exists t, zs. auto.
Qed.

Lemma msg_payload_spec cp p wch cch pl : msg_payload cp p wch cch = Some pl ->
  zcond cp wch cch /\ pl = payload_of cp p wch cch.
Proof.
  unfold msg_payload, zcond, payload_of. destruct cp.
  - destruct (zok (concat wch ++ concat cch)) eqn:Ez; [|discriminate]. intros H. inversion H.
    split; [intros _; exact (zok_spec _ Ez)|reflexivity].
  - intros H. inversion H. split; [discriminate|reflexivity].
Qed.

Lemma GInv_same s s' sp dn ph' dn' : GInv s sp dn -> same_cfg s s' -> ph_inv ph' s' dn' ->
  GInv s' (set_ph sp ph') dn'.
Proof.
  intros (A & B & C0 & D0 & _) (E1 & E2 & E3 & E4) HP. unfold GInv. cbn [set_ph sp_ewc sp_lvl sp_seen sp_ph].
  rewrite E1, E2, E3, E4. auto.
Qed.

Lemma set_ph_id sp : set_ph sp (sp_ph sp) = sp.
Proof. destruct sp; reflexivity. Qed.

Lemma wopen_of ph s dn : ph_inv ph s dn -> ph <> SClosed -> wopen s = true.
Proof.
  destruct ph; cbn [ph_inv]; intros H Hn; [congruence| |].
  - destruct H as (g & _ & Ho & _). exact Ho.
  - destruct H as (g & D & _ & Ho & _). exact Ho.
Qed.

Lemma step_write s sp dn k p caps ewd ch sp' evs :
  GInv s sp dn -> write_step sp k p ch = Some (sp', evs) -> (k = 1 \/ k = 2 \/ k = 3) ->
  exists s', raw_call c s k p caps ewd ch = Ok (s', eOK) /\ GInv s' sp' (dn ++ evs).
Proof.
  intros HG Hs Hk. pose proof HG as (_ & _ & _ & _ & HP). unfold write_step in Hs.
  destruct (sp_ph sp) as [|t D|t zs] eqn:Eph; [discriminate| |]; cbn [ph_inv] in HP.
  - destruct (negb (k =? 1) || (lenN p <? big)) eqn:Ec; [|discriminate]. inversion Hs; subst sp' evs.
    destruct (raw_write_ok c pmd Hblen t D s dn k p caps ewd ch HP) as (s' & Hrun & HP' & Hsc).
    { intros ->. cbn in Ec. apply N.ltb_lt. exact Ec. }
    exists s'. split; [exact Hrun|]. rewrite app_nil_r. apply (GInv_same s s' sp dn); assumption.
  - destruct (lenN (zs ++ concat ch) <? big) eqn:Ec; [|discriminate]. inversion Hs; subst sp' evs.
    apply N.ltb_lt in Ec.
    destruct (z_write_ok c pmd Hblen t zs s dn k p caps ewd ch HP Ec) as (s' & Hrun & HP' & Hsc).
    exists s'. split; [exact Hrun|]. rewrite app_nil_r. apply (GInv_same s s' sp dn); assumption.
Qed.

Lemma step_message s sp dn t p ich wch cch sp' evs :
  GInv s sp dn -> message_step (pmd && sp_ewc sp) sp t p ich wch cch = Some (sp', evs) ->
  (exists s', do_write_message c s t p ich wch cch = Ok (s', eOK) /\ GInv s' sp' (dn ++ evs) ) /\
  (t = opText -> exists s', do_write_json c s p ich wch cch = Ok (s', eOK) /\ GInv s' sp' (dn ++ evs)).
Proof.
  intros HG Hs. pose proof HG as (He & _ & Hcp & _ & HP). unfold message_step in Hs.
  destruct (data_typeb t && (lenN p <? big)) eqn:Ec; [|discriminate].
  apply andb_prop in Ec. destruct Ec as [Et El]. apply data_typeb_spec in Et. apply N.ltb_lt in El.
  destruct (close_evs (sp_ph sp) ich) as [evs0|] eqn:Ecl; [|discriminate].
  destruct (msg_payload (pmd && sp_ewc sp) p wch cch) as [pl|] eqn:Epl; [|discriminate].
  inversion Hs; subst sp' evs.
  destruct (msg_payload_spec _ _ _ _ _ Epl) as [Hz ->].
  pose proof (closes_of _ s dn ich evs0 HP Ecl) as Hcl. rewrite <- He in *.
  split.
  - destruct (write_message_ok c pmd Hblen s dn ich evs0 t p wch cch Hcl Et El Hcp Hz) as (s' & Hrun & HP' & Hsc).
    exists s'. split; [exact Hrun|]. apply (GInv_same s s' sp dn); assumption.
  - intros ->.
    destruct (write_json_ok c pmd Hblen s dn ich evs0 p wch cch Hcl El Hcp Hz) as (s' & Hrun & HP' & Hsc).
    exists s'. split; [exact Hrun|]. apply (GInv_same s s' sp dn); assumption.
Qed.

Lemma GInv_drop s sp dn : GInv s sp dn -> sp_ph sp = SClosed ->
  GInv (st_h s (wopen s) 0 (mwclosed s) (zopen s) (tws_ s)) sp dn.
Proof.
  intros (A & B & C0 & D0 & HP) Hph. unfold GInv. cbn [ewc lvl comp pcache st_h].
  rewrite Hph in *. cbn [ph_inv] in *. destruct HP as (ds & HC & Ho).
  repeat split; try assumption. exists ds. cbn [mw st_h wopen]. auto.
Qed.

Lemma skey_pkey i cp l j cp' l' : pkey_eqb (i, srv c, cp, l) (j, srv c, cp', l') = skey_eqb (i, cp, l) (j, cp', l').
Proof. unfold pkey_eqb, skey_eqb. rewrite eqb_reflx, andb_true_r. reflexivity. Qed.

Lemma skey_eqb_eq i cp l j cp' l' : skey_eqb (i, cp, l) (j, cp', l') = true -> i = j /\ cp = cp' /\ l = l'.
Proof.
  unfold skey_eqb. intros H. apply andb_prop in H. destruct H as [H H3]. apply andb_prop in H. destruct H as [H1 H2].
  apply N.eqb_eq in H1. apply eqb_prop in H2. apply Z.eqb_eq in H3. auto.
Qed.

Theorem step_refines s sp dn o sp' evs :
  GInv s sp dn -> spec_step pmd pms sp o = Some (sp', evs) ->
  exists s', run_op c pms s o = Ok (s', eOK) /\ GInv s' sp' (dn ++ evs).
Proof.
  intros HG Hs. pose proof HG as (He & Hl & Hcp & Hcache & HP).
  destruct o as [t ich|p ch|p ch|p caps ewd ch|cch|t p ich wch cch|enc ich wch cch|idx wch cch|t p|l|b];
    cbn [spec_step run_op] in *.
  - (* NextWriter *)
    destruct (data_typeb t) eqn:Et; [|discriminate]. apply data_typeb_spec in Et.
    destruct (close_evs (sp_ph sp) ich) as [evs0|] eqn:Ecl; [|discriminate]. inversion Hs; subst sp' evs.
    destruct (do_next_ok c pmd Hblen s dn ich evs0 t (closes_of _ s dn ich evs0 HP Ecl) Et Hcp) as (s' & Hrun & Hsc & HP').
    exists s'. split; [exact Hrun|]. apply (GInv_same s s' sp dn); [exact HG|exact Hsc|].
    rewrite <- He. destruct (pmd && ewc s); exact HP'.
  - destruct (step_write s sp dn 1 p [] false ch sp' evs HG Hs (or_introl eq_refl)) as (s' & Hrun & HG').
    exists s'. auto.
  - destruct (step_write s sp dn 2 p [] false ch sp' evs HG Hs (or_intror (or_introl eq_refl))) as (s' & Hrun & HG').
    exists s'. auto.
  - destruct (step_write s sp dn 3 p caps ewd ch sp' evs HG Hs (or_intror (or_intror eq_refl))) as (s' & Hrun & HG').
    exists s'. auto.
  - (* Close *)
    destruct (sp_ph sp) as [|t D|t zs] eqn:Eph; [discriminate| |];
      (destruct (close_evs _ cch) as [evs0|] eqn:Ecl; [|discriminate]); inversion Hs; subst sp' evs.
    + assert (Ho : wopen s = true) by (apply (wopen_of (SRaw t D) s dn HP); discriminate).
      destruct (do_close_ok c pmd Hblen s dn cch evs0 (closes_of _ s dn cch evs0 HP Ecl) Ho) as (s' & Hrun & HP' & Hsc).
      exists s'. split; [exact Hrun|]. apply (GInv_same s s' sp dn); assumption.
    + assert (Ho : wopen s = true) by (apply (wopen_of (SZip t zs) s dn HP); discriminate).
      destruct (do_close_ok c pmd Hblen s dn cch evs0 (closes_of _ s dn cch evs0 HP Ecl) Ho) as (s' & Hrun & HP' & Hsc).
      exists s'. split; [exact Hrun|]. apply (GInv_same s s' sp dn); assumption.
  - (* WriteMessage *)
    destruct (step_message s sp dn t p ich wch cch sp' evs HG Hs) as [(s' & Hrun & HG') _].
    rewrite Hrun. cbn [drop_handle bind fst snd]. eexists. split; [reflexivity|].
    apply GInv_drop; [exact HG'|]. unfold message_step in Hs.
    destruct (data_typeb t && (lenN p <? big)); [|discriminate].
    destruct (close_evs (sp_ph sp) ich); [|discriminate]. destruct (msg_payload _ p wch cch); [|discriminate].
    inversion Hs. reflexivity.
  - (* WriteJSON *)
    destruct (step_message s sp dn opText enc ich wch cch sp' evs HG Hs) as [_ H]. destruct (H eq_refl) as (s' & Hrun & HG').
    rewrite Hrun. cbn [drop_handle bind fst snd]. eexists. split; [reflexivity|].
    apply GInv_drop; [exact HG'|]. unfold message_step in Hs.
    destruct (data_typeb opText && (lenN enc <? big)); [|discriminate].
    destruct (close_evs (sp_ph sp) ich); [|discriminate]. destruct (msg_payload _ enc wch cch); [|discriminate].
    inversion Hs. reflexivity.
  - (* WritePreparedMessage *)
    destruct (sp_ph sp) eqn:Eph; try discriminate. cbn [ph_inv] in HP.
    destruct (nth_error pms (N.to_nat idx)) as [[t p]|] eqn:Enth; [|discriminate].
    destruct (data_typeb t && (lenN p <? big)) eqn:Ec; [|discriminate].
    apply andb_prop in Ec. destruct Ec as [Et El]. apply data_typeb_spec in Et. apply N.ltb_lt in El.
    pose proof (do_prepared_ok c pmd s dn idx t p wch cch HP Hcp Et El) as Hprep. cbv zeta in Hprep.
    pose proof (Hcache idx (pmd && ewc s) (lvl s)) as Hrel.
    rewrite <- He, <- Hl in Hs.
    destruct (pfind (idx, srv c, pmd && ewc s, lvl s) (pcache s)) as [v|] eqn:Ef;
      destruct (sfind (idx, pmd && ewc s, lvl s) (sp_seen sp)) as [body|] eqn:Esf; try contradiction.
    + inversion Hs; subst sp' evs. destruct Hrel as (t' & p' & Hn' & Hseg). rewrite Enth in Hn'. inversion Hn'; subst t' p'.
      destruct (Hprep body Hseg) as (s' & Hrun & HP' & Hsc).
      exists s'. split; [exact Hrun|]. rewrite <- (set_ph_id sp). apply (GInv_same s s' sp dn); [exact HG|exact Hsc|].
      rewrite Eph. exact HP'.
    + destruct (msg_payload (pmd && ewc s) p wch cch) as [pl|] eqn:Epl; [|discriminate].
      inversion Hs; subst sp' evs. destruct (msg_payload_spec _ _ _ _ _ Epl) as [Hz ->].
      destruct (Hprep Hz) as (s' & v & Hrun & HP' & Hseg & Hpc & A & B & C0).
      exists s'. split; [exact Hrun|]. unfold GInv. cbn [sp_ewc sp_lvl sp_seen sp_ph ph_inv].
      rewrite A, B, C0, Hpc. repeat split; try assumption.
      intros i' cp' l'. cbn [pfind sfind]. rewrite skey_pkey.
      destruct (skey_eqb (i', cp', l') (idx, pmd && ewc s, lvl s)) eqn:Ek; [|exact (Hcache i' cp' l')].
      destruct (skey_eqb_eq _ _ _ _ _ _ Ek) as (-> & -> & ->). exists t, p. auto.
  - (* WriteControl *)
    destruct (ping_pongb t && (lenN p <=? 125)) eqn:Ec; [|discriminate]. inversion Hs; subst sp' evs.
    apply andb_prop in Ec. destruct Ec as [Et El]. apply ping_pongb_spec in Et. apply N.leb_le in El.
    rewrite <- (set_ph_id sp).
    destruct (sp_ph sp) as [|t0 D|t0 zs] eqn:Eph; cbn [ph_inv] in HP.
    + destruct (ctl_closed c pmd s dn t p HP Et El) as (s' & Hrun & HP' & Hsc). rewrite Hrun.
      exists s'. split; [reflexivity|]. apply (GInv_same s s' sp dn); assumption.
    + destruct (ctl_raw c pmd t0 D s dn t p HP Et El) as (s' & Hrun & HP' & Hsc). rewrite Hrun.
      exists s'. split; [reflexivity|]. apply (GInv_same s s' sp dn); assumption.
    + destruct (ctl_z c pmd t0 zs s dn t p HP Et El) as (s' & Hrun & HP' & Hsc). rewrite Hrun.
      exists s'. split; [reflexivity|]. apply (GInv_same s s' sp dn); assumption.
  - (* SetCompressionLevel *)
    destruct (valid_level l); [|discriminate]. inversion Hs; subst sp' evs.
    eexists. split; [reflexivity|]. rewrite app_nil_r. unfold GInv. cbn [ewc lvl comp pcache set_level sp_ewc sp_lvl sp_seen sp_ph].
    repeat split; try assumption.
  - (* EnableWriteCompression *)
    inversion Hs; subst sp' evs.
    eexists. split; [reflexivity|]. rewrite app_nil_r. unfold GInv. cbn [ewc lvl comp pcache set_ewc sp_ewc sp_lvl sp_seen sp_ph].
    repeat split; try assumption.
Qed.

Theorem run_refines : forall os s sp dn sp' evs,
  GInv s sp dn -> spec_run pmd pms sp os = Some (sp', evs) ->
  exists s', run_oplist c pms s os = Ok (s', eOK) /\ GInv s' sp' (dn ++ evs).
Proof.
  induction os as [|o os IH]; intros s sp dn sp' evs HG Hs; cbn [spec_run run_oplist] in *.
  - inversion Hs; subst sp' evs. exists s. rewrite app_nil_r. auto.
  - destruct (spec_step pmd pms sp o) as [[sp1 e1]|] eqn:E1; [|discriminate].
    destruct (spec_run pmd pms sp1 os) as [[sp2 e2]|] eqn:E2; [|discriminate]. inversion Hs; subst sp' evs.
    destruct (step_refines s sp dn o sp1 e1 HG E1) as (s1 & Hrun & HG1).
    destruct (IH s1 sp1 _ sp2 e2 HG1 E2) as (s' & Hrun' & HG').
    exists s'. rewrite Hrun. cbn [bind fst snd N.eqb]. rewrite Hrun', app_assoc. auto.
Qed.
End Refinement.

Lemma data_event_op op (z : bool) (pl : bytes) : data_event (op, z, pl) = negb (op_control op).
Proof. reflexivity. Qed.

(* the data messages are the event list without the control frames *)
Lemma reassemble_events : forall fs cur,
  (forall ty z acc, cur = Some (ty, z, acc) -> op_control ty = false) ->
  reassemble cur fs = option_map (filter data_event) (events_from cur fs).
Proof.
  induction fs as [|f fs IH]; intros cur Hcur; cbn [reassemble events_from].
  - destruct cur; reflexivity.
  - destruct (op_control (pf_op f)) eqn:Ec.
    + rewrite (IH cur Hcur). destruct (events_from cur fs); [|reflexivity].
      cbn [option_map filter]. rewrite data_event_op, Ec. reflexivity.
    + destruct (pf_op f =? 0).
      * destruct cur as [[[ty z] acc]|]; [|reflexivity].
        pose proof (Hcur ty z acc eq_refl) as Hty.
        destruct (pf_fin f).
        -- rewrite (IH None) by discriminate. destruct (events_from None fs); [|reflexivity].
           cbn [option_map filter]. rewrite data_event_op, Hty. reflexivity.
        -- apply IH. intros ty' z' acc' H. inversion H; subst. exact Hty.
      * destruct cur; [reflexivity|].
        destruct (pf_fin f).
        -- rewrite (IH None) by discriminate. destruct (events_from None fs); [|reflexivity].
           cbn [option_map filter]. rewrite data_event_op, Ec. reflexivity.
        -- apply IH. intros ty' z' acc' H. inversion H; subst. exact Ec.
Qed.

Lemma PClosed_final c pmd s dn : PClosed c pmd s dn ->
  exists fs, rfc_parse (wire_of s) = Some fs /\ rfc_valid (srv c) pmd fs = true /\
             events fs = Some dn /\ messages fs = Some (filter data_event dn).
Proof.
  intros (ds & (Hh & He & Hk & Hw & Hok & Hsh & Htl) & _).
  exists (map (abs_fd (srv c)) ds). rewrite wire_of_spec, Hw.
  split; [apply rfc_parse_enc; exact Hok|].
  destruct (Htl []) as [A B]. rewrite app_nil_r in A, B.
  assert (Hev : events (map (abs_fd (srv c)) ds) = Some dn).
  { unfold events. rewrite B. cbn. rewrite app_nil_r. reflexivity. }
  split; [|split; [exact Hev|]].
  - unfold rfc_valid. rewrite A. cbn [seq_ok negb]. rewrite andb_true_r.
    apply forallb_forall. intros f Hf. apply in_map_iff in Hf. destruct Hf as (d & <- & Hd).
    rewrite Forall_forall in Hok, Hsh. apply frame_ok_abs; auto.
  - unfold messages. rewrite reassemble_events by discriminate. fold (events (map (abs_fd (srv c)) ds)).
    rewrite Hev. reflexivity.
Qed.

Lemma GInv_init c pmd pms ks : Forall (fun k : bytes => length k = 4%nat) ks ->
  GInv c pmd pms (init_cst pmd ks) spec0 [].
Proof.
  intros Hk. unfold GInv, init_cst, cst0, spec0. cbn [ewc lvl comp pcache sp_ewc sp_lvl sp_seen sp_ph ph_inv].
  split; [reflexivity|]. split; [reflexivity|]. split; [reflexivity|].
  split; [intros idx cp l; exact I|].
  exists []. split; [|reflexivity]. unfold CInv. cbn [mw mws0 hdr werrc keys].
  split; [reflexivity|]. split; [split; reflexivity|]. split; [exact Hk|].
  split; [reflexivity|]. split; [constructor|]. split; [constructor|]. exact tail_ok_nil.
Qed.

(* every session the specification admits, on every connection *)
Theorem wire_valid_ops c pmd pms ks os sp' evs :
  15 <= blen c < big -> Forall (fun k : bytes => length k = 4%nat) ks ->
  spec_run pmd pms spec0 os = Some (sp', evs) -> sp_ph sp' = SClosed ->
  exists s', run_oplist c pms (init_cst pmd ks) os = Ok (s', eOK) /\
  exists fs, rfc_parse (wire_of s') = Some fs /\ rfc_valid (srv c) pmd fs = true /\
             events fs = Some evs /\ messages fs = Some (filter data_event evs).
Proof.
  intros Hb Hk Hs Hph.
  destruct (run_refines c pmd pms Hb os _ spec0 [] sp' evs (GInv_init c pmd pms ks Hk) Hs) as (s' & Hrun & HG).
  exists s'. split; [exact Hrun|]. destruct HG as (_ & _ & _ & _ & HP). rewrite Hph in HP. cbn [ph_inv app] in HP.
  exact (PClosed_final c pmd s' evs HP).
Qed.

(* the operations are the harness's: step_op on the s-expression of an operation *)
Definition sx_ch (l : list bytes) : sx := SL (map SB l).
Lemma sx_chunks_ch l : sx_chunks (map SB l) = l.
Proof. induction l as [|x l IH]; cbn; [reflexivity|rewrite IH; reflexivity]. Qed.
Lemma sx_ns_map l : sx_ns (map sN l) = l.
Proof. induction l as [|x l IH]; cbn [map sx_ns sN]; [reflexivity|rewrite IH, N2Z.id; reflexivity]. Qed.
Definition sx_of_op (o : op) : sx :=
  match o with
  | ONext t ich => SL [SZ 0; sN t; sx_ch ich]
  | OWrite p ch => SL [SZ 1; SB p; sx_ch ch]
  | OString p ch => SL [SZ 2; SB p; sx_ch ch]
  | OReadFrom p caps ewd ch => SL [SZ 3; SB p; SL (map sN caps); sbool ewd; sx_ch ch]
  | OClose cch => SL [SZ 4; sx_ch cch]
  | OWriteMessage t p ich wch cch => SL [SZ 5; sN t; SB p; sx_ch ich; sx_ch wch; sx_ch cch]
  | OJson enc ich wch cch => SL [SZ 7; SB enc; sx_ch ich; sx_ch wch; sx_ch cch]
  | OPrepared idx wch cch => SL [SZ 6; sN idx; sx_ch wch; sx_ch cch]
  | OCtl t p => SL [SZ 8; sN t; SB p]
  | OSetLevel l => SL [SZ 9; SZ l]
  | OEnable b => SL [SZ 10; sbool b]
  end.
Lemma run_op_is_step_op c pms s o : step_op c pms s (sx_of_op o) = run_op c pms s o.
Proof.
  destruct o; cbn [sx_of_op step_op run_op sx_ch sx_data sN]; rewrite ?sx_chunks_ch, ?N2Z.id, ?sx_ns_map; try reflexivity.
  - destruct ewd; reflexivity.
  - replace (Z.to_nat (Z.of_N idx)) with (N.to_nat idx) by lia. reflexivity.
  - destruct b; reflexivity.
Qed.

Example ops_instance :
  let c := mkC false (16 + 14) in
  let os := [ONext 2 []; OWrite [1;2;3] []; OCtl 9 [7];            (* left open ... *)
             OWriteMessage 1 (repeat 65 40) [] [] [];               (* ... closed by prepWrite *)
             OEnable false; OJson [91;93;10] [] [] []; OPrepared 0 [] []; OPrepared 0 [] []; OCtl 10 []] in
  match spec_run false [(1, [104;105])] spec0 os with
  | Some (sp', evs) =>
      sp_ph sp' = SClosed /\
      evs = [(9, false, [7]); (2, false, [1;2;3]); (1, false, repeat 65 40); (1, false, [91;93;10]);
             (1, false, [104;105]); (1, false, [104;105]); (10, false, [])] /\
      match run_oplist c [(1, [104;105])] (init_cst false [[1;2;3;4]]) os with
      | Ok (s', e) => e = 0 /\ option_map (fun fs => events fs) (rfc_parse (wire_of s')) = Some (Some evs)
      | _ => False
      end
  | None => False
  end.
Proof. vm_compute. repeat split; reflexivity. Qed.
