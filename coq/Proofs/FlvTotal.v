(* Totality of the FLV decoders: no Panic for any well-formed byte input (C07 imports these),
   and the read loop always returns with fuel above the number of bytes delivered. *)
From Verif Require Import Lib.Base Lib.Sx Model.Flv Proofs.Flv.
Open Scope N_scope.
Ltac Zify.zify_post_hook ::= Z.div_mod_to_equations.

(* a stream is well formed when the data it delivers (before its end or first fault) are bytes *)
Definition wf_stream (s : stream) : Prop := wf_bytes (fst (flat s)).

Lemma Forall_firstn_ {A} (P : A -> Prop) n (l : list A) : Forall P l -> Forall P (firstn n l).
Proof. intros H. rewrite <- (firstn_skipn n l) in H. now apply Forall_app in H. Qed.
Lemma Forall_skipn_ {A} (P : A -> Prop) n (l : list A) : Forall P l -> Forall P (skipn n l).
Proof. intros H. rewrite <- (firstn_skipn n l) in H. now apply Forall_app in H. Qed.

Lemma read_via_cases {A} (parse : bytes -> res A) s n d t : flat s = (d, t) ->
  (exists s', n <= lenN d /\ flat s' = (skipn (N.to_nat n) d, t) /\
              read_via n parse s = (let* v := parse (firstn (N.to_nat n) d) in Ok (v, s')))
  \/ read_via n parse s = Err t.
Proof.
  intros Hf. unfold read_via.
  destruct (copy_n_cases s n d t Hf) as [(s' & C & F & L)|[C L]]; rewrite C; cbn [bind].
  - left. exists s'. auto.
  - right. reflexivity.
Qed.

Lemma length_firstn_N n (d : bytes) : n <= lenN d -> length (firstn (N.to_nat n) d) = N.to_nat n.
Proof. intros H. rewrite lenN_length in H. rewrite firstn_length. lia. Qed.

(* ---- the three parsers on buffers of the length io.CopyN delivered ---- *)
Lemma parse_header_total p : length p = 13%nat -> forall x, parse_header p <> Panic x.
Proof.
  intros Hl x. do 13 (destruct p as [|? p]; [discriminate|]). destruct p; [|discriminate].
  unfold parse_header. cbn [slice_to take bind idx nth_error].
  destruct (negb _); discriminate.
Qed.

Lemma parse_tag_header_ok p : length p = 11%nat -> wf_bytes p ->
  exists ty sz ts, parse_tag_header p = Ok (ty, sz, ts) /\ sz < 16777216.
Proof.
  intros Hl Hw. do 11 (destruct p as [|? p]; [discriminate|]). destruct p; [|discriminate].
  unfold parse_tag_header. cbn [bind idx nth_error].
  do 3 eexists. split; [reflexivity|].
  unfold wf_bytes in Hw.
  repeat match goal with H : Forall _ (_ :: _) |- _ => inversion H; clear H; subst end.
  unfold wf_byte in *. unfold ube3. lia.
Qed.

Lemma strip_pts_total p : 4 <= lenN p -> exists a, strip_pts p = Ok a.
Proof.
  intros H. unfold strip_pts.
  destruct (N.ltb_spec (lenN p) 4) as [H'|_]; [lia|].
  unfold takeN. rewrite take_firstn by (rewrite lenN_length; lia). eauto.
Qed.

Lemma strip_pts_short p : lenN p < 4 -> strip_pts p = Panic 12.
Proof.
  intros H. unfold strip_pts. destruct (N.ltb_spec (lenN p) 4) as [_|H']; [reflexivity|lia].
Qed.

(* ---- single calls ---- *)
Theorem read_header_total s x : read_header s <> Panic x.
Proof.
  unfold read_header. destruct (flat s) as [d t] eqn:Hf.
  destruct (read_via_cases parse_header s 13 d t Hf) as [(s' & L & F & R)|R]; rewrite R; [|discriminate].
  pose proof (parse_header_total (firstn (N.to_nat 13) d) (length_firstn_N 13 d L)) as Hp.
  destruct (parse_header _) as [v|e|y]; cbn [bind]; try discriminate. exfalso. now apply (Hp y).
Qed.

Theorem read_tag_header_total s x : wf_stream s -> read_tag_header s <> Panic x.
Proof.
  intros Hw. unfold read_tag_header, wf_stream in *. destruct (flat s) as [d t] eqn:Hf. cbn [fst] in Hw.
  destruct (read_via_cases parse_tag_header s 11 d t Hf) as [(s' & L & F & R)|R]; rewrite R; [|discriminate].
  destruct (parse_tag_header_ok (firstn (N.to_nat 11) d) (length_firstn_N 11 d L)
              (Forall_firstn_ _ _ _ Hw)) as (ty & sz & ts & Hp & _).
  rewrite Hp. discriminate.
Qed.

(* ReadTag(n) never panics while n + 4 does not wrap the uint32 *)
Theorem read_tag_total n s x : n + 4 < 4294967296 -> read_tag n s <> Panic x.
Proof.
  intros Hn. unfold read_tag. destruct (flat s) as [d t] eqn:Hf.
  destruct (read_via_cases strip_pts s (u32 (n + 4)) d t Hf) as [(s' & L & F & R)|R]; rewrite R; [|discriminate].
  destruct (strip_pts_total (firstn (N.to_nat (u32 (n + 4))) d)) as (a & Ha).
  { rewrite lenN_length, (length_firstn_N _ d L). unfold u32. lia. }
  rewrite Ha. discriminate.
Qed.

(* ... and the documented boundary: n >= 2^32 - 4 makes the uint32 addition wrap to 0..3; with
   that many bytes available the slice expression p[0:len(p)-4] panics, otherwise the read
   fails with the stream's own error *)
Theorem read_tag_wrap n s d t : 4294967292 <= n < 4294967296 -> flat s = (d, t) ->
  (u32 (n + 4) <= lenN d -> read_tag n s = Panic 12) /\
  (lenN d < u32 (n + 4) -> read_tag n s = Err t).
Proof.
  intros Hn Hf. unfold read_tag. split; intros Hl.
  - destruct (read_via_cases strip_pts s (u32 (n + 4)) d t Hf) as [(s' & L & F & R)|R].
    + rewrite R. rewrite strip_pts_short; [reflexivity|].
      rewrite lenN_length, (length_firstn_N _ d L). unfold u32. lia.
    + unfold read_via in *. destruct (copy_n_cases s (u32 (n + 4)) d t Hf) as [(s' & C & F & L)|[C L]]; [|lia].
      rewrite C in R. cbn [bind] in R. rewrite strip_pts_short in R; [discriminate|].
      rewrite lenN_length, (length_firstn_N _ d L). unfold u32. lia.
  - now apply (read_via_short strip_pts s _ d t).
Qed.

(* the sizes ReadTagHeader returns never reach that boundary *)
Theorem read_tag_header_size s ty sz ts s' : wf_stream s ->
  read_tag_header s = Ok ((ty, sz, ts), s') -> sz < 16777216 /\ wf_stream s'.
Proof.
  intros Hw H. unfold read_tag_header, wf_stream in *. destruct (flat s) as [d t] eqn:Hf. cbn [fst] in Hw.
  destruct (read_via_cases parse_tag_header s 11 d t Hf) as [(s1 & L & F & R)|R]; rewrite R in H; [|discriminate].
  destruct (parse_tag_header_ok (firstn (N.to_nat 11) d) (length_firstn_N 11 d L)
              (Forall_firstn_ _ _ _ Hw)) as (ty' & sz' & ts' & Hp & Hsz).
  rewrite Hp in H. cbn [bind] in H. inversion H; subst. split; [exact Hsz|].
  rewrite F. cbn [fst]. now apply Forall_skipn_.
Qed.

(* ---- the whole read loop ---- *)
Lemma read_tags_total fuel : forall s acc x, wf_stream s -> read_tags fuel s acc <> Panic x.
Proof.
  induction fuel as [|f IH]; intros s acc x Hw; [discriminate|].
  cbn [read_tags].
  pose proof (read_tag_header_total s) as Hth.
  destruct (read_tag_header s) as [[[[ty sz] ts] s1]|e|y] eqn:H1; [|discriminate|exfalso; now apply (Hth y)].
  destruct (read_tag_header_size s ty sz ts s1 Hw H1) as [Hsz Hw1].
  pose proof (read_tag_total sz s1) as Htt.
  destruct (read_tag sz s1) as [[b s2]|e|y] eqn:H2; [|discriminate|exfalso; apply (Htt y); [lia|reflexivity]].
  apply IH.
  (* the remainder is still well formed *)
  unfold read_tag, wf_stream in *. destruct (flat s1) as [d1 t1] eqn:Hf1. cbn [fst] in Hw1.
  destruct (read_via_cases strip_pts s1 (u32 (sz + 4)) d1 t1 Hf1) as [(s' & L & F & R)|R]; rewrite R in H2; [|discriminate].
  destruct (strip_pts _); cbn [bind] in H2; try discriminate. inversion H2; subst.
  rewrite F. cbn [fst]. now apply Forall_skipn_.
Qed.

Theorem demux_total fuel s x : wf_stream s -> demux fuel s <> Panic x.
Proof.
  intros Hw. unfold demux.
  pose proof (read_header_total s) as Hh.
  destruct (read_header s) as [[h s1]|e|y] eqn:H1; cbn [bind]; [|discriminate|exfalso; now apply (Hh y)].
  assert (Hw1 : wf_stream s1).
  { unfold read_header, wf_stream in *. destruct (flat s) as [d t] eqn:Hf. cbn [fst] in Hw.
    destruct (read_via_cases parse_header s 13 d t Hf) as [(s' & L & F & R)|R]; rewrite R in H1; [|discriminate].
    destruct (parse_header _); cbn [bind] in H1; try discriminate. inversion H1; subst.
    rewrite F. cbn [fst]. now apply Forall_skipn_. }
  pose proof (read_tags_total fuel s1 [] x Hw1) as Ht.
  destruct (read_tags fuel s1 []) as [[tags e]|e|y]; cbn [bind]; try discriminate.
  intros Heq. inversion Heq; subst. now apply Ht.
Qed.

(* ---- "always returns": the loop needs at most one round per 15 bytes delivered ---- *)
Lemma read_tags_fuel fuel : forall s acc e,
  (length (fst (flat s)) < fuel)%nat -> read_tags fuel s acc <> Err e.
Proof.
  induction fuel as [|f IH]; intros s acc e Hl; [lia|].
  cbn [read_tags]. unfold read_tag_header, read_tag.
  destruct (flat s) as [d t] eqn:Hf. cbn [fst] in Hl.
  destruct (read_via_cases parse_tag_header s 11 d t Hf) as [(s1 & L & F & R)|R]; rewrite R; [|discriminate].
  destruct (parse_tag_header _) as [[[ty sz] ts]|e1|y]; cbn [bind]; try discriminate.
  destruct (read_via_cases strip_pts s1 (u32 (sz + 4)) _ t F) as [(s2 & L2 & F2 & R2)|R2]; rewrite R2; [|discriminate].
  destruct (strip_pts _) as [b|e2|y]; cbn [bind]; try discriminate.
  apply IH. rewrite F2. cbn [fst]. rewrite !skipn_length. rewrite lenN_length in L. lia.
Qed.

(* names under which the C07 kit imports the totality results *)
Theorem flv_demux_total fuel s x : wf_stream s -> demux fuel s <> Panic x.
Proof. apply demux_total. Qed.
Theorem flv_read_header_total s x : wf_stream s -> read_header s <> Panic x.
Proof. intros _. apply read_header_total. Qed.
Theorem flv_read_tag_header_total s x : wf_stream s -> read_tag_header s <> Panic x.
Proof. apply read_tag_header_total. Qed.
Theorem flv_read_tag_total n s x : wf_stream s -> n + 4 < 4294967296 -> read_tag n s <> Panic x.
Proof. intros _. apply read_tag_total. Qed.

(* a stream made of one data segment holding bytes is well formed *)
Lemma wf_stream_data b : wf_bytes b -> wf_stream [Data b] /\ forall e, wf_stream [Data b; Fault e].
Proof.
  intros Hb. unfold wf_stream. cbn. rewrite app_nil_r. auto.
Qed.
