(* Step-counting cost of AMF0 decoding (for C07: "time grows no faster than linearly").

   The container decoder (objectBase.unmarshal, amf0.go pushOne) advances with
   `p = p[a.Size():]`, and Size() of a container walks its whole subtree again.  Decoding a value
   therefore performs, for every container node, one full Size() walk of each of its children
   on top of decoding them.  [size_steps v] counts the Size() method invocations of one
   v.Size() call, [dec_steps v] the method invocations (UnmarshalBinary + Size) of decoding the
   bytes of v; [cost_amf0 bs] is that number for the value the byte string decodes to.
   On the family obj{a: obj{a: ... obj{}}} of depth d (7d+4 bytes) the cost is (d+1)^2. *)
From Verif Require Import Lib.Base Lib.Sx Model.Amf0 Proofs.Amf0.
Open Scope N_scope.

Fixpoint size_steps (v : amf) : N :=
  match v with
  | AObj ps | AEcma _ ps | AStrict ps =>
      1 + (fix go (ps : props) : N :=
             match ps with [] => 0 | (_, x) :: t => 1 + size_steps x + go t end) ps
  | _ => 1
  end.

Fixpoint dec_steps (v : amf) : N :=
  match v with
  | AObj ps | AEcma _ ps | AStrict ps =>
      1 + (fix go (ps : props) : N :=
             match ps with
             | [] => 0
             | (_, x) :: t => 1 + dec_steps x + size_steps x + go t   (* readOne, Unmarshal, a.Size() *)
             end) ps
  | _ => 1
  end.

Definition cost_amf0 (bs : bytes) : N :=
  match decode bs with Ok (v, _) => dec_steps v | _ => 0 end.

(* the witness family: (03 00 01 61)^d 03 (00 00 09)^(d+1) *)
Fixpoint chain (d : nat) : amf :=
  match d with O => AObj [] | S d' => AObj [([97], chain d')] end.

Lemma chain_wf d : wf_amf (chain d).
Proof.
  unfold wf_amf. induction d as [|d IH]; [reflexivity|].
  cbn [chain]. rewrite wf_obj. cbn [wf_propsb]. rewrite IH. reflexivity.
Qed.

Lemma chain_size d : size (chain d) = 7 * N.of_nat d + 4.
Proof.
  induction d as [|d IH]; [reflexivity|].
  cbn [chain]. rewrite size_obj. cbn [size_props]. rewrite IH.
  change (utf8_size [97]) with 3. lia.
Qed.

Lemma chain_size_steps d : size_steps (chain d) = 2 * N.of_nat d + 1.
Proof.
  induction d as [|d IH]; [reflexivity|].
  change (size_steps (chain (S d))) with (1 + (1 + size_steps (chain d) + 0)). rewrite IH. lia.
Qed.

Lemma chain_dec_steps d : dec_steps (chain d) = (N.of_nat d + 1) * (N.of_nat d + 1).
Proof.
  induction d as [|d IH]; [reflexivity|].
  change (dec_steps (chain (S d))) with (1 + (1 + dec_steps (chain d) + size_steps (chain d) + 0)).
  rewrite IH, chain_size_steps. nia.
Qed.

Lemma chain_cost d : cost_amf0 (enc (chain d)) = (N.of_nat d + 1) * (N.of_nat d + 1).
Proof.
  unfold cost_amf0, decode, dec_fuel.
  rewrite <- (app_nil_r (enc (chain d))) at 2.
  rewrite amf0_dec_enc by (try apply chain_wf; lia). apply chain_dec_steps.
Qed.

(* no linear bound: for every slope k there is a well-formed input whose decoding cost exceeds
   k times its length *)
Theorem amf0_cost_quadratic_refuted :
  forall k : N, exists bs, wf_bytes bs /\ cost_amf0 bs > k * lenN bs.
Proof.
  intros k. exists (enc (chain (N.to_nat (7 * k + 7)))). split.
  - apply amf0_enc_wf_bytes, chain_wf.
  - rewrite chain_cost, amf0_size_enc, chain_size, N2Nat.id. nia.
Qed.

(* flat containers are linear: a container of scalars costs 3 steps per property + 1 *)
Example cost_flat :
  cost_amf0 (enc (AObj [([97], ANull); ([98], ANum 0); ([99], AStr [1;2;3])])) = 10.
Proof. vm_compute. reflexivity. Qed.
