(* Proofs about DecodeMessage / parseAMFObject, the transaction table and the typed waits of
   Model/RtmpPacket.v (C03). *)
From Verif Require Import Lib.Base Lib.Sx Model.Amf0 Proofs.Amf0 Model.RtmpPacket Proofs.RtmpPacket.
Open Scope N_scope.

(* ------------------------------------------------------------------ parseAMFObject on a command *)
(* the command-name switch and the lookup, for any payload that starts with a (representable)
   command name and transaction id *)
Definition parse_spec (t : tx) (name : bytes) (tid : N) : res pkt * tx :=
  if bytes_eqb name cResult || bytes_eqb name cError then
    match tx_get t tid with
    | None => (Err 5, t)
    | Some rn =>
        if bytes_eqb rn cConnect then (Ok (new_connect_res tid), tx_del t tid)
        else if bytes_eqb rn cCreateStream then (Ok (new_create_stream_res tid), tx_del t tid)
        else (Err 6, tx_del t tid)
    end
  else if bytes_eqb name cConnect then (Ok new_connect, t)
  else if bytes_eqb name cCreateStream then (Ok new_create_stream, t)
  else if bytes_eqb name cPlay then (Ok new_play, t)
  else if bytes_eqb name cPublish then (Ok new_publish, t)
  else (Ok new_call, t).

Lemma parse_amf_hdr t name tid rest :
  wf_strb name = true -> tid < 18446744073709551616 ->
  parse_amf_object t (enc_hdr name tid ++ rest) = parse_spec t name tid.
Proof.
  intros Hn Ht. unfold parse_amf_object, parse_spec, enc_hdr. rewrite <- !app_assoc.
  rewrite um_string_enc by exact Hn. rewrite step_ok. cbn [amf_str].
  destruct (bytes_eqb name cResult || bytes_eqb name cError); [|reflexivity].
  rewrite drop_app by (symmetry; apply amf0_size_enc).
  rewrite um_number_enc by exact Ht. rewrite step_ok. cbn [amf_num].
  destruct (tx_get t tid); reflexivity.
Qed.

Lemma amf_type_cases mt : is_amf_type mt = true ->
  mt = mtAMF0Command \/ mt = mtAMF3Command \/ mt = mtAMF0Data \/ mt = mtAMF3Data.
Proof.
  unfold is_amf_type. rewrite !orb_true_iff, !N.eqb_eq. tauto.
Qed.

(* DecodeMessage on a command/data message whose body (after the AMF3 format byte) is [body] *)
Lemma decode_message_amf t mt body : is_amf_type mt = true -> body <> [] ->
  decode_message t mt (carried mt body) =
  match parse_amf_object t body with
  | (Ok r, t') => (unmarshal r body, t')
  | other => other
  end.
Proof.
  intros Hmt Hb. destruct body as [|x tl]; [contradiction|].
  Opaque parse_amf_object unmarshal.
  destruct (amf_type_cases mt Hmt) as [ -> | [ -> | [ -> | -> ] ] ]; cbn;
    destruct (parse_amf_object t (x :: tl)) as [[r|e|s] t']; reflexivity.
  Transparent parse_amf_object unmarshal.
Qed.

Lemma enc_hdr_cons name tid rest : enc_hdr name tid ++ rest <> [].
Proof. unfold enc_hdr. cbn [enc]. discriminate. Qed.

(* ------------------------------------------------------------------ c03_dispatch *)
(* a command packet that is not a response and carries the name the protocol gives its type *)
Definition not_dispatch_name (n : bytes) : bool :=
  negb (bytes_eqb n cResult || bytes_eqb n cError || bytes_eqb n cConnect
        || bytes_eqb n cCreateStream || bytes_eqb n cPlay || bytes_eqb n cPublish).

Definition request_like (p : pkt) : bool :=
  match p with
  | PConnect n _ _ _ => bytes_eqb n cConnect
  | PCreateStream n _ _ => bytes_eqb n cCreateStream
  | PPublish n _ _ _ _ => bytes_eqb n cPublish
  | PPlay n _ _ _ => bytes_eqb n cPlay
  | PCall n _ _ _ => not_dispatch_name n
  | _ => false
  end.

Definition is_control (p : pkt) : bool :=
  match p with
  | PSetChunkSize _ | PWinAck _ | PSetPeerBw _ _ | PUserControl _ _ _ => true
  | _ => false
  end.

(* name and transaction id of a command packet *)
Definition cmd_name (p : pkt) : bytes :=
  match p with
  | PConnect n _ _ _ | PConnectRes n _ _ _ | PCall n _ _ _ | PCreateStream n _ _
  | PCreateStreamRes n _ _ _ | PPublish n _ _ _ _ | PPlay n _ _ _ => n
  | _ => []
  end.
Definition cmd_tid (p : pkt) : N :=
  match p with
  | PConnect _ t _ _ | PConnectRes _ t _ _ | PCall _ t _ _ | PCreateStream _ t _
  | PCreateStreamRes _ t _ _ | PPublish _ t _ _ _ | PPlay _ t _ _ => t
  | _ => 0
  end.

Lemma marshal_cmd p : is_control p = false ->
  exists rest, marshal p = enc_hdr (cmd_name p) (cmd_tid p) ++ rest.
Proof.
  destruct p; cbn [is_control]; intros H; try discriminate; cbn [marshal cmd_name cmd_tid];
    unfold enc_variant; rewrite <- ?app_assoc; eauto.
Qed.

Lemma wf_cmd p : wf_pkt p = true -> is_control p = false ->
  wf_strb (cmd_name p) = true /\ cmd_tid p < 18446744073709551616.
Proof.
  destruct p; cbn [wf_pkt is_control cmd_name cmd_tid]; intros H Hc; try discriminate;
    rewrite ?andb_true_iff in H.
  - destruct H as [[[Hn Ht] _] _]. apply bytes_eqb_eq in Hn. apply N.eqb_eq in Ht. subst.
    split; [reflexivity|unfold f_one; lia].
  - destruct H as [[[Hn Ht] _] _]. apply bytes_eqb_eq in Hn. apply N.ltb_lt in Ht. subst.
    split; [reflexivity|exact Ht].
  - destruct H as [[[[Hn Ht] _] _] _]. apply N.ltb_lt in Ht. auto.
  - destruct H as [[Hn Ht] _]. apply N.ltb_lt in Ht. auto.
  - destruct H as [[[[Hn Ht] _] _] _]. apply N.ltb_lt in Ht. auto.
  - destruct H as [[[[[Hn Ht] _] _] _] _]. apply N.ltb_lt in Ht. auto.
  - destruct H as [[[[Hn Ht] _] _] _]. apply N.ltb_lt in Ht. auto.
Qed.

Lemma decode_cmd t mt p : wf_pkt p = true -> is_control p = false -> is_amf_type mt = true ->
  decode_message t mt (carried mt (marshal p)) =
  match parse_spec t (cmd_name p) (cmd_tid p) with
  | (Ok r, t') => (unmarshal r (marshal p), t')
  | other => other
  end.
Proof.
  intros Hwf Hc Hmt. destruct (marshal_cmd p Hc) as (rest & E).
  destruct (wf_cmd p Hwf Hc) as [Hn Ht].
  rewrite decode_message_amf; [|exact Hmt|rewrite E; apply enc_hdr_cons].
  rewrite E at 1. rewrite parse_amf_hdr by assumption. reflexivity.
Qed.

Lemma parse_spec_request t p : request_like p = true ->
  parse_spec t (cmd_name p) (cmd_tid p) = (Ok (receiver_for p), t).
Proof.
  destruct p; cbn [request_like cmd_name cmd_tid receiver_for]; intros H; try discriminate.
  - apply bytes_eqb_eq in H. subst. reflexivity.
  - unfold not_dispatch_name in H. apply negb_true_iff in H.
    rewrite !orb_false_iff in H. destruct H as [[[[[H1 H2] H3] H4] H5] H6].
    unfold parse_spec. rewrite H1, H2, H3, H4, H5, H6. reflexivity.
  - apply bytes_eqb_eq in H. subst. reflexivity.
  - apply bytes_eqb_eq in H. subst. reflexivity.
  - apply bytes_eqb_eq in H. subst. reflexivity.
Qed.

(* requests and generic calls: any table, any of the four command/data carriers *)
Theorem dispatch_request t mt p :
  wf_pkt p = true -> request_like p = true -> is_amf_type mt = true ->
  decode_message t mt (carried mt (marshal p)) = (Ok p, t).
Proof.
  intros Hwf Hr Hmt.
  assert (Hc : is_control p = false) by (destruct p; try reflexivity; discriminate).
  rewrite decode_cmd by assumption. rewrite parse_spec_request by exact Hr.
  rewrite unmarshal_marshal by exact Hwf. reflexivity.
Qed.

(* the four control packets, by message type *)
Theorem dispatch_control t p :
  wf_pkt p = true -> is_control p = true ->
  decode_message t (mtype_of p) (marshal p) = (Ok p, t).
Proof.
  intros Hwf Hc. pose proof (unmarshal_marshal p Hwf) as Hu.
  destruct p; try discriminate; cbn [mtype_of receiver_for] in *.
  - cbn [marshal be4] in *. unfold decode_message. cbn [N.eqb mtSetChunkSize]. exact (f_equal (fun r => (r, t)) Hu).
  - cbn [marshal be4] in *. exact (f_equal (fun r => (r, t)) Hu).
  - cbn [marshal be4 app] in *. exact (f_equal (fun r => (r, t)) Hu).
  - cbn [marshal be2 app] in *. exact (f_equal (fun r => (r, t)) Hu).
Qed.

Definition is_response_name (n : bytes) : bool := bytes_eqb n cResult || bytes_eqb n cError.

Lemma parse_spec_response t name tid : is_response_name name = true ->
  parse_spec t name tid =
  match tx_get t tid with
  | None => (Err 5, t)
  | Some rn =>
      if bytes_eqb rn cConnect then (Ok (new_connect_res tid), tx_del t tid)
      else if bytes_eqb rn cCreateStream then (Ok (new_create_stream_res tid), tx_del t tid)
      else (Err 6, tx_del t tid)
  end.
Proof. unfold parse_spec, is_response_name. intros ->. reflexivity. Qed.

(* a connect response arrives as one exactly when a connect with that id is outstanding *)
Theorem dispatch_connect_res t mt name tid o a :
  let p := PConnectRes name tid o a in
  wf_pkt p = true -> is_amf_type mt = true -> tx_get t tid = Some cConnect ->
  decode_message t mt (carried mt (marshal p)) = (Ok p, tx_del t tid).
Proof.
  intros p Hwf Hmt Hg. rewrite decode_cmd by (try assumption; reflexivity).
  cbn [cmd_name cmd_tid p]. rewrite parse_spec_response.
  - rewrite Hg. change (bytes_eqb cConnect cConnect) with true. cbn iota.
    change (new_connect_res tid) with (receiver_for p).
    rewrite unmarshal_marshal by exact Hwf. reflexivity.
  - cbn [wf_pkt p] in Hwf. rewrite !andb_true_iff in Hwf. destruct Hwf as [[[Hn _] _] _].
    unfold is_response_name. rewrite Hn. reflexivity.
Qed.

Theorem dispatch_create_stream_res t mt name tid o sid :
  let p := PCreateStreamRes name tid o sid in
  wf_pkt p = true -> is_response_name name = true -> is_amf_type mt = true ->
  tx_get t tid = Some cCreateStream ->
  decode_message t mt (carried mt (marshal p)) = (Ok p, tx_del t tid).
Proof.
  intros p Hwf Hn Hmt Hg. rewrite decode_cmd by (try assumption; reflexivity).
  cbn [cmd_name cmd_tid p]. rewrite parse_spec_response by exact Hn.
  rewrite Hg. change (bytes_eqb cCreateStream cConnect) with false.
  change (bytes_eqb cCreateStream cCreateStream) with true. cbn iota.
  change (new_create_stream_res tid) with (receiver_for p).
  rewrite unmarshal_marshal by exact Hwf. reflexivity.
Qed.

(* a response without an outstanding request is an error and leaves the table alone; a response
   to a request of another kind is an error too (and consumes the request) *)
Theorem dispatch_response_unmatched t mt p :
  wf_pkt p = true -> is_control p = false -> is_response_name (cmd_name p) = true ->
  is_amf_type mt = true -> tx_get t (cmd_tid p) = None ->
  decode_message t mt (carried mt (marshal p)) = (Err 5, t).
Proof.
  intros Hwf Hc Hn Hmt Hg. rewrite decode_cmd by assumption.
  rewrite parse_spec_response by exact Hn. rewrite Hg. reflexivity.
Qed.

Theorem dispatch_response_other t mt p rn :
  wf_pkt p = true -> is_control p = false -> is_response_name (cmd_name p) = true ->
  is_amf_type mt = true -> tx_get t (cmd_tid p) = Some rn ->
  bytes_eqb rn cConnect = false -> bytes_eqb rn cCreateStream = false ->
  decode_message t mt (carried mt (marshal p)) = (Err 6, tx_del t (cmd_tid p)).
Proof.
  intros Hwf Hc Hn Hmt Hg H1 H2. rewrite decode_cmd by assumption.
  rewrite parse_spec_response by exact Hn. rewrite Hg, H1, H2. reflexivity.
Qed.

(* ------------------------------------------------------------------ the table as a finite map *)
Lemma f_eq_pos a b : f_gt0 a = true -> f_eq a b = (a =? b).
Proof.
  unfold f_gt0. intros H. apply andb_true_iff in H. destruct H as [H0 H1].
  apply N.ltb_lt in H0. apply N.leb_le in H1.
  assert (Ha : a mod two63 = a) by (apply N.mod_small; unfold f_inf, two63 in *; lia).
  unfold f_eq, f_isnan, f_iszero. rewrite Ha.
  assert (E1 : (f_inf <? a) = false) by (apply N.ltb_ge; exact H1). rewrite E1.
  assert (E2 : (a =? 0) = false) by (apply N.eqb_neq; lia). rewrite E2. cbn [negb andb].
  destruct (N.eqb_spec a b) as [<-|Hne].
  - rewrite Ha, E1. reflexivity.
  - cbn [orb]. apply andb_false_r.
Qed.

(* the guard of onPacketWriten: zero, negative zero, negatives and NaN are not "> 0" *)
Lemma f_gt0_spec b : b < 18446744073709551616 ->
  f_gt0 b = true <-> (f_isnan b = false /\ f_iszero b = false /\ b < two63).
Proof.
  intros Hb. unfold f_gt0, f_isnan, f_iszero, f_inf, two63. rewrite andb_true_iff, N.ltb_lt, N.leb_le.
  split.
  - intros [H0 H1]. rewrite N.mod_small by lia. repeat split; [apply N.ltb_ge; lia|apply N.eqb_neq; lia|lia].
  - intros (H1 & H2 & H3). rewrite N.mod_small in H1, H2 by lia.
    apply N.ltb_ge in H1. apply N.eqb_neq in H2. lia.
Qed.

Definition keys_pos (t : tx) : Prop := Forall (fun e => f_gt0 (fst e) = true) t.

Lemma tx_get_set t k v : keys_pos t -> f_gt0 k = true ->
  forall k', tx_get (tx_set t k v) k' = if k =? k' then Some v else tx_get t k'.
Proof.
  intros Ht Hk k'. induction Ht as [|[a va] r Ha Hr IH]; cbn [tx_set tx_get].
  - rewrite f_eq_pos by exact Hk. reflexivity.
  - cbn [fst] in Ha. rewrite (f_eq_pos a k) by exact Ha.
    destruct (N.eqb_spec a k) as [->|Hne]; cbn [tx_get].
    + rewrite f_eq_pos by exact Hk. destruct (k =? k'); reflexivity.
    + rewrite (f_eq_pos a k') by exact Ha. rewrite IH.
      destruct (N.eqb_spec a k') as [->|Hne'].
      * destruct (N.eqb_spec k k'); [congruence|reflexivity].
      * reflexivity.
Qed.

Lemma tx_get_del t k : keys_pos t ->
  forall k', tx_get (tx_del t k) k' = if k =? k' then None else tx_get t k'.
Proof.
  intros Ht k'. induction Ht as [|[a va] r Ha Hr IH]; cbn [tx_del tx_get].
  - destruct (k =? k'); reflexivity.
  - cbn [fst] in Ha. rewrite (f_eq_pos a k) by exact Ha. rewrite (f_eq_pos a k') by exact Ha.
    destruct (N.eqb_spec a k) as [->|Hne].
    + rewrite IH. destruct (k =? k'); reflexivity.
    + cbn [tx_get]. rewrite (f_eq_pos a k') by exact Ha. rewrite IH.
      destruct (N.eqb_spec a k') as [->|Hne'].
      * destruct (N.eqb_spec k k'); [congruence|reflexivity].
      * reflexivity.
Qed.

Lemma keys_pos_set t k v : keys_pos t -> f_gt0 k = true -> keys_pos (tx_set t k v).
Proof.
  intros Ht Hk. induction Ht as [|[a va] r Ha Hr IH]; cbn [tx_set].
  - constructor; [exact Hk|constructor].
  - destruct (f_eq a k); constructor; assumption.
Qed.

Lemma keys_pos_del t k : keys_pos t -> keys_pos (tx_del t k).
Proof.
  intros Ht. induction Ht as [|[a va] r Ha Hr IH]; cbn [tx_del]; [constructor|].
  destruct (f_eq a k); [exact IH|constructor; assumption].
Qed.

Lemma tx_get_pos t k v : keys_pos t -> tx_get t k = Some v -> f_gt0 k = true.
Proof.
  intros Ht. induction Ht as [|[a va] r Ha Hr IH]; cbn [tx_get]; [discriminate|].
  cbn [fst] in Ha. rewrite (f_eq_pos a k) by exact Ha.
  destruct (N.eqb_spec a k) as [<-|]; [intros _; exact Ha|exact IH].
Qed.

(* requests that are never registered: no response is expected for id 0; negatives and NaN are
   not ids; a packet that is not connect/createStream registers nothing *)
Lemma on_packet_written_guard t p :
  f_gt0 (fst (request_transaction p)) = false -> on_packet_written t p = t.
Proof.
  unfold on_packet_written. destruct (request_transaction p) as [tid name]. cbn [fst].
  intros ->. reflexivity.
Qed.

Lemma on_packet_written_keys t p : keys_pos t -> keys_pos (on_packet_written t p).
Proof.
  intros Ht. unfold on_packet_written. destruct (request_transaction p) as [tid name].
  destruct (f_gt0 tid) eqn:E; cbn [andb]; [|exact Ht].
  destruct (negb (is_nil name)); [apply keys_pos_set; assumption|exact Ht].
Qed.

(* DecodeMessage changes the table at most by deleting one key *)
Lemma decode_message_tx t mt pl :
  snd (decode_message t mt pl) = t \/ exists k, snd (decode_message t mt pl) = tx_del t k.
Proof.
  unfold decode_message. destruct pl as [|x tl]; [left; reflexivity|].
  set (p := if (mt =? mtAMF3Command) || (mt =? mtAMF3Data) then tl else x :: tl).
  destruct (mt =? mtSetChunkSize); [left; reflexivity|].
  destruct (mt =? mtWinAck); [left; reflexivity|].
  destruct (mt =? mtSetPeerBw); [left; reflexivity|].
  destruct (is_amf_type mt).
  - assert (H : snd (parse_amf_object t p) = t \/ exists k, snd (parse_amf_object t p) = tx_del t k).
    { unfold parse_amf_object.
      destruct (step (um_string p) 3) as [[v n]|e|s]; try (left; reflexivity).
      destruct (bytes_eqb (amf_str v) cResult || bytes_eqb (amf_str v) cError).
      - destruct (drop n p 38) as [p1|e|s]; try (left; reflexivity).
        destruct (step (um_number p1) 4) as [[tv n2]|e|s]; try (left; reflexivity).
        destruct (tx_get t (amf_num tv)); [|left; reflexivity].
        right. exists (amf_num tv).
        destruct (bytes_eqb b cConnect); [reflexivity|].
        destruct (bytes_eqb b cCreateStream); reflexivity.
      - left. destruct (bytes_eqb (amf_str v) cConnect); [reflexivity|].
        destruct (bytes_eqb (amf_str v) cCreateStream); [reflexivity|].
        destruct (bytes_eqb (amf_str v) cPlay); [reflexivity|].
        destruct (bytes_eqb (amf_str v) cPublish); reflexivity. }
    destruct (parse_amf_object t p) as [[r|e|s] t']; cbn [snd] in *; exact H.
  - destruct (mt =? mtUserControl); left; reflexivity.
Qed.

Lemma decode_message_keys t mt pl : keys_pos t -> keys_pos (snd (decode_message t mt pl)).
Proof.
  intros Ht. destruct (decode_message_tx t mt pl) as [ -> | [k ->] ]; [exact Ht|apply keys_pos_del, Ht].
Qed.

(* ------------------------------------------------------------------ c03_tx_refines_map *)
(* the abstract view: a finite map from transaction id (bit pattern) to request name *)
Definition amap := N -> option bytes.
Definition a_empty : amap := fun _ => None.
Definition a_upd (m : amap) (k : N) (v : option bytes) : amap := fun k' => if k =? k' then v else m k'.

(* a request asks for a response iff it is a connect / createStream with an id > 0 and a name *)
Definition asks_response (p : pkt) : option (N * bytes) :=
  match p with
  | PConnect n t _ _ | PCreateStream n t _ =>
      if f_gt0 t && negb (is_nil n) then Some (t, n) else None
  | _ => None
  end.

Inductive ev : Type :=
| Sent (p : pkt)                                   (* WritePacket p *)
| Resp (mt : N) (name : bytes) (tid : N) (rest : bytes)
                                                   (* a _result/_error with that id arrives, any body *)
| Other (mt : N) (p : pkt).                        (* any other well-formed packet arrives *)

Definition wf_ev (e : ev) : Prop :=
  match e with
  | Sent _ => True
  | Resp mt name tid _ =>
      is_amf_type mt = true /\ is_response_name name = true /\ tid < 18446744073709551616
  | Other mt p =>
      wf_pkt p = true /\
      ((request_like p = true /\ is_amf_type mt = true) \/ (is_control p = true /\ mt = mtype_of p))
  end.

Definition c_step (t : tx) (e : ev) : tx * option (res pkt) :=
  match e with
  | Sent p => (on_packet_written t p, None)
  | Resp mt name tid rest =>
      let (r, t') := decode_message t mt (carried mt (enc_hdr name tid ++ rest)) in (t', Some r)
  | Other mt p =>
      let (r, t') := decode_message t mt (carried mt (marshal p)) in (t', Some r)
  end.

Inductive aout : Type :=
| ASent
| ANoRequest                                        (* must be an error *)
| AResponseTo (rn : bytes) (tid : N) (body : bytes) (* must be decoded as the response type of rn *)
| APacket (p : pkt).

Definition a_step (m : amap) (e : ev) : amap * aout :=
  match e with
  | Sent p =>
      (match asks_response p with Some (tid, n) => a_upd m tid (Some n) | None => m end, ASent)
  | Resp mt name tid rest =>
      match m tid with
      | None => (m, ANoRequest)
      | Some rn => (a_upd m tid None, AResponseTo rn tid (enc_hdr name tid ++ rest))
      end
  | Other _ p => (m, APacket p)
  end.

Definition out_matches (c : option (res pkt)) (a : aout) : Prop :=
  match a, c with
  | ASent, None => True
  | ANoRequest, Some r => r = Err 5
  | AResponseTo rn tid body, Some r =>
      r = if bytes_eqb rn cConnect then unmarshal (new_connect_res tid) body
          else if bytes_eqb rn cCreateStream then unmarshal (new_create_stream_res tid) body
          else Err 6
  | APacket p, Some r => r = Ok p
  | _, _ => False
  end.

Definition refines (t : tx) (m : amap) : Prop := keys_pos t /\ forall k, tx_get t k = m k.

Lemma refines_empty : refines [] a_empty.
Proof. split; [constructor|reflexivity]. Qed.

Lemma carried_control mt p : is_control p = true -> mt = mtype_of p -> carried mt (marshal p) = marshal p.
Proof. intros Hc ->. destruct p; try discriminate; reflexivity. Qed.

Lemma step_refines t m e : refines t m -> wf_ev e ->
  refines (fst (c_step t e)) (fst (a_step m e)) /\ out_matches (snd (c_step t e)) (snd (a_step m e)).
Proof.
  intros [Hk Hg] Hwf. destruct e as [p|mt name tid rest|mt p]; cbn [c_step a_step wf_ev] in *.
  - (* Sent *)
    cbn [fst snd out_matches]. split; [|exact I].
    split; [apply on_packet_written_keys, Hk|].
    unfold on_packet_written, asks_response, request_transaction.
    destruct p; try exact Hg.
    + destruct (f_gt0 tid && negb (is_nil name)) eqn:E; [|exact Hg].
      apply andb_true_iff in E. destruct E as [E _]. intros k. rewrite tx_get_set by assumption.
      unfold a_upd. rewrite Hg. reflexivity.
    + destruct (f_gt0 tid && negb (is_nil name)) eqn:E; [|exact Hg].
      apply andb_true_iff in E. destruct E as [E _]. intros k. rewrite tx_get_set by assumption.
      unfold a_upd. rewrite Hg. reflexivity.
  - (* Resp *)
    destruct Hwf as (Hmt & Hn & Ht).
    assert (Hw : wf_strb name = true).
    { unfold is_response_name in Hn. apply orb_true_iff in Hn.
      destruct Hn as [Hn|Hn]; apply bytes_eqb_eq in Hn; subst; reflexivity. }
    rewrite decode_message_amf; [|exact Hmt|apply enc_hdr_cons].
    rewrite parse_amf_hdr by assumption. rewrite parse_spec_response by exact Hn.
    rewrite <- (Hg tid).
    destruct (tx_get t tid) as [rn|] eqn:Eg.
    + assert (Hr : refines (tx_del t tid) (a_upd m tid None)).
      { split; [apply keys_pos_del, Hk|]. intros k. rewrite tx_get_del by exact Hk.
        unfold a_upd. rewrite Hg. reflexivity. }
      destruct (bytes_eqb rn cConnect) eqn:E1; [cbn [fst snd out_matches]; rewrite E1; auto|].
      destruct (bytes_eqb rn cCreateStream) eqn:E2; cbn [fst snd out_matches]; rewrite E1, E2; auto.
    + cbn [fst snd out_matches]. split; [split; assumption|reflexivity].
  - (* Other *)
    destruct Hwf as (Hp & [[Hr Hmt]|[Hc Hmt]]).
    + rewrite dispatch_request by assumption. cbn [fst snd out_matches]. split; [split; assumption|reflexivity].
    + rewrite carried_control by assumption. subst mt. rewrite dispatch_control by assumption.
      cbn [fst snd out_matches]. split; [split; assumption|reflexivity].
Qed.

Fixpoint c_run (t : tx) (h : list ev) : tx * list (option (res pkt)) :=
  match h with
  | [] => (t, [])
  | e :: r => let (t1, o) := c_step t e in let (t2, os) := c_run t1 r in (t2, o :: os)
  end.

Fixpoint a_run (m : amap) (h : list ev) : amap * list aout :=
  match h with
  | [] => (m, [])
  | e :: r => let (m1, o) := a_step m e in let (m2, os) := a_run m1 r in (m2, o :: os)
  end.

Theorem run_refines h : forall t m, refines t m -> Forall wf_ev h ->
  refines (fst (c_run t h)) (fst (a_run m h)) /\ Forall2 out_matches (snd (c_run t h)) (snd (a_run m h)).
Proof.
  induction h as [|e h IH]; intros t m Hr Hwf; cbn [c_run a_run].
  - cbn [fst snd]. split; [exact Hr|constructor].
  - inversion Hwf as [|e' h' He Hh]; subst.
    destruct (step_refines t m e Hr He) as [Hr1 Ho].
    destruct (c_step t e) as [t1 o]. destruct (a_step m e) as [m1 ao]. cbn [fst snd] in *.
    destruct (IH t1 m1 Hr1 Hh) as [Hr2 Hos].
    destruct (c_run t1 h) as [t2 os]. destruct (a_run m1 h) as [m2 aos]. cbn [fst snd] in *.
    split; [exact Hr2|constructor; assumption].
Qed.

(* only ids > 0 are ever outstanding *)
Lemma refines_dom t m k v : refines t m -> m k = Some v -> f_gt0 k = true.
Proof. intros [Hk Hg] H. rewrite <- Hg in H. exact (tx_get_pos t k v Hk H). Qed.

(* exactly once: right after any response with id tid has been looked at, that id is not
   outstanding, so a second response is "No matched request" *)
Lemma response_consumes t mt name tid rest :
  keys_pos t -> is_amf_type mt = true -> is_response_name name = true -> tid < 18446744073709551616 ->
  tx_get (snd (decode_message t mt (carried mt (enc_hdr name tid ++ rest)))) tid = None.
Proof.
  intros Hk Hmt Hn Ht.
  assert (Hw : wf_strb name = true).
  { unfold is_response_name in Hn. apply orb_true_iff in Hn.
    destruct Hn as [Hn|Hn]; apply bytes_eqb_eq in Hn; subst; reflexivity. }
  rewrite decode_message_amf; [|exact Hmt|apply enc_hdr_cons].
  rewrite parse_amf_hdr by assumption. rewrite parse_spec_response by exact Hn.
  destruct (tx_get t tid) as [rn|] eqn:Eg; [|cbn [snd]; exact Eg].
  assert (Hd : tx_get (tx_del t tid) tid = None) by (rewrite tx_get_del by exact Hk; rewrite N.eqb_refl; reflexivity).
  destruct (bytes_eqb rn cConnect); [exact Hd|].
  destruct (bytes_eqb rn cCreateStream); exact Hd.
Qed.

Theorem response_once t mt name tid rest mt' name' rest' :
  keys_pos t -> is_amf_type mt = true -> is_response_name name = true ->
  is_amf_type mt' = true -> is_response_name name' = true -> tid < 18446744073709551616 ->
  let t1 := snd (decode_message t mt (carried mt (enc_hdr name tid ++ rest))) in
  decode_message t1 mt' (carried mt' (enc_hdr name' tid ++ rest')) = (Err 5, t1).
Proof.
  intros Hk Hmt Hn Hmt' Hn' Ht t1.
  assert (Hw : wf_strb name' = true).
  { unfold is_response_name in Hn'. apply orb_true_iff in Hn'.
    destruct Hn' as [H|H]; apply bytes_eqb_eq in H; subst; reflexivity. }
  rewrite decode_message_amf; [|exact Hmt'|apply enc_hdr_cons].
  rewrite parse_amf_hdr by assumption. rewrite parse_spec_response by exact Hn'.
  unfold t1. rewrite response_consumes by assumption. reflexivity.
Qed.

(* ------------------------------------------------------------------ c03_expect *)
(* [skips want t pre t']: every message of [pre] arrives, decodes, and is not of the wanted type;
   the table goes from t to t' *)
Inductive skips (want : pkt -> bool) : tx -> list msg -> tx -> Prop :=
| skips_nil t : skips want t [] t
| skips_cons t m p t1 rest t2 :
    arrive_ok m = true -> decode_message t (fst m) (snd m) = (Ok p, t1) -> want p = false ->
    skips want t1 rest t2 -> skips want t (m :: rest) t2.

Lemma expect_packet_skip want t pre t' : skips want t pre t' ->
  forall rest i, expect_packet want t (pre ++ rest) i = expect_packet want t' rest (i + N.of_nat (length pre)).
Proof.
  induction 1 as [t|t m p t1 pre t2 Ha Hd Hw Hs IH]; intros rest i.
  - cbn [app length]. rewrite N.add_0_r. reflexivity.
  - cbn [app expect_packet]. rewrite Ha. cbn [negb]. rewrite Hd, Hw. rewrite IH.
    cbn [length]. f_equal. lia.
Qed.

(* the typed wait returns the first message that decodes to the wanted type, with its index *)
Theorem expect_packet_first want t pre t1 m p t2 post :
  skips want t pre t1 -> arrive_ok m = true ->
  decode_message t1 (fst m) (snd m) = (Ok p, t2) -> want p = true ->
  expect_packet want t (pre ++ m :: post) 0 = (Ok (N.of_nat (length pre), p), t2).
Proof.
  intros Hs Ha Hd Hw. rewrite (expect_packet_skip want t pre t1 Hs). cbn [expect_packet].
  rewrite Ha. cbn [negb]. rewrite Hd, Hw. reflexivity.
Qed.

(* ... it does not skip traffic it cannot decode: the first undecodable message ends the wait
   with that error (audio/video/acknowledgement: "Unknown message" = 2) *)
Theorem expect_packet_undecodable want t pre t1 m e t2 post :
  skips want t pre t1 -> arrive_ok m = true ->
  decode_message t1 (fst m) (snd m) = (Err e, t2) ->
  expect_packet want t (pre ++ m :: post) 0 = (Err e, t2).
Proof.
  intros Hs Ha Hd. rewrite (expect_packet_skip want t pre t1 Hs). cbn [expect_packet].
  rewrite Ha. cbn [negb]. rewrite Hd. reflexivity.
Qed.

(* ... a control message that fails its arrival hook, or the end of the stream, is a read error *)
Theorem expect_packet_read_error want t pre t1 rest :
  skips want t pre t1 -> (rest = [] \/ exists m post, rest = m :: post /\ arrive_ok m = false) ->
  expect_packet want t (pre ++ rest) 0 = (Err 8, t1).
Proof.
  intros Hs H. rewrite (expect_packet_skip want t pre t1 Hs).
  destruct H as [ -> | (m & post & -> & Ha) ]; cbn [expect_packet]; [reflexivity|].
  rewrite Ha. reflexivity.
Qed.

Lemma decode_unknown_type t mt pl : pl <> [] ->
  (mt =? mtSetChunkSize) = false -> (mt =? mtWinAck) = false -> (mt =? mtSetPeerBw) = false ->
  is_amf_type mt = false -> (mt =? mtUserControl) = false ->
  decode_message t mt pl = (Err 2, t).
Proof.
  intros Hp H1 H2 H3 H4 H5. unfold decode_message. destruct pl; [contradiction|].
  rewrite H1, H2, H3, H4, H5. reflexivity.
Qed.

Definition type_hit (types : list N) (m : msg) : bool :=
  is_nil types || existsb (N.eqb (fst m)) types.

Lemma expect_message_skip types pre :
  Forall (fun m => arrive_ok m = true /\ type_hit types m = false) pre ->
  forall rest i, expect_message types (pre ++ rest) i = expect_message types rest (i + N.of_nat (length pre)).
Proof.
  induction 1 as [|m pre [Ha Hh] Hs IH]; intros rest i.
  - cbn [app length]. rewrite N.add_0_r. reflexivity.
  - cbn [app expect_message]. rewrite Ha. cbn [negb]. unfold type_hit in Hh. rewrite Hh.
    rewrite IH. cbn [length]. f_equal. lia.
Qed.

Theorem expect_message_first types pre m post :
  Forall (fun m => arrive_ok m = true /\ type_hit types m = false) pre ->
  arrive_ok m = true -> type_hit types m = true ->
  expect_message types (pre ++ m :: post) 0 = Ok (N.of_nat (length pre), m).
Proof.
  intros Hs Ha Hh. rewrite expect_message_skip by exact Hs. cbn [expect_message].
  rewrite Ha. cbn [negb]. unfold type_hit in Hh. rewrite Hh. reflexivity.
Qed.

Theorem expect_message_none types pre :
  Forall (fun m => arrive_ok m = true /\ type_hit types m = false) pre ->
  expect_message types pre 0 = Err 8.
Proof.
  intros Hs. rewrite <- (app_nil_r pre). rewrite expect_message_skip by exact Hs. reflexivity.
Qed.

(* well-formed control packets pass the arrival hook *)
Lemma arrive_ok_control p : wf_pkt p = true -> is_control p = true ->
  arrive_ok (mtype_of p, marshal p) = true.
Proof.
  intros Hwf Hc. unfold arrive_ok.
  destruct ((mtype_of p =? mtSetChunkSize) || (mtype_of p =? mtUserControl) || (mtype_of p =? mtWinAck));
    [|reflexivity].
  rewrite dispatch_control by assumption. reflexivity.
Qed.

Lemma arrive_ok_amf mt pl : is_amf_type mt = true -> arrive_ok (mt, pl) = true.
Proof.
  intros H. destruct (amf_type_cases mt H) as [ -> | [ -> | [ -> | -> ] ] ]; reflexivity.
Qed.

(* ------------------------------------------------------------------ the typed wait over concrete traffic *)
(* a message carrying a well-formed control packet, or a well-formed request / generic call in
   any of the four command/data carriers *)
Definition traffic_msg (m : msg) (p : pkt) : Prop :=
  wf_pkt p = true /\
  ((request_like p = true /\ exists mt, is_amf_type mt = true /\ m = (mt, carried mt (marshal p))) \/
   (is_control p = true /\ m = (mtype_of p, marshal p))).

Lemma traffic_decodes t m p : traffic_msg m p ->
  arrive_ok m = true /\ decode_message t (fst m) (snd m) = (Ok p, t).
Proof.
  intros (Hwf & [(Hr & mt & Hmt & ->)|(Hc & ->)]); cbn [fst snd].
  - split; [apply arrive_ok_amf; exact Hmt|apply dispatch_request; assumption].
  - split; [apply arrive_ok_control; assumption|apply dispatch_control; assumption].
Qed.

Lemma skips_traffic want t pre :
  Forall (fun m => exists p, traffic_msg m p /\ want p = false) pre -> skips want t pre t.
Proof.
  induction 1 as [|m pre (p & Hm & Hw) Hs IH]; [constructor|].
  destruct (traffic_decodes t m p Hm) as [Ha Hd].
  econstructor; eassumption.
Qed.

(* ExpectPacket skips the control and command traffic before the first packet of the wanted type
   and returns that one, leaving the table alone *)
Theorem expect_packet_traffic want t pre m p post :
  Forall (fun m => exists q, traffic_msg m q /\ want q = false) pre ->
  traffic_msg m p -> want p = true ->
  expect_packet want t (pre ++ m :: post) 0 = (Ok (N.of_nat (length pre), p), t).
Proof.
  intros Hpre Hm Hw. destruct (traffic_decodes t m p Hm) as [Ha Hd].
  exact (expect_packet_first want t pre t m p t post (skips_traffic want t pre Hpre) Ha Hd Hw).
Qed.

(* connect's transaction id is fixed: a connect request with any other id is rejected by the peer *)
Theorem connect_requires_tid_one t mt tid o a :
  is_amf_type mt = true -> tid < 18446744073709551616 -> f_eq tid f_one = false ->
  wf_propsb o = true -> wf_oprops a = true ->
  decode_message t mt (carried mt (marshal (PConnect cConnect tid o a))) = (Err 23, t).
Proof.
  intros Hmt Ht Hne Ho Ha. cbn [marshal].
  rewrite decode_message_amf; [|exact Hmt|apply enc_hdr_cons].
  rewrite parse_amf_hdr by (try reflexivity; exact Ht).
  change (parse_spec t cConnect tid) with (Ok new_connect, t).
  unfold new_connect. cbn [unmarshal].
  rewrite um_objcall_enc; [|reflexivity|exact Ht|exact Ho|exact Ha]. cbn [bind].
  rewrite bytes_eqb_refl. cbn [negb]. rewrite Hne. reflexivity.
Qed.
