(* C03 end to end: the packet layer (Model/RtmpPacket.v) composed with the chunk layer
   (Model/RtmpChunk.v, C01).  Both models are imported read-only.

   Definitions (executable; extracted for the correspondence run, run_c03x at the end)
     endpoint        one Protocol: its outstanding-request table, its output chunk size, its
                     chunk reader state
     write_packet    WritePacket: marshal -> message (type = Type(), chunk stream = BetterCid(),
                     timestamp 0, stream id uint32(streamID)) -> the request is registered BEFORE
                     any byte is written -> RtmpChunk.write_message; when the write fails the entry
                     is removed again (onPacketWriteFailed)
     read_packet     ReadMessage (RtmpChunk.read_message, arrival hook included) -> DecodeMessage
                     (RtmpPacket.decode_message) on the reader's own table
     read_packets / expect_packet_wire     the peer's loops
     run_conv        a conversation: bursts of packets, alternately written by one endpoint and
                     read by the other, the wire cut into transport reads by an arbitrary function
   Theorems: e2e_single, e2e_burst, end_to_end (restated in Props/C03.v as c03_end_to_end). *)
From Verif Require Import Lib.Base Lib.Sx.
From Verif Require Import Model.RtmpChunk Proofs.RtmpChunk Proofs.RtmpChunkRT.
From Verif Require Import Model.Amf0 Proofs.Amf0 Model.RtmpPacket Proofs.RtmpPacket Proofs.RtmpPacketTx.
Open Scope N_scope.

(* ================================================================== definitions *)
Record endpoint := mkep { ep_tx : tx; ep_out : N; ep_rs : rstate }.
Definition ep0 : endpoint := mkep [] DEFCHUNK rs0.          (* NewProtocol *)

Definition msg_of_pkt (p : pkt) (sid : N) : RtmpChunk.msg :=
  mkmsg (cid_of p) 0 (mtype_of p) (u32 sid) (marshal p).

(* onPacketWriteFailed *)
Definition on_packet_write_failed (t : tx) (p : pkt) : tx :=
  let (tid, name) := request_transaction p in
  if f_gt0 tid && negb (is_nil name) then tx_del t tid else t.

Definition write_packet (e : endpoint) (p : pkt) (sid : N) : res bytes * endpoint :=
  let t1 := on_packet_written (ep_tx e) p in
  match write_message (ep_out e) (msg_of_pkt p sid) with
  | Ok (w, c') => (Ok w, mkep t1 c' (ep_rs e))
  | Err err => (Err err, mkep (on_packet_write_failed t1 p) (ep_out e) (ep_rs e))
  | Panic s => (Panic s, mkep t1 (ep_out e) (ep_rs e))
  end.

Fixpoint write_packets (e : endpoint) (ps : list pkt) (sid : N) : list (res bytes) * endpoint :=
  match ps with
  | [] => ([], e)
  | p :: t =>
      let (r, e1) := write_packet e p sid in
      let (rs, e2) := write_packets e1 t sid in
      (r :: rs, e2)
  end.

(* ReadMessage, then DecodeMessage; a failed decode is a value (the caller may go on reading),
   a failed read is an error *)
Definition read_packet (fuel : nat) (e : endpoint) (i : inp) : res (res pkt * endpoint * inp) :=
  let* (m, s', i') := read_message fuel (ep_rs e) i in
  let (r, t') := decode_message (ep_tx e) (m_type m) (m_payload m) in
  Ok (r, mkep t' (ep_out e) s', i').

Fixpoint read_packets (fuel n : nat) (e : endpoint) (i : inp) : res (list (res pkt) * endpoint * inp) :=
  match n with
  | O => Ok ([], e, i)
  | S n' =>
      let* (r, e1, i1) := read_packet fuel e i in
      let* (rs, e2, i2) := read_packets fuel n' e1 i1 in
      Ok (r :: rs, e2, i2)
  end.

(* ExpectPacket on the wire: at most n messages are looked at *)
Fixpoint expect_packet_wire (fuel n : nat) (want : pkt -> bool) (e : endpoint) (i : inp) (k : N)
  : res (N * pkt * endpoint * inp) :=
  match n with
  | O => Err 8
  | S n' =>
      let* (r, e1, i1) := read_packet fuel e i in
      match r with
      | Ok p => if want p then Ok (k, p, e1, i1) else expect_packet_wire fuel n' want e1 i1 (N.succ k)
      | Err c => Err c
      | Panic s => Panic s
      end
  end.

(* a conversation: bursts (sender, packets); sender false = endpoint A, true = endpoint B.
   [cutf] turns the bytes of a burst into the transport reads the peer sees. *)
Definition burst := (bool * list pkt)%type.

Definition run_burst (fuel : nat) (cutf : bytes -> inp) (sid : N) (snd_ rcv : endpoint) (ps : list pkt)
  : (list (res bytes) * res (list (res pkt))) * (endpoint * endpoint) :=
  let (rs, snd') := write_packets snd_ ps sid in
  (* the loop fuel of the chunk reader: any bound above the number of chunks *)
  match read_packets (fuel + length (wire_of rs)) (length ps) rcv (cutf (wire_of rs)) with
  | Ok (outs, rcv', _) => ((rs, Ok outs), (snd', rcv'))
  | Err c => ((rs, Err c), (snd', rcv))
  | Panic s => ((rs, Panic s), (snd', rcv))
  end.

Fixpoint run_conv (fuel : nat) (cutf : bytes -> inp) (sid : N) (a b : endpoint) (bs : list burst)
  : list (list (res bytes) * res (list (res pkt))) * (endpoint * endpoint) :=
  match bs with
  | [] => ([], (a, b))
  | (dir, ps) :: rest =>
      if dir then
        let '(o, (b', a')) := run_burst fuel cutf sid b a ps in
        let (os, fin) := run_conv fuel cutf sid a' b' rest in (o :: os, fin)
      else
        let '(o, (a', b')) := run_burst fuel cutf sid a b ps in
        let (os, fin) := run_conv fuel cutf sid a' b' rest in (o :: os, fin)
  end.

(* ================================================================== the domain *)
(* a packet the chunk layer carries (C01's wf_msg): well-formed, payload below 2^24 bytes, and a
   Set Chunk Size announcing a size in [1, 2^31-1] *)
Definition wire_ok (p : pkt) : Prop :=
  wf_pkt p = true /\ psize p < 16777216 /\
  match p with PSetChunkSize n => 1 <= n < 2147483648 | _ => True end.

(* what the receiving endpoint's table [t] must offer for p to arrive as itself: nothing for
   control packets, requests and generic calls; for a response, the outstanding request of the
   RECEIVER with that transaction id (connect for a connect response, createStream for a
   createStream response) *)
Definition deliverable (t : tx) (p : pkt) : Prop :=
  is_control p = true \/ request_like p = true \/
  match p with
  | PConnectRes _ tid _ _ => tx_get t tid = Some cConnect
  | PCreateStreamRes n tid _ _ => is_response_name n = true /\ tx_get t tid = Some cCreateStream
  | _ => False
  end.

(* the receiver's table afterwards: a response consumes its request *)
Definition table_after (t : tx) (p : pkt) : tx :=
  if negb (is_control p) && is_response_name (cmd_name p) then tx_del t (cmd_tid p) else t.

Inductive delivered : tx -> list pkt -> tx -> Prop :=
| dl_nil t : delivered t [] t
| dl_cons t p ps t' :
    deliverable t p -> delivered (table_after t p) ps t' -> delivered t (p :: ps) t'.

(* a conversation whose every response answers a request the receiver sent earlier and that is
   still outstanding; [ta], [tb] are the two endpoints' tables *)
Inductive conv_ok : tx -> tx -> list burst -> tx -> tx -> Prop :=
| co_nil ta tb : conv_ok ta tb [] ta tb
| co_a ta tb ps tb' rest ta2 tb2 :
    Forall wire_ok ps -> delivered tb ps tb' ->
    conv_ok (fold_left on_packet_written ps ta) tb' rest ta2 tb2 ->
    conv_ok ta tb ((false, ps) :: rest) ta2 tb2
| co_b ta tb ps ta' rest ta2 tb2 :
    Forall wire_ok ps -> delivered ta ps ta' ->
    conv_ok ta' (fold_left on_packet_written ps tb) rest ta2 tb2 ->
    conv_ok ta tb ((true, ps) :: rest) ta2 tb2.

(* the two directions agree on the chunk sizes and no message is half read *)
Definition in_sync (a b : endpoint) : Prop :=
  0 < ep_out a /\ 0 < ep_out b /\
  in_chunk (ep_rs b) = ep_out a /\ in_chunk (ep_rs a) = ep_out b /\
  all_idle (ep_rs a) /\ all_idle (ep_rs b).

(* ================================================================== lemmas *)
Lemma psize_ge3 p : 3 <= psize p.
Proof.
  destruct p; cbn [psize]; unfold vsize, hsize; rewrite ?size_str_pos; cbn [size];
    try lia.
  - change (gen_size (Gen_rtmp.rtmp_SetChunkSize_Size tt)) with 4. lia.
  - change (gen_size (Gen_rtmp.rtmp_WindowAcknowledgementSize_Size tt)) with 4. lia.
  - change (gen_size (Gen_rtmp.rtmp_SetPeerBandwidth_Size tt)) with 5. lia.
  - rewrite uc_size_spec. destruct (et =? etFmsEvent0), (et =? etSetBufferLength); lia.
Qed.

Lemma has_len_all (p : bytes) : has_len p (lenN p) = true.
Proof.
  unfold has_len. pose proof (stake_app p [] []) as H. rewrite app_nil_r in H.
  unfold bytes in *. rewrite H. reflexivity.
Qed.

Lemma ctl_ok_of_pkt p sid : wire_ok p -> ctl_ok (msg_of_pkt p sid) = true.
Proof.
  intros (Hwf & Hsz & Hscs). destruct p; try reflexivity.
  - (* set chunk size *)
    cbn [wf_pkt] in Hwf. apply N.ltb_lt in Hwf.
    unfold ctl_ok, msg_of_pkt. cbn [m_type m_payload mtype_of marshal be4].
    change (mtSetChunkSize =? 1) with true. cbv iota.
    rewrite Proofs.Amf0.ube4_be4 by exact Hwf.
    apply andb_true_iff. split; [apply N.leb_le|apply N.ltb_lt]; lia.
  - (* user control *)
    cbn [wf_pkt] in Hwf. rewrite !andb_true_iff in Hwf. destruct Hwf as [[He Hd] Hx].
    apply N.ltb_lt in He.
    unfold ctl_ok, msg_of_pkt. cbn [m_type m_payload mtype_of].
    change (mtUserControl =? 1) with false. change (mtUserControl =? 5) with false.
    change (mtUserControl =? 4) with true. cbv iota.
    pose proof (marshal_size (PUserControl et d x)) as Hl. cbn [psize] in Hl. rewrite uc_size_spec in Hl.
    change etFmsEvent0 with 26 in *. change etSetBufferLength with 3 in *.
    assert (Het : ube2 ((et / 256) mod 256) (et mod 256) = et) by (apply ube2_be2; exact He).
    cbn [marshal be2 app] in *.
    change etFmsEvent0 with 26 in *. change etSetBufferLength with 3 in *.
    destruct (et =? 26) eqn:E1; destruct (et =? 3) eqn:E2; cbn [be4 app] in *;
      rewrite Het, E1, E2; rewrite <- Hl; apply has_len_all.
Qed.

Lemma wf_msg_of_pkt p sid : wire_ok p -> wf_msg (msg_of_pkt p sid).
Proof.
  intros H. pose proof (ctl_ok_of_pkt p sid H) as Hc. destruct H as (Hwf & Hsz & Hscs).
  constructor; cbn [msg_of_pkt m_cid m_ts m_type m_sid m_payload].
  - destruct p; cbn; lia.
  - lia.
  - destruct p; cbn; lia.
  - unfold u32. apply N.mod_lt. lia.
  - rewrite marshal_size. pose proof (psize_ge3 p). lia.
  - exact Hc.
Qed.

(* a deliverable packet is decoded as itself *)
Lemma deliver_ok t p : wf_pkt p = true -> deliverable t p ->
  decode_message t (mtype_of p) (marshal p) = (Ok p, table_after t p).
Proof.
  intros Hwf [Hc|[Hr|Hresp]].
  - rewrite dispatch_control by assumption. unfold table_after. rewrite Hc. reflexivity.
  - assert (Hc : is_control p = false) by (destruct p; try reflexivity; discriminate).
    assert (Hn : is_response_name (cmd_name p) = false).
    { destruct p; cbn [request_like cmd_name] in *; try discriminate;
        try (apply bytes_eqb_eq in Hr; subst; reflexivity).
      unfold not_dispatch_name in Hr. apply negb_true_iff in Hr. rewrite !orb_false_iff in Hr.
      unfold is_response_name. destruct Hr as [[[[[H1 H2] _] _] _] _]. rewrite H1, H2. reflexivity. }
    assert (Hm : mtype_of p = mtAMF0Command) by (destruct p; try reflexivity; discriminate).
    rewrite Hm. change (marshal p) with (carried mtAMF0Command (marshal p)).
    rewrite dispatch_request by (try assumption; reflexivity).
    unfold table_after. rewrite Hc, Hn. reflexivity.
  - destruct p; try contradiction.
    + change (marshal (PConnectRes name tid obj args))
        with (carried mtAMF0Command (marshal (PConnectRes name tid obj args))).
      cbn [mtype_of]. rewrite dispatch_connect_res by (try assumption; reflexivity).
      unfold table_after. cbn [is_control negb cmd_name cmd_tid andb].
      cbn [wf_pkt] in Hwf. rewrite !andb_true_iff in Hwf. destruct Hwf as [[[Hn _] _] _].
      unfold is_response_name. rewrite Hn. reflexivity.
    + destruct Hresp as [Hn Hg].
      change (marshal (PCreateStreamRes name tid obj sid))
        with (carried mtAMF0Command (marshal (PCreateStreamRes name tid obj sid))).
      cbn [mtype_of]. rewrite dispatch_create_stream_res by (try assumption; reflexivity).
      unfold table_after. cbn [is_control negb cmd_name cmd_tid andb]. rewrite Hn. reflexivity.
Qed.

(* segmentation of the transport does not matter to read_packet / read_packets *)
Lemma read_packet_same fuel e i1 i2 :
  flat i1 = flat i2 -> same_res (read_packet fuel e i1) (read_packet fuel e i2).
Proof.
  intros H. unfold read_packet. apply same_bind; [apply read_message_same; exact H|].
  intros [m s'] j1 j2 Hj.
  destruct (decode_message (ep_tx e) (m_type m) (m_payload m)) as [r t']. apply same_ok. exact Hj.
Qed.

Lemma read_packets_same fuel n : forall e i1 i2,
  flat i1 = flat i2 -> same_res (read_packets fuel n e i1) (read_packets fuel n e i2).
Proof.
  induction n as [|n IH]; intros e i1 i2 H; cbn [read_packets]; [apply same_ok; exact H|].
  apply same_bind; [apply read_packet_same; exact H|].
  intros [r e1] j1 j2 Hj.
  apply same_bind; [apply IH; exact Hj|].
  intros [rs e2] k1 k2 Hk. apply same_ok. exact Hk.
Qed.

(* ================================================================== one packet *)
Theorem e2e_single es er p sid :
  wire_ok p -> 0 < ep_out es -> in_chunk (ep_rs er) = ep_out es -> all_idle (ep_rs er) ->
  exists w c' ers',
    write_packet es p sid = (Ok w, mkep (on_packet_written (ep_tx es) p) c' (ep_rs es)) /\
    0 < c' /\ in_chunk ers' = c' /\ all_idle ers' /\
    forall (x : bytes) (rest : inp) fuel, (length (marshal p) < fuel)%nat ->
      read_packet fuel er ((w ++ x) :: rest) =
      Ok (fst (decode_message (ep_tx er) (mtype_of p) (marshal p)),
          mkep (snd (decode_message (ep_tx er) (mtype_of p) (marshal p))) (ep_out er) ers',
          x :: rest).
Proof.
  intros Hw Hc Hin Hidle.
  pose proof (wf_msg_of_pkt p sid Hw) as Wm.
  destruct (single_message (msg_of_pkt p sid) (ep_out es) (ep_rs er) Wm Hc Hin (Hidle _))
    as (w & s1 & Hwr & Hrd & Hn & Hi).
  exists w, (next_chunk (ep_out es) (msg_of_pkt p sid)), s1.
  split; [|split; [|split; [|split]]].
  - unfold write_packet. rewrite Hwr. reflexivity.
  - apply next_chunk_pos; [apply Wm|exact Hc].
  - exact Hn.
  - eapply idle_step; eauto.
  - intros x rest fuel Hf. unfold read_packet. rewrite Hrd by exact Hf. cbn [bind].
    cbn [msg_of_pkt m_type m_payload].
    destruct (decode_message (ep_tx er) (mtype_of p) (marshal p)) as [r t']. reflexivity.
Qed.

(* ================================================================== a burst, one direction *)
Theorem e2e_burst ps : forall es er sid tr',
  Forall wire_ok ps -> 0 < ep_out es -> in_chunk (ep_rs er) = ep_out es -> all_idle (ep_rs er) ->
  delivered (ep_tx er) ps tr' ->
  exists ws es' er',
    write_packets es ps sid = (map Ok ws, es') /\
    ep_tx es' = fold_left on_packet_written ps (ep_tx es) /\ ep_rs es' = ep_rs es /\
    ep_tx er' = tr' /\ ep_out er' = ep_out er /\
    0 < ep_out es' /\ in_chunk (ep_rs er') = ep_out es' /\ all_idle (ep_rs er') /\
    forall (i : inp) (x : bytes) fuel,
      flat i = concat ws ++ x -> Forall (fun p => (length (marshal p) < fuel)%nat) ps ->
      exists i', read_packets fuel (length ps) er i = Ok (map Ok ps, er', i') /\ flat i' = x.
Proof.
  induction ps as [|p ps IH]; intros es er sid tr' Hw Hc Hin Hidle Hd.
  - inversion Hd; subst. exists [], es, er. cbn [write_packets map fold_left length read_packets concat app].
    repeat split; auto. intros i x fuel Hi _. exists i. split; [reflexivity|exact Hi].
  - inversion Hw as [|p' ps' Hwp Hwps]; subst. inversion Hd as [|t p' ps' t' Hdp Hds]; subst.
    destruct (e2e_single es er p sid Hwp Hc Hin Hidle) as (w & c' & ers' & Hwr & Hc' & Hn' & Hi' & Hrd).
    pose proof (deliver_ok (ep_tx er) p (proj1 Hwp) Hdp) as Hdec.
    set (es1 := mkep (on_packet_written (ep_tx es) p) c' (ep_rs es)) in *.
    set (er1 := mkep (table_after (ep_tx er) p) (ep_out er) ers').
    destruct (IH es1 er1 sid tr' Hwps Hc' Hn' Hi' Hds)
      as (ws & es' & er' & Hws & Htx & Hrs & Htr & Hout & Hc2 & Hn2 & Hi2 & Hrd2).
    exists (w :: ws), es', er'.
    split; [|split; [|split; [|split; [|split; [|split; [|split; [|split]]]]]]]; auto.
    + cbn [write_packets]. rewrite Hwr. fold es1. rewrite Hws. reflexivity.
    + intros i x fuel Hi Hf.
      pose proof (Forall_inv Hf) as Hf1. pose proof (Forall_inv_tail Hf) as Hf2. cbn beta in Hf1.
      (* reference transport: everything in one read *)
      assert (Href : exists j, read_packets fuel (length (p :: ps)) er [concat (w :: ws) ++ x]
                               = Ok (map Ok (p :: ps), er', j) /\ flat j = x).
      { cbn [length read_packets concat]. rewrite <- app_assoc.
        pose proof (Hrd (concat ws ++ x) [] fuel Hf1) as Hr1.
        unfold inp, bytes in *. rewrite Hr1. rewrite Hdec. cbn [fst snd bind]. fold er1.
        destruct (Hrd2 [concat ws ++ x] x fuel) as (j & Hj & Hjx);
          [cbn [flat concat]; rewrite app_nil_r; reflexivity|exact Hf2|].
        (* the continuation reads from (concat ws ++ x) :: [] *)
        rewrite Hj. cbn [bind map]. exists j. split; [reflexivity|exact Hjx]. }
      destruct Href as (j & Hj & Hjx).
      assert (Hflat : flat i = flat [concat (w :: ws) ++ x])
        by (rewrite Hi; cbn [flat concat]; rewrite app_nil_r; reflexivity).
      pose proof (read_packets_same fuel (length (p :: ps)) er i _ Hflat) as S.
      rewrite Hj in S.
      destruct (read_packets fuel (length (p :: ps)) er i) as [[[outs e2] i2]|e|s]; cbn in S; try contradiction.
      destruct S as [E Hfl]. injection E as E1 E2. subst outs e2. exists i2. split; [reflexivity|]. rewrite Hfl. exact Hjx.
Qed.

(* ================================================================== conversations *)
Definition cut_ok (cutf : bytes -> inp) : Prop := forall w, flat (cutf w) = w.

Definition fuel_ok (fuel : nat) (bs : list burst) : Prop :=
  Forall (fun b => Forall (fun p => (length (marshal p) < fuel)%nat) (snd b)) bs.

Lemma run_burst_ok fuel cutf sid es er ps tr' :
  cut_ok cutf -> Forall wire_ok ps -> Forall (fun p => (length (marshal p) < fuel)%nat) ps ->
  0 < ep_out es -> in_chunk (ep_rs er) = ep_out es -> all_idle (ep_rs er) ->
  delivered (ep_tx er) ps tr' ->
  exists ws es' er',
    run_burst fuel cutf sid es er ps = ((map Ok ws, Ok (map Ok ps)), (es', er')) /\
    ep_tx es' = fold_left on_packet_written ps (ep_tx es) /\ ep_rs es' = ep_rs es /\
    ep_tx er' = tr' /\ ep_out er' = ep_out er /\
    0 < ep_out es' /\ in_chunk (ep_rs er') = ep_out es' /\ all_idle (ep_rs er').
Proof.
  intros Hcut Hw Hf Hc Hin Hidle Hd.
  destruct (e2e_burst ps es er sid tr' Hw Hc Hin Hidle Hd)
    as (ws & es' & er' & Hws & Htx & Hrs & Htr & Hout & Hc2 & Hn2 & Hi2 & Hrd).
  exists ws, es', er'. split; [|repeat split; assumption].
  unfold run_burst. rewrite Hws. rewrite wire_of_oks.
  destruct (Hrd (cutf (concat ws)) [] (fuel + length (concat ws))%nat) as (i' & Hr & _);
    [rewrite Hcut, app_nil_r; reflexivity|eapply Forall_impl; [|exact Hf]; cbn beta; intros q Hq; lia|].
  rewrite Hr. reflexivity.
Qed.

(* what the conversation must produce: every burst written without error, every packet
   arriving as itself *)
Definition expected_outs (bs : list burst) : list (list pkt) := map snd bs.

Definition outs_ok (o : list (res bytes) * res (list (res pkt))) (ps : list pkt) : Prop :=
  (exists ws, fst o = map Ok ws) /\ snd o = Ok (map Ok ps).

Theorem end_to_end bs : forall fuel cutf sid a b ta2 tb2,
  cut_ok cutf -> fuel_ok fuel bs -> in_sync a b ->
  conv_ok (ep_tx a) (ep_tx b) bs ta2 tb2 ->
  let '(outs, (a', b')) := run_conv fuel cutf sid a b bs in
  Forall2 outs_ok outs (expected_outs bs) /\
  ep_tx a' = ta2 /\ ep_tx b' = tb2 /\ in_sync a' b'.
Proof.
  induction bs as [|[dir ps] rest IH]; intros fuel cutf sid a b ta2 tb2 Hcut Hf Hs Hc.
  - inversion Hc; subst. cbn [run_conv expected_outs map].
    split; [constructor|split; [reflexivity|split; [reflexivity|exact Hs]]].
  - destruct Hs as (Ha & Hb & Hab & Hba & Hia & Hib).
    pose proof (Forall_inv Hf) as Hf1. pose proof (Forall_inv_tail Hf) as Hf2. cbn [snd] in Hf1.
    cbn [run_conv]. inversion Hc as [|ta tb ps' tb' rest' ta2' tb2' Hw Hd Hrest|ta tb ps' ta' rest' ta2' tb2' Hw Hd Hrest]; subst.
    + (* A sends *)
      destruct (run_burst_ok fuel cutf sid a b ps tb' Hcut Hw Hf1 Ha Hab Hib Hd)
        as (ws & a' & b' & Hrun & Htx & Hrs & Htr & Hout & Hc2 & Hn2 & Hi2).
      rewrite Hrun.
      assert (Hs' : in_sync a' b').
      { unfold in_sync. rewrite Hout, Hrs. repeat split; auto. }
      specialize (IH fuel cutf sid a' b' ta2 tb2 Hcut Hf2 Hs').
      rewrite Htx, Htr in IH. specialize (IH Hrest).
      destruct (run_conv fuel cutf sid a' b' rest) as [os [af bf]].
      destruct IH as (Hos & Hta & Htb & Hsf).
      split; [|split; [exact Hta|split; [exact Htb|exact Hsf]]].
      cbn [expected_outs map snd]. constructor; [|exact Hos].
      split; [exists ws; reflexivity|reflexivity].
    + (* B sends *)
      destruct (run_burst_ok fuel cutf sid b a ps ta' Hcut Hw Hf1 Hb Hba Hia Hd)
        as (ws & b' & a' & Hrun & Htx & Hrs & Htr & Hout & Hc2 & Hn2 & Hi2).
      rewrite Hrun.
      assert (Hs' : in_sync a' b').
      { unfold in_sync. rewrite Hout, Hrs. repeat split; auto. }
      specialize (IH fuel cutf sid a' b' ta2 tb2 Hcut Hf2 Hs').
      rewrite Htx, Htr in IH. specialize (IH Hrest).
      destruct (run_conv fuel cutf sid a' b' rest) as [os [af bf]].
      destruct IH as (Hos & Hta & Htb & Hsf).
      split; [|split; [exact Hta|split; [exact Htb|exact Hsf]]].
      cbn [expected_outs map snd]. constructor; [|exact Hos].
      split; [exists ws; reflexivity|reflexivity].
Qed.

Lemma in_sync_ep0 : in_sync ep0 ep0.
Proof. unfold in_sync, ep0. cbn. repeat split; try reflexivity; try apply rs0_idle; lia. Qed.

(* well-formed packets are always written (whatever the peer does) *)
Lemma write_packets_ok ps : forall e sid, Forall wire_ok ps -> 0 < ep_out e ->
  exists ws e', write_packets e ps sid = (map Ok ws, e').
Proof.
  induction ps as [|q ps IH]; intros e sid Hw Hc.
  - exists [], e. reflexivity.
  - inversion Hw as [|q' ps' Hq Hqs]; subst.
    pose proof (wf_msg_of_pkt q sid Hq) as Wm.
    destruct (single_message (msg_of_pkt q sid) (ep_out e) (mkrs (ep_out e) []) Wm Hc eq_refl eq_refl)
      as (w & s1 & Hwr & _).
    destruct (IH (mkep (on_packet_written (ep_tx e) q) (next_chunk (ep_out e) (msg_of_pkt q sid)) (ep_rs e)) sid Hqs)
      as (ws & e' & Hws).
    { cbn [ep_out]. apply next_chunk_pos; [apply Wm|exact Hc]. }
    exists (w :: ws), e'. cbn [write_packets]. unfold write_packet. rewrite Hwr. rewrite Hws. reflexivity.
Qed.

Lemma epw_S fuel n want e i k :
  expect_packet_wire fuel (S n) want e i k =
  (let* (r, e1, i1) := read_packet fuel e i in
   match r with
   | Ok p => if want p then Ok (k, p, e1, i1) else expect_packet_wire fuel n want e1 i1 (N.succ k)
   | Err c => Err c
   | Panic s => Panic s
   end).
Proof. reflexivity. Qed.

(* ================================================================== ExpectPacket on the wire *)
(* the typed wait over a burst: packets that arrive as themselves and are not wanted are skipped,
   the first wanted one is returned with its index; the bytes of the packets after it stay in
   the transport *)
Theorem expect_packet_e2e pre : forall es er sid p post tr1 (want : pkt -> bool),
  Forall wire_ok (pre ++ p :: post) ->
  0 < ep_out es -> in_chunk (ep_rs er) = ep_out es -> all_idle (ep_rs er) ->
  delivered (ep_tx er) pre tr1 -> deliverable tr1 p ->
  Forall (fun q => want q = false) pre -> want p = true ->
  exists ws es' er' i',
    write_packets es (pre ++ p :: post) sid = (map Ok ws, es') /\
    forall fuel k, Forall (fun q => (length (marshal q) < fuel)%nat) (pre ++ [p]) ->
      expect_packet_wire fuel (S (length pre)) want er [concat ws] k
      = Ok (k + N.of_nat (length pre), p, er', i') /\
      ep_tx er' = table_after tr1 p.
Proof.
  induction pre as [|q pre IH]; intros es er sid p post tr1 want Hw Hc Hin Hidle Hd Hp Hnw Hwp.
  - inversion Hd; subst. cbn [app] in *.
    inversion Hw as [|p' ps' Hwp' Hwps]; subst.
    destruct (e2e_single es er p sid Hwp' Hc Hin Hidle) as (w & c' & ers' & Hwr & Hc' & Hn' & Hi' & Hrd).
    set (es1 := mkep (on_packet_written (ep_tx es) p) c' (ep_rs es)) in *.
    set (er1 := mkep (table_after (ep_tx er) p) (ep_out er) ers').
    destruct (write_packets_ok post es1 sid Hwps Hc') as (ws & es' & Hws).
    exists (w :: ws), es', er1, [concat ws]. split.
    + cbn [write_packets]. rewrite Hwr. fold es1. rewrite Hws. reflexivity.
    + intros fuel k Hf. pose proof (Forall_inv Hf) as Hf1. cbn beta in Hf1.
      cbn [length concat]. rewrite epw_S. unfold inp, bytes in *.
      rewrite (Hrd (concat ws) [] fuel Hf1).
      rewrite (deliver_ok (ep_tx er) p (proj1 Hwp') Hp). cbn [fst snd bind]. rewrite Hwp.
      fold er1. split; [rewrite N.add_0_r; reflexivity|reflexivity].
  - cbn [app] in *. inversion Hw as [|q' ps' Hwq Hwps]; subst.
    inversion Hd as [|t q' ps' t' Hdq Hds]; subst.
    inversion Hnw as [|q' ps' Hnq Hnws]; subst.
    destruct (e2e_single es er q sid Hwq Hc Hin Hidle) as (w & c' & ers' & Hwr & Hc' & Hn' & Hi' & Hrd).
    set (es1 := mkep (on_packet_written (ep_tx es) q) c' (ep_rs es)) in *.
    set (er1 := mkep (table_after (ep_tx er) q) (ep_out er) ers').
    destruct (IH es1 er1 sid p post tr1 want Hwps Hc' Hn' Hi' Hds Hp Hnws Hwp)
      as (ws & es' & er' & i' & Hws & Hex).
    exists (w :: ws), es', er', i'. split.
    + cbn [write_packets]. rewrite Hwr. fold es1. rewrite Hws. reflexivity.
    + intros fuel k Hf. pose proof (Forall_inv Hf) as Hf1. pose proof (Forall_inv_tail Hf) as Hf2.
      cbn beta in Hf1. cbn [app] in Hf.
      cbn [length concat]. rewrite epw_S. unfold inp, bytes in *.
      rewrite (Hrd (concat ws) [] fuel Hf1).
      rewrite (deliver_ok (ep_tx er) q (proj1 Hwq) Hdq). cbn [fst snd bind]. rewrite Hnq.
      fold er1. destruct (Hex fuel (N.succ k) Hf2) as [He Ht]. unfold inp, bytes in *. rewrite He.
      split; [|exact Ht].
      replace (k + N.of_nat (S (length pre))) with (N.succ k + N.of_nat (length pre)) by (rewrite Nat2N.inj_succ; lia).
      reflexivity.
Qed.

(* ================================================================== non-vacuity *)
Definition one_read : bytes -> inp := fun w => [w].
Definition byte_reads : bytes -> inp := fun w => map (fun b => [b]) w.

Lemma one_read_ok : cut_ok one_read.
Proof. intros w. unfold one_read, flat. cbn. apply app_nil_r. Qed.
Lemma byte_reads_ok : cut_ok byte_reads.
Proof. intros w. unfold byte_reads, flat. induction w as [|b w IH]; [reflexivity|]. cbn. f_equal. exact IH. Qed.

(* ================================================================== run wrapper (harness) *)
(* the transport hands over at most k bytes per read *)
Fixpoint cut_every (fuel : nat) (k : N) (w : bytes) : inp :=
  match fuel with
  | O => [w]
  | S f =>
      match w with
      | [] => []
      | _ :: _ => if k =? 0 then [w]                       (* no limit: one read *)
                  else let '(a, r, _) := upto w k in a :: cut_every f k r
      end
  end.

Fixpoint bursts_of_sx (l : list sx) : option (list burst) :=
  match l with
  | [] => Some []
  | SL [SZ d; SL ps] :: r =>
      match pkts_of_sx ps, bursts_of_sx r with
      | Some ps', Some bs => Some ((negb (Z.eqb d 0), ps') :: bs)
      | _, _ => None
      end
  | _ => None
  end.

Definition obs_write (r : res bytes) : sx :=
  match r with Ok _ => SZ 0 | Err e => sN e | Panic _ => SZ 2000 end.

Fixpoint obs_conv (sid k : N) (a b : endpoint) (bs : list burst) (racc : list sx) : list sx :=
  match bs with
  | [] => rev racc
  | (dir, ps) :: rest =>
      let cutf := fun w => cut_every (S (length w)) k w in
      let '((rs, outs), (s', r')) :=
        if dir then run_burst 1 cutf sid b a ps else run_burst 1 cutf sid a b ps in
      let (a', b') := if dir then (r', s') else (s', r') in
      let o := SL [SB (wire_of rs); SL (map obs_write rs);
                   match outs with
                   | Ok l => s_ok [SL (map obs_pkt l)]
                   | Err c => s_err (if c =? 1 then 1 else if c =? 2 then 2 else 98)   (* io.EOF, io.ErrUnexpectedEOF (sentinels), other *)
                   | Panic _ => s_panic
                   end;
                   sx_of_tx (ep_tx a'); sx_of_tx (ep_tx b')] in
      obs_conv sid k a' b' rest (o :: racc)
  end.

(* C03 case (5 sid k ((dir (pkt...))...)): a conversation between two fresh endpoints through the
   chunk layer, at most k bytes per transport read
   -> (0 ((xwire (write flags) (0 (<packet obs>...)) | (1 code) tableA tableB)...)).
   Every other case is run_c03's. *)
Definition run_c03x (c : sx) : sx :=
  match c with
  | SL [SZ 5%Z; SZ sid; SZ k; SL bs] =>
      match bursts_of_sx bs with
      | Some l => s_ok [SL (obs_conv (Z.to_N sid) (Z.to_N k) ep0 ep0 l [])]
      | None => bad_case
      end
  | _ => run_c03 c
  end.
