(* C13 proofs (part 1): list helpers, masking (mask.go), truncWriter (compression.go). *)
From Verif Require Import Lib.Base Lib.Sx Model.WsWrite.
Open Scope N_scope.
Ltac Zify.zify_post_hook ::= Z.div_mod_to_equations.

(* ---------- helpers ---------- *)
Lemma lenN_acc_spec b : forall acc, lenN_acc acc b = acc + N.of_nat (length b).
Proof. induction b as [|x t IH]; intros acc; cbn [lenN_acc length]; [lia|]. rewrite IH. lia. Qed.
Lemma lenN_spec b : lenN b = N.of_nat (length b).
Proof. unfold lenN. rewrite lenN_acc_spec. lia. Qed.

Lemma split_at_spec n : forall b, split_at n b = (firstn n b, skipn n b).
Proof.
  induction n as [|n IH]; intros b; cbn [split_at firstn skipn]; [reflexivity|].
  destruct b as [|x t]; [reflexivity|]. rewrite IH. reflexivity.
Qed.
Lemma splitN_spec n b : splitN n b = (firstn (N.to_nat n) b, skipn (N.to_nat n) b).
Proof. apply split_at_spec. Qed.

Lemma take_app n : forall a r, length a = n -> take n (a ++ r) = Some (a, r).
Proof.
  induction n as [|n IH]; intros a r H; destruct a as [|x a]; cbn in H; try discriminate; cbn [take app].
  - reflexivity.
  - rewrite IH by lia. reflexivity.
Qed.

(* ---------- masking ---------- *)
Lemma lxor_invol a b : N.lxor (N.lxor a b) b = a.
Proof. rewrite N.lxor_assoc, N.lxor_nilpotent, N.lxor_0_r. reflexivity. Qed.

Lemma mask_from_involutive k : forall b pos, mask_from k pos (mask_from k pos b) = b.
Proof. induction b as [|x t IH]; intros pos; cbn [mask_from]; [reflexivity|]. rewrite lxor_invol, IH. reflexivity. Qed.

Lemma mask_from_length k : forall b pos, length (mask_from k pos b) = length b.
Proof. induction b as [|x t IH]; intros pos; cbn [mask_from length]; [reflexivity|]. rewrite IH. reflexivity. Qed.

Lemma mask_from_app k : forall a b pos,
  mask_from k pos (a ++ b) = mask_from k pos a ++ mask_from k (pos + N.of_nat (length a)) b.
Proof.
  induction a as [|x t IH]; intros b pos; cbn [mask_from app length].
  - f_equal. lia.
  - rewrite IH. do 3 f_equal. lia.
Qed.

Lemma key_at_period k i j : (i mod 4 = j mod 4) -> key_at k i = key_at k j.
Proof. unfold key_at. intros ->. reflexivity. Qed.

Lemma mask_from_period k : forall b i j, i mod 4 = j mod 4 -> mask_from k i b = mask_from k j b.
Proof.
  induction b as [|x t IH]; intros i j H; cbn [mask_from]; [reflexivity|].
  rewrite (key_at_period k i j H). f_equal. apply IH. lia.
Qed.

Lemma mod4_cases i : i mod 4 = 0 \/ i mod 4 = 1 \/ i mod 4 = 2 \/ i mod 4 = 3.
Proof. lia. Qed.

(* the rotating-key variant the executable model runs *)
Lemma mask_rot_spec a b c d : forall t i,
  mask_rot (rot_n (N.to_nat (i mod 4)) [a;b;c;d]) t = mask_from [a;b;c;d] i t.
Proof.
  induction t as [|x t IH]; intros i; cbn [mask_rot mask_from]; [reflexivity|].
  assert (Hs : N.succ i mod 4 = (i mod 4 + 1) mod 4) by lia.
  rewrite <- IH, Hs. unfold key_at.
  destruct (mod4_cases i) as [H|[H|[H|H]]]; rewrite H; reflexivity.
Qed.

Lemma mask_fast_spec k pos b : length k = 4%nat -> mask_fast k pos b = mask_from k pos b.
Proof.
  intros H. destruct k as [|a [|b' [|c [|d [|]]]]]; try discriminate.
  unfold mask_fast. apply mask_rot_spec.
Qed.

(* word-at-a-time = byte-at-a-time *)
Lemma combine_xor_mask k pos : forall w, length w = 8%nat ->
  map (fun p => N.lxor (fst p) (snd p)) (combine w (map (fun i => key_at k (pos + i)) [0;1;2;3;4;5;6;7]))
  = mask_from k pos w.
Proof.
  intros w H. do 9 (destruct w as [|? w]; try discriminate). cbn [map combine mask_from fst snd].
  repeat f_equal; try apply key_at_period; lia.
Qed.

Lemma xor_words_spec k pos : forall n b, (8 * n <= length b)%nat ->
  xor_words (map (fun i => key_at k (pos + i)) [0;1;2;3;4;5;6;7]) b n
  = (mask_from k pos (firstn (8 * n) b), skipn (8 * n) b).
Proof.
  induction n as [|n IH]; intros b H.
  - cbn. reflexivity.
  - cbn [xor_words]. rewrite split_at_spec.
    set (w := firstn 8 b). set (r := skipn 8 b).
    assert (Hw : length w = 8%nat) by (unfold w; rewrite firstn_length; lia).
    assert (Hb : b = w ++ r) by (unfold w, r; symmetry; apply firstn_skipn).
    assert (Hr : (8 * n <= length r)%nat) by (unfold r; rewrite skipn_length; lia).
    rewrite IH by exact Hr. rewrite combine_xor_mask by exact Hw.
    replace (8 * S n)%nat with (length w + 8 * n)%nat by lia.
    rewrite Hb. rewrite firstn_app_2. rewrite skipn_app.
    rewrite (skipn_all2 w) by lia. replace (length w + 8 * n - length w)%nat with (8 * n)%nat by lia.
    cbn [app]. rewrite mask_from_app. f_equal. f_equal. apply mask_from_period. lia.
Qed.

Lemma mask_words_spec align k pos b :
  mask_words align k pos b = (mask_from k pos b, (pos + lenN b) mod 4).
Proof.
  unfold mask_words. change wordSize with 8.
  destruct (lenN b <? 2 * 8) eqn:Hs; [reflexivity|].
  apply N.ltb_ge in Hs. rewrite lenN_spec in Hs.
  set (n0 := align mod 8).
  assert (Hn0 : n0 < 8) by (unfold n0; lia).
  (* head *)
  set (hn := if n0 =? 0 then 0%nat else N.to_nat (8 - n0)).
  assert (Hhead : (if n0 =? 0 then ([], b, pos)
                   else let (a, r) := splitN (8 - n0) b in (mask_from k pos a, r, pos + (8 - n0)))
                  = (mask_from k pos (firstn hn b), skipn hn b, pos + N.of_nat hn)).
  { unfold hn. destruct (n0 =? 0) eqn:E; [cbn; repeat f_equal; lia|].
    rewrite splitN_spec. repeat f_equal. lia. }
  rewrite Hhead. clear Hhead.
  assert (Hhn : (hn <= 7)%nat) by (unfold hn; destruct (n0 =? 0) eqn:E; [lia|apply N.eqb_neq in E; lia]).
  set (rest := skipn hn b). set (pos1 := pos + N.of_nat hn).
  assert (Hrl : length rest = (length b - hn)%nat) by (unfold rest; apply skipn_length).
  set (nw := N.to_nat (lenN rest / 8)).
  assert (Hnw : (8 * nw <= length rest)%nat) by (unfold nw; rewrite lenN_spec; lia).
  rewrite (xor_words_spec k pos1 nw rest Hnw).
  assert (Hlt : lenN (skipn (8 * nw) rest) = N.of_nat (length rest - 8 * nw)) by (rewrite lenN_spec, skipn_length; reflexivity).
  f_equal.
  - transitivity (mask_from k pos (firstn hn b ++ (firstn (8 * nw) rest ++ skipn (8 * nw) rest))).
    + rewrite !mask_from_app. rewrite !firstn_length.
      replace (Nat.min hn (length b)) with hn by lia. fold pos1. f_equal. f_equal.
      apply mask_from_period. lia.
    + rewrite (firstn_skipn (8 * nw) rest). unfold rest. rewrite firstn_skipn. reflexivity.
  - rewrite Hlt, lenN_spec. unfold pos1. unfold nw in *. rewrite lenN_spec in *. lia.
Qed.

(* ---------- truncWriter ---------- *)
(* [s] the stream written so far, [e] what reached the underlying writer *)
Definition tw_inv (w : tws) (s e : bytes) : Prop :=
  exists r pad, s = e ++ r /\ tp w = r ++ pad /\ length (tp w) = 4%nat /\ tn w = N.of_nat (length r)
                /\ (length r <= 4)%nat /\ ((length r < 4)%nat -> e = []).

Lemma tw_inv0 : tw_inv tw0 [] [].
Proof. exists [], [0;0;0;0]. cbn. repeat split; try reflexivity; lia. Qed.

Lemma trunc_swap (r1 rest : bytes) : length r1 = 4%nat ->
  let m := Nat.min (length rest) 4 in
  r1 ++ rest = (firstn m r1 ++ firstn (length rest - m) rest) ++ skipn m r1 ++ skipn (length rest - m) rest.
Proof.
  intros H m. destruct (Nat.le_gt_cases 4 (length rest)) as [Hge|Hsm].
  - assert (Hm : m = 4%nat) by (unfold m; lia). rewrite Hm.
    rewrite (firstn_all2 r1) by lia. rewrite (skipn_all2 r1) by lia. cbn [app].
    rewrite <- app_assoc. rewrite firstn_skipn. reflexivity.
  - assert (Hm : m = length rest) by (unfold m; lia). rewrite Hm, Nat.sub_diag. cbn [firstn skipn].
    rewrite app_nil_r, app_assoc, firstn_skipn. reflexivity.
Qed.

Lemma tw_write_inv w s e p : tw_inv w s e ->
  tw_inv (fst (tw_write w p)) (s ++ p) (e ++ concat (snd (tw_write w p))).
Proof.
  intros (r & pad & Hs & Htp & Hl & Htn & Hr4 & He).
  unfold tw_write.
  destruct (tn w <? 4) eqn:Hlt.
  - apply N.ltb_lt in Hlt.
    assert (Hrl : (length r < 4)%nat) by lia. specialize (He Hrl). subst e.
    rewrite splitN_spec. rewrite lenN_spec.
    set (k := N.min (4 - tn w) (N.of_nat (length p))).
    set (a := firstn (N.to_nat k) p). set (rest := skipn (N.to_nat k) p).
    assert (Hka : length a = N.to_nat k) by (unfold a; rewrite firstn_length; lia).
    assert (Hf : firstn (N.to_nat (tn w)) (tp w) = r).
    { rewrite Htp, Htn, Nat2N.id. rewrite firstn_app, Nat.sub_diag, firstn_all. cbn. apply app_nil_r. }
    assert (Hpadl : length pad = (4 - length r)%nat) by (rewrite Htp, app_length in Hl; lia).
    assert (Hsk : skipn (N.to_nat (tn w + k)) (tp w) = skipn (N.to_nat k) pad).
    { rewrite Htp, Htn. rewrite skipn_app. rewrite skipn_all2 by lia. cbn. f_equal. lia. }
    rewrite Hf, Hsk.
    destruct (is_nil rest) eqn:Hnil.
    + destruct rest eqn:Er; [|discriminate]. cbn [fst snd concat]. rewrite app_nil_r.
      exists (r ++ a), (skipn (N.to_nat k) pad). cbn [tp tn].
      assert (Hp : p = a) by (rewrite <- (firstn_skipn (N.to_nat k) p); fold a; fold rest; rewrite Er; apply app_nil_r).
      repeat split.
      * cbn. rewrite Hs. cbn. rewrite Hp at 1. reflexivity.
      * rewrite app_assoc. reflexivity.
      * rewrite !app_length, skipn_length. lia.
      * rewrite app_length. lia.
      * rewrite app_length. lia.
    + (* buffer full, continue with the rest *)
      assert (Hrest : rest <> []) by (destruct rest; [discriminate|congruence]).
      assert (Hk : N.to_nat k = (4 - length r)%nat).
      { unfold k. destruct (N.min_spec (4 - tn w) (N.of_nat (length p))) as [[_ ->]|[Hle ->]]; [lia|].
        exfalso. apply Hrest. unfold rest. apply skipn_all2. unfold k.
        rewrite N.min_r by lia. lia. }
      assert (Hsk0 : skipn (N.to_nat k) pad = []) by (apply skipn_all2; lia).
      rewrite Hsk0, app_nil_r. cbn [tp tn].
      rewrite splitN_spec, lenN_spec.
      set (l1 := N.of_nat (length rest)). set (m := N.min l1 4).
      assert (Hl1 : (1 <= length rest)%nat) by (destruct rest; [congruence|cbn; lia]).
      set (r1 := r ++ a). assert (Hr1 : length r1 = 4%nat) by (unfold r1; rewrite app_length; lia).
      cbn [fst snd concat]. rewrite app_nil_r.
      exists (skipn (N.to_nat m) r1 ++ skipn (N.to_nat (l1 - m)) rest), []. cbn [tp tn].
      assert (Hp : p = a ++ rest) by (unfold a, rest; symmetry; apply firstn_skipn).
      assert (Hm : (N.to_nat m <= 4)%nat /\ (N.to_nat m <= length rest)%nat) by (unfold m, l1; lia).
      repeat split.
      * cbn [app]. rewrite Hs, Hp. cbn [app]. rewrite app_assoc. fold r1.
        replace (N.to_nat m) with (Nat.min (length rest) 4) by (unfold m, l1; lia).
        replace (N.to_nat (l1 - m)) with (length rest - Nat.min (length rest) 4)%nat by (unfold m, l1; lia).
        apply (trunc_swap r1 rest Hr1).
      * rewrite app_nil_r. reflexivity.
      * rewrite app_length, !skipn_length. unfold m, l1 in *. lia.
      * rewrite app_length, !skipn_length. unfold m, l1 in *. lia.
      * rewrite app_length, !skipn_length. unfold m, l1 in *. lia.
      * intros H. exfalso. rewrite app_length, !skipn_length in H. unfold m, l1 in *. lia.
  - apply N.ltb_ge in Hlt.
    assert (Hr : length r = 4%nat) by lia.
    assert (Hpad : pad = []) by (rewrite Htp, app_length in Hl; destruct pad; [reflexivity|cbn in Hl; lia]).
    subst pad. rewrite app_nil_r in Htp.
    rewrite splitN_spec, lenN_spec.
    set (l1 := N.of_nat (length p)). set (m := N.min l1 4).
    cbn [fst snd concat]. rewrite app_nil_r, Htp.
    exists (skipn (N.to_nat m) r ++ skipn (N.to_nat (l1 - m)) p), []. cbn [tp tn].
    assert (Hm : (N.to_nat m <= 4)%nat /\ (N.to_nat m <= length p)%nat) by (unfold m, l1; lia).
    repeat split.
    * rewrite Hs. rewrite <- !app_assoc. f_equal.
      replace (N.to_nat m) with (Nat.min (length p) 4) by (unfold m, l1; lia).
      replace (N.to_nat (l1 - m)) with (length p - Nat.min (length p) 4)%nat by (unfold m, l1; lia).
      rewrite app_assoc. apply (trunc_swap r p Hr).
    * rewrite app_nil_r. reflexivity.
    * rewrite app_length, !skipn_length. unfold m, l1 in *. lia.
    * rewrite app_length, !skipn_length. unfold m, l1 in *. lia.
    * rewrite app_length, !skipn_length. unfold m, l1 in *. lia.
    * intros H. exfalso. rewrite app_length, !skipn_length in H. unfold m, l1 in *. lia.
Qed.

Lemma tw_run_inv : forall chunks w s e, tw_inv w s e ->
  tw_inv (fst (tw_run w chunks)) (s ++ concat chunks) (e ++ concat (snd (tw_run w chunks))).
Proof.
  induction chunks as [|c cs IH]; intros w s e H; cbn [tw_run concat fst snd].
  - rewrite !app_nil_r. exact H.
  - pose proof (tw_write_inv w s e c H) as H1.
    destruct (tw_write w c) as [w1 o1] eqn:E1. cbn [fst snd] in H1.
    specialize (IH w1 _ _ H1).
    destruct (tw_run w1 cs) as [w2 o2] eqn:E2. cbn [fst snd] in *.
    rewrite concat_app, !app_assoc. rewrite <- !app_assoc in IH. rewrite <- !app_assoc. exact IH.
Qed.

(* every chunking of a stream of at least four bytes: all but the last four bytes reach the
   underlying writer, in order, and exactly the last four are retained *)
Theorem trunc_writer_spec chunks :
  let s := concat chunks in
  let r := tw_run tw0 chunks in
  (4 <= length s)%nat ->
  concat (snd r) = firstn (length s - 4) s /\ tp (fst r) = skipn (length s - 4) s /\ tn (fst r) = 4.
Proof.
  intros s r Hlen.
  pose proof (tw_run_inv chunks tw0 [] [] tw_inv0) as H. cbn [app] in H. fold s in H. fold r in H.
  destruct H as (rr & pad & Hs & Htp & Hl & Htn & Hr4 & He).
  assert (Hrr : length rr = 4%nat).
  { destruct (Nat.lt_ge_cases (length rr) 4) as [Hlt|Hge]; [|lia].
    specialize (He Hlt). rewrite He in Hs. cbn in Hs. rewrite Hs in Hlen. lia. }
  assert (Hpad : pad = []) by (rewrite Htp, app_length in Hl; destruct pad; [reflexivity|cbn in Hl; lia]).
  subst pad. rewrite app_nil_r in Htp.
  assert (Hel : (length s - 4)%nat = length (concat (snd r))) by (rewrite Hs, app_length; lia).
  rewrite Hel. rewrite Hs at 1 2.
  rewrite firstn_app, Nat.sub_diag, firstn_all. cbn [firstn]. rewrite app_nil_r.
  rewrite skipn_app, Nat.sub_diag, skipn_all. cbn [skipn app].
  repeat split; [exact Htp | lia].
Qed.

(* short streams: nothing is emitted, the bytes sit in the retention buffer *)
Theorem trunc_writer_short chunks :
  let s := concat chunks in
  let r := tw_run tw0 chunks in
  (length s < 4)%nat ->
  concat (snd r) = [] /\ tn (fst r) = N.of_nat (length s) /\ firstn (length s) (tp (fst r)) = s.
Proof.
  intros s r Hlen.
  pose proof (tw_run_inv chunks tw0 [] [] tw_inv0) as H. cbn [app] in H. fold s in H. fold r in H.
  destruct H as (rr & pad & Hs & Htp & Hl & Htn & Hr4 & He).
  assert (Hrr : (length rr < 4)%nat) by (rewrite Hs, app_length in Hlen; lia).
  specialize (He Hrr). rewrite He in *. cbn [app] in Hs. subst rr.
  repeat split; [exact Htn|]. rewrite Htp, firstn_app, Nat.sub_diag, firstn_all. cbn. apply app_nil_r.
Qed.

Example trunc_example :
  tw_run tw0 [[1;2]; [3;4;5;6;7;8]; []; [9]]
  = (mkT [6;7;8;9] 4, [[1;2;3;4]; []; []; []; [5]; []]).
Proof. vm_compute. reflexivity. Qed.
