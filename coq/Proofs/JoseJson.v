(* Proofs about Model/Jose.v: flattened / general JSON serializations over the abstract JSON object
   layer, header merging, multi-signature verification, multi-recipient parsing, ACME requests. *)
From Verif Require Import Lib.Base Lib.Sx Model.Jose Proofs.Jose Proofs.JoseCompact Proofs.JoseCipher.
Open Scope N_scope.

(* ------------------------------------------------------------------ members *)
Lemma b64url_encode_nil_inv b : wf_bytes b -> b64url_encode b = [] -> b = [].
Proof.
  intros W E. pose proof (b64_dec_enc b W) as H. rewrite E in H. vm_compute in H. inversion H. reflexivity.
Qed.

Lemma decode_member_enc b : wf_bytes b -> decode_member (Some (b64url_encode b)) = Ok b.
Proof.
  intro W. unfold decode_member. destruct (b64url_encode b) as [|c r] eqn:E.
  - cbn [is_nil]. rewrite (b64url_encode_nil_inv b W E). reflexivity.
  - cbn [is_nil]. rewrite <- E. apply b64url_decode_r_enc. exact W.
Qed.

Lemma map_res_map {A B C} (g : A -> B) (f : B -> res C) (v : A -> C) l :
  (forall x, In x l -> f (g x) = Ok (v x)) -> map_res f (map g l) = Ok (map v l).
Proof.
  induction l as [|x l IH]; intro H; [reflexivity|]. cbn [map map_res].
  rewrite (H x (or_introl eq_refl)). cbn [bind]. rewrite IH by (intros y Hy; apply H; right; exact Hy). reflexivity.
Qed.

(* ------------------------------------------------------------------ header merging *)
Lemma hget_merge d s k :
  In k hdr_fields -> hget (merge d s) k = (if is_nil (hget d k) then hget s k else hget d k).
Proof.
  intro H. unfold merge, hdr_fields in *. cbn [In] in H.
  repeat (destruct H as [<-|H]; [vm_compute bytes_eqb; cbn; reflexivity|]). contradiction.
Qed.

Lemma hget_nil k : hget [] k = [].
Proof. reflexivity. Qed.

Definition hget_opt (h : option header) (k : bytes) : bytes := match h with Some x => hget x k | None => [] end.

Lemma hget_merge_opt d s k :
  In k hdr_fields ->
  hget (merge_opt (merge [] d) s) k = (if is_nil (hget d k) then hget_opt s k else hget d k).
Proof.
  intros H. destruct s as [s|]; cbn [merge_opt hget_opt].
  - rewrite hget_merge by exact H. rewrite hget_merge by exact H. rewrite hget_nil. cbn [is_nil]. reflexivity.
  - rewrite hget_merge by exact H. rewrite hget_nil. cbn [is_nil]. destruct (hget d k); reflexivity.
Qed.

(* JWS: merged = protected, then unprotected.  The protected header wins on every field it sets;
   the code does not reject a name that occurs in both (it only never lets the unprotected value
   through) *)
Lemma merged_protected_wins ph oh k :
  In k hdr_fields ->
  hget (merged [Some ph; oh]) k = (if is_nil (hget ph k) then hget_opt oh k else hget ph k).
Proof. intro H. unfold merged. cbn [fold_left merge_opt]. apply hget_merge_opt; auto. Qed.

Lemma merged_no_protected oh k : In k hdr_fields -> hget (merged [None; oh]) k = hget_opt oh k.
Proof.
  intro H. unfold merged. cbn [fold_left merge_opt]. destruct oh as [h|]; cbn [merge_opt hget_opt]; [|reflexivity].
  rewrite hget_merge by exact H. reflexivity.
Qed.

(* JWE: protected, then shared unprotected, then per-recipient *)
Lemma merged3 ph u r k :
  In k hdr_fields ->
  hget (merged [Some ph; u; r]) k =
  (if is_nil (hget ph k) then (if is_nil (hget_opt u k) then hget_opt r k else hget_opt u k) else hget ph k).
Proof.
  intro H. unfold merged. cbn [fold_left]. change (merge_opt [] (Some ph)) with (merge [] ph).
  set (X := merge_opt (merge [] ph) u).
  assert (EX : hget X k = (if is_nil (hget ph k) then hget_opt u k else hget ph k)) by (apply hget_merge_opt; exact H).
  destruct r as [r|]; cbn [merge_opt hget_opt].
  - rewrite hget_merge by exact H. rewrite EX.
    destruct (is_nil (hget ph k)) eqn:E1; [|rewrite E1; reflexivity].
    destruct (is_nil (hget_opt u k)); reflexivity.
  - rewrite EX. destruct (is_nil (hget ph k)); [|reflexivity]. destruct (hget_opt u k); reflexivity.
Qed.

(* ------------------------------------------------------------------ JWS: parse (FullSerialize o) *)
Lemma decode_member_none : decode_member None = Ok [].
Proof. reflexivity. Qed.
Lemma has_nonce_none : has_nonce None = false.
Proof. reflexivity. Qed.

Local Opaque b64url_encode decode_member has_nonce.

Section JwsJson.
  Variable hdr_dec : bytes -> option header.

  (* what the parser returns for a signature of the object in memory *)
  Definition view_sig (s : jsig) : psig :=
    {| ps_prot := se_prot s; ps_phdr := (if is_nil (se_prot s) then None else Some (se_ph s));
       ps_hdr := se_hdr s; ps_sig := se_sig s |}.

  (* a signature as Sign / a parser produced it: its protected bytes are the encoding of its
     protected header value (oracle: encoding/json of rawHeader), no nonce outside the protected header *)
  Definition wf_sig (s : jsig) : Prop :=
    wf_bytes (se_prot s) /\ wf_bytes (se_sig s) /\ has_nonce (se_hdr s) = false /\
    (se_prot s <> [] -> hdr_dec (se_prot s) = Some (se_ph s)).

  Lemma parse_entry s : wf_sig s ->
    parse_sig hdr_dec (jstr1 (sig_members s) n_protected) (jhdr1 (sig_members s) n_header)
              (jstr1 (sig_members s) n_signature) = Ok (view_sig s).
  Proof.
    intros (Wp & Ws & Hn & Hd). destruct s as [p ph h sg]. cbn [se_prot se_ph se_hdr se_sig] in *.
    unfold view_sig, sig_members, parse_sig. cbn [se_prot se_ph se_hdr se_sig].
    destruct p as [|p0 p]; destruct h as [h|]; cbn [is_nil negb opt_member app]; cbn.
    all: try rewrite (decode_member_enc _ Wp); try rewrite (decode_member_enc _ Ws); cbn [bind is_nil].
    all: try rewrite (Hd ltac:(discriminate)); cbn [bind]; try rewrite Hn; reflexivity.
  Qed.

  Lemma jstr_general pl items :
    jstr [(n_payload, MStr pl); (n_signatures, MArr items)] n_payload = Some pl.
  Proof. reflexivity. Qed.
  Lemma jstr_general_none pl items :
    jstr [(n_payload, MStr pl); (n_signatures, MArr items)] n_protected = None /\
    jstr [(n_payload, MStr pl); (n_signatures, MArr items)] n_signature = None.
  Proof. split; reflexivity. Qed.
  Lemma jarr_general pl items :
    jarr [(n_payload, MStr pl); (n_signatures, MArr items)] n_signatures = items.
  Proof. reflexivity. Qed.

  Definition wf_jws_obj (o : jws_obj) : Prop :=
    wf_bytes (jo_payload o) /\ jo_sigs o <> [] /\ (forall s, In s (jo_sigs o) -> wf_sig s).

  (* parse (FullSerialize o): one signature -> flattened, two or more -> general; the parser
     returns the payload and, per signature, the ORIGINAL protected bytes, their parsed value, the
     unprotected header and the signature, in order *)
  Lemma parse_jws_full_serialize o :
    wf_jws_obj o -> parse_jws_full hdr_dec (jws_full o) = Ok (jo_payload o, map view_sig (jo_sigs o)).
  Proof.
    intros (Wl & NE & Ws). destruct o as [pl sigs]. cbn [jo_payload jo_sigs] in *.
    unfold parse_jws_full, jws_full. cbn [jo_payload jo_sigs].
    destruct sigs as [|s1 [|s2 rest]]; [contradiction| |].
    - (* flattened *)
      pose proof (parse_entry s1 (Ws s1 (or_introl eq_refl))) as P.
      destruct s1 as [p ph h sg]. unfold sig_members in *. cbn [se_prot se_ph se_hdr se_sig] in *.
      destruct p as [|p0 p]; destruct h as [h|]; cbn [is_nil negb opt_member app map lift_leaf] in *; cbn in *.
      all: destruct (Ws _ (or_introl eq_refl)) as (Wp1 & Ws1 & _); cbn [se_prot se_sig] in Wp1, Ws1.
      all: rewrite (decode_member_enc _ Wl); cbn [bind]; try rewrite (decode_member_enc _ Wp1); try rewrite decode_member_none;
        cbn [bind]; rewrite (decode_member_enc _ Ws1); cbn [bind]; rewrite P; reflexivity.
    - (* general *)
      destruct (jstr_general_none (b64url_encode pl) (map sig_members (s1 :: s2 :: rest))) as [N1 N2].
      rewrite jstr_general, (decode_member_enc _ Wl), N1, N2, decode_member_none. cbn [bind]. rewrite jarr_general.
      cbn [map]. change (sig_members s1 :: sig_members s2 :: map sig_members rest) with (map sig_members (s1 :: s2 :: rest)).
      rewrite (map_res_map sig_members _ view_sig) by (intros x Hx; apply parse_entry, Ws, Hx).
      reflexivity.
  Qed.

  (* the same through the text: encoding/json as an oracle pair with the round-trip hypothesis *)
  Variable json_enc : jobj -> bytes.
  Variable json_dec : bytes -> option jobj.
  Hypothesis json_roundtrip : forall o, json_dec (json_enc o) = Some o.
  (* json.Marshal output starts with an opening brace and contains no white space outside strings; base64url
     members contain none; header strings are assumed free of it (ParseSigned strips white space
     from the whole text before parsing, inside strings too) *)
  Hypothesis json_text : forall o, strip_ws (json_enc o) = json_enc o /\ starts_with_brace (json_enc o) = true.

  Lemma parse_signed_full_serialize o :
    wf_jws_obj o ->
    parse_signed_json json_dec hdr_dec (json_enc (jws_full o)) = Ok (jo_payload o, map view_sig (jo_sigs o)).
  Proof.
    intro W. unfold parse_signed_json. destruct (json_text (jws_full o)) as [-> ->].
    rewrite json_roundtrip. apply parse_jws_full_serialize. exact W.
  Qed.
End JwsJson.

(* ------------------------------------------------------------------ multi-signature Verify *)
Lemma jws_verify_multi_some verify payload sigs s :
  In s sigs -> hget (psig_merged s) n_crit = [] ->
  verify (hget (psig_merged s) n_alg) (signing_input (ps_prot s) payload) (ps_sig s) = true ->
  jws_verify_multi verify payload sigs = Ok payload.
Proof.
  intros Hin Hc Hv. induction sigs as [|x sigs IH]; [contradiction|]. cbn [jws_verify_multi].
  destruct Hin as [->|Hin].
  - rewrite Hc. cbn [is_nil negb]. rewrite Hv. reflexivity.
  - destruct (negb (is_nil (hget (psig_merged x) n_crit))); [apply IH; exact Hin|].
    destruct (verify (hget (psig_merged x) n_alg) (signing_input (ps_prot x) payload) (ps_sig x));
      [reflexivity|apply IH; exact Hin].
Qed.

Lemma jws_verify_multi_none verify payload sigs :
  (forall s, In s sigs -> hget (psig_merged s) n_crit = [] ->
     verify (hget (psig_merged s) n_alg) (signing_input (ps_prot s) payload) (ps_sig s) = false) ->
  jws_verify_multi verify payload sigs = Err e_crypto.
Proof.
  induction sigs as [|x sigs IH]; intro H; [reflexivity|]. cbn [jws_verify_multi].
  destruct (is_nil (hget (psig_merged x) n_crit)) eqn:Ec; cbn [negb].
  - rewrite (H x (or_introl eq_refl)) by (destruct (hget (psig_merged x) n_crit); [reflexivity|discriminate]).
    apply IH. intros s Hs. apply H. right. exact Hs.
  - apply IH. intros s Hs. apply H. right. exact Hs.
Qed.

(* the algorithm a signature is verified under is its PROTECTED header's whenever that names one *)
Lemma verify_alg_protected s ph :
  ps_phdr s = Some ph -> hget ph n_alg <> [] -> hget (psig_merged s) n_alg = hget ph n_alg.
Proof.
  intros E NE. unfold psig_merged. rewrite E. rewrite merged_protected_wins by (cbn; auto).
  destruct (hget ph n_alg); [contradiction|reflexivity].
Qed.

(* ------------------------------------------------------------------ JWE: parse (FullSerialize o) *)
Section JweJson.
  Variable hdr_dec : bytes -> option header.

  Definition view_jwe (o : jwe_obj) : pjwe :=
    {| pe_prot := eo_prot o; pe_phdr := Some (eo_ph o); pe_unprot := eo_unprot o; pe_recips := eo_recips o;
       pe_aad := eo_aad o; pe_iv := eo_iv o; pe_ct := eo_ct o; pe_tag := eo_tag o |}.

  Definition wf_recip (r : jrecip) : Prop := wf_bytes (rc_key r) /\ has_nonce (rc_hdr r) = false.

  (* an object as Encrypt produced it: non-empty protected header (it carries enc) whose bytes are
     the encoding of its value, no nonce in unprotected headers, at least one recipient, and alg/enc
     present in every recipient's merged header *)
  Definition wf_jwe_obj (o : jwe_obj) : Prop :=
    wf_bytes (eo_prot o) /\ eo_prot o <> [] /\ hdr_dec (eo_prot o) = Some (eo_ph o) /\
    has_nonce (eo_unprot o) = false /\ eo_recips o <> [] /\ (forall r, In r (eo_recips o) -> wf_recip r) /\
    forallb (recip_ok (Some (eo_ph o)) (eo_unprot o)) (eo_recips o) = true /\
    wf_bytes (eo_aad o) /\ wf_bytes (eo_iv o) /\ wf_bytes (eo_ct o) /\ wf_bytes (eo_tag o).

  Definition key_member (k : bytes) : option bytes := if is_nil k then None else Some (b64url_encode k).

  Lemma decode_key_member k : wf_bytes k -> decode_member (key_member k) = Ok k.
  Proof.
    intro W. unfold key_member. destruct k as [|k0 k]; cbn [is_nil]; [apply decode_member_none|].
    apply decode_member_enc. exact W.
  Qed.

  (* members of the serialized object, one lemma per lookup *)
  Lemma jwe_members p0 p ph u rs a iv ct tag :
    let o := {| eo_prot := p0 :: p; eo_ph := ph; eo_unprot := u; eo_recips := rs; eo_aad := a;
                eo_iv := iv; eo_ct := ct; eo_tag := tag |} in
    jstr (jwe_full o) n_protected = Some (b64url_encode (p0 :: p)) /\
    jstr (jwe_full o) n_iv = Some (b64url_encode iv) /\
    jstr (jwe_full o) n_ciphertext = Some (b64url_encode ct) /\
    jstr (jwe_full o) n_tag = Some (b64url_encode tag).
  Proof.
    cbn zeta. unfold jwe_full, key_member. cbn [eo_prot eo_unprot eo_recips eo_aad eo_iv eo_ct eo_tag is_nil negb opt_member].
    destruct u as [u|]; destruct a as [|a0 a]; cbn [is_nil negb opt_member app]; repeat split; reflexivity.
  Qed.

  Lemma jwe_members_flat p0 p ph u r a iv ct tag :
    let o := {| eo_prot := p0 :: p; eo_ph := ph; eo_unprot := u; eo_recips := [r]; eo_aad := a;
                eo_iv := iv; eo_ct := ct; eo_tag := tag |} in
    jarr (jwe_full o) n_recipients = [] /\ jhdr (jwe_full o) n_header = rc_hdr r /\
    jstr (jwe_full o) n_encrypted_key = key_member (rc_key r) /\ jstr (jwe_full o) n_aad = key_member a /\
    jhdr (jwe_full o) n_unprotected = u.
  Proof.
    cbn zeta. unfold jwe_full, key_member, recip_members.
    cbn [eo_prot eo_unprot eo_recips eo_aad eo_iv eo_ct eo_tag is_nil negb opt_member].
    destruct u as [u|]; destruct a as [|a0 a]; destruct r as [[h|] [|k0 k]];
      cbn [rc_hdr rc_key is_nil negb opt_member app map lift_leaf]; repeat split; reflexivity.
  Qed.

  Lemma jwe_members_general p0 p ph u r1 r2 rest a iv ct tag :
    let o := {| eo_prot := p0 :: p; eo_ph := ph; eo_unprot := u; eo_recips := r1 :: r2 :: rest; eo_aad := a;
                eo_iv := iv; eo_ct := ct; eo_tag := tag |} in
    jarr (jwe_full o) n_recipients = map recip_members (r1 :: r2 :: rest) /\ jhdr (jwe_full o) n_header = None /\
    jstr (jwe_full o) n_aad = key_member a /\ jhdr (jwe_full o) n_unprotected = u /\
    jstr (jwe_full o) n_encrypted_key = key_member (rc_key r1).
  Proof.
    cbn zeta. unfold jwe_full, key_member.
    cbn [eo_prot eo_unprot eo_recips eo_aad eo_iv eo_ct eo_tag is_nil negb opt_member].
    destruct u as [u|]; destruct a as [|a0 a]; destruct (rc_key r1) as [|k0 k];
      cbn [is_nil negb opt_member app]; repeat split; reflexivity.
  Qed.

  Lemma parse_recip_members r : wf_recip r -> parse_recip (recip_members r) = Ok r.
  Proof.
    intros (Wk & Hn). destruct r as [h k]. cbn [rc_hdr rc_key] in *. unfold parse_recip, recip_members.
    cbn [rc_hdr rc_key].
    assert (E1 : jstr1 (match h with Some h0 => [(n_header, LHdr h0)] | None => [] end ++
                        opt_member n_encrypted_key (negb (is_nil k)) (LStr (b64url_encode k))) n_encrypted_key = key_member k)
      by (unfold key_member; destruct h; destruct k; reflexivity).
    assert (E2 : jhdr1 (match h with Some h0 => [(n_header, LHdr h0)] | None => [] end ++
                        opt_member n_encrypted_key (negb (is_nil k)) (LStr (b64url_encode k))) n_header = h)
      by (destruct h; destruct k; reflexivity).
    rewrite E1, E2, (decode_key_member k Wk). cbn [bind]. rewrite Hn. reflexivity.
  Qed.

  Lemma parse_jwe_full_serialize o :
    wf_jwe_obj o -> parse_jwe_full hdr_dec (jwe_full o) = Ok (view_jwe o).
  Proof.
    intros (Wp & NE & Hd & Hnu & NR & Wr & Hok & Wa & Wi & Wc & Wt).
    destruct o as [p ph u rs a iv ct tag]. cbn [eo_prot eo_ph eo_unprot eo_recips eo_aad eo_iv eo_ct eo_tag] in *.
    destruct p as [|p0 p]; [contradiction|].
    destruct (jwe_members p0 p ph u rs a iv ct tag) as (M1 & M3 & M4 & M5). cbn zeta in *.
    unfold parse_jwe_full, view_jwe. cbn [eo_prot eo_ph eo_unprot eo_recips eo_aad eo_iv eo_ct eo_tag].

    destruct rs as [|r1 [|r2 rest]]; [contradiction| |].
    - destruct r1 as [h k].
      destruct (jwe_members_flat p0 p ph u {| rc_hdr := h; rc_key := k |} a iv ct tag) as (F1 & F2 & F3 & F4 & F5). cbn zeta in *.
      cbn [rc_hdr rc_key] in *.
      rewrite M1, M3, M4, M5, F1, F2, F3, F4, F5, Hnu, (decode_key_member a Wa). destruct (Wr _ (or_introl eq_refl)) as [Wk Hnr]. cbn [rc_hdr rc_key] in *. rewrite Hnr.
      rewrite (decode_member_enc _ Wp), (decode_member_enc _ Wi), (decode_member_enc _ Wc), (decode_member_enc _ Wt).
      cbn [orb bind is_nil]. rewrite Hd. cbn [bind]. rewrite (decode_key_member _ Wk). cbn [bind]. rewrite Hok. cbn [negb bind]. reflexivity.
    - destruct (jwe_members_general p0 p ph u r1 r2 rest a iv ct tag) as (G1 & G2 & G3 & G4 & G5). cbn zeta in *.
      destruct (Wr r1 (or_introl eq_refl)) as [Wk1 _].
      rewrite M1, M3, M4, M5, G1, G2, G3, G4, G5, (decode_key_member _ Wk1), Hnu, (decode_key_member a Wa), has_nonce_none.
      rewrite (decode_member_enc _ Wp), (decode_member_enc _ Wi), (decode_member_enc _ Wc), (decode_member_enc _ Wt).
      cbn [orb bind is_nil]. rewrite Hd. cbn [bind map].
      change (recip_members r1 :: recip_members r2 :: map recip_members rest) with (map recip_members (r1 :: r2 :: rest)).
      rewrite (map_res_map recip_members parse_recip (fun r => r)) by (intros x Hx; apply parse_recip_members, Wr, Hx).
      rewrite map_id. cbn [bind]. rewrite Hok. cbn [negb bind]. reflexivity.
  Qed.

  Variable json_enc : jobj -> bytes.
  Variable json_dec : bytes -> option jobj.
  Hypothesis json_roundtrip : forall o, json_dec (json_enc o) = Some o.
  Hypothesis json_text : forall o, strip_ws (json_enc o) = json_enc o /\ starts_with_brace (json_enc o) = true.

  Lemma parse_encrypted_full_serialize o :
    wf_jwe_obj o -> parse_encrypted_json json_dec hdr_dec (json_enc (jwe_full o)) = Ok (view_jwe o).
  Proof.
    intro W. unfold parse_encrypted_json. destruct (json_text (jwe_full o)) as [-> ->].
    rewrite json_roundtrip. apply parse_jwe_full_serialize. exact W.
  Qed.

  (* the decrypter's AAD is the encrypter's: computed from the protected bytes as received *)
  Lemma pjwe_aad_view o :
    pjwe_aad (view_jwe o) = aad_input (eo_prot o) (if is_nil (eo_aad o) then None else Some (eo_aad o)).
  Proof. reflexivity. Qed.
End JweJson.

(* ------------------------------------------------------------------ ACME *)
(* key authorization = token '.' base64url(thumbprint): the two parts are recovered by splitting at
   the dot (tokens are base64url text, so they contain none), hence it determines both *)
Lemma key_authorization_split token thumb :
  no_dot token -> split_dot (key_authorization token thumb) = [token; b64url_encode thumb].
Proof.
  intro H. unfold key_authorization. rewrite split_dot_app by exact H.
  rewrite split_dot_no_dot by apply enc_no_dot. reflexivity.
Qed.

Lemma key_authorization_injective t th t' th' :
  no_dot t -> no_dot t' -> wf_bytes th -> wf_bytes th' ->
  key_authorization t th = key_authorization t' th' -> t = t' /\ th = th'.
Proof.
  intros Ht Ht' W W' E. unfold key_authorization in E. apply app_dot_inj in E; try assumption.
  destruct E as [-> E]. split; [reflexivity|]. apply b64url_encode_injective; assumption.
Qed.

Section Acme.
  Variable hdr_enc : header -> bytes.
  Variable hdr_dec : bytes -> option header.
  (* encoding/json of the protected header struct, as an oracle pair *)
  Hypothesis hdr_roundtrip : forall h, hdr_dec (hdr_enc h) = Some h.
  Hypothesis hdr_wf : forall h, wf_bytes (hdr_enc h) /\ hdr_enc h <> [].
  Variable sign : bytes -> bytes.
  Hypothesis sign_wf : forall m, wf_bytes (sign m).

  Lemma hdr_enc_injective h h' : hdr_enc h = hdr_enc h' -> h = h'.
  Proof. intro E. pose proof (hdr_roundtrip h) as H. rewrite E, hdr_roundtrip in H. congruence. Qed.

  (* the request the client posts parses back to: the content, and one signature whose protected
     header -- the bytes that are signed -- carries alg, the account jwk and the nonce; there is no
     unprotected header, so the parser's "nonce must be protected" rule is met *)
  Lemma acme_request_parses alg jwk nonce content :
    wf_bytes content ->
    let h := acme_header alg jwk nonce in
    parse_jws_full hdr_dec (jws_full (acme_request hdr_enc sign alg jwk nonce content)) =
    Ok (content, [{| ps_prot := hdr_enc h; ps_phdr := Some h; ps_hdr := None;
                     ps_sig := sign (signing_input (hdr_enc h) content) |}]).
  Proof.
    intros Wc h. destruct (hdr_wf h) as [Wh NEh].
    rewrite (parse_jws_full_serialize hdr_dec).
    - unfold acme_request. cbn [jo_payload jo_sigs map]. unfold view_sig. cbn [se_prot se_ph se_hdr se_sig].
      fold h. destruct (hdr_enc h) eqn:E; [contradiction|]. reflexivity.
    - unfold wf_jws_obj, acme_request. cbn [jo_payload jo_sigs]. split; [exact Wc|]. split; [discriminate|].
      intros s [<-|[]]. unfold wf_sig. cbn [se_prot se_ph se_hdr se_sig]. fold h.
      repeat split; auto.
  Qed.

  Lemma acme_merged_fields alg jwk nonce :
    let s := {| ps_prot := hdr_enc (acme_header alg jwk nonce); ps_phdr := Some (acme_header alg jwk nonce);
                ps_hdr := None; ps_sig := [] |} in
    hget (psig_merged s) n_alg = alg /\ hget (psig_merged s) n_nonce = nonce /\ hget (psig_merged s) n_jwk = jwk.
  Proof.
    cbn zeta. unfold psig_merged. cbn [ps_phdr ps_hdr].
    rewrite !merged_protected_wins by (cbn; auto 15).
    unfold acme_header. vm_compute hget. cbn [hget_opt].
    destruct alg; destruct nonce; destruct jwk; auto.
  Qed.

  (* the nonce is bound by the signature: the signing input of a request with another nonce is
     another string, so (under an ideal signature) the old signature does not verify for it *)
  Lemma acme_nonce_bound alg jwk nonce nonce' content :
    wf_bytes content -> nonce' <> nonce ->
    signing_input (hdr_enc (acme_header alg jwk nonce')) content <>
    signing_input (hdr_enc (acme_header alg jwk nonce)) content.
  Proof.
    intros Wc NE E. apply signing_input_injective in E; try assumption; try apply hdr_wf.
    destruct E as [E _]. apply hdr_enc_injective in E. unfold acme_header in E. inversion E. contradiction.
  Qed.
End Acme.
