(* Proofs about Model/Jose.v: flattened / general JSON serializations over the abstract JSON object
   layer, header merging, multi-signature verification, multi-recipient parsing, ACME requests. *)
From Verif Require Import Lib.Base Lib.Sx Model.Jose Proofs.Jose Proofs.JoseCompact Proofs.JoseCipher.
Open Scope N_scope.

(* ------------------------------------------------------------------ members *)
Lemma b64url_encode_nil_inv b : wf_bytes b -> b64url_encode b = [] -> b = [].
Proof.
  intros W E. pose proof (b64_dec_enc b W) as H. rewrite E in H. vm_compute in H. inversion H. reflexivity.
Qed.

Lemma decode_member_enc b : wf_bytes b -> decode_member (Some (b64url_encode b)) = Ok b.
Proof.
  intro W. unfold decode_member. destruct (b64url_encode b) as [|c r] eqn:E.
  - cbn [is_nil]. rewrite (b64url_encode_nil_inv b W E). reflexivity.
  - cbn [is_nil]. rewrite <- E. apply b64url_decode_r_enc. exact W.
Qed.

Lemma map_res_map {A B C} (g : A -> B) (f : B -> res C) (v : A -> C) l :
  (forall x, In x l -> f (g x) = Ok (v x)) -> map_res f (map g l) = Ok (map v l).
Proof.
  induction l as [|x l IH]; intro H; [reflexivity|]. cbn [map map_res].
  rewrite (H x (or_introl eq_refl)). cbn [bind]. rewrite IH by (intros y Hy; apply H; right; exact Hy). reflexivity.
Qed.

(* ------------------------------------------------------------------ header merging *)
Lemma hget_merge d s k :
  In k hdr_fields -> hget (merge d s) k = (if is_nil (hget d k) then hget s k else hget d k).
Proof.
  intro H. unfold merge, hdr_fields in *. cbn [In] in H.
  repeat (destruct H as [<-|H]; [vm_compute bytes_eqb; cbn; reflexivity|]). contradiction.
Qed.

Lemma hget_nil k : hget [] k = [].
Proof. reflexivity. Qed.

Definition hget_opt (h : option header) (k : bytes) : bytes := match h with Some x => hget x k | None => [] end.

Lemma hget_merge_opt d s k :
  In k hdr_fields ->
  hget (merge_opt (merge [] d) s) k = (if is_nil (hget d k) then hget_opt s k else hget d k).
Proof.
  intros H. destruct s as [s|]; cbn [merge_opt hget_opt].
  - rewrite hget_merge by exact H. rewrite hget_merge by exact H. rewrite hget_nil. cbn [is_nil]. reflexivity.
  - rewrite hget_merge by exact H. rewrite hget_nil. cbn [is_nil]. destruct (hget d k); reflexivity.
Qed.

(* JWS: merged = protected, then unprotected.  The protected header wins on every field it sets;
   the code does not reject a name that occurs in both (it only never lets the unprotected value
   through) *)
Lemma merged_protected_wins ph oh k :
  In k hdr_fields ->
  hget (merged [Some ph; oh]) k = (if is_nil (hget ph k) then hget_opt oh k else hget ph k).
Proof. intro H. unfold merged. cbn [fold_left merge_opt]. apply hget_merge_opt; auto. Qed.

Lemma merged_no_protected oh k : In k hdr_fields -> hget (merged [None; oh]) k = hget_opt oh k.
Proof.
  intro H. unfold merged. cbn [fold_left merge_opt]. destruct oh as [h|]; cbn [merge_opt hget_opt]; [|reflexivity].
  rewrite hget_merge by exact H. reflexivity.
Qed.

(* JWE: protected, then shared unprotected, then per-recipient *)
Lemma merged3 ph u r k :
  In k hdr_fields ->
  hget (merged [Some ph; u; r]) k =
  (if is_nil (hget ph k) then (if is_nil (hget_opt u k) then hget_opt r k else hget_opt u k) else hget ph k).
Proof.
  intro H. unfold merged. cbn [fold_left]. change (merge_opt [] (Some ph)) with (merge [] ph).
  set (X := merge_opt (merge [] ph) u).
  assert (EX : hget X k = (if is_nil (hget ph k) then hget_opt u k else hget ph k)) by (apply hget_merge_opt; exact H).
  destruct r as [r|]; cbn [merge_opt hget_opt].
  - rewrite hget_merge by exact H. rewrite EX.
    destruct (is_nil (hget ph k)) eqn:E1; [|rewrite E1; reflexivity].
    destruct (is_nil (hget_opt u k)); reflexivity.
  - rewrite EX. destruct (is_nil (hget ph k)); [|reflexivity]. destruct (hget_opt u k); reflexivity.
Qed.

(* ------------------------------------------------------------------ JWS: parse (FullSerialize o) *)
Local Opaque b64url_encode decode_member has_nonce.

Section JwsJson.
  Variable hdr_dec : bytes -> option header.

  (* what the parser returns for a signature of the object in memory *)
  Definition view_sig (s : jsig) : psig :=
    {| ps_prot := se_prot s; ps_phdr := (if is_nil (se_prot s) then None else Some (se_ph s));
       ps_hdr := se_hdr s; ps_sig := se_sig s |}.

  (* a signature as Sign / a parser produced it: its protected bytes are the encoding of its
     protected header value (oracle: encoding/json of rawHeader), no nonce outside the protected header *)
  Definition wf_sig (s : jsig) : Prop :=
    wf_bytes (se_prot s) /\ wf_bytes (se_sig s) /\ has_nonce (se_hdr s) = false /\
    (se_prot s <> [] -> hdr_dec (se_prot s) = Some (se_ph s)).

  Lemma parse_entry s : wf_sig s ->
    parse_sig hdr_dec (jstr1 (sig_members s) n_protected) (jhdr1 (sig_members s) n_header)
              (jstr1 (sig_members s) n_signature) = Ok (view_sig s).
  Proof.
    intros (Wp & Ws & Hn & Hd). destruct s as [p ph h sg]. cbn [se_prot se_ph se_hdr se_sig] in *.
    unfold view_sig, sig_members, parse_sig. cbn [se_prot se_ph se_hdr se_sig].
    destruct p as [|p0 p]; destruct h as [h|]; cbn [is_nil negb opt_member app]; cbn.
    all: try rewrite (decode_member_enc _ Wp); try rewrite (decode_member_enc _ Ws); cbn [bind is_nil].
    all: try rewrite (Hd ltac:(discriminate)); cbn [bind]; try rewrite Hn; reflexivity.
  Qed.

  Lemma jstr_general pl items :
    jstr [(n_payload, MStr pl); (n_signatures, MArr items)] n_payload = Some pl.
  Proof. reflexivity. Qed.
  Lemma jarr_general pl items :
    jarr [(n_payload, MStr pl); (n_signatures, MArr items)] n_signatures = items.
  Proof. reflexivity. Qed.

  Definition wf_jws_obj (o : jws_obj) : Prop :=
    wf_bytes (jo_payload o) /\ jo_sigs o <> [] /\ (forall s, In s (jo_sigs o) -> wf_sig s).

  (* parse (FullSerialize o): one signature -> flattened, two or more -> general; the parser
     returns the payload and, per signature, the ORIGINAL protected bytes, their parsed value, the
     unprotected header and the signature, in order *)
  Lemma parse_jws_full_serialize o :
    wf_jws_obj o -> parse_jws_full hdr_dec (jws_full o) = Ok (jo_payload o, map view_sig (jo_sigs o)).
  Proof.
    intros (Wl & NE & Ws). destruct o as [pl sigs]. cbn [jo_payload jo_sigs] in *.
    unfold parse_jws_full, jws_full. cbn [jo_payload jo_sigs].
    destruct sigs as [|s1 [|s2 rest]]; [contradiction| |].
    - (* flattened *)
      pose proof (parse_entry s1 (Ws s1 (or_introl eq_refl))) as P.
      destruct s1 as [p ph h sg]. unfold sig_members in *. cbn [se_prot se_ph se_hdr se_sig] in *.
      destruct p as [|p0 p]; destruct h as [h|]; cbn [is_nil negb opt_member app map lift_leaf] in *; cbn in *.
      all: rewrite (decode_member_enc _ Wl); cbn [bind]; rewrite P; reflexivity.
    - (* general *)
      rewrite jstr_general, (decode_member_enc _ Wl). cbn [bind]. rewrite jarr_general.
      cbn [map]. change (sig_members s1 :: sig_members s2 :: map sig_members rest) with (map sig_members (s1 :: s2 :: rest)).
      rewrite (map_res_map sig_members _ view_sig) by (intros x Hx; apply parse_entry, Ws, Hx).
      reflexivity.
  Qed.

  (* the same through the text: encoding/json as an oracle pair with the round-trip hypothesis *)
  Variable json_enc : jobj -> bytes.
  Variable json_dec : bytes -> option jobj.
  Hypothesis json_roundtrip : forall o, json_dec (json_enc o) = Some o.
  (* json.Marshal output starts with an opening brace and contains no white space outside strings; base64url
     members contain none; header strings are assumed free of it (ParseSigned strips white space
     from the whole text before parsing, inside strings too) *)
  Hypothesis json_text : forall o, strip_ws (json_enc o) = json_enc o /\ starts_with_brace (json_enc o) = true.

  Lemma parse_signed_full_serialize o :
    wf_jws_obj o ->
    parse_signed_json json_dec hdr_dec (json_enc (jws_full o)) = Ok (jo_payload o, map view_sig (jo_sigs o)).
  Proof.
    intro W. unfold parse_signed_json. destruct (json_text (jws_full o)) as [-> ->].
    rewrite json_roundtrip. apply parse_jws_full_serialize. exact W.
  Qed.
End JwsJson.

(* ------------------------------------------------------------------ multi-signature Verify *)
Lemma jws_verify_multi_some verify payload sigs s :
  In s sigs -> hget (psig_merged s) n_crit = [] ->
  verify (hget (psig_merged s) n_alg) (signing_input (ps_prot s) payload) (ps_sig s) = true ->
  jws_verify_multi verify payload sigs = Ok payload.
Proof.
  intros Hin Hc Hv. induction sigs as [|x sigs IH]; [contradiction|]. cbn [jws_verify_multi].
  destruct Hin as [->|Hin].
  - rewrite Hc. cbn [is_nil negb]. rewrite Hv. reflexivity.
  - destruct (negb (is_nil (hget (psig_merged x) n_crit))); [apply IH; exact Hin|].
    destruct (verify (hget (psig_merged x) n_alg) (signing_input (ps_prot x) payload) (ps_sig x));
      [reflexivity|apply IH; exact Hin].
Qed.

Lemma jws_verify_multi_none verify payload sigs :
  (forall s, In s sigs -> hget (psig_merged s) n_crit = [] ->
     verify (hget (psig_merged s) n_alg) (signing_input (ps_prot s) payload) (ps_sig s) = false) ->
  jws_verify_multi verify payload sigs = Err e_crypto.
Proof.
  induction sigs as [|x sigs IH]; intro H; [reflexivity|]. cbn [jws_verify_multi].
  destruct (is_nil (hget (psig_merged x) n_crit)) eqn:Ec; cbn [negb].
  - rewrite (H x (or_introl eq_refl)) by (destruct (hget (psig_merged x) n_crit); [reflexivity|discriminate]).
    apply IH. intros s Hs. apply H. right. exact Hs.
  - apply IH. intros s Hs. apply H. right. exact Hs.
Qed.

(* the algorithm a signature is verified under is its PROTECTED header's whenever that names one *)
Lemma verify_alg_protected s ph :
  ps_phdr s = Some ph -> hget ph n_alg <> [] -> hget (psig_merged s) n_alg = hget ph n_alg.
Proof.
  intros E NE. unfold psig_merged. rewrite E. rewrite merged_protected_wins by (cbn; auto).
  destruct (hget ph n_alg); [contradiction|reflexivity].
Qed.
