(* C14 proofs, part 5: the RFC parser used by rfc_receive reads back every frame written per
   RFC 6455 5.2 (any FIN/RSV/opcode/mask, each of the three length forms, any payload), and refuses
   a 64-bit length with the top bit set -- so "every byte stream" in c14_refines_rfc covers every
   frame sequence. *)
From Verif Require Import Lib.Base Lib.Sx Lib.Utf8 Model.WsRead Proofs.WsReadUtf8 Proofs.WsRead Proofs.WsReadRefine Proofs.WsReadCut.
Open Scope N_scope.

Ltac Zify.zify_post_hook ::= Z.div_mod_to_equations.

Lemma be_val_be2 n : n < 65536 -> be_val (be2 n) = n.
Proof. intros H. unfold be_val, be2. cbn [be_val_acc]. lia. Qed.

Lemma be_val_be4 n acc : n < 4294967296 -> be_val_acc acc (be4 n) = acc * 4294967296 + n.
Proof. intros H. unfold be4. cbn [be_val_acc]. lia. Qed.

Lemma be_val_acc_app a b : forall acc, be_val_acc acc (a ++ b) = be_val_acc (be_val_acc acc a) b.
Proof. induction a as [|x t IH]; intros acc; cbn [app be_val_acc]; [reflexivity|apply IH]. Qed.

Lemma be_val_be8 n : n < 18446744073709551616 -> be_val (be8 n) = n.
Proof.
  intros H. unfold be_val, be8. rewrite be_val_acc_app.
  rewrite (be_val_be4 (n / 4294967296) 0) by lia. rewrite be_val_be4 by lia. lia.
Qed.

Definition form_ok (form len : N) : Prop :=
  (form = 7 /\ len < 126) \/ (form = 16 /\ len < 65536) \/ (form = 64 /\ len < 18446744073709551616).

Lemma rfc_header_ser fin rsv op masked form len key rest :
  rsv < 8 -> op < 16 -> form_ok form len -> length key = 4%nat ->
  rfc_header (ser_header fin rsv op masked form len key ++ rest) =
  if (form =? 64) && (two63 <=? len) then HBadLen
  else HOk (mkHdr fin rsv op masked (negb (form =? 7)) len (if masked then key else [])) rest.
Proof.
  intros Hr Ho Hf Hk. unfold ser_header. cbn [app]. rewrite rfc_header_cons.
  set (b0 := (if fin then 128 else 0) + rsv * 16 + op).
  set (l7 := if form =? 7 then len else if form =? 16 then 126 else 127).
  set (b1 := (if masked then 128 else 0) + l7).
  assert (Hl7 : l7 < 128) by (unfold l7; destruct Hf as [[-> H]|[[-> H]|[-> H]]]; cbn; lia).
  assert (F1 : (b0 / 128 =? 1) = fin) by (unfold b0; destruct fin; [apply N.eqb_eq|apply N.eqb_neq]; lia).
  assert (F2 : (b0 / 16) mod 8 = rsv) by (unfold b0; destruct fin; lia).
  assert (F3 : b0 mod 16 = op) by (unfold b0; destruct fin; lia).
  assert (G1 : (b1 / 128 =? 1) = masked) by (unfold b1; destruct masked; [apply N.eqb_eq|apply N.eqb_neq]; lia).
  assert (G2 : b1 mod 128 = l7) by (unfold b1; destruct masked; lia).
  rewrite F1, F2, F3, G1, G2. unfold hdr_parse.
  assert (KEY : forall ext, (if masked then
            match take 4 ((if masked then key else []) ++ rest) with
            | Some (k, r') => HOk (mkHdr fin rsv op masked ext len k) r'
            | None => HCut
            end
          else HOk (mkHdr fin rsv op masked ext len []) ((if masked then key else []) ++ rest))
          = HOk (mkHdr fin rsv op masked ext len (if masked then key else [])) rest).
  { intros ext. destruct masked; [|reflexivity].
    destruct key as [|k1 [|k2 [|k3 [|k4 [|? ?]]]]]; cbn in Hk; try lia. reflexivity. }
  destruct Hf as [[-> H]|[[-> H]|[-> H]]]; unfold l7; cbn [N.eqb Pos.eqb andb negb app].
  - replace (len <? 126) with true by (symmetry; apply N.ltb_lt; lia). apply KEY.
  - cbn [N.ltb N.compare Pos.compare Pos.compare_cont]. cbn [N.eqb Pos.eqb].
    unfold be2 at 1. cbn [app take]. fold (be2 len). rewrite be_val_be2 by lia. apply KEY.
  - cbn [N.ltb N.compare Pos.compare Pos.compare_cont]. cbn [N.eqb Pos.eqb].
    rewrite <- app_assoc.
    assert (T : take 8 (be8 len ++ (if masked then key else []) ++ rest) = Some (be8 len, (if masked then key else []) ++ rest))
      by reflexivity.
    rewrite T, be_val_be8 by lia. destruct (two63 <=? len); [reflexivity|apply KEY].
Qed.

Lemma lxor_twice a k : N.lxor (N.lxor a k) k = a.
Proof. rewrite N.lxor_assoc, N.lxor_nilpotent, N.lxor_0_r. reflexivity. Qed.

Lemma unmask_twice key p : forall i, rfc_unmask key i (rfc_unmask key i p) = p.
Proof. induction p as [|x t IH]; intros i; cbn [rfc_unmask]; [reflexivity|]. rewrite lxor_twice, IH. reflexivity. Qed.

Lemma split_at_exact p : forall rest acc, split_at (N.of_nat (length p)) (p ++ rest) acc = Some (rev acc ++ p, rest).
Proof.
  induction p as [|x t IH]; intros rest acc.
  - cbn [length N.of_nat app]. destruct rest; cbn [split_at N.eqb]; rewrite rev'_rev, app_nil_r; reflexivity.
  - cbn [length app split_at]. replace (N.of_nat (S (length t)) =? 0) with false by (symmetry; apply N.eqb_neq; lia).
    replace (N.pred (N.of_nat (S (length t)))) with (N.of_nat (length t)) by lia.
    rewrite IH. cbn [rev]. rewrite <- app_assoc. reflexivity.
Qed.

(* a whole frame: header, then the payload masked per 5.3 when the mask bit is set *)
Theorem frame_parses_back fin rsv op masked form key payload rest :
  rsv < 8 -> op < 16 -> form_ok form (lenN payload) -> lenN payload < two63 -> length key = 4%nat ->
  exists h, rfc_header (ser_frame fin rsv op masked form key payload ++ rest) =
              HOk h ((if masked then rfc_unmask key 0 payload else payload) ++ rest) /\
    f_fin h = fin /\ f_rsv h = rsv /\ f_op h = op /\ f_masked h = masked /\ f_len h = lenN payload /\
    rfc_payload h ((if masked then rfc_unmask key 0 payload else payload) ++ rest) = Some (payload, rest).
Proof.
  intros Hr Ho Hf Hl Hk. unfold ser_frame. rewrite <- app_assoc.
  rewrite (rfc_header_ser fin rsv op masked form (lenN payload) key _ Hr Ho Hf Hk).
  replace (two63 <=? lenN payload) with false by (symmetry; apply N.leb_gt; exact Hl). rewrite andb_false_r.
  eexists. split; [reflexivity|]. cbn [f_fin f_rsv f_op f_masked f_len f_key]. repeat split.
  unfold rfc_payload. cbn [f_len f_masked f_key]. rewrite lenN_length.
  destruct masked.
  - rewrite <- (length_unmask key payload 0) at 1. rewrite split_at_exact. cbn [rev app]. rewrite unmask_twice. reflexivity.
  - rewrite split_at_exact. reflexivity.
Qed.

(* the top bit: such a header is not a frame for the RFC receiver either *)
Theorem top_bit_not_a_frame fin rsv op masked len key rest :
  rsv < 8 -> op < 16 -> two63 <= len < 18446744073709551616 -> length key = 4%nat ->
  rfc_header (ser_header fin rsv op masked 64 len key ++ rest) = HBadLen.
Proof.
  intros Hr Ho Hl Hk.
  assert (Hf : form_ok 64 len) by (right; right; split; [reflexivity|lia]).
  rewrite (rfc_header_ser fin rsv op masked 64 len key rest Hr Ho Hf Hk). cbn [N.eqb Pos.eqb andb].
  replace (two63 <=? len) with true by (symmetry; apply N.leb_le; lia). reflexivity.
Qed.

(* non-vacuity: a masked 16-bit-form text frame "hi" followed by another byte *)
Example frame_example :
  rfc_header (ser_frame true 0 1 true 16 [1; 2; 3; 4] [104; 105] ++ [7]) =
  HOk (mkHdr true 0 1 true true 2 [1; 2; 3; 4]) [105; 107; 7].
Proof. vm_compute. reflexivity. Qed.

(* ------------------------------------------------------------------ valid frames are consumed as the RFC says *)
(* one step of the receiver on a well-formed data frame (first frame of a message when none is
   open, continuation otherwise), any of the length forms, masked as the role requires, within the
   size bound: its payload joins the open message, which is delivered when FIN is set *)
Theorem rfc_recv_data_frame server cap fuel open fin op form key payload rest evs :
  form_ok form (lenN payload) -> lenN payload < two63 -> length key = 4%nat ->
  (match open with Some _ => op = 0 | None => op = 1 \/ op = 2 end) ->
  snd (open_parts open (mkHdr fin 0 op server (negb (form =? 7)) (lenN payload) [])) + lenN payload <= cap ->
  rfc_recv (S fuel) server cap open (ser_frame fin 0 op server form key payload ++ rest) evs =
  (let '(t, fr, n) := open_parts open (mkHdr fin 0 op server (negb (form =? 7)) (lenN payload) []) in
   if fin then rfc_recv fuel server cap None rest (EvMsg t (concat (rev' (payload :: fr))) :: evs)
   else rfc_recv fuel server cap (Some (t, payload :: fr, n + lenN payload)) rest evs).
Proof.
  intros Hf Hl Hk Hop Hcap.
  assert (Ho : op < 16) by (destruct open; [subst; lia|destruct Hop; subst; lia]).
  destruct (frame_parses_back fin 0 op server form key payload rest ltac:(lia) Ho Hf Hl Hk)
    as (h & Eh & F1 & F2 & F3 & F4 & F5 & Ep).
  cbn [rfc_recv]. rewrite Eh.
  assert (Hv : rfc_violation server (match open with Some _ => true | None => false end) h = false).
  { unfold rfc_violation. rewrite F1, F2, F3, F4, F5. rewrite Bool.eqb_reflx. cbn [N.eqb negb orb].
    destruct open; [subst op; reflexivity|destruct Hop; subst op; reflexivity]. }
  rewrite Hv.
  replace (8 <=? f_op h) with false by (symmetry; apply N.leb_gt; rewrite F3; destruct open; [subst; lia|destruct Hop; subst; lia]).
  rewrite Ep, F1, F5.
  assert (Eo : match open with Some o => o | None => (f_op h, [], 0) end =
               open_parts open (mkHdr fin 0 op server (negb (form =? 7)) (lenN payload) [])).
  { unfold open_parts. destruct open; [reflexivity|]. cbn [f_op]. rewrite F3. reflexivity. }
  rewrite Eo. destruct (open_parts open _) as [[t fr] n]. cbn [snd] in Hcap.
  replace (cap <? n + lenN payload) with false by (symmetry; apply N.ltb_ge; exact Hcap). reflexivity.
Qed.

(* non-vacuity, chained: text "hi" in two fragments (16-bit and 7-bit length form), server role
   (masked), followed by other bytes *)
Example data_frames_example :
  fst (rfc_receive true 0 (ser_frame false 0 1 true 16 [1; 2; 3; 4] [104] ++ ser_frame true 0 0 true 7 [9; 9; 9; 9] [105]))
  = [EvMsg 1 [104; 105]].
Proof. vm_compute. reflexivity. Qed.

(* ------------------------------------------------------------------ a message under any fragmentation *)
(* a chunk = (length form, masking key, payload) *)
Definition chunk := (N * bytes * bytes)%type.
Definition chunk_ok (c : chunk) : Prop :=
  let '(form, key, p) := c in form_ok form (lenN p) /\ length key = 4%nat.

Fixpoint ser_chunks (server first : bool) (op : N) (chunks : list chunk) : bytes :=
  match chunks with
  | [] => []
  | (form, key, p) :: more =>
    ser_frame (match more with [] => true | _ => false end) 0 (if first then op else 0) server form key p
    ++ ser_chunks server false op more
  end.

Definition chunks_payload (chunks : list chunk) : bytes := concat (map (fun c : chunk => snd c) chunks).

Lemma rfc_recv_chunks server cap : forall chunks open fuel rest evs t fr n,
  chunks <> [] -> Forall chunk_ok chunks -> cap < two63 ->
  (match open with Some o => o = (t, fr, n) | None => (t = 1 \/ t = 2) /\ fr = [] /\ n = 0 end) ->
  n + lenN (chunks_payload chunks) <= cap ->
  rfc_recv (length chunks + fuel) server cap open
           (ser_chunks server (match open with None => true | Some _ => false end) t chunks ++ rest) evs =
  rfc_recv fuel server cap None rest (EvMsg t (concat (rev fr) ++ chunks_payload chunks) :: evs).
Proof.
  induction chunks as [|[[form key] p] more IH]; intros open fuel rest evs t fr n Hne Hok Hcap Hop Hsum; [contradiction|].
  inversion Hok as [|? ? Hc Hok']; subst. cbn in Hc. destruct Hc as [Hf Hk].
  unfold chunks_payload in Hsum. cbn [map concat snd] in Hsum. rewrite !lenN_length, app_length, Nat2N.inj_add in Hsum.
  fold (chunks_payload more) in Hsum.
  cbn [ser_chunks length plus]. rewrite <- app_assoc.
  set (op := if match open with None => true | Some _ => false end then t else 0).
  assert (Hopen : match open with Some _ => op = 0 | None => op = 1 \/ op = 2 end).
  { unfold op. destruct open; [reflexivity|]. destruct Hop as (H & _). exact H. }
  assert (Hparts : open_parts open (mkHdr (match more with [] => true | _ => false end) 0 op server (negb (form =? 7)) (lenN p) []) = (t, fr, n)).
  { unfold open_parts, op. destruct open as [o|]; [exact Hop|]. destruct Hop as (_ & -> & ->). reflexivity. }
  rewrite rfc_recv_data_frame; auto.
  2:{ rewrite lenN_length. unfold two63 in *. lia. }
  2:{ rewrite Hparts. cbn [snd]. rewrite lenN_length. lia. }
  rewrite Hparts.
  destruct more as [|c2 more'].
  - (* last fragment *)
    cbn [ser_chunks app length plus]. unfold chunks_payload. cbn [map concat snd]. rewrite app_nil_r, rev'_rev.
    cbn [rev]. rewrite concat_app. cbn [concat]. rewrite app_nil_r. reflexivity.
  - specialize (IH (Some (t, p :: fr, n + lenN p)) fuel rest evs t (p :: fr) (n + lenN p)).
    cbn [length plus] in IH |- *. rewrite IH; auto; try discriminate.
    + unfold chunks_payload. cbn [map concat snd rev]. rewrite concat_app. cbn [concat]. rewrite app_nil_r, <- !app_assoc.
      reflexivity.
    + rewrite !lenN_length. lia.
Qed.

(* A message of type op (1 text / 2 binary) sent as ANY non-empty sequence of fragments -- each in any
   admissible length form, with any key, of any size, the total within the receiver's bound -- is
   delivered as one message with the concatenated payload, and the receiver goes on with what
   follows.  (By c14_refines_rfc the library returns exactly that message.) *)
Theorem message_any_fragmentation server limit op chunks rest :
  chunks <> [] -> Forall chunk_ok chunks -> op = 1 \/ op = 2 -> (limit < 9223372036854775808)%Z ->
  lenN (chunks_payload chunks) <= rfc_cap limit ->
  forall fuel, rfc_recv (length chunks + fuel) server (rfc_cap limit) None (ser_chunks server true op chunks ++ rest) [] =
               rfc_recv fuel server (rfc_cap limit) None rest [EvMsg op (chunks_payload chunks)].
Proof.
  intros Hne Hok Hop Hl Hsum fuel.
  rewrite (rfc_recv_chunks server (rfc_cap limit) chunks None fuel rest [] op [] 0); auto.
  unfold rfc_cap, two63. destruct (0 <? limit)%Z eqn:E; [apply Z.ltb_lt in E|]; lia.
Qed.

Example fragmentation_example :
  rfc_receive false 5 (ser_chunks false true 2 [(7, [], [1; 2]); (16, [], [3]); (64, [], [4; 5])] ++ [137; 0])
  = ([EvMsg 2 [1; 2; 3; 4; 5]; EvPong []], OCut false).
Proof. vm_compute. reflexivity. Qed.
