(* C14 proofs, part 3: the property's clauses as corollaries; witnesses for the defects of the
   pinned snapshot (model parameter fixed = false). *)
From Verif Require Import Lib.Base Lib.Sx Lib.Utf8 Model.WsRead Proofs.WsReadUtf8 Proofs.WsRead Proofs.WsReadRefine.
From Verif Require Import Gen.Gen_websocket.
Open Scope Z_scope.

(* ------------------------------------------------------------------ top bit of a 64-bit length *)
Lemma hpe_is_err {A} m c : exists c', @handle_protocol_error A m c = MErr c' (EProto m).
Proof. unfold handle_protocol_error. destruct (write_control _ _ c) as [c' n]. eauto. Qed.

(* for EVERY reader state (any flags, any pending error, any earlier traffic) that is about to
   read a frame header: a 127-form length with the most significant bit set never yields a frame *)
Lemma top_bit_rejected c p0 p1 l r :
  c_rem c <= 0 -> c_in c = p0 :: p1 :: l ++ r -> wf_byte p0 -> wf_byte p1 -> wf_bytes l -> wf_bytes r ->
  length l = 8%nat -> (p1 mod 128 = 127)%N -> (9223372036854775808 <= be_val l)%N ->
  exists c' m, advance_frame true c = MErr c' (EProto m).
Proof.
  intros Hrem Hin H0 H1 Hwl Hwr Hl Hl7 Hbig.
  rewrite advance_frame_split. unfold af_skip.
  replace (0 <? c_rem c) with false by (symmetry; apply Z.ltb_ge; lia). cbn [mbind].
  unfold af_header. rewrite (af_head_eq c p0 p1 (l ++ r) Hin H0 H1). rewrite Hl7.
  destruct (head_violation _ _ _ _ _) as [m|].
  - destruct (@hpe_is_err (bool * Z * bool) m (set_rem (set_in c (l ++ r)) (Z.of_N 127))) as (c' & E).
    rewrite E. cbn [mbind]. eauto.
  - cbn [mbind].
    set (c2 := if (8 <=? p0 mod 16)%N then _ else _).
    assert (Hr2 : c_rem c2 = Z.of_N 127) by (unfold c2; destruct (8 <=? p0 mod 16)%N; reflexivity).
    assert (Hi2 : c_in c2 = l ++ r) by (unfold c2; destruct (8 <=? p0 mod 16)%N; reflexivity).
    rewrite (af_len_eq c2 127 Hr2 ltac:(lia)) by (rewrite Hi2; apply wf_app; auto).
    cbn [N.ltb N.eqb N.compare Pos.compare Pos.compare_cont Pos.eqb]. rewrite Hi2.
    assert (Ht : take 8 (l ++ r) = Some (l, r)).
    { destruct l as [|a [|b [|c3 [|d [|e [|f [|g [|i [|? ?]]]]]]]]]; cbn in Hl; try lia. reflexivity. }
    rewrite Ht. unfold two63. replace (9223372036854775808 <=? be_val l)%N with true by (symmetry; apply N.leb_le; lia).
    destruct (@hpe_is_err unit msg_len63 (set_rem (set_in c2 r) (zi64 (Z.of_N (be_val l))))) as (c' & E).
    rewrite E. cbn [mbind]. eauto.
Qed.

(* a byte list of the required shape exists: 0x82 0x7f 80 00 00 00 00 00 00 00 *)
Example top_bit_example :
  exists c' m, advance_frame true (new_conn false 0 ([130; 127] ++ [128; 0; 0; 0; 0; 0; 0; 0] ++ [129; 2; 104; 105])%N)
               = MErr c' (EProto m).
Proof. vm_compute. eauto. Qed.

(* ------------------------------------------------------------------ the defects of the pinned snapshot *)
(* 16: length 2^63 accepted -- an empty binary message is delivered and the bytes after the header
   ("hi" framed as text) are read as the next frame *)
Example len63_refuted :
  lib_session false false 0 0 ([130; 127] ++ be8 (2 ^ 63) ++ [129; 2; 104; 105])%N
  = Ok ([RMsg 2 []; RMsg 1 [104; 105]%N; RErr EUeof], []).
Proof. vm_compute. reflexivity. Qed.

(* 17: limit 10; the first fragment declares 2^64-100 bytes, a 50-byte final continuation is delivered *)
Example limit_refuted :
  exists p, (lenN p = 50)%N /\
  lib_session false false 10 0 ([2; 127] ++ be8 (2 ^ 64 - 100) ++ [128; 50] ++ repeat 120 50)%N
  = Ok ([RMsg 2 p; RErr EUeof], []).
Proof. exists (repeat 120%N 50). vm_compute. split; reflexivity. Qed.

(* the repaired reader on the same inputs *)
Example fixed_rejects :
  lib_session true false 0 0 ([130; 127] ++ be8 (2 ^ 63) ++ [129; 2; 104; 105])%N
  = Ok ([RErr (EProto msg_len63)], [close_frame websocket_CloseProtocolError msg_len63]) /\
  lib_session true false 10 0 ([2; 127] ++ be8 (2 ^ 64 - 100) ++ [128; 50] ++ repeat 120 50)%N
  = Ok ([RErr (EProto msg_len63)], [close_frame websocket_CloseProtocolError msg_len63]) /\
  lib_session true false 212 0 ([2; 12] ++ repeat 7 12 ++ [0; 127] ++ be8 (2 ^ 63 - 1) ++ [1; 2])%N
  = Ok ([RErr ELimit], [close_frame websocket_CloseMessageTooBig []]).
Proof. vm_compute. repeat split. Qed.

(* ------------------------------------------------------------------ totality and the deliberate panic *)
Theorem ws_read_total server limit extra bs :
  wf_bytes bs -> limit < 9223372036854775808 -> (extra < 999)%nat ->
  forall s, lib_session true server limit extra bs <> Panic s.
Proof.
  intros Hwf Hl Hex s. destruct (lib_refines_rfc server limit extra bs Hwf Hl Hex) as (e & cf & _ & E & _).
  rewrite E. discriminate.
Qed.

(* the 1000th call after the connection failed panics, the 999th does not *)
Example repeat_panic :
  lib_session true false 0 999 [129%N] = Panic 1000 /\
  lib_session true false 0 998 [129%N] = Ok (repeat (RErr EUeof) 999, []).
Proof. vm_compute. split; reflexivity. Qed.

(* ------------------------------------------------------------------ the read limit *)
Definition ev_within (cap : N) (e : event) : Prop :=
  match e with EvMsg _ p => (N.of_nat (length p) <= cap)%N | EvPong _ => True end.

Definition open_len_ok (open : option (N * list bytes * N)) : Prop :=
  match open with Some (_, fr, n) => N.of_nat (length (concat (rev fr))) = n | None => True end.

Lemma rfc_recv_within server cap fuel : forall open bs evs,
  open_len_ok open -> Forall (ev_within cap) evs ->
  Forall (ev_within cap) (fst (rfc_recv fuel server cap open bs evs)).
Proof.
  induction fuel as [|f IH]; intros open bs evs Hop Hev.
  - cbn. rewrite rev'_rev. apply Forall_rev. exact Hev.
  - rewrite rfc_recv_step. unfold spec_step.
    assert (Hrev : Forall (ev_within cap) (rev' evs)) by (rewrite rev'_rev; apply Forall_rev; exact Hev).
    destruct (rfc_header bs) as [| | |h rest]; try exact Hrev.
    destruct (rfc_violation _ _ h); [exact Hrev|].
    destruct (8 <=? f_op h)%N.
    + destruct (rfc_payload h rest) as [[p rest']|]; [|exact Hrev].
      destruct (f_op h =? 9)%N; [apply IH; auto; constructor; [exact I|exact Hev]|].
      destruct (f_op h =? 10)%N; [apply IH; auto|exact Hrev].
    + destruct (N.ltb_spec cap (snd (open_parts open h) + f_len h)) as [Hc|Hc]; [exact Hrev|].
      unfold spec_payload. destruct (open_parts open h) as [[t fr] n] eqn:Eo. cbn [snd] in Hc.
      assert (Hn : N.of_nat (length (concat (rev fr))) = n).
      { unfold open_parts in Eo. destruct open as [[[t0 fr0] n0]|]; inversion Eo; subst; [exact Hop|reflexivity]. }
      destruct (rfc_payload h rest) as [[p rest']|] eqn:Ep; [|exact Hrev].
      apply rfc_payload_length in Ep as [Lp _].
      destruct (f_fin h).
      * apply IH; [exact I|]. constructor; [|exact Hev]. cbn [ev_within]. rewrite rev'_rev. cbn [rev].
        rewrite concat_app, app_length. cbn [concat]. rewrite app_nil_r. lia.
      * apply IH; [|exact Hev]. cbn [open_len_ok rev]. rewrite concat_app, app_length. cbn [concat]. rewrite app_nil_r. lia.
Qed.

Lemma in_msgs_of t p E : In (RMsg t p) (msgs_of E) -> exists t', In (EvMsg t' p) E.
Proof.
  unfold msgs_of. rewrite in_flat_map. intros ([t' p'|p'] & Hin & H); cbn in H; [|contradiction].
  destruct H as [H|[]]. inversion H; subst. eauto.
Qed.

(* with a limit L configured no message longer than L bytes is ever returned, whatever the framing *)
Theorem read_limit_holds server limit extra bs :
  wf_bytes bs -> 0 < limit < 9223372036854775808 -> (extra < 999)%nat ->
  exists rs ws, lib_session true server limit extra bs = Ok (rs, ws) /\
    forall t p, In (RMsg t p) rs -> Z.of_nat (length p) <= limit.
Proof.
  intros Hwf Hl Hex. destruct (lib_refines_rfc server limit extra bs Hwf ltac:(lia) Hex) as (e & cf & _ & E & _).
  eexists _, _. split; [exact E|]. intros t p Hin. apply in_app_or in Hin as [Hin|Hin].
  - apply in_msgs_of in Hin as (t' & Hin).
    pose proof (rfc_recv_within server (rfc_cap limit) (S (length bs)) None bs [] I (Forall_nil _)) as F.
    rewrite Forall_forall in F. specialize (F _ Hin). cbn in F. unfold rfc_cap in F.
    replace (0 <? limit) with true in F by (symmetry; apply Z.ltb_lt; lia). lia.
  - apply repeat_spec in Hin. discriminate.
Qed.

(* ------------------------------------------------------------------ pings are answered *)
(* every Ping the RFC receiver sees is answered, in order, with a Pong carrying the same payload;
   nothing else is written except at most one final Close frame *)
Theorem ping_pong_holds server limit extra bs :
  wf_bytes bs -> limit < 9223372036854775808 -> (extra < 999)%nat ->
  exists rs closefr, (length closefr <= 1)%nat /\
    lib_session true server limit extra bs = Ok (rs, pongs_of (fst (rfc_receive server limit bs)) ++ closefr).
Proof.
  intros Hwf Hl Hex. destruct (lib_refines_rfc server limit extra bs Hwf Hl Hex) as (e & cf & _ & E & L).
  eauto.
Qed.

(* ------------------------------------------------------------------ a session, computed on both sides *)
(* client role, limit 10: text "hi" in two fragments with a Ping "PP" between them, then Close 1000
   "bye": one message, one Pong with the Ping's payload, the Close echoed without reason *)
Example session_example :
  let wire := [1; 1; 104; 137; 2; 80; 80; 128; 1; 105; 136; 5; 3; 232; 98; 121; 101]%N in
  rfc_receive false 10 wire = ([EvPong [80; 80]%N; EvMsg 1 [104; 105]%N], OClosed (Some 1000%N) [98; 121; 101]%N) /\
  lib_session true false 10 1 wire =
    Ok ([RMsg 1 [104; 105]%N; RErr (EClose 1000 [98; 121; 101]%N); RErr (EClose 1000 [98; 121; 101]%N)],
        [(websocket_PongMessage, [80; 80]%N); (websocket_CloseMessage, [3; 232]%N)]).
Proof. vm_compute. split; reflexivity. Qed.

(* the same message under limit 1 is refused when the second fragment's header arrives *)
Example session_limit_example :
  lib_session true false 1 0 [1; 1; 104; 128; 1; 105]%N =
    Ok ([RErr ELimit], [close_frame websocket_CloseMessageTooBig []]) /\
  snd (rfc_receive false 1 [1; 1; 104; 128; 1; 105]%N) = OTooBig.
Proof. vm_compute. split; reflexivity. Qed.
