(* C14 proofs, part 3: the property's clauses as corollaries; witnesses for the defects of the
   pinned snapshot (model parameter fixed = false). *)
From Verif Require Import Lib.Base Lib.Sx Lib.Utf8 Model.WsRead Proofs.WsReadUtf8 Proofs.WsRead Proofs.WsReadRefine.
From Verif Require Import Gen.Gen_websocket.
Open Scope Z_scope.

(* ------------------------------------------------------------------ top bit of a 64-bit length *)
Lemma hpe_is_err {A} m c : exists c', @handle_protocol_error A m c = MErr c' (EProto m).
Proof. unfold handle_protocol_error. destruct (write_control _ _ c) as [c' n]. eauto. Qed.

(* for EVERY reader state (any flags, any pending error, any earlier traffic) that is about to
   read a frame header: a 127-form length with the most significant bit set never yields a frame *)
Lemma top_bit_rejected c p0 p1 l r :
  c_rem c <= 0 -> c_in c = p0 :: p1 :: l ++ r -> wf_byte p0 -> wf_byte p1 -> wf_bytes l -> wf_bytes r ->
  length l = 8%nat -> (p1 mod 128 = 127)%N -> (9223372036854775808 <= be_val l)%N ->
  exists c' m, advance_frame true c = MErr c' (EProto m).
Proof.
  intros Hrem Hin H0 H1 Hwl Hwr Hl Hl7 Hbig.
  rewrite advance_frame_split. unfold af_skip.
  replace (0 <? c_rem c) with false by (symmetry; apply Z.ltb_ge; lia). cbn [mbind].
  unfold af_header. rewrite (af_head_eq c p0 p1 (l ++ r) Hin H0 H1). rewrite Hl7.
  destruct (head_violation _ _ _ _ _) as [m|].
  - destruct (@hpe_is_err (bool * Z * bool) m (set_rem (set_in c (l ++ r)) (Z.of_N 127))) as (c' & E).
    rewrite E. cbn [mbind]. eauto.
  - cbn [mbind].
    set (c2 := if (8 <=? p0 mod 16)%N then _ else _).
    assert (Hr2 : c_rem c2 = Z.of_N 127) by (unfold c2; destruct (8 <=? p0 mod 16)%N; reflexivity).
    assert (Hi2 : c_in c2 = l ++ r) by (unfold c2; destruct (8 <=? p0 mod 16)%N; reflexivity).
    rewrite (af_len_eq c2 127 Hr2 ltac:(lia)) by (rewrite Hi2; apply wf_app; auto).
    cbn [N.ltb N.eqb N.compare Pos.compare Pos.compare_cont Pos.eqb]. rewrite Hi2.
    assert (Ht : take 8 (l ++ r) = Some (l, r)).
    { destruct l as [|a [|b [|c3 [|d [|e [|f [|g [|i [|? ?]]]]]]]]]; cbn in Hl; try lia. reflexivity. }
    rewrite Ht. unfold two63. replace (9223372036854775808 <=? be_val l)%N with true by (symmetry; apply N.leb_le; lia).
    destruct (@hpe_is_err unit msg_len63 (set_rem (set_in c2 r) (zi64 (Z.of_N (be_val l))))) as (c' & E).
    rewrite E. cbn [mbind]. eauto.
Qed.

(* a byte list of the required shape exists: 0x82 0x7f 80 00 00 00 00 00 00 00 *)
Example top_bit_example :
  exists c' m, advance_frame true (new_conn false 0 ([130; 127] ++ [128; 0; 0; 0; 0; 0; 0; 0] ++ [129; 2; 104; 105])%N)
               = MErr c' (EProto m).
Proof. vm_compute. eauto. Qed.

(* ------------------------------------------------------------------ the defects of the pinned snapshot *)
(* 16: length 2^63 accepted -- an empty binary message is delivered and the bytes after the header
   ("hi" framed as text) are read as the next frame *)
Example len63_refuted :
  lib_session false false 0 0 ([130; 127] ++ be8 (2 ^ 63) ++ [129; 2; 104; 105])%N
  = Ok ([RMsg 2 []; RMsg 1 [104; 105]%N; RErr EUeof], []).
Proof. vm_compute. reflexivity. Qed.

(* 17: limit 10; the first fragment declares 2^64-100 bytes, a 50-byte final continuation is delivered *)
Example limit_refuted :
  exists p, (lenN p = 50)%N /\
  lib_session false false 10 0 ([2; 127] ++ be8 (2 ^ 64 - 100) ++ [128; 50] ++ repeat 120 50)%N
  = Ok ([RMsg 2 p; RErr EUeof], []).
Proof. exists (repeat 120%N 50). vm_compute. split; reflexivity. Qed.

(* the repaired reader on the same inputs *)
Example fixed_rejects :
  lib_session true false 0 0 ([130; 127] ++ be8 (2 ^ 63) ++ [129; 2; 104; 105])%N
  = Ok ([RErr (EProto msg_len63)], [close_frame websocket_CloseProtocolError msg_len63]) /\
  lib_session true false 10 0 ([2; 127] ++ be8 (2 ^ 64 - 100) ++ [128; 50] ++ repeat 120 50)%N
  = Ok ([RErr (EProto msg_len63)], [close_frame websocket_CloseProtocolError msg_len63]) /\
  lib_session true false 212 0 ([2; 12] ++ repeat 7 12 ++ [0; 127] ++ be8 (2 ^ 63 - 1) ++ [1; 2])%N
  = Ok ([RErr ELimit], [close_frame websocket_CloseMessageTooBig []]).
Proof. vm_compute. repeat split. Qed.

(* ------------------------------------------------------------------ totality and the deliberate panic *)
Theorem ws_read_total server limit extra bs :
  wf_bytes bs -> limit < 9223372036854775808 -> (extra < 999)%nat ->
  forall s, lib_session true server limit extra bs <> Panic s.
Proof.
  intros Hwf Hl Hex s. destruct (lib_refines_rfc server limit extra bs Hwf Hl Hex) as (e & cf & _ & E & _).
  rewrite E. discriminate.
Qed.

(* the 1000th call after the connection failed panics, the 999th does not *)
Example repeat_panic :
  lib_session true false 0 999 [129%N] = Panic 1000 /\
  lib_session true false 0 998 [129%N] = Ok (repeat (RErr EUeof) 999, []).
Proof. vm_compute. split; reflexivity. Qed.

(* ------------------------------------------------------------------ the read limit *)
Definition ev_within (cap : N) (e : event) : Prop :=
  match e with EvMsg _ p => (N.of_nat (length p) <= cap)%N | EvPong _ => True end.

Definition open_len_ok (open : option (N * list bytes * N)) : Prop :=
  match open with Some (_, fr, n) => N.of_nat (length (concat (rev fr))) = n | None => True end.

Lemma rfc_recv_within server cap fuel : forall open bs evs,
  open_len_ok open -> Forall (ev_within cap) evs ->
  Forall (ev_within cap) (fst (rfc_recv fuel server cap open bs evs)).
Proof.
  induction fuel as [|f IH]; intros open bs evs Hop Hev.
  - cbn. rewrite rev'_rev. apply Forall_rev. exact Hev.
  - rewrite rfc_recv_step. unfold spec_step.
    assert (Hrev : Forall (ev_within cap) (rev' evs)) by (rewrite rev'_rev; apply Forall_rev; exact Hev).
    destruct (rfc_header bs) as [| | |h rest]; try exact Hrev.
    destruct (rfc_violation _ _ h); [exact Hrev|].
    destruct (8 <=? f_op h)%N.
    + destruct (rfc_payload h rest) as [[p rest']|]; [|exact Hrev].
      destruct (f_op h =? 9)%N; [apply IH; auto; constructor; [exact I|exact Hev]|].
      destruct (f_op h =? 10)%N; [apply IH; auto|exact Hrev].
    + destruct (N.ltb_spec cap (snd (open_parts open h) + f_len h)) as [Hc|Hc]; [exact Hrev|].
      unfold spec_payload. destruct (open_parts open h) as [[t fr] n] eqn:Eo. cbn [snd] in Hc.
      assert (Hn : N.of_nat (length (concat (rev fr))) = n).
      { unfold open_parts in Eo. destruct open as [[[t0 fr0] n0]|]; inversion Eo; subst; [exact Hop|reflexivity]. }
      destruct (rfc_payload h rest) as [[p rest']|] eqn:Ep; [|exact Hrev].
      apply rfc_payload_length in Ep as [Lp _].
      destruct (f_fin h).
      * apply IH; [exact I|]. constructor; [|exact Hev]. cbn [ev_within]. rewrite rev'_rev. cbn [rev].
        rewrite concat_app, app_length. cbn [concat]. rewrite app_nil_r. lia.
      * apply IH; [|exact Hev]. cbn [open_len_ok rev]. rewrite concat_app, app_length. cbn [concat]. rewrite app_nil_r. lia.
Qed.

Lemma in_msgs_of t p E : In (RMsg t p) (msgs_of E) -> exists t', In (EvMsg t' p) E.
Proof.
  unfold msgs_of. rewrite in_flat_map. intros ([t' p'|p'] & Hin & H); cbn in H; [|contradiction].
  destruct H as [H|[]]. inversion H; subst. eauto.
Qed.

(* with a limit L configured no message longer than L bytes is ever returned, whatever the framing *)
Theorem read_limit_holds server limit extra bs :
  wf_bytes bs -> 0 < limit < 9223372036854775808 -> (extra < 999)%nat ->
  exists rs ws, lib_session true server limit extra bs = Ok (rs, ws) /\
    forall t p, In (RMsg t p) rs -> Z.of_nat (length p) <= limit.
Proof.
  intros Hwf Hl Hex. destruct (lib_refines_rfc server limit extra bs Hwf ltac:(lia) Hex) as (e & cf & _ & E & _).
  eexists _, _. split; [exact E|]. intros t p Hin. apply in_app_or in Hin as [Hin|Hin].
  - apply in_msgs_of in Hin as (t' & Hin).
    pose proof (rfc_recv_within server (rfc_cap limit) (S (length bs)) None bs [] I (Forall_nil _)) as F.
    rewrite Forall_forall in F. specialize (F _ Hin). cbn in F. unfold rfc_cap in F.
    replace (0 <? limit) with true in F by (symmetry; apply Z.ltb_lt; lia). lia.
  - apply repeat_spec in Hin. discriminate.
Qed.

(* ------------------------------------------------------------------ pings are answered *)
(* every Ping the RFC receiver sees is answered, in order, with a Pong carrying the same payload;
   nothing else is written except at most one final Close frame *)
Theorem ping_pong_holds server limit extra bs :
  wf_bytes bs -> limit < 9223372036854775808 -> (extra < 999)%nat ->
  exists rs closefr, (length closefr <= 1)%nat /\
    lib_session true server limit extra bs = Ok (rs, pongs_of (fst (rfc_receive server limit bs)) ++ closefr).
Proof.
  intros Hwf Hl Hex. destruct (lib_refines_rfc server limit extra bs Hwf Hl Hex) as (e & cf & _ & E & L).
  eauto.
Qed.

(* ------------------------------------------------------------------ a session, computed on both sides *)
(* client role, limit 10: text "hi" in two fragments with a Ping "PP" between them, then Close 1000
   "bye": one message, one Pong with the Ping's payload, the Close echoed without reason *)
Example session_example :
  let wire := [1; 1; 104; 137; 2; 80; 80; 128; 1; 105; 136; 5; 3; 232; 98; 121; 101]%N in
  rfc_receive false 10 wire = ([EvPong [80; 80]%N; EvMsg 1 [104; 105]%N], OClosed (Some 1000%N) [98; 121; 101]%N) /\
  lib_session true false 10 1 wire =
    Ok ([RMsg 1 [104; 105]%N; RErr (EClose 1000 [98; 121; 101]%N); RErr (EClose 1000 [98; 121; 101]%N)],
        [(websocket_PongMessage, [80; 80]%N); (websocket_CloseMessage, [3; 232]%N)]).
Proof. vm_compute. split; reflexivity. Qed.

(* the same message under limit 1 is refused when the second fragment's header arrives *)
Example session_limit_example :
  lib_session true false 1 0 [1; 1; 104; 128; 1; 105]%N =
    Ok ([RErr ELimit], [close_frame websocket_CloseMessageTooBig []]) /\
  snd (rfc_receive false 1 [1; 1; 104; 128; 1; 105]%N) = OTooBig.
Proof. vm_compute. split; reflexivity. Qed.

(* ------------------------------------------------------------------ no panic, from EVERY state *)
(* advanceFrame never panics: for every reader state whatsoever (any counters, flags, pending
   error, transport content -- not even well-formed bytes are needed), repaired or pinned code *)
Lemma mbind_no_panic {A B} (m : mres A) (K : conn -> A -> mres B) :
  (forall s, m <> MPanic s) -> (forall c a s, K c a <> MPanic s) -> forall s, mbind m K <> MPanic s.
Proof. intros Hm HK s. destruct m as [c a|c e|s']; cbn [mbind]; [apply HK|discriminate|]. intros _. apply (Hm s' eq_refl). Qed.

Lemma c_readn_no_panic n c s : c_readn n c <> MPanic s.
Proof. unfold c_readn. destruct (take n (c_in c)) as [[p r]|]; discriminate. Qed.

Lemma hpe_no_panic {A} m c s : @handle_protocol_error A m c <> MPanic s.
Proof. destruct (@hpe_is_err A m c) as (c' & E). rewrite E. discriminate. Qed.

Lemma af_head_no_panic c s : af_head c <> MPanic s.
Proof.
  unfold af_head, c_readn. destruct (take 2 (c_in c)) as [[p r]|] eqn:E; cbn [mbind]; [|discriminate].
  apply take_app in E as [_ L]. destruct p as [|p0 [|p1 [|? ?]]]; cbn in L; try lia.
  repeat match goal with
         | |- (if ?b then _ else _) <> _ => destruct b
         | |- handle_protocol_error _ _ <> _ => apply hpe_no_panic
         | |- MOk _ _ <> _ => discriminate
         end.
Qed.

Lemma af_len_no_panic fixed c s : af_len fixed c <> MPanic s.
Proof.
  unfold af_len. destruct (c_rem c =? 126).
  { apply mbind_no_panic; [intros; apply c_readn_no_panic|discriminate]. }
  destruct (c_rem c =? 127); [|discriminate].
  apply mbind_no_panic; [intros; apply c_readn_no_panic|].
  intros c0 a s0. destruct (fixed && _); [apply hpe_no_panic|discriminate].
Qed.

Lemma af_mask_no_panic mask c s : af_mask mask c <> MPanic s.
Proof.
  unfold af_mask. destruct (negb _); [apply hpe_no_panic|]. destruct mask; [|discriminate].
  apply mbind_no_panic; [intros; apply c_readn_no_panic|discriminate].
Qed.

Lemma af_data_no_panic fixed t c s : af_data fixed t c <> MPanic s.
Proof. unfold af_data. destruct (_ || _); [destruct (write_control _ _ _)|]; discriminate. Qed.

Lemma af_control_no_panic t c s : af_control t c <> MPanic s.
Proof.
  unfold af_control. apply mbind_no_panic.
  - intros s0. destruct (0 <? c_rem c); [|discriminate].
    pose proof (c_readn_no_panic (Z.to_nat (c_rem c)) c) as H.
    destruct (c_readn (Z.to_nat (c_rem c)) c) as [c1 p|c1 e|s1]; try discriminate. exfalso. apply (H s1 eq_refl).
  - intros c0 payload s0.
    destruct (t =? websocket_PongMessage); [discriminate|].
    destruct (t =? websocket_PingMessage).
    { destruct (handle_ping payload c0) as [c1 [e|]]; discriminate. }
    destruct (t =? websocket_CloseMessage); [|discriminate].
    destruct payload as [|b0 [|b1 text]]; try discriminate.
    destruct (negb _); [apply hpe_no_panic|]. destruct (negb _); [apply hpe_no_panic|discriminate].
Qed.

Theorem advance_frame_total fixed c s : advance_frame fixed c <> MPanic s.
Proof.
  unfold advance_frame. apply mbind_no_panic.
  - intros s0. unfold af_skip. destruct (0 <? c_rem c); [destruct (skip_n _ _)|]; discriminate.
  - intros c1 _ s1. apply mbind_no_panic; [intros; apply af_head_no_panic|].
    intros c2 [[final ft] mask] s2. apply mbind_no_panic; [intros; apply af_len_no_panic|].
    intros c3 _ s3. apply mbind_no_panic; [intros; apply af_mask_no_panic|].
    intros c4 _ s4. destruct (_ || _); [apply af_data_no_panic|apply af_control_no_panic].
Qed.

(* readErrCount is touched by NextReader's tail only *)
Definition keeps_count {A} (c : conn) (m : mres A) : Prop :=
  match m with MOk c' _ | MErr c' _ => c_errcount c' = c_errcount c | MPanic _ => True end.

Lemma keeps_bind {A B} c (m : mres A) (K : conn -> A -> mres B) :
  keeps_count c m -> (forall c1 a, c_errcount c1 = c_errcount c -> keeps_count c (K c1 a)) -> keeps_count c (mbind m K).
Proof. intros Hm HK. destruct m as [c1 a|c1 e|s]; cbn [mbind]; [apply HK; exact Hm|exact Hm|exact I]. Qed.

Lemma keeps_readn n c0 c : c_errcount c = c_errcount c0 -> keeps_count c0 (c_readn n c).
Proof. intros H. unfold c_readn. destruct (take n (c_in c)) as [[p r]|]; cbn; exact H. Qed.

Lemma wc_count t d c : c_errcount (fst (write_control t d c)) = c_errcount c.
Proof. unfold write_control. destruct (negb _); [reflexivity|]. destruct (_ <? _); [reflexivity|]. destruct (c_wclosed c); reflexivity. Qed.

Lemma keeps_hpe {A} m c0 c : c_errcount c = c_errcount c0 -> @keeps_count A c0 (handle_protocol_error m c).
Proof.
  intros H. unfold handle_protocol_error. pose proof (wc_count websocket_CloseMessage (format_close websocket_CloseProtocolError m) c) as W.
  destruct (write_control _ _ c) as [c' n]. cbn in *. congruence.
Qed.

Lemma advance_frame_count fixed c : keeps_count c (advance_frame fixed c).
Proof.
  unfold advance_frame. apply keeps_bind.
  { unfold af_skip. destruct (0 <? c_rem c); [destruct (skip_n _ _)|]; reflexivity. }
  intros c1 _ H1. apply keeps_bind.
  { unfold af_head. apply keeps_bind; [apply keeps_readn; exact H1|].
    intros c2 p H2. destruct p as [|p0 [|p1 [|? ?]]]; try exact I.
    repeat match goal with
           | |- keeps_count _ (if ?b then _ else _) => destruct b
           | |- keeps_count _ (handle_protocol_error _ _) => apply keeps_hpe; cbn; exact H2
           | |- keeps_count _ (MOk _ _) => cbn; exact H2
           end. }
  intros c2 [[final ft] mask] H2. apply keeps_bind.
  { unfold af_len. destruct (c_rem c2 =? 126).
    - apply keeps_bind; [apply keeps_readn; exact H2|]. intros c3 p H3. cbn. exact H3.
    - destruct (c_rem c2 =? 127); [|cbn; exact H2].
      apply keeps_bind; [apply keeps_readn; exact H2|]. intros c3 p H3.
      destruct (fixed && _); [apply keeps_hpe; cbn; exact H3|cbn; exact H3]. }
  intros c3 _ H3. apply keeps_bind.
  { unfold af_mask. destruct (negb _); [apply keeps_hpe; exact H3|]. destruct mask; [|cbn; exact H3].
    apply keeps_bind; [apply keeps_readn; exact H3|]. intros c4 p H4. cbn. exact H4. }
  intros c4 _ H4. destruct (_ || _).
  - unfold af_data. destruct (_ || _); [|cbn; exact H4].
    pose proof (wc_count websocket_CloseMessage (format_close websocket_CloseMessageTooBig []) (set_len c4 (zi64 (c_len c4 + c_rem c4)))) as W.
    destruct (write_control _ _ _) as [c' n]. cbn in *. congruence.
  - unfold af_control. apply keeps_bind.
    { destruct (0 <? c_rem c4); [|cbn; exact H4].
      pose proof (keeps_readn (Z.to_nat (c_rem c4)) c c4 H4) as R.
      destruct (c_readn _ c4) as [c5 p|c5 e|s]; cbn in *; auto. }
    intros c5 payload H5.
    destruct (ft =? websocket_PongMessage); [cbn; exact H5|].
    destruct (ft =? websocket_PingMessage).
    { unfold handle_ping. pose proof (wc_count websocket_PongMessage payload c5) as W.
      destruct (write_control _ _ c5) as [c' n]. cbn in W. destruct (n =? 2)%N; cbn; congruence. }
    destruct (ft =? websocket_CloseMessage); [|cbn; exact H5].
    assert (HC : forall code, c_errcount (handle_close code c5) = c_errcount c).
    { intros code. unfold handle_close. rewrite wc_count. exact H5. }
    destruct payload as [|b0 [|b1 text]]; try (cbn; apply HC).
    destruct (negb _); [apply keeps_hpe; exact H5|]. destruct (negb _); [apply keeps_hpe; exact H5|]. cbn. apply HC.
Qed.

Lemma next_reader_loop_ok fuel fixed : forall c,
  match next_reader_loop fuel fixed c with
  | Ok (c', r) => c_errcount c' = c_errcount c /\ (r = None -> c_err c' <> None)
  | Err _ => True
  | Panic _ => False
  end.
Proof.
  induction fuel as [|f IH]; intros c; cbn [next_reader_loop].
  - destruct (c_err c) eqn:E; [|exact I]. split; [reflexivity|]. intros _. congruence.
  - destruct (c_err c) eqn:E. { split; [reflexivity|]. intros _. congruence. }
    pose proof (advance_frame_total fixed c) as T. pose proof (advance_frame_count fixed c) as K.
    destruct (advance_frame fixed c) as [c1 t|c1 e|s]; [| |exact (T s eq_refl)].
    + cbn in K. destruct (is_data t). { split; [exact K|discriminate]. }
      specialize (IH c1). destruct (next_reader_loop f fixed c1) as [[c2 r]| |]; auto.
      destruct IH as [I1 I2]. split; [congruence|exact I2].
    + cbn in K. split; [exact K|]. intros _. cbn. discriminate.
Qed.

Lemma read_all_ok fuel fixed : forall c acc,
  match read_all fuel fixed c acc with
  | Ok (c', _) => c_errcount c' = c_errcount c
  | Err _ => True
  | Panic _ => False
  end.
Proof.
  induction fuel as [|f IH]; intros c acc; cbn [read_all]; [exact I|].
  destruct (c_err c); [reflexivity|].
  destruct (0 <? c_rem c).
  { destruct (split_at _ _ _) as [[p rest]|]; [|reflexivity].
    specialize (IH (set_rem (set_in c rest) 0) ((if c_server c then mask_bytes (c_key c) 0 p else p) :: acc)).
    destruct (read_all f fixed _ _) as [[c' r]| |]; auto. }
  destruct (c_final c); [reflexivity|].
  pose proof (advance_frame_total fixed c) as T. pose proof (advance_frame_count fixed c) as K.
  destruct (advance_frame fixed c) as [c1 t|c1 e|s]; [| |exact (T s eq_refl)]; cbn in K.
  - destruct (is_data t).
    + specialize (IH (set_err c1 (Some EInternal)) acc). destruct (read_all f fixed _ _) as [[c' r]| |]; auto.
      cbn in IH. congruence.
    + specialize (IH c1 acc). destruct (read_all f fixed _ _) as [[c' r]| |]; auto. congruence.
  - specialize (IH (set_err c1 (Some e)) acc). destruct (read_all f fixed _ _) as [[c' r]| |]; auto.
    cbn in IH. congruence.
Qed.

(* one ReadMessage / NextReader from ANY state with fewer than 999 failed calls behind it *)
Lemma read_message_ok fixed c : c_errcount c + 1 < repeat_limit ->
  match read_message fixed c with
  | Ok (c', RMsg _ _) => c_errcount c' = c_errcount c
  | Ok (c', RErr _) => c_errcount c' <= c_errcount c + 1
  | Err _ => True
  | Panic _ => False
  end.
Proof.
  intros Hc. unfold read_message.
  pose proof (next_reader_loop_ok (S (S (length (c_in c)))) fixed (set_len c 0)) as N.
  destruct (next_reader_loop _ fixed (set_len c 0)) as [[c1 [t|]]| |]; cbn [bind]; auto.
  - destruct N as [N1 _]. cbn in N1.
    pose proof (read_all_ok (S (S (length (c_in c))) + S (S (length (c_in c)))) fixed c1 []) as A.
    destruct (read_all _ fixed c1 []) as [[c2 [chunks|e]]| |]; cbn [bind]; auto; lia.
  - destruct N as [N1 N2]. cbn in N1. unfold next_reader_fail. cbn [c_errcount set_errcount].
    replace (repeat_limit <=? c_errcount c1 + 1) with false by (symmetry; apply Z.leb_gt; lia).
    cbn [c_err set_errcount]. destruct (c_err c1) eqn:E; [cbn; lia|]. apply N2; reflexivity.
Qed.

Lemma next_reader_only_ok fixed c : c_errcount c + 1 < repeat_limit ->
  match next_reader_only fixed c with
  | Ok (c', RMsg _ _) => c_errcount c' = c_errcount c
  | Ok (c', RErr _) => c_errcount c' <= c_errcount c + 1
  | Err _ => True
  | Panic _ => False
  end.
Proof.
  intros Hc. unfold next_reader_only.
  pose proof (next_reader_loop_ok (S (S (length (c_in c)))) fixed (set_len c 0)) as N.
  destruct (next_reader_loop _ fixed (set_len c 0)) as [[c1 [t|]]| |]; cbn [bind]; auto.
  - destruct N as [N1 _]. exact N1.
  - destruct N as [N1 N2]. cbn in N1. unfold next_reader_fail. cbn [c_errcount set_errcount].
    replace (repeat_limit <=? c_errcount c1 + 1) with false by (symmetry; apply Z.leb_gt; lia).
    cbn [c_err set_errcount]. destruct (c_err c1) eqn:E; [cbn; lia|]. apply N2; reflexivity.
Qed.

Lemma read_extra_ok fixed extra : forall c acc, c_errcount c + Z.of_nat extra < repeat_limit ->
  forall s, read_extra extra fixed c acc <> Panic s.
Proof.
  induction extra as [|n IH]; intros c acc Hc s; cbn [read_extra]; [discriminate|].
  pose proof (read_message_ok fixed c ltac:(lia)) as M.
  destruct (read_message fixed c) as [[c1 [t p|e]]| |]; cbn [bind]; try discriminate; try contradiction.
  - apply IH. lia.
  - apply IH. lia.
Qed.

Lemma read_loop_ok fixed extra fuel : forall c acc, c_errcount c = 0 -> (Z.of_nat extra + 1 < repeat_limit) ->
  forall s, read_loop fuel extra fixed c acc <> Panic s.
Proof.
  induction fuel as [|f IH]; intros c acc Hc Hex s; cbn [read_loop]; [discriminate|].
  pose proof (read_message_ok fixed c ltac:(unfold repeat_limit; lia)) as M.
  destruct (read_message fixed c) as [[c1 [t p|e]]| |]; cbn [bind]; try discriminate; try contradiction.
  - apply IH; [lia|exact Hex].
  - apply read_extra_ok. lia.
Qed.

Lemma read_loop_pat_ok fixed fuel : forall pat c acc, c_errcount c = 0 ->
  forall s, read_loop_pat fuel fixed pat c acc <> Panic s.
Proof.
  induction fuel as [|f IH]; intros pat c acc Hc s; cbn [read_loop_pat]; [discriminate|].
  pose proof (read_message_ok fixed c ltac:(unfold repeat_limit; lia)) as M.
  pose proof (next_reader_only_ok fixed c ltac:(unfold repeat_limit; lia)) as N.
  destruct (match pat with b :: _ => b | [] => false end).
  - destruct (next_reader_only fixed c) as [[c1 [t p|e]]| |]; cbn [bind]; try discriminate; try contradiction.
    apply IH. lia.
  - destruct (read_message fixed c) as [[c1 [t p|e]]| |]; cbn [bind]; try discriminate; try contradiction.
    apply IH. lia.
Qed.

(* No panic for ANY transport content (not even well-formed bytes are assumed), any limit, both
   roles, repaired or pinned code, any pattern of read / abandoned messages, fewer than 999 calls
   after the failure. *)
Theorem ws_read_total_all fixed server limit extra inp s :
  (extra < 999)%nat -> lib_session fixed server limit extra inp <> Panic s.
Proof.
  intros Hex. unfold lib_session.
  pose proof (read_loop_ok fixed extra (S (length inp)) (new_conn server limit inp) [] eq_refl
                ltac:(unfold repeat_limit; lia)) as R.
  destruct (read_loop _ extra fixed _ []) as [[c rs]| |]; cbn [bind]; try discriminate. exfalso. exact (R site eq_refl).
Qed.

Theorem ws_read_pat_total fixed server limit pat inp s :
  lib_session_pat fixed server limit pat inp <> Panic s.
Proof.
  unfold lib_session_pat.
  pose proof (read_loop_pat_ok fixed (S (length inp)) pat (new_conn server limit inp) [] eq_refl) as R.
  destruct (read_loop_pat _ fixed pat _ []) as [[c rs]| |]; cbn [bind]; try discriminate. exfalso. exact (R site eq_refl).
Qed.
