(* C13 proofs (part 3): invariants over whole sessions. *)
From Verif Require Import Lib.Base Lib.Sx Model.WsWrite Proofs.WsWrite Proofs.WsWriteFrame.
Open Scope N_scope.
Ltac Zify.zify_post_hook ::= Z.div_mod_to_equations.

(* frame descriptors: what one flushFrame / WriteControl puts on the wire *)
Record fd := mkD { d_fin : bool; d_z : bool; d_op : N; d_key : bytes; d_pl : bytes }.
Definition enc_fd (is_srv : bool) (d : fd) : bytes := enc_frame is_srv (d_fin d) (d_z d) (d_op d) (d_key d) (d_pl d).
Definition abs_fd (is_srv : bool) (d : fd) : pframe := abs_frame is_srv (d_fin d) (d_z d) (d_op d) (d_key d) (d_pl d).
Definition two63 : N := 9223372036854775808.
Definition fd_ok (d : fd) : Prop := op_ok (d_op d) /\ length (d_key d) = 4%nat /\ lenN (d_pl d) < two63.

Definition enc_all (is_srv : bool) (ds : list fd) : bytes := concat (map (enc_fd is_srv) ds).

Lemma enc_frame_len2 is_srv fin z op key pl : (2 <= length (enc_frame is_srv fin z op key pl))%nat.
Proof.
  unfold enc_frame, len_hdr. destruct (lenN pl <=? 125); [|destruct (lenN pl <=? 65535)];
  cbn [length app]; lia.
Qed.

Lemma rfc_parse_f_enc is_srv : forall ds fuel, Forall fd_ok ds -> (length ds <= length fuel)%nat ->
  rfc_parse_f fuel (enc_all is_srv ds) = Some (map (abs_fd is_srv) ds).
Proof.
  induction ds as [|d ds IH]; intros fuel Hok Hf.
  - destruct fuel; reflexivity.
  - inversion Hok as [|? ? (Hop & Hk & Hl) Hok']; subst.
    unfold enc_all. cbn [map concat]. fold (enc_all is_srv ds).
    pose proof (enc_frame_len2 is_srv (d_fin d) (d_z d) (d_op d) (d_key d) (d_pl d)) as H2.
    unfold enc_fd at 1.
    destruct (enc_frame is_srv (d_fin d) (d_z d) (d_op d) (d_key d) (d_pl d) ++ enc_all is_srv ds) as [|x w] eqn:Ew.
    { apply (f_equal (@length N)) in Ew. rewrite app_length in Ew. cbn in Ew. lia. }
    destruct fuel as [|f0 fuel]; [cbn in Hf; lia|].
    cbn [rfc_parse_f]. rewrite <- Ew.
    rewrite (parse_enc is_srv _ _ _ _ _ _ Hop Hk Hl).
    rewrite IH by (try assumption; cbn in Hf; lia). reflexivity.
Qed.

Lemma enc_all_length is_srv ds : (length ds <= length (enc_all is_srv ds))%nat.
Proof.
  induction ds as [|d ds IH]; [cbn; lia|]. unfold enc_all in *. cbn [map concat length].
  rewrite app_length. pose proof (enc_frame_len2 is_srv (d_fin d) (d_z d) (d_op d) (d_key d) (d_pl d)) as H.
  change (enc_frame is_srv (d_fin d) (d_z d) (d_op d) (d_key d) (d_pl d)) with (enc_fd is_srv d) in H. lia.
Qed.

Theorem rfc_parse_enc is_srv ds : Forall fd_ok ds ->
  rfc_parse (enc_all is_srv ds) = Some (map (abs_fd is_srv) ds).
Proof. intros H. apply rfc_parse_f_enc; [exact H|apply enc_all_length]. Qed.

(* ---------- per-frame validity of what the writer emits ---------- *)
Definition fd_shape (pmd : bool) (d : fd) : Prop :=
  (d_z d = true -> pmd = true) /\
  (op_control (d_op d) = true -> d_fin d = true /\ d_z d = false /\ lenN (d_pl d) <= 125).

Lemma frame_ok_abs is_srv pmd d : fd_ok d -> fd_shape pmd d -> frame_ok is_srv pmd (abs_fd is_srv d) = true.
Proof.
  intros (Hop & Hk & Hl) (Hz & Hc). unfold frame_ok, abs_fd, abs_frame.
  cbn [pf_op pf_rsv pf_masked pf_form pf_len pf_fin].
  assert (E1 : op_known (d_op d) = true) by (destruct Hop as [H|[H|[H|[H|[H|H]]]]]; rewrite H; reflexivity).
  rewrite E1. cbn [andb].
  assert (E2 : ((if d_z d then 4 else 0) mod 4 =? 0) = true) by (destruct (d_z d); reflexivity).
  rewrite E2. cbn [andb].
  assert (E3 : pmd || ((if d_z d then 4 else 0) =? 0) = true).
  { destruct (d_z d) eqn:Ez; [rewrite (Hz eq_refl); reflexivity|apply orb_true_r]. }
  rewrite E3. cbn [andb]. rewrite eqb_reflx. cbn [andb].
  assert (E4 : (if form_of (lenN (d_pl d)) =? 0 then lenN (d_pl d) <=? 125
                else if form_of (lenN (d_pl d)) =? 1 then (125 <? lenN (d_pl d)) && (lenN (d_pl d) <=? 65535)
                else (65535 <? lenN (d_pl d)) && (lenN (d_pl d) <? 9223372036854775808)) = true).
  { unfold form_of. destruct (lenN (d_pl d) <=? 125) eqn:A; [reflexivity|].
    apply N.leb_gt in A. destruct (lenN (d_pl d) <=? 65535) eqn:B; cbn [N.eqb Pos.eqb].
    - rewrite andb_true_r. apply N.ltb_lt; lia.
    - apply N.leb_gt in B. apply andb_true_intro; split; apply N.ltb_lt; [lia|exact Hl]. }
  rewrite E4. cbn [andb].
  destruct (op_control (d_op d)) eqn:Ec; [|reflexivity].
  destruct (Hc eq_refl) as (F & Z & L). rewrite F, Z. cbn [andb].
  apply andb_true_intro; split; [apply N.leb_le; exact L|reflexivity].
Qed.

(* ---------- sequencing and reassembly, continuation style ---------- *)
Definition curT := option (N * bool * list bytes).
Definition tail_ok (fs : list pframe) (inmsg : bool) (cur : curT) (done : list (N * bool * bytes)) : Prop :=
  forall rest, seq_ok false (fs ++ rest) = seq_ok inmsg rest /\
               events_from None (fs ++ rest) = option_map (app done) (events_from cur rest).

Lemma tail_ok_nil : tail_ok [] false None [].
Proof. intros rest. split; [reflexivity|]. cbn [app]. destruct (events_from None rest); reflexivity. Qed.

Lemma tail_ok_step fs i c dn f i' c' dn' :
  tail_ok fs i c dn ->
  (forall rest, seq_ok i (f :: rest) = seq_ok i' rest /\
                option_map (app dn) (events_from c (f :: rest)) = option_map (app dn') (events_from c' rest)) ->
  tail_ok (fs ++ [f]) i' c' dn'.
Proof.
  intros H Hs rest. rewrite <- app_assoc. cbn [app].
  destruct (H (f :: rest)) as [A B]. destruct (Hs rest) as [C D].
  split; [rewrite A; exact C | rewrite B; exact D].
Qed.

Lemma option_map_app_cons {A} (dn : list A) x o :
  option_map (app dn) (match o with Some l => Some (x :: l) | None => None end)
  = option_map (app (dn ++ [x])) o.
Proof. destruct o; cbn; [rewrite <- app_assoc; reflexivity|reflexivity]. Qed.

Lemma tail_ok_control fs i c dn f : tail_ok fs i c dn -> op_control (pf_op f) = true ->
  tail_ok (fs ++ [f]) i c (dn ++ [(pf_op f, false, pf_payload f)]).
Proof.
  intros H Hc. apply (tail_ok_step _ _ _ _ _ _ _ _ H). intros rest.
  cbn [seq_ok events_from]. rewrite Hc. split; [reflexivity|]. apply option_map_app_cons.
Qed.


(* first frame of a data message *)
Lemma tail_ok_first fs dn f : tail_ok fs false None dn ->
  op_control (pf_op f) = false -> (pf_op f =? 0) = false ->
  tail_ok (fs ++ [f]) (negb (pf_fin f))
          (if pf_fin f then None else Some (pf_op f, 4 <=? pf_rsv f, [pf_payload f]))
          (if pf_fin f then dn ++ [(pf_op f, 4 <=? pf_rsv f, pf_payload f)] else dn).
Proof.
  intros H Hc H0. apply (tail_ok_step _ _ _ _ _ _ _ _ H). intros rest.
  cbn [seq_ok events_from]. rewrite Hc, H0. cbn [negb andb]. split; [reflexivity|].
  destruct (pf_fin f); [apply option_map_app_cons|reflexivity].
Qed.

(* continuation frame *)
Lemma tail_ok_cont fs dn t z acc f : tail_ok fs true (Some (t, z, acc)) dn ->
  pf_op f = 0 -> pf_rsv f = 0 ->
  tail_ok (fs ++ [f]) (negb (pf_fin f))
          (if pf_fin f then None else Some (t, z, pf_payload f :: acc))
          (if pf_fin f then dn ++ [(t, z, concat (rev (pf_payload f :: acc)))] else dn).
Proof.
  intros H H0 Hr. apply (tail_ok_step _ _ _ _ _ _ _ _ H). intros rest.
  cbn [seq_ok events_from]. rewrite H0, Hr. cbn [op_control N.leb N.compare N.eqb andb]. split; [reflexivity|].
  destruct (pf_fin f); [apply option_map_app_cons|reflexivity].
Qed.

(* ---------- invariants of the message writer ---------- *)
Record ghost := mkG { g_ds : list fd; g_started : bool; g_acc : list bytes }.

Definition healthy (w : mws) : Prop := werrc w = 0 /\ wbudget w = None.

Definition CInv (c : cfg) (pmd : bool) (w : mws) (ds : list fd) (inmsg : bool) (cur : curT)
           (dn : list (N * bool * bytes)) : Prop :=
  length (hdr w) = 14%nat /\ healthy w /\ Forall (fun k => length k = 4%nat) (keys w) /\
  wire w = enc_all (srv c) ds /\ Forall fd_ok ds /\ Forall (fd_shape pmd) ds /\
  tail_ok (map (abs_fd (srv c)) ds) inmsg cur dn.

Definition MInv (c : cfg) (pmd : bool) (t : N) (z : bool) (w : mws) (g : ghost)
           (dn : list (N * bool * bytes)) (D : bytes) : Prop :=
  CInv c pmd w (g_ds g) (g_started g) (if g_started g then Some (t, z, g_acc g) else None) dn /\
  pos w = maxHdr + lenN (buffered w) /\ pos w <= blen c /\
  ftype w = (if g_started g then opCont else t) /\ cflag w = (if g_started g then false else z) /\
  D = concat (rev (g_acc g)) ++ buffered w /\ (g_started g = false -> g_acc g = []).

Definition data_type (t : N) : Prop := t = 1 \/ t = 2.

Lemma enc_all_snoc is_srv ds d : enc_all is_srv (ds ++ [d]) = enc_all is_srv ds ++ enc_fd is_srv d.
Proof. unfold enc_all. rewrite map_app, concat_app. cbn. rewrite app_nil_r. reflexivity. Qed.

Lemma keys_after (is_srv : bool) ks : Forall (fun k : bytes => length k = 4%nat) ks ->
  Forall (fun k : bytes => length k = 4%nat) (if is_srv then ks else snd (pop_key ks)).
Proof. intros H. destruct is_srv; [exact H|]. destruct ks; cbn; [constructor|inversion H; assumption]. Qed.

Section Writer.
Variable c : cfg.
Variable pmd : bool.
Hypothesis Hblen : 15 <= blen c < 4611686018427387904.

Lemma flush_step t z w g dn D (final : bool) extra :
  data_type t -> (z = true -> pmd = true) ->
  MInv c pmd t z w g dn D ->
  (srv c = false -> extra = []) -> lenN (buffered w ++ extra) < two63 ->
  let d := mkD final (cflag w) (ftype w) (next_key w) (buffered w ++ extra) in
  exists w', flush_frame c w final extra = Ok (w', eOK) /\
    if final then CInv c pmd w' (g_ds g ++ [d]) false None (dn ++ [(t, z, D ++ extra)])
    else MInv c pmd t z w' (mkG (g_ds g ++ [d]) true ((buffered w ++ extra) :: g_acc g)) dn (D ++ extra)
         /\ rbuf w' = [].
Proof.
  intros Ht Hz ((Hh & [He Hbud] & Hk & Hw & Hok & Hsh & Htl) & Hp & Hpb & Hft & Hcf & HD & Hacc) Hex Hlen d.
  assert (Hopk : op_ok (ftype w)).
  { rewrite Hft. destruct (g_started g); [left; reflexivity|]. destruct Ht as [-> | ->]; unfold op_ok; auto. }
  assert (Hnc : is_control (ftype w) = false).
  { rewrite Hft. destruct (g_started g); [reflexivity|]. destruct Ht as [-> | ->]; reflexivity. }
  destruct (flush_ok c w final extra (Build_good w Hh Hp He Hbud Hk) Hopk) as (w' & Hrun & Hw' & Hk' & Hh' & He' & Hbd' & Hnf);
    [rewrite Hnc; discriminate | exact Hex | exact Hlen |].
  exists w'. split; [exact Hrun|].
  assert (Hncl : (ftype w =? opClose) = false).
  { rewrite Hft. destruct (g_started g); [reflexivity|]. destruct Ht as [-> | ->]; reflexivity. }
  rewrite Hncl in He'.
  assert (Hdok : fd_ok d).
  { unfold fd_ok, d. cbn [d_op d_key d_pl]. repeat split; [exact Hopk | apply next_key_len; exact Hk | exact Hlen]. }
  assert (Hdsh : fd_shape pmd d).
  { unfold fd_shape, d. cbn [d_z d_op d_fin d_pl]. split.
    - rewrite Hcf. destruct (g_started g); [discriminate|exact Hz].
    - rewrite Hft. destruct (g_started g); [discriminate|]. destruct Ht as [-> | ->]; discriminate. }
  assert (HC : forall i cur dn', tail_ok (map (abs_fd (srv c)) (g_ds g ++ [d])) i cur dn' ->
                CInv c pmd w' (g_ds g ++ [d]) i cur dn').
  { intros i cur dn' Ht'. unfold CInv.
    split; [exact Hh'|]. split; [exact (conj He' Hbd')|].
    split; [rewrite Hk'; apply keys_after; exact Hk|].
    split; [rewrite Hw', Hw, enc_all_snoc; reflexivity|].
    split; [apply Forall_app; split; [exact Hok|constructor; [exact Hdok|constructor]]|].
    split; [apply Forall_app; split; [exact Hsh|constructor; [exact Hdsh|constructor]]|exact Ht']. }
  (* the sequencing step *)
  assert (Hstep : tail_ok (map (abs_fd (srv c)) (g_ds g ++ [d])) (negb final)
            (if final then None else Some (t, z, (buffered w ++ extra) :: g_acc g))
            (if final then dn ++ [(t, z, D ++ extra)] else dn)).
  { rewrite map_app. cbn [map].
    destruct (g_started g) eqn:Es.
    - pose proof (tail_ok_cont _ _ _ _ _ (abs_fd (srv c) d) Htl) as H.
      unfold abs_fd, abs_frame, d in H. cbn [pf_op pf_rsv pf_fin pf_payload d_fin d_z d_op d_key d_pl] in H.
      rewrite Hft, Hcf in H. specialize (H eq_refl eq_refl).
      unfold abs_fd, abs_frame, d. cbn [d_fin d_z d_op d_key d_pl]. rewrite Hft, Hcf.
      replace (D ++ extra) with (concat (rev ((buffered w ++ extra) :: g_acc g))).
      + destruct final; exact H.
      + cbn [rev]. rewrite concat_app. cbn [concat]. rewrite app_nil_r, HD, <- app_assoc. reflexivity.
    - rewrite (Hacc eq_refl) in *. cbn [rev concat app] in HD.
      pose proof (tail_ok_first _ _ (abs_fd (srv c) d) Htl) as H.
      unfold abs_fd, abs_frame, d in H. cbn [pf_op pf_rsv pf_fin pf_payload d_fin d_z d_op d_key d_pl] in H.
      rewrite Hft, Hcf in H.
      assert (Hz4 : (4 <=? (if z then 4 else 0)) = z) by (destruct z; reflexivity).
      rewrite Hz4 in H.
      unfold abs_fd, abs_frame, d. cbn [d_fin d_z d_op d_key d_pl]. rewrite Hft, Hcf.
      rewrite HD. destruct Ht as [-> | ->]; specialize (H eq_refl eq_refl); destruct final; exact H. }
  destruct final.
  - apply HC. exact Hstep.
  - destruct (Hnf eq_refl) as (Hrb & Hps & Hft' & Hcf').
    split; [|exact Hrb].
    unfold MInv. cbn [g_ds g_started g_acc].
    assert (Hb' : buffered w' = []) by (unfold buffered; rewrite Hrb; reflexivity).
    rewrite Hb'.
    split; [apply HC; exact Hstep|].
    split; [rewrite Hps; reflexivity|].
    split; [rewrite Hps; change maxHdr with 14; lia|].
    split; [exact Hft'|]. split; [exact Hcf'|].
    split; [|discriminate].
    cbn [rev]. rewrite concat_app. cbn [concat]. rewrite !app_nil_r, HD, <- app_assoc. reflexivity.
Qed.
End Writer.

Lemma buffered_append w a n : buffered (buf_append w a n) = buffered w ++ a.
Proof.
  unfold buffered, buf_append. cbn [rbuf set_buf rev]. rewrite concat_app. cbn. rewrite app_nil_r. reflexivity.
Qed.

Section Writer2.
Variable c : cfg.
Variable pmd : bool.
Hypothesis Hblen : 15 <= blen c < 4611686018427387904.
Variable t : N.
Variable z : bool.
Hypothesis Ht : data_type t.
Hypothesis Hz : z = true -> pmd = true.

Lemma append_step w g dn D a :
  MInv c pmd t z w g dn D -> pos w + lenN a <= blen c ->
  MInv c pmd t z (buf_append w a (lenN a)) g dn (D ++ a).
Proof.
  intros (HC & Hp & Hpb & Hft & Hcf & HD & Hacc) Hfit.
  unfold MInv. rewrite buffered_append.
  split; [exact HC|]. cbn [pos buf_append set_buf ftype cflag].
  split; [rewrite Hp, lenN_app; lia|]. split; [exact Hfit|].
  split; [exact Hft|]. split; [exact Hcf|]. split; [rewrite HD, app_assoc; reflexivity|exact Hacc].
Qed.

Lemma buffered_bound w g dn D : MInv c pmd t z w g dn D -> lenN (buffered w) < 4611686018427387904.
Proof. intros (_ & Hp & Hpb & _). change maxHdr with 14 in Hp. lia. Qed.

(* make room: after this the buffer has at least one free byte *)
Lemma make_room w g dn D :
  MInv c pmd t z w g dn D ->
  exists w1 g1, (if blen c <=? pos w then flush_frame c w false [] else Ok (w, eOK)) = Ok (w1, eOK)
    /\ MInv c pmd t z w1 g1 dn D /\ pos w1 < blen c.
Proof.
  intros H. destruct (blen c <=? pos w) eqn:E.
  - pose proof (buffered_bound _ _ _ _ H) as Hb.
    destruct (flush_step c pmd Hblen t z w g dn D false [] Ht Hz H (fun _ => eq_refl)) as (w1 & Hrun & Hinv & Hrb).
    { rewrite app_nil_r. unfold two63. lia. }
    rewrite !app_nil_r in Hinv. eexists w1, _.
    split; [exact Hrun|]. split; [exact Hinv|].
    destruct Hinv as (_ & Hp & _). unfold buffered in Hp. rewrite Hrb in Hp. cbn in Hp. rewrite Hp. change maxHdr with 14. lia.
  - apply N.leb_gt in E. exists w, g. split; [reflexivity|]. split; [exact H|exact E].
Qed.

Lemma copy_loop_ok : forall fuel w g dn D p,
  MInv c pmd t z w g dn D -> (length p < length fuel)%nat ->
  exists w' g', copy_loop fuel c w p (lenN p) = Ok (w', eOK) /\ MInv c pmd t z w' g' dn (D ++ p).
Proof.
  induction fuel as [|f0 fuel IH]; intros w g dn D p H Hf; [cbn in Hf; lia|].
  destruct p as [|x p'].
  - exists w, g. cbn. rewrite app_nil_r. split; [reflexivity|exact H].
  - set (p := x :: p') in *.
    assert (Hpl : 1 <= lenN p) by (unfold p; rewrite lenN_spec; cbn [length]; lia).
    cbn [copy_loop]. replace (lenN p =? 0) with false by (symmetry; apply N.eqb_neq; lia).
    destruct (make_room w g dn D H) as (w1 & g1 & Hrun & H1 & Hlt).
    rewrite Hrun. cbn [bind]. cbn [N.eqb negb].
    set (n := N.min (blen c - pos w1) (lenN p)).
    assert (Hn : 1 <= n) by (unfold n; lia).
    rewrite splitN_spec.
    set (a := firstn (N.to_nat n) p). set (rest := skipn (N.to_nat n) p).
    assert (Hnle : n <= lenN p) by (unfold n; lia).
    assert (Ha : lenN a = n).
    { unfold a. rewrite lenN_spec, firstn_length. rewrite lenN_spec in Hnle. lia. }
    assert (Hr : lenN rest = lenN p - n).
    { unfold rest. rewrite !lenN_spec, skipn_length. rewrite lenN_spec in Hnle. lia. }
    pose proof (append_step w1 g1 dn D a H1) as H2. rewrite Ha in H2.
    specialize (H2 ltac:(unfold n; lia)).
    destruct (IH (buf_append w1 a n) g1 dn (D ++ a) rest H2) as (w' & g' & Hrun' & H').
    { unfold rest. rewrite skipn_length. cbn [length] in Hf. rewrite lenN_spec in Hpl. unfold p in *. cbn [length] in *. lia. }
    exists w', g'. rewrite <- Hr. split; [exact Hrun'|].
    rewrite <- app_assoc in H'. unfold a, rest in H'. rewrite firstn_skipn in H'. exact H'.
Qed.

Lemma mw_write_ok w g dn D p :
  MInv c pmd t z w g dn D -> lenN p < 4611686018427387904 ->
  exists w' g', mw_write c w p = Ok (w', eOK) /\ MInv c pmd t z w' g' dn (D ++ p).
Proof.
  intros H Hp. unfold mw_write.
  destruct ((2 * blen c <? lenN p) && srv c) eqn:E.
  - apply andb_prop in E. destruct E as [_ Es].
    pose proof (buffered_bound _ _ _ _ H) as Hb.
    destruct (flush_step c pmd Hblen t z w g dn D false p Ht Hz H) as (w1 & Hrun & Hinv & _).
    { rewrite Es. discriminate. }
    { rewrite lenN_app. unfold two63. lia. }
    eexists w1, _. split; [exact Hrun|exact Hinv].
  - apply (copy_loop_ok (0 :: p) w g dn D p H). cbn [length]; lia.
Qed.

Lemma mw_write_string_ok w g dn D p :
  MInv c pmd t z w g dn D ->
  exists w' g', mw_write_string c w p = Ok (w', eOK) /\ MInv c pmd t z w' g' dn (D ++ p).
Proof. intros H. unfold mw_write_string. apply (copy_loop_ok (0 :: p) w g dn D p H). cbn [length]; lia. Qed.

Lemma read_from_loop_ok ewd : forall fuel w g dn D data caps,
  MInv c pmd t z w g dn D -> (length data + length caps < length fuel)%nat ->
  exists w' g', read_from_loop fuel c w data (lenN data) caps ewd = Ok (w', eOK)
                /\ MInv c pmd t z w' g' dn (D ++ data).
Proof.
  induction fuel as [|f0 fuel IH]; intros w g dn D data caps H Hf; [cbn in Hf; lia|].
  cbn [read_from_loop].
  destruct (make_room w g dn D H) as (w1 & g1 & Hrun & H1 & Hlt).
  assert (Heqb : (pos w =? blen c) = (blen c <=? pos w)).
  { destruct H as (_ & _ & Hpb & _). destruct (pos w =? blen c) eqn:A; symmetry.
    - apply N.eqb_eq in A. apply N.leb_le. lia.
    - apply N.eqb_neq in A. apply N.leb_gt. lia. }
  rewrite Heqb, Hrun. cbn [bind N.eqb negb].
  set (space := blen c - pos w1).
  set (cc := match caps with [] => (lenN data, []) | x :: t0 => (x, t0) end).
  assert (Hcc : (length (snd cc) <= length caps)%nat /\ (caps <> [] -> (length (snd cc) < length caps)%nat)
                /\ (caps = [] -> fst cc = lenN data)).
  { unfold cc. destruct caps; cbn; repeat split; try lia; try congruence. }
  destruct cc as [cap caps'] eqn:Ecc. cbn [fst snd] in Hcc. destruct Hcc as (Hc1 & Hc2 & Hc3).
  set (n := N.min (N.min cap space) (lenN data)).
  rewrite splitN_spec.
  set (a := firstn (N.to_nat n) data). set (rest := skipn (N.to_nat n) data).
  assert (Hnle : n <= lenN data) by (unfold n; lia).
  assert (Ha : lenN a = n).
  { unfold a. rewrite lenN_spec, firstn_length. rewrite lenN_spec in Hnle. lia. }
  assert (Hr : lenN rest = lenN data - n).
  { unfold rest. rewrite !lenN_spec, skipn_length. rewrite lenN_spec in Hnle. lia. }
  assert (Hda : data = a ++ rest) by (unfold a, rest; symmetry; apply firstn_skipn).
  (* the state after the copy *)
  assert (H2 : MInv c pmd t z (if n =? 0 then w1 else buf_append w1 a n) g1 dn (D ++ a)).
  { destruct (n =? 0) eqn:En.
    - apply N.eqb_eq in En. assert (a = []) as ->.
      { destruct a; [reflexivity|]. rewrite lenN_spec in Ha. cbn [length] in Ha. lia. }
      rewrite app_nil_r. exact H1.
    - pose proof (append_step w1 g1 dn D a H1) as H2. rewrite Ha in H2. apply H2. unfold n, space. lia. }
  destruct ((lenN data =? 0) || ((lenN data - n =? 0) && ewd)) eqn:Estop.
  - (* the reader reported EOF *)
    eexists _, g1. split; [reflexivity|].
    assert (rest = []) as Hrest.
    { apply orb_prop in Estop. destruct Estop as [E|E].
      - apply N.eqb_eq in E. destruct rest; [reflexivity|]. rewrite lenN_spec in Hr. cbn [length] in Hr. lia.
      - apply andb_prop in E. destruct E as [E _]. apply N.eqb_eq in E.
        destruct rest; [reflexivity|]. rewrite lenN_spec in Hr. cbn [length] in Hr. lia. }
    rewrite Hda, Hrest, app_nil_r. exact H2.
  - apply orb_false_elim in Estop. destruct Estop as [E0 _]. apply N.eqb_neq in E0.
    destruct (IH _ g1 dn (D ++ a) rest caps' H2) as (w' & g' & Hrun' & H').
    { unfold rest. rewrite skipn_length. pose proof (lenN_spec data) as Hld.
      destruct caps as [|c0 caps0].
      - specialize (Hc3 eq_refl). subst cap.
        assert (1 <= n) by (unfold n, space; lia). cbn [length] in *. lia.
      - specialize (Hc2 ltac:(discriminate)). cbn [length] in *. lia. }
    exists w', g'. rewrite <- Hr. split; [exact Hrun'|].
    rewrite <- app_assoc in H'. rewrite <- Hda in H'. exact H'.
Qed.

Lemma mw_read_from_ok w g dn D data caps ewd :
  MInv c pmd t z w g dn D ->
  exists w' g', mw_read_from c w data caps ewd = Ok (w', eOK) /\ MInv c pmd t z w' g' dn (D ++ data).
Proof.
  intros H. unfold mw_read_from. apply (read_from_loop_ok ewd _ w g dn D data caps H).
  cbn [length]. rewrite app_length. lia.
Qed.
End Writer2.

Lemma Forall_snoc {A} (P : A -> Prop) l x : Forall P l -> P x -> Forall P (l ++ [x]).
Proof. intros H1 H2. apply Forall_app. split; [exact H1|]. constructor; [exact H2|constructor]. Qed.

(* ---------- WriteControl ---------- *)
Definition ping_pong (t : N) : Prop := t = 9 \/ t = 10.

Lemma control_ok c pmd s ds i cur dn t p :
  CInv c pmd (mw s) ds i cur dn -> ping_pong t -> lenN p <= 125 ->
  let d := mkD true false t (next_key (mw s)) p in
  exists m', do_control c s t p = (st_mw s m', eOK) /\ CInv c pmd m' (ds ++ [d]) i cur (dn ++ [(t, false, p)]) /\
    rbuf m' = rbuf (mw s) /\ pos m' = pos (mw s) /\ ftype m' = ftype (mw s) /\ cflag m' = cflag (mw s).
Proof.
  intros (Hh & [He Hbud] & Hk & Hw & Hok & Hsh & Htl) Ht Hl d.
  assert (Hctl : is_control t = true) by (destruct Ht as [-> | ->]; reflexivity).
  assert (Hncl : (t =? opClose) = false) by (destruct Ht as [-> | ->]; reflexivity).
  assert (Hb0 : N.lor (u8 t) finalBit = b0_of true false t) by (destruct Ht as [-> | ->]; reflexivity).
  assert (Hkl : length (next_key (mw s)) = 4%nat) by (apply next_key_len; exact Hk).
  unfold do_control. rewrite Hctl. cbn [negb].
  replace (maxCtl <? lenN p) with false by (symmetry; apply N.ltb_ge; exact Hl).
  rewrite He. cbn [N.eqb negb]. rewrite Hb0.
  assert (Hu8 : u8 (lenN p) = lenN p) by (unfold u8; apply N.mod_small; lia).
  rewrite Hu8.
  assert (Hdok : fd_ok d).
  { unfold fd_ok, d. cbn [d_op d_key d_pl]. repeat split; [|exact Hkl|unfold two63; lia].
    destruct Ht as [-> | ->]; unfold op_ok; [do 4 right; left; reflexivity|do 5 right; reflexivity]. }
  assert (Hdsh : fd_shape pmd d).
  { unfold fd_shape, d. cbn [d_z d_op d_fin d_pl]. split; [discriminate|]. intros _. auto. }
  assert (Htl' : tail_ok (map (abs_fd (srv c)) (ds ++ [d])) i cur (dn ++ [(t, false, p)])).
  { rewrite map_app. apply (tail_ok_control _ _ _ _ (abs_fd (srv c) d) Htl). unfold abs_fd, abs_frame, d. cbn [pf_op d_op].
    destruct Ht as [-> | ->]; reflexivity. }
  assert (Henc : enc_fd (srv c) d = (if srv c then [b0_of true false t; lenN p] ++ p
           else [b0_of true false t; N.lor (lenN p) maskBit] ++ next_key (mw s) ++ mask_fast (next_key (mw s)) 0 p)).
  { unfold enc_fd, enc_frame, d, len_hdr. cbn [d_fin d_z d_op d_key d_pl].
    replace (lenN p <=? 125) with true by (symmetry; apply N.leb_le; exact Hl).
    destruct (srv c); [reflexivity|].
    rewrite N.lor_comm. change maskBit with 128. rewrite lor128 by lia.
    rewrite mask_fast_spec by exact Hkl. reflexivity. }
  destruct (srv c) eqn:Es.
  - unfold conn_write. rewrite He. cbn [N.eqb negb]. rewrite Hbud. cbn [fold_left is_nil app]. rewrite Hncl.
    eexists. split; [reflexivity|]. split; [|cbn; auto].
    unfold CInv. rewrite ?Es. cbn [hdr werrc keys set_out].
    split; [exact Hh|]. split; [exact (conj He Hbud)|]. split; [exact Hk|].
    split; [|split; [apply Forall_snoc; assumption|split; [apply Forall_snoc; assumption|exact Htl']]].
    unfold wire in *. cbn [out set_out rev]. rewrite concat_app, Hw, enc_all_snoc, Henc. cbn [concat]. rewrite app_nil_r. reflexivity.
  - unfold next_key in *. destruct (pop_key (keys (mw s))) as [key ks] eqn:Ek. cbn [fst] in *.
    unfold conn_write. cbn [werrc wbudget set_keys]. rewrite He. cbn [N.eqb negb]. rewrite Hbud. cbn [fold_left is_nil app]. rewrite Hncl.
    eexists. split; [reflexivity|]. split; [|cbn; auto].
    unfold CInv. rewrite ?Es. cbn [hdr werrc keys set_out set_keys].
    split; [exact Hh|]. split; [exact (conj He Hbud)|].
    split; [pose proof (keys_after false _ Hk) as Hka; cbn in Hka; rewrite Ek in Hka; exact Hka|].
    split; [|split; [apply Forall_snoc; assumption|split; [apply Forall_snoc; assumption|exact Htl']]].
    unfold wire in *. cbn [out set_out set_keys rev]. rewrite concat_app, Hw, enc_all_snoc, Henc. cbn [concat]. rewrite app_nil_r. reflexivity.
Qed.

