(* C08, RTMP read path: the rtmpchunk builder's data-dependent chunk reader composed with the
   faulting transport of Lib/IO.v performs exactly the read plan Model/Faults.v computes from the
   message list (msg_reads / msgs_plan), and therefore returns what plan_outcome says.

   Model/FaultsRtmp.v is their reader with the transport as a parameter; the instance over their
   own transport is their reader, definitionally (g_*_theirs below).  The analysis of the instance
   over a sound reader of Lib/IO.v is done with the predicate [follows]: "this call reads the
   bytes X ahead of it according to this list of takes, whatever part of X has been delivered". *)
From Verif Require Import Lib.Base Lib.Sx Lib.Err Lib.IO Proofs.FaultsIO.
From Verif Require Import Model.RtmpChunk Model.FaultsRtmp Proofs.RtmpChunk Proofs.RtmpChunkRT.
From Verif Require Model.Faults Proofs.Faults.
Module MFa := Verif.Model.Faults.
Module PFa := Verif.Proofs.Faults.
Open Scope N_scope.
Ltac Zify.zify_post_hook ::= Z.div_mod_to_equations.

(* ---------- the instance over their transport is their reader ---------- *)
Lemma g_stake1_theirs i : g_stake1 inp stake i = stake1 i.
Proof. reflexivity. Qed.
Lemma g_read_basic_header_theirs i : g_read_basic_header inp stake i = read_basic_header i.
Proof. reflexivity. Qed.
Lemma g_read_message_header_theirs cid st fmt i :
  g_read_message_header inp stake cid st fmt i = read_message_header cid st fmt i.
Proof. reflexivity. Qed.
Lemma g_read_payload_theirs c cid st i : g_read_payload inp stake c cid st i = read_payload c cid st i.
Proof. reflexivity. Qed.
Lemma g_read_chunk_theirs s i : g_read_chunk inp stake s i = read_chunk s i.
Proof. reflexivity. Qed.
Lemma g_read_message_theirs fuel s i : g_read_message inp stake fuel s i = read_message fuel s i.
Proof. reflexivity. Qed.
Theorem g_read_all_theirs fuel s i acc : g_read_all inp stake fuel s i acc = read_all fuel s i acc.
Proof. reflexivity. Qed.

(* ---------- follows ---------- *)
Lemma item_outcome_app p1 : forall p2 a t,
  MFa.item_outcome (p1 ++ p2) a t =
  match MFa.item_outcome p1 a t with inl a' => MFa.item_outcome p2 a' t | inr e => inr e end.
Proof.
  induction p1 as [|o p1 IH]; intros p2 a t; cbn [app MFa.item_outcome]; [reflexivity|].
  destruct (MFa.rop_size o <=? a); [apply IH|reflexivity].
Qed.

Section Over.
  Variable S : Type.
  Variable rd : N -> S -> bytes * option N * S.
  Variable fl : S -> bytes * N.
  Variable inv : S -> Prop.
  Hypothesis Hsound : sound rd fl inv.

  Notation take := (io_take S rd).

  (* [r] is the result of a call made in a state with the bytes X ++ d ahead, of which only the
     first a will be delivered before the transport ends with t; X is read by the takes [plan];
     the call returns v when all of X arrives, and the plan's error otherwise *)
  Definition follows {A} (r : res (A * S)) (plan : list MFa.rop) (v : A) (d : bytes) (a t : N) : Prop :=
    match MFa.item_outcome plan a t with
    | inl a' => exists st', r = Ok (v, st') /\ fl st' = (firstn (N.to_nat a') d, t) /\ inv st'
    | inr e => r = Err (io_code e)
    end.

  Lemma follows_ret {A} (v : A) st d a t :
    inv st -> fl st = (firstn (N.to_nat a) d, t) -> follows (Ok (v, st)) [] v d a t.
  Proof. intros Hi Hf. unfold follows. cbn. eauto. Qed.

  Lemma follows_bind {A B} (r1 : res (A * S)) (k : A * S -> res (B * S)) p1 p2 v1 v2 D1 d a t :
    follows r1 p1 v1 D1 a t ->
    (forall st' a', inv st' -> fl st' = (firstn (N.to_nat a') D1, t) -> follows (k (v1, st')) p2 v2 d a' t) ->
    follows (bind r1 k) (p1 ++ p2) v2 d a t.
  Proof.
    unfold follows. intros H1 K. rewrite item_outcome_app.
    destruct (MFa.item_outcome p1 a t) as [a'|e].
    - destruct H1 as (st' & -> & Hf & Hi). cbn [bind]. apply (K st' a' Hi Hf).
    - rewrite H1. reflexivity.
  Qed.

  Lemma take_follows st n (x d : bytes) a t :
    inv st -> fl st = (firstn (N.to_nat a) (x ++ d), t) -> lenN x = n ->
    follows (take st n) [MFa.RF n] x d a t.
  Proof.
    intros Hi Hf Hn. unfold follows, io_take. cbn [MFa.item_outcome MFa.rop_size MFa.short_code].
    pose proof (read_full_sound S rd fl inv Hsound n st Hi) as R. rewrite Hf in R.
    unfold read_full_flat in R.
    assert (Hlen : lenN (firstn (N.to_nat a) (x ++ d)) = N.min a (n + lenN d)).
    { rewrite !lenN_length, firstn_length, app_length. rewrite lenN_length in Hn. lia. }
    rewrite Hlen in R.
    destruct (N.leb_spec n a) as [Hle|Hgt].
    - destruct (N.leb_spec n (N.min a (n + lenN d))) as [_|H]; [|lia].
      destruct R as (st' & -> & Hf' & Hi'). exists st'.
      assert (Hx : firstn (N.to_nat n) (firstn (N.to_nat a) (x ++ d)) = x).
      { rewrite firstn_firstn. replace (Init.Nat.min (N.to_nat n) (N.to_nat a)) with (length x)
          by (rewrite lenN_length in Hn; lia). apply firstn_app_exact. }
      rewrite Hx. split; [reflexivity|]. split; [|exact Hi'].
      rewrite Hf'. f_equal. rewrite skipn_firstn_comm.
      replace (N.to_nat a - N.to_nat n)%nat with (N.to_nat (a - n)) by lia.
      replace (N.to_nat n) with (length x) by (rewrite lenN_length in Hn; lia).
      now rewrite skipn_app_exact.
    - destruct (N.leb_spec n (N.min a (n + lenN d))) as [H|_]; [lia|].
      destruct (firstn (N.to_nat a) (x ++ d)) as [|y l] eqn:E.
      + cbn beta iota in R. rewrite R. assert (a = 0) as ->. { change (lenN []) with 0 in Hlen. lia. } reflexivity.
      + cbn beta iota in R. assert (Ha : a <> 0).
        { intros ->. cbn in E. discriminate. }
        replace (a =? 0) with false by (symmetry; now apply N.eqb_neq).
        destruct (t =? id_EOF); rewrite R; reflexivity.
  Qed.

  Lemma stake1_follows st (b : N) d a t :
    inv st -> fl st = (firstn (N.to_nat a) (b :: d), t) ->
    follows (g_stake1 S take st) [MFa.RF 1] b d a t.
  Proof.
    intros Hi Hf. unfold g_stake1.
    apply (follows_bind (take st 1) _ [MFa.RF 1] [] [b] b d d a t).
    - apply (take_follows st 1 [b] d a t Hi Hf). reflexivity.
    - intros st' a' Hi' Hf'. cbn beta iota. now apply follows_ret.
  Qed.

  (* ---------- readBasicHeader ---------- *)
  Lemma bh_reads_cases cid :
    (cid <= 63 /\ MFa.bh_reads cid = [MFa.RF 1]) \/
    (64 <= cid <= 319 /\ MFa.bh_reads cid = [MFa.RF 1; MFa.RF 1]) \/
    (320 <= cid /\ MFa.bh_reads cid = [MFa.RF 1; MFa.RF 1; MFa.RF 1]).
  Proof.
    unfold MFa.bh_reads, MFa.bh_len.
    destruct (N.leb_spec cid 63); [left; auto|]. destruct (N.leb_spec cid 319); [right; left|right; right]; split; auto; lia.
  Qed.

  Lemma rbh_follows fmt cid bh st d a t :
    fmt < 4 -> basic_header fmt cid = Ok bh -> inv st -> fl st = (firstn (N.to_nat a) (bh ++ d), t) ->
    follows (g_read_basic_header S take st) (MFa.bh_reads cid) (fmt, cid) d a t.
  Proof.
    intros Hf Hb Hi Hfl. apply basic_header_cases in Hb. unfold g_read_basic_header.
    destruct (bh_reads_cases cid) as [[Hc1 ->]|[[Hc1 ->]|[Hc1 ->]]];
      destruct Hb as [[Hc ->]|[[Hc ->]|[Hc ->]]]; try lia; cbn [app] in Hfl.
    - apply (follows_bind _ _ [MFa.RF 1] [] (fmt * 64 + cid) (fmt, cid) d d a t);
        [now apply stake1_follows|].
      intros st' a' Hi' Hf'. cbn beta iota zeta.
      assert ((fmt * 64 + cid) mod 64 = cid) as -> by lia.
      assert ((fmt * 64 + cid) / 64 mod 4 = fmt) as -> by lia.
      assert ((1 <? cid) = true) as -> by lia. now apply follows_ret.
    - apply (follows_bind _ _ [MFa.RF 1] [MFa.RF 1] (fmt * 64) (fmt, cid) ((cid - 64) :: d) d a t);
        [now apply stake1_follows|].
      intros st' a' Hi' Hf'. cbn beta iota zeta.
      assert ((fmt * 64) mod 64 = 0) as -> by lia.
      assert ((fmt * 64) / 64 mod 4 = fmt) as -> by lia.
      change (1 <? 0) with false. cbv iota.
      apply (follows_bind _ _ [MFa.RF 1] [] (cid - 64) (fmt, cid) d d a' t);
        [now apply stake1_follows|].
      intros st2 a2 Hi2 Hf2. cbn beta iota zeta.
      change (0 =? 1) with false. cbv iota. unfold u32.
      assert ((64 + (cid - 64)) mod 4294967296 = cid) as -> by lia. now apply follows_ret.
    - apply (follows_bind _ _ [MFa.RF 1] [MFa.RF 1; MFa.RF 1] (fmt * 64 + 1) (fmt, cid)
               ((cid - 64) mod 256 :: ((cid - 64) / 256) mod 256 :: d) d a t);
        [now apply stake1_follows|].
      intros st' a' Hi' Hf'. cbn beta iota zeta.
      assert ((fmt * 64 + 1) mod 64 = 1) as -> by lia.
      assert ((fmt * 64 + 1) / 64 mod 4 = fmt) as -> by lia.
      change (1 <? 1) with false. cbv iota.
      apply (follows_bind _ _ [MFa.RF 1] [MFa.RF 1] ((cid - 64) mod 256) (fmt, cid)
               (((cid - 64) / 256) mod 256 :: d) d a' t); [now apply stake1_follows|].
      intros st2 a2 Hi2 Hf2. cbn beta iota zeta.
      change (1 =? 1) with true. cbv iota.
      apply (follows_bind _ _ [MFa.RF 1] [] (((cid - 64) / 256) mod 256) (fmt, cid) d d a2 t);
        [now apply stake1_follows|].
      intros st3 a3 Hi3 Hf3. cbn beta iota zeta. unfold u32.
      assert (((64 + (cid - 64) mod 256) mod 4294967296 + ((cid - 64) / 256 mod 256 * 256) mod 4294967296)
              mod 4294967296 = cid) as -> by lia.
      now apply follows_ret.
  Qed.

  Lemma follows_ret' {A} (v v' : A) st d a t :
    v' = v -> inv st -> fl st = (firstn (N.to_nat a) d, t) -> follows (Ok (v', st)) [] v d a t.
  Proof. intros ->. apply follows_ret. Qed.

  Lemma ext_true m : e_of m = true -> ext_bytes (m_ts m) = be4 (m_ts m).
  Proof. unfold ext_bytes, e_of. consts. intros H. assert ((m_ts m <? 16777215) = false) as -> by lia. reflexivity. Qed.
  Lemma ext_false m : e_of m = false -> ext_bytes (m_ts m) = [].
  Proof. unfold ext_bytes, e_of. consts. intros H. assert ((m_ts m <? 16777215) = true) as -> by lia. reflexivity. Qed.

  (* ---------- readMessageHeader, type 0 (first chunk of a message) ---------- *)
  Lemma mh0_follows m cid cst st d a t :
    wf_msg m -> c_part cst = None -> inv st ->
    fl st = (firstn (N.to_nat a) ((mh0 m ++ ext_bytes (m_ts m)) ++ d), t) ->
    follows (g_read_message_header S take cid cst 0 st)
            ([MFa.RF 11] ++ MFa.ext_reads (e_of m))
            (mkcs (hdr_of m) (e_of m) (c_count cst + 1) None) d a t.
  Proof.
    intros W Hp Hi Hfl. pose proof W as W'. destruct W' as [Hc Ht Hty Hs Hl Hb].
    unfold g_read_message_header. rewrite Hp. consts. change (0 =? 0) with true.
    rewrite andb_false_r. cbn [negb andb]. rewrite hdr_size_0.
    set (tf := tsf m).
    assert (Htf : tf < 16777216) by (unfold tf, tsf; consts; destruct (m_ts m <? 16777215) eqn:E; lia).
    assert (Hmh : mh0 m = be3 tf ++ be3 (lenN (m_payload m)) ++ [u8 (m_type m)] ++ le4 (m_sid m)).
    { unfold mh0, tf, tsf. consts. destruct (m_ts m <? 16777215); reflexivity. }
    rewrite Hmh, <- app_assoc in Hfl.
    eapply (follows_bind _ _ [MFa.RF 11] (MFa.ext_reads (e_of m)) _ _ (ext_bytes (m_ts m) ++ d) d a t).
    { apply (take_follows st 11 _ _ a t Hi Hfl). reflexivity. }
    intros st' a' Hi' Hf'. unfold be3, le4. cbn [app]. cbn beta iota zeta.
    change (0 <=? 2) with true. change (0 <=? 1) with true. cbv iota.
    rewrite (ube3_be3 tf Htf), (ube3_be3 (lenN (m_payload m))) by lia.
    rewrite ule4_le4 by lia. cbn [negb andb bind].
    assert (He : (16777215 <=? tf) = e_of m).
    { unfold tf, tsf, e_of. consts. destruct (N.ltb_spec (m_ts m) 16777215); lia. }
    rewrite He.
    assert (Hu8 : u8 (m_type m) = m_type m) by (unfold u8; apply N.mod_small; lia).
    rewrite Hu8.
    destruct (e_of m) eqn:Ee.
    - rewrite (ext_true m Ee) in Hf'. unfold be4 in Hf'. cbn [app] in Hf'. cbn [MFa.ext_reads].
      change [MFa.RF 4] with ([MFa.RF 4] ++ []).
      eapply (follows_bind _ _ [MFa.RF 4] [] _ _ d d a' t).
      + change [MFa.RF 4] with ([MFa.RF 4] ++ []).
        eapply (follows_bind _ _ [MFa.RF 4] [] _ _ d d a' t).
        * apply (take_follows st' 4 [_; _; _; _] d a' t Hi' Hf'). reflexivity.
        * intros st2 a2 Hi2 Hf2. cbn beta iota. now apply follows_ret.
      + intros st2 a2 Hi2 Hf2. cbn beta iota. apply follows_ret'; [|exact Hi2|exact Hf2].
        rewrite ube4_be4 by lia. unfold set_ts, hdr_of. cbn. unfold T31.
        rewrite !N.mod_small by lia. reflexivity.
    - rewrite (ext_false m Ee) in Hf'. cbn [app] in Hf'. cbn [MFa.ext_reads bind h_ts].
      apply follows_ret'; [|exact Hi'|exact Hf'].
      unfold set_ts, hdr_of. cbn.
      assert (tf = m_ts m) as -> by (unfold tf, tsf, e_of in *; consts; destruct (N.ltb_spec (m_ts m) 16777215); lia).
      unfold T31. rewrite N.mod_small by lia. unfold tsf. consts.
      assert ((m_ts m <? 16777215) = true) as -> by (unfold e_of in Ee; consts; lia). reflexivity.
  Qed.

  (* ---------- readMessageHeader, type 3 (continuation chunk) ---------- *)
  Lemma mh3_follows m cid cst g st d a t :
    wf_msg m -> c_hdr cst = hdr_of m -> c_ext cst = e_of m -> c_count cst <> 0 -> c_part cst = Some g ->
    inv st -> fl st = (firstn (N.to_nat a) (ext_bytes (m_ts m) ++ d), t) ->
    follows (g_read_message_header S take cid cst 3 st) ([MFa.RF 0] ++ MFa.ext_reads (e_of m))
            (mkcs (hdr_of m) (e_of m) (c_count cst + 1) (Some g)) d a t.
  Proof.
    intros W Hh He Hc Hp Hi Hfl. pose proof W as W'. destruct W' as [_ Ht _ _ _ _].
    unfold g_read_message_header. rewrite Hp, He, Hh. consts.
    assert ((c_count cst =? 0) = false) as -> by (now apply N.eqb_neq).
    change (3 =? 0) with false. cbn [negb andb]. rewrite hdr_size_3.
    eapply (follows_bind _ _ [MFa.RF 0] (MFa.ext_reads (e_of m)) _ _ (ext_bytes (m_ts m) ++ d) d a t).
    { apply (take_follows st 0 [] _ a t Hi Hfl). reflexivity. }
    intros st' a' Hi' Hf'. cbn beta iota zeta.
    change (3 <=? 2) with false. cbv iota. cbn [bind].
    destruct (e_of m) eqn:Ee.
    - rewrite (ext_true m Ee) in Hf'. unfold be4 in Hf'. cbn [app] in Hf'. cbn [MFa.ext_reads].
      change [MFa.RF 4] with ([MFa.RF 4] ++ []).
      eapply (follows_bind _ _ [MFa.RF 4] [] _ _ d d a' t).
      + change [MFa.RF 4] with ([MFa.RF 4] ++ []).
        eapply (follows_bind _ _ [MFa.RF 4] [] _ _ d d a' t).
        * apply (take_follows st' 4 [_; _; _; _] d a' t Hi' Hf'). reflexivity.
        * intros st2 a2 Hi2 Hf2. cbn beta iota. now apply follows_ret.
      + intros st2 a2 Hi2 Hf2. cbn beta iota. apply follows_ret'; [|exact Hi2|exact Hf2].
        rewrite ube4_be4 by lia. unfold set_ts, hdr_of. cbn. unfold T31.
        rewrite !N.mod_small by lia. reflexivity.
    - rewrite (ext_false m Ee) in Hf'. cbn [app] in Hf'. cbn [MFa.ext_reads bind h_ts hdr_of].
      apply follows_ret'; [|exact Hi'|exact Hf'].
      unfold set_ts. cbn. unfold T31. rewrite N.mod_small by lia. reflexivity.
  Qed.

  (* ---------- readMessagePayload ---------- *)
  Lemma payload_follows c cst m (got q : bytes) st d a t :
    0 < c -> c_hdr cst = hdr_of m -> part_is (c_part cst) got -> m_payload m = got ++ q -> q <> [] ->
    inv st -> fl st = (firstn (N.to_nat a) (firstn (N.to_nat c) q ++ d), t) ->
    follows (g_read_payload S take c (m_cid m) cst st) ([MFa.RF (N.min c (lenN q))] ++ [])
      (if lenN q <=? c then (Some m, set_part cst None)
       else (None, set_part cst (Some (firstn (N.to_nat c) q :: gr_of (c_part cst), lenN got + c)))) d a t.
  Proof.
    intros Hc Hh Hp Hpay Hq Hi Hfl. unfold g_read_payload. rewrite Hh. cbn [hdr_of h_len h_ts h_type h_sid].
    assert (Hlen : lenN (m_payload m) = lenN got + lenN q) by (now rewrite Hpay, lenN_app).
    assert (Hql : 0 < lenN q) by (destruct q; [congruence|rewrite lenN_length; cbn; lia]).
    assert (Hpart : match c_part cst with None => ([], 0) | Some g => g end = (gr_of (c_part cst), lenN got)
                    /\ concat (rev (gr_of (c_part cst))) = got).
    { unfold part_is in Hp. destruct (c_part cst) as [[gr gl]|]; cbn.
      - destruct Hp as [H1 ->]. auto.
      - subst got. auto. }
    destruct Hpart as [-> Hgr].
    assert ((lenN (m_payload m) =? 0) = false) as -> by lia.
    assert ((lenN (m_payload m) <? lenN got) = false) as -> by lia.
    replace (lenN (m_payload m) - lenN got) with (lenN q) by lia.
    rewrite (N.min_comm (lenN q) c).
    assert (Hfn : lenN (firstn (N.to_nat c) q) = N.min c (lenN q))
      by (rewrite !lenN_length, firstn_length; lia).
    eapply (follows_bind _ _ [MFa.RF (N.min c (lenN q))] [] _ _ d d a t).
    { apply (take_follows st _ _ d a t Hi Hfl Hfn). }
    intros st' a' Hi' Hf'. cbn beta iota zeta.
    destruct (N.leb_spec (lenN q) c) as [Hle|Hgt].
    - rewrite N.min_r by lia.
      assert ((lenN got + lenN q =? lenN (m_payload m)) = true) as -> by lia.
      apply follows_ret'; [|exact Hi'|exact Hf'].
      rewrite firstn_all2 by (rewrite lenN_length in Hle; lia).
      rewrite Proofs.RtmpChunk.frev_rev. cbn [rev]. rewrite concat_app, Hgr. cbn [concat]. rewrite app_nil_r, <- Hpay, eta_msg.
      reflexivity.
    - rewrite N.min_l by lia.
      assert ((lenN got + c =? lenN (m_payload m)) = false) as -> by lia.
      now apply follows_ret.
  Qed.

  (* ---------- one chunk ---------- *)
  Lemma chunk_follows s m fmt (bh hb : bytes) hplan cst1 (got q : bytes) c st d a t :
    wf_msg m -> fmt < 4 -> basic_header fmt (m_cid m) = Ok bh ->
    (forall st0 a0 d0, inv st0 -> fl st0 = (firstn (N.to_nat a0) (hb ++ d0), t) ->
       follows (g_read_message_header S take (m_cid m) (get_chunk (chunks s) (m_cid m)) fmt st0) hplan cst1 d0 a0 t) ->
    c_hdr cst1 = hdr_of m -> part_is (c_part cst1) got -> m_payload m = got ++ q -> q <> [] ->
    in_chunk s = c -> 0 < c -> inv st ->
    fl st = (firstn (N.to_nat a) (bh ++ hb ++ firstn (N.to_nat c) q ++ d), t) ->
    follows (g_read_chunk S take s st)
      (MFa.bh_reads (m_cid m) ++ hplan ++ [MFa.RF (N.min c (lenN q))] ++ [])
      (if lenN q <=? c
       then (Some m, mkrs (next_chunk c m) (set_chunk (chunks s) (m_cid m) (set_part cst1 None)))
       else (None, mkrs c (set_chunk (chunks s) (m_cid m)
                      (set_part cst1 (Some (firstn (N.to_nat c) q :: gr_of (c_part cst1), lenN got + c))))))
      d a t.
  Proof.
    intros W Hf Hb Hh Hc1 Hp Hpay Hq Hin Hc Hi Hfl. unfold g_read_chunk.
    eapply (follows_bind _ _ _ _ (fmt, m_cid m) _ (hb ++ firstn (N.to_nat c) q ++ d) d a t).
    { apply (rbh_follows fmt (m_cid m) bh st _ a t Hf Hb Hi Hfl). }
    intros st1 a1 Hi1 Hf1. cbn beta iota zeta.
    eapply (follows_bind _ _ _ _ cst1 _ (firstn (N.to_nat c) q ++ d) d a1 t).
    { apply (Hh st1 a1 _ Hi1 Hf1). }
    intros st2 a2 Hi2 Hf2. cbn beta iota zeta. rewrite Hin.
    eapply (follows_bind _ _ _ [] _ _ d d a2 t).
    { apply (payload_follows c cst1 m got q st2 d a2 t Hc Hc1 Hp Hpay Hq Hi2 Hf2). }
    intros st3 a3 Hi3 Hf3.
    destruct (lenN q <=? c); cbn beta iota zeta.
    - rewrite arrived_ok by apply W. cbn [bind]. now apply follows_ret.
    - now apply follows_ret.
  Qed.

  (* ---------- the continuation chunks of a message ---------- *)
  Lemma rest_follows m c (bh3 : bytes) : wf_msg m -> 0 < c -> basic_header 3 (m_cid m) = Ok bh3 ->
    forall n q got s,
      in_chunk s = c -> inflight m (get_chunk (chunks s) (m_cid m)) got -> m_payload m = got ++ q -> q <> [] ->
      (length q <= n)%nat ->
      exists w s',
        (forall fw, (n <= fw)%nat ->
           write_chunks fw c (bh3 ++ ext_bytes (m_ts m)) (bh3 ++ ext_bytes (m_ts m)) q = Ok w) /\
        (forall fr fp st d a t, (n <= fr)%nat -> (n <= fp)%nat -> inv st ->
           fl st = (firstn (N.to_nat a) (w ++ d), t) ->
           follows (g_read_message S take fr s st)
                   (MFa.cont_reads fp (m_cid m) (e_of m) c (lenN q)) (m, s') d a t) /\
        in_chunk s' = next_chunk c m /\ idle_after s s' (m_cid m).
  Proof.
    intros W Hc Hb3. induction n as [|n IH]; intros q got s Hin Hfl Hpay Hq Hlen.
    - destruct q; [congruence|cbn in Hlen; lia].
    - destruct Hfl as (Hh & He & Hcnt & gr & Hp & Hgr).
      set (cst1 := mkcs (hdr_of m) (e_of m) (c_count (get_chunk (chunks s) (m_cid m)) + 1) (Some (gr, lenN got))).
      assert (Hql : 0 < lenN q) by (destruct q; [congruence|rewrite lenN_length; cbn; lia]).
      assert (Hstep : forall st d a t, inv st ->
         fl st = (firstn (N.to_nat a) (bh3 ++ ext_bytes (m_ts m) ++ firstn (N.to_nat c) q ++ d), t) ->
         follows (g_read_chunk S take s st)
           (MFa.bh_reads (m_cid m) ++ ([MFa.RF 0] ++ MFa.ext_reads (e_of m)) ++ [MFa.RF (N.min c (lenN q))] ++ [])
           (if lenN q <=? c
            then (Some m, mkrs (next_chunk c m) (set_chunk (chunks s) (m_cid m) (set_part cst1 None)))
            else (None, mkrs c (set_chunk (chunks s) (m_cid m)
                      (set_part cst1 (Some (firstn (N.to_nat c) q :: gr_of (c_part cst1), lenN got + c))))))
           d a t).
      { intros st d a t Hi Hf.
        apply (chunk_follows s m 3 bh3 (ext_bytes (m_ts m)) _ cst1 got q c st d a t W ltac:(lia) Hb3); auto.
        - intros st0 a0 d0 Hi0 Hf0. now apply (mh3_follows m (m_cid m) _ (gr, lenN got) st0 d0 a0 t W Hh He Hcnt Hp Hi0 Hf0).
        - cbn. auto. }
      assert (Hplan : forall fp, MFa.cont_reads (Datatypes.S fp) (m_cid m) (e_of m) c (lenN q) =
                (MFa.bh_reads (m_cid m) ++ ([MFa.RF 0] ++ MFa.ext_reads (e_of m)) ++ [MFa.RF (N.min c (lenN q))] ++ [])
                ++ MFa.cont_reads fp (m_cid m) (e_of m) c (lenN q - N.min c (lenN q))).
      { intros fp. cbn [MFa.cont_reads]. assert ((lenN q =? 0) = false) as -> by lia.
        repeat (rewrite <- app_assoc; cbn [app]). reflexivity. }
      destruct (N.leb_spec (lenN q) c) as [Hle|Hgt].
      + eexists.
        exists (mkrs (next_chunk c m) (set_chunk (chunks s) (m_cid m) (set_part cst1 None))).
        split; [|split; [|split; [reflexivity|]]].
        * intros fw Hfw. destruct fw as [|fw]; [lia|]. rewrite write_chunks_S by auto.
          rewrite skipn_short by auto. rewrite write_chunks_nil. cbn [bind]. reflexivity.
        * intros fr fp st d a t Hfr Hfp Hi Hf. destruct fr as [|fr]; [lia|]. destruct fp as [|fp]; [lia|].
          cbn [g_read_message]. rewrite app_nil_r, <- !app_assoc in Hf.
          rewrite Hplan. rewrite N.min_r by lia. rewrite N.sub_diag.
          replace (MFa.cont_reads fp (m_cid m) (e_of m) c 0) with (@nil MFa.rop) by (destruct fp; reflexivity).
          eapply (follows_bind _ _ _ [] _ _ d d a t).
          { rewrite <- (N.min_r c (lenN q)) at 1 by lia. apply (Hstep st d a t Hi Hf). }
          intros st1 a1 Hi1 Hf1. cbn beta iota.
          destruct (N.leb_spec (lenN q) c) as [_|H]; [|lia]. cbn beta iota. now apply follows_ret.
        * split; cbn [chunks].
          -- now rewrite get_set_same.
          -- intros k Hk. now apply get_set_other.
      + set (s1 := mkrs c (set_chunk (chunks s) (m_cid m)
                   (set_part cst1 (Some (firstn (N.to_nat c) q :: gr, lenN got + c))))).
        destruct (IH (skipn (N.to_nat c) q) (got ++ firstn (N.to_nat c) q) s1) as (w' & s' & Hw & Hr & Hn & Hi1 & Hi2).
        * reflexivity.
        * unfold s1, inflight. cbn [chunks]. rewrite get_set_same. cbn. repeat split; auto; try lia.
          exists (firstn (N.to_nat c) q :: gr). split.
          -- rewrite lenN_app, firstn_lenN by lia. reflexivity.
          -- cbn [rev]. rewrite concat_app, Hgr. cbn. now rewrite app_nil_r.
        * rewrite <- app_assoc, firstn_skipn. exact Hpay.
        * intro E. apply (f_equal (@length N)) in E. rewrite skipn_length in E. cbn in E.
          rewrite lenN_length in Hgt. lia.
        * rewrite skipn_length. rewrite lenN_length in Hgt. lia.
        * eexists. exists s'. split; [|split; [|split; [exact Hn|]]].
          -- intros fw Hfw. destruct fw as [|fw]; [lia|]. rewrite write_chunks_S by auto.
             rewrite Hw by lia. cbn [bind]. reflexivity.
          -- intros fr fp st d a t Hfr Hfp Hi Hf. destruct fr as [|fr]; [lia|]. destruct fp as [|fp]; [lia|].
             cbn [g_read_message]. rewrite <- !app_assoc in Hf.
             rewrite Hplan. rewrite N.min_l by lia.
             eapply (follows_bind _ _ _ _ _ _ (w' ++ d) d a t).
             { rewrite <- (N.min_l c (lenN q)) at 1 by lia. apply (Hstep st (w' ++ d) a t Hi Hf). }
             intros st1 a1 Hi1' Hf1. cbn beta iota.
             destruct (N.leb_spec (lenN q) c) as [H|_]; [lia|]. cbn beta iota. fold s1.
             replace (lenN q - c) with (lenN (skipn (N.to_nat c) q))
               by (rewrite !lenN_length, skipn_length; rewrite lenN_length in Hgt; lia).
             apply (Hr fr fp st1 d a1 t); auto; lia.
          -- split; [exact Hi1|].
             intros k Hk. rewrite Hi2 by auto. unfold s1. cbn [chunks]. now apply get_set_other.
  Qed.

  (* ---------- a whole message ---------- *)
  Definition msg_plan (m : msg) (c : N) (fp : nat) : list MFa.rop :=
    (MFa.bh_reads (m_cid m) ++ ([MFa.RF 11] ++ MFa.ext_reads (e_of m))
       ++ [MFa.RF (N.min c (lenN (m_payload m)))] ++ [])
    ++ MFa.cont_reads fp (m_cid m) (e_of m) c (lenN (m_payload m) - N.min c (lenN (m_payload m))).

  Theorem message_follows m c s :
    wf_msg m -> 0 < c -> in_chunk s = c -> c_part (get_chunk (chunks s) (m_cid m)) = None ->
    exists w s',
      write_message c m = Ok (w, next_chunk c m) /\
      (forall fuel fp st d a t, (length (m_payload m) < fuel)%nat -> (length (m_payload m) <= fp)%nat ->
         inv st -> fl st = (firstn (N.to_nat a) (w ++ d), t) ->
         follows (g_read_message S take fuel s st) (msg_plan m c fp) (m, s') d a t) /\
      in_chunk s' = next_chunk c m /\ idle_after s s' (m_cid m).
  Proof.
    intros W Hc Hin Hp.
    destruct (basic_header_ok F0 m W) as (bh0 & Hb0). destruct (basic_header_ok F3 m W) as (bh3 & Hb3).
    unfold write_message. rewrite (c0_header_eq m bh0 W Hb0). cbn [bind].
    unfold c3_header. rewrite Hb3. cbn [bind]. rewrite written_ok by apply W.
    assert (Hq : m_payload m <> []).
    { destruct W as [_ _ _ _ Hl _]. destruct (m_payload m); [unfold lenN in Hl; cbn in Hl; lia|congruence]. }
    rewrite write_chunks_S by auto.
    set (cst := get_chunk (chunks s) (m_cid m)).
    set (cst1 := mkcs (hdr_of m) (e_of m) (c_count cst + 1) None).
    consts.
    assert (Hstep : forall st d a t, inv st ->
       fl st = (firstn (N.to_nat a) (bh0 ++ (mh0 m ++ ext_bytes (m_ts m)) ++ firstn (N.to_nat c) (m_payload m) ++ d), t) ->
       follows (g_read_chunk S take s st)
         (MFa.bh_reads (m_cid m) ++ ([MFa.RF 11] ++ MFa.ext_reads (e_of m)) ++ [MFa.RF (N.min c (lenN (m_payload m)))] ++ [])
         (if lenN (m_payload m) <=? c
          then (Some m, mkrs (next_chunk c m) (set_chunk (chunks s) (m_cid m) (set_part cst1 None)))
          else (None, mkrs c (set_chunk (chunks s) (m_cid m)
                    (set_part cst1 (Some (firstn (N.to_nat c) (m_payload m) :: gr_of (c_part cst1), lenN (@nil N) + c))))))
         d a t).
    { intros st d a t Hi Hf.
      apply (chunk_follows s m 0 bh0 (mh0 m ++ ext_bytes (m_ts m)) _ cst1 [] (m_payload m) c st d a t W ltac:(lia) Hb0); auto.
      - intros st0 a0 d0 Hi0 Hf0. now apply (mh0_follows m (m_cid m) cst st0 d0 a0 t W Hp Hi0 Hf0).
      - reflexivity. }
    destruct (N.leb_spec (lenN (m_payload m)) c) as [Hle|Hgt].
    - rewrite skipn_short by auto. rewrite write_chunks_nil. cbn [bind].
      eexists.
      exists (mkrs (next_chunk c m) (set_chunk (chunks s) (m_cid m) (set_part cst1 None))).
      split; [reflexivity|]. split; [|split; [reflexivity|]].
      + intros fuel fp st d a t Hfuel Hfp Hi Hf. destruct fuel as [|f]; [lia|]. cbn [g_read_message].
        rewrite app_nil_r, <- !app_assoc in Hf. rewrite (app_assoc (mh0 m) (ext_bytes (m_ts m))) in Hf.
        unfold msg_plan. rewrite (N.min_r c) by lia. rewrite N.sub_diag.
        replace (MFa.cont_reads fp (m_cid m) (e_of m) c 0) with (@nil MFa.rop) by (destruct fp; reflexivity).
        eapply (follows_bind _ _ _ [] _ _ d d a t).
        { rewrite <- (N.min_r c (lenN (m_payload m))) at 1 by lia. apply (Hstep st d a t Hi Hf). }
        intros st1 a1 Hi1 Hf1. cbn beta iota.
        destruct (N.leb_spec (lenN (m_payload m)) c) as [_|H]; [|lia]. cbn beta iota. now apply follows_ret.
      + split; cbn [chunks].
        * now rewrite get_set_same.
        * intros k Hk. now apply get_set_other.
    - set (s1 := mkrs c (set_chunk (chunks s) (m_cid m)
                   (set_part cst1 (Some ([firstn (N.to_nat c) (m_payload m)], lenN (@nil N) + c))))).
      destruct (rest_follows m c bh3 W Hc Hb3 (length (m_payload m)) (skipn (N.to_nat c) (m_payload m))
                  (firstn (N.to_nat c) (m_payload m)) s1) as (w' & s' & Hw & Hr & Hn & Hi1 & Hi2).
      + reflexivity.
      + unfold s1, inflight. cbn [chunks]. rewrite get_set_same. cbn. repeat split; auto; try lia.
        exists [firstn (N.to_nat c) (m_payload m)]. split.
        * rewrite firstn_lenN by lia. reflexivity.
        * cbn. now rewrite app_nil_r.
      + now rewrite firstn_skipn.
      + intro E. apply (f_equal (@length N)) in E. rewrite skipn_length in E. cbn in E.
        rewrite lenN_length in Hgt. lia.
      + rewrite skipn_length. lia.
      + rewrite Hw by lia. cbn [bind].
        eexists. exists s'. split; [reflexivity|]. split; [|split; [exact Hn|]].
        * intros fuel fp st d a t Hfuel Hfp Hi Hf. destruct fuel as [|f]; [lia|]. cbn [g_read_message].
          rewrite <- !app_assoc in Hf. rewrite (app_assoc (mh0 m) (ext_bytes (m_ts m))) in Hf.
          unfold msg_plan. rewrite (N.min_l c) by lia.
          eapply (follows_bind _ _ _ _ _ _ (w' ++ d) d a t).
          { rewrite <- (N.min_l c (lenN (m_payload m))) at 1 by lia. apply (Hstep st (w' ++ d) a t Hi Hf). }
          intros st1 a1 Hi1' Hf1. cbn beta iota.
          destruct (N.leb_spec (lenN (m_payload m)) c) as [H|_]; [lia|]. cbn beta iota. cbn [gr_of c_part cst1]. fold s1.
          replace (lenN (m_payload m) - c) with (lenN (skipn (N.to_nat c) (m_payload m)))
            by (rewrite !lenN_length, skipn_length; rewrite lenN_length in Hgt; lia).
          apply (Hr f fp st1 d a1 t); auto; lia.
        * split; [exact Hi1|].
          intros k Hk. rewrite Hi2 by auto. unfold s1. cbn [chunks]. now apply get_set_other.
  Qed.

  (* ---------- a whole session ---------- *)
  Fixpoint sess_plan (c : N) (ms : list msg) : list (list MFa.rop) :=
    match ms with
    | [] => []
    | m :: r => msg_plan m c (length (m_payload m)) :: sess_plan (next_chunk c m) r
    end.

  Lemma take_empty st t n : inv st -> fl st = ([], t) -> 0 < n -> take st n = Err (io_code t).
  Proof.
    intros Hi Hf Hn. unfold io_take.
    pose proof (read_full_sound S rd fl inv Hsound n st Hi) as R. rewrite Hf in R. unfold read_full_flat in R.
    change (lenN []) with 0 in R. destruct (N.leb_spec n 0) as [H|_]; [lia|]. now rewrite R.
  Qed.

  Theorem session_follows ms : Forall wf_msg ms ->
    forall c s acc fuel, 0 < c -> in_chunk s = c -> all_idle s ->
    (length ms < fuel)%nat -> Forall (fun m => (length (m_payload m) + length ms < fuel)%nat) ms ->
    exists ws, write_all c ms = map Ok ws /\
      forall st a t n0, inv st -> fl st = (firstn (N.to_nat a) (concat ws), t) ->
        a <= PFa.plan_size (sess_plan c ms) ->
        exists n e, MFa.plan_outcome (sess_plan c ms ++ [[MFa.RF 1]]) a t n0 = (n0 + n, Some e) /\
          g_read_all S take fuel s st acc = (rev acc ++ firstn (N.to_nat n) ms, io_code e).
  Proof.
    induction 1 as [|m r W Wr IH]; intros c s acc fuel Hc Hin Hidle Hf Hfs.
    - exists []. split; [reflexivity|]. intros st a t n0 Hi Hfl Ha.
      cbn [sess_plan PFa.plan_size fold_right] in Ha. assert (a = 0) as -> by lia.
      exists 0, t. split; [cbn; now rewrite N.add_0_r|].
      destruct fuel as [|f]; [cbn in Hf; lia|].
      cbn [g_read_all g_read_message]. unfold g_read_chunk, g_read_basic_header, g_stake1.
      cbn [concat firstn N.to_nat] in Hfl.
      rewrite (take_empty st t 1 Hi Hfl) by lia. cbn [bind].
      now rewrite Proofs.RtmpChunk.frev_rev, app_nil_r.
    - destruct (message_follows m c s W Hc Hin (Hidle _)) as (w & s1 & Hw & Hr1 & Hn & Hid).
      assert (Hc1 : 0 < next_chunk c m) by (apply next_chunk_pos; [apply W|exact Hc]).
      assert (Hidle1 : all_idle s1) by (eapply idle_step; eauto).
      pose proof (Forall_inv Hfs) as Hm. pose proof (Forall_inv_tail Hfs) as Ht. cbn beta in Hm. cbn [length] in *.
      destruct fuel as [|f]; [lia|].
      destruct (IH (next_chunk c m) s1 (m :: acc) f Hc1 Hn Hidle1) as (ws & Hws & Hcut).
      + lia.
      + eapply Forall_impl; [|exact Ht]. cbn. intros x Hx. lia.
      + exists (w :: ws). split; [cbn [write_all]; rewrite Hw, Hws; reflexivity|].
        intros st a t n0 Hi Hfl Ha. cbn [concat] in Hfl. cbn [sess_plan app MFa.plan_outcome].
        pose proof (Hr1 (Datatypes.S f) (length (m_payload m)) st (concat ws) a t ltac:(lia) ltac:(lia) Hi Hfl) as Hfo.
        unfold follows in Hfo. cbn [g_read_all].
        destruct (MFa.item_outcome (msg_plan m c (length (m_payload m))) a t) as [a'|e] eqn:Ho.
        * destruct Hfo as (st' & -> & Hf' & Hi').
          destruct (PFa.item_outcome_inl _ _ _ _ Ho) as (Hs & Ha').
          cbn [sess_plan PFa.plan_size fold_right] in Ha. fold (PFa.plan_size (sess_plan (next_chunk c m) r)) in Ha.
          destruct (Hcut st' a' t (N.succ n0) Hi' Hf') as (n & e & Hpo & Hra);
            [unfold PFa.item_size in *; lia|].
          exists (N.succ n), e. split; [rewrite Hpo; f_equal; lia|].
          rewrite Hra. cbn [rev]. rewrite <- app_assoc. cbn [app].
          replace (N.to_nat (N.succ n)) with (Datatypes.S (N.to_nat n)) by lia. reflexivity.
        * rewrite Hfo. exists 0, e. split; [now rewrite N.add_0_r|].
          now rewrite Proofs.RtmpChunk.frev_rev, app_nil_r.
  Qed.
End Over.

(* ---------- the plan is the one Model/Faults.v computes from the message list ---------- *)
(* what a harness case says about a message of the session *)
Definition rmsg_of (m : msg) : MFa.rmsg :=
  MFa.mk_rmsg 0 (m_cid m) (m_type m) (m_ts m) (lenN (m_payload m))
    (if m_type m =? 1 then match m_payload m with a :: b :: c :: d :: _ => ube4 a b c d | _ => 0 end else 0).

Lemma next_chunk_size_of c m : wf_msg m -> MFa.next_chunk_size c (rmsg_of m) = next_chunk c m.
Proof.
  intros W. pose proof (wf_body m W) as Hb. unfold MFa.next_chunk_size, rmsg_of, next_chunk, ctl_ok in *.
  cbn [MFa.rm_set]. destruct (m_type m =? 1); [|reflexivity].
  destruct (m_payload m) as [|a [|b [|c' [|d l]]]]; try discriminate.
  apply andb_true_iff in Hb. destruct Hb as [H1 _].
  destruct (N.eqb_spec (ube4 a b c' d) 0) as [E|_]; [rewrite E in H1; discriminate|reflexivity].
Qed.

Lemma cont_reads_S cid e c : 0 < c -> forall f rem, rem <= c * N.of_nat f ->
  MFa.cont_reads (S f) cid e c rem = MFa.cont_reads f cid e c rem.
Proof.
  intros Hc. induction f as [|f IH]; intros rem H.
  - assert (rem = 0) as -> by lia. reflexivity.
  - cbn [MFa.cont_reads] in *. destruct (N.eqb_spec rem 0) as [->|Hr]; [reflexivity|].
    f_equal. f_equal. f_equal. f_equal. apply IH. rewrite Nat2N.inj_succ, N.mul_succ_r in H. lia.
Qed.

Lemma cont_reads_stable cid e c : 0 < c -> forall k f rem, rem <= c * N.of_nat f ->
  MFa.cont_reads (f + k) cid e c rem = MFa.cont_reads f cid e c rem.
Proof.
  intros Hc. induction k as [|k IH]; intros f rem H.
  - now rewrite Nat.add_0_r.
  - replace (f + S k)%nat with (S (f + k)) by lia. rewrite cont_reads_S; [now apply IH|exact Hc|].
    rewrite Nat2N.inj_add. lia.
Qed.

Lemma msg_plan_is_msg_reads m c : wf_msg m -> 0 < c ->
  msg_plan m c (length (m_payload m)) = MFa.msg_reads c (rmsg_of m).
Proof.
  intros W Hc. pose proof (wf_len m W) as Hl.
  unfold msg_plan, MFa.msg_reads, rmsg_of. cbn [MFa.rm_cid MFa.rm_fmt MFa.rm_ts MFa.rm_len].
  change (MFa.EXT <=? m_ts m) with (e_of m). change (MFa.hdr_size 0) with 11.
  assert ((lenN (m_payload m) =? 0) = false) as -> by lia.
  repeat (rewrite <- app_assoc; cbn [app]). f_equal. f_equal. f_equal. f_equal.
  set (L := lenN (m_payload m)) in *. set (n := N.min c L).
  assert (H1 : L - n <= c * N.of_nat (S (N.to_nat (L / c)))).
  { rewrite Nat2N.inj_succ, N2Nat.id. pose proof (N.mul_succ_div_gt L c ltac:(lia)). lia. }
  assert (H2 : L - n <= c * N.of_nat (length (m_payload m))).
  { fold (lenN (m_payload m)). rewrite <- lenN_length. fold L. nia. }
  rewrite <- (cont_reads_stable (m_cid m) (e_of m) c Hc (S (N.to_nat (L / c))) (length (m_payload m)) _ H2).
  rewrite Nat.add_comm.
  now rewrite (cont_reads_stable (m_cid m) (e_of m) c Hc (length (m_payload m)) (S (N.to_nat (L / c))) _ H1).
Qed.

Lemma sess_plan_is_msgs_plan ms : Forall wf_msg ms -> forall c, 0 < c ->
  sess_plan c ms = MFa.msgs_plan c (map rmsg_of ms).
Proof.
  induction 1 as [|m r W Wr IH]; intros c Hc; cbn [sess_plan map MFa.msgs_plan]; [reflexivity|].
  rewrite (msg_plan_is_msg_reads m c W Hc), (next_chunk_size_of c m W).
  rewrite IH; [reflexivity|]. apply next_chunk_pos; [apply W|exact Hc].
Qed.

(* ---------- the plan covers exactly the bytes the writer produces ---------- *)
Lemma item_size_app p1 p2 : PFa.item_size (p1 ++ p2) = PFa.item_size p1 + PFa.item_size p2.
Proof. unfold PFa.item_size. induction p1 as [|o p1 IH]; cbn [app fold_right]; [reflexivity|]. rewrite IH. lia. Qed.

Lemma item_size_cons o p : PFa.item_size (o :: p) = MFa.rop_size o + PFa.item_size p.
Proof. reflexivity. Qed.

Lemma bh_size fmt cid bh : basic_header fmt cid = Ok bh -> lenN bh = PFa.item_size (MFa.bh_reads cid).
Proof.
  intros Hb. apply basic_header_cases in Hb.
  destruct (bh_reads_cases cid) as [[Hc1 ->]|[[Hc1 ->]|[Hc1 ->]]];
    destruct Hb as [[Hc ->]|[[Hc ->]|[Hc ->]]]; try lia; reflexivity.
Qed.

Lemma ext_size m : lenN (ext_bytes (m_ts m)) = PFa.item_size (MFa.ext_reads (e_of m)).
Proof. destruct (e_of m) eqn:E; [rewrite (ext_true m E)|rewrite (ext_false m E)]; reflexivity. Qed.

Lemma rest_size m c bh3 : 0 < c -> basic_header 3 (m_cid m) = Ok bh3 ->
  forall n q w, q <> [] -> (length q <= n)%nat ->
    write_chunks n c (bh3 ++ ext_bytes (m_ts m)) (bh3 ++ ext_bytes (m_ts m)) q = Ok w ->
    lenN w = PFa.item_size (MFa.cont_reads n (m_cid m) (e_of m) c (lenN q)).
Proof.
  intros Hc Hb3. induction n as [|n IH]; intros q w Hq Hlen Hw.
  - destruct q; [congruence|cbn in Hlen; lia].
  - rewrite write_chunks_S in Hw by auto.
    assert (Hql : 0 < lenN q) by (destruct q; [congruence|rewrite lenN_length; cbn; lia]).
    cbn [MFa.cont_reads]. assert ((lenN q =? 0) = false) as -> by lia.
    rewrite item_size_app, item_size_cons, item_size_app, item_size_cons. cbn [MFa.rop_size].
    assert (Hfn : lenN (firstn (N.to_nat c) q) = N.min c (lenN q))
      by (rewrite !lenN_length, firstn_length; lia).
    destruct (write_chunks n c (bh3 ++ ext_bytes (m_ts m)) (bh3 ++ ext_bytes (m_ts m)) (skipn (N.to_nat c) q))
      as [w'|e|p] eqn:Hw'; cbn [bind] in Hw; try discriminate.
    injection Hw as <-. rewrite !lenN_app, (bh_size 3 _ _ Hb3), ext_size, Hfn.
    destruct (N.leb_spec (lenN q) c) as [Hle|Hgt].
    + rewrite skipn_short in Hw' by auto. rewrite write_chunks_nil in Hw'. injection Hw' as <-.
      rewrite N.min_r by lia. rewrite N.sub_diag.
      replace (MFa.cont_reads n (m_cid m) (e_of m) c 0) with (@nil MFa.rop) by (destruct n; reflexivity).
      change (lenN []) with 0. change (PFa.item_size []) with 0. lia.
    + assert (Hq' : skipn (N.to_nat c) q <> []).
      { intro E. apply (f_equal (@length N)) in E. rewrite skipn_length in E. cbn in E. rewrite lenN_length in Hgt. lia. }
      assert (Hl' : (length (skipn (N.to_nat c) q) <= n)%nat)
        by (rewrite skipn_length; rewrite lenN_length in Hgt; lia).
      rewrite (IH _ _ Hq' Hl' Hw'). rewrite N.min_l by lia.
      replace (lenN (skipn (N.to_nat c) q)) with (lenN q - c)
        by (rewrite !lenN_length, skipn_length; rewrite lenN_length in Hgt; lia). lia.
Qed.

Lemma mh0_len m : lenN (mh0 m) = 11.
Proof. unfold mh0. destruct (m_ts m <? EXT); reflexivity. Qed.

Lemma message_size m c w c' : wf_msg m -> 0 < c -> write_message c m = Ok (w, c') ->
  lenN w = PFa.item_size (msg_plan m c (length (m_payload m))).
Proof.
  intros W Hc Hw.
  destruct (basic_header_ok F0 m W) as (bh0 & Hb0). destruct (basic_header_ok F3 m W) as (bh3 & Hb3).
  unfold write_message in Hw. rewrite (c0_header_eq m bh0 W Hb0) in Hw. cbn [bind] in Hw.
  unfold c3_header in Hw. rewrite Hb3 in Hw. cbn [bind] in Hw.
  assert (Hq : m_payload m <> []).
  { destruct W as [_ _ _ _ Hl _]. destruct (m_payload m); [unfold lenN in Hl; cbn in Hl; lia|congruence]. }
  rewrite write_chunks_S in Hw by auto. consts.
  set (p := m_payload m) in *.
  assert (Hfn : lenN (firstn (N.to_nat c) p) = N.min c (lenN p))
    by (rewrite !lenN_length, firstn_length; lia).
  destruct (write_chunks (length p) c (bh3 ++ ext_bytes (m_ts m)) (bh3 ++ ext_bytes (m_ts m)) (skipn (N.to_nat c) p))
    as [w'|e|q] eqn:Hw'; cbn [bind] in Hw; try discriminate.
  injection Hw as <- _. unfold msg_plan. fold p.
  rewrite !item_size_app, !lenN_app, (bh_size 0 _ _ Hb0), mh0_len, ext_size, Hfn.
  change (PFa.item_size [MFa.RF 11]) with 11. change (PFa.item_size []) with 0.
  change (PFa.item_size [MFa.RF (N.min c (lenN p))]) with (N.min c (lenN p) + 0).
  destruct (N.leb_spec (lenN p) c) as [Hle|Hgt].
  - rewrite skipn_short in Hw' by auto. rewrite write_chunks_nil in Hw'. injection Hw' as <-.
    rewrite N.min_r by lia. rewrite N.sub_diag.
    replace (MFa.cont_reads (length p) (m_cid m) (e_of m) c 0) with (@nil MFa.rop) by (destruct (length p); reflexivity).
    change (lenN []) with 0. change (PFa.item_size []) with 0. lia.
  - assert (Hq' : skipn (N.to_nat c) p <> []).
    { intro E. apply (f_equal (@length N)) in E. rewrite skipn_length in E. cbn in E. rewrite lenN_length in Hgt. lia. }
    assert (Hl' : (length (skipn (N.to_nat c) p) <= length p)%nat) by (rewrite skipn_length; lia).
    rewrite (rest_size m c bh3 Hc Hb3 _ _ _ Hq' Hl' Hw'). rewrite N.min_l by lia.
    replace (lenN (skipn (N.to_nat c) p)) with (lenN p - c)
      by (rewrite !lenN_length, skipn_length; rewrite lenN_length in Hgt; lia). lia.
Qed.

Theorem session_size ms : Forall wf_msg ms -> forall c ws, 0 < c ->
  write_all c ms = map Ok ws -> lenN (concat ws) = PFa.plan_size (sess_plan c ms).
Proof.
  induction 1 as [|m r W Wr IH]; intros c ws Hc Hw.
  - destruct ws; [reflexivity|discriminate].
  - cbn [write_all] in Hw. destruct (write_message c m) as [[w c']|e|p] eqn:Hm; destruct ws as [|w0 ws]; try discriminate.
    injection Hw as Hw0 Hws. subst w0.
    assert (c' = next_chunk c m).
    { unfold write_message in Hm. destruct (c0_header m (u32 (lenN (m_payload m)))); cbn [bind] in Hm; try discriminate.
      destruct (c3_header m); cbn [bind] in Hm; try discriminate.
      destruct (write_chunks _ _ _ _ _); cbn [bind] in Hm; try discriminate. injection Hm as _ <-.
      apply written_ok, W. }
    subst c'. cbn [concat sess_plan PFa.plan_size fold_right]. fold (PFa.plan_size (sess_plan (next_chunk c m) r)).
    rewrite lenN_app, (message_size m c w _ W Hc Hm).
    rewrite (IH _ ws (next_chunk_pos c m (wf_body m W) Hc) Hws). reflexivity.
Qed.

(* ---------- the remaining data after a completed plan prefix ---------- *)
Lemma skipn_add {A} (l : list A) : forall x y, skipn x (skipn y l) = skipn (y + x) l.
Proof. induction l as [|h l IH]; intros x y; [now rewrite !skipn_nil|]. destruct y; [reflexivity|]. cbn [skipn Nat.add]. apply IH. Qed.

Lemma item_flat_rest ops : forall b t acc x b' t',
  PFa.item_flat ops (b, t) acc = Ok (x, (b', t')) -> b' = skipn (N.to_nat (PFa.item_size ops)) b /\ t' = t.
Proof.
  induction ops as [|o ops IH]; intros b t acc x b' t' H; cbn [PFa.item_flat] in H.
  - injection H as _ <- <-. auto.
  - pose proof (PFa.rop_flat_outcome o b t) as Ho.
    destruct (PFa.rop_flat o (b, t)) as [[y [b1 t1]]|e|p]; try discriminate.
    destruct Ho as (Hle & Hl & -> & Hb & Hy). destruct (IH _ _ _ _ _ _ H) as (-> & ->). split; [|reflexivity].
    rewrite item_size_cons. subst b.
    replace (N.to_nat (MFa.rop_size o + PFa.item_size ops)) with (length y + N.to_nat (PFa.item_size ops))%nat
      by (rewrite <- Hy, lenN_length; lia).
    rewrite <- skipn_add. now rewrite skipn_app_exact.
Qed.

Lemma items_flat_rest items : forall b t done,
  let '(_, e, f') := PFa.items_flat items (b, t) done in
  e = None -> f' = (skipn (N.to_nat (PFa.plan_size items)) b, t).
Proof.
  induction items as [|it items IH]; intros b t done; cbn [PFa.items_flat PFa.plan_size fold_right].
  - intros _. reflexivity.
  - fold (PFa.plan_size items). destruct (PFa.item_flat it (b, t) []) as [[x [b' t']]|e|p] eqn:Hi.
    + destruct (item_flat_rest _ _ _ _ _ _ _ Hi) as (-> & ->).
      specialize (IH (skipn (N.to_nat (PFa.item_size it)) b) t (x :: done)).
      destruct (PFa.items_flat items _ (x :: done)) as [[d e] f]. intros He. rewrite (IH He).
      rewrite skipn_add. f_equal. f_equal. unfold PFa.item_size. lia.
    + discriminate.
    + discriminate.
Qed.

(* ================================ C08, RTMP read side ================================ *)
(* the chunk stream through bufio.Reader over a stream of Lib/IO.v *)
Theorem io_read_all_spec ms fuel str a t acc n0 :
  Forall wf_msg ms -> (length ms < fuel)%nat ->
  Forall (fun m => (length (m_payload m) + length ms < fuel)%nat) ms ->
  exists ws, write_all DEFCHUNK ms = map Ok ws /\
    (a <= lenN (concat ws) -> IO.flat str = (firstn (N.to_nat a) (concat ws), t) ->
     exists n e,
       MFa.plan_outcome (MFa.msgs_plan MFa.DEFCHUNK (map rmsg_of ms) ++ [[MFa.RF 1]]) a t n0 = (n0 + n, Some e) /\
       g_read_all (bufr stream) (io_take (bufr stream) (br_read stream tr_read)) fuel rs0 (bufr_new str) acc
       = (rev acc ++ firstn (N.to_nat n) ms, io_code e)).
Proof.
  intros W Hf Hfs.
  assert (Hc : 0 < DEFCHUNK) by (rewrite DEFCHUNK_eq; lia).
  destruct (session_follows _ _ _ _ buffered_transport_sound ms W DEFCHUNK rs0 acc fuel Hc eq_refl rs0_idle Hf Hfs)
    as (ws & Hws & Hcut).
  exists ws. split; [exact Hws|]. intros Ha Hfl.
  destruct (bt_new str) as [Hi Hb].
  change MFa.DEFCHUNK with DEFCHUNK. rewrite <- (sess_plan_is_msgs_plan ms W DEFCHUNK Hc).
  apply (Hcut (bufr_new str) a t n0 Hi).
  - rewrite Hb. exact Hfl.
  - rewrite <- (session_size ms W DEFCHUNK ws Hc Hws). exact Ha.
Qed.

(* the handshake phase on the raw transport *)
Lemma hs_phase str (b : bytes) t : IO.flat str = (b, t) ->
  let '(d1, e1, s1) := MFa.run_items stream tr_read MFa.hs_plan str [] in
  MFa.plan_outcome MFa.hs_plan (lenN b) t 0 = (N.of_nat (length d1), e1) /\
  (e1 = None -> IO.flat s1 = (skipn (N.to_nat 3073) b, t) /\ 3073 <= lenN b /\ N.of_nat (length d1) = 3) /\
  (forall e, e1 = Some e -> N.of_nat (length d1) < 3).
Proof.
  intros Hfl.
  pose proof (PFa.run_items_sound _ _ _ _ transport_sound MFa.hs_plan str [] I) as R. rewrite Hfl in R.
  pose proof (PFa.items_flat_outcome MFa.hs_plan b t [] 0) as O.
  pose proof (items_flat_rest MFa.hs_plan b t []) as Rest.
  destruct (PFa.items_flat MFa.hs_plan (b, t) []) as [[d1 e1] f1].
  destruct R as (s1 & -> & _ & Hf1). destruct O as (O & _ & On).
  cbn [length] in O. rewrite N.add_0_l, N.sub_0_r in O. split; [exact O|]. split.
  - intros ->. destruct (On eq_refl) as (Ht & Hs & Hl). rewrite (Hf1 eq_refl), (Rest eq_refl).
    change (PFa.plan_size MFa.hs_plan) with 3073 in *. split; [reflexivity|]. split; [exact Hs|].
    pose proof (PFa.plan_outcome_all MFa.hs_plan (lenN b) t 0 Hs) as All. rewrite O in All.
    injection All as All. exact All.
  - intros e ->.
    destruct (N.le_gt_cases 3073 (lenN b)) as [Hle|Hgt].
    + rewrite (PFa.plan_outcome_all MFa.hs_plan (lenN b) t 0 Hle) in O. discriminate.
    + assert (Hs : exists pre it post, MFa.hs_plan = pre ++ it :: post /\ (length pre < 3)%nat /\
                  PFa.plan_size pre <= lenN b /\ lenN b < PFa.plan_size pre + PFa.item_size it).
      { destruct (N.ltb_spec (lenN b) 1); [exists [], [MFa.CN 1], [[MFa.CN 1536]; [MFa.CN 1536]]; cbn; repeat split; lia|].
        destruct (N.ltb_spec (lenN b) 1537); [exists [[MFa.CN 1]], [MFa.CN 1536], [[MFa.CN 1536]]; cbn; repeat split; lia|].
        exists [[MFa.CN 1]; [MFa.CN 1536]], [MFa.CN 1536], []. cbn. repeat split; lia. }
      destruct Hs as (pre & it & post & E & Hp & H1 & H2).
      destruct (PFa.plan_outcome_spec pre it post _ t 0 H1 H2) as (e' & Hpo & _).
      rewrite <- E, O in Hpo. injection Hpo as Hn _. lia.
Qed.

(* with the handshake: hsb are the 3073 bytes c0 c1 c2 (any content) *)
Theorem io_session_spec (hs : bool) ms fuel str (hsb : bytes) k t :
  Forall wf_msg ms -> (length ms < fuel)%nat ->
  Forall (fun m => (length (m_payload m) + length ms < fuel)%nat) ms ->
  lenN hsb = (if hs then 3073 else 0) ->
  exists ws, write_all DEFCHUNK ms = map Ok ws /\
    (k <= lenN (hsb ++ concat ws) -> IO.flat str = (firstn (N.to_nat k) (hsb ++ concat ws), t) ->
     exists n e,
       MFa.plan_outcome (PFa.rtmp_plan hs (map rmsg_of ms)) k t 0 = (n, Some e) /\
       io_session hs fuel str =
         (N.min n (if hs then 3 else 0), firstn (N.to_nat (n - (if hs then 3 else 0))) ms, io_code e)).
Proof.
  intros W Hf Hfs Hh.
  destruct hs.
  - destruct (io_read_all_spec ms fuel str 0 t [] 3 W Hf Hfs) as (ws & Hws & _).
    exists ws. split; [exact Hws|]. intros Hk Hfl. unfold io_session, PFa.rtmp_plan.
    pose proof (hs_phase str _ t Hfl) as HP.
    destruct (MFa.run_items stream tr_read MFa.hs_plan str []) as [[d1 e1] s1].
    destruct HP as (O & Hnone & Hsome).
    rewrite PFa.plan_outcome_app.
    assert (Hlen : lenN (firstn (N.to_nat k) (hsb ++ concat ws)) = k).
    { rewrite lenN_length, firstn_length. rewrite lenN_length in Hk. lia. }
    rewrite Hlen in O, Hnone. rewrite O.
    destruct e1 as [e|].
    + exists (N.of_nat (length d1)), e. split; [reflexivity|].
      pose proof (Hsome e eq_refl) as Hlt.
      rewrite N.min_l by lia. replace (N.of_nat (length d1) - 3) with 0 by lia. reflexivity.
    + destruct (Hnone eq_refl) as (Hf1 & Hk3 & Hd1).
      assert (Hrest : skipn (N.to_nat 3073) (firstn (N.to_nat k) (hsb ++ concat ws)) = firstn (N.to_nat (k - 3073)) (concat ws)).
      { rewrite skipn_firstn_comm. replace (N.to_nat k - N.to_nat 3073)%nat with (N.to_nat (k - 3073)) by lia.
        f_equal. replace (N.to_nat 3073) with (length hsb) by (rewrite lenN_length in Hh; lia). apply skipn_app_exact. }
      rewrite Hrest in Hf1.
      destruct (io_read_all_spec ms fuel s1 (k - 3073) t [] 3 W Hf Hfs) as (ws' & Hws' & Hcut).
      assert (ws' = ws) as ->.
      { rewrite Hws in Hws'. clear -Hws'. revert ws' Hws'. induction ws as [|x ws IH]; intros [|y ws'] H; try discriminate; [reflexivity|].
        injection H as -> H. f_equal. now apply IH. }
      destruct Hcut as (n & e & Hpo & Hra); [rewrite lenN_app, Hh in Hk; lia|exact Hf1|].
      change (PFa.plan_size MFa.hs_plan) with 3073. rewrite Hd1.
      exists (3 + n), e. split; [exact Hpo|].
      unfold io_read_all. cbn [rev app] in Hra. rewrite Hra.
      rewrite N.min_r by lia. replace (3 + n - 3) with n by lia. reflexivity.
  - destruct (io_read_all_spec ms fuel str k t [] 0 W Hf Hfs) as (ws & Hws & Hcut).
    exists ws. split; [exact Hws|]. intros Hk Hfl.
    assert (hsb = []) as -> by (apply lenN_zero; exact Hh). cbn [app] in *.
    destruct (Hcut Hk Hfl) as (n & e & Hpo & Hra).
    exists n, e. unfold PFa.rtmp_plan. cbn [app]. rewrite N.add_0_l in Hpo. split; [exact Hpo|].
    unfold io_session, io_read_all. cbn [rev app] in Hra. rewrite Hra. cbn [length].
    rewrite N.min_r by lia. rewrite N.sub_0_r. reflexivity.
Qed.
