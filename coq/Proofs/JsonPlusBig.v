(* C17 proofs, part 8: very large documents.  The model's cheap observation for a run-length
   encoded document (length and byte sum of the undecorated text, computed from the description)
   is the summary of what the reader model outputs on the expanded document, for every
   segmentation -- by theorem c17_strip. *)
From Verif Require Import Lib.Base Lib.Sx Gen.Gen_json Model.JsonPlus.
From Verif Require Import Proofs.JsonPlusIndex Proofs.JsonPlusSplit Proofs.JsonPlusScan Proofs.JsonPlusStrip.
Open Scope N_scope.

Definition summary (b : bytes) : N * N := (lenN b, sumN b).

Lemma sumN_app a b : sumN (a ++ b) = sumN a + sumN b.
Proof. induction a as [|c a IH]; cbn [app sumN]; [lia|]. rewrite IH. lia. Qed.

Lemma rep_len p n : lenN (rep p n) = lenN p * N.of_nat n.
Proof. induction n as [|k IH]; cbn [rep]; [cbn; lia|]. rewrite lenN_app, IH. lia. Qed.
Lemma rep_sum p n : sumN (rep p n) = sumN p * N.of_nat n.
Proof. induction n as [|k IH]; cbn [rep]; [cbn; lia|]. rewrite sumN_app, IH. lia. Qed.

Lemma expand_len r : lenN (expand r) = rle_len r.
Proof.
  unfold expand. induction r as [|[p c] r IH]; cbn [map concat rle_len fold_right fst snd]; [reflexivity|].
  rewrite lenN_app, rep_len, N2Nat.id. unfold rle_len in IH. rewrite IH. reflexivity.
Qed.
Lemma expand_sum r : sumN (expand r) = rle_sum r.
Proof.
  unfold expand. induction r as [|[p c] r IH]; cbn [map concat rle_sum fold_right fst snd]; [reflexivity|].
  rewrite sumN_app, rep_sum, N2Nat.id. unfold rle_sum in IH. rewrite IH. reflexivity.
Qed.

(* a property of every pattern that is closed under concatenation holds of the expansion *)
Lemma expand_closed (f : bytes -> bool) :
  f [] = true -> (forall a b, f a = true -> f b = true -> f (a ++ b) = true) ->
  forall r, rle_all f r = true -> f (expand r) = true.
Proof.
  intros H0 Happ. unfold expand, rle_all. induction r as [|[p c] r IH]; intros H; [exact H0|].
  cbn [forallb fst] in H. apply andb_true_iff in H as [Hp Hr]. cbn [map concat fst snd].
  apply Happ; [|now apply IH]. induction (N.to_nat c) as [|k IHk]; cbn [rep]; [exact H0|now apply Happ].
Qed.

Lemma forallb_closed (g : N -> bool) a b : forallb g a = true -> forallb g b = true -> forallb g (a ++ b) = true.
Proof. intros. rewrite forallb_app. now rewrite H, H0. Qed.

(* a well-formed string body ends outside an escape, so such bodies concatenate *)
Lemma body_ok_app : forall a b, body_ok a = true -> body_ok b = true -> body_ok (a ++ b) = true.
Proof.
  intros a. induction a as [| |x t IH|c t Hc IH] using index_esc_ind; intros b Ha Hb.
  - exact Hb.
  - discriminate.
  - cbn [app body_ok] in *. now apply IH.
  - cbn [app body_ok] in *. destruct (c =? backslash) eqn:E; [apply N.eqb_eq in E; congruence|].
    apply andb_true_iff in Ha as [A B]. rewrite A. cbn. now apply IH.
Qed.

Lemma no_star_block_ok b : forallb (fun c => negb (c =? star)) b = true -> block_ok b = true.
Proof.
  intros H. unfold block_ok.
  rewrite (index_skip_run [star; slash] star b [star; slash] eq_refl).
  - cbn. apply N.eqb_eq. lia.
  - intros Hin. rewrite forallb_forall in H. specialize (H _ Hin). rewrite N.eqb_refl in H. discriminate.
Qed.

Lemma big_item_sound b : big_item_ok b = true -> item_ok (expand_item b) = true.
Proof.
  destruct b as [r|r|r|r]; cbn [big_item_ok expand_item item_ok]; intros H.
  - unfold run_ok in *. apply (expand_closed _ eq_refl (forallb_closed _) r H).
  - apply (expand_closed body_ok eq_refl body_ok_app r H).
  - unfold line_ok in *. apply (expand_closed _ eq_refl (forallb_closed _) r H).
  - apply no_star_block_ok. apply (expand_closed _ eq_refl (forallb_closed _) r H).
Qed.

Lemma big_doc_sound d : big_ok d = true -> doc_ok (map expand_item d) None = true.
Proof.
  unfold big_ok, doc_ok. rewrite andb_true_r. induction d as [|b d IH]; intros H; [reflexivity|].
  cbn [forallb map] in *. apply andb_true_iff in H as [A B]. now rewrite (big_item_sound b A), (IH B).
Qed.

Lemma summary_plain_parts d :
  lenN (render_plain (map expand_item d)) = fst (big_plain d) /\
  sumN (render_plain (map expand_item d)) = snd (big_plain d).
Proof.
  unfold render_plain. induction d as [|b d IH]; [split; reflexivity|].
  destruct IH as [Hl Hs]. cbn [map concat]. rewrite lenN_app, sumN_app, Hl, Hs.
  change (big_plain (b :: d)) with
    (match b with
     | BRun r => (rle_len r + fst (big_plain d), rle_sum r + snd (big_plain d))
     | BStr r => (rle_len r + 2 + fst (big_plain d), rle_sum r + 2 * quote + snd (big_plain d))
     | _ => big_plain d
     end).
  destruct b as [r|r|r|r]; cbn [expand_item plain_item fst snd].
  - now rewrite expand_len, expand_sum.
  - change (quote :: expand r ++ [quote]) with ([quote] ++ expand r ++ [quote]).
    rewrite !lenN_app, !sumN_app, expand_len, expand_sum. unfold quote. cbn [sumN]. change (lenN [34]) with 1.
    split; lia.
  - change (lenN []) with 0. cbn [sumN]. split; lia.
  - change (lenN []) with 0. cbn [sumN]. split; lia.
Qed.

Lemma summary_plain d : summary (render_plain (map expand_item d)) = big_plain d.
Proof.
  unfold summary. destruct (summary_plain_parts d) as [A B]. rewrite A, B. now destruct (big_plain d).
Qed.

(* [core] the cheap observation is what the reader model outputs: for every segmentation of the
   expanded decorated document the output has the length and byte sum the model reports, and
   the stream ends with EOF *)
Lemma big_obs_sound d segs dt :
  big_ok d = true -> runs_ok segs -> concat segs = render_dec (map expand_item d) None ->
  lenN (concat segs) < tok_limit ->
  summary (fst (reader_dt segs 0 dt)) = big_plain d /\ snd (reader_dt segs 0 dt) = Ok tt.
Proof.
  intros Hb Hr Hc Hl. rewrite (reader_doc segs dt _ None Hr Hc (big_doc_sound d Hb) Hl). cbn [fst snd].
  split; [apply summary_plain|reflexivity].
Qed.
