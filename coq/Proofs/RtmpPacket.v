(* Proofs about the packet codecs of Model/RtmpPacket.v (C03): exact size, round trip, totality.
   The AMF0 facts come from Proofs/Amf0.v (C05). *)
From Verif Require Import Lib.Base Lib.Sx Model.Amf0 Proofs.Amf0 Model.RtmpPacket.
Open Scope N_scope.

(* ------------------------------------------------------------------ small facts *)
Lemma bytes_eqb_refl a : bytes_eqb a a = true.
Proof. induction a as [|x a IH]; cbn; [reflexivity|]. rewrite N.eqb_refl. exact IH. Qed.

Lemma bytes_eqb_eq a : forall b, bytes_eqb a b = true <-> a = b.
Proof.
  induction a as [|x a IH]; intros [|y b]; cbn; split; intros H; try reflexivity; try discriminate.
  - apply andb_true_iff in H. destruct H as [H1 H2]. apply N.eqb_eq in H1. apply IH in H2. congruence.
  - inversion H; subst. rewrite N.eqb_refl. apply bytes_eqb_refl.
Qed.

Lemma bytes_eqb_neq a b : bytes_eqb a b = false <-> a <> b.
Proof.
  split; intros H.
  - intros E. apply bytes_eqb_eq in E. congruence.
  - destruct (bytes_eqb a b) eqn:E; [|reflexivity]. apply bytes_eqb_eq in E. contradiction.
Qed.

Lemma enc_cons v : exists m r, enc v = m :: r.
Proof. destruct v; cbn [enc]; eauto. Qed.

Lemma is_nil_enc_app v r : is_nil (enc v ++ r) = false.
Proof. destruct (enc_cons v) as (m & r' & ->). reflexivity. Qed.

Lemma is_nil_true {A} (l : list A) : is_nil l = true -> l = [].
Proof. destruct l; [reflexivity|discriminate]. Qed.

Lemma step_ok {A} (a : A) c : step (Ok a) c = Ok a.
Proof. reflexivity. Qed.

Lemma step_not_panic {A} (r : res A) c s : (forall s', r <> Panic s') -> step r c <> Panic s.
Proof. intros H. destruct r; cbn; try discriminate. exfalso. exact (H _ eq_refl). Qed.

Lemma drop_app (a r : bytes) n site : n = lenN a -> drop n (a ++ r) site = Ok r.
Proof. intros ->. unfold drop. rewrite (takeN_app a r (lenN a) eq_refl). reflexivity. Qed.

Lemma drop_split n p site : (exists w rest, p = w ++ rest /\ lenN w = n) ->
  exists w rest, p = w ++ rest /\ lenN w = n /\ drop n p site = Ok rest.
Proof.
  intros (w & rest & -> & Hl). exists w, rest. repeat split; [exact Hl|].
  apply drop_app. symmetry. exact Hl.
Qed.

Lemma size_str_pos s : size (AStr s) = 3 + lenN s.
Proof. cbn [size]. unfold utf8_size. lia. Qed.

Lemma lenN_be2 n : lenN (be2 n) = 2.
Proof. reflexivity. Qed.
Lemma lenN_be4 n : lenN (be4 n) = 4.
Proof. reflexivity. Qed.

(* ------------------------------------------------------------------ the generated Size() bodies *)
Lemma Z_of_N_eqb et c : (0 <= c)%Z -> (Z.of_N et =? c)%Z = (et =? Z.to_N c).
Proof.
  intros Hc. destruct (Z.eqb_spec (Z.of_N et) c), (N.eqb_spec et (Z.to_N c)); try reflexivity; exfalso; lia.
Qed.

(* UserControl.Size(): 2 bytes event type + 1 (FMS event 0x1a) or 4, + 4 for SetBufferLength *)
Lemma uc_size_spec et :
  uc_size et = 2 + (if et =? etFmsEvent0 then 1 else 4) + (if et =? etSetBufferLength then 4 else 0).
Proof.
  unfold uc_size, Gen_rtmp.rtmp_UserControl_Size, etFmsEvent0, etSetBufferLength.
  rewrite !Z_of_N_eqb by (vm_compute; discriminate).
  destruct (et =? Z.to_N Gen_rtmp.rtmp_EventTypeFmsEvent0);
    destruct (et =? Z.to_N Gen_rtmp.rtmp_EventTypeSetBufferLength); reflexivity.
Qed.

(* ------------------------------------------------------------------ c03_size *)
Lemma lenN_enc_opt o : lenN (enc_opt o) = size_opt o.
Proof. destruct o; cbn [enc_opt size_opt]; [apply amf0_size_enc|reflexivity]. Qed.
Lemma lenN_enc_oprops o : lenN (enc_oprops o) = size_oprops o.
Proof. destruct o; cbn [enc_oprops size_oprops]; [apply amf0_size_enc|reflexivity]. Qed.
Lemma lenN_enc_hdr n t : lenN (enc_hdr n t) = hsize n.
Proof. unfold enc_hdr, hsize. rewrite lenN_app, !amf0_size_enc. reflexivity. Qed.
Lemma lenN_enc_variant n t o : lenN (enc_variant n t o) = vsize n o.
Proof. unfold enc_variant, vsize. rewrite lenN_app, lenN_enc_hdr, lenN_enc_opt. reflexivity. Qed.

(* every packet, all field values: MarshalBinary yields exactly Size() bytes *)
Theorem marshal_size p : lenN (marshal p) = psize p.
Proof.
  destruct p; cbn [marshal psize];
    rewrite ?lenN_app, ?lenN_enc_variant, ?lenN_enc_hdr, ?lenN_enc_opt, ?lenN_enc_oprops, ?amf0_size_enc;
    try reflexivity; try lia.
  - (* user control *)
    rewrite uc_size_spec. destruct (et =? etFmsEvent0), (et =? etSetBufferLength); reflexivity.
Qed.

(* ------------------------------------------------------------------ round trip: headers *)
Lemma um_hdr_enc name tid rest :
  wf_strb name = true -> tid < 18446744073709551616 ->
  um_hdr (enc_hdr name tid ++ rest) = Ok (name, tid, rest).
Proof.
  intros Hn Ht. unfold um_hdr, enc_hdr. rewrite <- !app_assoc.
  rewrite um_string_enc by exact Hn. rewrite step_ok. cbn [bind].
  rewrite drop_app by (symmetry; apply amf0_size_enc). cbn [bind].
  rewrite um_number_enc by exact Ht. rewrite step_ok. cbn [bind].
  rewrite drop_app by (symmetry; apply amf0_size_enc). cbn [bind].
  reflexivity.
Qed.

Lemma decode_enc v rest : wf_amf v -> decode (enc v ++ rest) = Ok (v, size v).
Proof.
  intros Hv. unfold decode, dec_fuel. apply amf0_dec_enc; [exact Hv|].
  rewrite app_length. lia.
Qed.

Lemma um_object_enc_fuel ps rest : wf_propsb ps = true ->
  um_object (dec_fuel (enc (AObj ps) ++ rest)) (enc (AObj ps) ++ rest) = Ok (AObj ps, size (AObj ps)).
Proof.
  intros Hp. apply um_object_enc.
  - unfold wf_amf. rewrite wf_obj. exact Hp.
  - unfold dec_fuel. rewrite app_length. lia.
Qed.

Lemma um_variant_some name tid v rest :
  wf_strb name = true -> tid < 18446744073709551616 -> wf_amf v ->
  um_variant (enc_variant name tid (Some v) ++ rest) = Ok (name, tid, Some v).
Proof.
  intros Hn Ht Hv. unfold um_variant, enc_variant. cbn [enc_opt]. rewrite <- !app_assoc.
  rewrite um_hdr_enc by assumption. cbn [bind].
  rewrite is_nil_enc_app. rewrite decode_enc by exact Hv. rewrite step_ok. cbn [bind].
  rewrite drop_app by (symmetry; apply amf0_size_enc). cbn [bind]. reflexivity.
Qed.

Lemma um_variant_none name tid :
  wf_strb name = true -> tid < 18446744073709551616 ->
  um_variant (enc_variant name tid None) = Ok (name, tid, None).
Proof.
  intros Hn Ht. unfold um_variant, enc_variant. cbn [enc_opt].
  rewrite um_hdr_enc by assumption. cbn [bind]. reflexivity.
Qed.

Lemma after_variant_some name tid v rest :
  wf_strb name = true -> tid < 18446744073709551616 -> wf_amf v ->
  after_variant (enc_variant name tid (Some v) ++ rest) = Ok (name, tid, Some v, rest).
Proof.
  intros Hn Ht Hv. unfold after_variant. rewrite um_variant_some by assumption. cbn [bind].
  rewrite drop_app by (symmetry; apply lenN_enc_variant). reflexivity.
Qed.

Lemma after_variant_none name tid :
  wf_strb name = true -> tid < 18446744073709551616 ->
  after_variant (enc_variant name tid None) = Ok (name, tid, None, []).
Proof.
  intros Hn Ht. unfold after_variant. rewrite um_variant_none by assumption. cbn [bind].
  rewrite <- (app_nil_r (enc_variant name tid None)) at 1.
  rewrite drop_app by (symmetry; apply lenN_enc_variant). reflexivity.
Qed.

Lemma um_objcall_enc name tid o a :
  wf_strb name = true -> tid < 18446744073709551616 -> wf_propsb o = true -> wf_oprops a = true ->
  um_objcall (enc_hdr name tid ++ enc (AObj o) ++ enc_oprops a) = Ok (name, tid, o, a).
Proof.
  intros Hn Ht Ho Ha. unfold um_objcall. rewrite um_hdr_enc by assumption. cbn [bind].
  rewrite um_object_enc_fuel by exact Ho. rewrite step_ok. cbn [bind].
  rewrite drop_app by (symmetry; apply amf0_size_enc). cbn [bind].
  destruct a as [ps|]; cbn [enc_oprops].
  - rewrite <- (app_nil_r (enc (AObj ps))). rewrite is_nil_enc_app.
    cbn [wf_oprops] in Ha. rewrite um_object_enc_fuel by exact Ha. rewrite step_ok. cbn [bind].
    reflexivity.
  - reflexivity.
Qed.

(* ------------------------------------------------------------------ c03_roundtrip *)
Lemma N_ltb_lt a b : (a <? b) = true -> a < b.
Proof. apply N.ltb_lt. Qed.

Ltac split_wf H :=
  repeat match type of H with
         | (_ && _) = true => let H1 := fresh "W" in let H2 := fresh "W" in
                               apply andb_true_iff in H; destruct H as [H1 H2]; try split_wf H1; try split_wf H2
         end.

Lemma wf_opt_some v : wf_opt (Some v) = true -> wf_amf v.
Proof. intros H. exact H. Qed.

Lemma ube4_of_be4 n : n < 4294967296 ->
  ube4 ((n / 16777216) mod 256) ((n / 65536) mod 256) ((n / 256) mod 256) (n mod 256) = n.
Proof. exact (ube4_be4 n). Qed.

Lemma wf_str_of_eq n c : bytes_eqb n c = true -> wf_strb c = true -> wf_strb n = true.
Proof. intros E. apply bytes_eqb_eq in E. subst. auto. Qed.

Theorem unmarshal_marshal p : wf_pkt p = true -> unmarshal (receiver_for p) (marshal p) = Ok p.
Proof.
  destruct p; cbn [wf_pkt]; intros H; rewrite ?andb_true_iff in H; cbn [receiver_for marshal].
  - (* connect *)
    destruct H as [[[Hn Ht] Ho] Ha].
    apply bytes_eqb_eq in Hn. apply N.eqb_eq in Ht. subst name tid.
    unfold new_connect. cbn [unmarshal].
    rewrite um_objcall_enc; [|reflexivity|reflexivity|exact Ho|exact Ha]. cbn [bind].
    rewrite bytes_eqb_refl. cbn [negb]. change (f_eq f_one f_one) with true. cbn [negb].
    destruct args; reflexivity.
  - (* connect response *)
    destruct H as [[[Hn Ht] Ho] Ha].
    apply bytes_eqb_eq in Hn. subst name. apply N.ltb_lt in Ht.
    unfold new_connect_res. cbn [unmarshal].
    rewrite um_objcall_enc; [|reflexivity|exact Ht|exact Ho|exact Ha]. cbn [bind].
    rewrite bytes_eqb_refl. cbn [negb]. destruct args; reflexivity.
  - (* call *)
    destruct H as [[[[Hn Ht] Ho] Ha] Hs].
    apply N.ltb_lt in Ht. unfold new_call. cbn [unmarshal].
    destruct obj as [o|].
    + destruct args as [a|]; cbn [enc_opt].
      * rewrite after_variant_some; [|exact Hn|exact Ht|exact Ho]. cbn [bind].
        rewrite <- (app_nil_r (enc a)). rewrite is_nil_enc_app.
        rewrite decode_enc by exact Ha. rewrite step_ok. reflexivity.
      * rewrite after_variant_some; [|exact Hn|exact Ht|exact Ho]. reflexivity.
    + destruct args as [a|]; [discriminate|]. cbn [enc_opt]. rewrite app_nil_r.
      rewrite after_variant_none; [|exact Hn|exact Ht]. reflexivity.
  - (* createStream *)
    destruct H as [[Hn Ht] Ho].
    apply N.ltb_lt in Ht. unfold new_create_stream. cbn [unmarshal]. destruct obj as [o|].
    + rewrite <- (app_nil_r (enc_variant name tid (Some o))).
      rewrite um_variant_some; [|exact Hn|exact Ht|exact Ho]. reflexivity.
    + rewrite um_variant_none; [|exact Hn|exact Ht]. reflexivity.
  - (* createStream response *)
    destruct H as [[[[Hn Ht] Ho] Hs] Hsid].
    apply N.ltb_lt in Ht. apply N.ltb_lt in Hsid. destruct obj as [o|]; [|discriminate].
    unfold new_create_stream_res. cbn [unmarshal].
    rewrite after_variant_some; [|exact Hn|exact Ht|exact Ho]. cbn [bind].
    rewrite <- (app_nil_r (enc (ANum sid))). rewrite um_number_enc by exact Hsid. reflexivity.
  - (* publish *)
    destruct H as [[[[[Hn Ht] Ho] Hs] Hsn] Hst].
    apply N.ltb_lt in Ht. destruct obj as [o|]; [|discriminate].
    unfold new_publish. cbn [unmarshal].
    rewrite after_variant_some; [|exact Hn|exact Ht|exact Ho]. cbn [bind].
    rewrite um_string_enc by exact Hsn. rewrite step_ok. cbn [bind].
    rewrite drop_app by (symmetry; apply amf0_size_enc). cbn [bind].
    rewrite <- (app_nil_r (enc (AStr stype))). rewrite um_string_enc by exact Hst. reflexivity.
  - (* play *)
    destruct H as [[[[Hn Ht] Ho] Hs] Hsn].
    apply N.ltb_lt in Ht. destruct obj as [o|]; [|discriminate].
    unfold new_play. cbn [unmarshal].
    rewrite after_variant_some; [|exact Hn|exact Ht|exact Ho]. cbn [bind].
    rewrite <- (app_nil_r (enc (AStr sname))). rewrite um_string_enc by exact Hsn. rewrite step_ok. cbn [bind].
    rewrite drop_app by (symmetry; apply amf0_size_enc).
    reflexivity.
  - (* set chunk size *)
    apply N.ltb_lt in H. unfold new_set_chunk_size. cbn [unmarshal be4 um_control4 bind].
    rewrite ube4_of_be4 by exact H. reflexivity.
  - apply N.ltb_lt in H. unfold new_win_ack. cbn [unmarshal be4 um_control4 bind].
    rewrite ube4_of_be4 by exact H. reflexivity.
  - destruct H as [Hn Hl]. apply N.ltb_lt in Hn. unfold new_set_peer_bw. cbn [unmarshal be4 app].
    rewrite ube4_of_be4 by exact Hn. reflexivity.
  - (* user control *)
    destruct H as [[He Hd] Hx].
    apply N.ltb_lt in He. unfold new_user_control. cbn [unmarshal be2 app].
    assert (Het : ube2 ((et / 256) mod 256) (et mod 256) = et) by (apply ube2_be2; exact He).
    rewrite Het. rewrite uc_size_spec.
    destruct (et =? etFmsEvent0) eqn:E1; destruct (et =? etSetBufferLength) eqn:E2.
    + apply N.eqb_eq in E1. apply N.eqb_eq in E2. rewrite E1 in E2. discriminate.
    + apply N.ltb_lt in Hd. apply N.eqb_eq in Hx. subst x. cbn.
      rewrite N.mod_small by lia. reflexivity.
    + apply N.ltb_lt in Hd. apply N.ltb_lt in Hx. cbn.
      rewrite !ube4_of_be4 by assumption. reflexivity.
    + apply N.ltb_lt in Hd. apply N.eqb_eq in Hx. subst x. cbn.
      rewrite ube4_of_be4 by assumption. reflexivity.
Qed.

(* the decoded packet re-marshals to the same bytes and reports the same size *)
Corollary remarshal p q : wf_pkt p = true -> unmarshal (receiver_for p) (marshal p) = Ok q ->
  marshal q = marshal p /\ psize q = psize p.
Proof. intros Hwf H. rewrite unmarshal_marshal in H by exact Hwf. inversion H. subst. auto. Qed.

(* ------------------------------------------------------------------ totality: no Panic *)
Definition np {A} (r : res A) : Prop := forall s, r <> Panic s.

Lemma np_ok {A} (a : A) : np (Ok a).
Proof. intros s; discriminate. Qed.
Lemma np_err {A} e : np (@Err A e).
Proof. intros s; discriminate. Qed.
Lemma np_step {A} (r : res A) c : np r -> np (step r c).
Proof. intros H s. destruct r; cbn; try discriminate. exfalso. exact (H _ eq_refl). Qed.
Lemma np_bind {A B} (r : res A) (f : A -> res B) :
  np r -> (forall a, r = Ok a -> np (f a)) -> np (bind r f).
Proof. intros Hr Hf s. destruct r; cbn [bind]; [apply Hf; reflexivity|discriminate|]. exfalso. exact (Hr _ eq_refl). Qed.
Lemma step_ok_inv {A} (r : res A) c a : step r c = Ok a -> r = Ok a.
Proof. destruct r; cbn; intros H; try discriminate; exact H. Qed.

Lemma um_string_shape p v n : um_string p = Ok (v, n) -> exists s, v = AStr s.
Proof.
  unfold um_string. destruct p as [|m r]; [discriminate|].
  destruct (negb (m =? mString)); [discriminate|].
  destruct (um_utf8 r) as [[s r']|e|s']; cbn [bind]; try discriminate.
  intros H. inversion H. eauto.
Qed.

Lemma um_number_shape p v n : um_number p = Ok (v, n) -> exists b, v = ANum b.
Proof.
  unfold um_number.
  destruct p as [|m [|a [|b [|c [|d [|e [|f [|g [|h rest]]]]]]]]]; try discriminate.
  destruct (negb (m =? mNumber)); [discriminate|]. intros H. inversion H. eauto.
Qed.

Lemma drop_ok_of_consumed n p site :
  (exists w rest, p = w ++ rest /\ lenN w = n) -> exists rest, drop n p site = Ok rest.
Proof. intros H. destruct (drop_split n p site H) as (w & rest & _ & _ & E). eauto. Qed.

Lemma um_hdr_ok p name tid p2 : um_hdr p = Ok (name, tid, p2) ->
  exists w, p = w ++ p2 /\ lenN w = hsize name.
Proof.
  unfold um_hdr.
  destruct (um_string p) as [[v n]|e|s] eqn:Es; cbn [step bind]; try discriminate.
  destruct (um_string_consumed _ _ _ Es) as (Hn & w & rest & -> & Hl).
  rewrite drop_app by (symmetry; exact Hl). cbn [bind].
  destruct (um_number rest) as [[t n2]|e|s] eqn:En; cbn [step bind]; try discriminate.
  destruct (um_number_consumed _ _ _ En) as (Hn2 & w2 & rest2 & -> & Hl2).
  rewrite drop_app by (symmetry; exact Hl2). cbn [bind].
  intros H. inversion H; subst name tid p2.
  destruct (um_string_shape _ _ _ Es) as (s & ->). destruct (um_number_shape _ _ _ En) as (b & ->).
  exists (w ++ w2). split; [rewrite app_assoc; reflexivity|].
  rewrite lenN_app, Hl, Hl2. subst n n2. reflexivity.
Qed.

Lemma um_hdr_total p : np (um_hdr p).
Proof.
  unfold um_hdr. apply np_bind; [apply np_step; intros s; apply um_string_total|].
  intros [v n] Es. apply step_ok_inv in Es.
  destruct (um_string_consumed _ _ _ Es) as (Hn & w & rest & -> & Hl).
  rewrite drop_app by (symmetry; exact Hl). cbn [bind].
  apply np_bind; [apply np_step; intros s; apply um_number_total|].
  intros [t n2] En. apply step_ok_inv in En.
  destruct (um_number_consumed _ _ _ En) as (Hn2 & w2 & rest2 & -> & Hl2).
  rewrite drop_app by (symmetry; exact Hl2). cbn [bind]. apply np_ok.
Qed.

Lemma decode_total p : np (decode p).
Proof. intros s. apply amf0_dec_total'. Qed.

Lemma um_variant_ok data name tid o : um_variant data = Ok (name, tid, o) ->
  exists w rest, data = w ++ rest /\ lenN w = vsize name o.
Proof.
  unfold um_variant.
  destruct (um_hdr data) as [[[nm t] p2]|e|s] eqn:Eh; cbn [bind]; try discriminate.
  destruct (um_hdr_ok _ _ _ _ Eh) as (w & -> & Hl).
  destruct (is_nil p2) eqn:En.
  - intros H. inversion H; subst. exists w, p2. split; [reflexivity|].
    unfold vsize. cbn [size_opt]. lia.
  - destruct (decode p2) as [[ov n]|e|s] eqn:Ed; cbn [step bind]; try discriminate.
    destruct (amf0_dec_consumed _ _ _ _ Ed) as (Hn & w2 & rest2 & -> & Hl2).
    rewrite drop_app by (symmetry; exact Hl2). cbn [bind].
    intros H. inversion H; subst. exists (w ++ w2), rest2. split; [rewrite app_assoc; reflexivity|].
    unfold vsize. cbn [size_opt]. rewrite lenN_app, Hl, Hl2. reflexivity.
Qed.

Lemma um_variant_total data : np (um_variant data).
Proof.
  unfold um_variant. apply np_bind; [apply um_hdr_total|].
  intros [[nm t] p2] Eh. destruct (is_nil p2); [apply np_ok|].
  apply np_bind; [apply np_step, decode_total|].
  intros [ov n] Ed. apply step_ok_inv in Ed.
  destruct (amf0_dec_consumed _ _ _ _ Ed) as (Hn & w2 & rest2 & -> & Hl2).
  rewrite drop_app by (symmetry; exact Hl2). cbn [bind]. apply np_ok.
Qed.

(* the callers' p[v.variantCallPacket.Size():] is always in range (after 9789218) *)
Lemma after_variant_total data : np (after_variant data).
Proof.
  unfold after_variant. apply np_bind; [apply um_variant_total|].
  intros [[nm t] o] Ev. destruct (um_variant_ok _ _ _ _ Ev) as (w & rest & -> & Hl).
  rewrite drop_app by (symmetry; exact Hl). cbn [bind]. apply np_ok.
Qed.

Lemma um_objcall_total data : np (um_objcall data).
Proof.
  unfold um_objcall. apply np_bind; [apply um_hdr_total|].
  intros [[nm t] p2] Eh.
  apply np_bind; [apply np_step; intros s; apply um_object_total|].
  intros [o n] Eo. apply step_ok_inv in Eo.
  destruct (um_object_consumed _ _ _ _ Eo) as (Hn & w & rest & -> & Hl).
  rewrite drop_app by (symmetry; exact Hl). cbn [bind].
  destruct (is_nil rest); [apply np_ok|].
  apply np_bind; [apply np_step; intros s; apply um_object_total|].
  intros [a n2] _. apply np_ok.
Qed.

Lemma lenN_ge1 (b : bytes) : 1 <= lenN b -> exists c r, b = c :: r.
Proof. destruct b; [cbn; lia|eauto]. Qed.
Lemma lenN_ge4 (b : bytes) : 4 <= lenN b -> exists c d e f r, b = c :: d :: e :: f :: r.
Proof.
  rewrite lenN_length. destruct b as [|c [|d [|e [|f r]]]]; cbn [length]; try lia. eauto 6.
Qed.
Lemma lenN_ge8 (b : bytes) : 8 <= lenN b ->
  exists c d e f c' d' e' f' r, b = c :: d :: e :: f :: c' :: d' :: e' :: f' :: r.
Proof.
  rewrite lenN_length.
  destruct b as [|c [|d [|e [|f [|c' [|d' [|e' [|f' r]]]]]]]]; cbn [length]; try lia. eauto 10.
Qed.

Lemma um_user_control_total data : np (unmarshal (PUserControl 0 0 0) data).
Proof.
  cbn [unmarshal]. destruct data as [|a [|b body]]; try apply np_err.
  destruct (is_nil body) eqn:Eb; [apply np_err|].
  destruct (lenN (a :: b :: body) <? uc_size (ube2 a b)) eqn:El; [apply np_err|].
  apply N.ltb_ge in El. rewrite !lenN_cons in El. rewrite uc_size_spec in El.
  destruct (ube2 a b =? etFmsEvent0) eqn:E1.
  - destruct body as [|c r]; [discriminate|]. cbn [bind].
    destruct (ube2 a b =? etSetBufferLength) eqn:E2; cbn [bind]; [|apply np_ok].
    apply N.eqb_eq in E1. apply N.eqb_eq in E2. rewrite E1 in E2. discriminate.
  - destruct (ube2 a b =? etSetBufferLength) eqn:E2.
    + destruct (lenN_ge8 body) as (c1 & d1 & e1 & f1 & c2 & d2 & e2 & f2 & r' & E); [lia|].
      rewrite E. cbn [bind]. apply np_ok.
    + destruct (lenN_ge4 body) as (c1 & d1 & e1 & f1 & r' & E); [lia|].
      rewrite E. cbn [bind]. apply np_ok.
Qed.

(* every packet unmarshaler, any receiver, any input: never a Panic *)
Theorem unmarshal_total r data : np (unmarshal r data).
Proof.
  destruct r; cbn [unmarshal].
  - apply np_bind; [apply um_objcall_total|]. intros [[[nm t] o] a] _.
    destruct (negb (bytes_eqb nm cConnect)); [apply np_err|].
    destruct (negb (f_eq t f_one)); [apply np_err|apply np_ok].
  - apply np_bind; [apply um_objcall_total|]. intros [[[nm t] o] a] _.
    destruct (negb (bytes_eqb nm cResult)); [apply np_err|apply np_ok].
  - apply np_bind; [apply after_variant_total|]. intros [[[nm t] o] p] _.
    destruct (is_nil p); [apply np_ok|].
    apply np_bind; [apply np_step, decode_total|]. intros [a n] _. apply np_ok.
  - apply np_bind; [apply um_variant_total|]. intros [[nm t] o] _. apply np_ok.
  - apply np_bind; [apply after_variant_total|]. intros [[[nm t] o] p] _.
    apply np_bind; [apply np_step; intros s; apply um_number_total|]. intros [sv n] _. apply np_ok.
  - apply np_bind; [apply after_variant_total|]. intros [[[nm t] o] p] _.
    apply np_bind; [apply np_step; intros s; apply um_string_total|].
    intros [sn n] Es. apply step_ok_inv in Es.
    destruct (um_string_consumed _ _ _ Es) as (Hn & w & rest & -> & Hl).
    rewrite drop_app by (symmetry; exact Hl). cbn [bind].
    apply np_bind; [apply np_step; intros s; apply um_string_total|]. intros [st n2] _. apply np_ok.
  - apply np_bind; [apply after_variant_total|]. intros [[[nm t] o] p] _.
    apply np_bind; [apply np_step; intros s; apply um_string_total|].
    intros [sn n] Es. apply step_ok_inv in Es.
    destruct (um_string_consumed _ _ _ Es) as (Hn & w & rest & -> & Hl).
    rewrite drop_app by (symmetry; exact Hl). cbn [bind]. apply np_ok.
  - unfold um_control4. destruct data as [|a [|b [|c [|d r]]]]; cbn [bind]; try apply np_err; apply np_ok.
  - unfold um_control4. destruct data as [|a [|b [|c [|d r]]]]; cbn [bind]; try apply np_err; apply np_ok.
  - destruct data as [|a [|b [|c [|d [|e r]]]]]; try apply np_err; apply np_ok.
  - exact (um_user_control_total data).
Qed.

Lemma parse_amf_object_total t p : np (fst (parse_amf_object t p)).
Proof.
  unfold parse_amf_object.
  destruct (um_string p) as [[v n]|e|s] eqn:Es; cbn [step fst].
  - destruct (bytes_eqb (amf_str v) cResult || bytes_eqb (amf_str v) cError).
    + destruct (um_string_consumed _ _ _ Es) as (Hn & w & rest & -> & Hl).
      rewrite drop_app by (symmetry; exact Hl).
      destruct (um_number rest) as [[tv n2]|e|s] eqn:En; cbn [step fst].
      * destruct (tx_get t (amf_num tv)); cbn [fst]; [|apply np_err].
        destruct (bytes_eqb b cConnect); cbn [fst]; [apply np_ok|].
        destruct (bytes_eqb b cCreateStream); cbn [fst]; [apply np_ok|apply np_err].
      * apply np_err.
      * exfalso. exact (um_number_total _ _ En).
    + destruct (bytes_eqb (amf_str v) cConnect); [apply np_ok|].
      destruct (bytes_eqb (amf_str v) cCreateStream); [apply np_ok|].
      destruct (bytes_eqb (amf_str v) cPlay); [apply np_ok|].
      destruct (bytes_eqb (amf_str v) cPublish); apply np_ok.
  - apply np_err.
  - exfalso. exact (um_string_total _ _ Es).
Qed.

(* DecodeMessage: any table, any message type, any payload: never a Panic *)
Theorem decode_message_total t mt payload : np (fst (decode_message t mt payload)).
Proof.
  unfold decode_message. destruct payload as [|x tl]; [apply np_err|].
  set (p := if (mt =? mtAMF3Command) || (mt =? mtAMF3Data) then tl else x :: tl).
  destruct (mt =? mtSetChunkSize); [apply unmarshal_total|].
  destruct (mt =? mtWinAck); [apply unmarshal_total|].
  destruct (mt =? mtSetPeerBw); [apply unmarshal_total|].
  destruct (is_amf_type mt).
  - pose proof (parse_amf_object_total t p) as Hp.
    destruct (parse_amf_object t p) as [[r|e|s] t']; cbn [fst] in *;
      [apply unmarshal_total|apply np_err|exact Hp].
  - destruct (mt =? mtUserControl); [apply unmarshal_total|apply np_err].
Qed.

Lemma expect_packet_total want : forall ms t i, np (fst (expect_packet want t ms i)).
Proof.
  induction ms as [|m ms IH]; intros t i; cbn [expect_packet]; [apply np_err|].
  destruct (negb (arrive_ok m)); [apply np_err|].
  pose proof (decode_message_total t (fst m) (snd m)) as Hd.
  destruct (decode_message t (fst m) (snd m)) as [[p|e|s] t']; cbn [fst] in *.
  - destruct (want p); [apply np_ok|apply IH].
  - apply np_err.
  - intros s'. exfalso. exact (Hd s eq_refl).
Qed.

Lemma expect_message_total types : forall ms i, np (expect_message types ms i).
Proof.
  induction ms as [|m ms IH]; intros i; cbn [expect_message]; [apply np_err|].
  destruct (negb (arrive_ok m)); [apply np_err|].
  destruct (is_nil types || existsb (N.eqb (fst m)) types); [apply np_ok|apply IH].
Qed.
