(* Proofs about Model/RtmpPacket.v (C03). *)
From Verif Require Import Lib.Base Lib.Sx Model.Amf0 Model.RtmpPacket.
Open Scope N_scope.

Lemma marshal_set_chunk_size_len n : length (marshal (PSetChunkSize n)) = 4%nat.
Proof. reflexivity. Qed.
