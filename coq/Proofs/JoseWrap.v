(* Proofs about Model/Jose.v: RFC 3394 key wrap / unwrap over an abstract block cipher. *)
From Verif Require Import Lib.Base Lib.Sx Model.Jose Proofs.Jose Proofs.JoseCompact Proofs.JoseCipher.
Open Scope N_scope.

(* ------------------------------------------------------------------ xor, 8-byte halves *)
Lemma lxor_involutive x y : N.lxor (N.lxor x y) y = x.
Proof. rewrite N.lxor_assoc, N.lxor_nilpotent, N.lxor_0_r. reflexivity. Qed.

Lemma xor_bytes_involutive a : forall t, xor_bytes (xor_bytes a t) t = a.
Proof.
  induction a as [|x a IH]; intros [|y t]; cbn [xor_bytes]; auto.
  rewrite lxor_involutive, IH. reflexivity.
Qed.
Lemma xor_bytes_length a : forall t, length (xor_bytes a t) = length a.
Proof. induction a as [|x a IH]; intros [|y t]; cbn [xor_bytes length]; auto. Qed.

Lemma halves_app a r : length a = 8%nat -> first8 (a ++ r) = a /\ rest8 (a ++ r) = r.
Proof.
  intro L. unfold first8, rest8. rewrite firstn_app, skipn_app, L, Nat.sub_diag.
  rewrite firstn_all2 by lia. rewrite skipn_all2 by lia. cbn [firstn skipn app]. rewrite app_nil_r. auto.
Qed.
Lemma halves_join b : first8 b ++ rest8 b = b.
Proof. apply firstn_skipn. Qed.
Lemma first8_length b : length b = 16%nat -> length (first8 b) = 8%nat /\ length (rest8 b) = 8%nat.
Proof. intro L. unfold first8, rest8. rewrite firstn_length, skipn_length, L. auto. Qed.

Definition blk8 (r : list bytes) : Prop := Forall (fun c => length c = 8%nat) r.

(* ------------------------------------------------------------------ chunks8 *)
Lemma chunks8_concat r : blk8 r -> forall fuel, (length r <= fuel)%nat -> chunks8 fuel (concat r) = r.
Proof.
  induction 1 as [|c r Hc _ IH]; intros fuel L.
  - destruct fuel; reflexivity.
  - destruct fuel as [|f]; [cbn in L; lia|]. cbn [concat chunks8].
    destruct c as [|c0 c']; [discriminate|]. cbn [app].
    change (c0 :: c' ++ concat r) with ((c0 :: c') ++ concat r).
    rewrite <- Hc, take_app. rewrite IH by (cbn in L; lia). reflexivity.
Qed.

Lemma chunks8_spec m : forall b fuel, length b = (8 * m)%nat -> (m <= fuel)%nat ->
  concat (chunks8 fuel b) = b /\ blk8 (chunks8 fuel b) /\ length (chunks8 fuel b) = m.
Proof.
  induction m as [|m IH]; intros b fuel L F.
  - destruct b; [|cbn in L; lia]. destruct fuel; cbn; repeat split; constructor.
  - destruct fuel as [|f]; [lia|].
    destruct b as [|x b']; [cbn in L; lia|]. cbn [chunks8].
    rewrite take_firstn by lia.
    destruct (IH (skipn 8 (x :: b')) f) as (C & B & Ln); [rewrite skipn_length; lia|lia|].
    cbn [concat length]. rewrite C, firstn_skipn. repeat split; auto.
    constructor; [rewrite firstn_length; lia|exact B].
Qed.

Lemma length_concat_blk8 r : blk8 r -> length (concat r) = (8 * length r)%nat.
Proof.
  induction 1 as [|c r Hc _ IH]; [reflexivity|]. cbn [concat length]. rewrite app_length, IH, Hc. lia.
Qed.

Lemma lenN_concat_blk8 r : blk8 r -> lenN (concat r) = 8 * N.of_nat (length r).
Proof.
  induction 1 as [|c r Hc _ IH]; [reflexivity|]. cbn [concat length]. rewrite lenN_app, IH, lenN_length, Hc. lia.
Qed.

Section Wrap.
  Variable E D : bytes -> bytes.
  (* the block cipher pair: D inverts E on 16-byte blocks and E produces 16-byte blocks *)
  Hypothesis D_E : forall x, length x = 16%nat -> D (E x) = x.
  Hypothesis E_len : forall x, length x = 16%nat -> length (E x) = 16%nat.

  Lemma unwrap_pass_app x : forall a t y acc,
    unwrap_pass D a t (x ++ y) acc =
    let '(a', t', acc') := unwrap_pass D a t x acc in unwrap_pass D a' t' y acc'.
  Proof.
    induction x as [|ri x IH]; intros a t y acc; [reflexivity|].
    cbn [app unwrap_pass]. apply IH.
  Qed.

  (* one pass of wrap is undone by one pass of unwrap *)
  Lemma wrap_pass_inv r : blk8 r -> forall a t acc, length a = 8%nat ->
    let '(a2, t2, r2) := wrap_pass E a t r in
    length a2 = 8%nat /\ blk8 r2 /\ length r2 = length r /\ t2 = t + N.of_nat (length r) /\
    unwrap_pass D a2 t2 (rev r2) acc = (a, t, r ++ acc).
  Proof.
    induction 1 as [|ri rest Hri Hrest IH]; intros a t acc La.
    - cbn. repeat split; auto; try constructor. lia.
    - cbn [wrap_pass].
      set (b := E (a ++ ri)).
      assert (Lb : length b = 16%nat) by (apply E_len; rewrite app_length; lia).
      destruct (first8_length b Lb) as [Lf Lr].
      set (a' := xor_bytes (first8 b) (be8 (u64 (t + 1)))).
      assert (La' : length a' = 8%nat) by (unfold a'; rewrite xor_bytes_length; exact Lf).
      specialize (IH a' (t + 1) acc La').
      destruct (wrap_pass E a' (t + 1) rest) as [[a2 t2] rest'] eqn:EW.
      destruct IH as (L2 & B2 & Ln & Et & EU).
      split; [exact L2|]. split; [constructor; [exact Lr|exact B2]|].
      split; [cbn [length]; lia|]. split; [cbn [length]; lia|].
      cbn [rev]. rewrite unwrap_pass_app, EU. cbn [unwrap_pass].
      unfold a'. rewrite xor_bytes_involutive, halves_join. unfold b. rewrite D_E by (rewrite app_length; lia).
      destruct (halves_app a ri La) as [-> ->].
      replace (t + 1 - 1) with t by lia. reflexivity.
  Qed.

  Lemma wrap_passes_S_r k : forall a t r,
    wrap_passes E (S k) a t r = let '(a', t', r') := wrap_passes E k a t r in wrap_pass E a' t' r'.
  Proof.
    induction k as [|k IH]; intros a t r.
    - cbn [wrap_passes]. destruct (wrap_pass E a t r) as [[a' t'] r']. reflexivity.
    - change (wrap_passes E (S (S k)) a t r) with
        (let '(a', t', r') := wrap_pass E a t r in wrap_passes E (S k) a' t' r').
      destruct (wrap_pass E a t r) as [[a1 t1] r1] eqn:E1.
      rewrite IH. cbn [wrap_passes]. rewrite E1. reflexivity.
  Qed.

  Lemma wrap_passes_inv k : forall a t r, blk8 r -> length a = 8%nat ->
    let '(a2, t2, r2) := wrap_passes E k a t r in
    length a2 = 8%nat /\ blk8 r2 /\ length r2 = length r /\ t2 = t + N.of_nat k * N.of_nat (length r) /\
    unwrap_passes D k a2 t2 r2 = (a, t, r).
  Proof.
    induction k as [|k IH]; intros a t r Br La.
    - cbn. repeat split; auto. lia.
    - rewrite wrap_passes_S_r. specialize (IH a t r Br La).
      destruct (wrap_passes E k a t r) as [[a1 t1] r1] eqn:E1.
      destruct IH as (L1 & B1 & Ln1 & Et1 & EU1).
      pose proof (wrap_pass_inv r1 B1 a1 t1 [] L1) as P.
      destruct (wrap_pass E a1 t1 r1) as [[a2 t2] r2] eqn:E2.
      destruct P as (L2 & B2 & Ln2 & Et2 & EU2).
      split; [exact L2|]. split; [exact B2|]. split; [lia|]. split; [lia|].
      cbn [unwrap_passes]. rewrite EU2, app_nil_r. exact EU1.
  Qed.

  Lemma default_iv_length : length default_iv = 8%nat.
  Proof. reflexivity. Qed.

  (* wrap with any 8-byte initial value, then unwrap: the key comes back iff the initial value is
     the default ICV; every other ICV is rejected (all 8 bytes are compared) *)
  Lemma key_wrap_iv_unwrap iv cek :
    length iv = 8%nat -> lenN cek mod 8 = 0 -> 16 <= lenN cek ->
    exists out, key_wrap_iv E iv cek = Ok out /\ lenN out = lenN cek + 8 /\
      key_unwrap D out = (if bytes_eqb iv default_iv then Ok cek else Err e_wrap_icv).
  Proof.
    intros Liv Hm Hl. unfold key_wrap_iv. cbn zeta. rewrite Hm. cbn [N.eqb negb].
    set (m := (length cek / 8)%nat).
    assert (Lc : length cek = (8 * m)%nat).
    { rewrite lenN_length in Hm. unfold m.
      assert (Hn : (length cek mod 8 = 0)%nat) by (apply Nat2N.inj; rewrite Nat2N.inj_mod; exact Hm).
      pose proof (Nat.div_mod (length cek) 8 ltac:(lia)). lia. }
    destruct (chunks8_spec m cek (length cek) Lc) as (C & B & Ln); [lia|].
    pose proof (wrap_passes_inv 6 iv 0 (chunks8 (length cek) cek) B Liv) as P.
    destruct (wrap_passes E 6 iv 0 (chunks8 (length cek) cek)) as [[a2 t2] r2] eqn:EW.
    destruct P as (L2 & B2 & Ln2 & Et & EU).
    exists (a2 ++ concat r2). split; [reflexivity|].
    assert (Lout : lenN (a2 ++ concat r2) = lenN cek + 8).
    { rewrite lenN_app, (lenN_concat_blk8 r2 B2), Ln2, Ln, !lenN_length, L2, Lc. lia. }
    split; [exact Lout|].
    unfold key_unwrap, key_unwrap_g. cbn zeta. rewrite Lout.
    replace ((lenN cek + 8) mod 8) with 0 by (rewrite <- N.add_mod_idemp_l, Hm by lia; reflexivity).
    cbn [N.eqb negb].
    destruct (N.ltb_spec (lenN cek + 8) 24); [lia|].
    destruct (N.eqb_spec (lenN cek + 8) 0); [lia|].
    destruct (halves_app a2 (concat r2) L2) as [-> ->].
    rewrite chunks8_concat; [|exact B2|rewrite app_length, (length_concat_blk8 r2 B2); lia].
    replace (6 * ((lenN cek + 8) / 8 - 1)) with t2.
    2:{ rewrite Et, Ln, lenN_length, Lc.
        replace (N.of_nat (8 * m) + 8) with ((N.of_nat m + 1) * 8) by lia. rewrite N.div_mul by lia. lia. }
    rewrite EU. unfold ct_eq. destruct (bytes_eqb iv default_iv); cbn [negb]; [rewrite C|]; reflexivity.
  Qed.

  (* c16_keywrap *)
  Lemma key_unwrap_wrap cek :
    lenN cek mod 8 = 0 -> 16 <= lenN cek ->
    exists out, key_wrap E cek = Ok out /\ key_unwrap D out = Ok cek.
  Proof.
    intros Hm Hl. destruct (key_wrap_iv_unwrap default_iv cek default_iv_length Hm Hl) as (out & E1 & _ & E2).
    exists out. split; [exact E1|]. rewrite E2, bytes_eqb_refl. reflexivity.
  Qed.

  Lemma key_unwrap_bad_icv iv cek :
    length iv = 8%nat -> iv <> default_iv -> lenN cek mod 8 = 0 -> 16 <= lenN cek ->
    exists out, key_wrap_iv E iv cek = Ok out /\ key_unwrap D out = Err e_wrap_icv.
  Proof.
    intros Liv Hne Hm Hl. destruct (key_wrap_iv_unwrap iv cek Liv Hm Hl) as (out & E1 & _ & E2).
    exists out. split; [exact E1|]. rewrite E2.
    destruct (bytes_eqb iv default_iv) eqn:Eb; [apply bytes_eqb_eq in Eb; contradiction|reflexivity].
  Qed.
End Wrap.

(* KeyUnwrap never panics, for every block function and every input (with the minimum-length test) *)
Lemma key_unwrap_total D ct : forall s, key_unwrap D ct <> Panic s.
Proof.
  intro s. unfold key_unwrap, key_unwrap_g. cbn zeta.
  destruct (negb (lenN ct mod 8 =? 0)); [discriminate|].
  destruct (N.ltb_spec (lenN ct) 24); [discriminate|].
  destruct (N.eqb_spec (lenN ct) 0); [lia|].
  destruct (unwrap_passes D 6 (first8 ct) (6 * (lenN ct / 8 - 1)) (chunks8 (length ct) (rest8 ct))) as [[a t] r].
  destruct (negb (ct_eq a default_iv)); discriminate.
Qed.

(* an accepted unwrapping has passed the 8-byte integrity check and is a whole number of blocks *)
Lemma key_unwrap_ok_spec D ct cek :
  key_unwrap D ct = Ok cek -> lenN ct mod 8 = 0 /\ 24 <= lenN ct.
Proof.
  unfold key_unwrap, key_unwrap_g. cbn zeta.
  destruct (N.eqb_spec (lenN ct mod 8) 0); cbn [negb]; [|discriminate].
  destruct (N.ltb_spec (lenN ct) 24); [discriminate|]. auto.
Qed.

(* the code before the fix *)
Lemma key_unwrap_unguarded_refuted D : key_unwrap_g 0 D [] = Panic 7.
Proof. reflexivity. Qed.

(* and it accepted the bare ICV as the wrapping of the empty key *)
Lemma key_unwrap_unguarded_bare_icv D : key_unwrap_g 0 D default_iv = Ok [].
Proof. reflexivity. Qed.
