(* C17 proofs, part 3: bufio.Scanner + commentReader.Read against the segmentation-free
   specification.  [Strip] is the big-step relation "split applied to the whole remaining
   input"; strip_go computes it; drain (the scanner model) computes it for every segmentation
   of the input into non-empty reads -- hence the output depends only on the whole input. *)
From Verif Require Import Lib.Base Lib.Sx Gen.Gen_json Model.JsonPlus Proofs.JsonPlusIndex Proofs.JsonPlusSplit.
Open Scope N_scope.

Inductive Strip : bytes -> list bytes -> (list bytes * res unit) -> Prop :=
| St_more d out : split d true = Ok More -> Strip d out (out, Ok tt)
| St_err d out e : split d true = Err e -> Strip d out (out, Err e)
| St_tok d out adv tok r :
    split d true = Ok (Tok adv tok) -> Strip (skipn (Z.to_nat adv) d) (push tok out) r -> Strip d out r.

Lemma Strip_det d out r1 : Strip d out r1 -> forall r2, Strip d out r2 -> r1 = r2.
Proof.
  induction 1 as [d out H|d out e H|d out adv tok r H S IH]; intros r2 S2; inversion S2; subst; try congruence.
  rewrite H in H0. inversion H0; subst. now apply IH.
Qed.

(* strip_go computes Strip with any fuel above the input length *)
Lemma strip_go_Strip : forall fuel d out, (length d < fuel)%nat -> Strip d out (strip_go fuel d out).
Proof.
  induction fuel as [|fuel IH]; intros d out Hf; [lia|].
  cbn [strip_go]. destruct (split d true) as [[|adv tok]|e|s] eqn:E.
  - now apply St_more.
  - destruct (split_tok_facts _ _ _ _ E) as [Ha _]. rewrite lenZ_spec in Ha.
    destruct (adv <=? 0)%Z eqn:A; [lia|]. destruct (lenZ d <? adv)%Z eqn:B; [rewrite lenZ_spec in B; lia|].
    cbn [orb]. eapply St_tok; [exact E|]. apply IH. rewrite skipn_length. lia.
  - now apply St_err.
  - exfalso. exact (split_no_panic _ _ _ E).
Qed.

Lemma strip_Strip d : exists out r, Strip d [] (out, r) /\ strip d = (flat out, r).
Proof.
  unfold strip. pose proof (strip_go_Strip (S (S (length d))) d [] ltac:(lia)) as H.
  destruct (strip_go _ d []) as [out r]. now exists out, r.
Qed.

(* ---- take ---- *)
Lemma take_some n : forall (b a r : bytes), take n b = Some (a, r) -> b = a ++ r /\ length a = n.
Proof.
  induction n as [|n IH]; intros b a r H; cbn in H.
  - inversion H; subst. auto.
  - destruct b as [|x b]; [discriminate|]. destruct (take n b) as [[a' r']|] eqn:E; [|discriminate].
    inversion H; subst. destruct (IH _ _ _ E) as [-> <-]. auto.
Qed.
Lemma take_none n : forall (b : bytes), take n b = None -> (length b < n)%nat.
Proof.
  induction n as [|n IH]; intros b H; cbn in H; [discriminate|].
  destruct b as [|x b]; [cbn; lia|]. destruct (take n b) as [[a r]|] eqn:E; [discriminate|].
  apply IH in E. cbn. lia.
Qed.

(* ---- one underlying read ---- *)
Definition nonempty (b : bytes) : Prop := b <> [].

(* the read segments a well-behaved io.Reader may produce: never more than 100 empty reads in a
   row (bufio gives up with io.ErrNoProgress after that); k = empty reads already seen *)
Fixpoint runs_ok_from (k : nat) (segs : list bytes) : bool :=
  match segs with
  | [] => true
  | [] :: t => (S k <=? 100)%nat && runs_ok_from (S k) t
  | (_ :: _) :: t => runs_ok_from 0 t
  end.
Definition runs_ok (segs : list bytes) : Prop := runs_ok_from 0 segs = true.

Lemma nonempty_runs_ok segs : Forall nonempty segs -> forall k, runs_ok_from k segs = true.
Proof.
  induction 1 as [|seg rest Hs _ IH]; intros k; [reflexivity|].
  destruct seg; [now elim Hs|]. cbn. apply IH.
Qed.

Lemma read_more_spec space dt fin : forall segs loop got segs' serr',
  0 < space -> runs_ok_from (N.to_nat loop) segs = true ->
  read_more space loop segs fin dt = (got, segs', serr') ->
  (concat segs = [] /\ got = [] /\ segs' = [] /\ serr' = Some fin) \/
  (got <> [] /\ serr' = None /\ got ++ concat segs' = concat segs /\
   lenN got <= space /\ runs_ok_from 0 segs' = true) \/
  (got <> [] /\ serr' = Some fin /\ segs' = [] /\ got = concat segs /\ lenN got <= space).
Proof.
  induction segs as [|seg rest IH]; intros loop got segs' serr' Hs Hne H.
  - cbn in H. inversion H; subst. left. auto.
  - destruct seg as [|c seg].
    + cbn [read_more] in H. cbn [runs_ok_from] in Hne. apply andb_true_iff in Hne as [Hk Hrest].
      apply Nat.leb_le in Hk.
      destruct (max_empty_reads <? loop + 1) eqn:E; [apply N.ltb_lt in E; unfold max_empty_reads in E; lia|].
      cbn [concat app]. apply (IH (loop + 1)); auto.
      replace (N.to_nat (loop + 1)) with (S (N.to_nat loop)) by lia. exact Hrest.
    + right. cbn [runs_ok_from] in Hne.
      cbn [read_more] in H. destruct (space =? 0) eqn:E0; [apply N.eqb_eq in E0; lia|].
      unfold takeN in H. destruct (take (N.to_nat space) (c :: seg)) as [[a r]|] eqn:Et.
      * destruct (take_some _ _ _ _ Et) as [Hb Hl].
        assert (a <> []) by (intros ->; cbn in Hl; lia).
        assert (lenN a <= space) by (rewrite lenN_spec; lia).
        destruct r as [|r0 r].
        -- rewrite app_nil_r in Hb. destruct rest as [|s2 rest]; [destruct dt|]; inversion H; subst got segs' serr'; clear H.
           ++ right. cbn [concat]. rewrite app_nil_r. repeat split; auto.
           ++ left. cbn [concat]. rewrite !app_nil_r. repeat split; auto.
           ++ left. cbn [concat]. repeat split; auto. now rewrite Hb.
        -- inversion H; subst got segs' serr'; clear H. left. repeat split; auto.
           cbn [concat]. rewrite Hb. now rewrite app_assoc.
      * apply take_none in Et.
        assert (lenN (c :: seg) <= space) by (rewrite lenN_spec; lia).
        destruct rest as [|s2 rest]; [destruct dt|]; inversion H; subst got segs' serr'; clear H.
        -- right. cbn [concat]. rewrite app_nil_r. repeat split; auto; discriminate.
        -- left. cbn [concat]. rewrite !app_nil_r. repeat split; auto; discriminate.
        -- left. cbn [concat]. repeat split; auto; discriminate.
Qed.

(* ---- scanner invariant and the limit below which ErrTooLong cannot happen ---- *)
Definition tok_limit : N := N.min max_token (max_int / 2 + 1).

Definition inv (st : sc) : Prop := plen st = lenN (pend st) /\ start st + plen st <= cap st.

Definition remaining (st : sc) (segs : list bytes) (serr : option N) : bytes :=
  pend st ++ match serr with None => concat segs | Some _ => [] end.

Definition measure (st : sc) (segs : list bytes) (serr : option N) : nat :=
  (length (pend st) + match serr with None => S (2 * length (concat segs)) | Some _ => 0 end)%nat.

(* the scanner's output on a stream that ends with the transport status fin (0 = EOF): tokens are
   those of [Strip]; with fin <> 0 the output may stop after any token (how far the scanner got
   before it read the error depends on the segmentation) and the status is the transport's *)
Inductive StripF (fin : N) : bytes -> list bytes -> (list bytes * res unit) -> Prop :=
| F_tok d out adv tok r :
    split d true = Ok (Tok adv tok) -> StripF fin (skipn (Z.to_nat adv) d) (push tok out) r -> StripF fin d out r
| F_more d out : split d true = Ok More -> StripF fin d out (out, if fin =? 0 then Ok tt else Err fin)
| F_err d out e : split d true = Err e -> StripF fin d out (out, Err (if fin =? 0 then e else fin))
| F_stop d out adv tok : split d true = Ok (Tok adv tok) -> fin <> 0 -> StripF fin d out (out, Err fin).

Lemma StripF_0 d out r : StripF 0 d out r -> Strip d out r.
Proof.
  induction 1 as [d out adv tok r H S IH|d out H|d out e H|d out adv tok H Hf].
  - eapply St_tok; eauto.
  - now apply St_more.
  - now apply St_err.
  - congruence.
Qed.

Lemma Strip_extends d out p : Strip d out p -> exists more, fst p = more ++ out.
Proof.
  induction 1 as [d out H|d out e H|d out adv tok r H S IH]; try (now exists []).
  destruct IH as [more ->]. unfold push. destruct tok; [now exists more|].
  exists (more ++ [n :: tok]). now rewrite <- app_assoc.
Qed.

(* with a read error at the end: the status is that error and the output is a prefix of the
   output for the same bytes ending in EOF *)
Lemma StripF_prefix fin d out p : fin <> 0 -> StripF fin d out p ->
  snd p = Err fin /\ forall q, Strip d out q -> exists more, fst q = more ++ fst p.
Proof.
  intros Hf. induction 1 as [d out adv tok r H S IH|d out H|d out e H|d out adv tok H _].
  - destruct IH as [A B]. split; [exact A|]. intros q Q. inversion Q; subst; try congruence.
    rewrite H in H0. inversion H0; subst. now apply B.
  - apply N.eqb_neq in Hf. rewrite Hf. split; [reflexivity|]. intros q Q. apply (Strip_extends _ _ _ Q).
  - apply N.eqb_neq in Hf. rewrite Hf. split; [reflexivity|]. intros q Q. apply (Strip_extends _ _ _ Q).
  - split; [reflexivity|]. intros q Q. apply (Strip_extends _ _ _ Q).
Qed.

Lemma drain_StripF fin dt : forall fuel st segs serr out,
  inv st -> runs_ok_from 0 segs = true -> (serr = None \/ serr = Some fin) ->
  lenN (remaining st segs serr) < tok_limit ->
  (measure st segs serr < fuel)%nat ->
  StripF fin (remaining st segs serr) out (drain fuel st segs fin dt serr out).
Proof.
  induction fuel as [|fuel IH]; intros st segs serr out [I1 I2] Hne Hserr Hlim Hm; [lia|].
  cbn [drain]. destruct Hserr as [-> | ->].
  - (* still reading *)
    cbn [orb]. unfold remaining in *. unfold measure in Hm.
    set (sp := if 0 <? plen st then split (pend st) false else Ok More).
    assert (Hsp : sp = Ok More \/ exists adv tok, sp = Ok (Tok adv tok) /\ split (pend st) false = Ok (Tok adv tok)).
    { unfold sp. destruct (0 <? plen st); [|now left].
      destruct (split (pend st) false) as [[|adv tok]|e|s] eqn:E.
      - now left. - right. now exists adv, tok.
      - exfalso. exact (split_false_no_err _ _ E). - exfalso. exact (split_no_panic _ _ _ E). }
    rewrite orb_false_r. fold sp.
    destruct Hsp as [-> | (adv & tok & -> & E)].
    + (* need more data *)
      set (st1 := if (0 <? start st) && ((start st + plen st =? cap st) || (cap st / 2 <? start st))
                  then {| pend := pend st; plen := plen st; start := 0; cap := cap st |} else st).
      assert (H1 : pend st1 = pend st /\ plen st1 = plen st /\ cap st1 = cap st /\ start st1 + plen st1 <= cap st1 /\
                   (start st1 + plen st1 = cap st1 -> plen st = cap st)).
      { unfold st1. destruct (0 <? start st) eqn:A; cbn [andb].
        - apply N.ltb_lt in A. destruct ((start st + plen st =? cap st) || (cap st / 2 <? start st)) eqn:B; cbn; repeat split; auto; lia.
        - apply N.ltb_ge in A. repeat split; auto. lia. }
      destruct H1 as (P1 & L1 & C1 & B1 & F1).
      assert (Hpl : lenN (pend st) <= lenN (pend st ++ concat segs)) by (rewrite lenN_app; lia).
      destruct (start st1 + plen st1 =? cap st1) eqn:Efull.
      * apply N.eqb_eq in Efull. specialize (F1 Efull).
        assert (Hc : cap st1 < tok_limit) by lia. unfold tok_limit in Hc.
        destruct (max_token <=? cap st1) eqn:A; [apply N.leb_le in A; lia|].
        destruct (max_int / 2 <? cap st1) eqn:B; [apply N.ltb_lt in B; lia|].
        cbn [orb andb].
        set (ns := if cap st1 * 2 =? 0 then start_buf_size else cap st1 * 2).
        assert (Hns : cap st1 < N.min ns max_token).
        { unfold ns. destruct (cap st1 * 2 =? 0) eqn:Z0; [apply N.eqb_eq in Z0; unfold start_buf_size; lia|].
          apply N.eqb_neq in Z0. lia. }
        cbn [pend plen start cap].
        destruct (read_more (N.min ns max_token - (0 + plen st1)) 0 segs fin dt) as [[got segs'] serr'] eqn:R.
        apply read_more_spec in R; [|lia|auto].
        destruct R as [(Hc0 & -> & -> & ->) | [(Hg & -> & Hcat & Hgl & Hne') | (Hg & -> & -> & Hcat & Hgl)]].
        -- rewrite Hc0 in *. rewrite P1, L1. rewrite !app_nil_r.
           specialize (IH {| pend := pend st; plen := plen st + lenN []; start := 0; cap := N.min ns max_token |} [] (Some fin) out).
           unfold remaining, measure in IH. cbn [pend] in IH. cbn [concat] in *. rewrite app_nil_r in *. apply IH; auto.
           ++ split; cbn [pend plen start cap]; change (lenN []) with 0; lia.
           ++ unfold measure in Hm. cbn [concat length] in Hm. lia.
        -- rewrite P1, L1.
           specialize (IH {| pend := pend st ++ got; plen := plen st + lenN got; start := 0; cap := N.min ns max_token |} segs' None out).
           unfold remaining, measure in IH. cbn [pend] in IH. rewrite <- app_assoc, Hcat in IH. apply IH; auto.
           ++ split; cbn [pend plen start cap]; [rewrite lenN_app; lia|lia].
           ++ rewrite app_length. rewrite <- Hcat, app_length in Hm.
              assert (length got <> 0)%nat by (destruct got; [congruence|cbn; lia]). lia.
        -- rewrite P1, L1.
           specialize (IH {| pend := pend st ++ got; plen := plen st + lenN got; start := 0; cap := N.min ns max_token |} [] (Some fin) out).
           unfold remaining, measure in IH. cbn [pend] in IH. rewrite app_nil_r in IH. rewrite <- Hcat. apply IH; auto.
           ++ split; cbn [pend plen start cap]; [rewrite lenN_app; lia|lia].
           ++ rewrite <- Hcat in Hlim. exact Hlim.
           ++ rewrite app_length. rewrite <- Hcat in Hm. lia.
      * apply N.eqb_neq in Efull. cbn [andb].
        destruct (read_more (cap st1 - (start st1 + plen st1)) 0 segs fin dt) as [[got segs'] serr'] eqn:R.
        apply read_more_spec in R; [|lia|auto].
        destruct R as [(Hc0 & -> & -> & ->) | [(Hg & -> & Hcat & Hgl & Hne') | (Hg & -> & -> & Hcat & Hgl)]].
        -- rewrite Hc0 in *. rewrite P1, L1. rewrite !app_nil_r.
           specialize (IH {| pend := pend st; plen := plen st + lenN []; start := start st1; cap := cap st1 |} [] (Some fin) out).
           unfold remaining, measure in IH. cbn [pend] in IH. cbn [concat] in *. rewrite app_nil_r in *. apply IH; auto.
           ++ split; cbn [pend plen start cap]; change (lenN []) with 0; lia.
           ++ unfold measure in Hm. cbn [concat length] in Hm. lia.
        -- rewrite P1, L1.
           specialize (IH {| pend := pend st ++ got; plen := plen st + lenN got; start := start st1; cap := cap st1 |} segs' None out).
           unfold remaining, measure in IH. cbn [pend] in IH. rewrite <- app_assoc, Hcat in IH. apply IH; auto.
           ++ split; cbn [pend plen start cap]; [rewrite lenN_app; lia|lia].
           ++ rewrite app_length. rewrite <- Hcat, app_length in Hm.
              assert (length got <> 0)%nat by (destruct got; [congruence|cbn; lia]). lia.
        -- rewrite P1, L1.
           specialize (IH {| pend := pend st ++ got; plen := plen st + lenN got; start := start st1; cap := cap st1 |} [] (Some fin) out).
           unfold remaining, measure in IH. cbn [pend] in IH. rewrite app_nil_r in IH. rewrite <- Hcat. apply IH; auto.
           ++ split; cbn [pend plen start cap]; [rewrite lenN_app; lia|lia].
           ++ rewrite <- Hcat in Hlim. exact Hlim.
           ++ rewrite app_length. rewrite <- Hcat in Hm. lia.
    + (* a token from the buffered prefix: the same token as on the whole remaining input *)
      destruct (split_tok_facts _ _ _ _ E) as [Ha _]. rewrite lenZ_spec in Ha.
      assert (Hpl : Z.of_N (plen st) = Z.of_nat (length (pend st))) by (rewrite I1, lenN_spec; lia).
      destruct (adv <? 0)%Z eqn:A; [lia|]. destruct (Z.of_N (plen st) <? adv)%Z eqn:B; [lia|].
      cbn [orb]. destruct (adv =? 0)%Z eqn:C; [lia|].
      eapply F_tok; [apply split_stable; exact E|].
      replace (match tok with [] | _ => _ end) with
        (drain fuel {| pend := skipn (N.to_nat (Z.to_N adv)) (pend st); plen := plen st - Z.to_N adv;
                       start := start st + Z.to_N adv; cap := cap st |} segs fin dt None (push tok out))
        by (destruct tok; reflexivity).
      rewrite skipn_app. replace (Z.to_nat adv - length (pend st))%nat with 0%nat by lia. cbn [skipn].
      replace (Z.to_nat adv) with (N.to_nat (Z.to_N adv)) by lia.
      match goal with |- StripF _ _ _ (drain fuel ?s _ _ _ _ _) => specialize (IH s segs None (push tok out)) end.
      unfold remaining, measure in IH. cbn [pend] in IH. apply IH; auto.
      * split; cbn [pend plen start cap]; [rewrite lenN_spec, skipn_length; lia|lia].
      * rewrite lenN_app in *. rewrite lenN_spec in *. rewrite skipn_length. lia.
      * rewrite skipn_length. lia.
  - (* the scanner has seen the end of the stream: the buffer is the whole remaining input *)
    cbn [orb]. rewrite orb_true_r. unfold remaining in *. rewrite app_nil_r in *. unfold measure in Hm.
    destruct (split (pend st) true) as [[|adv tok]|e|s] eqn:E.
    + now apply F_more.
    + destruct (split_tok_facts _ _ _ _ E) as [Ha _]. rewrite lenZ_spec in Ha.
      assert (Hpl : Z.of_N (plen st) = Z.of_nat (length (pend st))) by (rewrite I1, lenN_spec; lia).
      destruct (adv <? 0)%Z eqn:A; [lia|]. destruct (Z.of_N (plen st) <? adv)%Z eqn:B; [lia|].
      cbn [orb]. destruct (adv =? 0)%Z eqn:C; [lia|].
      assert (Hgo : StripF fin (pend st) out
                (drain fuel {| pend := skipn (N.to_nat (Z.to_N adv)) (pend st); plen := plen st - Z.to_N adv;
                               start := start st + Z.to_N adv; cap := cap st |} segs fin dt (Some fin) (push tok out))).
      { eapply F_tok; [exact E|].
        replace (Z.to_nat adv) with (N.to_nat (Z.to_N adv)) by lia.
        match goal with |- StripF _ _ _ (drain fuel ?s _ _ _ _ _) => specialize (IH s segs (Some fin) (push tok out)) end.
        unfold remaining, measure in IH. cbn [pend] in IH. rewrite app_nil_r in IH. apply IH; auto.
        * split; cbn [pend plen start cap]; [rewrite lenN_spec, skipn_length; lia|lia].
        * rewrite lenN_spec in *. rewrite skipn_length. lia.
        * rewrite skipn_length. lia. }
      destruct tok as [|c t]; [exact Hgo|].
      destruct (fin =? 0) eqn:E0; [exact Hgo|].
      apply N.eqb_neq in E0. eapply F_stop; eauto.
    + unfold set_err. now apply F_err.
    + exfalso. exact (split_no_panic _ _ _ E).
Qed.

Lemma drain_Strip dt fuel st segs serr out :
  inv st -> runs_ok_from 0 segs = true -> (serr = None \/ serr = Some 0) ->
  lenN (remaining st segs serr) < tok_limit ->
  (measure st segs serr < fuel)%nat ->
  Strip (remaining st segs serr) out (drain fuel st segs 0 dt serr out).
Proof. intros. now apply StripF_0, drain_StripF. Qed.

(* [core] for every segmentation into non-empty reads the reader computes strip of the whole input *)
Lemma reader_dt_strip segs dt :
  runs_ok segs -> lenN (concat segs) < tok_limit -> reader_dt segs 0 dt = strip (concat segs).
Proof.
  intros Hne Hlim. destruct (strip_Strip (concat segs)) as (o & r & HS & ->).
  unfold reader_dt.
  pose proof (drain_Strip dt (drain_fuel segs) sc0 segs None [] ) as D.
  unfold remaining, measure in D. cbn [sc0 pend app] in D.
  specialize (D ltac:(split; cbn; lia) Hne ltac:(now left) Hlim ltac:(unfold drain_fuel; cbn [length]; lia)).
  destruct (drain _ sc0 segs 0 dt None []) as [o' r'].
  pose proof (Strip_det _ _ _ D _ HS) as Eq. now inversion Eq.
Qed.

Lemma reader_strip segs :
  runs_ok segs -> lenN (concat segs) < tok_limit -> reader segs 0 = strip (concat segs).
Proof. exact (reader_dt_strip segs false). Qed.

(* whether the last bytes arrive together with EOF or before it makes no difference *)
Lemma reader_dt_segmentation segs1 segs2 dt1 dt2 :
  runs_ok segs1 -> runs_ok segs2 -> concat segs1 = concat segs2 ->
  lenN (concat segs1) < tok_limit -> reader_dt segs1 0 dt1 = reader_dt segs2 0 dt2.
Proof.
  intros H1 H2 Hc Hl. rewrite (reader_dt_strip segs1 dt1 H1 Hl). rewrite Hc in Hl. rewrite (reader_dt_strip segs2 dt2 H2 Hl). now rewrite Hc.
Qed.

Lemma reader_segmentation segs1 segs2 :
  runs_ok segs1 -> runs_ok segs2 -> concat segs1 = concat segs2 ->
  lenN (concat segs1) < tok_limit -> reader segs1 0 = reader segs2 0.
Proof.
  intros H1 H2 Hc Hl. rewrite (reader_strip segs1 H1 Hl). rewrite Hc in Hl. rewrite (reader_strip segs2 H2 Hl). now rewrite Hc.
Qed.

(* [core] a stream that ends in a read error (fin <> 0), for every segmentation: the reader ends
   with that very error, and what it delivered before is a prefix of what it delivers for the
   same bytes followed by EOF.  How long that prefix is depends on the segmentation: a token that
   is complete only in the scanner's last buffer is not delivered (commentReader.Read tests
   s.Err() before it hands the token over). *)
Lemma reader_dt_error segs fin dt :
  fin <> 0 -> runs_ok segs -> lenN (concat segs) < tok_limit ->
  snd (reader_dt segs fin dt) = Err fin /\
  exists rest, fst (reader_dt segs fin dt) ++ rest = fst (strip (concat segs)).
Proof.
  intros Hf Hne Hlim. destruct (strip_Strip (concat segs)) as (o & r & HS & ->).
  unfold reader_dt.
  pose proof (drain_StripF fin dt (drain_fuel segs) sc0 segs None []) as D.
  unfold remaining, measure in D. cbn [sc0 pend app] in D.
  specialize (D ltac:(split; cbn; lia) Hne ltac:(now left) Hlim ltac:(unfold drain_fuel; cbn [length]; lia)).
  destruct (drain _ sc0 segs fin dt None []) as [o' r'].
  destruct (StripF_prefix fin _ _ _ Hf D) as [A B]. cbn [fst snd] in *.
  split; [exact A|]. destruct (B _ HS) as [more Hm]. cbn [fst] in Hm. subst o.
  exists (flat more). unfold flat. now rewrite rev_app_distr, concat_app.
Qed.
