(* Proofs about Model/Jose.v: algorithm / key-type / curve glue of sign and verify. *)
From Verif Require Import Lib.Base Lib.Sx Model.Jose Proofs.Jose Proofs.JoseCompact Proofs.JoseCipher Proofs.JoseFixed.
Open Scope N_scope.

(* the twelve names, as regenerated from shared.go, are RFC 7518's *)
Lemma sigalg_names_rfc7518 :
  map fst sigalg_names =
  [[72; 83; 50; 53; 54]; [72; 83; 51; 56; 52]; [72; 83; 53; 49; 50];
   [82; 83; 50; 53; 54]; [82; 83; 51; 56; 52]; [82; 83; 53; 49; 50];
   [80; 83; 50; 53; 54]; [80; 83; 51; 56; 52]; [80; 83; 53; 49; 50];
   [69; 83; 50; 53; 54]; [69; 83; 51; 56; 52]; [69; 83; 53; 49; 50]].
Proof. vm_compute. reflexivity. Qed.

Definition all_kinds : list keykind := [KSym; KRsa; KEc 256; KEc 384; KEc 521].
Definition all_names : list bytes := map fst sigalg_names.

Definition kind_code (k : keykind) : N := match k with KSym => 0 | KRsa => 1 | KEc b => b end.

(* SWEEP over all 5 key kinds x 12 algorithm names: Sign accepts exactly the 3 + 6 + 3 pairs of
   RFC 7518 (HS* with a byte key, RS*/PS* with an RSA key, ES256/384/512 with P-256/384/521), with
   signature lengths 32/48/64 for HMAC and 64/96/132 for ECDSA *)
Lemma sign_table :
  flat_map (fun k => flat_map (fun n => match sign_decide k n with
                                        | Ok len => [(kind_code k, n, len)] | _ => [] end) all_names) all_kinds =
  [(0, [72; 83; 50; 53; 54], 32); (0, [72; 83; 51; 56; 52], 48); (0, [72; 83; 53; 49; 50], 64);
   (1, [82; 83; 50; 53; 54], 0); (1, [82; 83; 51; 56; 52], 0); (1, [82; 83; 53; 49; 50], 0);
   (1, [80; 83; 50; 53; 54], 0); (1, [80; 83; 51; 56; 52], 0); (1, [80; 83; 53; 49; 50], 0);
   (256, [69; 83; 50; 53; 54], 64); (384, [69; 83; 51; 56; 52], 96); (521, [69; 83; 53; 49; 50], 132)].
Proof. vm_compute. reflexivity. Qed.

(* an ES algorithm on the wrong curve is the curve error, everything else the algorithm error *)
Lemma sign_table_errors :
  forallb (fun k => forallb (fun n =>
     match sign_decide k n, k, sigalg_of_name n with
     | Ok _, _, _ => true
     | Err e, KEc _, Some a => match es_bits a with Some _ => e =? e_curve | None => e =? e_alg end
     | Err e, _, _ => e =? e_alg
     | Panic _, _, _ => false
     end) all_names) all_kinds = true.
Proof. vm_compute. reflexivity. Qed.

(* curve / algorithm consistency: the verifier's key size for an ES algorithm is the signer's
   keyBytes for the curve the signer insists on *)
Lemma es_consistency a bits : es_bits a = Some bits -> es_keysize a = Some (ec_key_bytes bits).
Proof. destruct a; cbn; intro H; inversion H; reflexivity. Qed.

Lemma sigalg_unknown k name sl :
  sigalg_of_name name = None -> sign_decide k name = Err e_alg /\ verify_decide k name sl = Err e_alg.
Proof. intro H. unfold sign_decide, verify_decide. rewrite H. auto. Qed.

(* Sign on an EC key: only the algorithm of that curve, and the signature is 2*keyBytes long *)
Lemma sign_ec_spec bits name n :
  sign_decide (KEc bits) name = Ok n ->
  exists a, sigalg_of_name name = Some a /\ es_bits a = Some bits /\ n = 2 * ec_key_bytes bits.
Proof.
  unfold sign_decide. destruct (sigalg_of_name name) as [a|]; [|discriminate].
  destruct (es_bits a) as [want|] eqn:E; [|discriminate].
  destruct (N.eqb_spec want bits); [|discriminate]. intro H; inversion H; subst. eauto.
Qed.

(* Verify on an EC key: exactly 2*keySize bytes -- longer and shorter signatures are rejected *)
Lemma verify_ec_spec bits name sl :
  verify_decide (KEc bits) name sl = Ok tt <->
  exists a ks, sigalg_of_name name = Some a /\ es_keysize a = Some ks /\ sl = 2 * ks.
Proof.
  unfold verify_decide. destruct (sigalg_of_name name) as [a|]; [|split; [discriminate|intros (a & ks & H & _); discriminate]].
  destruct (es_keysize a) as [ks|] eqn:E.
  - destruct (N.eqb_spec sl (2 * ks)); split.
    + intros _. exists a, ks. auto.
    + reflexivity.
    + discriminate.
    + intros (a' & ks' & Ha & Hk & Hs). inversion Ha; subst a'. rewrite E in Hk. inversion Hk; subst. contradiction.
  - split; [discriminate|]. intros (a' & ks' & Ha & Hk & _). inversion Ha; subst a'. rewrite E in Hk. discriminate.
Qed.

(* whatever the signer's glue accepts, the verifier's glue accepts with the same kind of key,
   at exactly the length the signer produced *)
Lemma sign_then_verify k name n :
  sign_decide k name = Ok n ->
  match k with KEc _ => verify_decide k name n = Ok tt | _ => forall sl, verify_decide k name sl = Ok tt end.
Proof.
  unfold sign_decide, verify_decide. destruct (sigalg_of_name name) as [a|]; [|discriminate].
  destruct k as [| |bits].
  - destruct a; cbn; intro H; try discriminate; auto.
  - destruct a; cbn; intro H; try discriminate; auto.
  - destruct (es_bits a) as [want|] eqn:E; [|discriminate].
    destruct (N.eqb_spec want bits); [|discriminate]. subst want. intro H; inversion H; subst.
    rewrite (es_consistency a bits E). rewrite N.eqb_refl. reflexivity.
Qed.

(* the split of the verifier succeeds exactly on 2*keysize bytes *)
Lemma ecdsa_split_ok_iff sig ks : (exists rs, ecdsa_split sig ks = Ok rs) <-> lenN sig = 2 * ks.
Proof.
  unfold ecdsa_split. destruct (N.eqb_spec (lenN sig) (2 * ks)) as [E|NE]; cbn [negb]; split.
  - auto.
  - intros _. destruct (split_at_some ks sig) as (x & y & -> & _ & _); [lia|]. eauto.
  - intros (rs & H). discriminate.
  - contradiction.
Qed.

(* sign and verify together: r || s built for the curve's keyBytes passes the length check of the
   algorithm's keySize and splits back into r and s *)
Lemma es_sign_verify_width a bits ks r s :
  es_bits a = Some bits -> es_keysize a = Some ks -> r < 256 ^ ks -> s < 256 ^ ks ->
  exists sig, ecdsa_sig r s (ec_key_bytes bits) = Ok sig /\ lenN sig = 2 * ks /\ ecdsa_split sig ks = Ok (r, s).
Proof.
  intros Hb Hk Hr Hs. rewrite (es_consistency a bits Hb) in Hk. inversion Hk; subst ks.
  apply ecdsa_sig_split; assumption.
Qed.

(* what the glue does NOT check (observation): an EC key of another curve passes the verifier's
   glue when the signature has the algorithm's length *)
Lemma verify_ignores_curve : verify_decide (KEc 256) (bytes_of_string Gen.Gen_jose.jose_ES384_str) 96 = Ok tt.
Proof. vm_compute. reflexivity. Qed.

(* ------------------------------------------------------------------ ECDH-ES header -> KDF plumbing *)
(* decrypt uses (apu, apv) exactly as given, in that order, whatever the algorithm of the family *)
Lemma ecdh_derive_input_spec h ks id u v n :
  ecdh_derive_input h ks = Ok (id, u, v, n) ->
  u = eh_apu h /\ v = eh_apv h /\
  ((eh_alg h = name_ECDH_ES /\ id = eh_enc h /\ n = ks) \/
   (id = eh_alg h /\ ((eh_alg h = name_ECDH_ES_A128KW /\ n = 16) \/ (eh_alg h = name_ECDH_ES_A192KW /\ n = 24) \/
                      (eh_alg h = name_ECDH_ES_A256KW /\ n = 32)))).
Proof.
  unfold ecdh_derive_input.
  destruct (bytes_eqb (eh_alg h) name_ECDH_ES) eqn:E0.
  { apply bytes_eqb_eq in E0. intro H; inversion H. split; [reflexivity|]. split; [reflexivity|]. left. auto. }
  destruct (bytes_eqb (eh_alg h) name_ECDH_ES_A128KW) eqn:E1.
  { apply bytes_eqb_eq in E1. intro H; inversion H. split; [reflexivity|]. split; [reflexivity|]. right. split; [reflexivity|]. left. auto. }
  destruct (bytes_eqb (eh_alg h) name_ECDH_ES_A192KW) eqn:E2.
  { apply bytes_eqb_eq in E2. intro H; inversion H. split; [reflexivity|]. split; [reflexivity|]. right. split; [reflexivity|]. right. left. auto. }
  destruct (bytes_eqb (eh_alg h) name_ECDH_ES_A256KW) eqn:E3; [|discriminate].
  apply bytes_eqb_eq in E3. intro H; inversion H. split; [reflexivity|]. split; [reflexivity|]. right. split; [reflexivity|]. right. right. auto.
Qed.

Lemma ecdh_family_accepted h ks :
  (exists p, ecdh_derive_input h ks = Ok p) <->
  (eh_alg h = name_ECDH_ES \/ eh_alg h = name_ECDH_ES_A128KW \/ eh_alg h = name_ECDH_ES_A192KW \/ eh_alg h = name_ECDH_ES_A256KW).
Proof.
  unfold ecdh_derive_input. split.
  - intros (p & H).
    destruct (bytes_eqb (eh_alg h) name_ECDH_ES) eqn:E0; [apply bytes_eqb_eq in E0; auto|].
    destruct (bytes_eqb (eh_alg h) name_ECDH_ES_A128KW) eqn:E1; [apply bytes_eqb_eq in E1; auto|].
    destruct (bytes_eqb (eh_alg h) name_ECDH_ES_A192KW) eqn:E2; [apply bytes_eqb_eq in E2; auto|].
    destruct (bytes_eqb (eh_alg h) name_ECDH_ES_A256KW) eqn:E3; [apply bytes_eqb_eq in E3; auto|discriminate].
  - intros [E|[E|[E|E]]]; rewrite E; vm_compute bytes_eqb; eauto.
Qed.

(* two headers of the same algorithm / enc whose (apu, apv) differ give different OtherInfo: the
   derived key depends on both values, each in its own length-prefixed field *)
Lemma ecdh_otherinfo_injective alg enc u v u' v' ks oi :
  lenN alg < 4294967296 -> lenN enc < 4294967296 ->
  lenN u < 4294967296 -> lenN v < 4294967296 -> lenN u' < 4294967296 -> lenN v' < 4294967296 -> ks < 536870912 ->
  ecdh_otherinfo {| eh_alg := alg; eh_enc := enc; eh_apu := u; eh_apv := v |} ks = Ok oi ->
  ecdh_otherinfo {| eh_alg := alg; eh_enc := enc; eh_apu := u'; eh_apv := v' |} ks = Ok oi ->
  u = u' /\ v = v'.
Proof.
  intros La Le Lu Lv Lu' Lv' Lk H1 H2. unfold ecdh_otherinfo in *.
  destruct (ecdh_derive_input {| eh_alg := alg; eh_enc := enc; eh_apu := u; eh_apv := v |} ks) as [[[[id a] b] n]| |] eqn:D1;
    cbn [bind] in H1; try discriminate.
  destruct (ecdh_derive_input {| eh_alg := alg; eh_enc := enc; eh_apu := u'; eh_apv := v' |} ks) as [[[[id' a'] b'] n']| |] eqn:D2;
    cbn [bind] in H2; try discriminate.
  inversion H1 as [K1]. inversion H2 as [K2]. rewrite <- K2 in K1.
  pose proof (ecdh_derive_input_spec _ _ _ _ _ _ D1) as (-> & -> & S1).
  pose proof (ecdh_derive_input_spec _ _ _ _ _ _ D2) as (-> & -> & S2).
  cbn [eh_alg eh_enc eh_apu eh_apv] in *.
  assert (Bn : n < 536870912 /\ n' < 536870912 /\ lenN id < 4294967296 /\ lenN id' < 4294967296).
  { destruct S1 as [(_ & -> & ->)|(-> & [(_ & ->)|[(_ & ->)|(_ & ->)]])];
    destruct S2 as [(_ & -> & ->)|(-> & [(_ & ->)|[(_ & ->)|(_ & ->)]])]; repeat split; lia. }
  destruct Bn as (B1 & B2 & B3 & B4).
  apply kdf_info_injective in K1; try assumption. destruct K1 as (_ & -> & -> & _). auto.
Qed.
