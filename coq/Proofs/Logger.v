(* Proofs for Model/Logger.v (C18). *)
From Coq Require Import String Ascii.
From Verif Require Import Gen.Gen_logger.
From Verif Require Import Lib.Base Lib.Sx Lib.Sched Model.Logger.
Import List ListNotations.
Open Scope Z_scope.

(* ------------------------------------------------------------------ allocation: atomic *)
(* remaining code of a thread that allocates with [IAtomicAdd; IRetReg]: between allocations
   (a_out) or holding a fresh value in its register that it has not returned yet (a_in) *)
Inductive a_out : list ainstr -> Prop :=
| ao_nil : a_out []
| ao_add c : a_in c -> a_out (IAtomicAdd :: c)
with a_in : list ainstr -> Prop :=
| ai_ret c : a_out c -> a_in (IRetReg :: c).

Lemma a_out_not_in c : a_out c -> ~ a_in c.
Proof. intros Ho Hi. inversion Ho; subst; inversion Hi. Qed.

Lemma alloc_safeb_spec sk : alloc_safeb sk = true -> sk = [IAtomicAdd; IRetReg].
Proof.
  destruct sk as [|[] [|[] [|]]]; cbn; intros H; try discriminate; reflexivity.
Qed.

Lemma a_out_repeat n : a_out (concat (repeat [IAtomicAdd; IRetReg] n)).
Proof. induction n as [|n IH]; cbn; [constructor|]. constructor. constructor. exact IH. Qed.

Definition pending (s : astate) (i : nat) (t : athread) : Prop :=
  nth_error (aths s) i = Some t /\ a_in (acode t).

Definition InvA (g0 : Z) (s : astate) : Prop :=
  (forall i t, nth_error (aths s) i = Some t -> a_out (acode t) \/ a_in (acode t)) /\
  g0 <= ag s /\
  Forall (fun id => g0 < id <= ag s) (ids s) /\
  NoDup (ids s) /\
  (forall i t, pending s i t ->
     g0 < areg t <= ag s /\ ~ In (areg t) (ids s) /\
     (forall j t', j <> i -> pending s j t' -> areg t' <> areg t)).

Lemma astep_InvA g0 s i : InvA g0 s -> InvA g0 (astep s i).
Proof.
  intros Hinv. pose proof Hinv as (Hshape & Hg & Hle & Hnd & Hpend). unfold astep.
  destruct (nth_error (aths s) i) as [t|] eqn:Ei; [|exact Hinv].
  destruct (acode t) as [|ins rest] eqn:Ec; [exact Hinv|].
  destruct (Hshape i t Ei) as [Ho|Hi]; rewrite Ec in *.
  - (* between allocations: the instruction is IAtomicAdd *)
    inversion Ho as [|c Hin]; subst.
    unfold InvA, pending, ids; cbn [ag alk aths alog].
    split; [|split; [lia|split; [|split; [exact Hnd|]]]].
    + intros j t' Hj. apply nth_upd_cases in Hj. destruct Hj as [(-> & -> & _)|(Hne & Hj)]; cbn; eauto.
    + eapply Forall_impl; [|exact Hle]. cbn; intros; lia.
    + intros j t' (Hj & Hin'). apply nth_upd_cases in Hj. destruct Hj as [(<- & -> & _)|(Hne & Hj)].
      * cbn [areg]. split; [lia|split].
        -- intro HIn. eapply Forall_forall in Hle; [|exact HIn]. cbn in Hle. lia.
        -- intros k t'' Hk (Hk1 & Hk2). rewrite nth_upd_other in Hk1 by congruence.
           destruct (Hpend k t'' (conj Hk1 Hk2)) as (Hr & _). lia.
      * destruct (Hpend j t' (conj Hj Hin')) as (Hr & Hni & Hoth).
        split; [lia|split; [exact Hni|]].
        intros k t'' Hk (Hk1 & Hk2). apply nth_upd_cases in Hk1.
        destruct Hk1 as [(<- & -> & _)|(Hne' & Hk1)]; [cbn; lia|].
        apply (Hoth k t'' Hk (conj Hk1 Hk2)).
  - (* holding a fresh value: the instruction is IRetReg *)
    inversion Hi as [c Hout]; subst.
    assert (Hp : pending s i t) by (split; [exact Ei|rewrite Ec; exact Hi]).
    destruct (Hpend i t Hp) as (Hr & Hni & Hoth).
    unfold InvA, pending, ids; cbn [ag alk aths alog map snd].
    split; [|split; [exact Hg|split; [|split]]].
    + intros j t' Hj. apply nth_upd_cases in Hj. destruct Hj as [(-> & -> & _)|(Hne & Hj)]; cbn; eauto.
    + constructor; [exact Hr|exact Hle].
    + constructor; [exact Hni|exact Hnd].
    + intros j t' (Hj & Hin'). apply nth_upd_cases in Hj. destruct Hj as [(<- & -> & _)|(Hne & Hj)].
      * cbn in Hin'. exfalso. exact (a_out_not_in _ Hout Hin').
      * destruct (Hpend j t' (conj Hj Hin')) as (Hr' & Hni' & Hoth').
        split; [exact Hr'|split].
        -- intros [Heq|HIn]; [|exact (Hni' HIn)].
           apply (Hoth' i t); [congruence|exact Hp|]. exact Heq.
        -- intros k t'' Hk (Hk1 & Hk2). apply nth_upd_cases in Hk1.
           destruct Hk1 as [(<- & -> & _)|(Hne' & Hk1)].
           ++ cbn in Hk2. exfalso. exact (a_out_not_in _ Hout Hk2).
           ++ apply (Hoth' k t'' Hk (conj Hk1 Hk2)).
Qed.

Lemma ainit_InvA sk g0 counts : alloc_safeb sk = true -> InvA g0 (ainit sk g0 counts).
Proof.
  intros Hs. apply alloc_safeb_spec in Hs. subst sk.
  unfold InvA, pending, ids, ainit; cbn [ag alk aths alog map].
  assert (Hall : forall i t, nth_error (map (athread_of [IAtomicAdd; IRetReg]) counts) i = Some t ->
                             a_out (acode t)).
  { intros i t Hi. apply nth_error_In in Hi. apply in_map_iff in Hi. destruct Hi as (n & <- & _).
    apply a_out_repeat. }
  split; [|split; [lia|split; [constructor|split; [constructor|]]]].
  - intros i t Hi. left. eauto.
  - intros i t (Hi & Hin). exfalso. exact (a_out_not_in _ (Hall i t Hi) Hin).
Qed.

(* the generic interleaving theorem *)
Theorem atomic_unique sk g0 counts sched :
  alloc_safeb sk = true ->
  let s := arun (ainit sk g0 counts) sched in
  NoDup (ids s) /\ Forall (fun id => g0 < id <= ag s) (ids s).
Proof.
  intros Hs s.
  assert (H : InvA g0 s).
  { unfold s, arun. apply srun_invariant; [apply astep_InvA|]. now apply ainit_InvA. }
  destruct H as (_ & _ & Hle & Hnd & _). split; assumption.
Qed.

(* ------------------------------------------------------------------ witness search *)
Lemma nodupZb_complete l : NoDup l -> nodupZb l = true.
Proof.
  induction 1 as [|x l Hni Hnd IH]; cbn; [reflexivity|]. rewrite IH, andb_true_r.
  apply negb_true_iff. destruct (existsb (Z.eqb x) l) eqn:E; [|reflexivity].
  apply existsb_exists in E. destruct E as (y & Hy & Heq). apply Z.eqb_eq in Heq. subst. contradiction.
Qed.

Lemma dup_after_sound sk g0 sched :
  dup_after sk g0 sched = true -> ~ NoDup (ids (arun (ainit sk g0 [1%nat; 1%nat]) sched)).
Proof.
  unfold dup_after. intros H Hnd. apply nodupZb_complete in Hnd. rewrite Hnd in H. discriminate.
Qed.

Lemma find_cex_sound sk sched :
  find_cex sk = Some sched -> ~ NoDup (ids (arun (ainit sk 999 [1%nat; 1%nat]) sched)).
Proof. intros H. apply find_first_sound in H. now apply dup_after_sound. Qed.

(* ------------------------------------------------------------------ alias *)
Lemma alias_carries_source sk g cid : alias_context sk g (Some (Some cid)) = (g, Some cid).
Proof. reflexivity. Qed.

Lemma alias_without_source sk g src :
  src = None \/ src = Some None -> alias_context sk g src = alloc1 sk g.
Proof. intros [-> | ->]; reflexivity. Qed.

Lemma alloc1_atomic g : alloc1 [IAtomicAdd; IRetReg] g = (g + 1, Some (g + 1)).
Proof. reflexivity. Qed.

(* ------------------------------------------------------------------ lines *)
Lemma ends_nl_app_nl s : ends_nl (s ++ [nl]) = true.
Proof.
  induction s as [|x s IH]; [reflexivity|]. cbn [app]. cbn [ends_nl].
  destruct (s ++ [nl]) eqn:E; [destruct s; discriminate|]. exact IH.
Qed.

Lemma println_line_spec lvl ts pid c args :
  println_line lvl ts pid c args =
  label lvl ++ ts ++ [sp] ++ join_sp (pre_println pid c ++ args) ++ [nl].
Proof.
  unfold println_line, output, sprintln. rewrite ends_nl_app_nl, app_nil_r. reflexivity.
Qed.

Lemma printf_line_spec lvl ts pid c msg :
  ends_nl (pre_printf pid c ++ msg) = false ->
  printf_line lvl ts pid c msg = label lvl ++ ts ++ [sp] ++ pre_printf pid c ++ msg ++ [nl].
Proof.
  unfold printf_line, output. intros ->. cbn [app]. now rewrite <- app_assoc.
Qed.

Lemma ends_nl_app a b : b <> [] -> ends_nl (a ++ b) = ends_nl b.
Proof.
  intros Hb. induction a as [|x a IH]; [reflexivity|]. cbn [app]. cbn [ends_nl].
  destruct (a ++ b) eqn:E; [destruct a; [contradiction|discriminate]|]. exact IH.
Qed.

Lemma ends_nl_sp_false a : ends_nl (a ++ [sp]) = false.
Proof. rewrite ends_nl_app by discriminate. reflexivity. Qed.

(* a message that does not end in a newline gets exactly one; an empty message too *)
Lemma printf_line_spec' lvl ts pid c msg :
  ends_nl msg = false -> pre_printf pid c ++ msg <> [] ->
  printf_line lvl ts pid c msg = label lvl ++ ts ++ [sp] ++ pre_printf pid c ++ msg ++ [nl].
Proof.
  intros Hm Hne. apply printf_line_spec.
  destruct msg as [|m0 msg'].
  - rewrite app_nil_r in *. destruct c as [| |[|]|]; cbn [pre_printf] in *;
      try contradiction; try (rewrite !app_assoc; apply ends_nl_sp_false).
    all: try (repeat rewrite app_assoc; apply ends_nl_sp_false).
  - rewrite ends_nl_app by discriminate. exact Hm.
Qed.

(* every schedule: what each thread has written so far, followed by what it has still to
   write, is its program's sequence of lines -- every Write is one whole line of one call,
   per-thread order is kept, nothing is lost or written twice *)
Definition prog_of {A} (l : list (list A)) (i : nat) : list A :=
  match nth_error l i with Some p => p | None => [] end.
Definition written_by (i : nat) (w : list (nat * bytes)) : list bytes :=
  map snd (filter (fun e => Nat.eqb (fst e) i) w).

Lemma written_by_app i a b : written_by i (a ++ b) = written_by i a ++ written_by i b.
Proof. unfold written_by. now rewrite filter_app, map_app. Qed.

Definition InvL ts pid (progs : list (list lcall)) (s : lstate) : Prop :=
  forall i, written_by i (rev (lwrites s)) ++ map (call_line ts pid) (prog_of (lths s) i)
            = map (call_line ts pid) (prog_of progs i).

Lemma lstep_InvL ts pid progs s j : InvL ts pid progs s -> InvL ts pid progs (lstep ts pid s j).
Proof.
  intros H. unfold lstep. destruct (nth_error (lths s) j) as [[|c rest]|] eqn:Ej; try exact H.
  intros i. cbn [lths lwrites rev]. rewrite written_by_app. specialize (H i).
  unfold prog_of in *. destruct (Nat.eq_dec j i) as [->|Hne].
  - rewrite (nth_upd_same _ _ _ _ Ej). rewrite Ej in H. cbn [map] in H.
    unfold written_by at 2. cbn [filter fst]. rewrite Nat.eqb_refl. cbn [map snd].
    rewrite <- app_assoc. exact H.
  - rewrite nth_upd_other by exact Hne.
    unfold written_by at 2. cbn [filter fst]. apply Nat.eqb_neq in Hne. rewrite Hne. cbn [map].
    now rewrite app_nil_r.
Qed.

Theorem lines_whole ts pid progs sched i :
  let s := lrun ts pid {| lths := progs; lwrites := [] |} sched in
  written_by i (rev (lwrites s)) ++ map (call_line ts pid) (prog_of (lths s) i)
  = map (call_line ts pid) (prog_of progs i).
Proof.
  intros s. revert i. change (InvL ts pid progs s). unfold s, lrun.
  apply srun_invariant; [intros; now apply lstep_InvL|]. intros i. reflexivity.
Qed.

(* every Write is the line of some call of the program of the thread that wrote it *)
Theorem every_write_is_a_line ts pid progs sched t w :
  let s := lrun ts pid {| lths := progs; lwrites := [] |} sched in
  In (t, w) (lwrites s) -> exists c, In c (prog_of progs t) /\ w = call_line ts pid c.
Proof.
  intros s Hin. pose proof (lines_whole ts pid progs sched t) as H. fold s in H.
  assert (Hw : In w (written_by t (rev (lwrites s)))).
  { unfold written_by. apply in_map_iff. exists (t, w). split; [reflexivity|].
    apply filter_In. split; [now apply in_rev in Hin|]. cbn. apply Nat.eqb_refl. }
  assert (Hw2 : In w (map (call_line ts pid) (prog_of progs t))).
  { rewrite <- H. apply in_or_app. now left. }
  apply in_map_iff in Hw2. destruct Hw2 as (c & <- & Hc). eauto.
Qed.
