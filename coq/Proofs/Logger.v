(* Proofs for Model/Logger.v (C18). *)
From Coq Require Import String Ascii.
From Verif Require Import Gen.Gen_logger.
From Verif Require Import Lib.Base Lib.Sx Lib.Sched Model.Logger.
Import List ListNotations.
Open Scope Z_scope.

(* ------------------------------------------------------------------ allocation: atomic *)
(* remaining code of a thread that allocates with [IAtomicAdd; IRetReg]: between allocations
   (a_out) or holding a fresh value in its register that it has not returned yet (a_in) *)
Inductive a_out : list ainstr -> Prop :=
| ao_nil : a_out []
| ao_add c : a_in c -> a_out (IAtomicAdd :: c)
with a_in : list ainstr -> Prop :=
| ai_ret c : a_out c -> a_in (IRetReg :: c).

Lemma a_out_not_in c : a_out c -> ~ a_in c.
Proof. intros Ho Hi. inversion Ho; subst; inversion Hi. Qed.

Lemma alloc_safeb_spec sk : alloc_safeb sk = true -> sk = [IAtomicAdd; IRetReg].
Proof.
  destruct sk as [|[] [|[] [|]]]; cbn; intros H; try discriminate; reflexivity.
Qed.

Lemma a_out_repeat n : a_out (concat (repeat [IAtomicAdd; IRetReg] n)).
Proof. induction n as [|n IH]; cbn; [constructor|]. constructor. constructor. exact IH. Qed.

Definition pending (s : astate) (i : nat) (t : athread) : Prop :=
  nth_error (aths s) i = Some t /\ a_in (acode t).

Definition InvA (g0 : Z) (s : astate) : Prop :=
  (forall i t, nth_error (aths s) i = Some t -> a_out (acode t) \/ a_in (acode t)) /\
  g0 <= ag s /\
  Forall (fun id => g0 < id <= ag s) (ids s) /\
  NoDup (ids s) /\
  (forall i t, pending s i t ->
     g0 < areg t <= ag s /\ ~ In (areg t) (ids s) /\
     (forall j t', j <> i -> pending s j t' -> areg t' <> areg t)).

Lemma astep_InvA g0 s i : InvA g0 s -> InvA g0 (astep s i).
Proof.
  intros Hinv. pose proof Hinv as (Hshape & Hg & Hle & Hnd & Hpend). unfold astep.
  destruct (nth_error (aths s) i) as [t|] eqn:Ei; [|exact Hinv].
  destruct (acode t) as [|ins rest] eqn:Ec; [exact Hinv|].
  destruct (Hshape i t Ei) as [Ho|Hi]; rewrite Ec in *.
  - (* between allocations: the instruction is IAtomicAdd *)
    inversion Ho as [|c Hin]; subst.
    unfold InvA, pending, ids; cbn [ag alk aths alog].
    split; [|split; [lia|split; [|split; [exact Hnd|]]]].
    + intros j t' Hj. apply nth_upd_cases in Hj. destruct Hj as [(-> & -> & _)|(Hne & Hj)]; cbn; eauto.
    + eapply Forall_impl; [|exact Hle]. cbn; intros; lia.
    + intros j t' (Hj & Hin'). apply nth_upd_cases in Hj. destruct Hj as [(<- & -> & _)|(Hne & Hj)].
      * cbn [areg]. split; [lia|split].
        -- intro HIn. eapply Forall_forall in Hle; [|exact HIn]. cbn in Hle. lia.
        -- intros k t'' Hk (Hk1 & Hk2). rewrite nth_upd_other in Hk1 by congruence.
           destruct (Hpend k t'' (conj Hk1 Hk2)) as (Hr & _). lia.
      * destruct (Hpend j t' (conj Hj Hin')) as (Hr & Hni & Hoth).
        split; [lia|split; [exact Hni|]].
        intros k t'' Hk (Hk1 & Hk2). apply nth_upd_cases in Hk1.
        destruct Hk1 as [(<- & -> & _)|(Hne' & Hk1)]; [cbn; lia|].
        apply (Hoth k t'' Hk (conj Hk1 Hk2)).
  - (* holding a fresh value: the instruction is IRetReg *)
    inversion Hi as [c Hout]; subst.
    assert (Hp : pending s i t) by (split; [exact Ei|rewrite Ec; exact Hi]).
    destruct (Hpend i t Hp) as (Hr & Hni & Hoth).
    unfold InvA, pending, ids; cbn [ag alk aths alog map snd].
    split; [|split; [exact Hg|split; [|split]]].
    + intros j t' Hj. apply nth_upd_cases in Hj. destruct Hj as [(-> & -> & _)|(Hne & Hj)]; cbn; eauto.
    + constructor; [exact Hr|exact Hle].
    + constructor; [exact Hni|exact Hnd].
    + intros j t' (Hj & Hin'). apply nth_upd_cases in Hj. destruct Hj as [(<- & -> & _)|(Hne & Hj)].
      * cbn in Hin'. exfalso. exact (a_out_not_in _ Hout Hin').
      * destruct (Hpend j t' (conj Hj Hin')) as (Hr' & Hni' & Hoth').
        split; [exact Hr'|split].
        -- intros [Heq|HIn]; [|exact (Hni' HIn)].
           apply (Hoth' i t); [congruence|exact Hp|]. exact Heq.
        -- intros k t'' Hk (Hk1 & Hk2). apply nth_upd_cases in Hk1.
           destruct Hk1 as [(<- & -> & _)|(Hne' & Hk1)].
           ++ cbn in Hk2. exfalso. exact (a_out_not_in _ Hout Hk2).
           ++ apply (Hoth' k t'' Hk (conj Hk1 Hk2)).
Qed.

Lemma ainit_InvA sk g0 counts : alloc_safeb sk = true -> InvA g0 (ainit sk g0 counts).
Proof.
  intros Hs. apply alloc_safeb_spec in Hs. subst sk.
  unfold InvA, pending, ids, ainit; cbn [ag alk aths alog map].
  assert (Hall : forall i t, nth_error (map (athread_of [IAtomicAdd; IRetReg]) counts) i = Some t ->
                             a_out (acode t)).
  { intros i t Hi. apply nth_error_In in Hi. apply in_map_iff in Hi. destruct Hi as (n & <- & _).
    apply a_out_repeat. }
  split; [|split; [lia|split; [constructor|split; [constructor|]]]].
  - intros i t Hi. left. eauto.
  - intros i t (Hi & Hin). exfalso. exact (a_out_not_in _ (Hall i t Hi) Hin).
Qed.

(* the generic interleaving theorem *)
Theorem atomic_unique sk g0 counts sched :
  alloc_safeb sk = true ->
  let s := arun (ainit sk g0 counts) sched in
  NoDup (ids s) /\ Forall (fun id => g0 < id <= ag s) (ids s).
Proof.
  intros Hs s.
  assert (H : InvA g0 s).
  { unfold s, arun. apply srun_invariant; [apply astep_InvA|]. now apply ainit_InvA. }
  destruct H as (_ & _ & Hle & Hnd & _). split; assumption.
Qed.

(* ------------------------------------------------------------------ witness search *)
Lemma nodupZb_complete l : NoDup l -> nodupZb l = true.
Proof.
  induction 1 as [|x l Hni Hnd IH]; cbn; [reflexivity|]. rewrite IH, andb_true_r.
  apply negb_true_iff. destruct (existsb (Z.eqb x) l) eqn:E; [|reflexivity].
  apply existsb_exists in E. destruct E as (y & Hy & Heq). apply Z.eqb_eq in Heq. subst. contradiction.
Qed.

Lemma dup_after_sound sk g0 sched :
  dup_after sk g0 sched = true -> ~ NoDup (ids (arun (ainit sk g0 [1%nat; 1%nat]) sched)).
Proof.
  unfold dup_after. intros H Hnd. apply nodupZb_complete in Hnd. rewrite Hnd in H. discriminate.
Qed.

Lemma find_cex_sound sk sched :
  find_cex sk = Some sched -> ~ NoDup (ids (arun (ainit sk 999 [1%nat; 1%nat]) sched)).
Proof. intros H. apply find_first_sound in H. now apply dup_after_sound. Qed.

(* ------------------------------------------------------------------ alias *)
Lemma alias_carries_source sk g cid : alias_context sk g (Some (Some cid)) = (g, Some cid).
Proof. reflexivity. Qed.

Lemma alias_without_source sk g src :
  src = None \/ src = Some None -> alias_context sk g src = alloc1 sk g.
Proof. intros [-> | ->]; reflexivity. Qed.

Lemma alloc1_atomic g : alloc1 [IAtomicAdd; IRetReg] g = (g + 1, Some (g + 1)).
Proof. reflexivity. Qed.

(* ------------------------------------------------------------------ lines *)
Lemma ends_nl_app_nl s : ends_nl (s ++ [nl]) = true.
Proof.
  induction s as [|x s IH]; [reflexivity|]. cbn [app]. cbn [ends_nl].
  destruct (s ++ [nl]) eqn:E; [destruct s; discriminate|]. exact IH.
Qed.

Lemma println_line_spec lvl ts pid c args :
  println_line lvl ts pid c args =
  label lvl ++ ts ++ [sp] ++ join_sp (pre_println pid c ++ args) ++ [nl].
Proof.
  unfold println_line, output, sprintln. rewrite ends_nl_app_nl, app_nil_r. reflexivity.
Qed.

Lemma printf_line_spec lvl ts pid c msg :
  ends_nl (pre_printf pid c ++ msg) = false ->
  printf_line lvl ts pid c msg = label lvl ++ ts ++ [sp] ++ pre_printf pid c ++ msg ++ [nl].
Proof.
  unfold printf_line, output. intros ->. cbn [app]. now rewrite <- app_assoc.
Qed.

Lemma ends_nl_app a b : b <> [] -> ends_nl (a ++ b) = ends_nl b.
Proof.
  intros Hb. induction a as [|x a IH]; [reflexivity|]. cbn [app]. cbn [ends_nl].
  destruct (a ++ b) eqn:E; [destruct a; [contradiction|discriminate]|]. exact IH.
Qed.

Lemma ends_nl_sp_false a : ends_nl (a ++ [sp]) = false.
Proof. rewrite ends_nl_app by discriminate. reflexivity. Qed.

(* a message that does not end in a newline gets exactly one; an empty message too *)
Lemma printf_line_spec' lvl ts pid c msg :
  ends_nl msg = false -> pre_printf pid c ++ msg <> [] ->
  printf_line lvl ts pid c msg = label lvl ++ ts ++ [sp] ++ pre_printf pid c ++ msg ++ [nl].
Proof.
  intros Hm Hne. apply printf_line_spec.
  destruct msg as [|m0 msg'].
  - rewrite app_nil_r in *. destruct c as [| |[|]|]; cbn [pre_printf] in *;
      try contradiction; try (rewrite !app_assoc; apply ends_nl_sp_false).
    all: try (repeat rewrite app_assoc; apply ends_nl_sp_false).
  - rewrite ends_nl_app by discriminate. exact Hm.
Qed.

(* every schedule: what each thread has written so far, followed by what it has still to
   write, is its program's sequence of lines -- every Write is one whole line of one call,
   per-thread order is kept, nothing is lost or written twice *)
Definition prog_of {A} (l : list (list A)) (i : nat) : list A :=
  match nth_error l i with Some p => p | None => [] end.
Definition written_by (i : nat) (w : list (nat * bytes)) : list bytes :=
  map snd (filter (fun e => Nat.eqb (fst e) i) w).

Lemma written_by_app i a b : written_by i (a ++ b) = written_by i a ++ written_by i b.
Proof. unfold written_by. now rewrite filter_app, map_app. Qed.

Definition InvL ts pid (progs : list (list lcall)) (s : lstate) : Prop :=
  forall i, written_by i (rev (lwrites s)) ++ map (call_line ts pid) (prog_of (lths s) i)
            = map (call_line ts pid) (prog_of progs i).

Lemma lstep_InvL ts pid progs s j : InvL ts pid progs s -> InvL ts pid progs (lstep ts pid s j).
Proof.
  intros H. unfold lstep. destruct (nth_error (lths s) j) as [[|c rest]|] eqn:Ej; try exact H.
  intros i. cbn [lths lwrites rev]. rewrite written_by_app. specialize (H i).
  unfold prog_of in *. destruct (Nat.eq_dec j i) as [->|Hne].
  - rewrite (nth_upd_same _ _ _ _ Ej). rewrite Ej in H. cbn [map] in H.
    unfold written_by at 2. cbn [filter fst]. rewrite Nat.eqb_refl. cbn [map snd].
    rewrite <- app_assoc. exact H.
  - rewrite nth_upd_other by exact Hne.
    unfold written_by at 2. cbn [filter fst]. apply Nat.eqb_neq in Hne. rewrite Hne. cbn [map].
    now rewrite app_nil_r.
Qed.

Theorem lines_whole ts pid progs sched i :
  let s := lrun ts pid {| lths := progs; lwrites := [] |} sched in
  written_by i (rev (lwrites s)) ++ map (call_line ts pid) (prog_of (lths s) i)
  = map (call_line ts pid) (prog_of progs i).
Proof.
  intros s. revert i. change (InvL ts pid progs s). unfold s, lrun.
  apply srun_invariant; [intros; now apply lstep_InvL|]. intros i. reflexivity.
Qed.

(* every Write is the line of some call of the program of the thread that wrote it *)
Theorem every_write_is_a_line ts pid progs sched t w :
  let s := lrun ts pid {| lths := progs; lwrites := [] |} sched in
  In (t, w) (lwrites s) -> exists c, In c (prog_of progs t) /\ w = call_line ts pid c.
Proof.
  intros s Hin. pose proof (lines_whole ts pid progs sched t) as H. fold s in H.
  assert (Hw : In w (written_by t (rev (lwrites s)))).
  { unfold written_by. apply in_map_iff. exists (t, w). split; [reflexivity|].
    apply filter_In. split; [now apply in_rev in Hin|]. cbn. apply Nat.eqb_refl. }
  assert (Hw2 : In w (map (call_line ts pid) (prog_of progs t))).
  { rewrite <- H. apply in_or_app. now left. }
  apply in_map_iff in Hw2. destruct Hw2 as (c & <- & Hc). eauto.
Qed.

(* ------------------------------------------------------------------ allocation: inside one lock region *)
Definition locked1 : list ainstr := [ILock; ILoad; IStoreInc; IRetLoad; IUnlock].
Definition locked2 : list ainstr := [ILock; ILoad; IStoreInc; ILoad; IRetReg; IUnlock].

(* remaining code: outside the region / at the first load / at the store / after the store (the
   counter is fresh) / at the register return of the second form / at the unlock *)
Inductive k_out : list ainstr -> Prop :=
| ko_nil : k_out []
| ko_lock c : k_load c -> k_out (ILock :: c)
with k_load : list ainstr -> Prop :=
| kl c : k_store c -> k_load (ILoad :: c)
with k_store : list ainstr -> Prop :=
| ks c : k_fresh c -> k_store (IStoreInc :: c)
with k_fresh : list ainstr -> Prop :=
| kf_retload c : k_unlock c -> k_fresh (IRetLoad :: c)
| kf_load c : k_retreg c -> k_fresh (ILoad :: c)
with k_retreg : list ainstr -> Prop :=
| kr c : k_unlock c -> k_retreg (IRetReg :: c)
with k_unlock : list ainstr -> Prop :=
| ku c : k_out c -> k_unlock (IUnlock :: c).

Definition k_in (c : list ainstr) : Prop := k_load c \/ k_store c \/ k_fresh c \/ k_retreg c \/ k_unlock c.

Lemma k_out_repeat1 n : k_out (concat (repeat locked1 n)).
Proof. induction n as [|n IH]; cbn; [constructor|]. repeat constructor. exact IH. Qed.
Lemma k_out_repeat2 n : k_out (concat (repeat locked2 n)).
Proof.
  induction n as [|n IH]; cbn; [constructor|].
  apply ko_lock, kl, ks, kf_load, kr, ku. exact IH.
Qed.

Definition InvK (g0 : Z) (s : astate) : Prop :=
  (forall i t, nth_error (aths s) i = Some t ->
     (k_out (acode t) /\ alk s <> Some i) \/
     (alk s = Some i /\
      (k_load (acode t) \/ (k_store (acode t) /\ areg t = ag s) \/
       (k_fresh (acode t) /\ g0 < ag s /\ Forall (fun id => id < ag s) (ids s)) \/
       (k_retreg (acode t) /\ areg t = ag s /\ g0 < ag s /\ Forall (fun id => id < ag s) (ids s)) \/
       k_unlock (acode t)))) /\
  g0 <= ag s /\
  Forall (fun id => g0 < id <= ag s) (ids s) /\
  NoDup (ids s).

Lemma astep_InvK g0 s i : InvK g0 s -> InvK g0 (astep s i).
Proof.
  intros Hinv. pose proof Hinv as (Hthr & Hg & Hle & Hnd). unfold astep.
  destruct (nth_error (aths s) i) as [t|] eqn:Ei; [|exact Hinv].
  destruct (acode t) as [|ins rest] eqn:Ec; [exact Hinv|].
  (* when the lock is free or with thread i, every other thread is outside the region *)
  assert (Hout : alk s = None \/ alk s = Some i ->
                 forall j tj, j <> i -> nth_error (aths s) j = Some tj -> k_out (acode tj)).
  { intros Hl j tj Hne Hj. destruct (Hthr j tj Hj) as [(Ho & _)|(Hh & _)]; [exact Ho|].
    destruct Hl as [E|E]; congruence. }
  destruct (Hthr i t Ei) as [(Ho & Hn)|(Hh & Hst)]; rewrite Ec in *.
  - (* outside: the instruction is ILock *)
    inversion Ho as [|c Hl]; subst. destruct (alk s) as [h|] eqn:El; [exact Hinv|].
    unfold InvK, ids; cbn [ag alk aths alog].
    split; [|split; [exact Hg|split; [exact Hle|exact Hnd]]].
    intros j tj Hj. apply nth_upd_cases in Hj. destruct Hj as [(<- & -> & _)|(Hne & Hj)].
    + right. cbn. auto.
    + left. split; [apply (Hout (or_introl eq_refl) j tj); congruence|congruence].
  - (* holder *)
    assert (Hothers : forall lk' j tj, j <> i -> nth_error (aths s) j = Some tj ->
                      (lk' = Some i \/ lk' = None) -> k_out (acode tj) /\ lk' <> Some j).
    { intros lk' j tj Hne Hj Hl. split; [apply (Hout (or_intror Hh) j tj Hne Hj)|].
      destruct Hl as [-> | ->]; congruence. }
    destruct Hst as [Hl|[(Hs & Hr)|[(Hf & Hgt & Hlt)|[(Hrr & Hr & Hgt & Hlt)|Hu]]]].
    + (* first load *)
      inversion Hl as [c Hs]; subst.
      unfold InvK, ids; cbn [ag alk aths alog].
      split; [|split; [exact Hg|split; [exact Hle|exact Hnd]]].
      intros j tj Hj. apply nth_upd_cases in Hj. destruct Hj as [(<- & -> & _)|(Hne & Hj)].
      * right. cbn. split; [exact Hh|]. right; left. auto.
      * left. apply Hothers; auto; congruence.
    + (* store: the counter moves above every id *)
      inversion Hs as [c Hf]; subst.
      unfold InvK, ids; cbn [ag alk aths alog].
      split; [|split; [lia|split; [|exact Hnd]]].
      * intros j tj Hj. apply nth_upd_cases in Hj. destruct Hj as [(<- & -> & _)|(Hne & Hj)].
        -- right. cbn. split; [exact Hh|]. right; right; left. split; [exact Hf|]. split; [lia|].
           eapply Forall_impl; [|exact Hle]. cbn. intros; lia.
        -- left. apply Hothers; auto; congruence.
      * eapply Forall_impl; [|exact Hle]. cbn. intros; lia.
    + (* counter fresh: return it, or load it first *)
      inversion Hf as [c Hu|c Hrr]; subst.
      * unfold InvK, ids; cbn [ag alk aths alog map snd].
        split; [|split; [exact Hg|split; [|]]].
        -- intros j tj Hj. apply nth_upd_cases in Hj. destruct Hj as [(<- & -> & _)|(Hne & Hj)].
           ++ right. cbn. split; [exact Hh|]. right; right; right; right. exact Hu.
           ++ left. apply Hothers; auto; congruence.
        -- constructor; [lia|exact Hle].
        -- constructor; [|exact Hnd]. intros Hin. eapply Forall_forall in Hlt; [|exact Hin]. cbn in Hlt. lia.
      * unfold InvK, ids; cbn [ag alk aths alog].
        split; [|split; [exact Hg|split; [exact Hle|exact Hnd]]].
        intros j tj Hj. apply nth_upd_cases in Hj. destruct Hj as [(<- & -> & _)|(Hne & Hj)].
        -- right. cbn. split; [exact Hh|]. right; right; right; left. auto.
        -- left. apply Hothers; auto; congruence.
    + (* return the loaded value *)
      inversion Hrr as [c Hu]; subst.
      unfold InvK, ids; cbn [ag alk aths alog map snd].
      split; [|split; [exact Hg|split; [|]]].
      * intros j tj Hj. apply nth_upd_cases in Hj. destruct Hj as [(<- & -> & _)|(Hne & Hj)].
        -- right. cbn. split; [exact Hh|]. right; right; right; right. exact Hu.
        -- left. apply Hothers; auto; congruence.
      * constructor; [lia|exact Hle].
      * constructor; [|exact Hnd]. rewrite Hr. intros Hin. eapply Forall_forall in Hlt; [|exact Hin]. cbn in Hlt. lia.
    + (* unlock *)
      inversion Hu as [c Ho]; subst.
      unfold InvK, ids; cbn [ag alk aths alog].
      split; [|split; [exact Hg|split; [exact Hle|exact Hnd]]].
      intros j tj Hj. apply nth_upd_cases in Hj. destruct Hj as [(<- & -> & _)|(Hne & Hj)].
      * left. cbn. split; [exact Ho|discriminate].
      * left. apply Hothers; auto; congruence.
Qed.

Lemma lock_safeb_spec sk : lock_safeb sk = true -> sk = locked1 \/ sk = locked2.
Proof.
  unfold lock_safeb, locked1, locked2. intros H.
  destruct sk as [|[] sk]; try discriminate. destruct sk as [|[] sk]; try discriminate.
  destruct sk as [|[] sk]; try discriminate. destruct sk as [|[] sk]; try discriminate.
  - destruct sk as [|[] sk]; try discriminate. destruct sk as [|[] sk]; try discriminate.
    destruct sk; [auto|discriminate].
  - destruct sk as [|[] sk]; try discriminate. destruct sk; [auto|discriminate].
Qed.

Lemma ainit_InvK sk g0 counts : lock_safeb sk = true -> InvK g0 (ainit sk g0 counts).
Proof.
  intros Hs. unfold InvK, ids, ainit; cbn [ag alk aths alog map].
  split; [|split; [lia|split; constructor]].
  intros i t Hi. left. split; [|discriminate].
  apply nth_error_In in Hi. apply in_map_iff in Hi. destruct Hi as (n & <- & _). cbn.
  destruct (lock_safeb_spec _ Hs) as [-> | ->]; [apply k_out_repeat1|apply k_out_repeat2].
Qed.

Theorem locked_unique sk g0 counts sched :
  lock_safeb sk = true ->
  let s := arun (ainit sk g0 counts) sched in
  NoDup (ids s) /\ Forall (fun id => g0 < id <= ag s) (ids s).
Proof.
  intros Hs s.
  assert (H : InvK g0 s).
  { unfold s, arun. apply srun_invariant; [apply astep_InvK|]. now apply ainit_InvK. }
  destruct H as (_ & _ & Hle & Hnd). split; assumption.
Qed.

Theorem alloc_unique sk g0 counts sched :
  alloc_okb sk = true ->
  let s := arun (ainit sk g0 counts) sched in
  NoDup (ids s) /\ Forall (fun id => g0 < id <= ag s) (ids s).
Proof.
  unfold alloc_okb. intros H. apply orb_true_iff in H. destruct H as [H|H].
  - now apply atomic_unique.
  - now apply locked_unique.
Qed.

(* ------------------------------------------------------------------ context chains *)
(* WithContext over ANY parent chain yields the freshly allocated id -- never the parent's *)
Lemma with_context_chain_fresh g parent :
  with_context_chain [IAtomicAdd; IRetReg] g parent = (g + 1, Some (g + 1) :: parent) /\
  chain_id (snd (with_context_chain [IAtomicAdd; IRetReg] g parent)) = Some (g + 1).
Proof. split; reflexivity. Qed.

Lemma derive_chain_id parent : chain_id (derive_chain parent) = chain_id parent.
Proof. reflexivity. Qed.

Lemma alias_chain_spec g parent source :
  (forall sc cid, source = Some sc -> chain_id sc = Some cid ->
     alias_chain [IAtomicAdd; IRetReg] g parent source = (g, Some cid :: parent)) /\
  ((source = None \/ exists sc, source = Some sc /\ chain_id sc = None) ->
     chain_id (snd (alias_chain [IAtomicAdd; IRetReg] g parent source)) = Some (g + 1)).
Proof.
  split.
  - intros sc cid -> H. unfold alias_chain. now rewrite H.
  - intros [-> |(sc & -> & H)]; unfold alias_chain; [reflexivity|now rewrite H].
Qed.

(* ------------------------------------------------------------------ shared operand slices *)
(* formatting is a function of (context, operands) only and hands the operands back unchanged: for
   every history of calls spreading the same operand list, call k's line is call_line of call k's
   level/function/context and THE operands -- whatever was logged before -- and the list is the
   same afterwards *)
Theorem format_pure ts pid args cs :
  log_history ts pid args cs =
  (map (fun c => let '(lvl, fn, cx) := c in
                 call_line ts pid {| l_lvl := lvl; l_fn := fn; l_ctx := cx; l_args := args |}) cs, args).
Proof.
  induction cs as [|[[lvl fn] cx] r IH]; [reflexivity|]. cbn [log_history format_step map].
  now rewrite IH.
Qed.

(* ------------------------------------------------------------------ Switch / Close *)
Lemma wm_state_snoc ts pid st ops op :
  wm_state ts pid st (ops ++ [op]) = fst (fst (wm_step ts pid (wm_state ts pid st ops) op)).
Proof. revert st. induction ops as [|o r IH]; intros st; cbn; [reflexivity|apply IH]. Qed.

Lemma wm_writes_snoc ts pid st ops op :
  wm_writes ts pid st (ops ++ [op]) =
  wm_writes ts pid st ops ++ snd (fst (wm_step ts pid (wm_state ts pid st ops) op)).
Proof.
  revert st. induction ops as [|o r IH]; intros st; cbn [app wm_writes wm_state].
  - now rewrite app_nil_r.
  - rewrite IH. now rewrite app_assoc.
Qed.

(* after ANY history, a logging call appends exactly its line to the writer that is current at
   that time -- or nothing when the package is closed or the level is Info *)
Theorem log_goes_to_current ts pid st ops c :
  wm_writes ts pid st (ops ++ [MLog c]) =
  wm_writes ts pid st ops ++
  (if lvl_live (l_lvl c) then
     match w_cur (wm_state ts pid st ops) with Some w => [(w, call_line ts pid c)] | None => [] end
   else []).
Proof. rewrite wm_writes_snoc. reflexivity. Qed.

(* after ANY history, Switch(w) makes w the current writer (also when w was installed before, also
   right after Close) and writes nothing; Close makes the package silent *)
Theorem switch_sets_current ts pid st ops w :
  w_cur (wm_state ts pid st (ops ++ [MSwitch w])) = Some w /\
  wm_writes ts pid st (ops ++ [MSwitch w]) = wm_writes ts pid st ops.
Proof. rewrite wm_state_snoc, wm_writes_snoc. cbn. now rewrite app_nil_r. Qed.

Theorem close_silences ts pid st ops :
  w_cur (wm_state ts pid st (ops ++ [MClose])) = None /\
  wm_writes ts pid st (ops ++ [MClose]) = wm_writes ts pid st ops.
Proof. rewrite wm_state_snoc, wm_writes_snoc. cbn. now rewrite app_nil_r. Qed.

(* logging does not change the writer state *)
Lemma log_keeps_state ts pid st ops c :
  wm_state ts pid st (ops ++ [MLog c]) = wm_state ts pid st ops.
Proof. rewrite wm_state_snoc. reflexivity. Qed.

Local Open Scope N_scope.
(* ------------------------------------------------------------------ decimal rendering *)
Fixpoint pow10 (k : nat) : N := match k with O => 1 | S k' => 10 * pow10 k' end.
(* value of a digit string: (value, 10^length) *)
Fixpoint rval (l : bytes) : N * N :=
  match l with
  | [] => (0, 1)
  | d :: r => let (v, p) := rval r in (v + (d - 48) * p, p * 10)
  end.
Definition is_digit (d : N) : Prop := 48 <= d <= 57.

Lemma digits_val fuel : forall n acc, n < pow10 fuel ->
  fst (rval (digits fuel n acc)) = fst (rval acc) + n * snd (rval acc).
Proof.
  induction fuel as [|f IH]; intros n acc Hn; cbn [digits].
  - cbn in Hn. assert (n = 0) by lia. subst. lia.
  - destruct (n <? 10) eqn:E.
    + cbn [rval]. destruct (rval acc) as [v p]. cbn [fst snd]. lia.
    + apply N.ltb_ge in E. rewrite IH.
      * cbn [rval]. destruct (rval acc) as [v p]. cbn [fst snd].
        pose proof (N.div_mod n 10 ltac:(lia)) as Hdm. 
        replace (48 + n mod 10 - 48) with (n mod 10) by lia.
        rewrite Hdm at 3. lia.
      * cbn [pow10] in Hn. apply N.div_lt_upper_bound; lia.
Qed.

Lemma digits_are_digits fuel : forall n acc, Forall is_digit acc -> Forall is_digit (digits fuel n acc).
Proof.
  induction fuel as [|f IH]; intros n acc Ha; cbn [digits]; [exact Ha|].
  destruct (n <? 10) eqn:E.
  - apply N.ltb_lt in E. constructor; [unfold is_digit; lia|exact Ha].
  - apply IH. constructor; [|exact Ha]. unfold is_digit. pose proof (N.mod_lt n 10 ltac:(lia)). lia.
Qed.

Lemma pos_lt_pow10 p : Npos p < pow10 (S (Pos.size_nat p)).
Proof.
  induction p as [p IH|p IH|]; cbn [Pos.size_nat pow10] in *; lia.
Qed.

(* fmt's %v of a non-negative int: decimal digits only, most significant first, value preserved *)
Theorem dec_nonneg z : (0 <= z)%Z ->
  Forall is_digit (dec z) /\ fst (rval (dec z)) = Z.to_N z.
Proof.
  intros Hz. destruct z as [|p|p]; [| |lia].
  - cbn. split; [repeat constructor; unfold is_digit; lia|reflexivity].
  - unfold dec. split; [apply digits_are_digits; constructor|].
    rewrite digits_val; [cbn; lia|]. apply pos_lt_pow10.
Qed.

Theorem dec_neg p : dec (Zneg p) = 45 :: dec (Zpos p).
Proof. reflexivity. Qed.
