(* C17 proofs, part 4: stripping a decorated document gives the undecorated text, byte for byte. *)
From Verif Require Import Lib.Base Lib.Sx Gen.Gen_json Model.JsonPlus.
From Verif Require Import Proofs.JsonPlusIndex Proofs.JsonPlusSplit Proofs.JsonPlusScan.
Open Scope N_scope.

(* ---- small list facts ---- *)
Lemma firstn_len_app {A} (a b : list A) : firstn (length a) (a ++ b) = a.
Proof. rewrite firstn_app, Nat.sub_diag, firstn_all. cbn. now rewrite app_nil_r. Qed.
Lemma skipn_len_app {A} (a b : list A) : skipn (length a) (a ++ b) = b.
Proof. rewrite skipn_app, Nat.sub_diag, skipn_all. reflexivity. Qed.

Lemma flat_push tok out : flat (push tok out) = flat out ++ tok.
Proof.
  unfold flat, push. destruct tok as [|t tok]; [now rewrite app_nil_r|].
  cbn [rev]. rewrite concat_app. cbn [concat]. now rewrite app_nil_r.
Qed.

(* ---- runs contain no marker byte ---- *)
Lemma run_ok_notin pre c : run_ok pre = true -> (c = quote \/ c = apos \/ c = slash) -> ~ In c pre.
Proof.
  unfold run_ok. intros H Hc Hin. rewrite forallb_forall in H. specialize (H _ Hin).
  destruct Hc as [-> | [-> | ->]]; cbn in H; discriminate.
Qed.

Lemma run_ok_app a b : run_ok a = true -> run_ok b = true -> run_ok (a ++ b) = true.
Proof. unfold run_ok. intros. rewrite forallb_app. now rewrite H, H0. Qed.

Lemma fm_run_none pre : run_ok pre = true -> first_match pre start_matches = None.
Proof.
  intros H. apply fm_is. cbn. intros j m Hn.
  destruct (start_hd _ _ Hn) as (c & Hh & Hc).
  pose proof (index_skip_run m c pre [] Hh (run_ok_notin _ _ H Hc)) as E. rewrite app_nil_r in E. rewrite E.
  rewrite index_nil. destruct m; [discriminate|]. reflexivity.
Qed.

Lemma fm_after_run pre x i :
  run_ok pre = true -> (i < 4)%nat -> is_prefix (mk_sm i) x = true ->
  (forall j m, nth_error start_matches j = Some m -> is_prefix m x = true -> (i <= j)%nat) ->
  first_match (pre ++ x) start_matches = Some (lenN pre, i).
Proof.
  intros Hr Hi Hp Hmin. destruct (marker_lens i Hi) as (Hn & _ & _).
  apply fm_is. split.
  - exists (mk_sm i). split; [auto|]. destruct (start_hd _ _ Hn) as (c & Hh & Hc).
    rewrite (index_skip_run _ c pre x Hh (run_ok_notin _ _ Hr Hc)), (index_prefix0 _ _ Hp). cbn. f_equal. lia.
  - intros j m q Hnj Hq. destruct (start_hd _ _ Hnj) as (c & Hh & Hc).
    rewrite (index_skip_run _ c pre x Hh (run_ok_notin _ _ Hr Hc)) in Hq.
    destruct (index m x) as [q'|] eqn:Eq; [|discriminate]. cbn in Hq. apply Some_inj in Hq. subst q.
    destruct (N.eq_dec q' 0) as [->|Hnz].
    + right. split; [lia|]. apply (Hmin j m Hnj). now apply index_zero.
    + left. lia.
Qed.

(* ---- one marker region after a run ---- *)
Lemma split_marker pre i body rest e :
  run_ok pre = true -> (i < 4)%nat ->
  (forall j m, nth_error start_matches j = Some m ->
               is_prefix m (mk_sm i ++ body ++ mk_em i ++ rest) = true -> (i <= j)%nat) ->
  index_end (body ++ mk_em i ++ rest) (mk_em i) (negb (mk_isc i)) = Some (lenN body) ->
  split (pre ++ mk_sm i ++ body ++ mk_em i ++ rest) e =
    Ok (Tok (Z.of_nat (length (pre ++ mk_sm i ++ body ++ mk_em i)))
            (if mk_isc i then pre else pre ++ mk_sm i ++ body ++ mk_em i)).
Proof.
  intros Hr Hi Hmin Hend.
  pose proof (fm_after_run pre (mk_sm i ++ body ++ mk_em i ++ rest) i Hr Hi (is_prefix_self _ _) Hmin) as F.
  rewrite (split_some _ e _ _ F).
  assert (Hsk : skipn (N.to_nat (lenN pre) + length (mk_sm i)) (pre ++ mk_sm i ++ body ++ mk_em i ++ rest)
                = body ++ mk_em i ++ rest).
  { rewrite app_assoc. replace (N.to_nat (lenN pre) + length (mk_sm i))%nat with (length (pre ++ mk_sm i))
      by (rewrite app_length, lenN_spec; lia). apply skipn_len_app. }
  rewrite Hsk, Hend. f_equal. f_equal.
  - rewrite !lenZ_spec, !lenN_spec, !app_length. lia.
  - destruct (mk_isc i).
    + replace (N.to_nat (lenN pre)) with (length pre) by (rewrite lenN_spec; lia). apply firstn_len_app.
    + replace (N.to_nat (lenN pre) + length (mk_sm i) + N.to_nat (lenN body) + length (mk_em i))%nat
        with (length (pre ++ mk_sm i ++ body ++ mk_em i)) by (rewrite !app_length, !lenN_spec; lia).
      replace (pre ++ mk_sm i ++ body ++ mk_em i ++ rest) with ((pre ++ mk_sm i ++ body ++ mk_em i) ++ rest)
        by (now rewrite <- !app_assoc).
      apply firstn_len_app.
Qed.

Lemma Strip_marker pre i body rest out r :
  run_ok pre = true -> (i < 4)%nat ->
  (forall j m, nth_error start_matches j = Some m ->
               is_prefix m (mk_sm i ++ body ++ mk_em i ++ rest) = true -> (i <= j)%nat) ->
  index_end (body ++ mk_em i ++ rest) (mk_em i) (negb (mk_isc i)) = Some (lenN body) ->
  Strip rest (push (if mk_isc i then pre else pre ++ mk_sm i ++ body ++ mk_em i) out) r ->
  Strip (pre ++ mk_sm i ++ body ++ mk_em i ++ rest) out r.
Proof.
  intros Hr Hi Hmin Hend HS. eapply St_tok; [apply split_marker; auto|].
  rewrite Nat2Z.id.
  replace (pre ++ mk_sm i ++ body ++ mk_em i ++ rest) with ((pre ++ mk_sm i ++ body ++ mk_em i) ++ rest)
    by (now rewrite <- !app_assoc).
  now rewrite skipn_len_app.
Qed.

(* the three instances *)
Lemma Strip_str pre body rest out r :
  run_ok pre = true -> body_ok body = true ->
  Strip rest (push (pre ++ quote :: body ++ [quote]) out) r ->
  Strip (pre ++ (quote :: body ++ [quote]) ++ rest) out r.
Proof.
  intros Hr Hb HS.
  replace (pre ++ (quote :: body ++ [quote]) ++ rest) with (pre ++ mk_sm 1 ++ body ++ mk_em 1 ++ rest)
    by (cbn [app]; rewrite <- app_assoc; reflexivity).
  apply Strip_marker; auto.
  - intros j m Hn Hp. destruct j as [|j]; [|lia]. cbn in Hn. inversion Hn; subst. cbn in Hp. discriminate.
  - cbn [mk_isc nth is_comments json_NewJsonPlusReader__isComments negb index_end]. apply (index_esc_body body rest Hb).
Qed.

Lemma line_index body rest : line_ok body = true -> index [nl] (body ++ nl :: rest) = Some (lenN body).
Proof.
  intros H. rewrite (index_skip_run [nl] nl body).
  - rewrite index_cons. cbn [is_prefix]. rewrite N.eqb_refl. cbn [andb option_map]. f_equal. lia.
  - reflexivity.
  - unfold line_ok in H. rewrite forallb_forall in H. intros Hin. specialize (H _ Hin). rewrite N.eqb_refl in H. discriminate.
Qed.

Lemma line_index_none body : line_ok body = true -> index [nl] body = None.
Proof.
  intros H. pose proof (index_skip_run [nl] nl body [] eq_refl) as E. rewrite app_nil_r in E. rewrite E; [reflexivity|].
  unfold line_ok in H. rewrite forallb_forall in H. intros Hin. specialize (H _ Hin). rewrite N.eqb_refl in H. discriminate.
Qed.

Lemma Strip_line pre body rest out r :
  run_ok pre = true -> line_ok body = true ->
  Strip rest (push pre out) r ->
  Strip (pre ++ (slash :: slash :: body ++ [nl]) ++ rest) out r.
Proof.
  intros Hr Hb HS.
  replace (pre ++ (slash :: slash :: body ++ [nl]) ++ rest) with (pre ++ mk_sm 2 ++ body ++ mk_em 2 ++ rest)
    by (cbn [app]; rewrite <- app_assoc; reflexivity).
  apply Strip_marker; auto.
  - intros j m Hn Hp. do 2 (destruct j as [|j]; [cbn in Hn; inversion Hn; subst; cbn in Hp; discriminate|]). lia.
  - cbn [mk_isc nth is_comments json_NewJsonPlusReader__isComments negb index_end]. apply (line_index body rest Hb).
Qed.

Lemma Strip_block pre body rest out r :
  run_ok pre = true -> block_ok body = true ->
  Strip rest (push pre out) r ->
  Strip (pre ++ (slash :: star :: body ++ [star; slash]) ++ rest) out r.
Proof.
  intros Hr Hb HS.
  replace (pre ++ (slash :: star :: body ++ [star; slash]) ++ rest) with (pre ++ mk_sm 3 ++ body ++ mk_em 3 ++ rest)
    by (cbn [app]; rewrite <- app_assoc; reflexivity).
  apply Strip_marker; auto.
  - intros j m Hn Hp. do 3 (destruct j as [|j]; [cbn in Hn; inversion Hn; subst; cbn in Hp; discriminate|]). lia.
  - cbn [mk_isc nth is_comments json_NewJsonPlusReader__isComments negb index_end].
    unfold block_ok in Hb. destruct (index [star; slash] (body ++ [star; slash])) as [k|] eqn:E; [|discriminate].
    apply N.eqb_eq in Hb. subst k. apply (index_at [star; slash] body rest E).
Qed.

(* the end of the input *)
Lemma Strip_nil out : Strip [] out (out, Ok tt).
Proof. apply St_more. reflexivity. Qed.

Lemma Strip_end pre out : run_ok pre = true -> exists o, Strip pre out (o, Ok tt) /\ flat o = flat out ++ pre.
Proof.
  intros Hr. destruct pre as [|c pre].
  - exists out. split; [apply Strip_nil|now rewrite app_nil_r].
  - exists (push (c :: pre) out). split; [|apply flat_push].
    eapply St_tok; [rewrite (split_none _ true (fm_run_none _ Hr)); reflexivity|].
    rewrite lenZ_spec, Nat2Z.id, skipn_all. apply Strip_nil.
Qed.

Lemma Strip_tail pre body out :
  run_ok pre = true -> line_ok body = true ->
  exists o, Strip (pre ++ slash :: slash :: body) out (o, Ok tt) /\ flat o = flat out ++ pre.
Proof.
  intros Hr Hb. exists (push pre out). split; [|apply flat_push].
  pose proof (fm_after_run pre (slash :: slash :: body) 2 Hr ltac:(lia) eq_refl) as F.
  assert (F' : first_match (pre ++ slash :: slash :: body) start_matches = Some (lenN pre, 2%nat)).
  { apply F. intros j m Hn Hp. do 2 (destruct j as [|j]; [cbn in Hn; inversion Hn; subst; cbn in Hp; discriminate|]). lia. }
  eapply St_tok.
  - rewrite (split_some _ true _ _ F').
    replace (skipn (N.to_nat (lenN pre) + length (mk_sm 2)) (pre ++ slash :: slash :: body)) with body.
    + cbn [mk_isc mk_em mk_req nth is_comments end_matches required_matches json_NewJsonPlusReader__isComments
           json_NewJsonPlusReader__endMatches json_NewJsonPlusReader__requiredMatches negb index_end].
      change [10] with [nl]. rewrite (line_index_none body Hb). reflexivity.
    + replace (pre ++ slash :: slash :: body) with ((pre ++ [slash; slash]) ++ body) by (now rewrite <- app_assoc).
      replace (N.to_nat (lenN pre) + length (mk_sm 2))%nat with (length (pre ++ [slash; slash]))
        by (rewrite app_length, lenN_spec; cbn; lia).
      now rewrite skipn_len_app.
  - replace (N.to_nat (lenN pre)) with (length pre) by (rewrite lenN_spec; lia).
    rewrite firstn_len_app. rewrite lenZ_spec, Nat2Z.id, skipn_all. apply Strip_nil.
Qed.

(* ---- documents ---- *)
Lemma render_dec_cons it d tail : render_dec (it :: d) tail = render_item it ++ render_dec d tail.
Proof. unfold render_dec. cbn [map concat]. now rewrite app_assoc. Qed.

Lemma Strip_doc : forall d tail pre out,
  run_ok pre = true -> doc_ok d tail = true ->
  exists o, Strip (pre ++ render_dec d tail) out (o, Ok tt) /\ flat o = flat out ++ pre ++ render_plain d.
Proof.
  induction d as [|it d IH]; intros tail pre out Hr Hd.
  - unfold render_dec, render_plain. cbn [map concat app]. rewrite app_nil_r.
    unfold doc_ok in Hd. cbn [forallb andb] in Hd. destruct tail as [body|].
    + apply Strip_tail; auto.
    + rewrite app_nil_r. apply Strip_end; auto.
  - assert (Hit : item_ok it = true /\ doc_ok d tail = true).
    { unfold doc_ok in *. cbn [forallb] in Hd. rewrite <- andb_assoc in Hd. apply andb_true_iff in Hd. exact Hd. }
    destruct Hit as [Hit Hd']. rewrite render_dec_cons.
    unfold render_plain. cbn [map concat]. fold (render_plain d).
    destruct it as [b|body|body|body]; cbn [item_ok render_item plain_item] in *.
    + (* run *)
      destruct (IH tail (pre ++ b) out (run_ok_app _ _ Hr Hit) Hd') as (o & HS & Hf).
      exists o. rewrite <- app_assoc in HS. split; [exact HS|]. rewrite Hf. now rewrite <- !app_assoc.
    + (* string literal *)
      destruct (IH tail [] (push (pre ++ quote :: body ++ [quote]) out) eq_refl Hd') as (o & HS & Hf).
      exists o. split; [apply Strip_str; auto|]. rewrite Hf, flat_push. cbn [app]. rewrite <- ?app_assoc. cbn [app]. rewrite <- ?app_assoc. reflexivity.
    + (* line comment *)
      destruct (IH tail [] (push pre out) eq_refl Hd') as (o & HS & Hf).
      exists o. split; [apply Strip_line; auto|]. rewrite Hf, flat_push. cbn [app]. rewrite <- ?app_assoc. cbn [app]. rewrite <- ?app_assoc. reflexivity.
    + (* block comment *)
      destruct (IH tail [] (push pre out) eq_refl Hd') as (o & HS & Hf).
      exists o. split; [apply Strip_block; auto|]. rewrite Hf, flat_push. cbn [app]. rewrite <- ?app_assoc. cbn [app]. rewrite <- ?app_assoc. reflexivity.
Qed.

(* [core] strip (render_decorated d) = render_plain d, byte for byte *)
Lemma strip_doc d tail : doc_ok d tail = true -> strip (render_dec d tail) = (render_plain d, Ok tt).
Proof.
  intros Hd. destruct (Strip_doc d tail [] [] eq_refl Hd) as (o & HS & Hf). cbn [app] in *.
  destruct (strip_Strip (render_dec d tail)) as (o' & r' & HS' & ->).
  pose proof (Strip_det _ _ _ HS _ HS') as E. inversion E; subst. now rewrite Hf.
Qed.

(* for every segmentation into reads *)
Lemma reader_doc segs dt d tail :
  runs_ok segs -> concat segs = render_dec d tail -> doc_ok d tail = true ->
  lenN (concat segs) < tok_limit ->
  reader_dt segs 0 dt = (render_plain d, Ok tt).
Proof. intros Hne Hc Hd Hl. rewrite (reader_dt_strip segs dt Hne Hl), Hc. now apply strip_doc. Qed.

(* a document without comments passes through byte for byte *)
Definition no_comment (it : item) : bool := match it with Run _ | Str _ => true | _ => false end.

Lemma plain_no_comment d : forallb no_comment d = true -> render_dec d None = render_plain d.
Proof.
  unfold render_dec, render_plain. rewrite app_nil_r. induction d as [|it d IH]; intros H; [reflexivity|].
  cbn [forallb] in H. apply andb_true_iff in H as [H1 H2]. cbn [map concat]. rewrite (IH H2).
  destruct it; try discriminate; reflexivity.
Qed.

Lemma reader_identity segs dt d :
  runs_ok segs -> concat segs = render_dec d None -> forallb no_comment d = true -> doc_ok d None = true ->
  lenN (concat segs) < tok_limit ->
  reader_dt segs 0 dt = (concat segs, Ok tt).
Proof.
  intros Hne Hc Hn Hd Hl. rewrite (reader_doc segs dt d None Hne Hc Hd Hl). now rewrite Hc, plain_no_comment.
Qed.
