(* Proofs for C11 (aac/aac.go): Model/Aac.v against the independent ISO 13818-7 writer. *)
From Verif Require Import Lib.Base Lib.Sx Lib.Bitfield Lib.GoSem Model.Aac Proofs.AacBits Gen.Gen_aac.
Open Scope N_scope.
Ltac Zify.zify_post_hook ::= Z.div_mod_to_equations.

Definition accepted_obj (o : N) : Prop := o = 1 \/ o = 2 \/ o = 3 \/ o = 5 \/ o = 29.
Definition accepted (a : asc) : Prop := accepted_obj (aobj a) /\ 1 <= asr a <= 12 /\ 1 <= ach a <= 7.

Lemma validate_spec a : validate a = Ok tt <-> accepted a.
Proof.
  unfold validate, accepted, accepted_obj, aac_validate__Object_cases, aac_validate__SampleRate_lt,
    aac_validate__SampleRate_gt, aac_validate__Channels_lt, aac_validate__Channels_gt, zN.
  cbn [existsb Z.to_N].
  destruct a as [o s c]; cbn [aobj asr ach].
  repeat match goal with |- context [N.eqb ?x ?y] => destruct (N.eqb_spec x y) end;
  repeat match goal with |- context [N.ltb ?x ?y] => destruct (N.ltb_spec x y) end;
  cbn [orb negb]; split; intros HH; try discriminate; try reflexivity; try lia.
Qed.

Definition hdr7 (id layer pa profile sfi priv ch orig home cbit cstart flen fullness nblocks : N) : bytes :=
  [ 255; 240 + id * 8 + layer * 2 + pa; profile * 64 + sfi * 4 + priv * 2 + ch / 4;
    (ch mod 4) * 64 + orig * 32 + home * 16 + cbit * 8 + cstart * 4 + flen / 2048;
    (flen / 8) mod 256; (flen mod 8) * 32 + fullness / 64; (fullness mod 64) * 4 + nblocks ].

Definition hdr_val (id layer pa profile sfi priv ch orig home cbit cstart flen fullness nblocks : N) : N :=
  fields_val [ (4095, 12); (id, 1); (layer, 2); (pa, 1); (profile, 2); (sfi, 4); (priv, 1); (ch, 3); (orig, 1);
     (home, 1); (cbit, 1); (cstart, 1); (flen, 13); (fullness, 11); (nblocks, 2) ].

Lemma be7_digits b0 b1 b2 b3 b4 b5 b6 :
  b0 < 256 -> b1 < 256 -> b2 < 256 -> b3 < 256 -> b4 < 256 -> b5 < 256 -> b6 < 256 ->
  be_bytes 7 (b0 * 281474976710656 + b1 * 1099511627776 + b2 * 4294967296 + b3 * 16777216 + b4 * 65536 + b5 * 256 + b6)
  = [b0; b1; b2; b3; b4; b5; b6].
Proof.
  intros.
  replace (b0 * 281474976710656 + b1 * 1099511627776 + b2 * 4294967296 + b3 * 16777216 + b4 * 65536 + b5 * 256 + b6)
    with (b0 * 256 ^ N.of_nat 6 + (b1 * 256 ^ N.of_nat 5 + (b2 * 256 ^ N.of_nat 4 + (b3 * 256 ^ N.of_nat 3 +
          (b4 * 256 ^ N.of_nat 2 + (b5 * 256 ^ N.of_nat 1 + (b6 * 256 ^ N.of_nat 0 + 0)))))))
    by (cbn [N.of_nat Pos.of_succ_nat Pos.succ]; change (256 ^ 6) with 281474976710656; change (256 ^ 5) with 1099511627776;
        change (256 ^ 4) with 4294967296; change (256 ^ 3) with 16777216; change (256 ^ 2) with 65536;
        change (256 ^ 1) with 256; change (256 ^ 0) with 1; lia).
  repeat (rewrite be_bytes_cons; [f_equal| assumption |
     cbn [N.of_nat Pos.of_succ_nat Pos.succ]; change (256 ^ 6) with 281474976710656; change (256 ^ 5) with 1099511627776;
        change (256 ^ 4) with 4294967296; change (256 ^ 3) with 16777216; change (256 ^ 2) with 65536;
        change (256 ^ 1) with 256; change (256 ^ 0) with 1; lia]).
Qed.

Lemma hdr_val_bytes id layer pa profile sfi priv ch orig home cbit cstart flen fullness nblocks :
  id < 2 -> layer < 4 -> pa < 2 -> profile < 4 -> sfi < 16 -> priv < 2 -> ch < 8 -> orig < 2 -> home < 2 ->
  cbit < 2 -> cstart < 2 -> flen < 8192 -> fullness < 2048 -> nblocks < 4 ->
  be_bytes 7 (hdr_val id layer pa profile sfi priv ch orig home cbit cstart flen fullness nblocks)
  = hdr7 id layer pa profile sfi priv ch orig home cbit cstart flen fullness nblocks.
Proof.
  intros. unfold hdr_val, fields_val, hdr7. cbn [fold_left fst snd].
  change (2 ^ 12) with 4096; change (2 ^ 1) with 2; change (2 ^ 2) with 4; change (2 ^ 4) with 16;
  change (2 ^ 3) with 8; change (2 ^ 13) with 8192; change (2 ^ 11) with 2048.
  rewrite !N.mod_small by lia.
  rewrite <- be7_digits by lia.
  f_equal. lia.
Qed.


Lemma flen_decomp flen : flen < 8192 -> exists f2 f1 f0, f2 < 4 /\ f1 < 256 /\ f0 < 8 /\
  flen = f2 * 2048 + f1 * 8 + f0 /\ flen / 2048 = f2 /\ (flen / 8) mod 256 = f1 /\ flen mod 8 = f0.
Proof. intros H. exists (flen / 2048), ((flen / 8) mod 256), (flen mod 8). repeat split; lia. Qed.
Lemma ch_decomp ch : ch < 8 -> exists chh chl, chh < 2 /\ chl < 4 /\ ch = chh * 4 + chl /\ ch / 4 = chh /\ ch mod 4 = chl.
Proof. intros H. exists (ch / 4), (ch mod 4). repeat split; lia. Qed.
Lemma full_decomp u : u < 2048 -> exists u1 u0, u1 < 32 /\ u0 < 64 /\ u = u1 * 64 + u0 /\ u / 64 = u1 /\ u mod 64 = u0.
Proof. intros H. exists (u / 64), (u mod 64). repeat split; lia. Qed.

Lemma L1 p t b2 b3 : p < 4 -> t < 64 -> b3 < 256 -> b2 = p * 64 + t -> ((b2 * 256 + b3) / 16384) mod 4 = p.
Proof. intros. lia. Qed.
Lemma L2 p s t b2 b3 : s < 16 -> t < 4 -> b3 < 256 -> b2 = p * 64 + s * 4 + t -> (((b2 * 256 + b3) / 1024) mod 256) mod 16 = s.
Proof. intros. lia. Qed.
Lemma L3 m chh chl t b2 b3 ch : chh < 2 -> chl < 4 -> t < 64 -> b2 = m * 2 + chh -> b3 = chl * 64 + t -> ch = chh * 4 + chl ->
  (((b2 * 256 + b3) / 64) mod 256) mod 8 = ch.
Proof. intros. lia. Qed.
Lemma L4 m f2 f1 f0 w b2 b3 abfv flen : f2 < 4 -> f1 < 256 -> f0 < 8 -> w < 8192 -> b3 = m * 4 + f2 ->
  abfv = f1 * 65536 + f0 * 8192 + w -> flen = f2 * 2048 + f1 * 8 + f0 ->
  ((b2 * 256 + b3) mod 4) * 2048 + (abfv / 8192) mod 2048 = flen.
Proof. intros. lia. Qed.

Lemma A12 id layer pa : id < 2 -> layer < 4 -> pa < 2 ->
  ((240 + id * 8 + layer * 2 + pa) / 16) mod 16 = 15 /\ ((240 + id * 8 + layer * 2 + pa) mod 16) mod 2 = pa.
Proof. intros. split; lia. Qed.

Lemma parse_head_hdr7 id layer pa profile sfi priv ch orig home cbit cstart flen fullness nblocks c0 c1 x rest :
  id < 2 -> layer < 4 -> pa < 2 -> profile < 4 -> sfi < 16 -> priv < 2 -> ch < 8 -> orig < 2 -> home < 2 ->
  cbit < 2 -> cstart < 2 -> flen < 8192 -> fullness < 2048 -> nblocks < 4 ->
  adts_parse_head (hdr7 id layer pa profile sfi priv ch orig home cbit cstart flen fullness nblocks
                   ++ (if pa =? 0 then [c0; c1] else []) ++ x :: rest)
  = Ok (mk_head profile sfi ch flen (if pa =? 0 then 9 else 7) (x :: rest)).
Proof.
  intros Hid Hl Hpa Hp Hs Hpr Hch Ho Hh Hcb Hcs Hf Hu Hn.
  destruct (flen_decomp flen Hf) as (f2 & f1 & f0 & Hf2 & Hf1 & Hf0 & Ef & E1 & E2 & E3).
  destruct (ch_decomp ch Hch) as (chh & chl & Hchh & Hchl & Ec & E4 & E5).
  destruct (full_decomp fullness Hu) as (u1 & u0 & Hu1 & Hu0 & Eu & E6 & E7).
  destruct (A12 id layer pa Hid Hl Hpa) as [A1 A2].
  unfold hdr7. rewrite E1, E2, E3, E4, E5, E6, E7. cbn [app]. unfold adts_parse_head.
  cbn [len_gt negb idx nth_error bind drop_chk take].
  rewrite A1, A2. cbn [N.eqb Pos.eqb andb negb].
  clear E1 E2 E3 E4 E5 E6 E7 A1 A2.
  assert (G1 : (((profile * 64 + sfi * 4 + priv * 2 + chh) * 256 + (chl * 64 + orig * 32 + home * 16 + cbit * 8 + cstart * 4 + f2)) / 16384) mod 4 = profile).
  { apply (L1 profile (sfi * 4 + priv * 2 + chh)); lia. }
  assert (G2 : u8 (((profile * 64 + sfi * 4 + priv * 2 + chh) * 256 + (chl * 64 + orig * 32 + home * 16 + cbit * 8 + cstart * 4 + f2)) / 1024) mod 16 = sfi).
  { unfold u8. apply (L2 profile sfi (priv * 2 + chh)); lia. }
  assert (G3 : u8 (((profile * 64 + sfi * 4 + priv * 2 + chh) * 256 + (chl * 64 + orig * 32 + home * 16 + cbit * 8 + cstart * 4 + f2)) / 64) mod 8 = ch).
  { unfold u8. apply (L3 (profile * 32 + sfi * 2 + priv) chh chl (orig * 32 + home * 16 + cbit * 8 + cstart * 4 + f2)); lia. }
  assert (G4 : (((profile * 64 + sfi * 4 + priv * 2 + chh) * 256 + (chl * 64 + orig * 32 + home * 16 + cbit * 8 + cstart * 4 + f2)) mod 4) * 2048
               + ((f1 * 65536 + (f0 * 32 + u1) * 256 + (u0 * 4 + nblocks)) / 8192) mod 2048 = flen).
  { apply (L4 (chl * 16 + orig * 8 + home * 4 + cbit * 2 + cstart) f2 f1 f0 (u1 * 256 + u0 * 4 + nblocks)); lia. }
  rewrite G1, G2, G3, G4.
  assert (Epa : pa = 0 \/ pa = 1) by lia.
  destruct Epa as [-> | ->]; cbn [N.eqb Pos.eqb app len_gt negb bind drop_chk take]; reflexivity.
Qed.

(* ---- enum helpers ---- *)
Definition profile_of (o : N) : N := if o =? 1 then 0 else if o =? 3 then 2 else 1.

Lemma to_profile_accepted o : accepted_obj o -> to_profile o = Ok (profile_of o).
Proof. intros [->|[->|[->|[->| ->]]]]; reflexivity. Qed.

Lemma to_object_lt3 p : p < 3 -> to_object p = Ok (p + 1).
Proof.
  intros H. assert (E : p = 0 \/ p = 1 \/ p = 2) by lia.
  destruct E as [->|[->| ->]]; reflexivity.
Qed.

Lemma to_object_total p : exists o, to_object p = Ok o.
Proof.
  unfold to_object, callN, aac_Profile_ToObjectType.
  repeat match goal with |- context [if ?c then _ else _] => destruct c end; eexists; reflexivity.
Qed.

Lemma to_profile_total o : exists p, to_profile o = Ok p.
Proof.
  unfold to_profile, callN, aac_ObjectType_ToProfile.
  repeat match goal with |- context [if ?c then _ else _] => destruct c end; eexists; reflexivity.
Qed.

(* SampleRateIndex is a uint8: all 256 values by a kernel-evaluated sweep, whatever shape the
   generated body of ToHz has (table inside the function or at package level, len() or a constant) *)
Lemma to_hz_total_sweep : forallb (fun i => is_ok (to_hz i)) (n_range 0 256) = true.
Proof. vm_compute. reflexivity. Qed.

Lemma to_hz_total i : i < 256 -> exists hz, to_hz i = Ok hz.
Proof.
  intros H. pose proof (sweep256 _ to_hz_total_sweep i H) as A. cbv beta in A.
  destruct (to_hz i) as [hz|e|s]; try discriminate. exists hz. reflexivity.
Qed.

Lemma validate_no_panic a s : validate a <> Panic s.
Proof.
  unfold validate. repeat match goal with |- context [if ?c then _ else _] => destruct c end; discriminate.
Qed.

(* ---- the specification's frame as explicit bytes ---- *)
Definition hdr_wf (h : adts_hdr) : Prop :=
  h_id h < 2 /\ h_layer h < 4 /\ h_pa h < 2 /\ h_profile h < 4 /\ h_sfi h < 16 /\ h_priv h < 2 /\ h_ch h < 8 /\
  h_orig h < 2 /\ h_home h < 2 /\ h_cbit h < 2 /\ h_cstart h < 2 /\ h_fullness h < 2048 /\ h_nblocks h < 4 /\
  h_crc h < 65536.

Definition hdr7_of (h : adts_hdr) (flen : N) : bytes :=
  hdr7 (h_id h) (h_layer h) (h_pa h) (h_profile h) (h_sfi h) (h_priv h) (h_ch h) (h_orig h) (h_home h)
       (h_cbit h) (h_cstart h) flen (h_fullness h) (h_nblocks h).

Lemma fields_val_app l1 l2 : fields_val (l1 ++ l2) =
  fold_left (fun acc f => acc * 2 ^ snd f + fst f mod 2 ^ snd f) l2 (fields_val l1).
Proof. unfold fields_val. apply fold_left_app. Qed.

Lemma spec_frame_bytes h raw : hdr_wf h -> spec_adts_hdr_len h + lenN raw < 8192 ->
  spec_adts_frame h raw =
  hdr7_of h (spec_adts_hdr_len h + lenN raw) ++ (if h_pa h =? 0 then be_bytes 2 (h_crc h) else []) ++ raw.
Proof.
  intros (Hid & Hl & Hpa & Hp & Hs & Hpr & Hch & Ho & Hh & Hcb & Hcs & Hu & Hn & Hcrc) Hlen.
  unfold spec_adts_frame, hdr7_of, spec_adts_hdr_len in *.
  destruct h as [id layer pa profile sfi priv ch orig home cbit cstart fullness nblocks crc].
  cbn [h_id h_layer h_pa h_profile h_sfi h_priv h_ch h_orig h_home h_cbit h_cstart h_fullness h_nblocks h_crc] in *.
  assert (Epa : pa = 0 \/ pa = 1) by lia.
  destruct Epa as [-> | ->]; cbn [N.eqb Pos.eqb] in *.
  - rewrite app_assoc. f_equal. unfold pack_fields.
    match goal with |- be_bytes (N.to_nat (fields_width ?l / 8)) _ = _ =>
      change (N.to_nat (fields_width l / 8)) with (7 + 2)%nat end.
    rewrite fields_val_app. cbn [fold_left fst snd].
    change (2 ^ 16) with (256 ^ N.of_nat 2). rewrite (N.mod_small crc) by exact Hcrc.
    rewrite be_bytes_app by exact Hcrc. f_equal.
    apply hdr_val_bytes; assumption || lia.
  - rewrite app_nil_r. cbn [app]. f_equal. unfold pack_fields.
    match goal with |- be_bytes (N.to_nat (fields_width ?l / 8)) _ = _ =>
      change (N.to_nat (fields_width l / 8)) with 7%nat end.
    apply hdr_val_bytes; assumption || lia.
Qed.

Lemma spec_frame_sync h raw : hdr_wf h -> spec_adts_hdr_len h + lenN raw < 8192 ->
  exists b rest, spec_adts_frame h raw = 255 :: b :: rest /\ b / 16 = 15.
Proof.
  intros Hw Hlen. rewrite (spec_frame_bytes h raw Hw Hlen). unfold hdr7_of, hdr7. cbn [app].
  eexists. eexists. split; [reflexivity|].
  destruct Hw as (Hid & Hl & Hpa & _). lia.
Qed.

Lemma spec_frame_length h raw : hdr_wf h -> spec_adts_hdr_len h + lenN raw < 8192 ->
  lenN (spec_adts_frame h raw) = spec_adts_hdr_len h + lenN raw.
Proof.
  intros Hw Hlen. rewrite (spec_frame_bytes h raw Hw Hlen). rewrite !lenN_app.
  unfold hdr7_of, hdr7, spec_adts_hdr_len. destruct (h_pa h =? 0); rewrite !lenN_length; cbn [length be_bytes]; lia.
Qed.

Lemma spec_frame_wf h raw : wf_bytes raw -> wf_bytes (spec_adts_frame h raw).
Proof.
  intros H. unfold spec_adts_frame, pack_fields. apply Forall_app. split; [apply be_bytes_wf|exact H].
Qed.

(* ---- decoding a specification frame ---- *)
Definition hdr_accepted (h : adts_hdr) : Prop := h_profile h < 3 /\ 1 <= h_sfi h <= 12 /\ 1 <= h_ch h <= 7.
Definition frame_asc (h : adts_hdr) : asc := mk_asc (h_profile h + 1) (h_sfi h) (h_ch h).

Lemma decode_hdr7 h flen c0 c1 raw tail st :
  hdr_wf h -> hdr_accepted h -> 1 <= lenN raw -> flen = spec_adts_hdr_len h + lenN raw -> flen <= 8191 ->
  adts_decode st (hdr7_of h flen ++ (if h_pa h =? 0 then [c0; c1] else []) ++ raw ++ tail)
  = (frame_asc h, Ok (raw, tail)).
Proof.
  intros Hw (Hp3 & Hsfi & Hchr) Hraw Hfl Hlen.
  destruct raw as [|x raw']; [change (lenN []) with 0 in Hraw; lia|].
  pose proof Hw as (Hid & Hl & Hpa & Hp & Hs & Hpr & Hch & Ho & Hh & Hcb & Hcs & Hu & Hn & Hcrc).
  unfold adts_decode, hdr7_of.
  change ((x :: raw') ++ tail) with (x :: (raw' ++ tail)).
  rewrite parse_head_hdr7 by (assumption || lia).
  cbn [hd_profile hd_sfi hd_ch hd_flen hd_nbheader hd_rest].
  rewrite (to_object_lt3 _ Hp3).
  replace (flen <? (if h_pa h =? 0 then 9 else 7)) with false
    by (symmetry; apply N.ltb_ge; unfold spec_adts_hdr_len in Hfl; destruct (h_pa h =? 0); lia).
  assert (E : u16 (flen + 65536 - (if h_pa h =? 0 then 9 else 7)) = lenN (x :: raw')).
  { unfold u16, spec_adts_hdr_len in *. destruct (h_pa h =? 0); lia. }
  rewrite E. clear E.
  rewrite len_ltN_spec. change (x :: (raw' ++ tail)) with ((x :: raw') ++ tail). rewrite lenN_app.
  replace (lenN (x :: raw') + lenN tail <? lenN (x :: raw')) with false by (symmetry; apply N.ltb_ge; lia).
  rewrite splitN_app by reflexivity.
  assert (V : validate (mk_asc (h_profile h + 1) (h_sfi h) (h_ch h)) = Ok tt).
  { apply validate_spec. unfold accepted, accepted_obj. cbn [aobj asr ach]. lia. }
  rewrite V. reflexivity.
Qed.

Lemma decode_spec_frame h raw tail st :
  hdr_wf h -> hdr_accepted h -> 1 <= lenN raw -> spec_adts_hdr_len h + lenN raw <= 8191 ->
  adts_decode st (spec_adts_frame h raw ++ tail) = (frame_asc h, Ok (raw, tail)).
Proof.
  intros Hw Ha Hraw Hlen.
  rewrite (spec_frame_bytes h raw Hw) by lia. rewrite be_bytes_2.
  rewrite <- !app_assoc.
  apply decode_hdr7; try assumption; reflexivity.
Qed.

(* ---- the encoder writes the specification's frame ---- *)
Definition encoder_hdr (a : asc) : adts_hdr :=
  mk_hdr 0 0 1 (profile_of (aobj a)) (asr a) 0 (ach a) 0 0 0 0 63 0 0.

Lemma encoder_hdr_wf a : accepted a -> hdr_wf (encoder_hdr a) /\ hdr_accepted (encoder_hdr a).
Proof.
  intros (Ho & Hs & Hc). unfold hdr_wf, hdr_accepted, encoder_hdr.
  cbn [h_id h_layer h_pa h_profile h_sfi h_priv h_ch h_orig h_home h_cbit h_cstart h_fullness h_nblocks h_crc].
  assert (profile_of (aobj a) < 3) by (destruct Ho as [->|[->|[->|[->| ->]]]]; vm_compute; reflexivity).
  lia.
Qed.

Lemma encode_is_spec a raw : accepted a -> lenN raw <= 8184 ->
  adts_encode a raw = Ok (spec_adts_frame (encoder_hdr a) raw).
Proof.
  intros Ha Hlen. unfold adts_encode.
  rewrite (proj2 (validate_spec a) Ha). cbn [bind].
  destruct Ha as (Ho & Hs & Hc). rewrite (to_profile_accepted _ Ho). cbn [bind].
  assert (P : profile_of (aobj a) < 3) by (destruct Ho as [->|[->|[->|[->| ->]]]]; vm_compute; reflexivity).
  f_equal. rewrite spec_frame_bytes.
  2:{ apply (encoder_hdr_wf a). repeat split; assumption || lia. }
  2:{ unfold spec_adts_hdr_len, encoder_hdr. cbn [h_pa N.eqb Pos.eqb]. lia. }
  unfold hdr7_of, hdr7, encoder_hdr, adts_header, spec_adts_hdr_len.
  cbn [h_id h_layer h_pa h_profile h_sfi h_priv h_ch h_orig h_home h_cbit h_cstart h_fullness h_nblocks h_crc N.eqb Pos.eqb app].
  unfold u8, u16. set (p := profile_of (aobj a)) in *. set (n := lenN raw) in *.
  repeat (apply (f_equal2 (@cons N)); [lia|]). reflexivity.
Qed.

(* ---- round trip through the encoder ---- *)
Lemma adts_rt a raw st : accepted a -> 1 <= lenN raw <= 8184 ->
  exists adts, adts_encode a raw = Ok adts /\
    adts_decode st adts = (mk_asc (profile_of (aobj a) + 1) (asr a) (ach a), Ok (raw, [])).
Proof.
  intros Ha Hlen. exists (spec_adts_frame (encoder_hdr a) raw). split.
  - apply encode_is_spec; [exact Ha|lia].
  - destruct (encoder_hdr_wf a Ha) as [Hw Hacc].
    rewrite <- (app_nil_r (spec_adts_frame (encoder_hdr a) raw)).
    rewrite (decode_spec_frame (encoder_hdr a) raw [] st Hw Hacc); [reflexivity|lia|].
    unfold spec_adts_hdr_len, encoder_hdr. cbn [h_pa N.eqb Pos.eqb]. lia.
Qed.

(* what Encode refuses *)
Lemma adts_encode_rejects a raw : ~ accepted a -> exists e, adts_encode a raw = Err e.
Proof.
  intros Hn. unfold adts_encode. destruct (validate a) as [[]|e|s] eqn:V.
  - exfalso. apply Hn. apply validate_spec. exact V.
  - exists e. reflexivity.
  - exfalso. exact (validate_no_panic a s V).
Qed.

(* ---- streams ---- *)
Definition frame_ok (f : adts_hdr * bytes) : Prop :=
  hdr_wf (fst f) /\ hdr_accepted (fst f) /\ 1 <= lenN (snd f) /\ spec_adts_hdr_len (fst f) + lenN (snd f) <= 8191.
Definition frame_bytes (f : adts_hdr * bytes) : bytes := spec_adts_frame (fst f) (snd f).
Definition frame_out (f : adts_hdr * bytes) : bytes * asc := (snd f, frame_asc (fst f)).
Definition stream_bytes (fs : list (adts_hdr * bytes)) : bytes := concat (map frame_bytes fs).
Definition last_asc (st : asc) (fs : list (adts_hdr * bytes)) : asc :=
  fold_left (fun _ f => frame_asc (fst f)) fs st.

Lemma frame_bytes_cons f : frame_ok f -> exists b rest, frame_bytes f = b :: rest.
Proof.
  intros (Hw & _ & _ & Hl). destruct (spec_frame_sync (fst f) (snd f) Hw ltac:(lia)) as (b & rest & E & _).
  unfold frame_bytes. rewrite E. eexists. eexists. reflexivity.
Qed.

Lemma adts_stream_frames fs : Forall frame_ok fs -> forall fuel st acc,
  (length (stream_bytes fs) < fuel)%nat ->
  adts_stream fuel st (stream_bytes fs) acc = (rev acc ++ map frame_out fs, last_asc st fs, Ok tt).
Proof.
  induction 1 as [|f fs Hf Hfs IH]; intros fuel st acc Hfuel.
  - cbn [stream_bytes map concat]. destruct fuel; cbn [adts_stream last_asc fold_left map]; rewrite app_nil_r; reflexivity.
  - unfold stream_bytes in *. cbn [map concat] in *.
    destruct (frame_bytes_cons f Hf) as (b & rest & E).
    destruct fuel as [|fuel]; [lia|].
    assert (D : adts_decode st (frame_bytes f ++ concat (map frame_bytes fs))
                = (frame_asc (fst f), Ok (snd f, concat (map frame_bytes fs)))).
    { destruct Hf as (Hw & Hacc & H1 & H2). apply decode_spec_frame; assumption. }
    rewrite app_length in Hfuel.
    assert (L : (0 < length (frame_bytes f))%nat) by (rewrite E; cbn [length]; lia).
    revert D. rewrite E. cbn [app]. intros D. cbn [adts_stream]. rewrite D.
    rewrite IH by lia. cbn [rev map last_asc fold_left]. rewrite <- app_assoc. reflexivity.
Qed.

(* ---- AudioSpecificConfig ---- *)
(* the 13 bits of a two-byte config: audioObjectType(5) samplingFrequencyIndex(4) channelConfiguration(4) *)
Definition asc_fields (b0 b1 : N) : asc :=
  let v := b0 * 256 + b1 in mk_asc (v / 2048) ((v / 128) mod 16) ((v / 8) mod 16).
Definition asc_bytes (a : asc) : bytes :=
  pack_fields [ (aobj a, 5); (asr a, 4); (ach a, 4); (0, 3) ].

Lemma asc_unmarshal_fields st b0 b1 rest : b0 < 256 -> b1 < 256 ->
  asc_unmarshal st (b0 :: b1 :: rest) = (asc_fields b0 b1, validate (asc_fields b0 b1)).
Proof.
  intros H0 H1. unfold asc_unmarshal. cbn [len_gt negb idx nth_error].
  assert (E : mk_asc ((b0 / 8) mod 32) ((b0 mod 8) * 2 + (b1 / 128) mod 2) ((b1 / 8) mod 16) = asc_fields b0 b1).
  { unfold asc_fields. f_equal; lia. }
  rewrite E. reflexivity.
Qed.

Lemma asc_unmarshal_short st data : (length data < 2)%nat -> asc_unmarshal st data = (st, Err 8).
Proof.
  intros H. unfold asc_unmarshal. rewrite len_gt_false by lia. reflexivity.
Qed.

Lemma asc_bytes_explicit a : aobj a < 32 -> asr a < 16 -> ach a < 16 ->
  asc_bytes a = [ aobj a * 8 + asr a / 2; (asr a mod 2) * 128 + ach a * 8 ].
Proof.
  intros Ho Hs Hc. unfold asc_bytes, pack_fields.
  match goal with |- be_bytes (N.to_nat (fields_width ?l / 8)) _ = _ =>
    change (N.to_nat (fields_width l / 8)) with 2%nat end.
  unfold fields_val. cbn [fold_left fst snd].
  change (2 ^ 5) with 32; change (2 ^ 4) with 16; change (2 ^ 3) with 8.
  rewrite !N.mod_small by lia. cbn [be_bytes N.of_nat Pos.of_succ_nat]. change (256 ^ 1) with 256. change (256 ^ 0) with 1.
  f_equal; [lia|]. f_equal. lia.
Qed.

Lemma asc_marshal_accepted a : accepted a -> asc_marshal a = Ok (asc_bytes a).
Proof.
  intros Ha. unfold asc_marshal. rewrite (proj2 (validate_spec a) Ha). cbn [bind].
  destruct Ha as (Ho & Hs & Hc).
  assert (aobj a < 32) by (destruct Ho as [->|[->|[->|[->| ->]]]]; lia).
  rewrite asc_bytes_explicit by lia. unfold u8. f_equal. f_equal; [lia|]. f_equal. lia.
Qed.

Lemma asc_marshal_rejects a : ~ accepted a -> exists e, asc_marshal a = Err e.
Proof.
  intros Hn. unfold asc_marshal. destruct (validate a) as [[]|e|s] eqn:V.
  - exfalso. apply Hn. apply validate_spec. exact V.
  - exists e. reflexivity.
  - exfalso. exact (validate_no_panic a s V).
Qed.

Lemma asc_fields_bytes a : aobj a < 32 -> asr a < 16 -> ach a < 16 ->
  exists b0 b1, asc_bytes a = [b0; b1] /\ b0 < 256 /\ b1 < 256 /\ asc_fields b0 b1 = a.
Proof.
  intros Ho Hs Hc. rewrite asc_bytes_explicit by assumption.
  eexists. eexists. split; [reflexivity|]. split; [lia|]. split; [lia|].
  unfold asc_fields. destruct a as [o s c]. cbn [aobj asr ach] in *. f_equal; lia.
Qed.

Lemma asc_bytes_fields b0 b1 : b0 < 256 -> b1 < 256 -> asc_bytes (asc_fields b0 b1) = [b0; (b1 / 8) * 8].
Proof.
  intros H0 H1. rewrite asc_bytes_explicit by (unfold asc_fields; cbn [aobj asr ach]; lia).
  unfold asc_fields. cbn [aobj asr ach]. f_equal; [lia|]. f_equal. lia.
Qed.

(* kernel-evaluated sweep over all 65536 two-byte configs: the model's acceptance and fields
   against the bit layout and the accepted set, its re-marshalling against the input *)
Definition acceptedb (a : asc) : bool :=
  existsb (N.eqb (aobj a)) [1; 2; 3; 5; 29] && (1 <=? asr a) && (asr a <=? 12) && (1 <=? ach a) && (ach a <=? 7).
Definition asc_eqb (a b : asc) : bool := (aobj a =? aobj b) && (asr a =? asr b) && (ach a =? ach b).
Definition asc_check (hi lo : N) : bool :=
  let a := asc_fields hi lo in
  match asc_unmarshal asc0 [hi; lo] with
  | (a', Ok _) => acceptedb a && asc_eqb a' a &&
                  match asc_marshal a' with Ok [b0; b1] => (b0 =? hi) && (b1 =? lo / 8 * 8) | _ => false end
  | (a', Err e) => negb (acceptedb a) && asc_eqb a' a && (5 <=? e) && (e <=? 7)
  | (_, Panic _) => false
  end.
Lemma asc_sweep : forallb (fun hi => forallb (asc_check hi) (n_range 0 256)) (n_range 0 256) = true.
Proof. vm_compute. reflexivity. Qed.

Lemma asc_sweep_all hi lo : hi < 256 -> lo < 256 -> asc_check hi lo = true.
Proof.
  intros H0 H1. pose proof (sweep256 _ asc_sweep hi H0) as A. cbv beta in A.
  exact (sweep256 _ A lo H1).
Qed.

(* ---- sampling frequencies ---- *)
Lemma to_hz_table i : i <= 12 -> to_hz i = Ok (nth (N.to_nat i) spec_iso_hz 0).
Proof.
  intros H. assert (E : In i (n_range 0 13)) by (apply n_range_in; lia).
  cbn in E. repeat (destruct E as [<-|E]; [reflexivity|]). destruct E.
Qed.

Lemma to_hz_undefined_sweep :
  forallb (fun i => match to_hz i with Ok 0 => true | _ => false end) (n_range 13 243) = true.
Proof. vm_compute. reflexivity. Qed.

Lemma to_hz_undefined i : 12 < i -> i < 256 -> to_hz i = Ok 0.
Proof.
  intros H1 H2. pose proof (sweep_range _ 13 243 to_hz_undefined_sweep i ltac:(lia) ltac:(lia)) as A. cbv beta in A.
  destruct (to_hz i) as [[|p]|e|s]; try discriminate. reflexivity.
Qed.

(* ---- totality: no input makes a decoder panic ---- *)
Lemma adts_parse_head_total data s : adts_parse_head data <> Panic s.
Proof.
  unfold adts_parse_head.
  destruct data as [|p0 [|p1 [|p2 [|p3 [|p4 [|p5 [|p6 [|p7 rest]]]]]]]]; cbn [len_gt negb]; try discriminate.
  cbn [idx nth_error bind drop_chk take].
  destruct (negb _); [discriminate|].
  destruct (_ =? 0); [|discriminate].
  destruct rest as [|q0 [|q1 rest]]; cbn [len_gt negb]; try discriminate.
Qed.

Lemma adts_decode_total st data s : snd (adts_decode st data) <> Panic s.
Proof.
  unfold adts_decode. pose proof (adts_parse_head_total data) as T.
  destruct (adts_parse_head data) as [h|e|s']; cbn [snd]; [|discriminate|exfalso; exact (T s' eq_refl)].
  destruct (to_object_total (hd_profile h)) as [o ->].
  destruct (hd_flen h <? hd_nbheader h); cbn [snd]; [discriminate|].
  destruct (len_ltN (hd_rest h) _) eqn:L; cbn [snd]; [discriminate|].
  pose proof (splitN_total _ _ L) as S.
  destruct (splitN (hd_rest h) _) as [[raw rest]|]; [|congruence].
  pose proof (validate_no_panic (mk_asc o (hd_sfi h) (hd_ch h))) as V.
  destruct (validate _) as [u|e|s']; cbn [snd]; [discriminate|discriminate|exfalso; exact (V s' eq_refl)].
Qed.

Lemma adts_stream_total fuel : forall st data acc s, snd (adts_stream fuel st data acc) <> Panic s.
Proof.
  induction fuel as [|fuel IH]; intros st data acc s; destruct data as [|x t]; cbn [adts_stream snd]; try discriminate.
  pose proof (adts_decode_total st (x :: t)) as T.
  destruct (adts_decode st (x :: t)) as [st' [[raw rest]|e|s']]; cbn [snd] in *.
  - apply IH.
  - discriminate.
  - exfalso. exact (T s' eq_refl).
Qed.

Lemma asc_unmarshal_total st data s : snd (asc_unmarshal st data) <> Panic s.
Proof.
  unfold asc_unmarshal. destruct data as [|b0 [|b1 rest]]; cbn [len_gt negb snd idx nth_error]; try discriminate.
  apply validate_no_panic.
Qed.

(* decode never reads past its input: what it returns is a split of the bytes after the header *)
Lemma adts_decode_ok_shape st data a raw rest :
  adts_decode st data = (a, Ok (raw, rest)) -> exists hdr, data = hdr ++ raw ++ rest /\ (length hdr = 7 \/ length hdr = 9)%nat.
Proof.
  unfold adts_decode, adts_parse_head.
  destruct data as [|p0 [|p1 [|p2 [|p3 [|p4 [|p5 [|p6 [|p7 t]]]]]]]]; cbn [len_gt negb]; try discriminate.
  cbn [idx nth_error bind drop_chk take].
  destruct (negb _); [discriminate|].
  destruct (_ =? 0).
  - destruct t as [|q0 [|q1 t]]; cbn [len_gt negb]; try discriminate.
    cbn [drop_chk take bind hd_profile hd_rest hd_flen hd_nbheader hd_sfi hd_ch].
    destruct (to_object _) as [o|e|s']; try discriminate.
    destruct (_ <? _); [discriminate|].
    destruct (len_ltN _ _); [discriminate|].
    destruct (splitN _ _) as [[r l]|] eqn:S; [|discriminate].
    destruct (validate _); try discriminate. intros H. inversion H; subst.
    apply splitN_some in S. destruct S as [S _].
    exists [p0; p1; p2; p3; p4; p5; p6; p7; q0]. cbn [app length]. rewrite <- S. split; [reflexivity|right; reflexivity].
  - cbn [hd_profile hd_rest hd_flen hd_nbheader hd_sfi hd_ch].
    destruct (to_object _) as [o|e|s']; try discriminate.
    destruct (_ <? _); [discriminate|].
    destruct (len_ltN _ _); [discriminate|].
    destruct (splitN _ _) as [[r l]|] eqn:S; [|discriminate].
    destruct (validate _); try discriminate. intros H. inversion H; subst.
    apply splitN_some in S. destruct S as [S _].
    exists [p0; p1; p2; p3; p4; p5; p6]. cbn [app length]. rewrite <- S. split; [reflexivity|left; reflexivity].
Qed.

(* SetASC then Encode then Decode on one object *)
Lemma setasc_rt b0 b1 rest raw :
  b0 < 256 -> b1 < 256 -> accepted (asc_fields b0 b1) -> 1 <= lenN raw <= 8184 ->
  exists adts,
    asc_unmarshal asc0 (b0 :: b1 :: rest) = (asc_fields b0 b1, Ok tt) /\
    adts_encode (asc_fields b0 b1) raw = Ok adts /\
    adts_decode (asc_fields b0 b1) adts =
      (mk_asc (profile_of (aobj (asc_fields b0 b1)) + 1) (asr (asc_fields b0 b1)) (ach (asc_fields b0 b1)), Ok (raw, [])).
Proof.
  intros H0 H1 Ha Hl. destruct (adts_rt (asc_fields b0 b1) raw (asc_fields b0 b1) Ha Hl) as (adts & E & D).
  exists adts. split; [|split; assumption].
  rewrite asc_unmarshal_fields by assumption. rewrite (proj2 (validate_spec _) Ha). reflexivity.
Qed.

(* a frame_length field smaller than the header is rejected, whatever follows (cd86513) *)
Lemma short_length_rejected h flen c0 c1 x rest st :
  hdr_wf h -> flen < spec_adts_hdr_len h ->
  exists a, adts_decode st (hdr7_of h flen ++ (if h_pa h =? 0 then [c0; c1] else []) ++ x :: rest) = (a, Err 9).
Proof.
  intros Hw Hfl.
  pose proof Hw as (Hid & Hl & Hpa & Hp & Hs & Hpr & Hch & Ho & Hh & Hcb & Hcs & Hu & Hn & Hcrc).
  unfold adts_decode, hdr7_of.
  rewrite parse_head_hdr7 by (assumption || (unfold spec_adts_hdr_len in Hfl; destruct (h_pa h =? 0); lia)).
  cbn [hd_profile hd_sfi hd_ch hd_flen hd_nbheader hd_rest].
  destruct (to_object_total (h_profile h)) as [o ->].
  replace (flen <? (if h_pa h =? 0 then 9 else 7)) with true
    by (symmetry; apply N.ltb_lt; unfold spec_adts_hdr_len in Hfl; destruct (h_pa h =? 0); lia).
  eexists. reflexivity.
Qed.

(* a successful decode implies frame_length >= header size and |raw| = frame_length - header *)
Lemma adts_decode_ok_length st data a raw rest :
  adts_decode st data = (a, Ok (raw, rest)) ->
  exists h, adts_parse_head data = Ok h /\ hd_nbheader h <= hd_flen h /\ lenN raw = u16 (hd_flen h + 65536 - hd_nbheader h).
Proof.
  unfold adts_decode. destruct (adts_parse_head data) as [h|e|s]; try discriminate.
  destruct (to_object _) as [o|e|s]; try discriminate.
  destruct (N.ltb_spec (hd_flen h) (hd_nbheader h)); [discriminate|].
  destruct (len_ltN _ _); [discriminate|].
  destruct (splitN _ _) as [[r l]|] eqn:S; [|discriminate].
  destruct (validate _); try discriminate. intros E. inversion E; subst.
  exists h. split; [reflexivity|]. split; [assumption|]. apply splitN_some in S. apply S.
Qed.

(* ---- frames with several raw data blocks ---- *)
(* a list of 16-bit fields packs to two big-endian bytes each *)
Lemma pack16 ps : pack_fields (map (fun p => (p, 16)) ps) = flat_map (fun p => be_bytes 2 p) ps.
Proof.
  induction ps as [|p ps IH] using rev_ind; [reflexivity|].
  rewrite map_app, flat_map_app. cbn [map flat_map]. rewrite app_nil_r, <- IH.
  unfold pack_fields. rewrite fields_width_app, fields_val_app. cbn [fold_left fst snd].
  unfold fields_width at 2. cbn [fold_left snd].
  assert (W : exists k, fields_width (map (fun p0 : N => (p0, 16)) ps) = 16 * N.of_nat k).
  { clear. induction ps as [|q ps [k IH]] using rev_ind; [exists 0%nat; reflexivity|].
    rewrite map_app, fields_width_app, IH. exists (S k). unfold fields_width. cbn [map fold_left snd]. lia. }
  destruct W as [k W]. rewrite W.
  replace (N.to_nat ((16 * N.of_nat k + (0 + 16)) / 8)) with (2 * k + 2)%nat by lia.
  replace (N.to_nat (16 * N.of_nat k / 8)) with (2 * k)%nat by lia.
  change (2 ^ 16) with (256 ^ N.of_nat 2).
  rewrite be_bytes_app by (apply N.mod_lt; discriminate).
  f_equal. apply be_bytes_mod.
Qed.

Lemma pack16_one c : pack_fields [ (c, 16) ] = be_bytes 2 c.
Proof. pose proof (pack16 [c]) as P. cbn [map flat_map] in P. rewrite app_nil_r in P. exact P. Qed.

Lemma spec_multi_bytes h blocks :
  hdr_wf h -> h_nblocks h = countN blocks - 1 -> 7 + lenN (spec_multi_body h blocks) < 8192 ->
  spec_adts_frame_multi h blocks =
  hdr7_of h (7 + lenN (spec_multi_body h blocks)) ++ spec_multi_body h blocks.
Proof.
  intros (Hid & Hl & Hpa & Hp & Hs & Hpr & Hch & Ho & Hh & Hcb & Hcs & Hu & Hn & Hcrc) Hnb Hlen.
  unfold spec_adts_frame_multi. cbv zeta. f_equal. rewrite <- Hnb. unfold pack_fields.
  match goal with |- be_bytes (N.to_nat (fields_width ?l / 8)) _ = _ =>
    change (N.to_nat (fields_width l / 8)) with 7%nat end.
  apply hdr_val_bytes; assumption.
Qed.

Definition multi_ok (h : adts_hdr) (blocks : list (bytes * N)) : Prop :=
  hdr_wf h /\ hdr_accepted h /\ h_nblocks h = countN blocks - 1 /\ blocks <> [] /\
  Forall (fun b => 1 <= lenN (fst b)) blocks /\ 7 + lenN (spec_multi_body h blocks) <= 8191.

(* without protection: the blocks come back concatenated *)
Lemma decode_multi_nocrc h blocks tail st :
  multi_ok h blocks -> h_pa h = 1 ->
  adts_decode st (spec_adts_frame_multi h blocks ++ tail) = (frame_asc h, Ok (flat_map fst blocks, tail)).
Proof.
  intros (Hw & Ha & Hnb & Hne & Hbl & Hlen) Hpa.
  rewrite spec_multi_bytes by (assumption || lia).
  assert (B : spec_multi_body h blocks = flat_map fst blocks) by (unfold spec_multi_body; rewrite Hpa; reflexivity).
  rewrite B in *. rewrite <- app_assoc.
  pose proof (decode_hdr7 h (7 + lenN (flat_map fst blocks)) 0 0 (flat_map fst blocks) tail st Hw Ha) as D.
  rewrite Hpa in D. cbn [N.eqb Pos.eqb app] in D. apply D.
  - destruct blocks as [|b bl]; [congruence|]. inversion Hbl as [|? ? H1 H2]; subst. cbv beta in H1. cbn [flat_map]. rewrite lenN_app. unfold bytes in *. lia.
  - unfold spec_adts_hdr_len. rewrite Hpa. reflexivity.
  - exact Hlen.
Qed.

(* with protection: everything after the first two bytes of the header error check comes back *)
Lemma decode_multi_crc h blocks tail st :
  multi_ok h blocks -> h_pa h = 0 ->
  adts_decode st (spec_adts_frame_multi h blocks ++ tail) =
  (frame_asc h, Ok (skipn 2 (spec_multi_body h blocks), tail)).
Proof.
  intros (Hw & Ha & Hnb & Hne & Hbl & Hlen) Hpa.
  rewrite spec_multi_bytes by (assumption || lia).
  assert (B : exists c0 c1 rest, spec_multi_body h blocks = c0 :: c1 :: rest /\ 1 <= lenN rest).
  { unfold spec_multi_body. rewrite Hpa. cbn [N.eqb]. rewrite pack16.
    destruct blocks as [|b bl]; [congruence|].
    assert (L : 1 <= lenN (flat_map (fun b0 : bytes * N => fst b0 ++ pack_fields [(snd b0, 16)]) (b :: bl))).
    { cbn [flat_map]. rewrite !lenN_app, pack16_one, (lenN_length (be_bytes 2 _)), be_bytes_length. lia. }
    destruct (tl (spec_block_offsets 0 2 (b :: bl)) ++ [h_crc h]) as [|q ps] eqn:E.
    { destruct (tl (spec_block_offsets 0 2 (b :: bl))); discriminate. }
    cbn [flat_map]. rewrite be_bytes_2. cbn [app]. eexists. eexists. eexists. split; [reflexivity|].
    rewrite lenN_app. cbn [flat_map] in L. unfold bytes in *. lia. }
  destruct B as (c0 & c1 & rest & B & Lr). rewrite B in *. cbn [skipn].
  pose proof (decode_hdr7 h (7 + lenN (c0 :: c1 :: rest)) c0 c1 rest tail st Hw Ha Lr) as D.
  rewrite Hpa in D. cbn [N.eqb app] in D. rewrite <- app_assoc. cbn [app]. apply D.
  - unfold spec_adts_hdr_len. rewrite Hpa. cbn [N.eqb]. rewrite !lenN_cons. lia.
  - exact Hlen.
Qed.

(* ... which is not the raw data blocks *)
Lemma decode_multi_crc_refuted :
  exists h blocks, multi_ok h blocks /\ h_pa h = 0 /\
    snd (adts_decode asc0 (spec_adts_frame_multi h blocks)) <> Ok (flat_map fst blocks, []).
Proof.
  exists (mk_hdr 0 0 0 1 4 0 2 0 0 0 0 2047 1 42405), [([1], 49920); ([2], 49921)].
  split; [|split; [reflexivity|vm_compute; discriminate]].
  unfold multi_ok, hdr_wf, hdr_accepted. cbn. repeat split; try lia; try discriminate.
  repeat constructor; cbn; lia.
Qed.

(* ---- the generated enum String helpers never panic (any integer) ---- *)
Ltac string_total :=
  repeat match goal with |- exists s, (if ?c then _ else _) = Ok s => destruct c end; eexists; reflexivity.
Lemma objecttype_string_total v : exists s, aac_ObjectType_String v = Ok s.
Proof. unfold aac_ObjectType_String. string_total. Qed.
Lemma profile_string_total v : exists s, aac_Profile_String v = Ok s.
Proof. unfold aac_Profile_String. string_total. Qed.
Lemma sampleindex_string_total v : exists s, aac_SampleRateIndex_String v = Ok s.
Proof. unfold aac_SampleRateIndex_String. string_total. Qed.
Lemma channels_string_total v : exists s, aac_Channels_String v = Ok s.
Proof. unfold aac_Channels_String. string_total. Qed.

(* ---- histories on one ADTS object ---- *)
Lemma adts_run_app st ops1 ops2 :
  adts_run st (ops1 ++ ops2) =
  (fst (adts_run (fst (adts_run st ops1)) ops2), snd (adts_run st ops1) ++ snd (adts_run (fst (adts_run st ops1)) ops2)).
Proof.
  revert st. induction ops1 as [|op ops1 IH]; intros st; cbn [app adts_run fst snd].
  - destruct (adts_run st ops2); reflexivity.
  - destruct (adts_step st op) as [st1 o]. rewrite IH.
    destruct (adts_run st1 ops1) as [st2 os]. cbn [fst snd].
    destruct (adts_run st2 ops2); reflexivity.
Qed.

(* after ANY history the frame Encode returns is a function of the configuration in force only,
   and Encode does not change it *)
Lemma adts_history_encode st ops raw :
  adts_run st (ops ++ [OpEncode raw]) =
  (fst (adts_run st ops), snd (adts_run st ops) ++ [OutEnc (adts_encode (fst (adts_run st ops)) raw)]).
Proof. rewrite adts_run_app. reflexivity. Qed.

Lemma adts_encode_by_validate a raw : lenN raw <= 8184 ->
  adts_encode a raw = match validate a with
                      | Ok _ => Ok (spec_adts_frame (encoder_hdr a) raw)
                      | Err e => Err e
                      | Panic s => Panic s
                      end.
Proof.
  intros H. destruct (validate a) as [[]|e|s] eqn:V.
  - apply encode_is_spec; [apply validate_spec; exact V|exact H].
  - unfold adts_encode. rewrite V. reflexivity.
  - unfold adts_encode. rewrite V. reflexivity.
Qed.

(* conformant histories: which operation establishes which configuration *)
Inductive cop : Type :=
| CSetASC (b0 b1 : N) (rest : bytes)          (* SetASC of at least two bytes: the 5+4+4 bit fields, accepted or not *)
| CSetShort (cfg : bytes)                      (* SetASC of fewer than two bytes: refused, nothing changes *)
| CAssign (a : asc)                            (* *adts.ASC() = a *)
| CDecode (h : adts_hdr) (raw tail : bytes)    (* Decode of a conformant single-block ISO frame (++ tail) *)
| CEncode (raw : bytes).

Definition cop_ok (c : cop) : Prop :=
  match c with
  | CSetASC b0 b1 _ => b0 < 256 /\ b1 < 256
  | CSetShort cfg => (length cfg < 2)%nat
  | CAssign _ => True
  | CDecode h raw _ => frame_ok (h, raw)
  | CEncode raw => lenN raw <= 8184
  end.

Definition cop_op (c : cop) : adts_op :=
  match c with
  | CSetASC b0 b1 rest => OpSetASC (b0 :: b1 :: rest)
  | CSetShort cfg => OpSetASC cfg
  | CAssign a => OpAssign a
  | CDecode h raw tail => OpDecode (spec_adts_frame h raw ++ tail)
  | CEncode raw => OpEncode raw
  end.

(* the configuration in force after an operation *)
Definition cop_cfg (cur : asc) (c : cop) : asc :=
  match c with
  | CSetASC b0 b1 _ => asc_fields b0 b1
  | CSetShort _ => cur
  | CAssign a => a
  | CDecode h _ _ => frame_asc h
  | CEncode _ => cur
  end.

(* what the operation returns, given the configuration in force before it *)
Definition cop_out (cur : asc) (c : cop) : adts_out :=
  match c with
  | CSetASC b0 b1 _ => OutSet (asc_fields b0 b1) (validate (asc_fields b0 b1))
  | CSetShort _ => OutSet cur (Err 8)
  | CAssign a => OutAssign a
  | CDecode h raw tail => OutDec (frame_asc h) (Ok (raw, tail))
  | CEncode raw => OutEnc (match validate cur with
                           | Ok _ => Ok (spec_adts_frame (encoder_hdr cur) raw)
                           | Err e => Err e
                           | Panic s => Panic s
                           end)
  end.

Fixpoint cops_outs (cur : asc) (cs : list cop) : list adts_out :=
  match cs with
  | [] => []
  | c :: rest => cop_out cur c :: cops_outs (cop_cfg cur c) rest
  end.

Lemma adts_step_cop st c : cop_ok c -> adts_step st (cop_op c) = (cop_cfg st c, cop_out st c).
Proof.
  destruct c as [b0 b1 rest|cfg|a|h raw tail|raw]; cbn [cop_ok cop_op cop_cfg cop_out adts_step]; intros H.
  - destruct H as [H0 H1]. rewrite asc_unmarshal_fields by assumption. reflexivity.
  - rewrite asc_unmarshal_short by exact H. reflexivity.
  - reflexivity.
  - destruct H as (Hw & Ha & H1 & H2). cbn [fst snd] in *. rewrite decode_spec_frame by assumption. reflexivity.
  - rewrite adts_encode_by_validate by exact H. reflexivity.
Qed.

Lemma adts_history cs : Forall cop_ok cs -> forall st,
  adts_run st (map cop_op cs) = (fold_left cop_cfg cs st, cops_outs st cs).
Proof.
  induction 1 as [|c cs Hc Hcs IH]; intros st; cbn [map adts_run fold_left cops_outs]; [reflexivity|].
  rewrite (adts_step_cop st c Hc), IH. reflexivity.
Qed.

Lemma adts_run_total ops : forall st, Forall (fun o => match o with
    | OutSet _ (Panic _) | OutEnc (Panic _) | OutDec _ (Panic _) => False | _ => True end) (snd (adts_run st ops)).
Proof.
  induction ops as [|op ops IH]; intros st; cbn [adts_run snd]; [constructor|].
  destruct (adts_step st op) as [st1 o] eqn:E. specialize (IH st1).
  destruct (adts_run st1 ops) as [st2 os]. cbn [snd] in *. constructor; [|exact IH].
  destruct op as [cfg|raw|d|a]; cbn [adts_step] in E.
  - pose proof (asc_unmarshal_total st cfg) as T. destruct (asc_unmarshal st cfg) as [a r]. injection E as <- <-.
    cbn [snd] in T. destruct r; try exact I. exact (T _ eq_refl).
  - injection E as <- <-. unfold adts_encode.
    pose proof (validate_no_panic st) as V. destruct (validate st) as [u|e|s]; cbn [bind]; try exact I; [|exact (V s eq_refl)].
    destruct (to_profile_total (aobj st)) as [p ->]. exact I.
  - pose proof (adts_decode_total st d) as T. destruct (adts_decode st d) as [a r]. injection E as <- <-.
    cbn [snd] in T. destruct r; try exact I. exact (T _ eq_refl).
  - injection E as <- <-. exact I.
Qed.
