(* Proofs about Model/Jose.v (C16, and the JOSE decoders of C07): base64url. *)
From Verif Require Import Lib.Base Lib.Sx Model.Jose.
Open Scope N_scope.
Ltac Zify.zify_post_hook ::= Z.div_mod_to_equations.

(* ------------------------------------------------------------------ generic *)
Lemma lenN_acc_spec l : forall a, lenN_acc a l = a + N.of_nat (length l).
Proof. induction l as [|x l IH]; intro a; cbn [lenN_acc length]; [lia|rewrite IH; lia]. Qed.
Lemma lenN_length l : lenN l = N.of_nat (length l).
Proof. unfold lenN. rewrite lenN_acc_spec. lia. Qed.
Lemma lenN_cons x l : lenN (x :: l) = 1 + lenN l.
Proof. rewrite !lenN_length. cbn [length]. lia. Qed.
Lemma lenN_app a b : lenN (a ++ b) = lenN a + lenN b.
Proof. rewrite !lenN_length, app_length. lia. Qed.
Lemma lenN_nil : lenN [] = 0.
Proof. reflexivity. Qed.

Lemma list_ind3 (P : bytes -> Prop) :
  P [] -> (forall x, P [x]) -> (forall x y, P [x; y]) ->
  (forall x y z t, P t -> P (x :: y :: z :: t)) -> forall l, P l.
Proof.
  intros H0 H1 H2 H3. fix IH 1.
  intros [|x [|y [|z t]]]; [exact H0 | apply H1 | apply H2 | apply H3; apply IH].
Qed.

Lemma in_range_64 v : v < 64 -> In v (map N.of_nat (seq 0 64)).
Proof.
  intro H. replace v with (N.of_nat (N.to_nat v)) by lia.
  apply in_map, in_seq. lia.
Qed.

Lemma bytes_eqb_eq a : forall b, bytes_eqb a b = true <-> a = b.
Proof.
  induction a as [|x a IH]; intros [|y b]; cbn [bytes_eqb]; split; intro H; try discriminate; auto.
  - apply andb_true_iff in H. destruct H as [H1 H2]. apply N.eqb_eq in H1. apply IH in H2. congruence.
  - inversion H; subst. rewrite N.eqb_refl. cbn. apply IH. reflexivity.
Qed.
Lemma bytes_eqb_refl a : bytes_eqb a a = true.
Proof. apply bytes_eqb_eq. reflexivity. Qed.

(* ------------------------------------------------------------------ alphabet *)
Definition is_b64_char (c : N) : Prop :=
  (65 <= c <= 90) \/ (97 <= c <= 122) \/ (48 <= c <= 57) \/ c = 45 \/ c = 95.

Lemma b64_char_is v : is_b64_char (b64_char v).
Proof.
  unfold b64_char, is_b64_char.
  destruct (N.ltb_spec v 26); [lia|].
  destruct (N.ltb_spec v 52); [lia|].
  destruct (N.ltb_spec v 62); [lia|].
  destruct (N.eqb_spec v 62); lia.
Qed.

Lemma b64_char_not_dot v : b64_char v <> ch_dot.
Proof. pose proof (b64_char_is v) as H. unfold is_b64_char, ch_dot in *. lia. Qed.
Lemma b64_char_not_eq v : b64_char v <> ch_eq.
Proof. pose proof (b64_char_is v) as H. unfold is_b64_char, ch_eq in *. lia. Qed.
Lemma b64_char_not_crlf v : not_crlf (b64_char v) = true.
Proof.
  pose proof (b64_char_is v) as H. unfold is_b64_char, not_crlf, is_crlf in *.
  destruct (N.eqb_spec (b64_char v) 10); [lia|]. destruct (N.eqb_spec (b64_char v) 13); [lia|]. reflexivity.
Qed.

Lemma b64_val_char v : v < 64 -> b64_val (b64_char v) = Some v.
Proof.
  intro H.
  assert (S : forallb (fun v => match b64_val (b64_char v) with Some w => w =? v | None => false end)
                (map N.of_nat (seq 0 64)) = true) by (vm_compute; reflexivity).
  rewrite forallb_forall in S. specialize (S v (in_range_64 v H)).
  destruct (b64_val (b64_char v)); [apply N.eqb_eq in S; subst; auto | discriminate].
Qed.

Lemma b64_val_eq : b64_val ch_eq = None.
Proof. reflexivity. Qed.

Lemma b64_val_lt c v : b64_val c = Some v -> v < 64.
Proof.
  unfold b64_val.
  destruct ((65 <=? c) && (c <=? 90)) eqn:E1.
  { apply andb_true_iff in E1. destruct E1 as [A B]. apply N.leb_le in A, B. intro E; inversion E; lia. }
  destruct ((97 <=? c) && (c <=? 122)) eqn:E2.
  { apply andb_true_iff in E2. destruct E2 as [A B]. apply N.leb_le in A, B. intro E; inversion E; lia. }
  destruct ((48 <=? c) && (c <=? 57)) eqn:E3.
  { apply andb_true_iff in E3. destruct E3 as [A B]. apply N.leb_le in A, B. intro E; inversion E; lia. }
  destruct (c =? 45); [intro E; inversion E; lia|].
  destruct (c =? 95); [intro E; inversion E; lia|]. discriminate.
Qed.

(* ------------------------------------------------------------------ encoder *)
Definition b64_pad (b : bytes) : bytes :=
  match (length b mod 3)%nat with 1%nat => [ch_eq; ch_eq] | 2%nat => [ch_eq] | _ => [] end.

Lemma b64_enc_no_eq b : Forall (fun c => c <> ch_eq) (b64_enc b).
Proof.
  induction b using list_ind3; cbn [b64_enc]; repeat constructor; auto using b64_char_not_eq.
Qed.
Lemma b64_enc_no_dot b : Forall (fun c => c <> ch_dot) (b64_enc b).
Proof.
  induction b using list_ind3; cbn [b64_enc]; repeat constructor; auto using b64_char_not_dot.
Qed.
Lemma b64_enc_alphabet b : Forall is_b64_char (b64_enc b).
Proof.
  induction b using list_ind3; cbn [b64_enc]; repeat (apply Forall_cons; [apply b64_char_is|]); auto.
Qed.

(* the padded encoder is the direct encoder followed by 0, 1 or 2 '=' *)
Lemma b64_enc_padded_split b :
  exists pad, b64_enc_padded b = b64_enc b ++ pad /\ (pad = [] \/ pad = [ch_eq] \/ pad = [ch_eq; ch_eq]).
Proof.
  induction b as [| x | x y | x y z t IH] using list_ind3.
  - exists []. cbn. auto.
  - exists [ch_eq; ch_eq]. cbn. auto.
  - exists [ch_eq]. cbn. auto.
  - destruct IH as (pad & E & Hp). exists pad. cbn [b64_enc_padded b64_enc]. rewrite E. cbn [app]. auto.
Qed.

Lemma drop_eq_all_eq pad l : Forall (fun c => c = ch_eq) pad -> drop_eq (pad ++ l) = drop_eq l.
Proof.
  induction 1 as [|c pad Hc _ IH]; cbn [app drop_eq]; auto. subst c. rewrite N.eqb_refl. exact IH.
Qed.

Lemma drop_eq_rev_no_eq l : Forall (fun c => c <> ch_eq) l -> drop_eq (rev l) = rev l.
Proof.
  intro H. apply Forall_rev in H. destruct (rev l) as [|c r]; [reflexivity|].
  inversion H; subst. cbn [drop_eq]. destruct (N.eqb_spec c ch_eq); [contradiction|reflexivity].
Qed.

Lemma trim_right_eq_app l pad :
  Forall (fun c => c <> ch_eq) l -> Forall (fun c => c = ch_eq) pad -> trim_right_eq (l ++ pad) = l.
Proof.
  intros Hl Hp. unfold trim_right_eq. rewrite rev_app_distr.
  rewrite drop_eq_all_eq by (apply Forall_rev; exact Hp).
  rewrite drop_eq_rev_no_eq by exact Hl. apply rev_involutive.
Qed.

(* base64URLEncode = the unpadded encoding *)
Lemma b64url_encode_direct b : b64url_encode b = b64_enc b.
Proof.
  unfold b64url_encode. destruct (b64_enc_padded_split b) as (pad & E & Hp). rewrite E.
  apply trim_right_eq_app; [apply b64_enc_no_eq|].
  destruct Hp as [->|[->| ->]]; repeat constructor.
Qed.

(* the padding arithmetic of base64URLDecode restores exactly the stripped padding *)
Lemma b64_missing_padding b :
  b64_enc b ++ repeatN ch_eq ((4 - lenN (b64_enc b) mod 4) mod 4) = b64_enc_padded b.
Proof.
  induction b as [| x | x y | x y z t IH] using list_ind3; try reflexivity.
  cbn [b64_enc b64_enc_padded]. rewrite <- IH. cbn [app]. do 4 f_equal.
  rewrite !lenN_cons.
  replace (1 + (1 + (1 + (1 + lenN (b64_enc t))))) with (lenN (b64_enc t) + 1 * 4) by lia.
  rewrite N.mod_add by lia. reflexivity.
Qed.

Lemma b64_enc_padded_no_crlf b : filter not_crlf (b64_enc_padded b) = b64_enc_padded b.
Proof.
  induction b as [| x | x y | x y z t IH] using list_ind3; cbn [b64_enc_padded filter];
    rewrite ?b64_char_not_crlf; try reflexivity.
  rewrite IH. reflexivity.
Qed.

Lemma byte_quanta x y z :
  x < 256 -> y < 256 -> z < 256 ->
  x / 4 < 64 /\ (x mod 4) * 16 + y / 16 < 64 /\ (y mod 16) * 4 + z / 64 < 64 /\ z mod 64 < 64 /\
  (x mod 4) * 16 < 64 /\ (y mod 16) * 4 < 64.
Proof. intros. repeat split; lia. Qed.

Lemma b64_dec_std_padded b : wf_bytes b -> b64_dec_std (b64_enc_padded b) = Some b.
Proof.
  induction b as [| x | x y | x y z t IH] using list_ind3; intro W.
  - reflexivity.
  - inversion W as [|? ? Hx _]; subst. unfold wf_byte in Hx.
    destruct (byte_quanta x 0 0 Hx) as (A & _ & _ & _ & B & _); try lia.
    cbn [b64_enc_padded b64_dec_std]. rewrite (b64_val_char _ A), (b64_val_char _ B), b64_val_eq.
    rewrite N.eqb_refl. cbn [andb is_nil]. do 3 f_equal. lia.
  - inversion W as [|? ? Hx W1]; subst. inversion W1 as [|? ? Hy _]; subst. unfold wf_byte in *.
    destruct (byte_quanta x y 0 Hx Hy) as (A & B & _ & _ & _ & C); try lia.
    cbn [b64_enc_padded b64_dec_std]. rewrite (b64_val_char _ A), (b64_val_char _ B), (b64_val_char _ C), b64_val_eq.
    rewrite N.eqb_refl. cbn [andb is_nil]. do 2 f_equal; [lia|f_equal; lia].
  - inversion W as [|? ? Hx W1]; subst. inversion W1 as [|? ? Hy W2]; subst. inversion W2 as [|? ? Hz W3]; subst.
    unfold wf_byte in *.
    destruct (byte_quanta x y z Hx Hy Hz) as (A & B & C & D & _ & _).
    cbn [b64_enc_padded b64_dec_std]. rewrite (b64_val_char _ A), (b64_val_char _ B), (b64_val_char _ C), (b64_val_char _ D).
    rewrite (IH W3). do 2 f_equal; [lia|f_equal; [lia|f_equal; lia]].
Qed.

(* c16_b64, first clause *)
Lemma b64_dec_enc b : wf_bytes b -> b64url_decode (b64url_encode b) = Some b.
Proof.
  intro W. rewrite b64url_encode_direct. unfold b64url_decode.
  rewrite b64_missing_padding, b64_enc_padded_no_crlf. apply b64_dec_std_padded. exact W.
Qed.

Lemma b64url_encode_injective a b : wf_bytes a -> wf_bytes b -> b64url_encode a = b64url_encode b -> a = b.
Proof.
  intros Wa Wb E. pose proof (b64_dec_enc a Wa) as Ha. rewrite E, (b64_dec_enc b Wb) in Ha. congruence.
Qed.

Lemma b64url_encode_no_dot b : Forall (fun c => c <> ch_dot) (b64url_encode b).
Proof. rewrite b64url_encode_direct. apply b64_enc_no_dot. Qed.
Lemma b64url_encode_alphabet b : Forall is_b64_char (b64url_encode b).
Proof. rewrite b64url_encode_direct. apply b64_enc_alphabet. Qed.

(* decoder output is well-formed bytes *)
Lemma b64_dec_std_wf s : forall b, b64_dec_std s = Some b -> wf_bytes b.
Proof.
  assert (G : forall n s, (length s <= n)%nat -> forall b, b64_dec_std s = Some b -> wf_bytes b).
  { induction n as [|n IH]; intros s0 L b0.
    - destruct s0; [|cbn in L; lia]. cbn. intro E; inversion E. constructor.
    - destruct s0 as [|c0 [|c1 [|c2 [|c3 t]]]]; cbn [b64_dec_std]; try discriminate.
      { intro E; inversion E. constructor. }
      destruct (b64_val c0) as [v0|] eqn:E0; [|discriminate].
      destruct (b64_val c1) as [v1|] eqn:E1; [|discriminate].
      apply b64_val_lt in E0, E1.
      destruct (b64_val c2) as [v2|] eqn:E2.
      + apply b64_val_lt in E2. destruct (b64_val c3) as [v3|] eqn:E3.
        * apply b64_val_lt in E3. destruct (b64_dec_std t) as [r|] eqn:Er; [|discriminate].
          intro E; inversion E; subst. cbn [length] in L.
          assert (Wr : wf_bytes r) by (apply (IH t); [lia|exact Er]).
          repeat constructor; unfold wf_byte; try lia. exact Wr.
        * destruct ((c3 =? ch_eq) && is_nil t); [|discriminate].
          intro E; inversion E; subst. repeat constructor; unfold wf_byte; lia.
      + destruct ((c2 =? ch_eq) && (c3 =? ch_eq) && is_nil t); [|discriminate].
        intro E; inversion E; subst. repeat constructor; unfold wf_byte; lia. }
  intros b. apply (G (length s) s). lia.
Qed.

Lemma b64url_decode_wf s b : b64url_decode s = Some b -> wf_bytes b.
Proof. unfold b64url_decode. apply b64_dec_std_wf. Qed.
