(* Proofs about Model/Jose.v (C16, and the JOSE decoders of C07). *)
From Verif Require Import Lib.Base Lib.Sx Model.Jose.
Open Scope N_scope.

Lemma b64_char_not_dot v : b64_char v <> ch_dot.
Proof.
  unfold b64_char, ch_dot.
  destruct (N.ltb_spec v 26); [lia|].
  destruct (N.ltb_spec v 52); [lia|].
  destruct (N.ltb_spec v 62); [lia|].
  destruct (N.eqb_spec v 62); lia.
Qed.
