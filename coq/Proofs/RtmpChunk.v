(* RTMP chunk stream: basic facts about the transport model, segmentation independence
   (read_segs_concat), and totality of the reader (no Go panic from any reachable state). *)
From Verif Require Import Lib.Base Lib.Sx Model.RtmpChunk.
From Verif Require Import Gen.Gen_rtmp.
Open Scope N_scope.
Ltac Zify.zify_post_hook ::= Z.div_mod_to_equations.

(* ---------- constants ---------- *)
Lemma EXT_eq : EXT = 16777215. Proof. reflexivity. Qed.
Lemma DEFCHUNK_eq : DEFCHUNK = 128. Proof. reflexivity. Qed.
Lemma F0_eq : F0 = 0. Proof. reflexivity. Qed.
Lemma F1_eq : F1 = 1. Proof. reflexivity. Qed.
Lemma F2_eq : F2 = 2. Proof. reflexivity. Qed.
Lemma F3_eq : F3 = 3. Proof. reflexivity. Qed.
Lemma CID_PC_eq : CID_PC = 2. Proof. reflexivity. Qed.
Lemma MT_SCS_eq : MT_SCS = 1. Proof. reflexivity. Qed.
Lemma MT_UC_eq : MT_UC = 4. Proof. reflexivity. Qed.
Lemma MT_WAS_eq : MT_WAS = 5. Proof. reflexivity. Qed.
Lemma EV_FMS0_eq : EV_FMS0 = 26. Proof. reflexivity. Qed.
Lemma EV_SETBUF_eq : EV_SETBUF = 3. Proof. reflexivity. Qed.
Lemma hdr_size_0 : hdr_size 0 = 11. Proof. reflexivity. Qed.
Lemma hdr_size_1 : hdr_size 1 = 7. Proof. reflexivity. Qed.
Lemma hdr_size_2 : hdr_size 2 = 3. Proof. reflexivity. Qed.
Lemma hdr_size_3 : hdr_size 3 = 0. Proof. reflexivity. Qed.
Ltac consts :=
  rewrite ?EXT_eq, ?DEFCHUNK_eq, ?F0_eq, ?F1_eq, ?F2_eq, ?F3_eq, ?CID_PC_eq, ?MT_SCS_eq, ?MT_UC_eq,
    ?MT_WAS_eq, ?EV_FMS0_eq, ?EV_SETBUF_eq in *.

(* ---------- lists ---------- *)
Lemma frev_rev {A} (l : list A) : frev l = rev l.
Proof. unfold frev. rewrite rev_append_rev. apply app_nil_r. Qed.

Lemma lenN_acc_length b : forall acc, lenN_acc acc b = acc + N.of_nat (length b).
Proof.
  induction b as [|x t IH]; intros acc; cbn [lenN_acc length].
  - lia.
  - rewrite IH. lia.
Qed.
Lemma lenN_length b : lenN b = N.of_nat (length b).
Proof. unfold lenN. rewrite lenN_acc_length. lia. Qed.
Lemma lenN_app a b : lenN (a ++ b) = lenN a + lenN b.
Proof. rewrite !lenN_length, app_length. lia. Qed.

(* ---------- upto / stake ---------- *)
Lemma upto_spec b : forall n,
  upto b n = (firstn (N.to_nat n) b, skipn (N.to_nat n) b, n - lenN b).
Proof.
  induction b as [|x t IH]; intros n; cbn [upto].
  - rewrite firstn_nil, skipn_nil. f_equal. unfold lenN. cbn. lia.
  - destruct (N.eqb_spec n 0) as [->|Hn].
    + cbn. reflexivity.
    + rewrite IH.
      assert (E : N.to_nat n = S (N.to_nat (N.pred n))) by lia.
      rewrite E. cbn [firstn skipn]. f_equal. rewrite !lenN_length. cbn [length]. lia.
Qed.

Lemma upto_app a r : upto (a ++ r) (lenN a) = (a, r, 0).
Proof.
  rewrite upto_spec, lenN_length, Nat2N.id.
  rewrite firstn_app, Nat.sub_diag, firstn_all, firstn_O, app_nil_r.
  rewrite skipn_app, Nat.sub_diag, skipn_all, skipn_O. cbn [app].
  f_equal. rewrite lenN_length, app_length. lia.
Qed.

(* exactly-n reads succeed on a segment that starts with those n bytes *)
Lemma stake_app a r rest : stake ((a ++ r) :: rest) (lenN a) = Ok (a, r :: rest).
Proof. cbn [stake]. rewrite upto_app. reflexivity. Qed.

Lemma stake1_cons t r rest : stake1 ((t :: r) :: rest) = Ok (t, r :: rest).
Proof. unfold stake1. change (t :: r) with ([t] ++ r). change 1 with (lenN [t]). rewrite stake_app. reflexivity. Qed.

(* what a read returns is determined by the concatenation of the segments *)
Definition flat (i : inp) : bytes := concat i.

Lemma stake_flat i : forall n,
  match stake i n with
  | Ok (a, i') => n <= lenN (flat i) /\ a = firstn (N.to_nat n) (flat i) /\ flat i' = skipn (N.to_nat n) (flat i)
  | Err e => lenN (flat i) < n /\ e = (if lenN (flat i) =? 0 then E_EOF else E_UEOF)
  | Panic _ => False
  end.
Proof.
  induction i as [|s rest IH]; intros n; cbn [stake flat concat].
  - destruct (N.eqb_spec n 0) as [->|Hn].
    + cbn. repeat split. unfold lenN; cbn; lia.
    + split; [unfold lenN; cbn; lia|reflexivity].
  - rewrite upto_spec. fold (flat rest).
    destruct (N.eqb_spec (n - lenN s) 0) as [Hk|Hk].
    + rewrite lenN_app. split; [lia|]. rewrite lenN_length in Hk. cbn [flat concat].
      split.
      * rewrite firstn_app. replace (N.to_nat n - length s)%nat with 0%nat by lia.
        now rewrite firstn_O, app_nil_r.
      * fold (flat rest). rewrite skipn_app. replace (N.to_nat n - length s)%nat with 0%nat by lia.
        now rewrite skipn_O.
    + specialize (IH (n - lenN s)). rewrite lenN_length in Hk.
      assert (Hf : firstn (N.to_nat n) s = s) by (apply firstn_all2; lia).
      assert (Hnat : (N.to_nat n - length s)%nat = N.to_nat (n - lenN s)) by (rewrite lenN_length; lia).
      rewrite Hf.
      destruct (stake rest (n - lenN s)) as [[a' segs']|e|p].
      * destruct IH as (H1 & H2 & H3). rewrite lenN_app. split; [rewrite !lenN_length in *; lia|]. split.
        -- rewrite firstn_app, Hf, Hnat. now rewrite H2.
        -- rewrite skipn_app, Hnat, H3. rewrite (skipn_all2 s) by lia. reflexivity.
      * destruct IH as (H1 & H2). rewrite lenN_app.
        destruct s as [|s0 s'].
        -- split; [unfold lenN in *; cbn in *; lia|]. cbn [app]. rewrite H2. unfold lenN at 3. cbn. reflexivity.
        -- split; [rewrite !lenN_length in *; cbn [length] in *; lia|].
           assert ((lenN (s0 :: s') + lenN (flat rest) =? 0) = false) as ->; [|reflexivity].
           apply N.eqb_neq. rewrite lenN_length. cbn [length]. lia.
      * exact IH.
Qed.

(* results of readers: a value and the remaining transport, an error, or a panic *)
Definition same_res {A} (r1 r2 : res (A * inp)) : Prop :=
  match r1, r2 with
  | Ok (a, i1), Ok (b, i2) => a = b /\ flat i1 = flat i2
  | Err e1, Err e2 => e1 = e2
  | Panic p1, Panic p2 => p1 = p2
  | _, _ => False
  end.

Lemma same_bind {A B} (r1 r2 : res (A * inp)) (k1 k2 : A * inp -> res (B * inp)) :
  same_res r1 r2 ->
  (forall a i1 i2, flat i1 = flat i2 -> same_res (k1 (a, i1)) (k2 (a, i2))) ->
  same_res (bind r1 k1) (bind r2 k2).
Proof.
  intros H K. destruct r1 as [[a i1]|e1|p1], r2 as [[b i2]|e2|p2]; cbn in *; try contradiction; auto.
  destruct H as [-> H]. now apply K.
Qed.

Lemma same_refl_err {A} e : @same_res A (Err e) (Err e). Proof. reflexivity. Qed.
Lemma same_refl_panic {A} p : @same_res A (Panic p) (Panic p). Proof. reflexivity. Qed.
Lemma same_ok {A} (a : A) i1 i2 : flat i1 = flat i2 -> same_res (Ok (a, i1)) (Ok (a, i2)).
Proof. intros H. cbn. auto. Qed.

Lemma stake_same i1 i2 n : flat i1 = flat i2 -> same_res (stake i1 n) (stake i2 n).
Proof.
  intros H. pose proof (stake_flat i1 n) as A1. pose proof (stake_flat i2 n) as A2.
  rewrite <- H in A2.
  destruct (stake i1 n) as [[a i1']|e1|p1], (stake i2 n) as [[b i2']|e2|p2]; cbn; try contradiction.
  - destruct A1 as (_ & -> & ->), A2 as (_ & -> & ->). auto.
  - destruct A1 as (A1 & _), A2 as (A2 & _). lia.
  - destruct A1 as (A1 & _), A2 as (A2 & _). lia.
  - destruct A1 as (_ & ->), A2 as (_ & ->). reflexivity.
Qed.

Lemma stake1_same i1 i2 : flat i1 = flat i2 -> same_res (stake1 i1) (stake1 i2).
Proof.
  intros H. unfold stake1. apply same_bind; [now apply stake_same|].
  intros a j1 j2 Hj. destruct a as [|t [|u l]]; cbn; auto.
Qed.

Lemma read_basic_header_same i1 i2 :
  flat i1 = flat i2 -> same_res (read_basic_header i1) (read_basic_header i2).
Proof.
  intros H. unfold read_basic_header. apply same_bind; [now apply stake1_same|].
  intros t j1 j2 Hj. destruct (1 <? t mod 64); [now apply same_ok|].
  apply same_bind; [now apply stake1_same|].
  intros t2 k1 k2 Hk. destruct (t mod 64 =? 1); [|now apply same_ok].
  apply same_bind; [now apply stake1_same|].
  intros t3 l1 l2 Hl. now apply same_ok.
Qed.

Lemma read_message_header_same cid st fmt i1 i2 :
  flat i1 = flat i2 -> same_res (read_message_header cid st fmt i1) (read_message_header cid st fmt i2).
Proof.
  intros H. unfold read_message_header.
  destruct ((c_count st =? 0) && negb (fmt =? F0) && negb ((cid =? CID_PC) && (fmt =? F1))); [reflexivity|].
  destruct (negb (match c_part st with None => true | Some _ => false end) && (fmt =? F0)); [reflexivity|].
  apply same_bind; [now apply stake_same|].
  intros p j1 j2 Hj.
  match goal with |- same_res (bind ?X _) (bind ?X _) => destruct X as [[h1 e1]|e|q]; cbn [bind]; try reflexivity end.
  destruct e1.
  - apply same_bind; [apply same_bind; [now apply stake_same|]|].
    + intros t k1 k2 Hk. destruct t as [|a [|b [|c [|d [|z l]]]]]; cbn; auto.
    + intros ts k1 k2 Hk. now apply same_ok.
  - cbn [bind]. now apply same_ok.
Qed.

Lemma read_payload_same inchunk cid st i1 i2 :
  flat i1 = flat i2 -> same_res (read_payload inchunk cid st i1) (read_payload inchunk cid st i2).
Proof.
  intros H. unfold read_payload.
  destruct (match c_part st with None => ([], 0) | Some g => g end) as [got gl].
  destruct (h_len (c_hdr st) =? 0); [now apply same_ok|].
  destruct (h_len (c_hdr st) <? gl); [reflexivity|].
  apply same_bind; [now apply stake_same|].
  intros d j1 j2 Hj.
  destruct (gl + N.min (h_len (c_hdr st) - gl) inchunk =? h_len (c_hdr st)); now apply same_ok.
Qed.

Lemma read_chunk_same s i1 i2 :
  flat i1 = flat i2 -> same_res (read_chunk s i1) (read_chunk s i2).
Proof.
  intros H. unfold read_chunk. apply same_bind; [now apply read_basic_header_same|].
  intros [fmt cid] j1 j2 Hj.
  apply same_bind; [now apply read_message_header_same|].
  intros st1 k1 k2 Hk.
  apply same_bind; [now apply read_payload_same|].
  intros [om st2] l1 l2 Hl.
  destruct om as [m|]; [|now apply same_ok].
  destruct (on_message_arrived (in_chunk s) m); cbn [bind]; try reflexivity. now apply same_ok.
Qed.

Lemma read_message_same fuel : forall s i1 i2,
  flat i1 = flat i2 -> same_res (read_message fuel s i1) (read_message fuel s i2).
Proof.
  induction fuel as [|f IH]; intros s i1 i2 H; cbn [read_message]; [reflexivity|].
  apply same_bind; [now apply read_chunk_same|].
  intros [om s1] j1 j2 Hj. destruct om as [m|]; [now apply same_ok|]. now apply IH.
Qed.

Lemma read_all_same fuel : forall s i1 i2 acc,
  flat i1 = flat i2 -> read_all fuel s i1 acc = read_all fuel s i2 acc.
Proof.
  induction fuel as [|f IH]; intros s i1 i2 acc H; [reflexivity|].
  cbn [read_all]. pose proof (read_message_same (S f) s i1 i2 H) as R.
  destruct (read_message (S f) s i1) as [[[m s1] j1]|e1|p1],
           (read_message (S f) s i2) as [[[m' s1'] j2]|e2|p2]; cbn in R; try contradiction.
  - destruct R as [E Hj]. inversion E; subst. now apply IH.
  - now subst.
  - now subst.
Qed.

Lemma copy_n_same i1 i2 n : flat i1 = flat i2 -> same_res (copy_n i1 n) (copy_n i2 n).
Proof.
  intros H. unfold copy_n. pose proof (stake_same i1 i2 n H) as R.
  destruct (stake i1 n) as [[a j1]|e1|p1], (stake i2 n) as [[b j2]|e2|p2]; cbn in *; auto; contradiction.
Qed.

(* ---------- totality: the reader never panics ---------- *)
Definition cs_ok (st : cstate) : Prop :=
  match c_part st with Some (_, gl) => gl < h_len (c_hdr st) | None => True end.
Definition rs_ok (s : rstate) : Prop := forall cid, cs_ok (get_chunk (chunks s) cid).

Lemma get_set_same l cid v : get_chunk (set_chunk l cid v) cid = v.
Proof.
  induction l as [|[k w] t IH]; cbn [set_chunk get_chunk].
  - now rewrite N.eqb_refl.
  - destruct (N.eqb_spec k cid) as [->|Hk]; cbn [get_chunk].
    + now rewrite N.eqb_refl.
    + apply N.eqb_neq in Hk. now rewrite Hk.
Qed.
Lemma get_set_other l cid v k : k <> cid -> get_chunk (set_chunk l cid v) k = get_chunk l k.
Proof.
  intros Hk. induction l as [|[k' w] t IH]; cbn [set_chunk get_chunk].
  - assert ((cid =? k) = false) as -> by (apply N.eqb_neq; congruence). reflexivity.
  - destruct (N.eqb_spec k' cid) as [->|Hk']; cbn [get_chunk].
    + assert ((cid =? k) = false) as -> by (apply N.eqb_neq; congruence). reflexivity.
    + destruct (k' =? k); auto.
Qed.

Lemma rs0_ok : rs_ok rs0.
Proof. intros cid. cbn. exact I. Qed.

Lemma stake_len i n a i' : stake i n = Ok (a, i') -> length a = N.to_nat n.
Proof.
  intros H. pose proof (stake_flat i n) as S. rewrite H in S. destruct S as (S1 & -> & _).
  rewrite firstn_length. rewrite lenN_length in S1. lia.
Qed.

Lemma stake1_total i : forall p, stake1 i <> Panic p.
Proof.
  intros p. unfold stake1. pose proof (stake_flat i 1) as S.
  destruct (stake i 1) as [[b i1]|e|q] eqn:E; cbn [bind]; try discriminate; try contradiction.
  apply stake_len in E. destruct b as [|t [|u l]]; cbn in E; try discriminate.
Qed.

Lemma stake_total i n p : stake i n <> Panic p.
Proof. pose proof (stake_flat i n) as S. destruct (stake i n); try discriminate. contradiction. Qed.

Lemma read_basic_header_total i p : read_basic_header i <> Panic p.
Proof.
  unfold read_basic_header.
  destruct (stake1 i) as [[t i1]|e|q] eqn:E1; cbn [bind]; try discriminate; [|now apply stake1_total in E1].
  destruct (1 <? t mod 64); [discriminate|].
  destruct (stake1 i1) as [[t2 i2]|e|q] eqn:E2; cbn [bind]; try discriminate; [|now apply stake1_total in E2].
  destruct (t mod 64 =? 1); [|discriminate].
  destruct (stake1 i2) as [[t3 i3]|e|q] eqn:E3; cbn [bind]; try discriminate. now apply stake1_total in E3.
Qed.

(* the header step keeps "received so far < announced length" and never panics *)
Lemma read_message_header_ok cid st fmt i : fmt < 4 -> cs_ok st ->
  match read_message_header cid st fmt i with
  | Ok (st1, _) => cs_ok st1
  | Err _ => True
  | Panic _ => False
  end.
Proof.
  intros Hf Hok. unfold read_message_header.
  destruct ((c_count st =? 0) && negb (fmt =? F0) && negb ((cid =? CID_PC) && (fmt =? F1))); [exact I|].
  destruct (negb (match c_part st with None => true | Some _ => false end) && (fmt =? F0)) eqn:Hex; [exact I|].
  destruct (stake i (hdr_size fmt)) as [[p i1]|e|q] eqn:E; cbn [bind]; try exact I; [|now apply stake_total in E].
  apply stake_len in E.
  assert (Hcases : fmt = 0 \/ fmt = 1 \/ fmt = 2 \/ fmt = 3) by lia.
  assert (Hfin : forall h1 e1 i1,
     (match c_part st with Some (_, gl) => gl < h_len h1 | None => True end) ->
     match (let* (ts2, i2) := (if e1 : bool then let* (t, i2) := stake i1 4 in
                                  match t with [a; b; c; d] => Ok (ube4 a b c d mod T31, i2) | _ => Panic 3 end
                               else Ok (h_ts h1, i1)) in
            Ok (mkcs (set_ts h1 (ts2 mod T31)) e1 (c_count st + 1) (c_part st), i2)) with
     | Ok (st1, _) => cs_ok st1 | Err _ => True | Panic _ => False end).
  { intros h1 e1 j1 Hh. destruct e1; cbn [bind].
    - destruct (stake j1 4) as [[t j2]|e|q] eqn:E4; cbn [bind]; try exact I; [|now apply stake_total in E4].
      apply stake_len in E4. destruct t as [|a [|b [|c [|d [|z l]]]]]; cbn in E4; try discriminate.
      cbn [bind]. unfold cs_ok. cbn. exact Hh.
    - unfold cs_ok. cbn. exact Hh. }
  unfold cs_ok in Hok.
  destruct Hcases as [-> | [-> | [-> | ->]]]; consts.
  - (* fmt 0: no partial message (else rejected above) *)
    rewrite hdr_size_0 in E. do 12 (destruct p as [|? p]; cbn in E; try discriminate).
    cbn [N.leb N.compare Pos.compare N.eqb].
    destruct (c_part st) as [[got gl]|] eqn:Hp; cbn in Hex; [discriminate|].
    cbn [negb andb]. cbn [bind]. apply Hfin. exact I.
  - rewrite hdr_size_1 in E. do 8 (destruct p as [|? p]; cbn in E; try discriminate).
    change (1 <=? 2) with true. change (1 <=? 1) with true. change (1 =? 0) with false. cbv iota.
    destruct (c_part st) as [[got gl]|] eqn:Hp; cbn [negb andb].
    + destruct (N.eqb_spec (h_len (c_hdr st)) (ube3 n2 n3 n4)) as [El|Nl]; cbn [negb]; [|exact I].
      cbn [bind]. apply Hfin. cbn [h_len]. now rewrite <- El.
    + cbn [bind]. apply Hfin. exact I.
  - rewrite hdr_size_2 in E. do 4 (destruct p as [|? p]; cbn in E; try discriminate).
    change (2 <=? 2) with true. change (2 <=? 1) with false. cbv iota.
    cbn [bind]. apply Hfin. destruct (c_part st) as [[got gl]|]; [exact Hok|exact I].
  - change (3 <=? 2) with false. cbv iota. cbn [bind]. apply Hfin.
    destruct (c_part st) as [[got gl]|]; [|exact I].
    cbn [andb]. exact Hok.
Qed.

Lemma read_payload_ok inchunk cid st i : cs_ok st ->
  match read_payload inchunk cid st i with
  | Ok (_, st2, _) => cs_ok st2
  | Err _ => True
  | Panic _ => False
  end.
Proof.
  intros Hok. unfold read_payload, cs_ok in *.
  destruct (c_part st) as [[got gl]|] eqn:Hp.
  - destruct (N.eqb_spec (h_len (c_hdr st)) 0) as [E0|Hn0]; [cbn; exact I|].
    destruct (N.ltb_spec (h_len (c_hdr st)) gl) as [Hl|Hl]; [lia|].
    destruct (stake i _) as [[d i1]|e|q] eqn:E; cbn [bind]; try exact I; [|now apply stake_total in E].
    destruct (N.eqb_spec (gl + N.min (h_len (c_hdr st) - gl) inchunk) (h_len (c_hdr st))); cbn; [exact I|lia].
  - destruct (N.eqb_spec (h_len (c_hdr st)) 0) as [E0|Hn0]; [cbn; exact I|].
    destruct (N.ltb_spec (h_len (c_hdr st)) 0) as [Hl|Hl]; [lia|].
    destruct (stake i _) as [[d i1]|e|q] eqn:E; cbn [bind]; try exact I; [|now apply stake_total in E].
    destruct (N.eqb_spec (0 + N.min (h_len (c_hdr st) - 0) inchunk) (h_len (c_hdr st))); cbn; [exact I|lia].
Qed.

Lemma on_message_arrived_total c m p : on_message_arrived c m <> Panic p.
Proof.
  unfold on_message_arrived.
  destruct (m_type m =? MT_SCS). { destruct (m_payload m) as [|a [|b [|c' [|d l]]]]; discriminate. }
  destruct (m_type m =? MT_WAS). { destruct (m_payload m) as [|a [|b [|c' [|d l]]]]; discriminate. }
  destruct (m_type m =? MT_UC); [|discriminate].
  destruct (m_payload m) as [|a [|b [|c' l]]]; try discriminate.
  destruct (has_len _ _); discriminate.
Qed.

Lemma read_basic_header_fmt i fmt cid i1 : read_basic_header i = Ok (fmt, cid, i1) -> fmt < 4.
Proof.
  unfold read_basic_header.
  destruct (stake1 i) as [[t j1]|e|q]; cbn [bind]; try discriminate.
  destruct (1 <? t mod 64). { intros H. inversion H. lia. }
  destruct (stake1 j1) as [[t2 j2]|e|q]; cbn [bind]; try discriminate.
  destruct (t mod 64 =? 1).
  - destruct (stake1 j2) as [[t3 j3]|e|q]; cbn [bind]; try discriminate. intros H. inversion H. lia.
  - intros H. inversion H. lia.
Qed.

Lemma read_chunk_ok s i : rs_ok s ->
  match read_chunk s i with
  | Ok (_, s', _) => rs_ok s'
  | Err _ => True
  | Panic _ => False
  end.
Proof.
  intros Hs. unfold read_chunk.
  destruct (read_basic_header i) as [[[fmt cid] i1]|e|q] eqn:E1; cbn [bind]; try exact I;
    [|now apply read_basic_header_total in E1].
  apply read_basic_header_fmt in E1.
  pose proof (read_message_header_ok cid (get_chunk (chunks s) cid) fmt i1 E1 (Hs cid)) as H2.
  destruct (read_message_header cid _ fmt i1) as [[st1 i2]|e|q]; cbn [bind]; try exact I; [|contradiction].
  pose proof (read_payload_ok (in_chunk s) cid st1 i2 H2) as H3.
  destruct (read_payload (in_chunk s) cid st1 i2) as [[[om st2] i3]|e|q]; cbn [bind]; try exact I; [|contradiction].
  assert (Hn : forall c, rs_ok (mkrs c (set_chunk (chunks s) cid st2))).
  { intros c k. cbn [chunks]. destruct (N.eq_dec k cid) as [->|Hk].
    - now rewrite get_set_same.
    - rewrite get_set_other by auto. apply Hs. }
  destruct om as [m|]; [|apply Hn].
  destruct (on_message_arrived (in_chunk s) m) as [c|e|q] eqn:E4; cbn [bind]; try exact I; [apply Hn|].
  now apply on_message_arrived_total in E4.
Qed.

(* ReadMessage never panics, whatever the bytes, from every state reachable from NewProtocol,
   and leaves a reachable state *)
Lemma read_message_ok fuel : forall s i, rs_ok s ->
  match read_message fuel s i with
  | Ok (_, s', _) => rs_ok s'
  | Err _ => True
  | Panic _ => False
  end.
Proof.
  induction fuel as [|f IH]; intros s i Hs; cbn [read_message]; [exact I|].
  pose proof (read_chunk_ok s i Hs) as H.
  destruct (read_chunk s i) as [[[om s1] i1]|e|q]; cbn [bind]; try exact I; [|contradiction].
  destruct om as [m|]; [exact H|]. now apply IH.
Qed.

Theorem rtmp_read_total fuel s i p : rs_ok s -> read_message fuel s i <> Panic p.
Proof.
  intros Hs E. pose proof (read_message_ok fuel s i Hs) as H. now rewrite E in H.
Qed.

Theorem rtmp_read_reachable fuel s i m s' i' :
  rs_ok s -> read_message fuel s i = Ok (m, s', i') -> rs_ok s'.
Proof.
  intros Hs E. pose proof (read_message_ok fuel s i Hs) as H. now rewrite E in H.
Qed.

Lemma copy_n_total i n p : copy_n i n <> Panic p.
Proof.
  unfold copy_n. destruct (stake i n) eqn:E; try discriminate. now apply stake_total in E.
Qed.
