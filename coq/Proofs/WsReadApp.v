(* C14 proofs, part 6: the write side does not interfere with the reader.  The reader's results
   depend on the connection state only through the read fields: whatever the application has
   written (its own Close included: the close-sent latch) and whatever was written back before, the
   same messages and the same errors are returned; and once the latch is set nothing more is
   written. *)
From Verif Require Import Lib.Base Lib.Sx Lib.Utf8 Model.WsRead Proofs.WsReadUtf8 Proofs.WsRead Proofs.WsReadRefine Proofs.WsReadProps.
From Verif Require Import Gen.Gen_websocket.
Open Scope Z_scope.

(* equal up to the write side (frames written, close-sent latch) *)
Definition R (c1 c2 : conn) : Prop := set_out c1 [] false = set_out c2 [] false.

Lemma R_refl c : R c c. Proof. reflexivity. Qed.
Lemma R_fields c1 c2 : R c1 c2 ->
  c_server c1 = c_server c2 /\ c_limit c1 = c_limit c2 /\ c_rem c1 = c_rem c2 /\ c_final c1 = c_final c2 /\
  c_len c1 = c_len c2 /\ c_err c1 = c_err c2 /\ c_errcount c1 = c_errcount c2 /\ c_key c1 = c_key c2 /\ c_in c1 = c_in c2.
Proof. unfold R, set_out. intros H. inversion H. repeat split; assumption. Qed.
Lemma R_intro c1 c2 :
  c_server c1 = c_server c2 -> c_limit c1 = c_limit c2 -> c_rem c1 = c_rem c2 -> c_final c1 = c_final c2 ->
  c_len c1 = c_len c2 -> c_err c1 = c_err c2 -> c_errcount c1 = c_errcount c2 -> c_key c1 = c_key c2 -> c_in c1 = c_in c2 ->
  R c1 c2.
Proof. intros. unfold R, set_out. congruence. Qed.

Ltac Rsplit H := apply R_fields in H; destruct H as (?Fs&?Fl&?Fr&?Ff&?Fn&?Fe&?Fc&?Fk&?Fi).
Ltac Rgoal := apply R_intro; cbn; congruence.

Definition rel {A} (m1 m2 : mres A) : Prop :=
  match m1, m2 with
  | MOk c1 a1, MOk c2 a2 => R c1 c2 /\ a1 = a2
  | MErr c1 e1, MErr c2 e2 => R c1 c2 /\ e1 = e2
  | MPanic s1, MPanic s2 => s1 = s2
  | _, _ => False
  end.

Lemma rel_bind {A B} (m1 m2 : mres A) (K : conn -> A -> mres B) :
  rel m1 m2 -> (forall c1 c2 a, R c1 c2 -> rel (K c1 a) (K c2 a)) -> rel (mbind m1 K) (mbind m2 K).
Proof.
  intros H HK. destruct m1 as [c1 a1|c1 e1|s1], m2 as [c2 a2|c2 e2|s2]; cbn in H; try contradiction; cbn [mbind].
  - destruct H as [H ->]. apply HK. exact H.
  - exact H.
  - exact H.
Qed.

Lemma rel_readn n c1 c2 : R c1 c2 -> rel (c_readn n c1) (c_readn n c2).
Proof.
  intros H. pose proof H as H'. Rsplit H'. unfold c_readn.
  replace (c_in c2) with (c_in c1) by assumption.
  destruct (take n (c_in c1)) as [[p r]|]; cbn; split; try reflexivity; Rgoal.
Qed.

Lemma wc_rel t d c1 c2 : R c1 c2 ->
  R (fst (write_control t d c1)) (fst (write_control t d c2)) /\
  (snd (write_control t d c1) =? 2)%N = (snd (write_control t d c2) =? 2)%N.
Proof.
  intros H. pose proof H as H'. Rsplit H'. unfold write_control.
  destruct (negb (is_control t)); [split; [exact H|reflexivity]|].
  destruct (_ <? _); [split; [exact H|reflexivity]|].
  destruct (c_wclosed c1), (c_wclosed c2); cbn; split; try reflexivity; Rgoal.
Qed.

Lemma rel_hpe {A} m c1 c2 : R c1 c2 -> @rel A (handle_protocol_error m c1) (handle_protocol_error m c2).
Proof.
  intros H. unfold handle_protocol_error.
  destruct (wc_rel websocket_CloseMessage (format_close websocket_CloseProtocolError m) c1 c2 H) as [W _].
  destruct (write_control _ _ c1) as [c1' n1], (write_control _ _ c2) as [c2' n2]. cbn in *. auto.
Qed.

Lemma rel_advance fixed c1 c2 : R c1 c2 -> rel (advance_frame fixed c1) (advance_frame fixed c2).
Proof.
  intros H. unfold advance_frame. apply rel_bind.
  { pose proof H as H'. Rsplit H'. unfold af_skip. replace (c_rem c2) with (c_rem c1) by assumption.
    replace (c_in c2) with (c_in c1) by assumption.
    destruct (0 <? c_rem c1); [destruct (skip_n _ _)|]; cbn; split; try reflexivity; try exact H; try Rgoal. }
  intros a1 a2 _ H1. apply rel_bind.
  { unfold af_head. apply rel_bind; [apply rel_readn; exact H1|].
    intros b1 b2 p H2. pose proof H2 as H2'. Rsplit H2'.
    destruct p as [|p0 [|p1 [|? ?]]]; try reflexivity.
    cbn [c_rem c_final set_rem]. replace (c_final b2) with (c_final b1) by assumption.
    repeat match goal with
           | |- rel (if ?b then _ else _) (if ?b then _ else _) => destruct b eqn:?
           | |- rel (handle_protocol_error _ _) (handle_protocol_error _ _) => apply rel_hpe; Rgoal
           | |- rel (MOk _ _) (MOk _ _) => split; [Rgoal|reflexivity]
           end. }
  intros b1 b2 [[final ft] mask] H2. apply rel_bind.
  { pose proof H2 as H2'. Rsplit H2'. unfold af_len. replace (c_rem b2) with (c_rem b1) by assumption.
    destruct (c_rem b1 =? 126).
    - apply rel_bind; [apply rel_readn; exact H2|]. intros d1 d2 p H3. Rsplit H3. split; [Rgoal|reflexivity].
    - destruct (c_rem b1 =? 127); [|split; [exact H2|reflexivity]].
      apply rel_bind; [apply rel_readn; exact H2|]. intros d1 d2 p H3. pose proof H3 as H3'. Rsplit H3'.
      cbn [c_rem set_rem]. destruct (fixed && _); [apply rel_hpe; Rgoal|split; [Rgoal|reflexivity]]. }
  intros d1 d2 _ H3. apply rel_bind.
  { pose proof H3 as H3'. Rsplit H3'. unfold af_mask. replace (c_server d2) with (c_server d1) by assumption.
    destruct (negb _); [apply rel_hpe; exact H3|]. destruct mask; [|split; [exact H3|reflexivity]].
    apply rel_bind; [apply rel_readn; exact H3|]. intros e1 e2 p H4. Rsplit H4. split; [Rgoal|reflexivity]. }
  intros e1 e2 _ H4. pose proof H4 as H4'. Rsplit H4'. destruct (_ || _).
  - unfold af_data.
    replace (c_len e2) with (c_len e1) by assumption. replace (c_rem e2) with (c_rem e1) by assumption.
    cbn [c_len c_limit set_len]. replace (c_limit e2) with (c_limit e1) by assumption.
    destruct (_ || _); [|split; [Rgoal|reflexivity]].
    assert (HR : R (set_len e1 (zi64 (c_len e1 + c_rem e1))) (set_len e2 (zi64 (c_len e1 + c_rem e1)))) by Rgoal.
    destruct (wc_rel websocket_CloseMessage (format_close websocket_CloseMessageTooBig []) _ _ HR) as [W _].
    destruct (write_control _ _ (set_len e1 _)) as [x1 n1], (write_control _ _ (set_len e2 _)) as [x2 n2]. cbn in *. auto.
  - unfold af_control. apply rel_bind.
    { replace (c_rem e2) with (c_rem e1) by assumption.
      destruct (0 <? c_rem e1); [|split; [exact H4|reflexivity]].
      pose proof (rel_readn (Z.to_nat (c_rem e1)) e1 e2 H4) as RR.
      destruct (c_readn _ e1) as [x1 p1|x1 q1|s1], (c_readn _ e2) as [x2 p2|x2 q2|s2]; cbn in RR; try contradiction; cbn.
      - destruct RR as [RR ->]. pose proof RR as RR'. Rsplit RR'. split; [Rgoal|].
        replace (c_server x2) with (c_server x1) by assumption. replace (c_key x2) with (c_key x1) by assumption. reflexivity.
      - destruct RR as [RR ->]. Rsplit RR. split; [Rgoal|reflexivity].
      - exact RR. }
    intros g1 g2 payload H5. pose proof H5 as H5'. Rsplit H5'.
    destruct (ft =? websocket_PongMessage); [split; [exact H5|reflexivity]|].
    destruct (ft =? websocket_PingMessage).
    { unfold handle_ping. destruct (wc_rel websocket_PongMessage payload g1 g2 H5) as [W1 W2].
      destruct (write_control _ _ g1) as [x1 n1], (write_control _ _ g2) as [x2 n2]. cbn in W1, W2. rewrite W2.
      destruct (n2 =? 2)%N; cbn; auto. }
    destruct (ft =? websocket_CloseMessage); [|split; [exact H5|reflexivity]].
    assert (HC : forall code, R (handle_close code g1) (handle_close code g2)).
    { intros code. unfold handle_close. apply wc_rel. exact H5. }
    destruct payload as [|y0 [|y1 text]]; try (split; [apply HC|reflexivity]).
    destruct (negb _); [apply rel_hpe; exact H5|]. destruct (negb _); [apply rel_hpe; exact H5|]. split; [apply HC|reflexivity].
Qed.

(* ------------------------------------------------------------------ through the loops *)
Definition relres {A} (r1 r2 : res (conn * A)) : Prop :=
  match r1, r2 with
  | Ok (c1, a1), Ok (c2, a2) => R c1 c2 /\ a1 = a2
  | Err e1, Err e2 => e1 = e2
  | Panic s1, Panic s2 => s1 = s2
  | _, _ => False
  end.

Lemma rel_next_loop fixed fuel : forall c1 c2, R c1 c2 ->
  relres (next_reader_loop fuel fixed c1) (next_reader_loop fuel fixed c2).
Proof.
  induction fuel as [|f IH]; intros c1 c2 H; pose proof H as H'; Rsplit H'; cbn [next_reader_loop];
    replace (c_err c2) with (c_err c1) by assumption.
  - destruct (c_err c1); cbn; auto.
  - destruct (c_err c1); [cbn; auto|].
    pose proof (rel_advance fixed c1 c2 H) as A.
    destruct (advance_frame fixed c1) as [x1 t1|x1 e1|s1], (advance_frame fixed c2) as [x2 t2|x2 e2|s2]; cbn in A; try contradiction.
    + destruct A as [A ->]. destruct (is_data t2); [cbn; auto|apply IH; exact A].
    + destruct A as [A ->]. cbn. split; [|reflexivity]. Rsplit A. Rgoal.
    + cbn. exact A.
Qed.

Lemma rel_read_all fixed fuel : forall c1 c2 acc, R c1 c2 ->
  relres (read_all fuel fixed c1 acc) (read_all fuel fixed c2 acc).
Proof.
  induction fuel as [|f IH]; intros c1 c2 acc H; pose proof H as H'; Rsplit H'; cbn [read_all]; [reflexivity|].
  replace (c_err c2) with (c_err c1) by assumption. destruct (c_err c1) eqn:?; [cbn; auto|].
  replace (c_rem c2) with (c_rem c1) by assumption. replace (c_in c2) with (c_in c1) by assumption.
  replace (c_server c2) with (c_server c1) by assumption. replace (c_key c2) with (c_key c1) by assumption.
  replace (c_final c2) with (c_final c1) by assumption.
  destruct (0 <? c_rem c1) eqn:?.
  { destruct (split_at _ _ _) as [[p rest]|].
    - apply IH. Rgoal.
    - cbn. split; [Rgoal|reflexivity]. }
  destruct (c_final c1) eqn:?; [cbn; auto|].
  pose proof (rel_advance fixed c1 c2 H) as A.
  destruct (advance_frame fixed c1) as [x1 t1|x1 e1|s1], (advance_frame fixed c2) as [x2 t2|x2 e2|s2]; cbn in A; try contradiction.
  - destruct A as [A ->]. destruct (is_data t2); apply IH; [Rsplit A; Rgoal|exact A].
  - destruct A as [A ->]. apply IH. Rsplit A. Rgoal.
  - cbn. exact A.
Qed.

Lemma rel_read_message fixed c1 c2 : R c1 c2 -> relres (read_message fixed c1) (read_message fixed c2).
Proof.
  intros H. pose proof H as H'. Rsplit H'. unfold read_message. replace (c_in c2) with (c_in c1) by assumption.
  assert (H0 : R (set_len c1 0) (set_len c2 0)) by Rgoal.
  pose proof (rel_next_loop fixed (S (S (length (c_in c1)))) _ _ H0) as N.
  destruct (next_reader_loop _ fixed (set_len c1 0)) as [[x1 r1]|e1|s1], (next_reader_loop _ fixed (set_len c2 0)) as [[x2 r2]|e2|s2];
    cbn in N; try contradiction; cbn [bind]; try exact N.
  destruct N as [N ->]. destruct r2 as [t|].
  - pose proof (rel_read_all fixed (S (S (length (c_in c1))) + S (S (length (c_in c1)))) x1 x2 [] N) as A.
    destruct (read_all _ fixed x1 []) as [[y1 q1]|e1|s1], (read_all _ fixed x2 []) as [[y2 q2]|e2|s2]; cbn in A; try contradiction; cbn [bind]; try exact A.
    destruct A as [A ->]. destruct q2; cbn; auto.
  - pose proof N as N'. Rsplit N'. unfold next_reader_fail. cbn [c_errcount set_errcount c_err].
    replace (c_errcount x2) with (c_errcount x1) by assumption. replace (c_err x2) with (c_err x1) by assumption.
    destruct (repeat_limit <=? _); [reflexivity|]. destruct (c_err x1) eqn:?; [|reflexivity]. cbn. split; [Rgoal|reflexivity].
Qed.

Lemma rel_read_extra fixed extra : forall c1 c2 acc, R c1 c2 ->
  relres (read_extra extra fixed c1 acc) (read_extra extra fixed c2 acc).
Proof.
  induction extra as [|n IH]; intros c1 c2 acc H; cbn [read_extra]; [cbn; auto|].
  pose proof (rel_read_message fixed c1 c2 H) as M.
  destruct (read_message fixed c1) as [[x1 r1]|e1|s1], (read_message fixed c2) as [[x2 r2]|e2|s2]; cbn in M; try contradiction; cbn [bind]; try exact M.
  destruct M as [M ->]. apply IH. exact M.
Qed.

Lemma rel_read_loop fixed extra fuel : forall c1 c2 acc, R c1 c2 ->
  relres (read_loop fuel extra fixed c1 acc) (read_loop fuel extra fixed c2 acc).
Proof.
  induction fuel as [|f IH]; intros c1 c2 acc H; cbn [read_loop]; [reflexivity|].
  pose proof (rel_read_message fixed c1 c2 H) as M.
  destruct (read_message fixed c1) as [[x1 r1]|e1|s1], (read_message fixed c2) as [[x2 r2]|e2|s2]; cbn in M; try contradiction; cbn [bind]; try exact M.
  destruct M as [M ->]. destruct r2; [apply IH; exact M|apply rel_read_extra; exact M].
Qed.

(* application writes touch the write side only *)
Lemma do_app_R op c : R (fst (do_app op c)) c.
Proof.
  destruct op as [t d|t d]; cbn [do_app].
  - unfold write_control. destruct (negb _); [reflexivity|]. destruct (_ <? _); [reflexivity|]. destruct (c_wclosed c); reflexivity.
  - unfold write_message. destruct (_ && _); [reflexivity|]. destruct (c_wclosed c); [reflexivity|]. destruct (_ && _); reflexivity.
Qed.

Lemma R_trans c1 c2 c3 : R c1 c2 -> R c2 c3 -> R c1 c3.
Proof. unfold R. congruence. Qed.
Lemma R_sym c1 c2 : R c1 c2 -> R c2 c1.
Proof. unfold R. congruence. Qed.

Lemma apply_apps_R k apps : forall c codes, R (fst (apply_apps k apps c codes)) c.
Proof.
  induction apps as [|[i op] more IH]; intros c codes; cbn [apply_apps]; [reflexivity|].
  destruct (Nat.eqb i k); [|apply IH].
  pose proof (do_app_R op c) as D. destruct (do_app op c) as [c' n]. cbn in D.
  eapply R_trans; [apply IH|exact D].
Qed.

(* whatever the application writes, and whenever: the reads return what they return without it *)
Lemma read_loop_app_results fixed fuel : forall k apps c1 c2 acc codes, R c1 c2 ->
  match read_loop_app fuel k fixed apps c1 acc codes, read_loop fuel 0 fixed c2 acc with
  | Ok (c1', rs1, _), Ok (c2', rs2) => R c1' c2' /\ rs1 = rs2
  | Err e1, Err e2 => e1 = e2
  | Panic s1, Panic s2 => s1 = s2
  | _, _ => False
  end.
Proof.
  induction fuel as [|f IH]; intros k apps c1 c2 acc codes H; cbn [read_loop_app read_loop]; [reflexivity|].
  pose proof (apply_apps_R k apps c1 codes) as A. destruct (apply_apps k apps c1 codes) as [c1a codes']. cbn in A.
  pose proof (rel_read_message fixed c1a c2 (R_trans _ _ _ A H)) as M.
  destruct (read_message fixed c1a) as [[x1 r1]|e1|s1], (read_message fixed c2) as [[x2 r2]|e2|s2]; cbn in M; try contradiction; cbn [bind]; try exact M.
  destruct M as [M ->]. destruct r2; [apply IH; exact M|]. cbn [read_extra]. auto.
Qed.

(* ------------------------------------------------------------------ after the own Close nothing is written *)
Definition quiet (c0 c : conn) : Prop := c_out c = c_out c0 /\ c_wclosed c = true.

Definition keeps_quiet {A} (c0 : conn) (m : mres A) : Prop :=
  match m with MOk c' _ | MErr c' _ => quiet c0 c' | MPanic _ => True end.

Lemma kq_bind {A B} c0 (m : mres A) (K : conn -> A -> mres B) :
  keeps_quiet c0 m -> (forall c1 a, quiet c0 c1 -> keeps_quiet c0 (K c1 a)) -> keeps_quiet c0 (mbind m K).
Proof. intros Hm HK. destruct m as [c1 a|c1 e|s]; cbn [mbind]; [apply HK; exact Hm|exact Hm|exact I]. Qed.

Lemma kq_readn n c0 c : quiet c0 c -> keeps_quiet c0 (c_readn n c).
Proof. intros H. unfold c_readn. destruct (take n (c_in c)) as [[p r]|]; cbn; exact H. Qed.

Lemma wc_quiet t d c0 c : quiet c0 c -> quiet c0 (fst (write_control t d c)).
Proof.
  intros [H1 H2]. unfold write_control. destruct (negb _); [split; assumption|]. destruct (_ <? _); [split; assumption|].
  rewrite H2. split; assumption.
Qed.

Lemma kq_hpe {A} m c0 c : quiet c0 c -> @keeps_quiet A c0 (handle_protocol_error m c).
Proof.
  intros H. unfold handle_protocol_error. pose proof (wc_quiet websocket_CloseMessage (format_close websocket_CloseProtocolError m) c0 c H) as W.
  destruct (write_control _ _ c) as [c' n]. exact W.
Qed.

Lemma advance_frame_quiet fixed c : c_wclosed c = true -> keeps_quiet c (advance_frame fixed c).
Proof.
  intros Hw. assert (Q0 : quiet c c) by (split; [reflexivity|exact Hw]).
  unfold advance_frame. apply kq_bind.
  { unfold af_skip. destruct (0 <? c_rem c); [destruct (skip_n _ _)|]; exact Q0. }
  intros c1 _ H1. apply kq_bind.
  { unfold af_head. apply kq_bind; [apply kq_readn; exact H1|].
    intros c2 p H2. destruct p as [|p0 [|p1 [|? ?]]]; try exact I.
    repeat match goal with
           | |- keeps_quiet _ (if ?b then _ else _) => destruct b
           | |- keeps_quiet _ (handle_protocol_error _ _) => apply kq_hpe; exact H2
           | |- keeps_quiet _ (MOk _ _) => exact H2
           end. }
  intros c2 [[final ft] mask] H2. apply kq_bind.
  { unfold af_len. destruct (c_rem c2 =? 126).
    - apply kq_bind; [apply kq_readn; exact H2|]. intros c3 p H3. exact H3.
    - destruct (c_rem c2 =? 127); [|exact H2].
      apply kq_bind; [apply kq_readn; exact H2|]. intros c3 p H3.
      destruct (fixed && _); [apply kq_hpe; exact H3|exact H3]. }
  intros c3 _ H3. apply kq_bind.
  { unfold af_mask. destruct (negb _); [apply kq_hpe; exact H3|]. destruct mask; [|exact H3].
    apply kq_bind; [apply kq_readn; exact H3|]. intros c4 p H4. exact H4. }
  intros c4 _ H4. destruct (_ || _).
  - unfold af_data. destruct (_ || _); [|exact H4].
    assert (Q : quiet c (set_len c4 (zi64 (c_len c4 + c_rem c4)))) by exact H4.
    pose proof (wc_quiet websocket_CloseMessage (format_close websocket_CloseMessageTooBig []) c _ Q) as W.
    destruct (write_control _ _ _) as [c' n]. exact W.
  - unfold af_control. apply kq_bind.
    { destruct (0 <? c_rem c4); [|exact H4].
      pose proof (kq_readn (Z.to_nat (c_rem c4)) c c4 H4) as RR.
      destruct (c_readn _ c4) as [c5 p|c5 e|s]; cbn in *; auto. }
    intros c5 payload H5.
    destruct (ft =? websocket_PongMessage); [exact H5|].
    destruct (ft =? websocket_PingMessage).
    { unfold handle_ping. pose proof (wc_quiet websocket_PongMessage payload c c5 H5) as W.
      destruct (write_control _ _ c5) as [c' n]. cbn in W. destruct (n =? 2)%N; exact W. }
    destruct (ft =? websocket_CloseMessage); [|exact H5].
    assert (HC : forall code, quiet c (handle_close code c5)).
    { intros code. unfold handle_close. apply wc_quiet. exact H5. }
    destruct payload as [|y0 [|y1 text]]; try apply HC.
    destruct (negb _); [apply kq_hpe; exact H5|]. destruct (negb _); [apply kq_hpe; exact H5|]. apply HC.
Qed.

Lemma quiet_trans c0 c1 c2 : quiet c0 c1 -> quiet c1 c2 -> quiet c0 c2.
Proof. intros [A1 A2] [B1 B2]. split; congruence. Qed.

Lemma next_loop_quiet fixed fuel : forall c, c_wclosed c = true ->
  match next_reader_loop fuel fixed c with Ok (c', _) => quiet c c' | _ => True end.
Proof.
  induction fuel as [|f IH]; intros c Hw; cbn [next_reader_loop].
  - destruct (c_err c); [split; [reflexivity|exact Hw]|exact I].
  - destruct (c_err c); [split; [reflexivity|exact Hw]|].
    pose proof (advance_frame_quiet fixed c Hw) as Q.
    destruct (advance_frame fixed c) as [c1 t|c1 e|s]; cbn in Q; [| |exact I].
    + destruct (is_data t); [exact Q|]. specialize (IH c1 (proj2 Q)).
      destruct (next_reader_loop f fixed c1) as [[c2 r]| |]; auto. eapply quiet_trans; eauto.
    + exact Q.
Qed.

Lemma read_all_quiet fixed fuel : forall c acc, c_wclosed c = true ->
  match read_all fuel fixed c acc with Ok (c', _) => quiet c c' | _ => True end.
Proof.
  induction fuel as [|f IH]; intros c acc Hw; cbn [read_all]; [exact I|].
  assert (Q0 : quiet c c) by (split; [reflexivity|exact Hw]).
  destruct (c_err c); [exact Q0|].
  destruct (0 <? c_rem c).
  { destruct (split_at _ _ _) as [[p rest]|]; [|exact Q0].
    specialize (IH (set_rem (set_in c rest) 0) ((if c_server c then mask_bytes (c_key c) 0 p else p) :: acc) Hw).
    destruct (read_all f fixed _ _) as [[c' r]| |]; auto. }
  destruct (c_final c); [exact Q0|].
  pose proof (advance_frame_quiet fixed c Hw) as Q.
  destruct (advance_frame fixed c) as [c1 t|c1 e|s]; cbn in Q; [| |exact I].
  - destruct (is_data t).
    + specialize (IH (set_err c1 (Some EInternal)) acc (proj2 Q)). destruct (read_all f fixed _ _) as [[c' r]| |]; auto.
      eapply quiet_trans; [exact Q|exact IH].
    + specialize (IH c1 acc (proj2 Q)). destruct (read_all f fixed _ _) as [[c' r]| |]; auto. eapply quiet_trans; eauto.
  - specialize (IH (set_err c1 (Some e)) acc (proj2 Q)). destruct (read_all f fixed _ _) as [[c' r]| |]; auto.
    eapply quiet_trans; [exact Q|exact IH].
Qed.

Lemma read_message_quiet fixed c : c_wclosed c = true ->
  match read_message fixed c with Ok (c', _) => quiet c c' | _ => True end.
Proof.
  intros Hw. unfold read_message.
  pose proof (next_loop_quiet fixed (S (S (length (c_in c)))) (set_len c 0) Hw) as N.
  destruct (next_reader_loop _ fixed (set_len c 0)) as [[c1 [t|]]| |]; cbn [bind]; auto.
  - pose proof (read_all_quiet fixed (S (S (length (c_in c))) + S (S (length (c_in c)))) c1 [] (proj2 N)) as A.
    destruct (read_all _ fixed c1 []) as [[c2 [chunks|e]]| |]; cbn [bind]; auto; eapply quiet_trans; eauto.
  - unfold next_reader_fail. destruct (repeat_limit <=? _); [exact I|]. cbn [c_err set_errcount].
    destruct (c_err c1); [|exact I]. exact N.
Qed.

Lemma read_extra_quiet fixed extra : forall c acc, c_wclosed c = true ->
  match read_extra extra fixed c acc with Ok (c', _) => quiet c c' | _ => True end.
Proof.
  induction extra as [|n IH]; intros c acc Hw; cbn [read_extra]; [split; [reflexivity|exact Hw]|].
  pose proof (read_message_quiet fixed c Hw) as M.
  destruct (read_message fixed c) as [[c1 r]| |]; cbn [bind]; auto.
  specialize (IH c1 (r :: acc) (proj2 M)). destruct (read_extra n fixed c1 _) as [[c2 rs]| |]; auto. eapply quiet_trans; eauto.
Qed.

Lemma read_loop_quiet fixed extra fuel : forall c acc, c_wclosed c = true ->
  match read_loop fuel extra fixed c acc with Ok (c', _) => quiet c c' | _ => True end.
Proof.
  induction fuel as [|f IH]; intros c acc Hw; cbn [read_loop]; [exact I|].
  pose proof (read_message_quiet fixed c Hw) as M.
  destruct (read_message fixed c) as [[c1 r]| |]; cbn [bind]; auto.
  destruct r.
  - specialize (IH c1 (RMsg t p :: acc) (proj2 M)). destruct (read_loop f extra fixed c1 _) as [[c2 rs]| |]; auto. eapply quiet_trans; eauto.
  - pose proof (read_extra_quiet fixed extra c1 (RErr e :: acc) (proj2 M)) as E.
    destruct (read_extra extra fixed c1 _) as [[c2 rs]| |]; auto. eapply quiet_trans; eauto.
Qed.

(* ------------------------------------------------------------------ the theorems *)
(* The application has sent its own Close (any frames [own] written so far, latch set) and keeps
   reading: for every byte stream the peer still sends, the reads return exactly what the RFC
   receiver delivers -- every message up to the peer's Close, Pings inside fragmented messages
   notwithstanding (their Pongs cannot be written any more and that failure never surfaces) -- then
   the error of the outcome (the peer's CloseError for a peer Close), permanently; and nothing at all
   is written after the own Close. *)
Theorem after_own_close server limit extra bs own :
  wf_bytes bs -> limit < 9223372036854775808 -> (extra < 999)%nat ->
  exists e closefr c',
    agrees (snd (rfc_receive server limit bs)) e closefr /\
    read_loop (S (length bs)) extra true (set_out (new_conn server limit bs) own true) [] =
      Ok (c', rev (msgs_of (fst (rfc_receive server limit bs)) ++ repeat (RErr e) (S extra))) /\
    c_out c' = own.
Proof.
  intros Hwf Hl Hex. destruct (lib_refines_rfc server limit extra bs Hwf Hl Hex) as (e & cf & A & E & _).
  exists e, cf. unfold lib_session in E.
  set (c0 := new_conn server limit bs) in *. set (c1 := set_out c0 own true).
  pose proof (rel_read_loop true extra (S (length bs)) c1 c0 [] ltac:(reflexivity)) as RL.
  pose proof (read_loop_quiet true extra (S (length bs)) c1 [] eq_refl) as Q.
  destruct (read_loop (S (length bs)) extra true c0 []) as [[c0' rs0]| |]; cbn [bind] in E; try discriminate.
  destruct (read_loop (S (length bs)) extra true c1 []) as [[c1' rs1]| |]; cbn in RL; try contradiction.
  destruct RL as [_ ->]. exists c1'. split; [exact A|]. split.
  - assert (E1 : rev' rs0 = msgs_of (fst (rfc_receive server limit bs)) ++ repeat (RErr e) (S extra)) by congruence.
    rewrite <- E1, rev'_rev, rev_involutive. reflexivity.
  - exact (proj1 Q).
Qed.

(* The same at any point, and for any application writes whatsoever (WriteControl / WriteMessage of
   any type at any read boundary): the values the reads return are those of the session without
   them. *)
Theorem app_writes_do_not_change_reads fixed server limit apps bs :
  match lib_session_app fixed server limit apps bs, lib_session fixed server limit 0 bs with
  | Ok (rs1, _, _), Ok (rs2, _) => rs1 = rs2
  | Err e1, Err e2 => e1 = e2
  | Panic s1, Panic s2 => s1 = s2
  | _, _ => False
  end.
Proof.
  unfold lib_session_app, lib_session.
  pose proof (read_loop_app_results fixed (S (length bs)) 0 apps (new_conn server limit bs) (new_conn server limit bs) [] []
                ltac:(reflexivity)) as H.
  destruct (read_loop_app _ 0 fixed apps _ [] []) as [[[c1 rs1] codes]| |], (read_loop _ 0 fixed _ []) as [[c2 rs2]| |];
    cbn in H; try contradiction; cbn [bind fst snd]; auto.
  destruct H as [_ ->]. reflexivity.
Qed.

(* every reader state: once the close-sent latch is set, a frame step writes nothing *)
Theorem latched_writes_nothing fixed c : c_wclosed c = true ->
  match advance_frame fixed c with
  | MOk c' _ | MErr c' _ => c_out c' = c_out c /\ c_wclosed c' = true
  | MPanic _ => True
  end.
Proof. exact (advance_frame_quiet fixed c). Qed.

(* non-vacuity: own Close 1000 first; the peer then sends Ping, "he" + Ping + "llo", Close 1001 *)
Example own_close_example :
  let wire := [137; 1; 80; 1; 2; 104; 101; 137; 0; 128; 3; 108; 108; 111; 136; 2; 3; 233]%N in
  lib_session_app true false 0 [(0%nat, AControl websocket_CloseMessage [3; 232]%N)] wire =
  Ok ([RMsg 1 [104; 101; 108; 108; 111]%N; RErr (EClose 1001 [])], [(websocket_CloseMessage, [3; 232]%N)], [0%N]).
Proof. vm_compute. reflexivity. Qed.
