(* The public write entry points of rtmp.Protocol: WriteMessage, and WritePacket (marshal, register the
   request, WriteMessage, roll the registration back on failure and return the WriteMessage error).
   A session whose operations go through any mix of the two has the outcome of the session that calls
   WriteMessage with the same messages (Model/Faults.v rtmp_write_session): same number of completed
   operations, same error (cause), same transport -- so every theorem about rtmp_write_session carries
   over; and a request whose write failed is not left registered. *)
From Verif Require Import Lib.Base Lib.Sx Lib.Err Lib.IO Model.Faults.
Open Scope N_scope.

Lemma rtmp_write_entry_proj e o t b :
  let '(oe, t', b') := rtmp_write_entry e o t b in rtmp_write_message o b = (oe, b').
Proof.
  unfold rtmp_write_entry. destruct e as [|k tid nm].
  - destruct (rtmp_write_message o b) as [oe b']. reflexivity.
  - destruct (rtmp_write_message o b) as [[err|] b']; reflexivity.
Qed.

Lemma rtmp_write_eops_proj ops : forall t b n,
  let '(n', oe, b', t') := rtmp_write_eops ops t b n in
  rtmp_write_ops (map snd ops) b n = (n', oe, b').
Proof.
  induction ops as [|[e o] r IH]; intros t b n; cbn [rtmp_write_eops rtmp_write_ops map snd].
  - reflexivity.
  - pose proof (rtmp_write_entry_proj e o t b) as P.
    destruct (rtmp_write_entry e o t b) as [[oe t1] b1]. rewrite P.
    destruct oe as [err|]; [reflexivity|]. apply IH.
Qed.

Lemma msgs_write_ops_length ms : forall cs, length (msgs_write_ops cs ms) = length ms.
Proof. induction ms as [|m r IH]; intros cs; cbn; [reflexivity|]. now rewrite IH. Qed.

Lemma map_snd_combine {A B} (l1 : list A) : forall (l2 : list B), length l1 = length l2 ->
  map snd (combine l1 l2) = l2.
Proof.
  induction l1 as [|a r IH]; intros [|x l2] H; cbn in *; try reflexivity; try discriminate.
  f_equal. apply IH. now injection H.
Qed.

Theorem rtmp_write_session_e_proj hs ops w :
  let '(n, oe, w', t) := rtmp_write_session_e hs ops w in
  rtmp_write_session hs (map snd ops) w = (n, oe, w').
Proof.
  unfold rtmp_write_session_e, rtmp_write_session.
  destruct (if hs then raw_copies [1; 1536; 1536] w 0 else (0, None, w)) as [[n1 e1] w1].
  destruct e1 as [e|]; [reflexivity|].
  pose proof (rtmp_write_eops_proj
                (combine (map fst ops) (msgs_write_ops DEFCHUNK (map snd ops))) [] (bufw_new w1) n1) as P.
  destruct (rtmp_write_eops _ _ _ _) as [[[n2 e2] b] t].
  rewrite map_snd_combine in P by (now rewrite msgs_write_ops_length, !map_length).
  rewrite P. reflexivity.
Qed.

(* ---- the roll-back ---- *)
Lemma tx_del_not_in x t : ~ In x (map fst (tx_del x t)).
Proof.
  unfold tx_del. induction t as [|[k v] r IH]; cbn; [tauto|].
  destruct (k =? x) eqn:E; cbn; [exact IH|].
  intros [H|H]; [subst; now rewrite N.eqb_refl in E | now apply IH].
Qed.

(* the operation that failed: the one at position n' - n; when it is a request, its transaction id
   is not registered afterwards *)
Lemma rtmp_write_eops_rollback ops : forall t b n,
  let '(n', oe, b', t') := rtmp_write_eops ops t b n in
  oe <> None ->
  exists e o, nth_error ops (N.to_nat (n' - n)) = Some (e, o) /\ n <= n' /\
              forall x, request_tid e = Some x -> ~ In x (map fst t').
Proof.
  induction ops as [|[e o] r IH]; intros t b n; cbn [rtmp_write_eops].
  - intros H. now elim H.
  - unfold rtmp_write_entry.
    destruct e as [|k tid nm].
    + destruct (rtmp_write_message o b) as [[err|] b1].
      * intros _. exists ViaMessage, o. rewrite N.sub_diag. cbn. repeat split; [lia|]. intros x H. discriminate.
      * specialize (IH t b1 (N.succ n)). destruct (rtmp_write_eops r t b1 (N.succ n)) as [[[n' oe] b'] t'].
        intros H. destruct (IH H) as (e & o' & Hn & Hle & Hx). exists e, o'. repeat split; [|lia|exact Hx].
        replace (N.to_nat (n' - n)) with (S (N.to_nat (n' - N.succ n))) by lia. exact Hn.
    + destruct (rtmp_write_message o b) as [[err|] b1].
      * intros _. exists (ViaPacket k tid nm), o. rewrite N.sub_diag. cbn [N.to_nat nth_error].
        repeat split; [lia|]. intros x H. unfold on_packet_write_failed. rewrite H. apply tx_del_not_in.
      * set (t1 := on_packet_writen (ViaPacket k tid nm) t).
        specialize (IH t1 b1 (N.succ n)). destruct (rtmp_write_eops r t1 b1 (N.succ n)) as [[[n' oe] b'] t'].
        intros H. destruct (IH H) as (e & o' & Hn & Hle & Hx). exists e, o'. repeat split; [|lia|exact Hx].
        replace (N.to_nat (n' - n)) with (S (N.to_nat (n' - N.succ n))) by lia. exact Hn.
Qed.

(* ... and the transactions of a session without error are exactly the registrations, in order *)
Fixpoint registered (es : list wentry) (t : txs) : txs :=
  match es with [] => t | e :: r => registered r (on_packet_writen e t) end.

Lemma rtmp_write_eops_registered ops : forall t b n,
  let '(n', oe, b', t') := rtmp_write_eops ops t b n in
  oe = None -> t' = registered (map fst ops) t.
Proof.
  induction ops as [|[e o] r IH]; intros t b n; cbn [rtmp_write_eops map fst registered]; [reflexivity|].
  unfold rtmp_write_entry. destruct e as [|k tid nm].
  - destruct (rtmp_write_message o b) as [[err|] b1]; [discriminate|].
    specialize (IH t b1 (N.succ n)). destruct (rtmp_write_eops r t b1 (N.succ n)) as [[[n' oe] b'] t']. exact IH.
  - destruct (rtmp_write_message o b) as [[err|] b1]; [discriminate|].
    set (t1 := on_packet_writen (ViaPacket k tid nm) t).
    specialize (IH t1 b1 (N.succ n)). destruct (rtmp_write_eops r t1 b1 (N.succ n)) as [[[n' oe] b'] t']. exact IH.
Qed.

(* ---- at the level of sessions ---- *)
Lemma raw_copies_count sizes : forall w n n' w',
  raw_copies sizes w n = (n', None, w') -> n' = n + N.of_nat (length sizes).
Proof.
  induction sizes as [|k r IH]; intros w n n' w'; cbn [raw_copies length].
  - intros H. injection H as <- _. lia.
  - destruct (copy_bytes _ w) as [[e|] w1]; [discriminate|]. intros H. apply IH in H. lia.
Qed.

Lemma nth_error_combine_fst {A B C} (ops : list (A * B)) : forall (l2 : list C) k e o,
  nth_error (combine (map fst ops) l2) k = Some (e, o) -> exists m, nth_error ops k = Some (e, m).
Proof.
  induction ops as [|[a b] r IH]; intros [|x l2] k e o; cbn [map fst combine]; try (destruct k; discriminate).
  destruct k as [|k]; cbn [nth_error].
  - intros H. injection H as <- _. now exists b.
  - apply IH.
Qed.

(* n1 = the handshake operations (c0, c1, c2) before the first message *)
Definition hs_count (hs : bool) : N := if hs then 3 else 0.

Theorem rtmp_write_session_e_rollback hs ops w :
  let '(n, oe, w', t) := rtmp_write_session_e hs ops w in
  oe <> None ->
  t = [] \/
  exists e m, nth_error ops (N.to_nat (n - hs_count hs)) = Some (e, m) /\ hs_count hs <= n /\
              forall x, request_tid e = Some x -> ~ In x (map fst t).
Proof.
  unfold rtmp_write_session_e.
  destruct (if hs then raw_copies [1; 1536; 1536] w 0 else (0, None, w)) as [[n1 e1] w1] eqn:E.
  destruct e1 as [e|]; [intros _; now left|].
  assert (Hn1 : n1 = hs_count hs).
  { destruct hs; cbn [hs_count]; [apply raw_copies_count in E; cbn in E; lia | now injection E as <- _]. }
  pose proof (rtmp_write_eops_rollback
                (combine (map fst ops) (msgs_write_ops DEFCHUNK (map snd ops))) [] (bufw_new w1) n1) as P.
  destruct (rtmp_write_eops _ _ _ _) as [[[n2 e2] b] t].
  intros H. right. destruct (P H) as (e & o & Hn & Hle & Hx).
  apply nth_error_combine_fst in Hn. destruct Hn as [m Hm]. subst n1.
  exists e, m. repeat split; assumption.
Qed.

Theorem rtmp_write_session_e_registered hs ops w :
  let '(n, oe, w', t) := rtmp_write_session_e hs ops w in
  oe = None -> t = registered (map fst ops) [].
Proof.
  unfold rtmp_write_session_e.
  destruct (if hs then raw_copies [1; 1536; 1536] w 0 else (0, None, w)) as [[n1 e1] w1].
  destruct e1 as [e|]; [discriminate|].
  pose proof (rtmp_write_eops_registered
                (combine (map fst ops) (msgs_write_ops DEFCHUNK (map snd ops))) [] (bufw_new w1) n1) as P.
  destruct (rtmp_write_eops _ _ _ _) as [[[n2 e2] b] t].
  intros H. rewrite (P H). f_equal.
  assert (L : length (map fst ops) = length (msgs_write_ops DEFCHUNK (map snd ops)))
    by (now rewrite msgs_write_ops_length, !map_length).
  revert L. generalize (msgs_write_ops DEFCHUNK (map snd ops)). generalize (map fst ops).
  induction l as [|a r IH]; intros [|x l2] L; cbn in *; try reflexivity; try discriminate.
  f_equal. apply IH. now injection L.
Qed.
